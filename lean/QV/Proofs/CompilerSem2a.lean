import QV.Proofs.CompilerSem
/-!
# Semantic correctness of the compiler model on wider classes – part 1: infrastructure

`CompilerSem.lean` proves the values on the qubits for ONE tree-like definition without constants; there the
free set is empty while the expression is compiled, so every ancilla is a new qubit.  This file generalises
the invariants so that

* constants are allowed (`TRUE` / `FALSE` qubits, created on first use, are *known symbols* like arguments),
* named intermediates are allowed (known symbols bound to promoted qubits),
* the free set may be non-empty: *scratch space* of a state is `Avail s q` (`q` in the free set or not yet
  allocated); the invariant is that every qubit of the scratch space is zero;
* kept ancillas (`kept_ancillas`, the ancillas of statements whose result the final `uncompute_all` undoes) are
  never in the free set, so no ancilla handed out by `get_free_ancilla` is kept and `mark_ancilla` marks it.

It also contains the fact about reverse replay that makes the inline `uncompute` sound on the class
(`bennettF`): replaying, in reverse, the gates whose target is marked restores the marked qubits, provided
every control of every gate is marked itself or had, when the gate was applied, the value it has at the end.
-/
namespace QV.Compiler
open QV

/-! ### reverse replay of the gates with a marked target -/

/-- every control `c` of every gate of the list satisfies `Q f c`, `f` being the basis state just before
the gate when the list is run from the given state -/
def CtlOK (Q : FState → Nat → Prop) : List AGate → FState → Prop
  | [], _ => True
  | g :: l, f => (∀ c ∈ g.wires.dropLast, Q f c) ∧ CtlOK Q l (stepF f g)

theorem CtlOK.append {Q : FState → Nat → Prop} : ∀ (a b : List AGate) (f : FState),
    CtlOK Q (a ++ b) f ↔ CtlOK Q a f ∧ CtlOK Q b (runF a f)
  | [], b, f => by simp [CtlOK, runF]
  | g :: a, b, f => by
    simp only [List.cons_append, CtlOK, runF_cons, CtlOK.append a b, and_assoc]

theorem CtlOK.mono {Q Q' : FState → Nat → Prop} (h : ∀ f c, Q f c → Q' f c) :
    ∀ (l : List AGate) (f : FState), CtlOK Q l f → CtlOK Q' l f
  | [], _, _ => trivial
  | _ :: l, _, ⟨h1, h2⟩ => ⟨fun c hc => h _ c (h1 c hc), CtlOK.mono h l _ h2⟩

/-- the gates `uncompute` replays for the marked set `M`: those with a marked target, in reverse -/
def rep (M : List Nat) (l : List AGate) : List AGate := (l.filter (fun g => M.contains g.target)).reverse

theorem all_congr' {cs : List Nat} {f g : Nat → Bool} (h : ∀ c ∈ cs, f c = g c) : cs.all f = cs.all g := by
  induction cs with
  | nil => rfl
  | cons a cs ih =>
    simp only [List.all_cons]
    rw [h a List.mem_cons_self, ih (fun c hc => h c (List.mem_cons_of_mem _ hc))]

theorem wires_split {g : AGate} (h : g.wires ≠ []) :
    ∃ cs t, g.wires = cs ++ [t] ∧ g.target = t ∧ g.wires.dropLast = cs := by
  refine ⟨g.wires.dropLast, g.wires.getLast h, (List.dropLast_concat_getLast h).symm, ?_, rfl⟩
  unfold AGate.target
  rw [List.getLast?_eq_some_getLast h]
  rfl

/-- **Reverse replay restores the marked qubits.**  `l` a list of X/CX/MCX gates on distinct wires, run from
`f0` to `f1`; `M` a set of qubits.  If every control of every gate is in `M` or had, just before the gate, the
value it has in `f1`, then running from `f1` the gates of `l` whose target is in `M`, in reverse order, gives
every qubit of `M` the value it had in `f0` and leaves the others as in `f1`. -/
theorem bennettF (M : List Nat) (f1 : FState) :
    ∀ (l : List AGate) (f0 : FState),
      (∀ g ∈ l, g.cls.isMCXLike = true ∧ g.wires.Nodup ∧ g.wires ≠ []) →
      CtlOK (fun f c => M.contains c = true ∨ f c = f1 c) l f0 → runF l f0 = f1 →
      (∀ q, M.contains q = true → runF (rep M l) f1 q = f0 q) ∧
      (∀ q, M.contains q = false → runF (rep M l) f1 q = f1 q)
  | [], f0, _, _, h => by
    have : f0 = f1 := h
    subst this
    exact ⟨fun _ _ => rfl, fun _ _ => rfl⟩
  | g :: l, f0, hok, hc, h => by
    obtain ⟨hmcx, hnd, hne⟩ := hok g List.mem_cons_self
    obtain ⟨cs, t, hw, ht, hdl⟩ := wires_split hne
    obtain ⟨ihM, ihN⟩ := bennettF M f1 l (stepF f0 g)
      (fun g' hg' => hok g' (List.mem_cons_of_mem _ hg')) hc.2 h
    have hstep : ∀ f, stepF f g = applyF g f := by
      intro f; unfold stepF; rw [hmcx]; rfl
    have hnt : t ∉ cs := by
      rw [hw] at hnd
      have := (List.nodup_append.mp hnd).2.2
      intro hm; exact this t hm t (by simp) rfl
    have hhead : ∀ c ∈ cs, M.contains c = true ∨ f0 c = f1 c := by
      intro c hcm; exact hc.1 c (by rw [hdl]; exact hcm)
    have hf0' : ∀ q, q ≠ t → stepF f0 g q = f0 q := fun q hq => by
      rw [hstep]; exact applyF_ne g cs t hw f0 q hq
    have hf0t : stepF f0 g t = Bool.xor (f0 t) (cs.all f0) := by
      rw [hstep]; exact applyF_eq g cs t hw f0
    by_cases hMt : M.contains t = true
    · have hrep : rep M (g :: l) = rep M l ++ [g] := by
        unfold rep; simp only [List.filter_cons, ht, hMt, ↓reduceIte, List.reverse_cons]
      rw [hrep]
      have hrun : ∀ q, runF (rep M l ++ [g]) f1 q = applyF g (runF (rep M l) f1) q := by
        intro q; rw [runF_append]; show stepF _ g q = _; rw [hstep]
      have hall : cs.all (runF (rep M l) f1) = cs.all f0 := by
        apply all_congr'
        intro c hcm
        have hct : c ≠ t := fun e => hnt (e ▸ hcm)
        cases hMc : M.contains c with
        | true => rw [ihM c hMc, hf0' c hct]
        | false =>
          rw [ihN c hMc]
          rcases hhead c hcm with h' | h'
          · rw [hMc] at h'; cases h'
          · exact h'.symm
      refine ⟨fun q hq => ?_, fun q hq => ?_⟩
      · rw [hrun]
        by_cases hqt : q = t
        · rw [hqt, applyF_eq g cs t hw, hall, ihM t hMt, hf0t]
          cases f0 t <;> cases cs.all f0 <;> rfl
        · rw [applyF_ne g cs t hw _ q hqt, ihM q hq, hf0' q hqt]
      · rw [hrun]
        have hqt : q ≠ t := by rintro rfl; rw [hMt] at hq; cases hq
        rw [applyF_ne g cs t hw _ q hqt, ihN q hq]
    · have hMt' : M.contains t = false := by simpa using hMt
      have hrep : rep M (g :: l) = rep M l := by
        unfold rep; simp only [List.filter_cons, ht, hMt', Bool.false_eq_true, ↓reduceIte]
      rw [hrep]
      refine ⟨fun q hq => ?_, ihN⟩
      have hqt : q ≠ t := by rintro rfl; rw [hMt'] at hq; cases hq
      rw [ihM q hq, hf0' q hqt]

/-! ### scratch space and known symbols -/

/-- the scratch space of a state: qubits in the free set and qubits not allocated yet -/
def Avail (s : CState) (q : Nat) : Prop := q ∈ s.qc.free ∨ s.qc.numQubits ≤ q

/-- the names an expression of the class may read: the names in scope and the two constants -/
def Known (scope : List String) (n : String) : Prop := n ∈ scope ∨ n = "TRUE" ∨ n = "FALSE"

/-- the value a known name stands for -/
def kval (ρ : Env) (n : String) : Bool := if n = "TRUE" then true else if n = "FALSE" then false else ρ n

theorem ancLike_TRUE : ancLike "TRUE" = false := by decide
theorem ancLike_FALSE : ancLike "FALSE" = false := by decide

theorem notAnc_of_notReserved {n : String} (h : reservedName n = false) : ancLike n = false := by
  simp only [reservedName, scratchName, Bool.or_eq_false_iff] at h
  exact h.2

theorem known_notAnc {scope : List String} {n : String} (hs : ∀ m ∈ scope, reservedName m = false)
    (h : Known scope n) : ancLike n = false := by
  rcases h with h | rfl | rfl
  · exact notAnc_of_notReserved (hs n h)
  · exact ancLike_TRUE
  · exact ancLike_FALSE

theorem kval_scope {scope : List String} {ρ : Env} {n : String} (hs : ∀ m ∈ scope, reservedName m = false)
    (h : n ∈ scope) : kval ρ n = ρ n := by
  have hr := hs n h
  simp only [reservedName, Bool.or_eq_false_iff, beq_eq_false_iff_ne, ne_eq] at hr
  unfold kval
  rw [if_neg hr.1.2, if_neg hr.1.1]

/-- condition on the controls of an emitted gate, relative to the state `s'` at the end of the piece of
compilation the gate belongs to: the control is marked in `s'` (its gates will be replayed before) or is the
qubit of a known name and holds that name's value when the gate is applied -/
def CtlQ (scope : List String) (ρ : Env) (s' : CState) : FState → Nat → Prop :=
  fun f c => c ∈ s'.qc.marked ∨ ∃ n, Known scope n ∧ dictGet? s'.qc.qmap n = some c ∧ f c = kval ρ n

/-- the qubit is the target of a gate in `gates_computed` (so the inline `uncompute` removes its mark) -/
def Tgt (s : CState) (q : Nat) : Prop := ∃ g ∈ s.qc.gatesComputed.toList, g.target = q

/-! ### the two-state relation -/

/-- what a piece of the compiler did between `s` and `s'`: `W` qubits outside the scratch space it may have
written, `K` cache keys added, `Mk` qubits marked, `Q` the condition the controls of its gates satisfy
(only claimed when `wo = false`) -/
structure Sem2 (scope : List String) (σ0 : FState) (wo : Bool) (Q : FState → Nat → Prop) (W : Nat → Prop) (K : BExp → Prop)
    (Mk : Nat → Prop) (s s' : CState) : Prop where
  nq : s.qc.numQubits ≤ s'.qc.numQubits
  avail : ∀ q, Avail s' q → Avail s q
  frame : ∀ q, ¬ W q → (¬ Avail s q ∨ Avail s' q) → cur σ0 s' q = cur σ0 s q
  keys : ∀ p ∈ s'.expq, (∃ p0 ∈ s.expq, p0.1 = p.1) ∨ K p.1
  marks : ∀ m ∈ s'.qc.marked, m ∈ s.qc.marked ∨ (Mk m ∧ (wo = false → Tgt s' m))
  mkeep : ∀ m ∈ s.qc.marked, m ∈ s'.qc.marked
  akeep : ∀ a ∈ s.qc.anc, a ∈ s'.qc.anc
  qkeep : ∀ n q, Known scope n → dictGet? s.qc.qmap n = some q → dictGet? s'.qc.qmap n = some q
  qnew : ∀ n q, dictGet? s'.qc.qmap n = some q → dictGet? s.qc.qmap n = some q ∨ s.qc.numQubits ≤ q
  kkeep : s'.qc.kept = s.qc.kept
  seg : ∃ l, s'.qc.gates.toList = s.qc.gates.toList ++ l ∧
      s'.qc.gatesComputed.toList = s.qc.gatesComputed.toList ++ l ∧
      (∀ g ∈ l, ¬ Avail s' g.target) ∧ (wo = false → CtlOK Q l (cur σ0 s))

theorem cur_of_gates {σ0 : FState} {s s' : CState} {l : List AGate}
    (h : s'.qc.gates.toList = s.qc.gates.toList ++ l) : cur σ0 s' = runF l (cur σ0 s) := by
  unfold cur; rw [h, runF_append]

theorem Sem2.refl {scope : List String} {σ0 : FState} {wo : Bool} {Q : FState → Nat → Prop} {W : Nat → Prop} {K : BExp → Prop}
    {Mk : Nat → Prop} (s : CState) : Sem2 scope σ0 wo Q W K Mk s s :=
  ⟨Nat.le_refl _, fun _ h => h, fun _ _ _ => rfl, fun p hp => Or.inl ⟨p, hp, rfl⟩, fun _ hm => Or.inl hm,
   fun _ h => h, fun _ h => h, fun _ _ _ h => h, fun _ _ h => Or.inl h, rfl,
   ⟨[], by simp, by simp, fun _ h => absurd h List.not_mem_nil, fun _ => trivial⟩⟩

theorem Sem2.trans' {scope : List String} {σ0 : FState} {wo : Bool} {Q : FState → Nat → Prop} {W1 W2 : Nat → Prop}
    {K1 K2 : BExp → Prop} {Mk1 Mk2 : Nat → Prop} {s s1 s2 : CState}
    (h1 : Sem2 scope σ0 wo Q W1 K1 Mk1 s s1) (h2 : Sem2 scope σ0 wo Q W2 K2 Mk2 s1 s2) :
    Sem2 scope σ0 wo Q (fun q => W1 q ∨ W2 q) (fun e => K1 e ∨ K2 e) (fun m => Mk1 m ∨ Mk2 m) s s2 := by
  obtain ⟨l1, g1, c1, t1, q1⟩ := h1.seg
  obtain ⟨l2, g2, c2, t2, q2⟩ := h2.seg
  refine ⟨Nat.le_trans h1.nq h2.nq, fun q h => h1.avail q (h2.avail q h), ?_, ?_, ?_,
    fun m h => h2.mkeep m (h1.mkeep m h), fun a h => h2.akeep a (h1.akeep a h),
    fun n q hn h => h2.qkeep n q hn (h1.qkeep n q hn h), ?_, h2.kkeep.trans h1.kkeep, ?_⟩
  · intro q hw hav
    have hav1 : ¬ Avail s1 q ∨ Avail s2 q := by
      rcases hav with h | h
      · exact Or.inl (fun h' => h (h1.avail q h'))
      · exact Or.inr h
    have hav0 : ¬ Avail s q ∨ Avail s1 q := hav.imp id (h2.avail q)
    rw [h2.frame q (fun h => hw (Or.inr h)) hav1, h1.frame q (fun h => hw (Or.inl h)) hav0]
  · intro p hp
    rcases h2.keys p hp with ⟨p1, hp1, e1⟩ | hk
    · rcases h1.keys p1 hp1 with ⟨p0, hp0, e0⟩ | hk
      · exact Or.inl ⟨p0, hp0, e0.trans e1⟩
      · exact Or.inr (Or.inl (e1 ▸ hk))
    · exact Or.inr (Or.inr hk)
  · intro m hm
    rcases h2.marks m hm with h | h
    · rcases h1.marks m h with h | h
      · exact Or.inl h
      · refine Or.inr ⟨Or.inl h.1, fun hwo => ?_⟩
        obtain ⟨g, hg, ht⟩ := h.2 hwo
        exact ⟨g, by rw [c2]; exact List.mem_append_left _ hg, ht⟩
    · exact Or.inr ⟨Or.inr h.1, h.2⟩
  · intro n q h
    rcases h2.qnew n q h with h | h
    · exact h1.qnew n q h
    · exact Or.inr (Nat.le_trans h1.nq h)
  · refine ⟨l1 ++ l2, by rw [g2, g1, List.append_assoc], by rw [c2, c1, List.append_assoc], ?_, ?_⟩
    · intro g hg
      rcases List.mem_append.mp hg with hg | hg
      · exact fun h => t1 g hg (h2.avail _ h)
      · exact t2 g hg
    · intro hwo
      rw [CtlOK.append]
      refine ⟨q1 hwo, ?_⟩
      rw [← cur_of_gates g1]
      exact q2 hwo

theorem Sem2.mono {scope : List String} {σ0 : FState} {wo : Bool} {Q : FState → Nat → Prop} {W W' : Nat → Prop} {K K' : BExp → Prop}
    {Mk Mk' : Nat → Prop} {s s' : CState} (h : Sem2 scope σ0 wo Q W K Mk s s')
    (hw : ∀ q, (¬ Avail s q ∨ Avail s' q) → W q → W' q) (hk : ∀ e, K e → K' e) (hm : ∀ m, Mk m → Mk' m) :
    Sem2 scope σ0 wo Q W' K' Mk' s s' :=
  ⟨h.nq, h.avail, fun q hnw hav => h.frame q (fun hwq => hnw (hw q hav hwq)) hav,
   fun p hp => (h.keys p hp).imp id (hk _), fun m hm' => (h.marks m hm').imp id (fun x => ⟨hm _ x.1, x.2⟩),
   h.mkeep, h.akeep, h.qkeep, h.qnew, h.kkeep, h.seg⟩

theorem Sem2.monoQ {scope : List String} {σ0 : FState} {wo : Bool} {Q Q' : FState → Nat → Prop} {W : Nat → Prop} {K : BExp → Prop}
    {Mk : Nat → Prop} {s s' : CState} (h : Sem2 scope σ0 wo Q W K Mk s s') (hq : ∀ f c, Q f c → Q' f c) :
    Sem2 scope σ0 wo Q' W K Mk s s' := by
  obtain ⟨l, g, c, t, q⟩ := h.seg
  exact ⟨h.nq, h.avail, h.frame, h.keys, h.marks, h.mkeep, h.akeep, h.qkeep, h.qnew, h.kkeep,
    ⟨l, g, c, t, fun hwo => CtlOK.mono hq l _ (q hwo)⟩⟩

/-- replace the frame by a stronger one proved from the values -/
theorem Sem2.reframe {scope : List String} {σ0 : FState} {wo : Bool} {Q : FState → Nat → Prop} {W W' : Nat → Prop} {K : BExp → Prop}
    {Mk : Nat → Prop} {s s' : CState} (h : Sem2 scope σ0 wo Q W K Mk s s')
    (hf : ∀ q, ¬ W' q → (¬ Avail s q ∨ Avail s' q) → cur σ0 s' q = cur σ0 s q) :
    Sem2 scope σ0 wo Q W' K Mk s s' :=
  ⟨h.nq, h.avail, hf, h.keys, h.marks, h.mkeep, h.akeep, h.qkeep, h.qnew, h.kkeep, h.seg⟩

theorem Tgt.of_sem {scope : List String} {σ0 : FState} {wo : Bool} {Q : FState → Nat → Prop} {W : Nat → Prop}
    {K : BExp → Prop} {Mk : Nat → Prop} {s s' : CState} {q : Nat} (sem : Sem2 scope σ0 wo Q W K Mk s s')
    (h : Tgt s q) : Tgt s' q := by
  obtain ⟨l, _, c, _, _⟩ := sem.seg
  obtain ⟨g, hg, ht⟩ := h
  exact ⟨g, by rw [c]; exact List.mem_append_left _ hg, ht⟩

/-- a step that appends no gate and leaves `numQubits`, the free set, the ancilla set and the `qubit_map` alone -/
theorem Sem2.of_quiet {scope : List String} {σ0 : FState} {wo : Bool} {Q : FState → Nat → Prop} {W : Nat → Prop} {K : BExp → Prop}
    {Mk : Nat → Prop} {s s' : CState}
    (hg : s'.qc.gates = s.qc.gates) (hc : s'.qc.gatesComputed = s.qc.gatesComputed)
    (hn : s'.qc.numQubits = s.qc.numQubits) (hf : s'.qc.free = s.qc.free) (ha : s'.qc.anc = s.qc.anc)
    (hq : s'.qc.qmap = s.qc.qmap) (hkp : s'.qc.kept = s.qc.kept)
    (hk : ∀ p ∈ s'.expq, (∃ p0 ∈ s.expq, p0.1 = p.1) ∨ K p.1)
    (hm : ∀ m ∈ s'.qc.marked, m ∈ s.qc.marked ∨ (Mk m ∧ (wo = false → Tgt s' m)))
    (hmk : ∀ m ∈ s.qc.marked, m ∈ s'.qc.marked) :
    Sem2 scope σ0 wo Q W K Mk s s' := by
  refine ⟨Nat.le_of_eq hn.symm, ?_, ?_, hk, hm, hmk, fun a h => by rw [ha]; exact h,
    fun n q _ h => by rw [hq]; exact h, fun n q h => Or.inl (by rw [← hq]; exact h), hkp,
    ⟨[], by rw [hg]; simp, by rw [hc]; simp, fun _ h => absurd h List.not_mem_nil, fun _ => trivial⟩⟩
  · intro q h; unfold Avail at h ⊢; rw [hf, hn] at h; exact h
  · intro q _ _; rw [cur_congr hg]

/-! ### the state invariant -/

/-- invariant between compiler steps: every qubit of the scratch space is zero; a known name that is bound
is bound to a qubit outside the free and the ancilla set holding the name's value; names in scope are bound
and not reserved; free-set bookkeeping -/
structure Pre2 (scope : List String) (ρ : Env) (σ0 : FState) (s : CState) : Prop where
  good : Good s
  zero : ∀ q, Avail s q → cur σ0 s q = false
  tbl : ∀ n q, Known scope n → dictGet? s.qc.qmap n = some q →
    q ∉ s.qc.free ∧ q ∉ s.qc.anc ∧ cur σ0 s q = kval ρ n
  bound : ∀ n ∈ scope, ∃ q, dictGet? s.qc.qmap n = some q
  scopeOK : ∀ n ∈ scope, reservedName n = false
  freeNd : s.qc.free.Nodup
  freeAnc : ∀ q ∈ s.qc.free, q ∈ s.qc.anc
  mkAnc : ∀ m ∈ s.qc.marked, m ∈ s.qc.anc
  keptNF : ∀ k ∈ s.qc.kept, k ∉ s.qc.free

/-- a qubit of the scratch space is not a kept ancilla -/
theorem Pre2.notKept {scope : List String} {ρ : Env} {σ0 : FState} {s : CState} (hp : Pre2 scope ρ σ0 s)
    {q : Nat} (h : Avail s q) : q ∉ s.qc.kept := by
  intro hk
  rcases h with h | h
  · exact hp.keptNF q hk h
  · exact absurd (hp.good.kept_lt q hk) (by omega)

/-- the qubit of a known name is allocated and not in the free set -/
theorem Pre2.sym_notAvail {scope : List String} {ρ : Env} {σ0 : FState} {s : CState} (hp : Pre2 scope ρ σ0 s)
    {n : String} {q : Nat} (hk : Known scope n) (hq : dictGet? s.qc.qmap n = some q) : ¬ Avail s q := by
  rintro (h | h)
  · exact (hp.tbl n q hk hq).1 h
  · exact absurd (hp.good.qmap_lt _ (dictGet?_mem hq)) (by simp only; omega)

/-- a qubit the caller owns: allocated, not in the free set, not the qubit of a known name -/
def Priv (scope : List String) (s : CState) (d : Nat) : Prop :=
  ¬ Avail s d ∧ ∀ n, Known scope n → dictGet? s.qc.qmap n ≠ some d

theorem Priv.next {scope : List String} {σ0 : FState} {wo : Bool} {Q : FState → Nat → Prop} {W : Nat → Prop}
    {K : BExp → Prop} {Mk : Nat → Prop} {s s' : CState} {d : Nat} (h : Priv scope s d)
    (sem : Sem2 scope σ0 wo Q W K Mk s s') : Priv scope s' d := by
  refine ⟨fun ha => h.1 (sem.avail d ha), fun n hk hq => ?_⟩
  rcases sem.qnew n d hq with h' | h'
  · exact h.2 n hk h'
  · exact h.1 (Or.inr h')

/-- steps that keep `numQubits`, the free set, the ancilla set and the `qubit_map`, and the value of every
scratch qubit and every known name's qubit -/
theorem Pre2.of_same {scope : List String} {ρ : Env} {σ0 : FState} {s s' : CState} (hp : Pre2 scope ρ σ0 s)
    (hg : Good s') (hn : s'.qc.numQubits = s.qc.numQubits) (hf : s'.qc.free = s.qc.free)
    (ha : s'.qc.anc = s.qc.anc) (hq : s'.qc.qmap = s.qc.qmap) (hkp : s'.qc.kept = s.qc.kept)
    (hm : ∀ m ∈ s'.qc.marked, m ∈ s.qc.marked ∨ m ∈ s.qc.anc)
    (hfr : ∀ q, (Avail s q ∨ ∃ n, Known scope n ∧ dictGet? s.qc.qmap n = some q) → cur σ0 s' q = cur σ0 s q) :
    Pre2 scope ρ σ0 s' := by
  refine ⟨hg, ?_, ?_, ?_, hp.scopeOK, by rw [hf]; exact hp.freeNd, by rw [hf, ha]; exact hp.freeAnc, ?_,
    by rw [hkp, hf]; exact hp.keptNF⟩
  · intro q h
    have h' : Avail s q := by unfold Avail at h ⊢; rw [hf, hn] at h; exact h
    rw [hfr q (Or.inl h')]; exact hp.zero q h'
  · intro n q hk h
    rw [hq] at h
    obtain ⟨t1, t2, t3⟩ := hp.tbl n q hk h
    exact ⟨by rw [hf]; exact t1, by rw [ha]; exact t2, by rw [hfr q (Or.inr ⟨n, hk, h⟩)]; exact t3⟩
  · intro n hn'; rw [hq]; exact hp.bound n hn'
  · intro m hm'
    rw [ha]
    rcases hm m hm' with h | h
    · exact hp.mkAnc m h
    · exact h

/-! ### primitives -/

theorem mem_setIns_self {l : List Nat} {x : Nat} : x ∈ setIns l x := by
  unfold setIns
  split
  · next h => simpa using h
  · simp

theorem mem_setIns_of_mem {l : List Nat} {x y : Nat} (h : y ∈ l) : y ∈ setIns l x := by
  unfold setIns
  split
  · exact h
  · exact List.mem_append_left _ h

/-- `QCircuit.append` of a gate that is not a barrier pushes the gate on both gate lists -/
theorem appendG_push {cls : GClass} {wires : List Nat} {gid : Option (Nat × Nat)} {b : Bool} {s s' : CState}
    (h : (appendG cls wires gid).run s = .ok (b, s')) (hn : cls.isNop = false) :
    ∃ g : AGate, g.cls = cls ∧ g.wires = wires ∧ s'.qc.gates = s.qc.gates.push g ∧
      s'.qc.gatesComputed = s.qc.gatesComputed.push g := by
  unfold appendG at h
  simp only [run_bind_ok] at h
  obtain ⟨qc, s1, hq, h⟩ := h
  obtain ⟨rfl, rfl⟩ := getQC_run hq
  split at h
  · exact (run_throw_ok.mp h).elim
  · split at h
    · simp only [run_bind_ok, run_pure_ok] at h
      obtain ⟨u, s2, hm, rfl, rfl⟩ := h
      have := modQC_run hm
      subst this
      exact ⟨_, rfl, rfl, rfl, by simp [hn]⟩
    · simp only [run_bind_ok, run_pure_ok] at h
      obtain ⟨u, s2, hm, rfl, rfl⟩ := h
      have := modQC_run hm
      subst this
      exact ⟨_, rfl, rfl, rfl, by simp [hn]⟩

/-- one X/CX/MCX gate on `cs ++ [t]`, `t` outside the scratch space -/
theorem gate_sem2 {scope : List String} {σ0 : FState} {wo : Bool} {Q : FState → Nat → Prop} {cls : GClass} {cs : List Nat} {t : Nat}
    {u : Unit} {s s' : CState} (h : (append cls (cs ++ [t])).run s = .ok (u, s'))
    (hc : cls.isMCXLike = true) (hnop : cls.isNop = false) (ht : ¬ Avail s t)
    (hq : wo = false → ∀ c ∈ cs, Q (cur σ0 s) c) :
    Appended cls (cs ++ [t]) s s' ∧ Sem2 scope σ0 wo Q (· = t) NoK NoQ s s' ∧ Tgt s' t := by
  have ha := append_run h
  unfold append at h
  obtain ⟨b, hb⟩ := run_discard_ok.mp h
  obtain ⟨g, hgc, hgw, hgg, hgcomp⟩ := appendG_push hb hnop
  have hav : ∀ q, Avail s' q ↔ Avail s q := by
    intro q; unfold Avail; rw [ha.free, ha.nq]
  have htg : g.target = t := by unfold AGate.target; rw [hgw]; simp
  refine ⟨ha, ⟨Nat.le_of_eq ha.nq.symm, fun q h => (hav q).mp h, ?_, ?_, ?_, ?_, ?_, ?_, ?_, ?_, ?_⟩,
    ⟨g, by rw [hgcomp]; simp, htg⟩⟩
  · intro q hq' _; exact ha.cur_ne hc σ0 q hq'
  · intro p hp; rw [ha.expq] at hp; exact Or.inl ⟨p, hp, rfl⟩
  · intro m hm; rw [ha.marked] at hm; exact Or.inl hm
  · intro m hm; rw [ha.marked]; exact hm
  · intro a h'; rw [ha.anc]; exact h'
  · intro n q _ h'; rw [ha.qmap]; exact h'
  · intro n q h'; rw [ha.qmap] at h'; exact Or.inl h'
  · exact ha.kept
  · refine ⟨[g], by rw [hgg]; simp, by rw [hgcomp]; simp, ?_, ?_⟩
    · intro g' hg'
      have : g' = g := by simpa using hg'
      subst this
      have htg : g'.target = t := by unfold AGate.target; rw [hgw]; simp
      rw [htg]; exact fun h' => ht ((hav t).mp h')
    · intro hwo
      refine ⟨fun c hcm => hq hwo c ?_, trivial⟩
      rw [hgw] at hcm
      simpa using hcm

theorem getFreeAncilla_run2 {a : Nat} {s s' : CState} (h : getFreeAncilla.run s = .ok (a, s')) :
    s'.expq = s.expq ∧ s'.qc.gates = s.qc.gates ∧ s'.qc.gatesComputed = s.qc.gatesComputed ∧
    s'.qc.marked = s.qc.marked ∧ s'.qc.kept = s.qc.kept ∧
    ((s.qc.free = [] ∧ a = s.qc.numQubits ∧ s'.qc.numQubits = s.qc.numQubits + 1 ∧ s'.qc.free = [] ∧
        s'.qc.anc = setIns s.qc.anc a ∧
        s'.qc.qmap = dictSet s.qc.qmap s!"anc_{s.qc.anc.length}" s.qc.numQubits) ∨
     (a ∈ s.qc.free ∧ s'.qc.numQubits = s.qc.numQubits ∧ s'.qc.free = s.qc.free.erase a ∧
        s'.qc.anc = s.qc.anc ∧ s'.qc.qmap = s.qc.qmap)) := by
  unfold getFreeAncilla at h
  simp only [run_bind_ok] at h
  obtain ⟨s0, s1, hget, h⟩ := h
  obtain ⟨e1, e2⟩ := run_get_ok.mp hget
  subst e2; subst e1
  split at h
  · exact (run_throw_ok.mp h).elim
  · next c rest hch =>
    simp only [run_bind_ok] at h
    obtain ⟨u, s1, hset, h⟩ := h
    have := run_set_ok.mp hset; subst this
    split at h
    · next hemp =>
      simp only [run_bind_ok] at h
      obtain ⟨i, s2, hadd, u2, s3, hm, hif⟩ := h
      have hs4 : a = i ∧ s' = s3 := by
        split at hif
        · simp only [run_bind_ok, run_throw_ok] at hif
          obtain ⟨_, _, hf, _⟩ := hif
          exact hf.elim
        · exact run_pure_ok.mp hif
      obtain ⟨rfl, rfl⟩ := hs4
      obtain ⟨rfl, rfl⟩ := addQubit_run hadd
      have := modQC_run hm; subst this
      have hfe : s0.qc.free = [] := by simpa using hemp
      exact ⟨rfl, rfl, rfl, rfl, rfl, Or.inl ⟨hfe, rfl, rfl, hfe, rfl, rfl⟩⟩
    · split at h
      · simp only [run_bind_ok, run_throw_ok] at h
        obtain ⟨_, _, hf, _⟩ := h
        exact hf.elim
      · next hc =>
        simp only [run_bind_ok] at h
        obtain ⟨u3, s3, hm, hp⟩ := h
        obtain ⟨rfl, rfl⟩ := run_pure_ok.mp hp
        have := modQC_run hm; subst this
        have hcf : a ∈ s0.qc.free := by simpa using hc
        exact ⟨rfl, rfl, rfl, rfl, rfl, Or.inr ⟨hcf, rfl, rfl, rfl, rfl⟩⟩

/-- `get_free_ancilla` with any free set: the qubit handed out comes from the scratch space (so it is zero),
leaves it, and is an ancilla -/
theorem getFreeAncilla_sem2 {scope : List String} {ρ : Env} {σ0 : FState} {wo : Bool}
    {Q : FState → Nat → Prop} {a : Nat} {s s' : CState}
    (h : getFreeAncilla.run s = .ok (a, s')) (hp : Pre2 scope ρ σ0 s) :
    Pre2 scope ρ σ0 s' ∧ Sem2 scope σ0 wo Q NoQ NoK NoQ s s' ∧ cur σ0 s' = cur σ0 s ∧ Avail s a ∧ ¬ Avail s' a ∧
      a ∈ s'.qc.anc := by
  have hg' : Good s' := (getFreeAncilla_ok (B := fun _ => False) h hp.good).1.good
  obtain ⟨hex, hgt, hgc, hmk, hkp, hcase⟩ := getFreeAncilla_run2 h
  have hcur : cur σ0 s' = cur σ0 s := cur_congr hgt
  rcases hcase with ⟨hf0, ha, hn, hf', hanc, hqm⟩ | ⟨haf, hn, hf', hanc, hqm⟩
  · have hav : ∀ q, Avail s' q → Avail s q := by
      intro q hq; unfold Avail at hq ⊢; rw [hf', hn] at hq
      rcases hq with hq | hq
      · cases hq
      · exact Or.inr (by omega)
    have hqk : ∀ n q, Known scope n → dictGet? s.qc.qmap n = some q → dictGet? s'.qc.qmap n = some q := by
      intro n q hkn hq
      have hna := known_notAnc hp.scopeOK hkn
      rw [hqm, dictGet?_dictSet_ne]
      · exact hq
      · rintro rfl; rw [ancLike_anc] at hna; cases hna
    have hqn : ∀ n q, dictGet? s'.qc.qmap n = some q → dictGet? s.qc.qmap n = some q ∨ s.qc.numQubits ≤ q := by
      intro n q hq
      rw [hqm] at hq
      by_cases hne : n = s!"anc_{s.qc.anc.length}"
      · rw [hne, dictGet?_dictSet_self] at hq
        cases hq; exact Or.inr (Nat.le_refl _)
      · rw [dictGet?_dictSet_ne hne] at hq; exact Or.inl hq
    refine ⟨⟨hg', ?_, ?_, ?_, hp.scopeOK, (by rw [hf']; exact List.nodup_nil), (by rw [hf']; intro q hq; cases hq), ?_,
        (by rw [hf']; intro k _ hk; cases hk)⟩,
      ⟨by omega, hav, fun q _ _ => by rw [hcur], fun p hp' => by rw [hex] at hp'; exact Or.inl ⟨p, hp', rfl⟩,
       fun m hm => by rw [hmk] at hm; exact Or.inl hm, fun m hm => by rw [hmk]; exact hm,
       fun x hx => by rw [hanc]; exact mem_setIns_of_mem hx, hqk, hqn, hkp,
       ⟨[], by rw [hgt]; simp, by rw [hgc]; simp, fun _ h => absurd h List.not_mem_nil, fun _ => trivial⟩⟩,
      hcur, Or.inr (by omega), ?_, by rw [hanc]; exact mem_setIns_self⟩
    · intro q hq; rw [hcur]; exact hp.zero q (hav q hq)
    · intro n q hk hq
      have hna := known_notAnc hp.scopeOK hk
      have hq0 : dictGet? s.qc.qmap n = some q := by
        rcases hqn n q hq with h' | h'
        · exact h'
        · rw [hqm, dictGet?_dictSet_ne (by rintro rfl; rw [ancLike_anc] at hna; cases hna)] at hq
          exact hq
      obtain ⟨t1, t2, t3⟩ := hp.tbl n q hk hq0
      refine ⟨by rw [hf']; exact List.not_mem_nil, ?_, by rw [hcur]; exact t3⟩
      rw [hanc]
      intro hm
      rcases mem_setIns hm with hm | hm
      · exact t2 hm
      · have := hp.good.qmap_lt _ (dictGet?_mem hq0)
        simp only at this; omega
    · intro n hn'
      obtain ⟨q, hq⟩ := hp.bound n hn'
      exact ⟨q, hqk n q (Or.inl hn') hq⟩
    · intro m hm
      rw [hmk] at hm; rw [hanc]; exact mem_setIns_of_mem (hp.mkAnc m hm)
    · unfold Avail; rw [hf', hn]
      rintro (h' | h')
      · cases h'
      · omega
  · have hav : ∀ q, Avail s' q → Avail s q := by
      intro q hq; unfold Avail at hq ⊢; rw [hf', hn] at hq
      exact hq.imp List.mem_of_mem_erase id
    refine ⟨⟨hg', ?_, ?_, ?_, hp.scopeOK, (by rw [hf']; exact hp.freeNd.erase a), ?_, ?_,
        (by rw [hf', hkp]; exact fun k hk hm => hp.keptNF k hk (List.mem_of_mem_erase hm))⟩,
      ⟨Nat.le_of_eq hn.symm, hav, fun q _ _ => by rw [hcur],
       fun p hp' => by rw [hex] at hp'; exact Or.inl ⟨p, hp', rfl⟩,
       fun m hm => by rw [hmk] at hm; exact Or.inl hm, fun m hm => by rw [hmk]; exact hm,
       fun x hx => by rw [hanc]; exact hx, fun n q _ hq => by rw [hqm]; exact hq,
       fun n q hq => Or.inl (by rw [← hqm]; exact hq), hkp,
       ⟨[], by rw [hgt]; simp, by rw [hgc]; simp, fun _ h => absurd h List.not_mem_nil, fun _ => trivial⟩⟩,
      hcur, Or.inl haf, ?_, by rw [hanc]; exact hp.freeAnc a haf⟩
    · intro q hq; rw [hcur]; exact hp.zero q (hav q hq)
    · intro n q hk hq
      rw [hqm] at hq
      obtain ⟨t1, t2, t3⟩ := hp.tbl n q hk hq
      exact ⟨by rw [hf']; exact fun hm => t1 (List.mem_of_mem_erase hm), by rw [hanc]; exact t2,
        by rw [hcur]; exact t3⟩
    · intro n hn'; rw [hqm]; exact hp.bound n hn'
    · intro q hq; rw [hf'] at hq; rw [hanc]; exact hp.freeAnc q (List.mem_of_mem_erase hq)
    · intro m hm; rw [hmk] at hm; rw [hanc]; exact hp.mkAnc m hm
    · unfold Avail; rw [hf', hn]
      rintro (h' | h')
      · exact ((hp.freeNd.mem_erase_iff).mp h').1 rfl
      · have := hp.good.free_lt a haf; omega

theorem markAncilla_run2 {w : Nat} {u : Unit} {s s' : CState} (h : (markAncilla w).run s = .ok (u, s')) :
    s'.expq = s.expq ∧
      ((s'.qc = s.qc ∧ (w ∉ s.qc.anc ∨ w ∈ s.qc.kept)) ∨
       (s'.qc = { s.qc with marked := setIns s.qc.marked w } ∧ w ∈ s.qc.anc ∧ w ∉ s.qc.kept)) := by
  unfold markAncilla at h
  obtain ⟨qc, s1, hq, h⟩ := run_bind_ok.mp h
  obtain ⟨rfl, rfl⟩ := getQC_run hq
  split at h
  · next hc =>
    simp only [Bool.and_eq_true, Bool.not_eq_true'] at hc
    have hc' : w ∈ s1.qc.anc := by simpa using hc.1
    have hk' : w ∉ s1.qc.kept := by simpa using hc.2
    have := modQC_run h; subst this
    exact ⟨rfl, Or.inr ⟨rfl, hc', hk'⟩⟩
  · next hc =>
    obtain ⟨_, rfl⟩ := run_pure_ok.mp h
    refine ⟨rfl, Or.inl ⟨rfl, ?_⟩⟩
    simp only [Bool.and_eq_true, Bool.not_eq_true', not_and, Bool.not_eq_false] at hc
    by_cases ha : w ∈ s'.qc.anc
    · exact Or.inr (by simpa using hc (by simpa using ha))
    · exact Or.inl ha

/-- `mark_ancilla` on each of `ws`: only the marked set changes; exactly the ancillas among `ws` that are not
kept are added -/
theorem markAll_run2 : ∀ (ws : List Nat) {u : Unit} {s s' : CState}, (markAll ws).run s = .ok (u, s') →
    s'.expq = s.expq ∧ s'.qc.gates = s.qc.gates ∧ s'.qc.gatesComputed = s.qc.gatesComputed ∧
      s'.qc.numQubits = s.qc.numQubits ∧ s'.qc.free = s.qc.free ∧ s'.qc.anc = s.qc.anc ∧
      s'.qc.qmap = s.qc.qmap ∧ s'.qc.kept = s.qc.kept ∧
      (∀ m ∈ s'.qc.marked, m ∈ s.qc.marked ∨ (m ∈ ws ∧ m ∈ s.qc.anc)) ∧
      (∀ m ∈ s.qc.marked, m ∈ s'.qc.marked) ∧ (∀ m ∈ ws, m ∈ s.qc.anc → m ∉ s.qc.kept → m ∈ s'.qc.marked)
  | [], u, s, s', h => by
    unfold markAll at h
    obtain ⟨_, rfl⟩ := run_pure_ok.mp h
    exact ⟨rfl, rfl, rfl, rfl, rfl, rfl, rfl, rfl, fun m hm => Or.inl hm, fun m hm => hm, fun m hm => by cases hm⟩
  | w :: ws, u, s, s', h => by
    unfold markAll at h
    obtain ⟨u1, s1, h1, h2⟩ := run_bind_ok.mp h
    obtain ⟨a0, a⟩ := markAncilla_run2 h1
    obtain ⟨b0, b1, b2, b3, b4, b5, b6, bk, b7, b8, b9⟩ := markAll_run2 ws h2
    have e1 : s1.qc.gates = s.qc.gates ∧ s1.qc.gatesComputed = s.qc.gatesComputed ∧
        s1.qc.numQubits = s.qc.numQubits ∧ s1.qc.free = s.qc.free ∧ s1.qc.anc = s.qc.anc ∧
        s1.qc.qmap = s.qc.qmap ∧ s1.qc.kept = s.qc.kept ∧
        (∀ m ∈ s1.qc.marked, m ∈ s.qc.marked ∨ (m = w ∧ w ∈ s.qc.anc)) ∧
        (∀ m ∈ s.qc.marked, m ∈ s1.qc.marked) ∧ (w ∈ s.qc.anc → w ∉ s.qc.kept → w ∈ s1.qc.marked) := by
      rcases a with ⟨e, hw⟩ | ⟨e, hw, _⟩
      · rw [e]
        exact ⟨rfl, rfl, rfl, rfl, rfl, rfl, rfl, fun m hm => Or.inl hm, fun m hm => hm,
          fun h' hk' => hw.elim (fun h'' => absurd h' h'') (fun h'' => absurd h'' hk')⟩
      · rw [e]
        refine ⟨rfl, rfl, rfl, rfl, rfl, rfl, rfl, fun m hm => ?_, fun m hm => mem_setIns_of_mem hm,
          fun _ _ => mem_setIns_self⟩
        rcases mem_setIns hm with hm | rfl
        · exact Or.inl hm
        · exact Or.inr ⟨rfl, hw⟩
    obtain ⟨c1, c2, c3, c4, c5, c6, ck, c7, c8, c9⟩ := e1
    refine ⟨b0.trans a0, b1.trans c1, b2.trans c2, b3.trans c3, b4.trans c4, b5.trans c5, b6.trans c6,
      bk.trans ck, fun m hm => ?_, fun m hm => b8 m (c8 m hm), fun m hm ha hk => ?_⟩
    · rcases b7 m hm with hm | ⟨hm, ha⟩
      · rcases c7 m hm with hm | ⟨rfl, ha⟩
        · exact Or.inl hm
        · exact Or.inr ⟨List.mem_cons_self, ha⟩
      · exact Or.inr ⟨List.mem_cons_of_mem _ hm, by rw [← c5]; exact ha⟩
    · rcases List.mem_cons.mp hm with rfl | hm
      · exact b8 m (c9 ha hk)
      · exact b9 m hm (by rw [c5]; exact ha) (by rw [ck]; exact hk)

end QV.Compiler
