import QV.Proofs.Front6
import QV.Model.SemT
/-! Soundness of the expression translator `QV.Front.tr` with respect to the widened reference semantics
`QV.Sem.semT` (tuples, `Qchar`), part 1: values, the denotation relation `DenT`, constants, `not`, `~`. -/
namespace QV.Sem
open QV QV.Arith QV.Front

set_option linter.unusedSimpArgs false
set_option linter.unusedVariables false

/-! ### types and values -/

mutual
theorem Ty.beq_refl : ∀ t : Ty, Ty.beq t t = true
  | .bool => rfl
  | .qint w => by simp [Ty.beq]
  | .qchar => rfl
  | .tuple ts => by rw [Ty.beq]; exact Ty.beqList_refl ts
theorem Ty.beqList_refl : ∀ ts : List Ty, Ty.beqList ts ts = true
  | [] => rfl
  | t :: ts => by rw [Ty.beqList, Ty.beq_refl t, Ty.beqList_refl ts]; rfl
end

mutual
theorem Ty.eq_of_beq : ∀ a b : Ty, Ty.beq a b = true → a = b
  | .bool, .bool, _ => rfl
  | .qint x, .qint y, h => by simp [Ty.beq] at h; rw [h]
  | .qchar, .qchar, _ => rfl
  | .tuple xs, .tuple ys, h => by rw [Ty.beq] at h; rw [Ty.eq_of_beqList xs ys h]
  | .bool, .qint _, h => by simp [Ty.beq] at h
  | .bool, .qchar, h => by simp [Ty.beq] at h
  | .bool, .tuple _, h => by simp [Ty.beq] at h
  | .qint _, .bool, h => by simp [Ty.beq] at h
  | .qint _, .qchar, h => by simp [Ty.beq] at h
  | .qint _, .tuple _, h => by simp [Ty.beq] at h
  | .qchar, .bool, h => by simp [Ty.beq] at h
  | .qchar, .qint _, h => by simp [Ty.beq] at h
  | .qchar, .tuple _, h => by simp [Ty.beq] at h
  | .tuple _, .bool, h => by simp [Ty.beq] at h
  | .tuple _, .qint _, h => by simp [Ty.beq] at h
  | .tuple _, .qchar, h => by simp [Ty.beq] at h
theorem Ty.eq_of_beqList : ∀ a b : List Ty, Ty.beqList a b = true → a = b
  | [], [], _ => rfl
  | x :: xs, y :: ys, h => by
    simp only [Ty.beqList, Bool.and_eq_true] at h
    rw [Ty.eq_of_beq x y h.1, Ty.eq_of_beqList xs ys h.2]
  | [], _ :: _, h => by simp [Ty.beqList] at h
  | _ :: _, [], h => by simp [Ty.beqList] at h
end

theorem Ty.beq_iff (a b : Ty) : (a == b) = true ↔ a = b :=
  ⟨Ty.eq_of_beq a b, fun h => h ▸ Ty.beq_refl a⟩

theorem Ty.bne_iff (a b : Ty) : (a != b) = true ↔ a ≠ b := by
  rw [bne, Bool.not_eq_true', ← Bool.not_eq_true, Ty.beq_iff]

theorem Ty.beqList_iff (a b : List Ty) : Ty.beqList a b = true ↔ a = b :=
  ⟨Ty.eq_of_beqList a b, fun h => h ▸ Ty.beqList_refl a⟩

theorem tyList_eq_map (vs : List TVal) : TVal.tyList vs = vs.map TVal.ty := by
  induction vs with
  | nil => rfl
  | cons v vs ih => simp [TVal.tyList, ih]

theorem tyList_length (vs : List TVal) : (TVal.tyList vs).length = vs.length := by
  rw [tyList_eq_map]; simp

mutual
theorem TVal.bits_length : ∀ v : TVal, v.bits.length = v.ty.bits
  | .bool _ => rfl
  | .int w x => by simp [TVal.bits, TVal.ty, Ty.bits]
  | .char x => by simp [TVal.bits, TVal.ty, Ty.bits]
  | .tuple vs => by rw [TVal.bits, TVal.ty, Ty.bits]; exact TVal.bitsList_length vs
theorem TVal.bitsList_length : ∀ vs : List TVal, (TVal.bitsList vs).length = Ty.bitsList (TVal.tyList vs)
  | [] => rfl
  | v :: vs => by
    rw [TVal.bitsList, TVal.tyList, Ty.bitsList, List.length_append, TVal.bits_length v,
      TVal.bitsList_length vs]
end

theorem toBitsLE_inj {w x y : Nat} (hx : x < 2 ^ w) (hy : y < 2 ^ w) (h : toBitsLE w x = toBitsLE w y) :
    x = y := by
  have h1 := congrArg valLE h
  rw [valLE_toBitsLE, valLE_toBitsLE, Nat.mod_eq_of_lt hx, Nat.mod_eq_of_lt hy] at h1
  exact h1

mutual
/-- two values of one type within their ranges are python-equal exactly when their bits are equal -/
theorem TVal.beq_iff_bits : ∀ a b : TVal, a.ty = b.ty → a.wf = true → b.wf = true →
    (a.beq b = true ↔ a.bits = b.bits)
  | .bool x, .bool y, _, _, _ => by simp [TVal.beq, TVal.bits]
  | .int w x, .int w' y, ht, ha, hb => by
    simp only [TVal.ty, Ty.qint.injEq] at ht
    subst ht
    simp only [TVal.wf, decide_eq_true_eq] at ha hb
    simp only [TVal.beq, TVal.bits, beq_iff_eq]
    exact ⟨fun h => by rw [h], toBitsLE_inj ha hb⟩
  | .char x, .char y, _, ha, hb => by
    simp only [TVal.wf, decide_eq_true_eq] at ha hb
    simp only [TVal.beq, TVal.bits, beq_iff_eq]
    exact ⟨fun h => by rw [h], toBitsLE_inj (w := 8) ha hb⟩
  | .tuple xs, .tuple ys, ht, ha, hb => by
    simp only [TVal.ty, Ty.tuple.injEq] at ht
    simp only [TVal.wf] at ha hb
    simp only [TVal.beq, TVal.bits]
    exact TVal.beqList_iff_bits xs ys ht ha hb
  | .bool _, .int _ _, ht, _, _ => by simp [TVal.ty] at ht
  | .bool _, .char _, ht, _, _ => by simp [TVal.ty] at ht
  | .bool _, .tuple _, ht, _, _ => by simp [TVal.ty] at ht
  | .int _ _, .bool _, ht, _, _ => by simp [TVal.ty] at ht
  | .int _ _, .char _, ht, _, _ => by simp [TVal.ty] at ht
  | .int _ _, .tuple _, ht, _, _ => by simp [TVal.ty] at ht
  | .char _, .bool _, ht, _, _ => by simp [TVal.ty] at ht
  | .char _, .int _ _, ht, _, _ => by simp [TVal.ty] at ht
  | .char _, .tuple _, ht, _, _ => by simp [TVal.ty] at ht
  | .tuple _, .bool _, ht, _, _ => by simp [TVal.ty] at ht
  | .tuple _, .int _ _, ht, _, _ => by simp [TVal.ty] at ht
  | .tuple _, .char _, ht, _, _ => by simp [TVal.ty] at ht
theorem TVal.beqList_iff_bits : ∀ a b : List TVal, TVal.tyList a = TVal.tyList b →
    TVal.wfList a = true → TVal.wfList b = true →
    (TVal.beqList a b = true ↔ TVal.bitsList a = TVal.bitsList b)
  | [], [], _, _, _ => by simp [TVal.beqList, TVal.bitsList]
  | x :: xs, y :: ys, ht, ha, hb => by
    simp only [TVal.tyList, List.cons.injEq] at ht
    simp only [TVal.wfList, Bool.and_eq_true] at ha hb
    have h1 := TVal.beq_iff_bits x y ht.1 ha.1 hb.1
    have h2 := TVal.beqList_iff_bits xs ys ht.2 ha.2 hb.2
    simp only [TVal.beqList, TVal.bitsList, Bool.and_eq_true, h1, h2]
    have hl : x.bits.length = y.bits.length := by rw [TVal.bits_length, TVal.bits_length, ht.1]
    constructor
    · rintro ⟨e1, e2⟩; rw [e1, e2]
    · intro h
      exact List.append_inj h hl
  | [], _ :: _, ht, _, _ => by simp [TVal.tyList] at ht
  | _ :: _, [], ht, _, _ => by simp [TVal.tyList] at ht
end

/-! ### what a translated value denotes -/

theorem flattenList_atoms (l : List BExp) : Val.flattenList (l.map Val.atom) = l := by
  induction l with
  | nil => rfl
  | cons a as ih => simp [Val.flattenList, Val.flatten, ih]

theorem flatten_ofBits (l : List BExp) : (Val.ofBits l).flatten = l := by
  simp [Val.ofBits, Val.flatten, flattenList_atoms]

/-- the translated value `v` of type `t` denotes `sv` under the assignment `ρ` of the argument bits.
A bool is one expression; a `Qint[w]` / `Qchar` a list of exactly `w` / 8 bit expressions; a tuple any list
value (nested as a tuple literal builds it, or flat as a tuple-typed name evaluates) whose leaves, in
order, evaluate to the bits of a tuple value of that type -/
inductive DenT (ρ : QV.Env) : Ty → Val → TVal → Prop
  | bool (a : BExp) : DenT ρ .bool (.atom a) (.bool (a.eval ρ))
  | int (bits : List BExp) : DenT ρ (.qint bits.length) (Val.ofBits bits) (.int bits.length (val ρ bits))
  | char (bits : List BExp) (h8 : bits.length = 8) : DenT ρ .qchar (Val.ofBits bits) (.char (val ρ bits))
  | tup (vs : List Val) (svs : List TVal) (hwf : TVal.wfList svs = true)
      (hbits : evalBits ρ (Val.flattenList vs) = TVal.bitsList svs) :
      DenT ρ (.tuple (TVal.tyList svs)) (.list vs) (.tuple svs)

theorem DenT.mk_int {ρ : QV.Env} (bits : List BExp) (w x : Nat) (hl : bits.length = w) (hv : val ρ bits = x) :
    DenT ρ (.qint w) (Val.ofBits bits) (.int w x) := by
  subst hl; subst hv; exact DenT.int bits

theorem DenT.mk_bool {ρ : QV.Env} (a : BExp) (b : Bool) (h : a.eval ρ = b) :
    DenT ρ .bool (.atom a) (.bool b) := by
  subst h; exact DenT.bool a

theorem DenT.mk_char {ρ : QV.Env} (bits : List BExp) (x : Nat) (hl : bits.length = 8) (hv : val ρ bits = x) :
    DenT ρ .qchar (Val.ofBits bits) (.char x) := by
  subst hv; exact DenT.char bits hl

theorem DenT.mk_tup {ρ : QV.Env} (ts : List Ty) (vs : List Val) (svs : List TVal)
    (hty : TVal.tyList svs = ts) (hwf : TVal.wfList svs = true)
    (hbits : evalBits ρ (Val.flattenList vs) = TVal.bitsList svs) :
    DenT ρ (.tuple ts) (.list vs) (.tuple svs) := by
  subst hty; exact DenT.tup vs svs hwf hbits

theorem den_ty {ρ : QV.Env} {t : Ty} {v : Val} {sv : TVal} (h : DenT ρ t v sv) : sv.ty = t := by
  cases h <;> rfl

theorem den_wf {ρ : QV.Env} {t : Ty} {v : Val} {sv : TVal} (h : DenT ρ t v sv) : sv.wf = true := by
  cases h with
  | bool a => rfl
  | int bits => simp [TVal.wf, val_lt]
  | char bits h8 =>
    have := val_lt ρ bits
    rw [h8] at this
    simpa [TVal.wf] using this
  | tup vs svs hwf _ => simpa [TVal.wf] using hwf

theorem den_bits {ρ : QV.Env} {t : Ty} {v : Val} {sv : TVal} (h : DenT ρ t v sv) :
    evalBits ρ v.flatten = sv.bits := by
  cases h with
  | bool a => simp [Val.flatten, evalBits, TVal.bits]
  | int bits =>
    rw [flatten_ofBits, TVal.bits]
    exact evalBits_eq_toBitsLE ρ bits _ rfl
  | char bits h8 =>
    rw [flatten_ofBits, TVal.bits]
    exact evalBits_eq_toBitsLE ρ bits _ h8
  | tup vs svs _ hbits => simpa [Val.flatten, TVal.bits] using hbits

/-- the statement proved for each expression: if the translator succeeds and no excluded site occurs,
`semT` is defined and the translated value denotes it -/
def SoundT (ρ : QV.Env) (env : Front.Env) (σ : TEnv) (e : PExp) : Prop :=
  ∀ (s : St) (t : Ty) (v : Val) (s' : St), wellT σ e = true →
    (tr Quirks.none env e).run s = .ok ((t, v), s') → ∃ sv, semT σ e = some sv ∧ DenT ρ t v sv

/-! ### type tests of the translator -/

theorem bne_qchar_bool : (Ty.qchar != Ty.bool) = true := rfl
theorem bne_tuple_bool (ts : List Ty) : (Ty.tuple ts != Ty.bool) = true := rfl
theorem beq_qchar_bool : (Ty.qchar == Ty.bool) = false := rfl
theorem beq_tuple_bool (ts : List Ty) : (Ty.tuple ts == Ty.bool) = false := rfl

theorem atomOf_list (l : List Val) (a : BExp) : atomOf (.list l) = .ok a ↔ False := by
  simp [atomOf, throw, throwThe, MonadExceptOf.throw]

/-! ### constants -/

theorem soundT_cbool (ρ : QV.Env) (env : Front.Env) (σ : TEnv) (b : Bool) : SoundT ρ env σ (.cbool b) := by
  intro s t v s' _ h
  rw [tr, run_pure_ok] at h
  obtain ⟨h, rfl⟩ := h
  cases h
  refine ⟨.bool b, by simp [semT], ?_⟩
  apply DenT.mk_bool
  cases b <;> rfl

theorem soundT_cint (ρ : QV.Env) (env : Front.Env) (σ : TEnv) (c : Int) : SoundT ρ env σ (.cint c) := by
  intro s t v s' _ h
  rw [tr] at h
  simp only [run_bind_ok, run_lift_ok, run_pure_ok] at h
  obtain ⟨⟨t1, bits⟩, s1, ⟨h1, rfl⟩, h3, rfl⟩ := h
  cases h3
  unfold constToQtype at h1
  rw [candidates_eq] at h1
  rw [semT, constWidth]
  split at h1
  · rename_i w hw
    simp only [pure, Except.pure, Except.ok.injEq, Prod.mk.injEq] at h1
    obtain ⟨rfl, rfl⟩ := h1
    rw [hw]
    have hmem := List.mem_of_find?_eq_some hw
    have hpos : 0 < w := by
      simp only [constWidths, List.mem_cons, List.mem_nil_iff, or_false] at hmem
      omega
    refine ⟨_, rfl, ?_⟩
    obtain ⟨h4, h5⟩ := qintConst_spec ρ w (c % (2 : Int) ^ w).toNat hpos
    apply DenT.mk_int _ _ _ h5
    rw [h4]
    apply Nat.mod_eq_of_lt
    have hp : (0 : Int) < 2 ^ w := Int.pow_pos (by decide)
    have h0 : 0 ≤ c % (2 : Int) ^ w := Int.emod_nonneg _ (by omega)
    have h1 : c % (2 : Int) ^ w < 2 ^ w := Int.emod_lt_of_pos _ hp
    rw [Int.toNat_lt h0]
    simpa using h1
  · simp [throw, throwThe, MonadExceptOf.throw] at h1

/-- `Qchar.const`: 8 bits of value `ord(c)` for a code point below 256 -/
theorem qcharConst_spec (ρ : QV.Env) (c : Nat) (hc : c < 256) :
    val ρ (qcharConst c) = c ∧ (qcharConst c).length = 8 := by
  unfold qcharConst
  obtain ⟨h1, h2⟩ := natBitsLE_spec ρ 8 32 c (by simpa using hc) (by decide) (by decide)
  constructor
  · rw [val_fill, h1]
  · rw [fill_length]; omega

theorem soundT_cchar (ρ : QV.Env) (env : Front.Env) (σ : TEnv) (c : Nat) (hc : c < 256) :
    SoundT ρ env σ (.cchar c) := by
  intro s t v s' _ h
  rw [tr, run_pure_ok] at h
  obtain ⟨h, rfl⟩ := h
  cases h
  obtain ⟨h1, h2⟩ := qcharConst_spec ρ c hc
  exact ⟨.char c, by simp [semT, hc], DenT.mk_char _ _ h2 h1⟩

/-! ### `not`, `~` -/

theorem soundT_not (ρ : QV.Env) (env : Front.Env) (σ : TEnv) (e : PExp) (ih : SoundT ρ env σ e) :
    SoundT ρ env σ (.not e) := by
  intro s t v s' hw h
  rw [tr] at h
  simp only [run_bind_ok] at h
  obtain ⟨⟨t1, v1⟩, s1, h1, h2⟩ := h
  obtain ⟨sv, hs, hd⟩ := ih _ _ _ _ (by simpa [wellT] using hw) h1
  cases hd with
  | bool a =>
    simp only [bne_bool_bool, Bool.false_eq_true, if_false, run_bind_ok, run_lift_ok, run_pure_ok,
      atomOf_atom, Except.ok.injEq] at h2
    obtain ⟨_, _, ⟨rfl, rfl⟩, h4, rfl⟩ := h2
    cases h4
    exact ⟨.bool (!(a.eval ρ)), by rw [semT, hs]; rfl, DenT.mk_bool _ _ (by simp [BExp.eval])⟩
  | int bits =>
    simp only [bne_qint_bool, if_true, run_bind_ok, run_throw_ok, false_and, exists_false] at h2
  | char bits h8 =>
    simp only [bne_qchar_bool, if_true, run_bind_ok, run_throw_ok, false_and, exists_false] at h2
  | tup vs svs _ _ =>
    simp only [bne_tuple_bool, if_true, run_bind_ok, run_throw_ok, false_and, exists_false] at h2

theorem soundT_inv (ρ : QV.Env) (env : Front.Env) (σ : TEnv) (e : PExp) (ih : SoundT ρ env σ e) :
    SoundT ρ env σ (.inv e) := by
  intro s t v s' hw h
  rw [tr] at h
  simp only [run_bind_ok] at h
  obtain ⟨⟨t1, v1⟩, s1, h1, h2⟩ := h
  simp only [wellT, Bool.and_eq_true, Bool.not_eq_true'] at hw
  obtain ⟨sv, hs, hd⟩ := ih _ _ _ _ hw.1 h1
  cases hd with
  | bool a =>
    simp only [Ty.size?, run_throw_ok] at h2
  | int bits =>
    simp only [Ty.size?, run_bind_ok, run_lift_ok, run_pure_ok, bitsOf_ofBits, Except.ok.injEq] at h2
    obtain ⟨_, _, ⟨rfl, rfl⟩, h4, rfl⟩ := h2
    cases h4
    refine ⟨.int bits.length (2 ^ bits.length - 1 - val ρ bits), by rw [semT, hs]; rfl, ?_⟩
    apply DenT.mk_int _ _ _ (bitwiseNot_length bits)
    have := val_bitwiseNot ρ bits
    omega
  | char bits h8 =>
    have := hw.2
    rw [hs] at this
    simp [isCharO] at this
  | tup vs svs _ _ =>
    simp only [Ty.size?, run_throw_ok] at h2

end QV.Sem
