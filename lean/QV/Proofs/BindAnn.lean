import QV.Model.BindAnn
/-!
# `is_value_of` on written annotations: the helper loops
-/
namespace QV.Bind

theorem allValueOf_iff (t : AnnE) (xs : List PyVal) :
    allValueOf t xs = true ↔ ∀ x ∈ xs, isValueOfAnn t x = true := by
  induction xs with
  | nil => simp [allValueOf]
  | cons x xs ih => simp [allValueOf, ih]

theorem isIter_iff (n : Nat) (v : PyVal) : isIter n v = true ↔ ∃ xs, v = .iter xs ∧ xs.length = n := by
  cases v with
  | atom a => simp [isIter]
  | iter l => simp [isIter]

/-- the two row loops of the `Qmatrix` branch together -/
theorem rows_iff (t : AnnE) (m : Nat) (rs : List PyVal) :
    (rs.all (isIter m) && allRowsValueOf t rs) = true ↔
      ∀ r ∈ rs, ∃ xs, r = .iter xs ∧ xs.length = m ∧ ∀ x ∈ xs, isValueOfAnn t x = true := by
  induction rs with
  | nil => simp [allRowsValueOf]
  | cons r rs ih =>
    cases r with
    | atom a => simp [allRowsValueOf, isIter]
    | iter xs =>
      simp only [List.all_cons, isIter, allRowsValueOf, Bool.and_eq_true, beq_iff_eq, List.mem_cons,
        forall_eq_or_imp, PyVal.iter.injEq, exists_eq_left', allValueOf_iff] at ih ⊢
      constructor
      · rintro ⟨⟨h1, h2⟩, h3, h4⟩
        exact ⟨⟨h1, h3⟩, ih.mp ⟨h2, h4⟩⟩
      · rintro ⟨⟨h1, h3⟩, h⟩
        have := ih.mpr h
        exact ⟨⟨h1, this.1⟩, h3, this.2⟩

/-- the `zip` loop of the `Tuple` branch (Python's `zip` stops at the shorter list) -/
theorem zip_iff (es : List AnnE) (xs : List PyVal) :
    zipValueOf es xs = true ↔ ∀ p ∈ es.zip xs, isValueOfAnn p.1 p.2 = true := by
  induction es generalizing xs with
  | nil => simp [zipValueOf]
  | cons e es ih =>
    cases xs with
    | nil => simp [zipValueOf]
    | cons x xs => simp [zipValueOf, ih xs]

end QV.Bind
