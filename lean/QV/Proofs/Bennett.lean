import QV.Proofs.Circuit
/-!
# Bennett-style replay with a keep set

`uncompute_all(keep)` appends, in reverse order, the gates whose target is not kept.  This file
proves when that is right: if no replayed gate reads a kept qubit (`ReplaySafe`), the result agrees
with the body on the kept qubits and with the initial state everywhere else.
-/
namespace QV
open QV.Compiler

/-- `s` and `t` have the same length and agree on every qubit outside `K` -/
def AgreeOff (K : Nat → Bool) (s t : BState) : Prop :=
  s.length = t.length ∧ ∀ q, K q = false → s.getD q false = t.getD q false

theorem AgreeOff.refl (K : Nat → Bool) (s : BState) : AgreeOff K s s := ⟨rfl, fun _ _ => rfl⟩

theorem AgreeOff.symm {K : Nat → Bool} {s t : BState} (h : AgreeOff K s t) : AgreeOff K t s :=
  ⟨h.1.symm, fun q hq => (h.2 q hq).symm⟩

theorem AgreeOff.trans {K : Nat → Bool} {s t u : BState} (h1 : AgreeOff K s t) (h2 : AgreeOff K t u) :
    AgreeOff K s u :=
  ⟨h1.1.trans h2.1, fun q hq => (h1.2 q hq).trans (h2.2 q hq)⟩

theorem applyClassical_length (g : AGate) (s : BState) : (g.applyClassical s).length = s.length := by
  unfold AGate.applyClassical
  cases g.wires.getLast? with
  | none => rfl
  | some t => simp only; split <;> simp [flip_length]

theorem stepClassical_length (g : AGate) (s : BState) : (stepClassical s g).length = s.length := by
  unfold stepClassical; split
  · exact applyClassical_length g s
  · rfl

/-- target of a gate is kept -/
def targetIn (K : Nat → Bool) (g : AGate) : Bool :=
  match g.wires.getLast? with
  | some t => K t
  | none => false

/-- no control of the gate is kept -/
def controlsOff (K : Nat → Bool) (g : AGate) : Bool := g.wires.dropLast.all (fun c => !K c)

/-- a gate whose target is kept changes nothing outside `K` -/
theorem step_target_in (K : Nat → Bool) (g : AGate) (s : BState) (h : targetIn K g = true) :
    AgreeOff K (stepClassical s g) s := by
  refine ⟨stepClassical_length g s, fun q hq => ?_⟩
  unfold stepClassical
  split
  · unfold targetIn at h
    cases ht : g.wires.getLast? with
    | none => simp [AGate.applyClassical, ht]
    | some t =>
      rw [ht] at h
      apply gate_touches_only_target' g s q
      rw [ht]; intro e
      have : t = q := by simpa using e
      subst this; simp [hq] at h
  · rfl
where
  gate_touches_only_target' (g : AGate) (s : BState) (q : Nat) (h : g.wires.getLast? ≠ some q) :
      (g.applyClassical s).getD q false = s.getD q false := by
    unfold AGate.applyClassical
    cases ht : g.wires.getLast? with
    | none => rfl
    | some t =>
      simp only
      split
      · rw [flip_getD]
        have : ¬ t = q := by intro e; apply h; rw [ht, e]
        simp [this]
      · rfl

theorem controls_agree (K : Nat → Bool) (cs : List Nat) (s t : BState) (h : AgreeOff K s t)
    (hc : cs.all (fun c => !K c) = true) :
    cs.all (fun c => s.getD c false) = cs.all (fun c => t.getD c false) := by
  induction cs with
  | nil => rfl
  | cons c cs ih =>
    simp only [List.all_cons, Bool.and_eq_true] at hc ⊢
    rw [ih hc.2, h.2 c (by simpa using hc.1)]

/-- a gate reading only qubits outside `K` maps states that agree outside `K` to such states -/
theorem step_congr (K : Nat → Bool) (g : AGate) (s t : BState) (h : AgreeOff K s t)
    (hc : controlsOff K g = true) : AgreeOff K (stepClassical s g) (stepClassical t g) := by
  unfold stepClassical
  split
  · unfold AGate.applyClassical
    cases g.wires.getLast? with
    | none => exact h
    | some tg =>
      simp only [controls_agree K _ s t h hc]
      split
      · refine ⟨by simp [flip_length, h.1], fun q hq => ?_⟩
        rw [flip_getD, flip_getD, h.2 q hq, h.1]
      · exact h
  · exact h

/-- the gates of `gs` that `uncompute_all(keep)` replays -/
def replayed (K : Nat → Bool) (gs : List AGate) : List AGate := gs.filter (fun g => !targetIn K g)

/-- no replayed gate reads a kept qubit -/
def ReplaySafe (K : Nat → Bool) (gs : List AGate) : Prop :=
  ∀ g ∈ gs, targetIn K g = false → controlsOff K g = true

theorem run_congr (K : Nat → Bool) (gs : List AGate) (hs : ∀ g ∈ gs, controlsOff K g = true)
    (s t : BState) (h : AgreeOff K s t) : AgreeOff K (runClassical gs s) (runClassical gs t) := by
  induction gs generalizing s t with
  | nil => exact h
  | cons g gs ih =>
    rw [runClassical_cons, runClassical_cons]
    exact ih (fun g' hg' => hs g' (List.mem_cons_of_mem _ hg')) _ _
      (step_congr K g s t h (hs g List.mem_cons_self))

/-- outside `K` the whole body evolves like its replayed part alone -/
theorem run_agree_replayed (K : Nat → Bool) (gs : List AGate) (hs : ReplaySafe K gs)
    (s t : BState) (h : AgreeOff K s t) :
    AgreeOff K (runClassical gs s) (runClassical (replayed K gs) t) := by
  induction gs generalizing s t with
  | nil => exact h
  | cons g gs ih =>
    have hs' : ReplaySafe K gs := fun g' hg' => hs g' (List.mem_cons_of_mem _ hg')
    rw [runClassical_cons]
    by_cases hk : targetIn K g = true
    · have : replayed K (g :: gs) = replayed K gs := by simp [replayed, hk]
      rw [this]
      exact ih hs' _ _ ((step_target_in K g s hk).trans h)
    · have hk' : targetIn K g = false := by simpa using hk
      have : replayed K (g :: gs) = g :: replayed K gs := by simp [replayed, hk']
      rw [this, runClassical_cons]
      exact ih hs' _ _ (step_congr K g s t h (hs g List.mem_cons_self hk'))

/-- a kept qubit is not changed by gates whose targets are not kept -/
theorem kept_unchanged (K : Nat → Bool) (gs : List AGate) (h : ∀ g ∈ gs, targetIn K g = false)
    (q : Nat) (hq : K q = true) (s : BState) :
    (runClassical gs s).getD q false = s.getD q false := by
  induction gs generalizing s with
  | nil => rfl
  | cons g gs ih =>
    rw [runClassical_cons, ih (fun g' hg' => h g' (List.mem_cons_of_mem _ hg'))]
    unfold stepClassical
    split
    · apply step_target_in.gate_touches_only_target' g s q
      intro e
      have := h g List.mem_cons_self
      unfold targetIn at this
      rw [e] at this
      simp [hq] at this
    · rfl

/-- **Bennett replay with a keep set.**  For every list of X/CX/MCX gates on distinct wires and
every keep set `K` such that no gate with an unkept target reads a kept qubit: running the body
and then, in reverse, the gates with unkept targets leaves every kept qubit as the body left it
and every other qubit as it was at the start. -/
theorem bennett_replay (K : Nat → Bool) (gs : List AGate) (hn : ∀ g ∈ gs, g.wires.Nodup)
    (hs : ReplaySafe K gs) (s : BState) :
    let final := runClassical (gs ++ (replayed K gs).reverse) s
    (∀ q, K q = true → final.getD q false = (runClassical gs s).getD q false) ∧
    (∀ q, K q = false → final.getD q false = s.getD q false) := by
  have hmem : ∀ g ∈ replayed K gs, g ∈ gs ∧ targetIn K g = false := by
    intro g hg
    have := List.mem_filter.mp hg
    exact ⟨this.1, by simpa using this.2⟩
  have hrev_t : ∀ g ∈ (replayed K gs).reverse, targetIn K g = false :=
    fun g hg => (hmem g (List.mem_reverse.mp hg)).2
  have hrev_c : ∀ g ∈ (replayed K gs).reverse, controlsOff K g = true := fun g hg =>
    let ⟨h1, h2⟩ := hmem g (List.mem_reverse.mp hg)
    hs g h1 h2
  simp only [runClassical_append]
  refine ⟨fun q hq => kept_unchanged K _ hrev_t q hq _, fun q hq => ?_⟩
  have h1 := run_agree_replayed K gs hs s s (AgreeOff.refl K s)
  have h2 := run_congr K _ hrev_c _ _ h1
  have h3 : runClassical (replayed K gs).reverse (runClassical (replayed K gs) s) = s := by
    rw [← runClassical_append]
    exact runClassical_reverse_undo _ (fun g hg => hn g (hmem g hg).1) s
  rw [h3] at h2
  exact h2.2 q hq

end QV
