import QV.Model.Bind
import Mathlib.Data.List.Perm.Subperm
import Mathlib.Data.List.Nodup
/-!
# Lemmas about `QV.Bind` (environments, injected assignments, argument merging)
-/
namespace QV.Bind

/-! ## environments -/

/-- sequential update, in list order (later entries win) -/
def setAll {V : Type} (ρ : Env V) : List (String × V) → Env V
  | [] => ρ
  | (k, v) :: l => setAll (ρ.set k v) l

theorem lookupS_none_of_not_mem {V : Type} (l : List (String × V)) (y : String)
    (h : y ∉ l.map (·.1)) : lookupS l y = none := by
  induction l with
  | nil => rfl
  | cons kv t ih =>
    obtain ⟨k, v⟩ := kv
    simp only [List.map_cons, List.mem_cons, not_or] at h
    simp [lookupS, h.1, ih h.2]

theorem lookupS_isSome_of_mem {V : Type} (l : List (String × V)) (y : String)
    (h : y ∈ l.map (·.1)) : (lookupS l y).isSome := by
  induction l with
  | nil => simp at h
  | cons kv t ih =>
    obtain ⟨k, v⟩ := kv
    simp only [List.map_cons, List.mem_cons] at h
    by_cases hy : y = k
    · simp [lookupS, hy]
    · have : y ∈ t.map (·.1) := by
        rcases h with h | h
        · exact absurd h hy
        · exact h
      simp [lookupS, hy, ih this]

/-- with distinct keys, sequential update = lookup with fallback -/
theorem setAll_apply {V : Type} (l : List (String × V)) (ρ : Env V) (y : String)
    (hnd : (l.map (·.1)).Nodup) :
    setAll ρ l y = match lookupS l y with | some v => some v | none => ρ y := by
  induction l generalizing ρ with
  | nil => rfl
  | cons kv t ih =>
    obtain ⟨k, v⟩ := kv
    simp only [List.map_cons, List.nodup_cons] at hnd
    rw [setAll, ih _ hnd.2]
    by_cases hy : y = k
    · subst hy
      rw [lookupS_none_of_not_mem t y hnd.1]
      simp [lookupS, Env.set]
    · simp [lookupS, hy, Env.set]

theorem bindArgs_eq {V : Type} (ns : List String) (vs : List V) (ρ : Env V) :
    bindArgs ns vs ρ = if ns.length = vs.length then some (setAll ρ (ns.zip vs)) else none := by
  induction ns generalizing vs ρ with
  | nil => cases vs <;> simp [bindArgs, setAll]
  | cons n ns ih =>
    cases vs with
    | nil => simp [bindArgs]
    | cons v vs => simp [bindArgs, ih, setAll]

/-! ## constants do not read the environment -/

mutual
theorem evalExp_toVal (A : Alg) (ρ ρ' : Env A.V) :
    ∀ v : PyVal, evalExp A ρ (toVal v) = evalExp A ρ' (toVal v)
  | .atom a => by simp [toVal, evalExp]
  | .iter l => by simp [toVal, evalExp, evalList_toVal A ρ ρ' l]
theorem evalList_toVal (A : Alg) (ρ ρ' : Env A.V) :
    ∀ l : List PyVal, evalList A ρ (toValList l) = evalList A ρ' (toValList l)
  | [] => by simp [toValList, evalList]
  | v :: l => by
      simp [toValList, evalList, evalExp_toVal A ρ ρ' v, evalList_toVal A ρ ρ' l]
end

theorem execStmts_append (A : Alg) (l m : List Stmt) (ρ : Env A.V) :
    execStmts A (l ++ m) ρ = (execStmts A l ρ).bind (execStmts A m) := by
  induction l generalizing ρ with
  | nil => simp [execStmts]
  | cons s l ih =>
    simp only [List.cons_append, execStmts]
    cases execStmt A ρ s <;> simp [ih]

/-- running the injected assignments = updating with the (typed or untyped) constant values -/
theorem execStmts_injected (A : Alg) (ty : String → PyVal → Option Ty) (kv : List (String × PyVal))
    (ρ : Env A.V) :
    execStmts A (injectedWith ty kv) ρ = (kvVals A ty kv).map (setAll ρ) := by
  induction kv generalizing ρ with
  | nil => simp [injectedWith, execStmts, kvVals, setAll]
  | cons hd t ih =>
    obtain ⟨k, v⟩ := hd
    simp only [injectedWith] at ih
    simp only [injectedWith, List.map_cons, execStmts, execStmt, kvVals, constVal]
    rw [evalExp_toVal A ρ Env.empty v]
    cases hv : evalExp A Env.empty (toVal v) with
    | none => simp
    | some x =>
      cases ht : ty k v with
      | none =>
        simp only [Option.bind]
        rw [ih]
        cases kvVals A ty t <;> simp [setAll]
      | some ty' =>
        cases hc : A.cast ty' x with
        | none => simp [hc]
        | some x' =>
          simp only [hc, Option.map, Option.bind]
          rw [ih]
          cases kvVals A ty t <;> simp [setAll]

theorem kvVals_keys (A : Alg) (ty : String → PyVal → Option Ty) (kv : List (String × PyVal))
    (vals : List (String × A.V)) (h : kvVals A ty kv = some vals) :
    vals.map (·.1) = kv.map (·.1) := by
  induction kv generalizing vals with
  | nil => simp [kvVals] at h; subst h; rfl
  | cons hd t ih =>
    obtain ⟨k, v⟩ := hd
    simp only [kvVals] at h
    split at h
    · rename_i x r hx hr
      simp only [Option.some.injEq] at h
      subst h
      simp [ih r hr]
    · simp at h

/-! ## merging the parameter values with the remaining arguments -/

def nonParams (args : List Arg) : List Arg := args.filter (fun a => !isParamBind a.ann)

/-- `merge` succeeds exactly on the arity of the bound function, and the environment it yields is
    the remaining arguments' environment updated with the parameter values -/
theorem merge_spec {V : Type} (vals : List (String × V)) (args : List Arg) (xs : List V)
    (hall : ∀ a ∈ args, isParamBind a.ann = true → (lookupS vals a.name).isSome)
    (hnon : ∀ a ∈ args, isParamBind a.ann = false → lookupS vals a.name = none) :
    if xs.length = (nonParams args).length then
      ∃ all, merge vals args xs = some all ∧ all.length = args.length ∧
        ∀ y, lookupS ((args.map (·.name)).zip all) y =
          match lookupS vals y with
          | some v => if y ∈ args.map (·.name) then some v else none
          | none => lookupS (((nonParams args).map (·.name)).zip xs) y
    else merge vals args xs = none := by
  induction args generalizing xs with
  | nil =>
    cases xs with
    | nil =>
      simp only [nonParams, List.filter_nil, List.length_nil, if_true]
      refine ⟨[], by simp [merge], rfl, ?_⟩
      intro y; simp [lookupS]; cases lookupS vals y <;> rfl
    | cons x xs => simp [nonParams, merge]
  | cons a as ih =>
    have hall' : ∀ b ∈ as, isParamBind b.ann = true → (lookupS vals b.name).isSome :=
      fun b hb => hall b (List.mem_cons_of_mem _ hb)
    have hnon' : ∀ b ∈ as, isParamBind b.ann = false → lookupS vals b.name = none :=
      fun b hb => hnon b (List.mem_cons_of_mem _ hb)
    cases hp : isParamBind a.ann
    · -- ordinary argument
      have hnp : nonParams (a :: as) = a :: nonParams as := by simp [nonParams, hp]
      have hva : lookupS vals a.name = none := hnon a (List.mem_cons_self) hp
      cases xs with
      | nil => simp [hnp, merge, hp]
      | cons x xs' =>
        have ih' := ih xs' hall' hnon'
        rw [hnp]
        simp only [List.length_cons, Nat.add_right_cancel_iff]
        by_cases hl : xs'.length = (nonParams as).length
        · simp only [hl, if_true] at ih' ⊢
          obtain ⟨all, hm, hlen, hlk⟩ := ih'
          refine ⟨x :: all, by simp [merge, hp, hm], by simp [hlen], ?_⟩
          intro y
          simp only [List.map_cons, List.zip_cons_cons, lookupS]
          by_cases hy : y = a.name
          · subst hy; simp [hva]
          · simp only [hy, if_false, hlk y, List.mem_cons, false_or]
        · simp only [hl, if_false] at ih' ⊢
          simp [merge, hp, ih']
    · -- parameter
      have hnp : nonParams (a :: as) = nonParams as := by simp [nonParams, hp]
      have hsome := hall a (List.mem_cons_self) hp
      obtain ⟨v, hv⟩ := Option.isSome_iff_exists.mp hsome
      have ih' := ih xs hall' hnon'
      rw [hnp]
      by_cases hl : xs.length = (nonParams as).length
      · simp only [hl, if_true] at ih' ⊢
        obtain ⟨all, hm, hlen, hlk⟩ := ih'
        refine ⟨v :: all, by simp [merge, hp, hv, hm], by simp [hlen], ?_⟩
        intro y
        simp only [List.map_cons, List.zip_cons_cons, lookupS]
        by_cases hy : y = a.name
        · subst hy; simp [hv]
        · simp only [hy, if_false, hlk y, List.mem_cons, false_or]
      · simp only [hl, if_false] at ih' ⊢
        simp [merge, hp, hv, ih']

theorem nonParams_names_sublist (args : List Arg) :
    ((nonParams args).map (·.name)).Sublist (args.map (·.name)) :=
  List.Sublist.map _ List.filter_sublist

theorem zip_keys {V : Type} (ns : List String) (vs : List V) (h : ns.length = vs.length) :
    (ns.zip vs).map (·.1) = ns := by
  induction ns generalizing vs with
  | nil => simp
  | cons n ns ih =>
    cases vs with
    | nil => simp at h
    | cons v vs => simp at h; simp [ih vs h]

/-- the environments of the bound and of the unbound function coincide -/
theorem env_merge {V : Type} (vals : List (String × V)) (args : List Arg) (xs all : List V)
    (hnd : (args.map (·.name)).Nodup) (hvnd : (vals.map (·.1)).Nodup)
    (hall : ∀ a ∈ args, isParamBind a.ann = true → (lookupS vals a.name).isSome)
    (hnon : ∀ a ∈ args, isParamBind a.ann = false → lookupS vals a.name = none)
    (hkeys : ∀ k ∈ vals.map (·.1), k ∈ args.map (·.name))
    (hlen : xs.length = (nonParams args).length)
    (hm : merge vals args xs = some all) :
    all.length = args.length ∧
    setAll (setAll Env.empty (((nonParams args).map (·.name)).zip xs)) vals
      = setAll Env.empty ((args.map (·.name)).zip all) := by
  have hs := merge_spec vals args xs hall hnon
  simp only [hlen, if_true] at hs
  obtain ⟨all', hm', hlen', hlk⟩ := hs
  rw [hm] at hm'
  simp only [Option.some.injEq] at hm'
  subst hm'
  refine ⟨hlen', ?_⟩
  funext y
  have hnd2 : ((((nonParams args).map (·.name)).zip xs).map (·.1)).Nodup := by
    rw [zip_keys _ _ (by simp [hlen])]
    exact List.Nodup.sublist (nonParams_names_sublist args) hnd
  have hnd3 : ((((args.map (·.name)).zip all)).map (·.1)).Nodup := by
    rw [zip_keys _ _ (by simp [hlen'])]
    exact hnd
  rw [setAll_apply _ _ _ hvnd, setAll_apply _ _ _ hnd2, setAll_apply _ _ _ hnd3, hlk y]
  cases hv : lookupS vals y with
  | none => simp [Env.empty]
  | some v =>
    have : y ∈ vals.map (·.1) := by
      by_contra hc
      rw [lookupS_none_of_not_mem vals y hc] at hv
      cases hv
    simp [hkeys y this]

/-! ## from the checks of `bind` to the hypotheses above -/

theorem firstUnknown_none (params : List String) (kv : List (String × PyVal))
    (h : firstUnknown params kv = none) : ∀ k ∈ kv.map (·.1), k ∈ params := by
  induction kv with
  | nil => simp
  | cons hd t ih =>
    obtain ⟨k, v⟩ := hd
    simp only [firstUnknown] at h
    split at h
    · rename_i hc
      intro k' hk'
      simp only [List.map_cons, List.mem_cons] at hk'
      rcases hk' with rfl | hk'
      · simpa using hc
      · exact ih h k' hk'
    · cases h

theorem firstUnknown_some (params : List String) (kv : List (String × PyVal)) (k : String)
    (h : firstUnknown params kv = some k) : k ∈ kv.map (·.1) ∧ k ∉ params := by
  induction kv with
  | nil => simp [firstUnknown] at h
  | cons hd t ih =>
    obtain ⟨k', v⟩ := hd
    simp only [firstUnknown] at h
    split at h
    · have := ih h
      exact ⟨by simp [this.1], this.2⟩
    · rename_i hc
      simp only [Option.some.injEq] at h
      subst h
      exact ⟨by simp, by simpa using hc⟩

/-- pigeon-hole: distinct keywords, all of them parameters, as many as there are parameters -/
theorem keys_cover (keys params : List String) (hnd : keys.Nodup) (hsub : ∀ k ∈ keys, k ∈ params)
    (hlen : keys.length = params.length) : ∀ n ∈ params, n ∈ keys := by
  have hsp : keys.Subperm params := List.Nodup.subperm hnd hsub
  have hperm : keys.Perm params := hsp.perm_of_length_le (by omega)
  intro n hn
  exact hperm.symm.subset hn

theorem paramNames_eq (p : Prog) (hag : ∀ a ∈ p.args, isParamBind a.ann = isParamFrom a.ann) :
    p.paramNames = (p.args.filter (fun a => isParamBind a.ann)).map (·.name) := by
  unfold Prog.paramNames Prog.parameters
  rw [List.map_map]
  have : p.args.filter (fun a => isParamFrom a.ann) = p.args.filter (fun a => isParamBind a.ann) := by
    apply List.filter_congr
    intro a ha
    exact (hag a ha).symm
  rw [this]
  rfl

end QV.Bind
