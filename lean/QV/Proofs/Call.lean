import QV.Model.Call
/-!
# Lemmas for C07: substitution, coincidence, free symbols, sequential vs simultaneous
substitution, the compression loop of `bind_function`, renaming.
-/
namespace QV.Call
open QV

/-- the environment a substitution induces: `σ`-bound names take the value of their image -/
def compEnv (σ : String → Option BExp) (ρ : Env) : Env := fun n =>
  match σ n with
  | some r => r.eval ρ
  | none => ρ n

/-! ## the substitution lemma -/
mutual
theorem eval_subst (σ : String → Option BExp) (ρ : Env) :
    ∀ e : BExp, (e.subst σ).eval ρ = e.eval (compEnv σ ρ)
  | .tt => by simp [BExp.subst, BExp.eval]
  | .ff => by simp [BExp.subst, BExp.eval]
  | .sym n => by
      simp only [BExp.subst, BExp.eval, compEnv]
      cases σ n <;> simp [BExp.eval]
  | .not e => by simp [BExp.subst, BExp.eval, eval_subst σ ρ e]
  | .and l => by simp [BExp.subst, BExp.eval, evalAnd_subst σ ρ l]
  | .or l => by simp [BExp.subst, BExp.eval, evalOr_subst σ ρ l]
  | .xor l => by simp [BExp.subst, BExp.eval, evalXor_subst σ ρ l]
  | .ite c t e => by
      simp [BExp.subst, BExp.eval, eval_subst σ ρ c, eval_subst σ ρ t, eval_subst σ ρ e]
  | .imp a b => by simp [BExp.subst, BExp.eval, eval_subst σ ρ a, eval_subst σ ρ b]
theorem evalAnd_subst (σ : String → Option BExp) (ρ : Env) :
    ∀ l : List BExp, evalAnd ρ (substList σ l) = evalAnd (compEnv σ ρ) l
  | [] => by simp [substList, evalAnd]
  | e :: es => by simp [substList, evalAnd, eval_subst σ ρ e, evalAnd_subst σ ρ es]
theorem evalOr_subst (σ : String → Option BExp) (ρ : Env) :
    ∀ l : List BExp, evalOr ρ (substList σ l) = evalOr (compEnv σ ρ) l
  | [] => by simp [substList, evalOr]
  | e :: es => by simp [substList, evalOr, eval_subst σ ρ e, evalOr_subst σ ρ es]
theorem evalXor_subst (σ : String → Option BExp) (ρ : Env) :
    ∀ l : List BExp, evalXor ρ (substList σ l) = evalXor (compEnv σ ρ) l
  | [] => by simp [substList, evalXor]
  | e :: es => by simp [substList, evalXor, eval_subst σ ρ e, evalXor_subst σ ρ es]
end

/-! ## coincidence: `eval` reads only the free symbols -/
mutual
theorem eval_congr (ρ ρ' : Env) : ∀ e : BExp, (∀ n ∈ e.syms, ρ n = ρ' n) → e.eval ρ = e.eval ρ'
  | .tt, _ => by simp [BExp.eval]
  | .ff, _ => by simp [BExp.eval]
  | .sym n, h => by simp only [BExp.eval]; exact h n (by simp [BExp.syms])
  | .not e, h => by
      simp only [BExp.eval]; rw [eval_congr ρ ρ' e (fun n hn => h n (by simpa [BExp.syms] using hn))]
  | .and l, h => by
      simp only [BExp.eval]; exact evalAnd_congr ρ ρ' l (fun n hn => h n (by simpa [BExp.syms] using hn))
  | .or l, h => by
      simp only [BExp.eval]; exact evalOr_congr ρ ρ' l (fun n hn => h n (by simpa [BExp.syms] using hn))
  | .xor l, h => by
      simp only [BExp.eval]; exact evalXor_congr ρ ρ' l (fun n hn => h n (by simpa [BExp.syms] using hn))
  | .ite c t e, h => by
      simp only [BExp.eval]
      rw [eval_congr ρ ρ' c (fun n hn => h n (by simp [BExp.syms, hn])),
        eval_congr ρ ρ' t (fun n hn => h n (by simp [BExp.syms, hn])),
        eval_congr ρ ρ' e (fun n hn => h n (by simp [BExp.syms, hn]))]
  | .imp a b, h => by
      simp only [BExp.eval]
      rw [eval_congr ρ ρ' a (fun n hn => h n (by simp [BExp.syms, hn])),
        eval_congr ρ ρ' b (fun n hn => h n (by simp [BExp.syms, hn]))]
theorem evalAnd_congr (ρ ρ' : Env) :
    ∀ l : List BExp, (∀ n ∈ symsList l, ρ n = ρ' n) → evalAnd ρ l = evalAnd ρ' l
  | [], _ => by simp [evalAnd]
  | e :: es, h => by
      simp only [evalAnd]
      rw [eval_congr ρ ρ' e (fun n hn => h n (by simp [symsList, hn])),
        evalAnd_congr ρ ρ' es (fun n hn => h n (by simp [symsList, hn]))]
theorem evalOr_congr (ρ ρ' : Env) :
    ∀ l : List BExp, (∀ n ∈ symsList l, ρ n = ρ' n) → evalOr ρ l = evalOr ρ' l
  | [], _ => by simp [evalOr]
  | e :: es, h => by
      simp only [evalOr]
      rw [eval_congr ρ ρ' e (fun n hn => h n (by simp [symsList, hn])),
        evalOr_congr ρ ρ' es (fun n hn => h n (by simp [symsList, hn]))]
theorem evalXor_congr (ρ ρ' : Env) :
    ∀ l : List BExp, (∀ n ∈ symsList l, ρ n = ρ' n) → evalXor ρ l = evalXor ρ' l
  | [], _ => by simp [evalXor]
  | e :: es, h => by
      simp only [evalXor]
      rw [eval_congr ρ ρ' e (fun n hn => h n (by simp [symsList, hn])),
        evalXor_congr ρ ρ' es (fun n hn => h n (by simp [symsList, hn]))]
end

/-! ## free symbols of a substituted expression -/
mutual
theorem syms_subst (σ : String → Option BExp) : ∀ e : BExp, ∀ n, n ∈ (e.subst σ).syms →
    ∃ m ∈ e.syms, (σ m = none ∧ n = m) ∨ (∃ r, σ m = some r ∧ n ∈ r.syms)
  | .tt, n, h => by simp [BExp.subst, BExp.syms] at h
  | .ff, n, h => by simp [BExp.subst, BExp.syms] at h
  | .sym m, n, h => by
      refine ⟨m, by simp [BExp.syms], ?_⟩
      simp only [BExp.subst] at h
      cases hm : σ m with
      | none => rw [hm] at h; simp [BExp.syms] at h; exact Or.inl ⟨rfl, h⟩
      | some r => rw [hm] at h; exact Or.inr ⟨r, rfl, h⟩
  | .not e, n, h => by
      simp only [BExp.subst, BExp.syms] at h
      obtain ⟨m, hm, hh⟩ := syms_subst σ e n h
      exact ⟨m, by simpa [BExp.syms] using hm, hh⟩
  | .and l, n, h => by
      simp only [BExp.subst, BExp.syms] at h
      obtain ⟨m, hm, hh⟩ := symsList_subst σ l n h
      exact ⟨m, by simpa [BExp.syms] using hm, hh⟩
  | .or l, n, h => by
      simp only [BExp.subst, BExp.syms] at h
      obtain ⟨m, hm, hh⟩ := symsList_subst σ l n h
      exact ⟨m, by simpa [BExp.syms] using hm, hh⟩
  | .xor l, n, h => by
      simp only [BExp.subst, BExp.syms] at h
      obtain ⟨m, hm, hh⟩ := symsList_subst σ l n h
      exact ⟨m, by simpa [BExp.syms] using hm, hh⟩
  | .ite c t e, n, h => by
      simp only [BExp.subst, BExp.syms, List.mem_append] at h
      rcases h with (h | h) | h
      · obtain ⟨m, hm, hh⟩ := syms_subst σ c n h
        exact ⟨m, by simp [BExp.syms, hm], hh⟩
      · obtain ⟨m, hm, hh⟩ := syms_subst σ t n h
        exact ⟨m, by simp [BExp.syms, hm], hh⟩
      · obtain ⟨m, hm, hh⟩ := syms_subst σ e n h
        exact ⟨m, by simp [BExp.syms, hm], hh⟩
  | .imp a b, n, h => by
      simp only [BExp.subst, BExp.syms, List.mem_append] at h
      rcases h with h | h
      · obtain ⟨m, hm, hh⟩ := syms_subst σ a n h
        exact ⟨m, by simp [BExp.syms, hm], hh⟩
      · obtain ⟨m, hm, hh⟩ := syms_subst σ b n h
        exact ⟨m, by simp [BExp.syms, hm], hh⟩
theorem symsList_subst (σ : String → Option BExp) : ∀ l : List BExp, ∀ n, n ∈ symsList (substList σ l) →
    ∃ m ∈ symsList l, (σ m = none ∧ n = m) ∨ (∃ r, σ m = some r ∧ n ∈ r.syms)
  | [], n, h => by simp [substList, symsList] at h
  | e :: es, n, h => by
      simp only [substList, symsList, List.mem_append] at h
      rcases h with h | h
      · obtain ⟨m, hm, hh⟩ := syms_subst σ e n h
        exact ⟨m, by simp [symsList, hm], hh⟩
      · obtain ⟨m, hm, hh⟩ := symsList_subst σ es n h
        exact ⟨m, by simp [symsList, hm], hh⟩
end

/-! ## one symbol, sequential, simultaneous -/

theorem eval_subst1 (x : String) (r e : BExp) (ρ : Env) :
    (subst1 x r e).eval ρ = e.eval (upd ρ x (r.eval ρ)) := by
  unfold subst1
  rw [eval_subst]
  congr 1
  funext n
  by_cases h : n = x <;> simp [compEnv, upd, h]

theorem syms_subst1 (x : String) (r e : BExp) (n : String) (h : n ∈ (subst1 x r e).syms) :
    n ∈ r.syms ∨ (n ∈ e.syms ∧ n ≠ x) := by
  obtain ⟨m, hm, hh⟩ := syms_subst _ e n h
  by_cases hx : m = x
  · simp [hx] at hh
    exact Or.inl hh
  · simp [hx] at hh
    exact Or.inr ⟨hh ▸ hm, hh ▸ hx⟩

theorem lookup_some_mem : ∀ (L : Defs) (n : String) (v : BExp), lookup L n = some v → (n, v) ∈ L
  | [], n, v, h => by simp [lookup] at h
  | (k, w) :: L, n, v, h => by
      simp only [lookup] at h
      by_cases hk : n = k
      · simp [hk] at h; simp [hk, h]
      · simp [hk] at h; exact List.mem_cons_of_mem _ (lookup_some_mem L n v h)

theorem lookup_none_iff : ∀ (L : Defs) (n : String), lookup L n = none ↔ ∀ kv ∈ L, kv.1 ≠ n
  | [], n => by simp [lookup]
  | (k, w) :: L, n => by
      simp only [lookup]
      by_cases hk : n = k
      · simp [hk]
      · simp [hk, lookup_none_iff L n]; intro _; exact fun h => hk h.symm

theorem compEnv_nil (ρ : Env) : compEnv (lookup []) ρ = ρ := by
  funext n; simp [compEnv, lookup]

/-- semantics of sequential substitution when no image mentions a key -/
theorem eval_seqSubst : ∀ (L : Defs) (e : BExp) (ρ : Env),
    (∀ kv ∈ L, ∀ kv' ∈ L, kv'.1 ∉ kv.2.syms) →
    (seqSubst L e).eval ρ = e.eval (compEnv (lookup L) ρ)
  | [], e, ρ, _ => by simp [seqSubst, compEnv_nil]
  | (x, r) :: L, e, ρ, h => by
      have hL : ∀ kv ∈ L, ∀ kv' ∈ L, kv'.1 ∉ kv.2.syms := fun kv hkv kv' hkv' =>
        h kv (List.mem_cons_of_mem _ hkv) kv' (List.mem_cons_of_mem _ hkv')
      simp only [seqSubst]
      rw [eval_seqSubst L _ ρ hL, eval_subst1]
      have hr : r.eval (compEnv (lookup L) ρ) = r.eval ρ := by
        apply eval_congr
        intro n hn
        have : lookup L n = none := by
          rw [lookup_none_iff]
          intro kv hkv heq
          exact h (x, r) (by simp) kv (List.mem_cons_of_mem _ hkv) (heq ▸ hn)
        simp [compEnv, this]
      rw [hr]
      congr 1
      funext n
      simp only [upd, compEnv, lookup]
      split <;> simp

theorem eval_simSubst (L : Defs) (e : BExp) (ρ : Env) :
    (simSubst L e).eval ρ = e.eval (compEnv (lookup L) ρ) := eval_subst _ ρ e

theorem syms_seqSubst : ∀ (L : Defs) (e : BExp) (n : String), n ∈ (seqSubst L e).syms →
    (∃ kv ∈ L, n ∈ kv.2.syms) ∨ (n ∈ e.syms ∧ ∀ kv ∈ L, kv.1 ≠ n)
  | [], e, n, h => by simp [seqSubst] at h; exact Or.inr ⟨h, by simp⟩
  | (x, r) :: L, e, n, h => by
      simp only [seqSubst] at h
      rcases syms_seqSubst L _ n h with ⟨kv, hkv, hn⟩ | ⟨hn, hk⟩
      · exact Or.inl ⟨kv, List.mem_cons_of_mem _ hkv, hn⟩
      · rcases syms_subst1 x r e n hn with hr | ⟨he, hx⟩
        · exact Or.inl ⟨(x, r), by simp, hr⟩
        · refine Or.inr ⟨he, ?_⟩
          intro kv hkv
          rcases List.mem_cons.mp hkv with rfl | hkv
          · exact fun h => hx h.symm
          · exact hk kv hkv

theorem mem_insertSorted (a : String × BExp) : ∀ (l : Defs) (kv : String × BExp),
    kv ∈ insertSorted a l ↔ kv = a ∨ kv ∈ l
  | [], kv => by simp [insertSorted]
  | h :: t, kv => by
      simp only [insertSorted]
      split
      · simp
      · rw [List.mem_cons, mem_insertSorted a t kv, List.mem_cons]; exact or_left_comm

theorem mem_sortKeys : ∀ (l : Defs) (kv : String × BExp), kv ∈ sortKeys l ↔ kv ∈ l
  | [], kv => by simp [sortKeys]
  | h :: t, kv => by simp [sortKeys, mem_insertSorted, mem_sortKeys t kv]

theorem dictSet_fresh (d : Defs) (k : String) (v : BExp) (h : ∀ kv ∈ d, kv.1 ≠ k) :
    dictSet d k v = d ++ [(k, v)] := by
  unfold dictSet
  have : d.any (fun kv => kv.1 == k) = false := by
    simp only [List.any_eq_false, beq_iff_eq]
    exact fun kv hkv => by simpa using h kv hkv
  simp [this]

/-! ## the compression loop -/

theorem lookup_map_replace (k : String) (v : BExp) (n : String) : ∀ d : Defs,
    lookup (d.map (fun kv => if kv.1 == k then (k, v) else kv)) n
      = if n = k then (if d.any (fun kv => kv.1 == k) then some v else none) else lookup d n
  | [] => by simp [lookup]
  | (k', w) :: d => by
      have ih := lookup_map_replace k v n d
      by_cases hk : k' = k
      · subst hk
        by_cases hn : n = k'
        · simp [lookup, hn]
        · simp only [List.map_cons, beq_self_eq_true, if_true, lookup, hn, if_false] at ih ⊢
          exact ih
      · have hk' : (k' == k) = false := by simpa using hk
        by_cases hn : n = k'
        · have : n ≠ k := fun h => hk (hn ▸ h)
          simp [lookup, hk', hn, hk]
        · simp only [List.map_cons, hk', Bool.false_eq_true, if_false, lookup, hn, List.any_cons,
            Bool.false_or] at ih ⊢
          exact ih

theorem lookup_append_single (k : String) (v : BExp) (n : String) : ∀ d : Defs,
    lookup (d ++ [(k, v)]) n
      = match lookup d n with
        | some r => some r
        | none => if n = k then some v else none
  | [] => by simp [lookup]
  | (k', w) :: d => by
      simp only [List.cons_append, lookup]
      by_cases hn : n = k'
      · simp [hn]
      · simp only [hn, if_false]; exact lookup_append_single k v n d

/-- Python `d[k] = v`, read back -/
theorem lookup_dictSet (d : Defs) (k : String) (v : BExp) (n : String) :
    lookup (dictSet d k v) n = if n = k then some v else lookup d n := by
  unfold dictSet
  by_cases h : d.any (fun kv => kv.1 == k) = true
  · simp only [h, if_true, lookup_map_replace]
  · have h' : d.any (fun kv => kv.1 == k) = false := (Bool.not_eq_true _).mp h
    have hnone : lookup d k = none := by
      rw [lookup_none_iff]
      intro kv hkv heq
      simp only [List.any_eq_false, beq_iff_eq] at h'
      exact h' kv hkv heq
    simp only [h', Bool.false_eq_true, if_false, lookup_append_single]
    by_cases hn : n = k
    · subst hn; simp [hnone]
    · simp only [hn, if_false]; cases lookup d n <;> rfl

theorem mem_dictSet (d : Defs) (k : String) (v : BExp) (kv : String × BExp) (h : kv ∈ dictSet d k v) :
    kv = (k, v) ∨ kv ∈ d := by
  unfold dictSet at h
  split at h
  · obtain ⟨kv', hkv', heq⟩ := List.mem_map.mp h
    split at heq
    · exact Or.inl heq.symm
    · exact Or.inr (heq ▸ hkv')
  · rcases List.mem_append.mp h with h | h
    · exact Or.inr h
    · exact Or.inl (List.mem_singleton.mp h)

theorem compEnv_dictSet (d : Defs) (s : String) (v : BExp) (ρ : Env) :
    compEnv (lookup (dictSet d s v)) ρ = upd (compEnv (lookup d) ρ) s (v.eval ρ) := by
  funext n
  simp only [compEnv, lookup_dictSet, upd]
  by_cases hn : n = s <;> simp [hn]

/-- **the compression loop, values** – for EVERY definition list (re-binding allowed, no
well-formedness needed): with one simultaneous replacement per definition the compressed expressions
evaluate, in `ρ`, to the values the definitions take when run sequentially from the environment
`d` induces on `ρ` -/
theorem compress_vals (q : Quirks) (hq : q.compressSequential = false) (ρ : Env) :
    ∀ (l d : Defs), (compressGo q d l).map (fun se => se.2.eval ρ) = vals (compEnv (lookup d) ρ) l
  | [], d => by simp [compressGo, vals]
  | (s, e) :: t, d => by
      have hs : compressSubst q d e = simSubst d e := by simp [compressSubst, hq]
      simp only [compressGo, vals, List.map_cons, hs]
      rw [compress_vals q hq ρ t, compEnv_dictSet, eval_simSubst]

theorem compress_names (q : Quirks) : ∀ (l d : Defs), (compressGo q d l).map (·.1) = l.map (·.1)
  | [], d => by simp [compressGo]
  | (s, e) :: t, d => by simp [compressGo, compress_names q t]

/-- **the compression loop, free symbols**: on a closed list the compressed expressions mention
only base symbols -/
theorem compress_syms (q : Quirks) (hq : q.compressSequential = false) (A : List String) :
    ∀ (l d : Defs) (K : List String),
      Closed A K l →
      (∀ k ∈ K, lookup d k ≠ none) →
      (∀ kv ∈ d, ∀ n ∈ kv.2.syms, n ∈ A) →
      ∀ se ∈ compressGo q d l, ∀ n ∈ se.2.syms, n ∈ A
  | [], d, K, _, _, _ => by simp [compressGo]
  | (s, e) :: t, d, K, hcl, hK, hv => by
      obtain ⟨hes, hclt⟩ := hcl
      have hs : compressSubst q d e = simSubst d e := by simp [compressSubst, hq]
      have hsyms : ∀ n ∈ (simSubst d e).syms, n ∈ A := by
        intro n hn
        obtain ⟨m, hm, hh⟩ := syms_subst _ e n hn
        rcases hh with ⟨hnone, rfl⟩ | ⟨r, hsome, hr⟩
        · rcases hes n hm with hA | hk
          · exact hA
          · exact absurd hnone (hK n hk)
        · exact hv (m, r) (lookup_some_mem _ _ _ hsome) n hr
      have ih := compress_syms q hq A t (dictSet d s (simSubst d e)) (s :: K) hclt
        (by
          intro k hk
          rw [lookup_dictSet]
          by_cases hks : k = s
          · simp [hks]
          · simp only [hks, if_false]
            rcases List.mem_cons.mp hk with h | h
            · exact absurd h hks
            · exact hK k h)
        (by
          intro kv hkv
          rcases mem_dictSet _ _ _ _ hkv with h | h
          · subst h; exact hsyms
          · exact hv kv h)
      simp only [compressGo, hs, List.mem_cons]
      rintro se (rfl | hse)
      · exact hsyms
      · exact ih se hse


/-- the compression loop as it was (`e.subs(d_exp)`, flag `compressSequential` on) is correct on
single-assignment lists (`Ok`): there no image mentions a key, so sequential = simultaneous -/
theorem compress_seq_sem (q : Quirks) (hq : q.compressSequential = true) (A : List String) (ρ : Env) :
    ∀ (l : Defs) (d : Defs) (K : List String) (σ : Env),
      Ok A K l →
      (∀ k, k ∈ K ↔ ∃ v, (k, v) ∈ d) →
      (∀ kv ∈ d, ∀ n ∈ kv.2.syms, n ∈ A) →
      (∀ k ∈ K, k ∉ A) →
      (∀ n ∈ A, σ n = ρ n) →
      (∀ kv ∈ d, σ kv.1 = kv.2.eval ρ) →
      (compressGo q d l).map (fun se => se.2.eval ρ) = vals σ l
      ∧ (∀ se ∈ compressGo q d l, ∀ n ∈ se.2.syms, n ∈ A)
      ∧ (compressGo q d l).map (·.1) = l.map (·.1)
  | [], d, K, σ, _, _, _, _, _, _ => by simp [compressGo, vals]
  | (s, e) :: t, d, K, σ, hok, hK, hv, hKA, hσA, hσd => by
      obtain ⟨hsA, hsK, hes, hokt⟩ := hok
      have hcs : compressSubst q d e = seqSubst (sortKeys d) e := by simp [compressSubst, hq]
      have hfree : ∀ kv ∈ sortKeys d, ∀ kv' ∈ sortKeys d, kv'.1 ∉ kv.2.syms := by
        intro kv hkv kv' hkv' hmem
        rw [mem_sortKeys] at hkv hkv'
        exact hKA kv'.1 ((hK kv'.1).mpr ⟨kv'.2, hkv'⟩) (hv kv hkv _ hmem)
      have heval : (seqSubst (sortKeys d) e).eval ρ = e.eval σ := by
        rw [eval_seqSubst _ _ _ hfree]
        apply eval_congr
        intro n hn
        simp only [compEnv]
        cases hl : lookup (sortKeys d) n with
        | some v =>
          have := lookup_some_mem _ _ _ hl
          rw [mem_sortKeys] at this
          exact (hσd (n, v) this).symm
        | none =>
          rw [lookup_none_iff] at hl
          have hnK : n ∉ K := by
            intro hk
            obtain ⟨v, hv'⟩ := (hK n).mp hk
            exact hl (n, v) ((mem_sortKeys _ _).mpr hv') rfl
          rcases hes n hn with hA | hk
          · exact (hσA n hA).symm
          · exact absurd hk hnK
      have hsyms : ∀ n ∈ (seqSubst (sortKeys d) e).syms, n ∈ A := by
        intro n hn
        rcases syms_seqSubst _ _ _ hn with ⟨kv, hkv, hm⟩ | ⟨hm, hk⟩
        · exact hv kv ((mem_sortKeys _ _).mp hkv) n hm
        · rcases hes n hm with hA | hK'
          · exact hA
          · obtain ⟨v, hv'⟩ := (hK n).mp hK'
            exact absurd rfl (hk (n, v) ((mem_sortKeys _ _).mpr hv'))
      have hds : dictSet d s (seqSubst (sortKeys d) e) = d ++ [(s, seqSubst (sortKeys d) e)] :=
        dictSet_fresh _ _ _ (fun kv hkv heq => hsK ((hK s).mpr ⟨kv.2, by rw [← heq]; exact hkv⟩))
      have ih := compress_seq_sem q hq A ρ t (d ++ [(s, seqSubst (sortKeys d) e)]) (s :: K)
        (upd σ s (e.eval σ)) hokt
        (by
          intro k
          constructor
          · intro hk
            rcases List.mem_cons.mp hk with rfl | hk
            · exact ⟨_, List.mem_append_right _ (List.mem_singleton.mpr rfl)⟩
            · obtain ⟨v, hv'⟩ := (hK k).mp hk
              exact ⟨v, List.mem_append_left _ hv'⟩
          · rintro ⟨v, hv'⟩
            rcases List.mem_append.mp hv' with h | h
            · exact List.mem_cons_of_mem _ ((hK k).mpr ⟨v, h⟩)
            · have := List.mem_singleton.mp h
              simp only [Prod.mk.injEq] at this
              exact this.1 ▸ List.mem_cons_self)
        (by
          intro kv hkv
          rcases List.mem_append.mp hkv with h | h
          · exact hv kv h
          · simp at h; subst h; exact hsyms)
        (by
          intro k hk
          rcases List.mem_cons.mp hk with rfl | hk
          · exact hsA
          · exact hKA k hk)
        (by
          intro n hn
          have : n ≠ s := fun h => hsA (h ▸ hn)
          simp [upd, this, hσA n hn])
        (by
          intro kv hkv
          rcases List.mem_append.mp hkv with h | h
          · have : kv.1 ≠ s := fun heq => hsK ((hK s).mpr ⟨kv.2, by rw [← heq]; exact h⟩)
            simp [upd, this, hσd kv h]
          · simp at h; subst h; simp [upd, heval])
      simp only [compressGo, vals, List.map_cons, List.mem_cons, hcs]
      rw [hds]
      refine ⟨by rw [heval, ih.1], ?_, by rw [ih.2.2]⟩
      rintro se (rfl | hse)
      · exact hsyms
      · exact ih.2.1 se hse

/-! ## renaming with the callee prefix -/

theorem pref_inj (p : String) {a b : String} (h : pref p a = pref p b) : a = b := by
  unfold pref at h
  rw [String.append_assoc, String.append_assoc] at h
  exact (String.append_right_inj "_").mp ((String.append_right_inj p).mp h)

mutual
theorem syms_renameSim (p : String) : ∀ e : BExp, (renameSim p e).syms = e.syms.map (pref p)
  | .tt => by simp [renameSim, BExp.subst, BExp.syms]
  | .ff => by simp [renameSim, BExp.subst, BExp.syms]
  | .sym n => by simp [renameSim, BExp.subst, BExp.syms]
  | .not e => by
      have := syms_renameSim p e
      simp only [renameSim] at this
      simp [renameSim, BExp.subst, BExp.syms, this]
  | .and l => by
      have := symsList_renameSim p l
      simp [renameSim, BExp.subst, BExp.syms, this]
  | .or l => by
      have := symsList_renameSim p l
      simp [renameSim, BExp.subst, BExp.syms, this]
  | .xor l => by
      have := symsList_renameSim p l
      simp [renameSim, BExp.subst, BExp.syms, this]
  | .ite c t e => by
      have h1 := syms_renameSim p c
      have h2 := syms_renameSim p t
      have h3 := syms_renameSim p e
      simp only [renameSim] at h1 h2 h3
      simp [renameSim, BExp.subst, BExp.syms, h1, h2, h3]
  | .imp a b => by
      have h1 := syms_renameSim p a
      have h2 := syms_renameSim p b
      simp only [renameSim] at h1 h2
      simp [renameSim, BExp.subst, BExp.syms, h1, h2]
theorem symsList_renameSim (p : String) : ∀ l : List BExp,
    symsList (substList (fun n => some (.sym (pref p n))) l) = (symsList l).map (pref p)
  | [] => by simp [substList, symsList]
  | e :: es => by
      have h1 := syms_renameSim p e
      simp only [renameSim] at h1
      simp [substList, symsList, h1, symsList_renameSim p es]
end

theorem eval_renameSim (p : String) (e : BExp) (ρ : Env) :
    (renameSim p e).eval ρ = e.eval (fun n => ρ (pref p n)) := by
  unfold renameSim
  rw [eval_subst]
  rfl

/-- the renamed definition list of the repaired code -/
def renamed (p : String) (l : Defs) : Defs := l.map (fun se => (pref p se.1, renameSim p se.2))

theorem renameAll_none (q : Quirks) (hq : q.renameSequential = false) (p : String) :
    ∀ (os : List (List String)) (l : Defs), renameAll q p os l = renamed p l
  | _, [] => by simp [renameAll, renamed]
  | [], se :: t => by
      simp [renameAll, renamed, expRename, hq]
      exact renameAll_none q hq p [] t
  | o :: os, se :: t => by
      simp [renameAll, renamed, expRename, hq]
      exact renameAll_none q hq p os t

theorem Ok_renamed (p : String) (A : List String) : ∀ (l : Defs) (K : List String),
    Ok A K l → Ok (A.map (pref p)) (K.map (pref p)) (renamed p l)
  | [], _, _ => by simp [renamed, Ok]
  | (s, e) :: t, K, ⟨h1, h2, h3, h4⟩ => by
      have ih := Ok_renamed p A t (s :: K) h4
      simp only [renamed, List.map_cons, Ok] at ih ⊢
      refine ⟨?_, ?_, ?_, ih⟩
      · intro h
        obtain ⟨a, ha, hp⟩ := List.mem_map.mp h
        exact h1 (pref_inj p hp ▸ ha)
      · intro h
        obtain ⟨a, ha, hp⟩ := List.mem_map.mp h
        exact h2 (pref_inj p hp ▸ ha)
      · intro n hn
        rw [syms_renameSim] at hn
        obtain ⟨m, hm, rfl⟩ := List.mem_map.mp hn
        rcases h3 m hm with h | h
        · exact Or.inl (List.mem_map.mpr ⟨m, h, rfl⟩)
        · exact Or.inr (List.mem_map.mpr ⟨m, h, rfl⟩)

theorem Closed_renamed (p : String) (A : List String) : ∀ (l : Defs) (K : List String),
    Closed A K l → Closed (A.map (pref p)) (K.map (pref p)) (renamed p l)
  | [], _, _ => by simp [renamed, Closed]
  | (s, e) :: t, K, ⟨h3, h4⟩ => by
      have ih := Closed_renamed p A t (s :: K) h4
      simp only [renamed, List.map_cons, Closed] at ih ⊢
      refine ⟨?_, ih⟩
      intro n hn
      rw [syms_renameSim] at hn
      obtain ⟨m, hm, rfl⟩ := List.mem_map.mp hn
      rcases h3 m hm with h | h
      · exact Or.inl (List.mem_map.mpr ⟨m, h, rfl⟩)
      · exact Or.inr (List.mem_map.mpr ⟨m, h, rfl⟩)

theorem vals_renamed (p : String) : ∀ (l : Defs) (σ : Env),
    vals σ (renamed p l) = vals (fun n => σ (pref p n)) l
  | [], _ => by simp [renamed, vals]
  | (s, e) :: t, σ => by
      have ih := vals_renamed p t (upd σ (pref p s) (e.eval fun n => σ (pref p n)))
      simp only [renamed, List.map_cons, vals, eval_renameSim] at ih ⊢
      rw [ih]
      congr 2
      funext n
      by_cases h : n = s
      · simp [upd, h]
      · have : pref p n ≠ pref p s := fun hh => h (pref_inj p hh)
        simp [upd, h, this]

/-! ## meaning of definition lists -/

theorem Ok_fresh (A : List String) : ∀ (l : Defs) (K : List String), Ok A K l →
    ∀ se ∈ l, se.1 ∉ K
  | [], _, _, se, h => by simp at h
  | (s, e) :: t, K, ⟨_, h2, _, h4⟩, se, h => by
      rcases List.mem_cons.mp h with rfl | h
      · exact h2
      · exact fun hk => Ok_fresh A t (s :: K) h4 se h (List.mem_cons_of_mem _ hk)

theorem run_not_def : ∀ (t : Defs) (σ : Env) (s : String), (∀ se ∈ t, se.1 ≠ s) → run σ t s = σ s
  | [], _, _, _ => by simp [run]
  | (s', e) :: t, σ, s, h => by
      simp only [run]
      rw [run_not_def t _ s (fun se hse => h se (List.mem_cons_of_mem _ hse))]
      have : s ≠ s' := fun hh => h (s', e) (by simp) hh.symm
      simp [upd, this]

theorem vals_eq_run (A : List String) : ∀ (l : Defs) (K : List String) (σ : Env), Ok A K l →
    vals σ l = l.map (fun se => run σ l se.1)
  | [], _, _, _ => by simp [vals]
  | (s, e) :: t, K, σ, hok => by
      have hfresh := Ok_fresh A t (s :: K) hok.2.2.2
      simp only [vals, List.map_cons, run]
      rw [vals_eq_run A t (s :: K) _ hok.2.2.2]
      congr 1
      rw [run_not_def t _ s (fun se hse heq => hfresh se hse (heq ▸ List.mem_cons_self))]
      simp [upd]

theorem Ok_closed (A : List String) : ∀ (l : Defs) (K : List String), Ok A K l → Closed A K l
  | [], _, _ => by simp [Closed]
  | (s, e) :: t, K, ⟨_, _, h3, h4⟩ => ⟨h3, Ok_closed A t (s :: K) h4⟩

theorem Ok_names_nodup (A : List String) : ∀ (l : Defs) (K : List String), Ok A K l →
    (l.map (·.1)).Pairwise (· ≠ ·)
  | [], _, _ => by simp
  | (s, e) :: t, K, hok => by
      have hfresh := Ok_fresh A t (s :: K) hok.2.2.2
      simp only [List.map_cons, List.pairwise_cons]
      refine ⟨?_, Ok_names_nodup A t (s :: K) hok.2.2.2⟩
      intro n hn heq
      obtain ⟨se, hse, rfl⟩ := List.mem_map.mp hn
      exact hfresh se hse (heq ▸ List.mem_cons_self)

theorem vals_length : ∀ (l : Defs) (σ : Env), (vals σ l).length = l.length
  | [], _ => by simp [vals]
  | (s, e) :: t, σ => by simp [vals, vals_length t]

/-- the values of the definitions from position `j` on are the final values of their names, when no
name is bound twice from `j` on (earlier definitions may be re-bound freely) -/
theorem drop_vals_eq_run : ∀ (l : Defs) (σ : Env) (j : Nat),
    ((l.drop j).map (·.1)).Pairwise (· ≠ ·) →
    (vals σ l).drop j = (l.drop j).map (fun se => run σ l se.1)
  | [], _, _, _ => by simp [vals]
  | (s, e) :: t, σ, 0, h => by
      simp only [List.drop_zero, List.map_cons, List.pairwise_cons] at h
      have ih := drop_vals_eq_run t (upd σ s (e.eval σ)) 0 (by simpa using h.2)
      simp only [List.drop_zero] at ih
      simp only [List.drop_zero, vals, List.map_cons, run]
      rw [ih]
      congr 1
      rw [run_not_def t _ s (fun se hse heq => h.1 se.1 (List.mem_map.mpr ⟨se, hse, rfl⟩) heq.symm)]
      simp [upd]
  | (s, e) :: t, σ, j + 1, h => by
      simp only [List.drop_succ_cons] at h
      simp only [vals, List.drop_succ_cons, run]
      exact drop_vals_eq_run t _ j h

theorem lastN_vals_eq_run (k : Nat) (l : Defs) (σ : Env)
    (h : ((lastN k l).map (·.1)).Pairwise (· ≠ ·)) :
    lastN k (vals σ l) = (lastN k l).map (fun se => run σ l se.1) := by
  unfold lastN at h ⊢
  split
  · rename_i hk
    simp only [hk, if_true] at h
    simpa using drop_vals_eq_run l σ 0 (by simpa using h)
  · rename_i hk
    simp only [hk, if_false] at h
    rw [vals_length]
    exact drop_vals_eq_run l σ _ h

theorem vals_congr (A : List String) : ∀ (l : Defs) (K : List String) (σ σ' : Env), Closed A K l →
    (∀ n, n ∈ A ∨ n ∈ K → σ n = σ' n) → vals σ l = vals σ' l
  | [], _, _, _, _, _ => by simp [vals]
  | (s, e) :: t, K, σ, σ', ⟨h3, h4⟩, h => by
      have he : e.eval σ = e.eval σ' := eval_congr _ _ e (fun n hn => h n (h3 n hn))
      simp only [vals]
      rw [he, vals_congr A t (s :: K) (upd σ s (e.eval σ')) (upd σ' s (e.eval σ')) h4]
      intro n hn
      by_cases hs : n = s
      · simp [upd, hs]
      · simp only [upd, hs, if_false]
        rcases hn with hn | hn
        · exact h n (Or.inl hn)
        · rcases List.mem_cons.mp hn with hn | hn
          · exact absurd hn hs
          · exact h n (Or.inr hn)

theorem lastN_map {α β} (f : α → β) (n : Nat) (l : List α) : lastN n (l.map f) = (lastN n l).map f := by
  unfold lastN
  split <;> simp [List.map_drop]

/-! ## the call site -/

theorem foldl_dictSet_fresh : ∀ (pairs d : Defs),
    (pairs.map (·.1)).Pairwise (· ≠ ·) →
    (∀ kv ∈ d, ∀ kv' ∈ pairs, kv.1 ≠ kv'.1) →
    pairs.foldl (fun d kv => dictSet d kv.1 kv.2) d = d ++ pairs
  | [], d, _, _ => by simp
  | (k, v) :: ps, d, hp, hd => by
      simp only [List.map_cons, List.pairwise_cons] at hp
      simp only [List.foldl_cons]
      rw [dictSet_fresh d k v (fun kv hkv => hd kv hkv (k, v) (by simp)),
        foldl_dictSet_fresh ps _ hp.2]
      · simp
      · intro kv hkv kv' hkv'
        rcases List.mem_append.mp hkv with h | h
        · exact hd kv h kv' (List.mem_cons_of_mem _ hkv')
        · simp at h; subst h
          exact hp.1 kv'.1 (List.mem_map.mpr ⟨kv', hkv', rfl⟩)

theorem mkDict_eq (pairs : Defs) (h : (pairs.map (·.1)).Pairwise (· ≠ ·)) : mkDict pairs = pairs := by
  unfold mkDict
  rw [foldl_dictSet_fresh pairs [] h (by simp)]
  simp

theorem compEnv_zip (ρ : Env) : ∀ (bits : List String) (acts : List BExp), bits.length = acts.length →
    ∀ n ∈ bits, compEnv (lookup (bits.zip acts)) ρ n = zipEnv bits (acts.map (·.eval ρ)) n
  | [], _, _, n, h => by simp at h
  | b :: bs, [], hl, _, _ => by simp at hl
  | b :: bs, a :: as, hl, n, hn => by
      simp only [List.zip_cons_cons, List.map_cons, zipEnv, compEnv, lookup]
      by_cases hb : n = b
      · simp [hb]
      · simp only [hb, if_false]
        have hn' : n ∈ bs := by
          rcases List.mem_cons.mp hn with h | h
          · exact absurd h hb
          · exact h
        exact compEnv_zip ρ bs as (by simpa using hl) n hn'

theorem Shaped_length : ∀ (fas : List Arg) (as : List Actual), Shaped fas as → as.length = fas.length
  | [], [], _ => rfl
  | [], _ :: _, h => by simp [Shaped] at h
  | _ :: _, [], h => by simp [Shaped] at h
  | fa :: fas, a :: as, h => by simp [Shaped_length fas as h.2]

theorem allPairs_shaped (q : Quirks) (hq : q.argIndexFromName = false) :
    ∀ (fas : List Arg) (as : List Actual), Shaped fas as →
      allPairs q fas as = .ok ((fas.map (·.bitvec)).flatten.zip (actualBits as)) ∧
      (fas.map (·.bitvec)).flatten.length = (actualBits as).length
  | [], [], _ => by simp [allPairs, actualBits]
  | [], _ :: _, h => by simp [Shaped] at h
  | _ :: _, [], h => by simp [Shaped] at h
  | fa :: fas, a :: as, ⟨h1, h2⟩ => by
      obtain ⟨ih1, ih2⟩ := allPairs_shaped q hq fas as h2
      have hp : actualPairs q fa a = .ok (fa.bitvec.zip a.bits) := by
        simp [actualPairs, hq, h1]
      unfold actualBits at ih1 ih2 ⊢
      simp only [allPairs, hp, ih1, List.map_cons, List.flatten_cons]
      rw [List.zip_append h1.symm]
      simp [List.length_append, ih2, h1]

theorem Shaped_rename (p : String) : ∀ (fas : List Arg) (as : List Actual), Shaped fas as →
    Shaped (fas.map (argRename p)) as
  | [], [], _ => by simp [Shaped]
  | [], _ :: _, h => by simp [Shaped] at h
  | _ :: _, [], h => by simp [Shaped] at h
  | fa :: fas, a :: as, ⟨h1, h2⟩ => by
      simp only [List.map_cons, Shaped]
      exact ⟨by simp [argRename, h1], Shaped_rename p fas as h2⟩

theorem argBits_rename (p : String) (args : List Arg) :
    ((args.map (argRename p)).map (·.bitvec)).flatten = ((args.map (·.bitvec)).flatten).map (pref p) := by
  induction args with
  | nil => simp
  | cons a t ih =>
      simp only [List.map_cons, List.flatten_cons, List.map_append]
      rw [ih]; rfl

theorem zipEnv_map (p : String) : ∀ (bits : List String) (vs : List Bool) (n : String),
    zipEnv (bits.map (pref p)) vs (pref p n) = zipEnv bits vs n
  | [], _, _ => by simp [zipEnv]
  | _ :: _, [], _ => by simp [zipEnv]
  | b :: bs, v :: vs, n => by
      simp only [List.map_cons, zipEnv]
      by_cases h : n = b
      · simp [h]
      · have : pref p n ≠ pref p b := fun hh => h (pref_inj p hh)
        simp [h, this, zipEnv_map p bs vs n]

theorem lookup_zip_some : ∀ (bits : List String) (acts : List BExp), bits.length = acts.length →
    ∀ n ∈ bits, ∃ r ∈ acts, lookup (bits.zip acts) n = some r
  | [], _, _, n, h => by simp at h
  | b :: bs, [], hl, _, _ => by simp at hl
  | b :: bs, a :: as, hl, n, hn => by
      simp only [List.zip_cons_cons, lookup]
      by_cases hb : n = b
      · exact ⟨a, by simp, by simp [hb]⟩
      · have hn' : n ∈ bs := by
          rcases List.mem_cons.mp hn with h | h
          · exact absurd h hb
          · exact h
        obtain ⟨r, hr, hl'⟩ := lookup_zip_some bs as (by simpa using hl) n hn'
        exact ⟨r, List.mem_cons_of_mem _ hr, by simp [hb, hl']⟩

theorem mem_lastN {α} (n : Nat) (l : List α) (x : α) (h : x ∈ lastN n l) : x ∈ l := by
  unfold lastN at h
  split at h
  · exact h
  · exact List.mem_of_mem_drop h

/-- what the repaired `bind_function` + call site compute, spelled out -/
theorem call_none_eq (q : Quirks) (hq1 : q.argIndexFromName = false) (hq2 : q.subsSequential = false)
    (hq3 : q.renameSequential = false)
    (f : LogicFun) (ords : List (List String)) (actuals : List Actual)
    (hwf : WF f) (hsh : Shaped f.args actuals) :
    callSite q (bindFunction q ords f) actuals =
      .ok ((lastN f.ret.bitvec.length (compressGo q [] (renamed f.name f.exps))).map
        (fun se => simSubst (((argBits f).map (pref f.name)).zip (actualBits actuals)) se.2))
    ∧ ((argBits f).map (pref f.name)).length = (actualBits actuals).length := by
  have hlen := Shaped_length _ _ (Shaped_rename f.name _ _ hsh)
  obtain ⟨hp, hl⟩ := allPairs_shaped q hq1 _ _ (Shaped_rename f.name _ _ hsh)
  rw [argBits_rename] at hp hl
  have hl' : ((argBits f).map (pref f.name)).length = (actualBits actuals).length := hl
  have hp' : allPairs q (List.map (argRename f.name) f.args) actuals =
      .ok (((argBits f).map (pref f.name)).zip (actualBits actuals)) := hp
  have hkeys : ((((argBits f).map (pref f.name)).zip (actualBits actuals)).map (·.1)).Pairwise (· ≠ ·) := by
    have := @List.map_fst_zip _ _ ((argBits f).map (pref f.name)) (actualBits actuals) (Nat.le_of_eq hl')
    show List.Pairwise _ (List.map Prod.fst _)
    rw [this]
    exact List.Pairwise.map _ (fun a b hab hh => hab (pref_inj _ hh)) hwf.argsNodup
  refine ⟨?_, hl'⟩
  unfold callSite
  simp only [bindFunction, renameAll_none q hq3, hlen, bne_self_eq_false, Bool.false_eq_true, if_false]
  rw [hp']
  simp only [callSubst, hq2, Bool.false_eq_true, if_false, mkDict_eq _ hkeys]

end QV.Call
