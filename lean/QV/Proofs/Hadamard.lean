import Mathlib.Tactic.Ring
import QV.Model.Amp
/-!
# The Walsh–Hadamard layer and character sums over bit lists (all `n`)
-/
namespace QV.Amp

/-- `H` on qubits `0..n-1`, in this order -/
def layer : Nat → State → State
  | 0, ψ => ψ
  | n+1, ψ => applyH n (layer n ψ)

theorem sgn_xor (a b : Bool) : sgn (Bool.xor a b) = sgn a * sgn b := by
  cases a <;> cases b <;> simp [sgn]

theorem sgn_mul_self (a : Bool) : sgn a * sgn a = 1 := by cases a <;> simp [sgn]

theorem sgn_ne_zero (a : Bool) : sgn a ≠ 0 := by cases a <;> simp [sgn]

theorem layer_cons (n : Nat) : ∀ (ψ : State) (b : Bool) (t : List Bool),
    layer (n+1) ψ (b :: t) =
      layer n (fun t' => ψ (false :: t')) t + sgn b * layer n (fun t' => ψ (true :: t')) t := by
  induction n with
  | zero => intro ψ b t; cases b <;> simp [layer, applyH, sgn]
  | succ n ih =>
    intro ψ b t
    show applyH (n+1) (layer (n+1) ψ) (b :: t) = _
    show _ = applyH n (layer n _) t + sgn b * applyH n (layer n _) t
    unfold applyH
    by_cases h : n < t.length
    · simp only [List.length_cons, Nat.add_lt_add_iff_right, h, if_true, List.set_cons_succ,
        List.getD_cons_succ, ih]
      ring
    · simp [h]

theorem sumBits_congr (n : Nat) : ∀ (f g : List Bool → Int),
    (∀ x, x.length = n → f x = g x) → sumBits n f = sumBits n g := by
  induction n with
  | zero => intro f g h; exact h [] rfl
  | succ n ih =>
    intro f g h
    simp only [sumBits]
    rw [ih _ _ (fun x hx => h (false :: x) (by simp [hx])),
      ih _ _ (fun x hx => h (true :: x) (by simp [hx]))]

theorem sumBits_smul (n : Nat) : ∀ (g : List Bool → Int) (c : Int),
    sumBits n (fun x => c * g x) = c * sumBits n g := by
  induction n with
  | zero => intro g c; rfl
  | succ n ih => intro g c; simp only [sumBits]; rw [ih, ih]; ring

theorem sumBits_add (n : Nat) : ∀ (f g : List Bool → Int),
    sumBits n (fun x => f x + g x) = sumBits n f + sumBits n g := by
  induction n with
  | zero => intro f g; rfl
  | succ n ih => intro f g; simp only [sumBits]; rw [ih, ih]; ring

theorem sumBits_zero (n : Nat) : sumBits n (fun _ => 0) = 0 := by
  induction n with
  | zero => rfl
  | succ n ih => simp only [sumBits]; rw [ih]; rfl

theorem sumBits_one (n : Nat) : sumBits n (fun _ => 1) = 2 ^ n := by
  induction n with
  | zero => rfl
  | succ n ih => simp only [sumBits]; rw [ih]; ring

/-- a function supported on one point -/
theorem sumBits_single (n : Nat) : ∀ (a : List Bool) (g : List Bool → Int), a.length = n →
    sumBits n (fun x => if x = a then g x else 0) = g a := by
  induction n with
  | zero =>
    intro a g h
    have : a = [] := List.length_eq_zero_iff.mp h
    subst this; simp [sumBits]
  | succ n ih =>
    intro a g h
    cases a with
    | nil => simp at h
    | cons b a' =>
      simp only [List.length_cons, Nat.add_right_cancel_iff] at h
      simp only [sumBits, List.cons.injEq]
      cases b
      · have := ih a' (fun t => g (false :: t)) h
        simp only [true_and, Bool.true_eq_false, false_and, if_false, this, sumBits_zero]
        simp
      · have := ih a' (fun t => g (true :: t)) h
        simp only [true_and, Bool.false_eq_true, false_and, if_false, this, sumBits_zero]
        simp

/-- Walsh–Hadamard: after `H` on qubits `0..n-1` the amplitude at `y ++ r` is the signed sum
over the first `n` bits. -/
theorem hadamard_layer_aux (n : Nat) : ∀ (ψ : State) (y r : List Bool), y.length = n →
    layer n ψ (y ++ r) = sumBits n (fun x => sgn (dot x y) * ψ (x ++ r)) := by
  induction n with
  | zero =>
    intro ψ y r h
    have : y = [] := List.length_eq_zero_iff.mp h
    subst this; simp [layer, sumBits, dot, sgn]
  | succ n ih =>
    intro ψ y r h
    cases y with
    | nil => simp at h
    | cons b y' =>
      simp only [List.length_cons, Nat.add_right_cancel_iff] at h
      rw [List.cons_append, layer_cons, ih _ y' r h, ih _ y' r h]
      simp only [sumBits, dot, List.cons_append, Bool.false_and, Bool.true_and, Bool.false_xor, sgn_xor]
      rw [← sumBits_smul]
      congr 2
      funext x
      ring

theorem dot_comm : ∀ (a b : List Bool), dot a b = dot b a
  | [], [] => rfl
  | [], _ :: _ => rfl
  | _ :: _, [] => rfl
  | a :: as, b :: bs => by simp [dot, dot_comm as bs, Bool.and_comm]

theorem dot_zeros_right : ∀ (n : Nat) (x : List Bool), dot x (zeros n) = false
  | 0, x => by cases x <;> simp [dot, zeros]
  | n+1, [] => by simp [dot]
  | n+1, a :: x => by
    have := dot_zeros_right n x
    simp only [zeros] at this
    simp [dot, zeros, List.replicate_succ, this]

/-- `x·y ⊕ x·s = x·(y ⊕ s)` -/
theorem dot_xor : ∀ (x y s : List Bool), y.length = s.length →
    Bool.xor (dot x y) (dot x s) = dot x (xorBits y s)
  | _, [], [], _ => by simp [xorBits, dot]
  | [], _ :: _, _ :: _, _ => by simp [dot]
  | a :: x, b :: y, c :: s, h => by
    simp only [List.length_cons, Nat.add_right_cancel_iff] at h
    have := dot_xor x y s h
    simp only [xorBits] at this
    simp only [dot, xorBits, List.zipWith_cons_cons, ← this]
    cases a <;> cases b <;> cases c <;> cases dot x y <;> cases dot x s <;> rfl
  | _, [], _ :: _, h | _, _ :: _, [], h => by simp at h

theorem xorBits_eq_zeros : ∀ (y s : List Bool), y.length = s.length →
    (xorBits y s = zeros y.length ↔ y = s)
  | [], [], _ => by simp [xorBits, zeros]
  | b :: y, c :: s, h => by
    simp only [List.length_cons, Nat.add_right_cancel_iff] at h
    have := xorBits_eq_zeros y s h
    simp only [xorBits, zeros] at this
    simp only [xorBits, zeros, List.zipWith_cons_cons, List.length_cons, List.replicate_succ,
      List.cons.injEq, this]
    cases b <;> cases c <;> simp
  | [], _ :: _, h | _ :: _, [], h => by simp at h

theorem xorBits_length (y s : List Bool) (h : y.length = s.length) : (xorBits y s).length = y.length := by
  simp [xorBits, h]

/-- character orthogonality: `Σ_x (-1)^{x·y}` is `2^n` at `y = 0` and `0` elsewhere -/
theorem char_sum (n : Nat) : ∀ (y : List Bool), y.length = n →
    sumBits n (fun x => sgn (dot x y)) = if y = zeros n then 2 ^ n else 0 := by
  induction n with
  | zero =>
    intro y h
    have : y = [] := List.length_eq_zero_iff.mp h
    subst this; simp [sumBits, dot, sgn, zeros]
  | succ n ih =>
    intro y h
    cases y with
    | nil => simp at h
    | cons b y' =>
      simp only [List.length_cons, Nat.add_right_cancel_iff] at h
      simp only [sumBits, dot, Bool.false_and, Bool.true_and, Bool.false_xor, sgn_xor]
      rw [sumBits_smul, ih y' h]
      cases b
      · by_cases hy : y' = zeros n
        · simp [hy, zeros, List.replicate_succ, sgn]; ring
        · have : ¬ (false :: y' = zeros (n+1)) := by
            simpa [zeros, List.replicate_succ] using hy
          simp [hy, this]
      · have : ¬ (true :: y' = zeros (n+1)) := by simp [zeros, List.replicate_succ]
        simp only [this, if_false, sgn]
        split <;> simp

/-- `Σ_x (-1)^{f x} = 2^n - 2·#{x | f x}` -/
theorem sum_sgn_count (n : Nat) : ∀ (f : List Bool → Bool),
    sumBits n (fun x => sgn (f x)) = 2 ^ n - 2 * (countBits n f : Int) := by
  induction n with
  | zero => intro f; cases h : f [] <;> simp [sumBits, countBits, sgn, h]
  | succ n ih =>
    intro f
    simp only [sumBits, countBits]
    rw [ih, ih]
    push_cast
    ring

/-- the all-zero state restricted to the first `n` bits: `Σ_x (-1)^{x·y} ket0(x ++ r)` -/
theorem sum_ket0 (n : Nat) : ∀ (y r : List Bool),
    sumBits n (fun x => sgn (dot x y) * ket0 (x ++ r)) = ket0 r := by
  induction n with
  | zero => intro y r; simp [sumBits, dot, sgn]
  | succ n ih =>
    intro y r
    simp only [sumBits]
    have h1 : ∀ t : List Bool, ket0 (true :: t ++ r) = 0 := by intro t; simp [ket0]
    have h0 : ∀ t : List Bool, ket0 (false :: t ++ r) = ket0 (t ++ r) := by intro t; simp [ket0]
    simp only [h1, h0, Int.mul_zero, sumBits_zero, Int.add_zero]
    cases y with
    | nil => simpa [dot, sgn] using ih [] r
    | cons b y' => simpa [dot] using ih y' r

end QV.Amp
