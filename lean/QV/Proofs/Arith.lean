import QV.Model.Arith
import QV.Proofs.Bits
import Mathlib.Tactic.Ring
import Mathlib.Tactic.Linarith
/-! Value lemmas for the bit-vector library model (`QV/Model/Arith.lean`): for every environment and
every width, the little-endian value of the result bits. -/
namespace QV.Arith
open QV

def evalBits (ρ : Env) (l : List BExp) : List Bool := l.map (·.eval ρ)
/-- little-endian value of a list of bit expressions under `ρ` -/
def val (ρ : Env) (l : List BExp) : Nat := valLE (evalBits ρ l)

@[simp] theorem evalBits_nil (ρ : Env) : evalBits ρ [] = [] := rfl
@[simp] theorem evalBits_cons (ρ : Env) (a : BExp) (l : List BExp) :
    evalBits ρ (a :: l) = a.eval ρ :: evalBits ρ l := rfl
@[simp] theorem evalBits_length (ρ : Env) (l : List BExp) : (evalBits ρ l).length = l.length := by
  simp [evalBits]
theorem evalBits_append (ρ : Env) (l r : List BExp) : evalBits ρ (l ++ r) = evalBits ρ l ++ evalBits ρ r := by
  simp [evalBits]
theorem evalBits_replicate_ff (ρ : Env) (n : Nat) :
    evalBits ρ (List.replicate n .ff) = List.replicate n false := by
  simp [evalBits, BExp.eval]
theorem evalBits_take (ρ : Env) (n : Nat) (l : List BExp) : evalBits ρ (l.take n) = (evalBits ρ l).take n := by
  simp [evalBits, List.map_take]
theorem evalBits_drop (ρ : Env) (n : Nat) (l : List BExp) : evalBits ρ (l.drop n) = (evalBits ρ l).drop n := by
  simp [evalBits, List.map_drop]

theorem val_lt (ρ : Env) (l : List BExp) : val ρ l < 2 ^ l.length := by
  have := valLE_lt (evalBits ρ l); simpa [val] using this

theorem evalAnd_eq_all (ρ : Env) (l : List BExp) : evalAnd ρ l = l.all (·.eval ρ) := by
  induction l with
  | nil => rfl
  | cons x xs ih => simp [evalAnd, ih]

/-! ### values of take / drop -/

theorem valLE_take (n : Nat) (l : List Bool) : valLE (l.take n) = valLE l % 2 ^ n := by
  by_cases h : n ≤ l.length
  · have e : valLE l = valLE (l.take n) + 2 ^ n * valLE (l.drop n) := by
      have := valLE_append (l.take n) (l.drop n)
      rw [List.take_append_drop] at this
      rw [this, List.length_take, Nat.min_eq_left h]
    have hl := valLE_lt (l.take n)
    rw [List.length_take, Nat.min_eq_left h] at hl
    rw [e, Nat.add_mul_mod_self_left, Nat.mod_eq_of_lt hl]
  · have h' : l.length ≤ n := by omega
    rw [List.take_of_length_le h']
    have hl := valLE_lt l
    have : 2 ^ l.length ≤ 2 ^ n := Nat.pow_le_pow_right (by decide) h'
    rw [Nat.mod_eq_of_lt (by omega)]

theorem valLE_drop (n : Nat) (l : List Bool) : valLE (l.drop n) = valLE l / 2 ^ n := by
  by_cases h : n ≤ l.length
  · have e : valLE l = valLE (l.take n) + 2 ^ n * valLE (l.drop n) := by
      have := valLE_append (l.take n) (l.drop n)
      rw [List.take_append_drop] at this
      rw [this, List.length_take, Nat.min_eq_left h]
    have hl := valLE_lt (l.take n)
    rw [List.length_take, Nat.min_eq_left h] at hl
    have hp : 0 < 2 ^ n := Nat.pow_pos (by decide)
    rw [e, Nat.add_mul_div_left _ _ hp, Nat.div_eq_of_lt hl, Nat.zero_add]
  · have h' : l.length ≤ n := by omega
    rw [List.drop_eq_nil_of_le h']
    have hl := valLE_lt l
    have : 2 ^ l.length ≤ 2 ^ n := Nat.pow_le_pow_right (by decide) h'
    rw [Nat.div_eq_of_lt (by omega)]; rfl

/-! ### fill, crop, not, shifts -/

theorem fill_length (n : Nat) (l : List BExp) : (fill n l).length = max n l.length := by
  unfold fill; split
  · omega
  · simp; omega

theorem val_fill (ρ : Env) (n : Nat) (l : List BExp) : val ρ (fill n l) = val ρ l := by
  unfold fill; split
  · rfl
  · simp [val, evalBits_append, evalBits_replicate_ff, valLE_append, valLE_replicate_false]

theorem crop_length (n : Nat) (l : List BExp) : (crop n l).length = min n l.length := by
  unfold crop; split
  · omega
  · simp

theorem val_crop (ρ : Env) (n : Nat) (l : List BExp) : val ρ (crop n l) = val ρ l % 2 ^ n := by
  unfold crop; split
  · rename_i h
    have hl := val_lt ρ l
    have : 2 ^ l.length ≤ 2 ^ n := Nat.pow_le_pow_right (by decide) h
    rw [Nat.mod_eq_of_lt (by omega)]
  · simp [val, evalBits_take, valLE_take]

theorem bitwiseNot_length (l : List BExp) : (bitwiseNot l).length = l.length := by simp [bitwiseNot]

theorem val_bitwiseNot (ρ : Env) (l : List BExp) : val ρ (bitwiseNot l) + val ρ l + 1 = 2 ^ l.length := by
  induction l with
  | nil => simp [bitwiseNot, val]
  | cons a as ih =>
    simp only [bitwiseNot, val, List.map_cons, evalBits_cons, valLE_cons, BExp.eval, List.length_cons,
      Nat.pow_succ] at *
    cases a.eval ρ <;> simp <;> omega

theorem val_shiftLeft (ρ : Env) (n : Nat) (l : List BExp) (i : Nat) :
    val ρ (shiftLeft n l i) = (2 ^ i * val ρ l) % 2 ^ n := by
  unfold shiftLeft
  rw [val_crop]
  simp [val, evalBits_append, evalBits_replicate_ff, valLE_append, valLE_replicate_false]

theorem val_shiftRight (ρ : Env) (n : Nat) (l : List BExp) (i : Nat) :
    val ρ (shiftRight n l i) = val ρ l / 2 ^ i := by
  unfold shiftRight
  rw [val_fill]
  simp [val, evalBits_drop, valLE_drop]

/-! ### the ripple-carry adder -/

theorem addLoop_length (c : BExp) (as bs : List BExp) :
    (addLoop c as bs).length = min as.length bs.length := by
  induction as generalizing c bs with
  | nil => simp [addLoop]
  | cons a as ih =>
    cases bs with
    | nil => simp [addLoop]
    | cons b bs => simp [addLoop, ih]

theorem mod_two_mul (r X P : Nat) (hr : r < 2) (hP : 0 < P) :
    (r + 2 * X) % (P * 2) = r + 2 * (X % P) := by
  have h := Nat.div_add_mod X P
  have hm := Nat.mod_lt X hP
  have e : r + 2 * X = (r + 2 * (X % P)) + (P * 2) * (X / P) := by
    have : 2 * X = 2 * (P * (X / P) + X % P) := by rw [h]
    rw [this]; ring
  rw [e, Nat.add_mul_mod_self_left, Nat.mod_eq_of_lt]; omega

theorem adder_step (a b c : Bool) (A B P : Nat) (hP : 0 < P) :
    bitN (Bool.xor (Bool.xor a b) c) + 2 * ((A + B + bitN (Bool.xor (a && b) ((Bool.xor a b) && c))) % P)
      = ((bitN a + 2 * A) + (bitN b + 2 * B) + bitN c) % (P * 2) := by
  have key : (bitN a + 2 * A) + (bitN b + 2 * B) + bitN c
      = bitN (Bool.xor (Bool.xor a b) c) + 2 * (A + B + bitN (Bool.xor (a && b) ((Bool.xor a b) && c))) := by
    cases a <;> cases b <;> cases c <;> simp [bitN] <;> omega
  rw [key, mod_two_mul _ _ _ _ hP]
  cases a <;> cases b <;> cases c <;> simp [bitN]

theorem fullAdder_eval (ρ : Env) (c a b : BExp) :
    (fullAdder c a b).1.eval ρ = Bool.xor (a.eval ρ && b.eval ρ) ((Bool.xor (a.eval ρ) (b.eval ρ)) && c.eval ρ) ∧
    (fullAdder c a b).2.eval ρ = Bool.xor (Bool.xor (a.eval ρ) (b.eval ρ)) (c.eval ρ) := by
  simp [fullAdder, BExp.eval, evalAnd, evalXor]

theorem addLoop_correct (ρ : Env) (c : BExp) (as bs : List BExp) (h : as.length = bs.length) :
    val ρ (addLoop c as bs) = (val ρ as + val ρ bs + bitN (c.eval ρ)) % 2 ^ as.length := by
  induction as generalizing c bs with
  | nil =>
    cases bs with
    | nil => simp [addLoop, val, Nat.mod_one]
    | cons b bs => simp at h
  | cons a as ih =>
    cases bs with
    | nil => simp at h
    | cons b bs =>
      simp at h
      have ih' := ih (fullAdder c a b).1 bs h
      have fa := fullAdder_eval ρ c a b
      simp only [val, addLoop, evalBits_cons, valLE_cons] at *
      rw [ih', fa.1, fa.2]
      simp only [List.length_cons, Nat.pow_succ]
      have hP : 0 < 2 ^ as.length := Nat.pow_pos (by decide)
      exact adder_step _ _ _ _ _ _ hP

theorem widenL_length (l r : List BExp) : (widenL l r).length = max l.length r.length := by
  unfold widenL; split
  · rw [fill_length]; omega
  · omega
theorem widenR_length (l r : List BExp) : (widenR l r).length = max l.length r.length := by
  unfold widenR; split
  · rw [fill_length]
  · omega
theorem val_widenL (ρ : Env) (l r : List BExp) : val ρ (widenL l r) = val ρ l := by
  unfold widenL; split
  · exact val_fill ρ _ _
  · rfl
theorem val_widenR (ρ : Env) (l r : List BExp) : val ρ (widenR l r) = val ρ r := by
  unfold widenR; split
  · exact val_fill ρ _ _
  · rfl

theorem qAdd_length (l r : List BExp) : (qAdd l r).length = max l.length r.length := by
  unfold qAdd
  rw [addLoop_length, widenL_length, widenR_length]; omega

theorem val_qAdd (ρ : Env) (l r : List BExp) :
    val ρ (qAdd l r) = (val ρ l + val ρ r) % 2 ^ (max l.length r.length) := by
  unfold qAdd
  rw [addLoop_correct ρ .ff _ _ (by rw [widenL_length, widenR_length]), val_widenL, val_widenR,
    widenL_length]
  simp [BExp.eval, bitN]

/-! ### equality -/

/-- value equality of two little-endian bit lists of any lengths, bit by bit -/
def eqB : List Bool → List Bool → Bool
  | [], r => r.all (!·)
  | l, [] => l.all (!·)
  | a :: as, b :: bs => (a == b) && eqB as bs

theorem valLE_eq_zero (l : List Bool) : (valLE l = 0) ↔ l.all (!·) = true := by
  induction l with
  | nil => simp
  | cons b bs ih =>
    simp only [valLE_cons, List.all_cons]
    cases b <;> simp [← ih] <;> omega

theorem all_not_eq (l : List Bool) : l.all (!·) = decide (valLE l = 0) := by
  have h := valLE_eq_zero l
  by_cases h0 : valLE l = 0
  · simp [h0, h.1 h0]
  · have : ¬ (l.all (!·) = true) := fun x => h0 (h.2 x)
    simp [h0, this]

theorem any_id_eq_not_all (l : List Bool) : l.any id = !(l.all (!·)) := by
  induction l with
  | nil => rfl
  | cons x xs ih => cases x <;> simp [ih]

theorem eqB_spec (l r : List Bool) : eqB l r = decide (valLE l = valLE r) := by
  induction l generalizing r with
  | nil =>
    simp only [eqB, valLE_nil, all_not_eq]
    exact decide_eq_decide.2 ⟨fun h => h.symm, fun h => h.symm⟩
  | cons a as ih =>
    cases r with
    | nil =>
      simp only [eqB, valLE_nil, all_not_eq]
      exact decide_eq_decide.2 Iff.rfl
    | cons b bs =>
      simp only [eqB, ih bs, valLE_cons]
      cases a <;> cases b <;> simp <;> omega

theorem andNotAll_eval (ρ : Env) (ex : BExp) (l : List BExp) :
    (andNotAll ex l).eval ρ = (ex.eval ρ && (evalBits ρ l).all (!·)) := by
  induction l generalizing ex with
  | nil => simp [andNotAll]
  | cons x xs ih => simp [andNotAll, ih, BExp.eval, evalAnd, Bool.and_assoc]

theorem orAll_eval (ρ : Env) (ex : BExp) (l : List BExp) :
    (orAll ex l).eval ρ = (ex.eval ρ || (evalBits ρ l).any id) := by
  induction l generalizing ex with
  | nil => simp [orAll]
  | cons x xs ih => simp [orAll, ih, BExp.eval, evalOr, Bool.or_assoc]

theorem bEq_eval (ρ : Env) (a b : BExp) : (bEq a b).eval ρ = (a.eval ρ == b.eval ρ) := by
  simp only [bEq, BExp.eval, evalXor]; cases a.eval ρ <;> cases b.eval ρ <;> rfl

theorem bNeq_eval (ρ : Env) (a b : BExp) : (bNeq a b).eval ρ = (a.eval ρ != b.eval ρ) := by
  simp only [bNeq, BExp.eval, evalXor]; cases a.eval ρ <;> cases b.eval ρ <;> rfl

theorem qEq_aux (ρ : Env) (l r : List BExp) (ex : BExp) :
    (andNotAll (andNotAll (eqLoop ex l r) (l.drop r.length)) (r.drop l.length)).eval ρ
      = (ex.eval ρ && eqB (evalBits ρ l) (evalBits ρ r)) := by
  induction l generalizing r ex with
  | nil => simp [eqLoop, andNotAll, andNotAll_eval, eqB]
  | cons a as ih =>
    cases r with
    | nil => simp [eqLoop, andNotAll, andNotAll_eval, eqB, BExp.eval, evalAnd, Bool.and_assoc]
    | cons b bs =>
      simp only [eqLoop, List.length_cons, List.drop_succ_cons, evalBits_cons, eqB]
      rw [ih]
      simp [BExp.eval, evalAnd, bEq_eval, Bool.and_assoc]

theorem qEq_eval (ρ : Env) (l r : List BExp) : (qEq l r).eval ρ = decide (val ρ l = val ρ r) := by
  unfold qEq
  rw [qEq_aux, eqB_spec]; simp only [BExp.eval, Bool.true_and]; rfl

theorem qNeq_aux (ρ : Env) (l r : List BExp) (ex : BExp) :
    (orAll (orAll (neqLoop ex l r) (l.drop r.length)) (r.drop l.length)).eval ρ
      = (ex.eval ρ || !eqB (evalBits ρ l) (evalBits ρ r)) := by
  induction l generalizing r ex with
  | nil => simp [neqLoop, orAll, orAll_eval, eqB, any_id_eq_not_all]
  | cons a as ih =>
    cases r with
    | nil => simp [neqLoop, orAll, orAll_eval, eqB, any_id_eq_not_all, BExp.eval, evalOr, Bool.or_assoc]
    | cons b bs =>
      simp only [neqLoop, List.length_cons, List.drop_succ_cons, evalBits_cons, eqB]
      rw [ih]
      simp only [BExp.eval, evalOr, bNeq_eval, Bool.or_false]
      cases ex.eval ρ <;> cases a.eval ρ <;> cases b.eval ρ <;> simp

theorem qNeq_eval (ρ : Env) (l r : List BExp) : (qNeq l r).eval ρ = decide (val ρ l ≠ val ρ r) := by
  unfold qNeq
  rw [qNeq_aux, eqB_spec]
  simp only [BExp.eval, Bool.false_or, val]
  by_cases h : valLE (evalBits ρ l) = valLE (evalBits ρ r) <;> simp [h]

/-! ### the MSB-first comparator -/

theorem gt_step (x y : Bool) (A B P : Nat) (hA : A < P) (hB : B < P) :
    decide (bitN x * P + A > bitN y * P + B) = ((x && !y) || ((x == y) && decide (A > B))) := by
  cases x <;> cases y <;> simp [bitN] <;> omega

theorem valBE_cons' (b : Bool) (bs : List Bool) : valBE (b :: bs) = bitN b * 2 ^ bs.length + valBE bs := by
  rw [valBE_cons]; rfl

theorem gtLoop_some (ρ : Env) (rest : List (BExp × BExp)) :
    ∀ (e : BExp) (prev : List BExp),
      (e.eval ρ = true → (prev.all (·.eval ρ)) = false) →
      (gtLoop (some e) prev rest).eval ρ =
        (e.eval ρ || ((prev.all (·.eval ρ)) &&
          decide (valBE (rest.map (fun p => p.1.eval ρ)) > valBE (rest.map (fun p => p.2.eval ρ))))) := by
  induction rest with
  | nil => intro e prev _; simp [gtLoop, valBE]
  | cons p rest ih =>
    intro e prev hGE
    obtain ⟨a, b⟩ := p
    have hl := valBE_lt (rest.map (fun p => p.1.eval ρ))
    have hr := valBE_lt (rest.map (fun p => p.2.eval ρ))
    simp only [List.length_map] at hl hr
    have hprev : ((prev ++ [bEq a b]).all (·.eval ρ)) = ((prev.all (·.eval ρ)) && (a.eval ρ == b.eval ρ)) := by
      simp [List.all_append, bEq_eval]
    have hnew : evalAnd ρ (prev ++ [a, .not b]) = ((prev.all (·.eval ρ)) && (a.eval ρ && !b.eval ρ)) := by
      rw [evalAnd_eq_all]; simp [List.all_append, BExp.eval]
    simp only [gtLoop]
    rw [ih]
    · simp only [BExp.eval, evalOr, hprev, hnew, List.map_cons, valBE_cons', List.length_map, Bool.or_false]
      rw [gt_step _ _ _ _ _ hl hr]
      cases e.eval ρ <;> cases (prev.all (·.eval ρ)) <;> cases a.eval ρ <;> cases b.eval ρ <;> simp
    · simp only [BExp.eval, evalOr, hprev, hnew, Bool.or_false]
      revert hGE
      cases e.eval ρ <;> cases (prev.all (·.eval ρ)) <;> cases a.eval ρ <;> cases b.eval ρ <;> simp

theorem gtLoop_correct (ρ : Env) (ps : List (BExp × BExp)) :
    (gtLoop none [] ps).eval ρ =
      decide (valBE (ps.map (fun p => p.1.eval ρ)) > valBE (ps.map (fun p => p.2.eval ρ))) := by
  cases ps with
  | nil => simp [gtLoop, BExp.eval, valBE]
  | cons p rest =>
    obtain ⟨a, b⟩ := p
    have hl := valBE_lt (rest.map (fun p => p.1.eval ρ))
    have hr := valBE_lt (rest.map (fun p => p.2.eval ρ))
    simp only [List.length_map] at hl hr
    simp only [gtLoop, List.nil_append]
    rw [gtLoop_some]
    · simp only [List.map_cons, valBE_cons', List.length_map]
      rw [gt_step _ _ _ _ _ hl hr]
      simp [BExp.eval, evalAnd, bEq_eval]
    · simp [BExp.eval, evalAnd, bEq_eval]
      cases a.eval ρ <;> cases b.eval ρ <;> simp

theorem zip_map_fst (l r : List BExp) : (l.zip r).map Prod.fst = l.take r.length := by
  induction l generalizing r with
  | nil => simp
  | cons a as ih => cases r with
    | nil => simp
    | cons b bs => simp [ih]

theorem zip_map_snd (l r : List BExp) : (l.zip r).map Prod.snd = r.take l.length := by
  induction l generalizing r with
  | nil => simp
  | cons a as ih => cases r with
    | nil => simp
    | cons b bs => simp [ih]

/-- the zip loop of `gt` decides `>` on the common low bits -/
theorem gtCore_eval (ρ : Env) (l r : List BExp) :
    (gtLoop none [] (l.zip r).reverse).eval ρ
      = decide (val ρ (l.take r.length) > val ρ (r.take l.length)) := by
  rw [gtLoop_correct]
  have h1 : ((l.zip r).reverse.map (fun p => p.1.eval ρ)) = (evalBits ρ (l.take r.length)).reverse := by
    rw [← zip_map_fst, evalBits, List.map_map, List.map_reverse]; rfl
  have h2 : ((l.zip r).reverse.map (fun p => p.2.eval ρ)) = (evalBits ρ (r.take l.length)).reverse := by
    rw [← zip_map_snd, evalBits, List.map_map, List.map_reverse]; rfl
  rw [h1, h2, valBE_reverse, valBE_reverse]; rfl

theorem val_split (ρ : Env) (l : List BExp) (n : Nat) :
    val ρ l = val ρ (l.take n) + 2 ^ (min n l.length) * val ρ (l.drop n) := by
  have := valLE_append (evalBits ρ (l.take n)) (evalBits ρ (l.drop n))
  rw [← evalBits_append, List.take_append_drop] at this
  simpa [val] using this

theorem any_id_eq (l : List Bool) : l.any id = decide (valLE l > 0) := by
  have h := valLE_eq_zero l
  by_cases h0 : valLE l = 0
  · have h1 := h.1 h0
    have : l.any id = false := by
      rw [List.any_eq_false]; intro x hx
      have := (List.all_eq_true.1 h1) x hx; simpa using this
    simp [this, h0]
  · have : ¬ (l.all (!·) = true) := fun x => h0 (h.2 x)
    have h2 : l.any id = true := by
      rw [List.all_eq_true] at this
      push Not at this
      obtain ⟨x, hx, hb⟩ := this
      exact List.any_eq_true.2 ⟨x, hx, by simpa using hb⟩
    have : valLE l > 0 := by omega
    simp [h2, this]

theorem gt_arith (A B P D E : Nat) (hA : A < P) (hB : B < P) (hDE : D = 0 ∨ E = 0) :
    (A + P * D > B + P * E) ↔ ((A > B ∨ D > 0) ∧ E = 0) := by
  rcases hDE with h | h
  · subst h
    by_cases hE : E = 0
    · subst hE; simp
    · have : P ≤ P * E := Nat.le_mul_of_pos_right P (by omega)
      generalize P * E = PE at *
      constructor
      · intro h; omega
      · intro h; omega
  · subst h
    by_cases hD : D = 0
    · subst hD; simp
    · have : P ≤ P * D := Nat.le_mul_of_pos_right P (by omega)
      generalize P * D = PD at *
      constructor
      · intro h; exact ⟨by omega, rfl⟩
      · intro h; omega

theorem qGt_none (l r : List BExp) : qGt Quirks.none l r
    = andNotAll (orAll (gtLoop none [] (l.zip r).reverse) (l.drop r.length)) (r.drop l.length) := rfl

/-- `QintImp.gt`, repaired, decides `>` on the values for operands of any widths -/
theorem qGt_eval (ρ : Env) (l r : List BExp) :
    (qGt Quirks.none l r).eval ρ = decide (val ρ l > val ρ r) := by
  rw [qGt_none]
  rw [andNotAll_eval, orAll_eval, gtCore_eval, any_id_eq, all_not_eq]
  have sl := val_split ρ l r.length
  have sr := val_split ρ r l.length
  have hA := val_lt ρ (l.take r.length)
  have hB := val_lt ρ (r.take l.length)
  rw [List.length_take] at hA hB
  rw [Nat.min_comm l.length r.length] at hB
  have hDE : val ρ (l.drop r.length) = 0 ∨ val ρ (r.drop l.length) = 0 := by
    by_cases h : l.length ≤ r.length
    · left; rw [List.drop_eq_nil_of_le h]; rfl
    · right; rw [List.drop_eq_nil_of_le (by omega)]; rfl
  rw [Nat.min_comm l.length r.length] at sr
  have key := gt_arith _ _ _ _ _ hA hB hDE
  rw [← sl, ← sr] at key
  simp only [val] at *
  by_cases hk : valLE (evalBits ρ l) > valLE (evalBits ρ r)
  · have := key.1 hk
    rcases this with ⟨h1, h2⟩
    rcases h1 with h1 | h1 <;> simp [hk, h1, h2]
  · have hn : ¬ ((valLE (evalBits ρ (l.take r.length)) > valLE (evalBits ρ (r.take l.length)) ∨
        valLE (evalBits ρ (l.drop r.length)) > 0) ∧ valLE (evalBits ρ (r.drop l.length)) = 0) :=
      fun x => hk (key.2 x)
    simp only [hk, decide_false]
    by_cases hE : valLE (evalBits ρ (r.drop l.length)) = 0
    · have h3 : ¬ (valLE (evalBits ρ (l.take r.length)) > valLE (evalBits ρ (r.take l.length)) ∨
          valLE (evalBits ρ (l.drop r.length)) > 0) := fun x => hn ⟨x, hE⟩
      push Not at h3
      have h4 : ¬ valLE (evalBits ρ (l.take r.length)) > valLE (evalBits ρ (r.take l.length)) := by omega
      have h5 : ¬ valLE (evalBits ρ (l.drop r.length)) > 0 := by omega
      simp [h4, h5]
    · simp [hE]

/-- when the right operand is not wider the listed defect of `gt` is not reached -/
theorem qGt_quirk_irrelevant (q : Quirks) (l r : List BExp) (h : r.length ≤ l.length) :
    qGt q l r = qGt Quirks.none l r := by
  unfold qGt
  rw [List.drop_eq_nil_of_le h]
  simp [orAll, andNotAll, Quirks.none]

/-! ### subtraction -/

theorem sub_arith (a b P : Nat) (ha : a < P) (hb : b < P) :
    P - 1 - ((P - 1 - a + b) % P) = (a + P - b) % P := by
  by_cases h : b ≤ a
  · have e1 : (P - 1 - a + b) % P = P - 1 - a + b := Nat.mod_eq_of_lt (by omega)
    have e2 : (a + P - b) % P = a - b := by
      have : a + P - b = (a - b) + P := by omega
      rw [this, Nat.add_mod_right, Nat.mod_eq_of_lt (by omega)]
    rw [e1, e2]; omega
  · have e1 : (P - 1 - a + b) % P = b - a - 1 := by
      have : P - 1 - a + b = (b - a - 1) + P := by omega
      rw [this, Nat.add_mod_right, Nat.mod_eq_of_lt (by omega)]
    have e2 : (a + P - b) % P = a + P - b := Nat.mod_eq_of_lt (by omega)
    rw [e1, e2]; omega

end QV.Arith
