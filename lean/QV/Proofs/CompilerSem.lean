import QV.Model.Compiler
import QV.Proofs.Circuit
import QV.Proofs.Bennett
import QV.Proofs.CompilerInv
/-!
# Semantic correctness of the compiler model on the tree-like fragment

`CompilerInv.lean` proves structural facts about every run of `compile`.  This file proves what the
emitted gates *compute*, for a decidable fragment: a single definition whose expression is built
from argument symbols with `Not` / `And` / `Or` / `Xor`, in which no compound sub-expression occurs
twice (`treeLike`).  On that fragment every lookup in the expression cache misses, the free set is
empty while the expression is compiled (so every ancilla is a fresh qubit) and the algorithm does
what it was written for.

Layout: classical effect of one appended gate (`Appended.cur_eq/ne`), a composable two-state
relation `Sem` (frame, cache keys, marks), one lemma per primitive, one lemma per `compile_*`
branch taking the recursive facts as hypotheses (`exprSem_*`), tied by the mutual structural
recursion `exprSem` / `argsSem` / `xorSem`; then the statement loop for one definition
(`uncompute` replays only gates whose target is marked) and `compile`.
-/
namespace QV.Compiler
open QV

/-! ### classical effect of one gate

Qubit values are tracked as total functions `Nat → Bool` (`runF`), which frees the invariants from
length side conditions; `runF_spec` relates them to `runClassical` on a list state that is long
enough for every wire. -/

/-- a basis state as a total function -/
abbrev FState := Nat → Bool

def applyF (g : AGate) (f : FState) : FState :=
  match g.wires.getLast? with
  | none => f
  | some t => if g.wires.dropLast.all f then (fun q => if q = t then !f t else f q) else f

def stepF (f : FState) (g : AGate) : FState := if g.cls.isMCXLike then applyF g f else f

def runF (gs : List AGate) (f : FState) : FState := gs.foldl stepF f

theorem runF_cons (g : AGate) (gs : List AGate) (f : FState) : runF (g :: gs) f = runF gs (stepF f g) := rfl

theorem runF_append (a b : List AGate) (f : FState) : runF (a ++ b) f = runF b (runF a f) := by
  unfold runF; rw [List.foldl_append]

/-- the list state seen as a function (zero beyond its length) -/
def toF (σ : BState) : FState := fun q => σ.getD q false

theorem stepF_spec (g : AGate) (σ : BState) (h : ∀ w ∈ g.wires, w < σ.length) :
    toF (stepClassical σ g) = stepF (toF σ) g := by
  unfold stepClassical stepF
  split
  · unfold AGate.applyClassical applyF
    cases ht : g.wires.getLast? with
    | none => rfl
    | some t =>
      have htl : t < σ.length := h t (List.mem_of_getLast? ht)
      dsimp only
      have e : (g.wires.dropLast.all fun c => σ.getD c false) = g.wires.dropLast.all (toF σ) := rfl
      rw [e]
      split
      · funext q
        show (σ.flip t).getD q false = _
        rw [flip_getD]
        by_cases hq : q = t
        · subst hq; simp [htl, toF]
        · simp [hq, Ne.symm hq, toF]
      · rfl
  · rfl

/-- `runClassical` on a list state long enough for every wire agrees with `runF` -/
theorem runF_spec (gs : List AGate) (σ : BState) (h : ∀ g ∈ gs, ∀ w ∈ g.wires, w < σ.length) :
    toF (runClassical gs σ) = runF gs (toF σ) := by
  induction gs generalizing σ with
  | nil => rfl
  | cons g gs ih =>
    rw [runClassical_cons, runF_cons, ← stepF_spec g σ (h g List.mem_cons_self)]
    apply ih
    intro g' hg' w hw
    rw [stepClassical_length]
    exact h g' (List.mem_cons_of_mem _ hg') w hw

/-- the basis state reached by the gates emitted so far, from the initial state `σ0` -/
def cur (σ0 : FState) (s : CState) : FState := runF s.qc.gates.toList σ0

/-- an MCX-like gate on `cs ++ [t]` xors the conjunction of the controls into `t` -/
theorem applyF_eq (g : AGate) (cs : List Nat) (t : Nat) (hw : g.wires = cs ++ [t]) (f : FState) :
    applyF g f t = Bool.xor (f t) (cs.all f) := by
  unfold applyF
  rw [hw]
  simp only [List.getLast?_append, List.getLast?_singleton, Option.some_or, List.dropLast_concat]
  split
  · next h => rw [h]; simp
  · next h =>
    have : cs.all f = false := by simpa using h
    rw [this]; simp

theorem applyF_ne (g : AGate) (cs : List Nat) (t : Nat) (hw : g.wires = cs ++ [t]) (f : FState)
    (q : Nat) (hq : q ≠ t) : applyF g f q = f q := by
  unfold applyF
  rw [hw]
  simp only [List.getLast?_append, List.getLast?_singleton, Option.some_or, List.dropLast_concat]
  split
  · simp [hq]
  · rfl

theorem Appended.cur_step {cls : GClass} {wires : List Nat} {s s' : CState}
    (ha : Appended cls wires s s') (hc : cls.isMCXLike = true) (σ0 : FState) :
    ∃ g : AGate, g.wires = wires ∧ cur σ0 s' = applyF g (cur σ0 s) := by
  obtain ⟨g, hgc, hgw, hgates, _⟩ := ha.gates
  refine ⟨g, hgw, ?_⟩
  unfold cur
  rw [hgates, Array.toList_push, runF_append]
  show stepF _ g = _
  unfold stepF
  rw [hgc, hc]; rfl

theorem Appended.cur_eq {cls : GClass} {cs : List Nat} {t : Nat} {s s' : CState}
    (ha : Appended cls (cs ++ [t]) s s') (hc : cls.isMCXLike = true) (σ0 : FState) :
    cur σ0 s' t = Bool.xor (cur σ0 s t) (cs.all (cur σ0 s)) := by
  obtain ⟨g, hw, he⟩ := ha.cur_step hc σ0
  rw [he]
  exact applyF_eq g cs t hw _

theorem Appended.cur_ne {cls : GClass} {cs : List Nat} {t : Nat} {s s' : CState}
    (ha : Appended cls (cs ++ [t]) s s') (hc : cls.isMCXLike = true) (σ0 : FState)
    (q : Nat) (hq : q ≠ t) : cur σ0 s' q = cur σ0 s q := by
  obtain ⟨g, hw, he⟩ := ha.cur_step hc σ0
  rw [he]
  exact applyF_ne g cs t hw _ q hq

/-! ### the two-state relation -/

/-- what a piece of the compiler did between `s` and `s'`, seen from the qubit values:
`W` = qubits (existing in `s`) it may have written, `K` = cache keys it may have added,
`Mk` = qubits it may have marked -/
structure Sem (σ0 : FState) (W : Nat → Prop) (K : BExp → Prop) (Mk : Nat → Prop) (s s' : CState) : Prop where
  nq : s.qc.numQubits ≤ s'.qc.numQubits
  free : s.qc.free = [] → s'.qc.free = []
  frame : ∀ q, q < s.qc.numQubits → ¬ W q → cur σ0 s' q = cur σ0 s q
  keys : ∀ p ∈ s'.expq, (∃ p0 ∈ s.expq, p0.1 = p.1) ∨ K p.1
  marks : ∀ m ∈ s'.qc.marked, m ∈ s.qc.marked ∨ Mk m

/-- nothing written / cached / marked -/
abbrev NoQ : Nat → Prop := fun _ => False
abbrev NoK : BExp → Prop := fun _ => False

theorem Sem.refl {σ0 : FState} {W : Nat → Prop} {K : BExp → Prop} {Mk : Nat → Prop} (s : CState) :
    Sem σ0 W K Mk s s :=
  ⟨Nat.le_refl _, fun h => h, fun _ _ _ => rfl, fun p hp => Or.inl ⟨p, hp, rfl⟩, fun _ hm => Or.inl hm⟩

theorem Sem.trans {σ0 : FState} {W : Nat → Prop} {K : BExp → Prop} {Mk : Nat → Prop} {s s1 s2 : CState}
    (h1 : Sem σ0 W K Mk s s1) (h2 : Sem σ0 W K Mk s1 s2) : Sem σ0 W K Mk s s2 := by
  refine ⟨Nat.le_trans h1.nq h2.nq, fun h => h2.free (h1.free h), ?_, ?_, ?_⟩
  · intro q hq hw
    rw [h2.frame q (Nat.lt_of_lt_of_le hq h1.nq) hw, h1.frame q hq hw]
  · intro p hp
    rcases h2.keys p hp with ⟨p1, hp1, e1⟩ | hk
    · rcases h1.keys p1 hp1 with ⟨p0, hp0, e0⟩ | hk
      · exact Or.inl ⟨p0, hp0, e0.trans e1⟩
      · exact Or.inr (e1 ▸ hk)
    · exact Or.inr hk
  · intro m hm
    rcases h2.marks m hm with h | h
    · exact h1.marks m h
    · exact Or.inr h

theorem Sem.trans' {σ0 : FState} {W1 W2 : Nat → Prop} {K1 K2 : BExp → Prop} {Mk1 Mk2 : Nat → Prop}
    {s s1 s2 : CState} (h1 : Sem σ0 W1 K1 Mk1 s s1) (h2 : Sem σ0 W2 K2 Mk2 s1 s2) :
    Sem σ0 (fun q => W1 q ∨ W2 q) (fun e => K1 e ∨ K2 e) (fun m => Mk1 m ∨ Mk2 m) s s2 := by
  refine ⟨Nat.le_trans h1.nq h2.nq, fun h => h2.free (h1.free h), ?_, ?_, ?_⟩
  · intro q hq hw
    rw [h2.frame q (Nat.lt_of_lt_of_le hq h1.nq) (fun h => hw (Or.inr h)), h1.frame q hq (fun h => hw (Or.inl h))]
  · intro p hp
    rcases h2.keys p hp with ⟨p1, hp1, e1⟩ | hk
    · rcases h1.keys p1 hp1 with ⟨p0, hp0, e0⟩ | hk
      · exact Or.inl ⟨p0, hp0, e0.trans e1⟩
      · exact Or.inr (Or.inl (e1 ▸ hk))
    · exact Or.inr (Or.inr hk)
  · intro m hm
    rcases h2.marks m hm with h | h
    · exact (h1.marks m h).imp id Or.inl
    · exact Or.inr (Or.inr h)

theorem Sem.mono {σ0 : FState} {W W' : Nat → Prop} {K K' : BExp → Prop} {Mk Mk' : Nat → Prop} {s s' : CState}
    (h : Sem σ0 W K Mk s s') (hw : ∀ q, q < s.qc.numQubits → W q → W' q) (hk : ∀ e, K e → K' e)
    (hm : ∀ m, Mk m → Mk' m) : Sem σ0 W' K' Mk' s s' :=
  ⟨h.nq, h.free, fun q hq hnw => h.frame q hq (fun hwq => hnw (hw q hq hwq)),
   fun p hp => (h.keys p hp).imp id (hk _), fun m hm' => (h.marks m hm').imp id (hm _)⟩

/-- marked qubits exist -/
theorem Sem.with_lt {σ0 : FState} {W : Nat → Prop} {K : BExp → Prop} {Mk : Nat → Prop} {s s' : CState}
    (h : Sem σ0 W K Mk s s') (hg : Good s') : Sem σ0 W K (fun m => Mk m ∧ m < s'.qc.numQubits) s s' :=
  ⟨h.nq, h.free, h.frame, h.keys, fun m hm => (h.marks m hm).imp id (fun k => ⟨k, hg.marked_lt m hm⟩)⟩

/-- a step that changes neither the gates nor the semantic bookkeeping -/
theorem Sem.of_quiet {σ0 : FState} {W : Nat → Prop} {K : BExp → Prop} {Mk : Nat → Prop} {s s' : CState}
    (hg : s'.qc.gates = s.qc.gates) (hn : s'.qc.numQubits = s.qc.numQubits) (hf : s'.qc.free = s.qc.free)
    (he : s'.expq = s.expq) (hm : s'.qc.marked = s.qc.marked) : Sem σ0 W K Mk s s' := by
  refine ⟨Nat.le_of_eq hn.symm, fun h => by rw [hf]; exact h, ?_, ?_, ?_⟩
  · intro q _ _; unfold cur; rw [hg]
  · intro p hp; rw [he] at hp; exact Or.inl ⟨p, hp, rfl⟩
  · intro m hm'; rw [hm] at hm'; exact Or.inl hm'

theorem cur_congr {σ0 : FState} {s s' : CState} (hg : s'.qc.gates = s.qc.gates) : cur σ0 s' = cur σ0 s := by
  unfold cur; rw [hg]

/-! ### primitives -/

theorem append_run {cls : GClass} {wires : List Nat} {u : Unit} {s s' : CState}
    (h : (append cls wires).run s = .ok (u, s')) : Appended cls wires s s' := by
  unfold append at h
  obtain ⟨b, h⟩ := run_discard_ok.mp h
  exact appendG_run h

theorem Appended.sem {σ0 : FState} {cls : GClass} {cs : List Nat} {t : Nat}
    {s s' : CState} (ha : Appended cls (cs ++ [t]) s s') (hc : cls.isMCXLike = true) :
    Sem σ0 (· = t) NoK NoQ s s' := by
  refine ⟨Nat.le_of_eq ha.nq.symm, fun h => by rw [ha.free]; exact h, ?_, ?_, ?_⟩
  · intro q _ hq; exact ha.cur_ne hc σ0 q hq
  · intro p hp; rw [ha.expq] at hp; exact Or.inl ⟨p, hp, rfl⟩
  · intro m hm; rw [ha.marked] at hm; exact Or.inl hm

theorem xGate_run {w : Nat} {u : Unit} {s s' : CState} (h : (xGate w).run s = .ok (u, s')) :
    Appended .X ([] ++ [w]) s s' := append_run h

theorem cx_run {a b : Nat} {u : Unit} {s s' : CState} (h : (cx a b).run s = .ok (u, s')) :
    Appended .CX ([a] ++ [b]) s s' := append_run h

theorem mcx_run {cs : List Nat} {t : Nat} {u : Unit} {s s' : CState} (h : (mcx cs t).run s = .ok (u, s')) :
    Appended (.MCX cs.length) (cs ++ [t]) s s' := append_run h

theorem event_sem {σ0 : FState} {e : String} {u : Unit}
    {s s' : CState} (h : (event e).run s = .ok (u, s')) : Sem σ0 NoQ NoK NoQ s s' ∧ cur σ0 s' = cur σ0 s := by
  have := event_run h; subst this
  exact ⟨Sem.of_quiet rfl rfl rfl rfl rfl, rfl⟩

/-- with an empty free set `get_free_ancilla` creates a new qubit -/
theorem getFreeAncilla_fresh {a : Nat} {s s' : CState} (h : getFreeAncilla.run s = .ok (a, s'))
    (hf : s.qc.free = []) :
    a = s.qc.numQubits ∧ s'.qc.numQubits = s.qc.numQubits + 1 ∧ s'.qc.gates = s.qc.gates ∧
      s'.qc.free = [] ∧ s'.expq = s.expq ∧ s'.qc.marked = s.qc.marked := by
  unfold getFreeAncilla at h
  simp only [run_bind_ok] at h
  obtain ⟨s0, s1, hget, h⟩ := h
  obtain ⟨e1, e2⟩ := run_get_ok.mp hget
  subst e2; subst e1
  split at h
  · exact (run_throw_ok.mp h).elim
  · next c rest hch =>
    simp only [run_bind_ok] at h
    obtain ⟨u, s1, hset, h⟩ := h
    have := run_set_ok.mp hset; subst this
    split at h
    · simp only [run_bind_ok] at h
      obtain ⟨i, s2, hadd, u2, s3, hm, hif⟩ := h
      have hs4 : a = i ∧ s' = s3 := by
        split at hif
        · simp only [run_bind_ok, run_throw_ok] at hif
          obtain ⟨_, _, hf, _⟩ := hif
          exact hf.elim
        · exact run_pure_ok.mp hif
      obtain ⟨rfl, rfl⟩ := hs4
      obtain ⟨rfl, rfl⟩ := addQubit_run hadd
      have := modQC_run hm; subst this
      exact ⟨rfl, rfl, rfl, hf, rfl, rfl⟩
    · next hne => exact absurd (by rw [hf]; rfl) hne

theorem getFreeAncilla_sem {σ0 : FState} {a : Nat}
    {s s' : CState} (h : getFreeAncilla.run s = .ok (a, s')) (hf : s.qc.free = []) :
    Sem σ0 NoQ NoK NoQ s s' ∧ cur σ0 s' = cur σ0 s ∧ a = s.qc.numQubits ∧
      s'.qc.numQubits = s.qc.numQubits + 1 := by
  obtain ⟨ha, hn, hg, hf', he, hm⟩ := getFreeAncilla_fresh h hf
  refine ⟨⟨by rw [hn]; exact Nat.le_succ _, fun _ => hf', ?_, ?_, ?_⟩, cur_congr hg, ha, hn⟩
  · intro q _ _; rw [cur_congr hg]
  · intro p hp; rw [he] at hp; exact Or.inl ⟨p, hp, rfl⟩
  · intro m hm'; rw [hm] at hm'; exact Or.inl hm'

/-- `get_free_ancilla` adds at most the returned qubit to the ancilla set -/
theorem getFreeAncilla_anc {a : Nat} {s s' : CState} (h : getFreeAncilla.run s = .ok (a, s')) :
    ∀ m ∈ s'.qc.anc, m ∈ s.qc.anc ∨ m = a := by
  unfold getFreeAncilla at h
  simp only [run_bind_ok] at h
  obtain ⟨s0, s1, hget, h⟩ := h
  obtain ⟨e1, e2⟩ := run_get_ok.mp hget
  subst e2; subst e1
  split at h
  · exact (run_throw_ok.mp h).elim
  · next c rest hch =>
    simp only [run_bind_ok] at h
    obtain ⟨u, s1, hset, h⟩ := h
    have := run_set_ok.mp hset; subst this
    split at h
    · simp only [run_bind_ok] at h
      obtain ⟨i, s2, hadd, u2, s3, hm, hif⟩ := h
      have hs4 : a = i ∧ s' = s3 := by
        split at hif
        · simp only [run_bind_ok, run_throw_ok] at hif
          obtain ⟨_, _, hf, _⟩ := hif
          exact hf.elim
        · exact run_pure_ok.mp hif
      obtain ⟨rfl, rfl⟩ := hs4
      obtain ⟨rfl, rfl⟩ := addQubit_run hadd
      have := modQC_run hm; subst this
      intro m hm'
      rcases mem_setIns hm' with h' | h'
      · exact Or.inl h'
      · exact Or.inr h'
    · split at h
      · simp only [run_bind_ok, run_throw_ok] at h
        obtain ⟨_, _, hf, _⟩ := h
        exact hf.elim
      · simp only [run_bind_ok] at h
        obtain ⟨u3, s3, hm, hp⟩ := h
        obtain ⟨rfl, rfl⟩ := run_pure_ok.mp hp
        have := modQC_run hm; subst this
        exact fun m hm' => Or.inl hm'

theorem markAncilla_run {w : Nat} {u : Unit} {s s' : CState} (h : (markAncilla w).run s = .ok (u, s')) :
    s'.qc.gates = s.qc.gates ∧ s'.qc.numQubits = s.qc.numQubits ∧ s'.qc.free = s.qc.free ∧
      s'.expq = s.expq ∧ s'.qc.anc = s.qc.anc ∧
      ∀ m ∈ s'.qc.marked, m ∈ s.qc.marked ∨ (m = w ∧ w ∈ s.qc.anc) := by
  unfold markAncilla at h
  obtain ⟨qc, s1, hq, h⟩ := run_bind_ok.mp h
  obtain ⟨rfl, rfl⟩ := getQC_run hq
  split at h
  · next hc =>
    simp only [Bool.and_eq_true] at hc
    have hc' : w ∈ s1.qc.anc := by simpa using hc.1
    have := modQC_run h; subst this
    refine ⟨rfl, rfl, rfl, rfl, rfl, fun m hm => ?_⟩
    rcases mem_setIns hm with hm | rfl
    · exact Or.inl hm
    · exact Or.inr ⟨rfl, hc'⟩
  · obtain ⟨_, rfl⟩ := run_pure_ok.mp h
    exact ⟨rfl, rfl, rfl, rfl, rfl, fun m hm => Or.inl hm⟩

theorem markAll_run : ∀ (ws : List Nat) {u : Unit} {s s' : CState}, (markAll ws).run s = .ok (u, s') →
    s'.qc.gates = s.qc.gates ∧ s'.qc.numQubits = s.qc.numQubits ∧ s'.qc.free = s.qc.free ∧
      s'.expq = s.expq ∧ s'.qc.anc = s.qc.anc ∧
      ∀ m ∈ s'.qc.marked, m ∈ s.qc.marked ∨ (m ∈ ws ∧ m ∈ s.qc.anc)
  | [], u, s, s', h => by
    unfold markAll at h
    obtain ⟨_, rfl⟩ := run_pure_ok.mp h
    exact ⟨rfl, rfl, rfl, rfl, rfl, fun m hm => Or.inl hm⟩
  | w :: ws, u, s, s', h => by
    unfold markAll at h
    obtain ⟨u1, s1, h1, h2⟩ := run_bind_ok.mp h
    obtain ⟨a1, a2, a3, a4, a5, a6⟩ := markAncilla_run h1
    obtain ⟨b1, b2, b3, b4, b5, b6⟩ := markAll_run ws h2
    refine ⟨b1.trans a1, b2.trans a2, b3.trans a3, b4.trans a4, b5.trans a5, fun m hm => ?_⟩
    rcases b6 m hm with hm | ⟨hm, ha⟩
    · rcases a6 m hm with hm | ⟨rfl, ha⟩
      · exact Or.inl hm
      · exact Or.inr ⟨List.mem_cons_self, ha⟩
    · exact Or.inr ⟨List.mem_cons_of_mem _ hm, by rw [← a5]; exact ha⟩

theorem markAll_sem {σ0 : FState} {ws : List Nat} {u : Unit}
    {s s' : CState} (h : (markAll ws).run s = .ok (u, s')) :
    Sem σ0 NoQ NoK (fun m => m ∈ ws ∧ m ∈ s.qc.anc) s s' ∧ cur σ0 s' = cur σ0 s := by
  obtain ⟨b1, b2, b3, b4, _, b6⟩ := markAll_run ws h
  refine ⟨⟨Nat.le_of_eq b2.symm, fun h => by rw [b3]; exact h, ?_, ?_, b6⟩, cur_congr b1⟩
  · intro q _ _; rw [cur_congr b1]
  · intro p hp; rw [b4] at hp; exact Or.inl ⟨p, hp, rfl⟩

theorem markAncilla_sem {σ0 : FState} {w : Nat} {u : Unit}
    {s s' : CState} (h : (markAncilla w).run s = .ok (u, s')) :
    Sem σ0 NoQ NoK (fun m => m = w ∧ w ∈ s.qc.anc) s s' ∧ cur σ0 s' = cur σ0 s := by
  obtain ⟨b1, b2, b3, b4, _, b6⟩ := markAncilla_run h
  refine ⟨⟨Nat.le_of_eq b2.symm, fun h => by rw [b3]; exact h, ?_, ?_, b6⟩, cur_congr b1⟩
  · intro q _ _; rw [cur_congr b1]
  · intro p hp; rw [b4] at hp; exact Or.inl ⟨p, hp, rfl⟩

theorem expqSet_run {e : BExp} {q : Nat} {u : Unit} {s s' : CState} (h : (expqSet e q).run s = .ok (u, s')) :
    s'.qc = s.qc ∧ ∀ p ∈ s'.expq, (∃ p0 ∈ s.expq, p0.1 = p.1) ∨ p.1 = e := by
  unfold expqSet at h
  simp only [run_bind_ok] at h
  obtain ⟨u1, s1, h1, h2⟩ := h
  unfold expqRemove at h1
  have := run_modify_ok.mp h1; subst this
  have := run_modify_ok.mp h2; subst this
  dsimp only
  split
  · refine ⟨rfl, fun p hp => ?_⟩
    simp only [List.mem_map] at hp
    obtain ⟨p0, hp0, rfl⟩ := hp
    split
    · exact Or.inr rfl
    · exact Or.inl ⟨p0, (List.mem_filter.mp hp0).1, rfl⟩
  · refine ⟨rfl, fun p hp => ?_⟩
    simp only [List.mem_append, List.mem_singleton] at hp
    rcases hp with hp | rfl
    · exact Or.inl ⟨p, (List.mem_filter.mp hp).1, rfl⟩
    · exact Or.inr rfl

theorem expqSet_sem {σ0 : FState} {e : BExp} {q : Nat} {u : Unit}
    {s s' : CState} (h : (expqSet e q).run s = .ok (u, s')) :
    Sem σ0 NoQ (· = e) NoQ s s' ∧ cur σ0 s' = cur σ0 s := by
  obtain ⟨hq, hk⟩ := expqSet_run h
  refine ⟨⟨by rw [hq]; exact Nat.le_refl _, fun h => by rw [hq]; exact h, ?_, hk, ?_⟩, by unfold cur; rw [hq]⟩
  · intro q _ _; unfold cur; rw [hq]
  · intro m hm; rw [hq] at hm; exact Or.inl hm

theorem expqGet?_run {e : BExp} {r : Option Nat} {s s' : CState} (h : (expqGet? e).run s = .ok (r, s')) :
    s' = s ∧ r = (s.expq.find? (·.1 == e)).map (·.2) := by
  unfold expqGet? at h
  simp only [run_bind_ok, run_get_ok, run_pure_ok] at h
  obtain ⟨s0, s1, ⟨rfl, rfl⟩, rfl, rfl⟩ := h
  exact ⟨rfl, rfl⟩

/-- a cache lookup misses when no key equals the expression -/
theorem expqGet?_miss {e : BExp} {r : Option Nat} {s s' : CState} (h : (expqGet? e).run s = .ok (r, s'))
    (hm : ∀ p ∈ s.expq, (p.1 == e) = false) : s' = s ∧ r = none := by
  obtain ⟨rfl, rfl⟩ := expqGet?_run h
  refine ⟨rfl, ?_⟩
  have : s'.expq.find? (·.1 == e) = none := by
    rw [List.find?_eq_none]
    intro p hp; rw [hm p hp]; simp
  rw [this]; rfl

/-! ### the fragment -/

/- `compSubs`, `overInputs`, `distinctB`, `treeLike`, `inFragment` are defined in `QV/Model/Compiler.lean`
(so that the driver can report membership of the class for every compiled instance). -/

def Distinct (l : List BExp) : Prop := l.Pairwise (fun a b => (a == b) = false)

theorem distinctB_iff {l : List BExp} : distinctB l = true ↔ Distinct l := by
  unfold Distinct
  induction l with
  | nil => simp [distinctB]
  | cons x xs ih =>
    simp only [distinctB, Bool.and_eq_true, List.all_eq_true, Bool.not_eq_true', List.pairwise_cons, ih]

/-! ### the state invariant between compiler steps -/

/-- ambient facts: the argument names are not the name being defined and not reserved; the
initial basis state is zero beyond the arguments -/
structure Amb (inputs : List String) (σ0 : FState) (r : String) : Prop where
  fresh : ∀ n ∈ inputs, n ≠ r ∧ reservedName n = false
  init0 : ∀ q, inputs.length ≤ q → σ0 q = false

structure Pre (inputs : List String) (ρ : Env) (σ0 : FState) (s : CState) : Prop where
  good : Good s
  free : s.qc.free = []
  nin : inputs.length ≤ s.qc.numQubits
  sge : ScratchGe inputs.length s
  bind : ∀ i n, inputs[i]? = some n → dictGet? s.qc.qmap n = some i
  vals : ∀ i n, inputs[i]? = some n → cur σ0 s i = ρ n

theorem untouched_runF (gs : List AGate) (q : Nat) (h : ∀ g ∈ gs, q ∉ g.wires) (f : FState) :
    runF gs f q = f q := by
  induction gs generalizing f with
  | nil => rfl
  | cons g gs ih =>
    rw [runF_cons, ih (fun g' hg' => h g' (List.mem_cons_of_mem _ hg'))]
    unfold stepF
    split
    · unfold applyF
      cases ht : g.wires.getLast? with
      | none => rfl
      | some t =>
        dsimp only
        split
        · have : q ≠ t := by
            rintro rfl; exact h g List.mem_cons_self (List.mem_of_getLast? ht)
          simp [this]
        · rfl
    · rfl

/-- qubits not yet allocated are still zero -/
theorem zero_of_good {inputs : List String} {σ0 : FState} {r : String} (amb : Amb inputs σ0 r) {s : CState}
    (hg : Good s) (hn : inputs.length ≤ s.qc.numQubits) :
    ∀ q, s.qc.numQubits ≤ q → cur σ0 s q = false := by
  intro q hq
  unfold cur
  rw [untouched_runF _ q _ σ0]
  · exact amb.init0 q (Nat.le_trans hn hq)
  · intro g hg' hw
    exact absurd ((hg.gates_ok g hg').2.2.1 q hw) (by omega)

theorem mem_of_getElem?' {l : List String} {i : Nat} {n : String} (h : l[i]? = some n) : n ∈ l ∧ i < l.length := by
  obtain ⟨hi, he⟩ := List.getElem?_eq_some_iff.mp h
  exact ⟨he ▸ List.getElem_mem hi, hi⟩

theorem Pre.next {inputs : List String} {ρ : Env} {σ0 : FState} {r : String} (amb : Amb inputs σ0 r)
    {W : Nat → Prop} {K : BExp → Prop} {Mk : Nat → Prop} {s s' : CState}
    (hp : Pre inputs ρ σ0 s) (st : Step (· = r) s s') (sem : Sem σ0 W K Mk s s')
    (hW : ∀ q, W q → inputs.length ≤ q) : Pre inputs ρ σ0 s' := by
  refine ⟨st.good, sem.free hp.free, Nat.le_trans hp.nin st.nq_le, st.ge_keep _ hp.nin hp.sge, ?_, ?_⟩
  · intro i n hi
    have hm := (mem_of_getElem?' hi).1
    rw [st.qmap_keep n (amb.fresh n hm).1 (amb.fresh n hm).2]
    exact hp.bind i n hi
  · intro i n hi
    have hil := (mem_of_getElem?' hi).2
    rw [sem.frame i (Nat.lt_of_lt_of_le hil hp.nin) (fun hw => by have := hW i hw; omega)]
    exact hp.vals i n hi

/-! ### specifications -/

/-- semantic specification of `compileExpr e` on the fragment -/
def ExprSem (inputs : List String) (ρ : Env) (σ0 : FState) (r : String) (e : BExp) : Prop :=
  ∀ (dest : Option Nat) (sym : Option String) {a : Nat} {s s' : CState},
    (compileExpr e dest sym).run s = .ok (a, s') →
    Pre inputs ρ σ0 s →
    (∀ p ∈ s.expq, ∀ c ∈ compSubs e, (p.1 == c) = false) →
    (∀ d, dest = some d → inputs.length ≤ d ∧ d < s.qc.numQubits) →
    (∀ x, sym = some x → x = r) →
    (isSym e = true → dest = none ∧ sym = none) →
    Sem σ0 (fun q => dest = some q) (· ∈ compSubs e)
      (fun m => s.qc.numQubits ≤ m ∧ (dest = none → m ≠ a)) s s' ∧
    (dest = none → (a < inputs.length ∨ s.qc.numQubits ≤ a) ∧ cur σ0 s' a = e.eval ρ) ∧
    (∀ d, dest = some d → a = d ∧
      cur σ0 s' d = Bool.xor (cur σ0 s d) (e.eval ρ))

theorem compileSymbol_none_run {n : String} {a : Nat} {s s' : CState}
    (h : (compileSymbol n none).run s = .ok (a, s')) : s' = s ∧ dictGet? s.qc.qmap n = some a := by
  unfold compileSymbol at h
  dsimp only at h
  obtain ⟨u, s0, hp, h⟩ := run_bind_ok.mp h
  obtain ⟨_, rfl⟩ := run_pure_ok.mp hp
  obtain ⟨qc, s1, hq, h⟩ := run_bind_ok.mp h
  obtain ⟨rfl, rfl⟩ := getQC_run hq
  split at h
  · next i hi =>
    obtain ⟨rfl, rfl⟩ := run_pure_ok.mp h
    exact ⟨rfl, hi⟩
  · exact (run_throw_ok.mp h).elim

theorem idx_of_mem {l : List String} {n : String} (h : n ∈ l) : ∃ i : Nat, l[i]? = some n := by
  obtain ⟨i, hi, he⟩ := List.mem_iff_getElem.mp h
  exact ⟨i, by rw [List.getElem?_eq_getElem hi, he]⟩

theorem exprSem_sym {inputs : List String} {ρ : Env} {σ0 : FState} {r : String} (n : String)
    (hin : n ∈ inputs) : ExprSem inputs ρ σ0 r (.sym n) := by
  intro dest sym a s s' h hp _ _ _ hsym
  obtain ⟨rfl, rfl⟩ := hsym rfl
  unfold compileExpr at h
  obtain ⟨rfl, hq⟩ := compileSymbol_none_run h
  obtain ⟨i, hi⟩ := idx_of_mem hin
  have := hp.bind i n hi
  rw [hq] at this
  have hai : a = i := by simpa using this
  subst hai
  refine ⟨Sem.refl _, fun _ => ⟨Or.inl (mem_of_getElem?' hi).2, ?_⟩, fun d hd => by cases hd⟩
  rw [hp.vals a n hi]; rfl

theorem bnot_xor (a b : Bool) : (!Bool.xor a b) = Bool.xor a (!b) := by cases a <;> cases b <;> rfl

/-- `Not`: in place on a fresh ancilla, or copy (`CX`) and negate (`X`) -/
theorem exprSem_not {inputs : List String} {ρ : Env} {σ0 : FState} {r : String} (amb : Amb inputs σ0 r)
    {x : BExp} (hov : overInputs inputs x = true) (ih : ExprSem inputs ρ σ0 r x) :
    ExprSem inputs ρ σ0 r (.not x) := by
  intro dest sym a s s' h hp hcache hd hsym _
  unfold compileExpr at h
  dsimp only at h
  obtain ⟨r0, s1, hget, h1⟩ := run_bind_ok.mp h
  obtain ⟨rfl, rfl⟩ := expqGet?_miss hget (fun p hp' => hcache p hp' _ (by simp [compSubs]))
  dsimp only at h1
  rcases run_ite_ok.mp h1 with ⟨hc, _⟩ | ⟨_, h1⟩
  · exfalso
    cases x with
    | sym n =>
      cases sym with
      | some sy =>
        have e1 : n = sy := by simpa using hc
        have hn : n ∈ inputs := by simpa [overInputs] using hov
        exact (amb.fresh n hn).1 (e1.trans (hsym sy rfl))
      | none => simp at hc
    | _ => simp at hc
  · obtain ⟨sh, s1', hsh, k1⟩ := run_bind_ok.mp h1
    have hs1' := (expqGet?_ok hsh hp.good).1
    rw [hs1'] at k1
    obtain ⟨eret, s2, he, h2⟩ := run_bind_ok.mp k1
    obtain ⟨st1, helt⟩ := exprSpec (B := (· = r)) x none none he hp.good (by intro d hd0; cases hd0)
      (by intro y hy; cases hy)
    obtain ⟨sem1, hv1, _⟩ := ih none none he hp
      (fun p hp' c hc => hcache p hp' c (by simp [compSubs, hc])) (by intro d hd0; cases hd0)
      (by intro y hy; cases hy) (fun _ => ⟨rfl, rfl⟩)
    obtain ⟨hfresh, hval⟩ := hv1 rfl
    have hp2 : Pre inputs ρ σ0 s2 := hp.next amb st1 sem1 (by intro q hq; cases hq)
    obtain ⟨qc, s3, hq, h3⟩ := run_bind_ok.mp h2
    obtain ⟨rfl, rfl⟩ := getQC_run hq
    have hge' : ∀ t : CState, ScratchGe inputs.length t → eret ∈ t.qc.anc → s1.qc.numQubits ≤ eret := by
      intro t ht hanc
      rcases hfresh with h | h
      · have := ht.1 eret hanc; omega
      · exact h
    have hge := hge' s3 hp2.sge
    split at h3
    · next hcond =>
      simp only [Bool.and_eq_true] at hcond
      have hdn : dest = none := by
        cases dest with
        | none => rfl
        | some d => simp at hcond
      subst hdn
      have hanc : eret ∈ s3.qc.anc := by simpa using hcond.1.2
      obtain ⟨u1, s4, hev, h4⟩ := run_bind_ok.mp h3
      obtain ⟨u2, s5, hx, h5⟩ := run_bind_ok.mp h4
      obtain ⟨u3, s6, hset, h6⟩ := run_bind_ok.mp h5
      obtain ⟨rfl, rfl⟩ := run_pure_ok.mp h6
      obtain ⟨sem4, hc4⟩ := event_sem (σ0 := σ0) hev
      have ax := xGate_run hx
      obtain ⟨sem6, hc6⟩ := expqSet_sem (σ0 := σ0) hset
      have tot := ((sem1.trans' sem4).trans' (ax.sem (σ0 := σ0) rfl)).trans' sem6
      refine ⟨tot.mono ?_ ?_ ?_, fun _ => ⟨Or.inr (hge hanc), ?_⟩, fun d hd0 => by cases hd0⟩
      · rintro q hq (((h | h) | h) | h)
        · exact nomatch h
        · exact h.elim
        · have := hge hanc; omega
        · exact h.elim
      · rintro c (((h | h) | h) | h)
        · simp [compSubs, show c ∈ compSubs x from h]
        · exact h.elim
        · exact h.elim
        · simp [compSubs, show c = BExp.not x from h]
      · rintro m (((h | h) | h) | h)
        · exact h
        · exact h.elim
        · exact h.elim
        · exact h.elim
      · rw [hc6, ax.cur_eq rfl σ0, hc4, hval]
        simp [BExp.eval]
    · have body : ∀ {d : Nat} {s4 s5 : CState} {a : Nat},
          StateT.run (do
            cx eret d
            xGate d
            markAncilla eret
            if dest.isNone = true then do
                expqSet x.not d
                pure d
              else pure d : M Nat) s4 = .ok (a, s5) →
          a = d ∧ Sem σ0 (· = d) (· = BExp.not x) (fun m => m = eret ∧ eret ∈ s4.qc.anc) s4 s5 ∧
            cur σ0 s5 d = !(Bool.xor (cur σ0 s4 d) (cur σ0 s4 eret)) := by
        intro d s4 s5 a hrun
        obtain ⟨u1, t1, hcx, k1⟩ := run_bind_ok.mp hrun
        obtain ⟨u2, t2, hx, k2⟩ := run_bind_ok.mp k1
        obtain ⟨u3, t3, hmk, k3⟩ := run_bind_ok.mp k2
        have a1 := cx_run hcx
        have a2 := xGate_run hx
        obtain ⟨sem3, hc3⟩ := markAncilla_sem (σ0 := σ0) hmk
        have hanc2 : t2.qc.anc = s4.qc.anc := a2.anc.trans a1.anc
        have v2 : cur σ0 t2 d = !(Bool.xor (cur σ0 s4 d) (cur σ0 s4 eret)) := by
          rw [a2.cur_eq rfl σ0, a1.cur_eq rfl σ0]; simp
        split at k3
        · obtain ⟨u4, t4, hset, k4⟩ := run_bind_ok.mp k3
          obtain ⟨rfl, rfl⟩ := run_pure_ok.mp k4
          obtain ⟨sem4, hc4⟩ := expqSet_sem (σ0 := σ0) hset
          refine ⟨rfl, ((((a1.sem (σ0 := σ0) rfl).trans' (a2.sem rfl)).trans' sem3).trans' sem4).mono ?_ ?_ ?_, ?_⟩
          · rintro q _ (((h | h) | h) | h)
            · exact h
            · exact h
            · exact h.elim
            · exact h.elim
          · rintro c (((h | h) | h) | h)
            · exact h.elim
            · exact h.elim
            · exact h.elim
            · exact h
          · rintro m (((h | h) | h) | h)
            · exact h.elim
            · exact h.elim
            · exact ⟨h.1, hanc2 ▸ h.2⟩
            · exact h.elim
          · rw [hc4, hc3, v2]
        · obtain ⟨rfl, rfl⟩ := run_pure_ok.mp k3
          refine ⟨rfl, (((a1.sem (σ0 := σ0) rfl).trans' (a2.sem rfl)).trans' sem3).mono ?_ ?_ ?_, ?_⟩
          · rintro q _ ((h | h) | h)
            · exact h
            · exact h
            · exact h.elim
          · rintro c ((h | h) | h)
            · exact h.elim
            · exact h.elim
            · exact h.elim
          · rintro m ((h | h) | h)
            · exact h.elim
            · exact h.elim
            · exact ⟨h.1, hanc2 ▸ h.2⟩
          · rw [hc3, v2]
      cases dest with
      | some d =>
        dsimp only at h3
        obtain ⟨d0, s4, hp0, h4⟩ := run_bind_ok.mp h3
        obtain ⟨rfl, rfl⟩ := run_pure_ok.mp hp0
        obtain ⟨rfl, semb, hvb⟩ := body h4
        obtain ⟨hd1, hd2⟩ := hd a rfl
        refine ⟨(sem1.trans' semb).mono ?_ ?_ ?_, fun hn => (by cases hn), fun d' hd' => ?_⟩
        · rintro q _ (h | h)
          · exact nomatch h
          · rw [h]
        · rintro c (h | h)
          · simp [compSubs, show c ∈ compSubs x from h]
          · simp [compSubs, show c = BExp.not x from h]
        · rintro m (h | h)
          · exact ⟨h.1, fun hn => by cases hn⟩
          · exact ⟨h.1 ▸ hge h.2, fun hn => by cases hn⟩
        · cases hd'
          refine ⟨rfl, ?_⟩
          rw [hvb, sem1.frame a hd2 (fun h => by cases h), hval, bnot_xor]
          simp [BExp.eval]
      | none =>
        dsimp only at h3
        obtain ⟨d, s4, hf, h4⟩ := run_bind_ok.mp h3
        obtain ⟨semf, hcf, hdf, hnf⟩ := getFreeAncilla_sem (σ0 := σ0) hf hp2.free
        obtain ⟨rfl, semb, hvb⟩ := body h4
        have hz : cur σ0 s3 a = false := zero_of_good amb hp2.good hp2.nin a (by omega)
        have hp4 : Pre inputs ρ σ0 s4 := hp2.next amb (getFreeAncilla_ok (B := (· = r)) hf hp2.good).1 semf
          (by intro q hq; exact hq.elim)
        refine ⟨(((sem1.with_lt hp2.good).trans' semf).trans' semb).mono ?_ ?_ ?_, fun _ => ⟨Or.inr ?_, ?_⟩, fun d' hd' => by cases hd'⟩
        · rintro q hq ((h | h) | h)
          · exact nomatch h
          · exact h.elim
          · have := sem1.nq; omega
        · rintro c ((h | h) | h)
          · simp [compSubs, show c ∈ compSubs x from h]
          · exact h.elim
          · simp [compSubs, show c = BExp.not x from h]
        · rintro m ((h | h) | h)
          · exact ⟨h.1.1, fun _ => by have := h.2; omega⟩
          · exact h.elim
          · exact ⟨h.1 ▸ hge' s4 hp4.sge h.2, fun _ => by rw [h.1]; omega⟩
        · have := sem1.nq; omega
        · rw [hvb, hcf, hz, hval]; simp [BExp.eval]

/-! ### argument lists, `And` -/

def ArgsSem (inputs : List String) (ρ : Env) (σ0 : FState) (_r : String) (as : List BExp) : Prop :=
  ∀ {rs : List Nat} {s s' : CState}, (compileArgs as).run s = .ok (rs, s') →
    Pre inputs ρ σ0 s →
    (∀ p ∈ s.expq, ∀ c ∈ compSubsList as, (p.1 == c) = false) →
    Sem σ0 NoQ (· ∈ compSubsList as) (fun m => s.qc.numQubits ≤ m) s s' ∧
    rs.map (cur σ0 s') = as.map (BExp.eval ρ) ∧
    ∀ q ∈ rs, (q < inputs.length ∨ s.qc.numQubits ≤ q) ∧ q < s'.qc.numQubits

theorem argsSem_nil {inputs : List String} {ρ : Env} {σ0 : FState} {r : String} :
    ArgsSem inputs ρ σ0 r [] := by
  intro rs s s' h _ _
  unfold compileArgs at h
  obtain ⟨rfl, rfl⟩ := run_pure_ok.mp h
  exact ⟨Sem.refl _, rfl, fun q hq => by cases hq⟩

theorem argsSem_cons {inputs : List String} {ρ : Env} {σ0 : FState} {r : String} (amb : Amb inputs σ0 r)
    {a : BExp} {as : List BExp} (iha : ExprSem inputs ρ σ0 r a) (ihs : ArgsSem inputs ρ σ0 r as)
    (hdis : ∀ x ∈ compSubs a, ∀ y ∈ compSubsList as, (x == y) = false) :
    ArgsSem inputs ρ σ0 r (a :: as) := by
  intro rs s s' h hp hcache
  unfold compileArgs at h
  obtain ⟨q1, s1, h1, h2⟩ := run_bind_ok.mp h
  obtain ⟨rs', s2, h3, h4⟩ := run_bind_ok.mp h2
  obtain ⟨rfl, rfl⟩ := run_pure_ok.mp h4
  obtain ⟨st1, hlt⟩ := exprSpec (B := (· = r)) a none none h1 hp.good (by intro d hd0; cases hd0)
    (by intro y hy; cases hy)
  obtain ⟨sem1, hv1, _⟩ := iha none none h1 hp
    (fun p hp' c hc => hcache p hp' c (by simp [compSubsList, hc])) (by intro d hd0; cases hd0)
    (by intro y hy; cases hy) (fun _ => ⟨rfl, rfl⟩)
  obtain ⟨hfresh, hval⟩ := hv1 rfl
  have hp1 : Pre inputs ρ σ0 s1 := hp.next amb st1 sem1 (by intro q hq; cases hq)
  obtain ⟨sem2, hvals, hb⟩ := ihs h3 hp1 (by
    intro p hp' c hc
    rcases sem1.keys p hp' with ⟨p0, hp0, e0⟩ | hk
    · rw [← e0]; exact hcache p0 hp0 c (by simp [compSubsList, hc])
    · exact hdis _ hk c hc)
  refine ⟨(sem1.trans' sem2).mono ?_ ?_ ?_, ?_, ?_⟩
  · rintro q _ (h | h)
    · exact nomatch h
    · exact h.elim
  · rintro c (h | h)
    · simp [compSubsList, show c ∈ compSubs a from h]
    · simp [compSubsList, show c ∈ compSubsList as from h]
  · rintro m (h | h)
    · exact h.1
    · exact Nat.le_trans sem1.nq h
  · simp only [List.map_cons, hvals]
    rw [sem2.frame q1 hlt (fun h => h), hval]
  · intro q hq
    simp only [List.mem_cons] at hq
    rcases hq with rfl | hq
    · exact ⟨hfresh, Nat.lt_of_lt_of_le hlt sem2.nq⟩
    · refine ⟨(hb q hq).1.imp id (fun h => Nat.le_trans sem1.nq h), (hb q hq).2⟩

theorem all_of_map {f : Nat → Bool} {ρ : Env} : ∀ {rs : List Nat} {as : List BExp},
    rs.map f = as.map (BExp.eval ρ) → rs.all f = evalAnd ρ as
  | [], [], _ => rfl
  | [], _ :: _, h => by simp at h
  | _ :: _, [], h => by simp at h
  | q :: rs, a :: as, h => by
    simp only [List.map_cons, List.cons.injEq] at h
    simp only [List.all_cons, evalAnd, h.1, all_of_map h.2]

theorem any_of_map {f : Nat → Bool} {ρ : Env} : ∀ {rs : List Nat} {as : List BExp},
    rs.map f = as.map (BExp.eval ρ) → rs.any f = evalOr ρ as
  | [], [], _ => rfl
  | [], _ :: _, h => by simp at h
  | _ :: _, [], h => by simp at h
  | q :: rs, a :: as, h => by
    simp only [List.map_cons, List.cons.injEq] at h
    simp only [List.any_cons, evalOr, h.1, any_of_map h.2]

theorem mem_sortDedup {l : List Nat} {x : Nat} : x ∈ sortNat l.eraseDups ↔ x ∈ l := by
  unfold sortNat
  rw [List.mem_mergeSort, List.mem_eraseDups]

theorem all_sortDedup (l : List Nat) (f : Nat → Bool) : (sortNat l.eraseDups).all f = l.all f := by
  rw [Bool.eq_iff_iff]
  simp only [List.all_eq_true, mem_sortDedup]

theorem any_sortDedup (l : List Nat) (f : Nat → Bool) : (sortNat l.eraseDups).any f = l.any f := by
  rw [Bool.eq_iff_iff]
  simp only [List.any_eq_true, mem_sortDedup]

/-- the common tail of `compile_and` / `compile_or` -/
theorem finish_sem {σ0 : FState} {es : List Nat} {dest : Option Nat} {e : BExp} {d a : Nat} {s s' : CState}
    (h : StateT.run (do
          markAll es
          if dest.isNone = true then do
              expqSet e d
              pure d
            else pure d : M Nat) s = .ok (a, s')) :
    a = d ∧ Sem σ0 NoQ (· = e) (fun m => m ∈ es ∧ m ∈ s.qc.anc) s s' ∧ cur σ0 s' = cur σ0 s := by
  obtain ⟨u1, s1, hm, h1⟩ := run_bind_ok.mp h
  obtain ⟨sem1, hc1⟩ := markAll_sem (σ0 := σ0) hm
  split at h1
  · obtain ⟨u2, s2, hset, h2⟩ := run_bind_ok.mp h1
    obtain ⟨rfl, rfl⟩ := run_pure_ok.mp h2
    obtain ⟨sem2, hc2⟩ := expqSet_sem (σ0 := σ0) hset
    refine ⟨rfl, (sem1.trans' sem2).mono ?_ ?_ ?_, hc2.trans hc1⟩
    · rintro q _ (h | h) <;> exact h
    · rintro c (h | h)
      · exact h.elim
      · exact h
    · rintro m (h | h)
      · exact h
      · exact h.elim
  · obtain ⟨rfl, rfl⟩ := run_pure_ok.mp h1
    refine ⟨rfl, sem1.mono (fun _ _ h => h) (fun _ h => h.elim) (fun _ h => h), hc1⟩

def destOr (dest : Option Nat) : M Nat :=
  match dest with
  | some d => pure d
  | none => getFreeAncilla

/-- the destination of an `And` / `Or`: the caller's accumulator or a fresh ancilla; it is not
among the argument qubits -/
theorem dest_sem {inputs : List String} {ρ : Env} {σ0 : FState} {r : String} (amb : Amb inputs σ0 r)
    {dest : Option Nat} {erets : List Nat} {d : Nat} {s s2 s3 : CState}
    (hp2 : Pre inputs ρ σ0 s2) (hnq : s.qc.numQubits ≤ s2.qc.numQubits)
    (hd : ∀ d, dest = some d → inputs.length ≤ d ∧ d < s.qc.numQubits)
    (hb : ∀ q ∈ erets, (q < inputs.length ∨ s.qc.numQubits ≤ q) ∧ q < s2.qc.numQubits)
    (h : (destOr dest).run s2 = .ok (d, s3)) :
    Pre inputs ρ σ0 s3 ∧ Sem σ0 NoQ NoK NoQ s2 s3 ∧ cur σ0 s3 = cur σ0 s2 ∧ d ∉ erets ∧
      (dest = some d ∨ (dest = none ∧ d = s2.qc.numQubits ∧ cur σ0 s2 d = false)) := by
  cases dest with
  | some d0 =>
    obtain ⟨rfl, rfl⟩ := run_pure_ok.mp h
    obtain ⟨h1, h2⟩ := hd d rfl
    refine ⟨hp2, Sem.refl _, rfl, fun hm => ?_, Or.inl rfl⟩
    have := (hb d hm).1
    omega
  | none =>
    obtain ⟨semf, hcf, hdf, hnf⟩ := getFreeAncilla_sem (σ0 := σ0) h hp2.free
    refine ⟨hp2.next amb (getFreeAncilla_ok (B := (· = r)) h hp2.good).1 semf (by intro q hq; exact hq.elim),
      semf, hcf, fun hm => ?_, Or.inr ⟨rfl, hdf, zero_of_good amb hp2.good hp2.nin d (by omega)⟩⟩
    have := (hb d hm).2
    omega

/-- the destination is a qubit of the circuit -/
theorem dest_lt {inputs : List String} {ρ : Env} {σ0 : FState}
    {dest : Option Nat} {d : Nat} {s s2 s3 : CState}
    (hp2 : Pre inputs ρ σ0 s2) (hnq : s.qc.numQubits ≤ s2.qc.numQubits)
    (hd : ∀ d, dest = some d → inputs.length ≤ d ∧ d < s.qc.numQubits)
    (h : (destOr dest).run s2 = .ok (d, s3)) : d < s3.qc.numQubits := by
  cases dest with
  | some d0 =>
    obtain ⟨rfl, rfl⟩ := run_pure_ok.mp h
    have := (hd d rfl).2
    omega
  | none => exact (getFreeAncilla_ok (B := fun _ => True) h hp2.good).2

theorem exprSem_and {inputs : List String} {ρ : Env} {σ0 : FState} {r : String} (amb : Amb inputs σ0 r)
    {args : List BExp} (ih : ArgsSem inputs ρ σ0 r args) : ExprSem inputs ρ σ0 r (.and args) := by
  intro dest sym a s s' h hp hcache hd hsym _
  unfold compileExpr at h
  dsimp only at h
  obtain ⟨r0, s1, hget, h1⟩ := run_bind_ok.mp h
  obtain ⟨rfl, rfl⟩ := expqGet?_miss hget (fun p hp' => hcache p hp' _ (by simp [compSubs]))
  dsimp only at h1
  obtain ⟨erets, s2, hargs, h2⟩ := run_bind_ok.mp h1
  obtain ⟨st1, _⟩ := argsSpec (B := (· = r)) args hargs hp.good
  obtain ⟨sem1, hvals, hb⟩ := ih hargs hp (fun p hp' c hc => hcache p hp' c (by simp [compSubs, hc]))
  have hp2 : Pre inputs ρ σ0 s2 := hp.next amb st1 sem1 (by intro q hq; exact hq.elim)
  have body : ∀ {d : Nat} {s3 : CState},
      (destOr dest).run s2 = .ok (d, s3) →
      StateT.run (
        if erets.contains d = true then do
          event "destAmongArgs"
          mcx (sortNat (if erets.contains d = true then erets.erase d else erets).eraseDups) d
          markAll (sortNat (if erets.contains d = true then erets.erase d else erets).eraseDups)
          if dest.isNone = true then do
              expqSet (BExp.and args) d
              pure d
            else pure d
        else do
          mcx (sortNat (if erets.contains d = true then erets.erase d else erets).eraseDups) d
          markAll (sortNat (if erets.contains d = true then erets.erase d else erets).eraseDups)
          if dest.isNone = true then do
              expqSet (BExp.and args) d
              pure d
            else pure d : M Nat) s3 = .ok (a, s') →
      Sem σ0 (fun q => dest = some q) (· ∈ compSubs (BExp.and args))
        (fun m => s1.qc.numQubits ≤ m ∧ (dest = none → m ≠ a)) s1 s' ∧
      (dest = none → (a < inputs.length ∨ s1.qc.numQubits ≤ a) ∧ cur σ0 s' a = (BExp.and args).eval ρ) ∧
      (∀ d, dest = some d → a = d ∧ cur σ0 s' d = Bool.xor (cur σ0 s1 d) ((BExp.and args).eval ρ)) := by
    intro d s3 hdest h3
    obtain ⟨hp3, sem2, hc2, hdn, hdcase⟩ := dest_sem amb hp2 sem1.nq hd hb hdest
    have hcd : ¬ (erets.contains d = true) := by simpa using hdn
    rcases run_ite_ok.mp h3 with ⟨hc, _⟩ | ⟨_, h3⟩
    · exact absurd hc hcd
    · rw [if_neg hcd] at h3
      obtain ⟨u1, t1, hmcx, k1⟩ := run_bind_ok.mp h3
      have am := mcx_run hmcx
      obtain ⟨rfl, semf, hcf⟩ := finish_sem (σ0 := σ0) k1
      have hval : cur σ0 s' a = Bool.xor (cur σ0 s2 a) (evalAnd ρ args) := by
        rw [hcf, am.cur_eq rfl σ0, all_sortDedup, hc2, all_of_map hvals]
      have hmk : ∀ m, m ∈ sortNat erets.eraseDups ∧ m ∈ t1.qc.anc → s1.qc.numQubits ≤ m ∧ m < s2.qc.numQubits := by
        rintro m ⟨h1, h2⟩
        have hm := hb m (mem_sortDedup.mp h1)
        rw [am.anc] at h2
        have := hp3.sge.1 m h2
        exact ⟨by omega, hm.2⟩
      have tot := ((sem1.trans' sem2).trans' (am.sem (σ0 := σ0) rfl)).trans' semf
      rcases hdcase with hsome | ⟨hnone, hda, hz⟩
      · subst hsome
        obtain ⟨hd1, hd2⟩ := hd a rfl
        refine ⟨tot.mono ?_ ?_ ?_, fun hn => (by cases hn), fun d' hd' => ?_⟩
        · rintro q _ (((h | h) | h) | h)
          · exact h.elim
          · exact h.elim
          · rw [h]
          · exact h.elim
        · rintro c (((h | h) | h) | h)
          · simp [compSubs, show c ∈ compSubsList args from h]
          · exact h.elim
          · exact h.elim
          · simp [compSubs, show c = BExp.and args from h]
        · rintro m (((h | h) | h) | h)
          · exact ⟨h, fun hn => by cases hn⟩
          · exact h.elim
          · exact h.elim
          · exact ⟨(hmk m h).1, fun hn => by cases hn⟩
        · cases hd'
          refine ⟨rfl, ?_⟩
          rw [hval, sem1.frame a hd2 (fun h => h)]
          simp [BExp.eval]
      · subst hnone
        refine ⟨(((sem1.with_lt hp2.good).trans' sem2).trans' (am.sem (σ0 := σ0) rfl)).trans' semf |>.mono ?_ ?_ ?_,
          fun _ => ⟨Or.inr (by have := sem1.nq; omega), ?_⟩, fun d' hd' => by cases hd'⟩
        · rintro q hq (((h | h) | h) | h)
          · exact h.elim
          · exact h.elim
          · have := sem1.nq; omega
          · exact h.elim
        · rintro c (((h | h) | h) | h)
          · simp [compSubs, show c ∈ compSubsList args from h]
          · exact h.elim
          · exact h.elim
          · simp [compSubs, show c = BExp.and args from h]
        · rintro m (((h | h) | h) | h)
          · exact ⟨h.1, fun _ => by have := h.2; omega⟩
          · exact h.elim
          · exact h.elim
          · exact ⟨(hmk m h).1, fun _ => by have := (hmk m h).2; omega⟩
        · rw [hval, hz]
          simp [BExp.eval]

  cases dest with
  | some d0 =>
    dsimp only at h2
    obtain ⟨d, s3, hp0, h4⟩ := run_bind_ok.mp h2
    exact body hp0 h4
  | none =>
    dsimp only at h2
    obtain ⟨d, s3, hf, h4⟩ := run_bind_ok.mp h2
    exact body hf h4

/-! ### `Or`: `CX, CX, MCX` for up to two arguments, De Morgan (`X.. MCX X.. X`) beyond -/

/-- a step that only appended gates -/
structure GatesOnly (s s' : CState) : Prop where
  nq : s'.qc.numQubits = s.qc.numQubits
  free : s'.qc.free = s.qc.free
  expq : s'.expq = s.expq
  marked : s'.qc.marked = s.qc.marked
  anc : s'.qc.anc = s.qc.anc

theorem GatesOnly.refl (s : CState) : GatesOnly s s := ⟨rfl, rfl, rfl, rfl, rfl⟩

theorem GatesOnly.trans {s s1 s2 : CState} (h1 : GatesOnly s s1) (h2 : GatesOnly s1 s2) : GatesOnly s s2 :=
  ⟨h2.nq.trans h1.nq, h2.free.trans h1.free, h2.expq.trans h1.expq, h2.marked.trans h1.marked,
   h2.anc.trans h1.anc⟩

theorem Appended.gatesOnly {cls : GClass} {wires : List Nat} {s s' : CState} (ha : Appended cls wires s s') :
    GatesOnly s s' := ⟨ha.nq, ha.free, ha.expq, ha.marked, ha.anc⟩

theorem Sem.of_gatesOnly {σ0 : FState} {W : Nat → Prop} {s s' : CState} (h : GatesOnly s s')
    (hf : ∀ q, ¬ W q → cur σ0 s' q = cur σ0 s q) : Sem σ0 W NoK NoQ s s' := by
  refine ⟨Nat.le_of_eq h.nq.symm, fun h0 => by rw [h.free]; exact h0, fun q _ hw => hf q hw, ?_, ?_⟩
  · intro p hp; rw [h.expq] at hp; exact Or.inl ⟨p, hp, rfl⟩
  · intro m hm; rw [h.marked] at hm; exact Or.inl hm

theorem or2_bool (d a b : Bool) : Bool.xor (Bool.xor (Bool.xor d a) b) (a && (b && true)) = Bool.xor d (a || (b || false)) := by
  cases d <;> cases a <;> cases b <;> rfl

theorem all_not_eq (es : List Nat) (f g : Nat → Bool) (h : ∀ q ∈ es, g q = !f q) : es.all g = !es.any f := by
  induction es with
  | nil => rfl
  | cons a es ih =>
    simp only [List.all_cons, List.any_cons, h a List.mem_cons_self,
      ih (fun q hq => h q (List.mem_cons_of_mem _ hq)), Bool.not_or]

theorem any_of_mem_iff {l1 l2 : List Nat} (f : Nat → Bool) (h : ∀ x, x ∈ l1 ↔ x ∈ l2) : l1.any f = l2.any f := by
  rw [Bool.eq_iff_iff]
  simp only [List.any_eq_true]
  constructor
  · rintro ⟨x, hx, hf⟩; exact ⟨x, (h x).mp hx, hf⟩
  · rintro ⟨x, hx, hf⟩; exact ⟨x, (h x).mpr hx, hf⟩

theorem any_congr_mem {l : List Nat} {f g : Nat → Bool} (h : ∀ x ∈ l, f x = g x) : l.any f = l.any g := by
  induction l with
  | nil => rfl
  | cons a l ih =>
    simp only [List.any_cons, h a List.mem_cons_self, ih (fun x hx => h x (List.mem_cons_of_mem _ hx))]

/-- what a piece of the or-chain does, from a state with an empty free set whose unallocated qubits are zero:
only `d` changes among the qubits that existed, `d ^= acc | rest…`; new qubits are marked ancillas -/
structure ChainSem (σ0 : FState) (d : Nat) (v : Bool) (s s' : CState) : Prop where
  sem : Sem σ0 (· = d) NoK (fun m => s.qc.numQubits ≤ m) s s'
  val : cur σ0 s' d = Bool.xor (cur σ0 s d) v
  anc : ∀ m ∈ s'.qc.anc, m ∈ s.qc.anc ∨ s.qc.numQubits ≤ m

/-- `cx acc d; cx i d; mcx [acc, i] d`: `d ^= acc | i` -/
theorem orGate_sem {σ0 : FState} {acc i d : Nat} {u : Unit} {s s' : CState}
    (h : StateT.run (do cx acc d; cx i d; mcx [acc, i] d : M Unit) s = .ok (u, s'))
    (hacc : acc ≠ d) (hi : i ≠ d) :
    GatesOnly s s' ∧ (∀ q, q ≠ d → cur σ0 s' q = cur σ0 s q) ∧
      cur σ0 s' d = Bool.xor (cur σ0 s d) (cur σ0 s acc || cur σ0 s i) := by
  obtain ⟨u1, s1, h1, k1⟩ := run_bind_ok.mp h
  obtain ⟨u2, s2, h2, k2⟩ := run_bind_ok.mp k1
  have a1 := cx_run h1
  have a2 := cx_run h2
  have a3 : Appended (.MCX [acc, i].length) ([acc, i] ++ [d]) s2 s' := mcx_run k2
  refine ⟨(a1.gatesOnly.trans a2.gatesOnly).trans a3.gatesOnly, ?_, ?_⟩
  · intro q hq
    rw [a3.cur_ne rfl σ0 q hq, a2.cur_ne rfl σ0 q hq, a1.cur_ne rfl σ0 q hq]
  · rw [a3.cur_eq rfl σ0, a2.cur_eq rfl σ0, a1.cur_eq rfl σ0]
    simp only [List.all_cons, List.all_nil]
    rw [a2.cur_ne rfl σ0 acc hacc, a2.cur_ne rfl σ0 i hi, a1.cur_ne rfl σ0 acc hacc, a1.cur_ne rfl σ0 i hi]
    cases cur σ0 s d <;> cases cur σ0 s acc <;> cases cur σ0 s i <;> rfl

theorem orChain_sem {σ0 : FState} {dest : Nat} : ∀ (rest : List Nat) (acc : Nat) {u : Unit} {s s' : CState},
    (orChain dest acc rest).run s = .ok (u, s') → rest ≠ [] → s.qc.free = [] →
    (∀ q, s.qc.numQubits ≤ q → cur σ0 s q = false) → dest < s.qc.numQubits → acc ≠ dest →
    acc < s.qc.numQubits → (∀ i ∈ rest, i < s.qc.numQubits ∧ i ≠ dest) →
    ChainSem σ0 dest (cur σ0 s acc || rest.any (cur σ0 s)) s s' ∧ s'.qc.free = [] ∧
      (∀ q, s'.qc.numQubits ≤ q → cur σ0 s' q = false)
  | [], acc, u, s, s', _, hne, _, _, _, _, _, _ => absurd rfl hne
  | [i], acc, u, s, s', h, _, hf, hz, hd, hacc, _, hr => by
    unfold orChain at h
    obtain ⟨hi1, hi2⟩ := hr i List.mem_cons_self
    obtain ⟨g, hfr, hv⟩ := orGate_sem (σ0 := σ0) h hacc hi2
    refine ⟨⟨(Sem.of_gatesOnly g (fun q hq => hfr q hq)).mono (fun _ _ h => h) (fun _ h => h) (fun _ h => h.elim), ?_,
      fun m hm => Or.inl (g.anc ▸ hm)⟩, by rw [g.free]; exact hf, ?_⟩
    · rw [hv]; simp
    · intro q hq
      rw [g.nq] at hq
      rw [hfr q (by omega)]; exact hz q hq
  | i :: j :: rest, acc, u, s, s', h, _, hf, hz, hd, hacc, haccl, hr => by
    unfold orChain at h
    obtain ⟨d, s1, hfa, k1⟩ := run_bind_ok.mp h
    obtain ⟨semf, hcf, hdf, hnf⟩ := getFreeAncilla_sem (σ0 := σ0) hfa hf
    obtain ⟨hda, _, hgf, hff, _, _⟩ := getFreeAncilla_fresh hfa hf
    obtain ⟨u2, s2, hm, k2⟩ := run_bind_ok.mp k1
    obtain ⟨semm, hcm⟩ := markAncilla_sem (σ0 := σ0) hm
    obtain ⟨mg, mn, mf, _, manc, mmk⟩ := markAncilla_run hm
    have k2' : StateT.run (do
        (do cx acc d; cx i d; mcx [acc, i] d : M Unit)
        orChain dest d (j :: rest) : M Unit) s2 = .ok (u, s') := by
      simpa only [bind_assoc] using k2
    obtain ⟨u3, s3, hgate, k3⟩ := run_bind_ok.mp k2'
    obtain ⟨hi1, hi2⟩ := hr i List.mem_cons_self
    have hdd : d ≠ dest := by omega
    have haccd : acc ≠ d := by omega
    have hid : i ≠ d := by omega
    obtain ⟨g3, hfr3, hv3⟩ := orGate_sem (σ0 := σ0) hgate haccd hid
    have hn3 : s3.qc.numQubits = s.qc.numQubits + 1 := by rw [g3.nq, mn, hnf]
    have hcur2 : cur σ0 s2 = cur σ0 s := by rw [hcm, hcf]
    have hzd : cur σ0 s d = false := hz d (by omega)
    have hv3' : cur σ0 s3 d = (cur σ0 s acc || cur σ0 s i) := by
      rw [hv3, hcur2, hzd]; simp
    have hfr3' : ∀ q, q ≠ d → cur σ0 s3 q = cur σ0 s q := by
      intro q hq; rw [hfr3 q hq, hcur2]
    obtain ⟨ih, hf', hz'⟩ := orChain_sem (σ0 := σ0) (j :: rest) d k3 (by simp)
      (by rw [g3.free, mf]; exact hff)
      (by intro q hq; rw [hn3] at hq; rw [hfr3' q (by omega)]; exact hz q (by omega))
      (by rw [hn3]; omega) hdd (by rw [hn3]; omega)
      (by intro x hx
          obtain ⟨h1, h2⟩ := hr x (List.mem_cons_of_mem _ hx)
          exact ⟨by rw [hn3]; omega, h2⟩)
    have hany : (j :: rest).any (cur σ0 s3) = (j :: rest).any (cur σ0 s) := by
      apply any_congr_mem
      intro x hx
      have := (hr x (List.mem_cons_of_mem _ hx)).1
      exact hfr3' x (by omega)
    have sem3 : Sem σ0 (· = d) NoK NoQ s2 s3 := Sem.of_gatesOnly g3 (fun q hq => hfr3 q hq)
    refine ⟨⟨(((semf.trans' semm).trans' sem3).trans' ih.sem).mono ?_ ?_ ?_, ?_, ?_⟩, hf', hz'⟩
    · rintro q hq (((h | h) | h) | h)
      · exact h.elim
      · exact h.elim
      · omega
      · exact h
    · rintro c (((h | h) | h) | h) <;> exact h.elim
    · rintro m (((h | h) | h) | h)
      · exact h.elim
      · rw [h.1]; omega
      · exact h.elim
      · rw [hn3] at h; omega
    · rw [ih.val, hfr3' dest (Ne.symm hdd), hv3', hany]
      simp only [List.any_cons, Bool.or_assoc]
    · intro m hm
      rcases ih.anc m hm with h | h
      · rw [g3.anc, manc] at h
        rcases getFreeAncilla_anc hfa m h with h' | h'
        · exact Or.inl h'
        · exact Or.inr (by omega)
      · rw [hn3] at h; exact Or.inr (by omega)

theorem orWide_sem {σ0 : FState} {d : Nat} {erets es : List Nat} {u : Unit} {s s' : CState}
    (h : (orWide d erets es).run s = .ok (u, s')) (hlen : 2 < es.length) (hd : d ∉ es)
    (hf : s.qc.free = []) (hz : ∀ q, s.qc.numQubits ≤ q → cur σ0 s q = false) (hdlt : d < s.qc.numQubits)
    (hes : ∀ x ∈ es, x < s.qc.numQubits) :
    ChainSem σ0 d (es.any (cur σ0 s)) s s' := by
  unfold orWide at h
  dsimp only at h
  rcases run_ite_ok.mp h with ⟨_, h⟩ | ⟨hne, h⟩
  · obtain ⟨_, _, hthrow, _⟩ := run_bind_ok.mp h
    exact (run_throw_ok.mp hthrow).elim
  · have heq : sortNat (pySetOrder erets) = es := by simpa using hne
    have hmem : ∀ x, x ∈ pySetOrder erets ↔ x ∈ es := by
      intro x; rw [← heq]; unfold sortNat; exact List.mem_mergeSort.symm
    have hl : (pySetOrder erets).length = es.length := by
      rw [← heq]; unfold sortNat; exact (List.length_mergeSort _).symm
    cases ho : pySetOrder erets with
    | nil => rw [ho] at hl; simp at hl; omega
    | cons a rest =>
      rw [ho] at h hmem hl
      have hrest : rest ≠ [] := by
        rintro rfl; simp at hl; omega
      have ha : a ∈ es := (hmem a).mp List.mem_cons_self
      obtain ⟨cs, _, _⟩ := orChain_sem (σ0 := σ0) rest a h hrest hf hz hdlt
        (by rintro rfl; exact hd ha) (hes a ha)
        (fun i hi => by
          have hie : i ∈ es := (hmem i).mp (List.mem_cons_of_mem _ hi)
          exact ⟨hes i hie, by rintro rfl; exact hd hie⟩)
      have hany : (cur σ0 s a || rest.any (cur σ0 s)) = es.any (cur σ0 s) := by
        have := any_of_mem_iff (cur σ0 s) hmem
        simpa only [List.any_cons] using this
      exact ⟨cs.sem, by rw [cs.val, hany], cs.anc⟩

theorem orGates_sem {σ0 : FState} {erets es : List Nat} {dest : Option Nat} {e : BExp} {d a : Nat}
    {s s' : CState}
    (h : StateT.run (
        if es.length ≤ 2 then do
          cxAll d es
          if (es.length == 2) = true then do
              mcx es d
              markAll es
              if dest.isNone = true then do
                  expqSet e d
                  pure d
                else pure d
            else do
              markAll es
              if dest.isNone = true then do
                  expqSet e d
                  pure d
                else pure d
        else do
          orWide d erets es
          markAll es
          if dest.isNone = true then do
              expqSet e d
              pure d
            else pure d : M Nat) s = .ok (a, s'))
    (hd : d ∉ es) (hf : s.qc.free = []) (hz : ∀ q, s.qc.numQubits ≤ q → cur σ0 s q = false)
    (hdlt : d < s.qc.numQubits) (hes : ∀ x ∈ es, x < s.qc.numQubits) :
    a = d ∧ Sem σ0 (· = d) (· = e) (fun m => (m ∈ es ∧ m ∈ s.qc.anc) ∨ s.qc.numQubits ≤ m) s s' ∧
      cur σ0 s' d = Bool.xor (cur σ0 s d) (es.any (cur σ0 s)) := by
  -- every branch: a piece `s → t` that (among the old qubits) touches only `d`, then the common tail
  have fin : ∀ (t : CState), ChainSem σ0 d (es.any (cur σ0 s)) s t →
      StateT.run (do
          markAll es
          if dest.isNone = true then do
              expqSet e d
              pure d
            else pure d : M Nat) t = .ok (a, s') →
      a = d ∧ Sem σ0 (· = d) (· = e) (fun m => (m ∈ es ∧ m ∈ s.qc.anc) ∨ s.qc.numQubits ≤ m) s s' ∧
        cur σ0 s' d = Bool.xor (cur σ0 s d) (es.any (cur σ0 s)) := by
    intro t ct hrun
    obtain ⟨rfl, semf, hcf⟩ := finish_sem (σ0 := σ0) hrun
    refine ⟨rfl, (ct.sem.trans' semf).mono ?_ ?_ ?_, by rw [hcf, ct.val]⟩
    · rintro q _ (h | h)
      · exact h
      · exact h.elim
    · rintro c (h | h)
      · exact h.elim
      · exact h
    · rintro m (h | h)
      · exact Or.inr h
      · rcases ct.anc m h.2 with h' | h'
        · exact Or.inl ⟨h.1, h'⟩
        · exact Or.inr h'
  have ofGates : ∀ (t : CState), GatesOnly s t → (∀ q, q ≠ d → cur σ0 t q = cur σ0 s q) →
      cur σ0 t d = Bool.xor (cur σ0 s d) (es.any (cur σ0 s)) → ChainSem σ0 d (es.any (cur σ0 s)) s t := by
    intro t hg hfr hv
    exact ⟨(Sem.of_gatesOnly hg (fun q hq => hfr q hq)).mono (fun _ _ h => h) (fun _ h => h) (fun _ h => h.elim),
      hv, fun m hm => Or.inl (hg.anc ▸ hm)⟩
  rcases run_ite_ok.mp h with ⟨hle, h⟩ | ⟨hgt, h⟩
  · obtain ⟨u1, s1, hcx, h1⟩ := run_bind_ok.mp h
    match es, hd, hle, hcx, h1, fin, ofGates with
    | [], _, _, hcx, h1, fin, ofGates =>
      unfold cxAll at hcx
      obtain ⟨_, rfl⟩ := run_pure_ok.mp hcx
      rcases run_ite_ok.mp h1 with ⟨hc, _⟩ | ⟨_, h1⟩
      · simp at hc
      · exact fin _ (ofGates _ (GatesOnly.refl _) (fun _ _ => rfl) (by simp)) h1
    | [q1], hd, _, hcx, h1, fin, ofGates =>
      unfold cxAll at hcx
      obtain ⟨u2, s2, hc1, hc2⟩ := run_bind_ok.mp hcx
      unfold cxAll at hc2
      obtain ⟨_, rfl⟩ := run_pure_ok.mp hc2
      have a1 := cx_run hc1
      rcases run_ite_ok.mp h1 with ⟨hc, _⟩ | ⟨_, h1⟩
      · simp at hc
      · exact fin _ (ofGates _ a1.gatesOnly (fun q hq => a1.cur_ne rfl σ0 q hq) (by rw [a1.cur_eq rfl σ0]; simp)) h1
    | [q1, q2], hd, _, hcx, h1, fin, ofGates =>
      unfold cxAll at hcx
      obtain ⟨u2, s2, hc1, hc2⟩ := run_bind_ok.mp hcx
      unfold cxAll at hc2
      obtain ⟨u3, s3, hc3, hc4⟩ := run_bind_ok.mp hc2
      unfold cxAll at hc4
      obtain ⟨_, rfl⟩ := run_pure_ok.mp hc4
      have a1 := cx_run hc1
      have a2 := cx_run hc3
      have hq1 : q1 ≠ d := by rintro rfl; exact hd (by simp)
      have hq2 : q2 ≠ d := by rintro rfl; exact hd (by simp)
      rcases run_ite_ok.mp h1 with ⟨_, h1⟩ | ⟨hc, _⟩
      · obtain ⟨u4, s4, hm, h2⟩ := run_bind_ok.mp h1
        have a3 := mcx_run hm
        refine fin _ (ofGates _ ((a1.gatesOnly.trans a2.gatesOnly).trans a3.gatesOnly) ?_ ?_) h2
        · intro q hq
          rw [a3.cur_ne rfl σ0 q hq, a2.cur_ne rfl σ0 q hq, a1.cur_ne rfl σ0 q hq]
        · rw [a3.cur_eq rfl σ0, a2.cur_eq rfl σ0, a1.cur_eq rfl σ0]
          simp only [List.all_cons, List.all_nil, List.any_cons, List.any_nil]
          rw [a2.cur_ne rfl σ0 q1 hq1, a2.cur_ne rfl σ0 q2 hq2, a1.cur_ne rfl σ0 q1 hq1, a1.cur_ne rfl σ0 q2 hq2]
          cases cur σ0 s d <;> cases cur σ0 s q1 <;> cases cur σ0 s q2 <;> rfl
      · simp at hc
    | _ :: _ :: _ :: _, _, hle, _, _, _, _ => simp at hle
  · obtain ⟨u1, s1, hw, h1⟩ := run_bind_ok.mp h
    exact fin _ (orWide_sem (σ0 := σ0) hw (by omega) hd hf hz hdlt hes) h1

theorem exprSem_or {inputs : List String} {ρ : Env} {σ0 : FState} {r : String} (amb : Amb inputs σ0 r)
    {args : List BExp} (ih : ArgsSem inputs ρ σ0 r args) : ExprSem inputs ρ σ0 r (.or args) := by
  intro dest sym a s s' h hp hcache hd hsym _
  unfold compileExpr at h
  dsimp only at h
  obtain ⟨r0, s1, hget, h1⟩ := run_bind_ok.mp h
  obtain ⟨rfl, rfl⟩ := expqGet?_miss hget (fun p hp' => hcache p hp' _ (by simp [compSubs]))
  dsimp only at h1
  obtain ⟨erets, s2, hargs, h2⟩ := run_bind_ok.mp h1
  obtain ⟨st1, _⟩ := argsSpec (B := (· = r)) args hargs hp.good
  obtain ⟨sem1, hvals, hb⟩ := ih hargs hp (fun p hp' c hc => hcache p hp' c (by simp [compSubs, hc]))
  have hp2 : Pre inputs ρ σ0 s2 := hp.next amb st1 sem1 (by intro q hq; exact hq.elim)
  have body : ∀ {d : Nat} {s3 : CState} {k : M Nat} (es : List Nat),
      es = sortNat (if erets.contains d = true then erets.erase d else erets).eraseDups →
      (destOr dest).run s2 = .ok (d, s3) →
      StateT.run (if erets.contains d = true then do event "destAmongArgs"; k else k) s3 = .ok (a, s') →
      (k.run s3 = .ok (a, s') → d ∉ es → s3.qc.free = [] →
        (∀ q, s3.qc.numQubits ≤ q → cur σ0 s3 q = false) → d < s3.qc.numQubits →
        (∀ x ∈ es, x < s3.qc.numQubits) →
        a = d ∧ Sem σ0 (· = d) (· = BExp.or args)
            (fun m => (m ∈ es ∧ m ∈ s3.qc.anc) ∨ s3.qc.numQubits ≤ m) s3 s' ∧
          cur σ0 s' d = Bool.xor (cur σ0 s3 d) (es.any (cur σ0 s3))) →
      Sem σ0 (fun q => dest = some q) (· ∈ compSubs (BExp.or args))
        (fun m => s1.qc.numQubits ≤ m ∧ (dest = none → m ≠ a)) s1 s' ∧
      (dest = none → (a < inputs.length ∨ s1.qc.numQubits ≤ a) ∧ cur σ0 s' a = (BExp.or args).eval ρ) ∧
      (∀ d, dest = some d → a = d ∧ cur σ0 s' d = Bool.xor (cur σ0 s1 d) ((BExp.or args).eval ρ)) := by
    intro d s3 k es hes hdest h3 hk
    obtain ⟨hp3, sem2, hc2, hdn, hdcase⟩ := dest_sem amb hp2 sem1.nq hd hb hdest
    have hcd : ¬ (erets.contains d = true) := by simpa using hdn
    rw [if_neg hcd] at hes
    have hdes : d ∉ es := by rw [hes, mem_sortDedup]; exact hdn
    rcases run_ite_ok.mp h3 with ⟨hc, _⟩ | ⟨_, h3⟩
    · exact absurd hc hcd
    · have hd3 : d < s3.qc.numQubits := dest_lt hp2 sem1.nq hd hdest
      have hes3 : ∀ x ∈ es, x < s3.qc.numQubits := by
        intro x hx
        rw [hes] at hx
        have := (hb x (mem_sortDedup.mp hx)).2
        have := sem2.nq
        omega
      obtain ⟨rfl, semf, hv⟩ := hk h3 hdes hp3.free (zero_of_good amb hp3.good hp3.nin) hd3 hes3
      have hval : cur σ0 s' a = Bool.xor (cur σ0 s2 a) (evalOr ρ args) := by
        rw [hv, hes, any_sortDedup, hc2, any_of_map hvals]
      have hmk : ∀ m, (m ∈ es ∧ m ∈ s3.qc.anc) ∨ s3.qc.numQubits ≤ m → s1.qc.numQubits ≤ m ∧ m ≠ a := by
        rintro m (⟨hm1, hm2⟩ | hm2)
        · have hne : m ≠ a := fun he => hdes (he ▸ hm1)
          rw [hes] at hm1
          have hm := hb m (mem_sortDedup.mp hm1)
          have := hp3.sge.1 m hm2
          exact ⟨by omega, hne⟩
        · have := sem1.nq
          have := sem2.nq
          exact ⟨by omega, by omega⟩
      rcases hdcase with hsome | ⟨hnone, hda, hz⟩
      · subst hsome
        obtain ⟨hd1, hd2⟩ := hd a rfl
        refine ⟨((sem1.trans' sem2).trans' semf).mono ?_ ?_ ?_, fun hn => (by cases hn), fun d' hd' => ?_⟩
        · rintro q _ ((h | h) | h)
          · exact h.elim
          · exact h.elim
          · rw [h]
        · rintro c ((h | h) | h)
          · simp [compSubs, show c ∈ compSubsList args from h]
          · exact h.elim
          · simp [compSubs, show c = BExp.or args from h]
        · rintro m ((h | h) | h)
          · exact ⟨h, fun hn => by cases hn⟩
          · exact h.elim
          · exact ⟨(hmk m h).1, fun hn => by cases hn⟩
        · cases hd'
          refine ⟨rfl, ?_⟩
          rw [hval, sem1.frame a hd2 (fun h => h)]
          simp [BExp.eval]
      · subst hnone
        refine ⟨(((sem1.with_lt hp2.good).trans' sem2).trans' semf).mono ?_ ?_ ?_,
          fun _ => ⟨Or.inr (by have := sem1.nq; omega), ?_⟩, fun d' hd' => by cases hd'⟩
        · rintro q hq ((h | h) | h)
          · exact h.elim
          · exact h.elim
          · have := sem1.nq; omega
        · rintro c ((h | h) | h)
          · simp [compSubs, show c ∈ compSubsList args from h]
          · exact h.elim
          · simp [compSubs, show c = BExp.or args from h]
        · rintro m ((h | h) | h)
          · exact ⟨h.1, fun _ => by have := h.2; omega⟩
          · exact h.elim
          · exact ⟨(hmk m h).1, fun _ => by have := (hmk m h).2; omega⟩
        · rw [hval, hz]
          simp [BExp.eval]
  cases dest with
  | some d0 =>
    dsimp only at h2
    obtain ⟨d, s3, hp0, h4⟩ := run_bind_ok.mp h2
    exact body _ rfl hp0 h4 (fun hk hdes hf hz hdl hel => orGates_sem hk hdes hf hz hdl hel)
  | none =>
    dsimp only at h2
    obtain ⟨d, s3, hf, h4⟩ := run_bind_ok.mp h2
    exact body _ rfl hf h4 (fun hk hdes hf hz hdl hel => orGates_sem hk hdes hf hz hdl hel)

/-! ### `Xor`: accumulate every argument into one qubit -/

def XorSem (inputs : List String) (ρ : Env) (σ0 : FState) (_r : String) (as : List BExp) : Prop :=
  ∀ (d : Nat) {a : Nat} {s s' : CState}, (compileXorArgs as d).run s = .ok (a, s') →
    Pre inputs ρ σ0 s →
    (∀ p ∈ s.expq, ∀ c ∈ compSubsList as, (p.1 == c) = false) →
    inputs.length ≤ d → d < s.qc.numQubits →
    a = d ∧ Sem σ0 (· = d) (· ∈ compSubsList as) (fun m => s.qc.numQubits ≤ m) s s' ∧
      cur σ0 s' d = Bool.xor (cur σ0 s d) (evalXor ρ as)

theorem xorSem_nil {inputs : List String} {ρ : Env} {σ0 : FState} {r : String} :
    XorSem inputs ρ σ0 r [] := by
  intro d a s s' h _ _ _ _
  unfold compileXorArgs at h
  obtain ⟨rfl, rfl⟩ := run_pure_ok.mp h
  exact ⟨rfl, Sem.refl _, by simp [evalXor]⟩

/-- cache keys after a step that added keys of `a` stay away from the keys of the later siblings -/
theorem cache_next {K : BExp → Prop} {σ0 : FState} {W : Nat → Prop} {Mk : Nat → Prop} {s s1 : CState}
    {a : BExp} {as : List BExp}
    (hcache : ∀ p ∈ s.expq, ∀ c ∈ compSubsList (a :: as), (p.1 == c) = false)
    (sem1 : Sem σ0 W K Mk s s1) (hK : ∀ c, K c → c ∈ compSubs a)
    (hdis : ∀ x ∈ compSubs a, ∀ y ∈ compSubsList as, (x == y) = false) :
    ∀ p ∈ s1.expq, ∀ c ∈ compSubsList as, (p.1 == c) = false := by
  intro p hp' c hc
  rcases sem1.keys p hp' with ⟨p0, hp0, e0⟩ | hk
  · rw [← e0]; exact hcache p0 hp0 c (by simp [compSubsList, hc])
  · exact hdis _ (hK _ hk) c hc

/-- generic branch of the `compile_xor` loop -/
theorem xorStep_sem {inputs : List String} {ρ : Env} {σ0 : FState} {r : String} (amb : Amb inputs σ0 r)
    {a : BExp} {as : List BExp} {d q : Nat} {s s' : CState}
    (iha : ExprSem inputs ρ σ0 r a) (ihs : XorSem inputs ρ σ0 r as) (hns : isSym a = false)
    (hdis : ∀ x ∈ compSubs a, ∀ y ∈ compSubsList as, (x == y) = false)
    (h : StateT.run (do
          let d' ← compileExpr a (some d) none
          if d' != d then event "xorRepl"
          compileXorArgs as d' : M Nat) s = .ok (q, s'))
    (hp : Pre inputs ρ σ0 s)
    (hcache : ∀ p ∈ s.expq, ∀ c ∈ compSubsList (a :: as), (p.1 == c) = false)
    (hd1 : inputs.length ≤ d) (hd2 : d < s.qc.numQubits) :
    q = d ∧ Sem σ0 (· = d) (· ∈ compSubsList (a :: as)) (fun m => s.qc.numQubits ≤ m) s s' ∧
      cur σ0 s' d = Bool.xor (cur σ0 s d) (evalXor ρ (a :: as)) := by
  obtain ⟨d', s1, h1, h2⟩ := run_bind_ok.mp h
  obtain ⟨st1, _⟩ := exprSpec (B := (· = r)) a (some d) none h1 hp.good
    (by intro d0 h0; cases h0; exact hd2) (by intro y hy; cases hy)
  obtain ⟨sem1, _, hv1⟩ := iha (some d) none h1 hp
    (fun p hp' c hc => hcache p hp' c (by simp [compSubsList, hc]))
    (by intro d0 h0; cases h0; exact ⟨hd1, hd2⟩) (by intro y hy; cases hy)
    (by intro hs; rw [hns] at hs; cases hs)
  obtain ⟨e', hval⟩ := hv1 d rfl
  subst e'
  have hp1 : Pre inputs ρ σ0 s1 := hp.next amb st1 sem1 (by intro q hq; cases hq; exact hd1)
  dsimp only at h2
  rcases run_ite_ok.mp h2 with ⟨hc, _⟩ | ⟨_, h2⟩
  · simp at hc
  · obtain ⟨rfl, sem2, hv2⟩ := ihs d' h2 hp1 (cache_next hcache sem1 (fun _ h => h) hdis) hd1
      (Nat.lt_of_lt_of_le hd2 sem1.nq)
    refine ⟨rfl, (sem1.trans' sem2).mono ?_ ?_ ?_, ?_⟩
    · rintro q _ (h | h)
      · cases h; rfl
      · exact h
    · rintro c (h | h)
      · simp [compSubsList, show c ∈ compSubs a from h]
      · simp [compSubsList, show c ∈ compSubsList as from h]
    · rintro m (h | h)
      · exact h.1
      · exact Nat.le_trans sem1.nq h
    · rw [hv2, hval, Bool.xor_assoc]; rfl

/-- `Not` of a compound argument: accumulate the argument, then `X` -/
theorem xorNotStep_sem {inputs : List String} {ρ : Env} {σ0 : FState} {r : String} (amb : Amb inputs σ0 r)
    {inner : BExp} {as : List BExp} {d q : Nat} {s s' : CState}
    (iha : ExprSem inputs ρ σ0 r inner) (ihs : XorSem inputs ρ σ0 r as) (hns : isSym inner = false)
    (hdis : ∀ x ∈ compSubs (.not inner), ∀ y ∈ compSubsList as, (x == y) = false)
    (h : StateT.run (do
          let d' ← compileExpr inner (some d) none
          if d' != d then event "xorRepl"
          xGate d'
          compileXorArgs as d' : M Nat) s = .ok (q, s'))
    (hp : Pre inputs ρ σ0 s)
    (hcache : ∀ p ∈ s.expq, ∀ c ∈ compSubsList (.not inner :: as), (p.1 == c) = false)
    (hd1 : inputs.length ≤ d) (hd2 : d < s.qc.numQubits) :
    q = d ∧ Sem σ0 (· = d) (· ∈ compSubsList (.not inner :: as)) (fun m => s.qc.numQubits ≤ m) s s' ∧
      cur σ0 s' d = Bool.xor (cur σ0 s d) (evalXor ρ (.not inner :: as)) := by
  obtain ⟨d', s1, h1, h2⟩ := run_bind_ok.mp h
  obtain ⟨st1, _⟩ := exprSpec (B := (· = r)) inner (some d) none h1 hp.good
    (by intro d0 h0; cases h0; exact hd2) (by intro y hy; cases hy)
  obtain ⟨sem1, _, hv1⟩ := iha (some d) none h1 hp
    (fun p hp' c hc => hcache p hp' c (by simp [compSubsList, compSubs, hc]))
    (by intro d0 h0; cases h0; exact ⟨hd1, hd2⟩) (by intro y hy; cases hy)
    (by intro hs; rw [hns] at hs; cases hs)
  obtain ⟨e', hval⟩ := hv1 d rfl
  subst e'
  have hp1 : Pre inputs ρ σ0 s1 := hp.next amb st1 sem1 (by intro q hq; cases hq; exact hd1)
  dsimp only at h2
  rcases run_ite_ok.mp h2 with ⟨hc, _⟩ | ⟨_, h2⟩
  · simp at hc
  · obtain ⟨u, s2, hx, h3⟩ := run_bind_ok.mp h2
    have ax := xGate_run hx
    have semx : Sem σ0 (· = d') NoK NoQ s1 s2 := ax.sem rfl
    have hd3 : d' < s1.qc.numQubits := Nat.lt_of_lt_of_le hd2 sem1.nq
    have hp2 : Pre inputs ρ σ0 s2 := hp1.next amb (xGate_ok (B := (· = r)) hx hp1.good hd3) semx
      (by intro q hq; rw [hq]; exact hd1)
    have sem12 := sem1.trans' semx
    obtain ⟨rfl, sem2, hv2⟩ := ihs d' h3 hp2
      (cache_next hcache sem12 (by
        rintro c (h | h)
        · simp [compSubs, show c ∈ compSubs inner from h]
        · exact h.elim) hdis) hd1
      (Nat.lt_of_lt_of_le hd2 sem12.nq)
    refine ⟨rfl, (sem12.trans' sem2).mono ?_ ?_ ?_, ?_⟩
    · rintro q _ ((h | h) | h)
      · cases h; rfl
      · exact h
      · exact h
    · rintro c ((h | h) | h)
      · simp [compSubsList, compSubs, show c ∈ compSubs inner from h]
      · exact h.elim
      · simp [compSubsList, show c ∈ compSubsList as from h]
    · rintro m ((h | h) | h)
      · exact h.1
      · exact h.elim
      · exact Nat.le_trans sem12.nq h
    · rw [hv2, ax.cur_eq rfl σ0, hval]
      simp only [List.all_nil, Bool.xor_true, evalXor, BExp.eval]
      rw [bnot_xor, Bool.xor_assoc]

theorem xorSem_cons {inputs : List String} {ρ : Env} {σ0 : FState} {r : String} (amb : Amb inputs σ0 r)
    {a : BExp} {as : List BExp} (hov : overInputs inputs a = true)
    (iha : ExprSem inputs ρ σ0 r a) (ihi : ExprSem inputs ρ σ0 r (stripNot a))
    (ihs : XorSem inputs ρ σ0 r as)
    (hdis : ∀ x ∈ compSubs a, ∀ y ∈ compSubsList as, (x == y) = false) :
    XorSem inputs ρ σ0 r (a :: as) := by
  intro d q s s' h hp hcache hd1 hd2
  cases a with
  | sym n =>
    unfold compileXorArgs at h
    obtain ⟨q0, s1, hl, h1⟩ := run_bind_ok.mp h
    obtain ⟨rfl, hq0, _⟩ := lookup_ok hl hp.good
    have hn : n ∈ inputs := by simpa [overInputs] using hov
    obtain ⟨i, hi⟩ := idx_of_mem hn
    have hb := hp.bind i n hi
    rw [hq0] at hb
    have hqi : q0 = i := by simpa using hb
    subst hqi
    have hil := (mem_of_getElem?' hi).2
    rcases run_ite_ok.mp h1 with ⟨hc, _⟩ | ⟨_, h1⟩
    · have : q0 = d := by simpa using hc
      omega
    · obtain ⟨u, s2, hcx, h2⟩ := run_bind_ok.mp h1
      have ac := cx_run hcx
      have semc : Sem σ0 (· = d) NoK NoQ s1 s2 := ac.sem rfl
      have hp2 : Pre inputs ρ σ0 s2 := hp.next amb
        (cx_ok (B := (· = r)) hcx hp.good (Nat.lt_of_lt_of_le hil hp.nin) hd2) semc
        (by intro q hq; rw [hq]; exact hd1)
      obtain ⟨rfl, sem2, hv2⟩ := ihs d h2 hp2
        (cache_next hcache semc (fun _ h => h.elim) hdis) hd1 (Nat.lt_of_lt_of_le hd2 semc.nq)
      refine ⟨rfl, (semc.trans' sem2).mono ?_ ?_ ?_, ?_⟩
      · rintro q _ (h | h) <;> exact h
      · rintro c (h | h)
        · exact h.elim
        · simp [compSubsList, show c ∈ compSubsList as from h]
      · rintro m (h | h)
        · exact h.elim
        · exact Nat.le_trans semc.nq h
      · rw [hv2, ac.cur_eq rfl σ0]
        simp only [List.all_cons, List.all_nil, Bool.and_true, evalXor, BExp.eval]
        rw [hp.vals q0 n hi, Bool.xor_assoc]
  | not inner =>
    cases inner with
    | sym n =>
      unfold compileXorArgs at h
      exact xorStep_sem amb iha ihs rfl hdis h hp hcache hd1 hd2
    | ff => simp [overInputs] at hov
    | tt => simp [overInputs] at hov
    | xor l => unfold compileXorArgs at h; exact xorNotStep_sem amb ihi ihs rfl hdis h hp hcache hd1 hd2
    | not l => unfold compileXorArgs at h; exact xorNotStep_sem amb ihi ihs rfl hdis h hp hcache hd1 hd2
    | and l => unfold compileXorArgs at h; exact xorNotStep_sem amb ihi ihs rfl hdis h hp hcache hd1 hd2
    | or l => unfold compileXorArgs at h; exact xorNotStep_sem amb ihi ihs rfl hdis h hp hcache hd1 hd2
    | ite x y z => simp [overInputs] at hov
    | imp x y => simp [overInputs] at hov
  | ff => simp [overInputs] at hov
  | tt => simp [overInputs] at hov
  | xor l => unfold compileXorArgs at h; exact xorStep_sem amb iha ihs rfl hdis h hp hcache hd1 hd2
  | and l => unfold compileXorArgs at h; exact xorStep_sem amb iha ihs rfl hdis h hp hcache hd1 hd2
  | or l => unfold compileXorArgs at h; exact xorStep_sem amb iha ihs rfl hdis h hp hcache hd1 hd2
  | ite x y z => simp [overInputs] at hov
  | imp x y => simp [overInputs] at hov

theorem exprSem_xor {inputs : List String} {ρ : Env} {σ0 : FState} {r : String} (amb : Amb inputs σ0 r)
    {args : List BExp} (ih : XorSem inputs ρ σ0 r args) : ExprSem inputs ρ σ0 r (.xor args) := by
  intro dest sym a s s' h hp hcache hd hsym _
  unfold compileExpr at h
  dsimp only at h
  obtain ⟨r0, s1, hget, h1⟩ := run_bind_ok.mp h
  obtain ⟨rfl, rfl⟩ := expqGet?_miss hget (fun p hp' => hcache p hp' _ (by simp [compSubs]))
  dsimp only at h1
  have hsub : ∀ p ∈ s1.expq, ∀ c ∈ compSubsList args, (p.1 == c) = false :=
    fun p hp' c hc => hcache p hp' c (by simp [compSubs, hc])
  cases dest with
  | some d =>
    simp only [Option.isNone_some, Bool.false_eq_true, ↓reduceIte] at h1
    obtain ⟨d0, s2, hp0, h2⟩ := run_bind_ok.mp h1
    obtain ⟨rfl, rfl⟩ := run_pure_ok.mp hp0
    obtain ⟨d', s3, hx, h3⟩ := run_bind_ok.mp h2
    obtain ⟨rfl, rfl⟩ := run_pure_ok.mp h3
    obtain ⟨hd1, hd2⟩ := hd d0 rfl
    obtain ⟨rfl, sem1, hv⟩ := ih d0 hx hp hsub hd1 hd2
    refine ⟨sem1.mono ?_ ?_ ?_, fun hn => (by cases hn), fun d' hd' => ?_⟩
    · rintro q _ h; rw [h]
    · rintro c h; simp [compSubs, show c ∈ compSubsList args from h]
    · rintro m h; exact ⟨h, fun hn => by cases hn⟩
    · cases hd'
      exact ⟨rfl, by rw [hv]; simp [BExp.eval]⟩
  | none =>
    simp only [Option.isNone_none, ↓reduceIte] at h1
    obtain ⟨d, s2, hf, h2⟩ := run_bind_ok.mp h1
    obtain ⟨semf, hcf, hdf, hnf⟩ := getFreeAncilla_sem (σ0 := σ0) hf hp.free
    have hp2 : Pre inputs ρ σ0 s2 := hp.next amb (getFreeAncilla_ok (B := (· = r)) hf hp.good).1 semf
      (by intro q hq; exact hq.elim)
    obtain ⟨d', s3, hx, h3⟩ := run_bind_ok.mp h2
    obtain ⟨u, s4, hset, h4⟩ := run_bind_ok.mp h3
    obtain ⟨rfl, rfl⟩ := run_pure_ok.mp h4
    have hd1 : inputs.length ≤ d := by rw [hdf]; exact hp.nin
    obtain ⟨rfl, sem1, hv⟩ := ih d hx hp2 (by
      intro p hp' c hc
      rcases semf.keys p hp' with ⟨p0, hp0, e0⟩ | hk
      · rw [← e0]; exact hsub p0 hp0 c hc
      · exact hk.elim) hd1 (by omega)
    obtain ⟨sem4, hc4⟩ := expqSet_sem (σ0 := σ0) hset
    have hz : cur σ0 s1 a = false := zero_of_good amb hp.good hp.nin a (by omega)
    refine ⟨((semf.trans' sem1).trans' sem4).mono ?_ ?_ ?_, fun _ => ⟨Or.inr (by omega), ?_⟩,
      fun d' hd' => by cases hd'⟩
    · rintro q hq ((h | h) | h)
      · exact h.elim
      · omega
      · exact h.elim
    · rintro c ((h | h) | h)
      · exact h.elim
      · simp [compSubs, show c ∈ compSubsList args from h]
      · simp [compSubs, show c = BExp.xor args from h]
    · rintro m ((h | h) | h)
      · exact h.elim
      · exact ⟨by omega, fun _ => by omega⟩
      · exact h.elim
    · rw [hc4, hv, hcf, hz]; simp [BExp.eval]

/-! ### the induction -/

theorem distinct_tail {e : BExp} {l : List BExp} (h : Distinct (e :: l)) : Distinct l :=
  (List.pairwise_cons.mp h).2

theorem distinct_cons_list {e : BExp} {l : List BExp} (h : Distinct (e :: compSubsList l)) :
    Distinct (compSubsList l) := (List.pairwise_cons.mp h).2

theorem distinct_split {a : BExp} {as : List BExp} (h : Distinct (compSubsList (a :: as))) :
    Distinct (compSubs a) ∧ Distinct (compSubsList as) ∧
      ∀ x ∈ compSubs a, ∀ y ∈ compSubsList as, (x == y) = false := by
  unfold Distinct at h
  rw [compSubsList, List.pairwise_append] at h
  exact h

theorem overInputs_strip {inputs : List String} {a : BExp} (h : overInputs inputs a = true) :
    overInputs inputs (stripNot a) = true := by
  cases a <;> simp_all [stripNot, overInputs]

theorem distinct_strip {a : BExp} (h : Distinct (compSubs a)) : Distinct (compSubs (stripNot a)) := by
  cases a with
  | not i =>
    show Distinct (compSubs i)
    exact distinct_tail (e := .not i) (by simpa [compSubs] using h)
  | _ => exact h

mutual
/-- **`compileExpr` on the fragment**: the result qubit holds the value of the expression (or the
accumulator gets it xor-ed in), nothing else that existed before changes -/
theorem exprSem {inputs : List String} {ρ : Env} {σ0 : FState} {r : String} (amb : Amb inputs σ0 r) :
    ∀ e : BExp, overInputs inputs e = true → Distinct (compSubs e) → ExprSem inputs ρ σ0 r e
  | .sym n => fun hov _ => exprSem_sym n (by simpa [overInputs] using hov)
  | .not a => fun hov hd =>
    have hov' : overInputs inputs a = true := by simpa [overInputs] using hov
    exprSem_not amb hov' (exprSem amb a hov' (distinct_tail (by simpa [compSubs] using hd)))
  | .and args => fun hov hd =>
    exprSem_and amb (argsSem amb args (by simpa [overInputs] using hov)
      (distinct_cons_list (by simpa [compSubs] using hd)))
  | .or args => fun hov hd =>
    exprSem_or amb (argsSem amb args (by simpa [overInputs] using hov)
      (distinct_cons_list (by simpa [compSubs] using hd)))
  | .xor args => fun hov hd =>
    exprSem_xor amb (xorSem amb args (by simpa [overInputs] using hov)
      (distinct_cons_list (by simpa [compSubs] using hd)))
  | .ff => fun hov _ => by simp [overInputs] at hov
  | .tt => fun hov _ => by simp [overInputs] at hov
  | .ite _ _ _ => fun hov _ => by simp [overInputs] at hov
  | .imp _ _ => fun hov _ => by simp [overInputs] at hov
theorem argsSem {inputs : List String} {ρ : Env} {σ0 : FState} {r : String} (amb : Amb inputs σ0 r) :
    ∀ as : List BExp, overInputsList inputs as = true → Distinct (compSubsList as) →
      ArgsSem inputs ρ σ0 r as
  | [] => fun _ _ => argsSem_nil (r := r)
  | a :: as => fun hov hd =>
    have hov' : overInputs inputs a = true ∧ overInputsList inputs as = true := by
      simpa [overInputsList] using hov
    have hs := distinct_split hd
    argsSem_cons amb (exprSem amb a hov'.1 hs.1) (argsSem amb as hov'.2 hs.2.1) hs.2.2
theorem xorSem {inputs : List String} {ρ : Env} {σ0 : FState} {r : String} (amb : Amb inputs σ0 r) :
    ∀ as : List BExp, overInputsList inputs as = true → Distinct (compSubsList as) →
      XorSem inputs ρ σ0 r as
  | [] => fun _ _ => xorSem_nil (r := r)
  | .not i :: as => fun hov hd =>
    have hov' : overInputs inputs (.not i) = true ∧ overInputsList inputs as = true := by
      simpa [overInputsList] using hov
    have hs := distinct_split hd
    xorSem_cons amb hov'.1 (exprSem amb (.not i) hov'.1 hs.1)
      (exprSem amb i (overInputs_strip hov'.1) (distinct_strip hs.1)) (xorSem amb as hov'.2 hs.2.1) hs.2.2
  | .sym n :: as => fun hov hd =>
    have hov' : overInputs inputs (.sym n) = true ∧ overInputsList inputs as = true := by
      simpa [overInputsList] using hov
    have hs := distinct_split hd
    xorSem_cons amb hov'.1 (exprSem amb (.sym n) hov'.1 hs.1) (exprSem amb (.sym n) hov'.1 hs.1)
      (xorSem amb as hov'.2 hs.2.1) hs.2.2
  | .xor l :: as => fun hov hd =>
    have hov' : overInputs inputs (.xor l) = true ∧ overInputsList inputs as = true := by
      simpa [overInputsList] using hov
    have hs := distinct_split hd
    xorSem_cons amb hov'.1 (exprSem amb (.xor l) hov'.1 hs.1) (exprSem amb (.xor l) hov'.1 hs.1)
      (xorSem amb as hov'.2 hs.2.1) hs.2.2
  | .and l :: as => fun hov hd =>
    have hov' : overInputs inputs (.and l) = true ∧ overInputsList inputs as = true := by
      simpa [overInputsList] using hov
    have hs := distinct_split hd
    xorSem_cons amb hov'.1 (exprSem amb (.and l) hov'.1 hs.1) (exprSem amb (.and l) hov'.1 hs.1)
      (xorSem amb as hov'.2 hs.2.1) hs.2.2
  | .or l :: as => fun hov hd =>
    have hov' : overInputs inputs (.or l) = true ∧ overInputsList inputs as = true := by
      simpa [overInputsList] using hov
    have hs := distinct_split hd
    xorSem_cons amb hov'.1 (exprSem amb (.or l) hov'.1 hs.1) (exprSem amb (.or l) hov'.1 hs.1)
      (xorSem amb as hov'.2 hs.2.1) hs.2.2
  | .ff :: as => fun hov _ => by simp [overInputsList, overInputs] at hov
  | .tt :: as => fun hov _ => by simp [overInputsList, overInputs] at hov
  | .ite _ _ _ :: as => fun hov _ => by simp [overInputsList, overInputs] at hov
  | .imp _ _ :: as => fun hov _ => by simp [overInputsList, overInputs] at hov
end

/-! ### the statement loop for one definition, and `compile` -/

theorem untargeted_runF (gs : List AGate) (q : Nat) (h : ∀ g ∈ gs, g.wires.getLast? ≠ some q) (f : FState) :
    runF gs f q = f q := by
  induction gs generalizing f with
  | nil => rfl
  | cons g gs ih =>
    rw [runF_cons, ih (fun g' hg' => h g' (List.mem_cons_of_mem _ hg'))]
    unfold stepF
    split
    · unfold applyF
      cases ht : g.wires.getLast? with
      | none => rfl
      | some t =>
        dsimp only
        split
        · have : q ≠ t := by
            rintro rfl; exact h g List.mem_cons_self ht
          simp [this]
        · rfl
    · rfl

theorem addInputs_quiet : ∀ (ns : List String) {u : Unit} {s s' : CState},
    (addInputs ns).run s = .ok (u, s') →
    s'.qc.gates = s.qc.gates ∧ s'.expq = s.expq ∧ s'.inputs = s.inputs
  | [], u, s, s', h => by
    unfold addInputs at h
    obtain ⟨_, rfl⟩ := run_pure_ok.mp h
    exact ⟨rfl, rfl, rfl⟩
  | n :: ns, u, s, s', h => by
    unfold addInputs at h
    obtain ⟨u1, s1, hd, h1⟩ := run_bind_ok.mp h
    obtain ⟨i0, hadd⟩ := run_discard_ok.mp hd
    have hs1 := (addQubit_run hadd).2
    obtain ⟨h2, h3, h4⟩ := addInputs_quiet ns h1
    rw [hs1] at h2 h3 h4
    exact ⟨h2, h3, h4⟩

theorem mapQubit_run {name : String} {index : Nat} {promote : Bool} {u : Unit} {s s' : CState}
    (h : (mapQubit name index promote).run s = .ok (u, s')) :
    s'.qc.gates = s.qc.gates ∧ s'.qc.marked = s.qc.marked ∧ s'.qc.numQubits = s.qc.numQubits := by
  unfold mapQubit at h
  dsimp only at h
  obtain ⟨qc, s1, hq, h⟩ := run_bind_ok.mp h
  obtain ⟨rfl, rfl⟩ := getQC_run hq
  split at h
  · obtain ⟨u2, s3, hm1, hmatch⟩ := run_bind_ok.mp h
    have := modQC_run hm1; subst this
    split at hmatch
    · obtain ⟨u3, s4, hm2, hm3⟩ := run_bind_ok.mp hmatch
      have := modQC_run hm2; subst this
      have := modQC_run hm3; subst this
      exact ⟨rfl, rfl, rfl⟩
    · have := modQC_run hmatch; subst this
      exact ⟨rfl, rfl, rfl⟩
  · have := modQC_run h; subst this
    exact ⟨rfl, rfl, rfl⟩

theorem uncomputeLoop_gates {marked : List Nat} :
    ∀ (gs : List AGate) (unc : List Nat) (keepRev : List AGate) {r : List Nat × List AGate} {s s' : CState},
    (uncomputeLoop marked gs unc keepRev).run s = .ok (r, s') →
    ∃ extra, s'.qc.gates.toList = s.qc.gates.toList ++ extra ∧
      (∀ g ∈ extra, marked.contains g.target = true) ∧ s'.qc.qmap = s.qc.qmap ∧
      s'.qc.numQubits = s.qc.numQubits
  | [], unc, keepRev, r, s, s', h => by
    unfold uncomputeLoop at h
    obtain ⟨rfl, rfl⟩ := run_pure_ok.mp h
    exact ⟨[], by simp, by simp, rfl, rfl⟩
  | g :: gs, unc, keepRev, r, s, s', h => by
    unfold uncomputeLoop at h
    dsimp only at h
    rcases run_ite_ok.mp h with ⟨hc, h⟩ | ⟨_, h⟩
    · obtain ⟨b, s1, happ, h1⟩ := run_bind_ok.mp h
      have ha := appendG_run happ
      obtain ⟨g', _, hgw, hgates, _⟩ := ha.gates
      have rest : ∀ {s2 : CState}, s2.qc = s1.qc →
          (uncomputeLoop marked gs (setIns unc g.target) keepRev).run s2 = .ok (r, s') →
          ∃ extra, s'.qc.gates.toList = s.qc.gates.toList ++ extra ∧
            (∀ g ∈ extra, marked.contains g.target = true) ∧ s'.qc.qmap = s.qc.qmap ∧
            s'.qc.numQubits = s.qc.numQubits := by
        intro s2 hq h2
        obtain ⟨extra, e1, e2, e3, e4⟩ := uncomputeLoop_gates gs _ _ h2
        refine ⟨g' :: extra, ?_, ?_, ?_, ?_⟩
        · rw [e1, hq, hgates]; simp
        · intro x hx
          simp only [List.mem_cons] at hx
          rcases hx with rfl | hx
          · have : x.target = g.target := by unfold AGate.target; rw [hgw]
            rw [this]; exact hc
          · exact e2 x hx
        · rw [e3, hq]; exact ha.qmap
        · rw [e4, hq]; exact ha.nq
      rcases run_ite_ok.mp h1 with ⟨_, h1⟩ | ⟨_, h1⟩
      · obtain ⟨u, s2, hev, h2⟩ := run_bind_ok.mp h1
        have := event_run hev; subst this
        exact rest (s2 := { s1 with events := s1.events ++ ["staleReplay"] }) rfl h2
      · exact rest rfl h1
    · exact uncomputeLoop_gates gs _ _ h

theorem uncompute_gates {r : List Nat} {s s' : CState} (h : uncompute.run s = .ok (r, s')) :
    ∃ extra, s'.qc.gates.toList = s.qc.gates.toList ++ extra ∧
      (∀ g ∈ extra, g.target ∈ s.qc.marked) ∧ s'.qc.qmap = s.qc.qmap ∧
      s'.qc.numQubits = s.qc.numQubits := by
  unfold uncompute at h
  obtain ⟨qc, s1, hq, h1⟩ := run_bind_ok.mp h
  obtain ⟨rfl, rfl⟩ := getQC_run hq
  rcases run_ite_ok.mp h1 with ⟨_, h1⟩ | ⟨_, h1⟩
  · obtain ⟨_, rfl⟩ := run_pure_ok.mp h1
    exact ⟨[], by simp, by simp, rfl, rfl⟩
  · obtain ⟨x, s2, hloop, h2⟩ := run_bind_ok.mp h1
    obtain ⟨extra, e1, e2, e3, e4⟩ := uncomputeLoop_gates _ _ _ hloop
    obtain ⟨unc, keepRev⟩ := x
    dsimp only at h2
    obtain ⟨u, s3, hm, h3⟩ := run_bind_ok.mp h2
    obtain ⟨rfl, rfl⟩ := run_pure_ok.mp h3
    have := modQC_run hm; subst this
    exact ⟨extra, e1, fun g hg => by simpa using e2 g hg, e3, e4⟩

theorem uncomputeAllLoop_gates {keep alreadyFree : List Nat} {off : Nat} :
    ∀ (gs : List AGate) {u : Unit} {s s' : CState},
    (uncomputeAllLoop keep alreadyFree off gs).run s = .ok (u, s') →
    ∃ extra, s'.qc.gates.toList = s.qc.gates.toList ++ extra ∧
      (∀ g ∈ extra, keep.contains g.target = false) ∧ s'.qc.qmap = s.qc.qmap ∧
      s'.qc.numQubits = s.qc.numQubits
  | [], u, s, s', h => by
    unfold uncomputeAllLoop at h
    obtain ⟨_, rfl⟩ := run_pure_ok.mp h
    exact ⟨[], by simp, by simp, rfl, rfl⟩
  | g :: gs, u, s, s', h => by
    unfold uncomputeAllLoop at h
    dsimp only at h
    obtain ⟨qc, s1, hq, h1⟩ := run_bind_ok.mp h
    obtain ⟨rfl, rfl⟩ := getQC_run hq
    rcases run_ite_ok.mp h1 with ⟨_, h1⟩ | ⟨hskip, h1⟩
    · exact uncomputeAllLoop_gates gs h1
    · have hk : keep.contains g.target = false := by
        cases hc : keep.contains g.target with
        | false => rfl
        | true => exfalso; apply hskip; rw [hc]; simp
      have rest : ∀ {s2 : CState},
          StateT.run (do
            let b ← appendG g.cls g.wires (some (g.gid + off, g.gid))
            if b = true then do
              event "staleReplay"
              uncomputeAllLoop keep alreadyFree off gs
            else uncomputeAllLoop keep alreadyFree off gs : M Unit) s2 = .ok (u, s') →
          s2.qc.gates = s1.qc.gates → s2.qc.qmap = s1.qc.qmap →
          s2.qc.numQubits = s1.qc.numQubits →
          ∃ extra, s'.qc.gates.toList = s1.qc.gates.toList ++ extra ∧
            (∀ g ∈ extra, keep.contains g.target = false) ∧ s'.qc.qmap = s1.qc.qmap ∧
            s'.qc.numQubits = s1.qc.numQubits := by
        intro s2 h2 hg2 hq2 hn2
        obtain ⟨b, s3, happ, h3⟩ := run_bind_ok.mp h2
        have ha := appendG_run happ
        obtain ⟨g', _, hgw, hgates, _⟩ := ha.gates
        have fin : ∀ {s4 : CState}, s4.qc = s3.qc →
            (uncomputeAllLoop keep alreadyFree off gs).run s4 = .ok (u, s') →
            ∃ extra, s'.qc.gates.toList = s1.qc.gates.toList ++ extra ∧
              (∀ g ∈ extra, keep.contains g.target = false) ∧ s'.qc.qmap = s1.qc.qmap ∧
              s'.qc.numQubits = s1.qc.numQubits := by
          intro s4 hq4 h4
          obtain ⟨extra, e1, e2, e3, e4⟩ := uncomputeAllLoop_gates gs h4
          refine ⟨g' :: extra, ?_, ?_, ?_, ?_⟩
          · rw [e1, hq4, hgates, hg2]; simp
          · intro x hx
            simp only [List.mem_cons] at hx
            rcases hx with rfl | hx
            · have : x.target = g.target := by unfold AGate.target; rw [hgw]
              rw [this]; exact hk
            · exact e2 x hx
          · rw [e3, hq4, ha.qmap, hq2]
          · rw [e4, hq4, ha.nq, hn2]
        rcases run_ite_ok.mp h3 with ⟨_, h3⟩ | ⟨_, h3⟩
        · obtain ⟨u1, s4, hev, h4⟩ := run_bind_ok.mp h3
          have := event_run hev; subst this
          exact fin (s4 := { s3 with events := s3.events ++ ["staleReplay"] }) rfl h4
        · exact fin rfl h3
      rcases run_ite_ok.mp h1 with ⟨_, h1⟩ | ⟨_, h1⟩
      · obtain ⟨u1, s2, hm, h2⟩ := run_bind_ok.mp h1
        have := modQC_run hm; subst this
        exact rest h2 rfl rfl rfl
      · exact rest h1 rfl rfl rfl

theorem uncomputeAll_gates {keep : List Nat} {u : Unit} {s s' : CState}
    (h : (uncomputeAll keep).run s = .ok (u, s')) :
    ∃ extra, s'.qc.gates.toList = s.qc.gates.toList ++ extra ∧
      (∀ g ∈ extra, keep.contains g.target = false) ∧ s'.qc.qmap = s.qc.qmap ∧
      s'.qc.numQubits = s.qc.numQubits := by
  unfold uncomputeAll at h
  obtain ⟨qc, s1, hq, h1⟩ := run_bind_ok.mp h
  obtain ⟨rfl, rfl⟩ := getQC_run hq
  obtain ⟨u1, s2, hloop, hm⟩ := run_bind_ok.mp h1
  obtain ⟨extra, e1, e2, e3, e4⟩ := uncomputeAllLoop_gates _ hloop
  have := modQC_run hm; subst this
  exact ⟨extra, e1, e2, e3, e4⟩

theorem removeIdentities_run {u : Unit} {s s' : CState} (h : removeIdentities.run s = .ok (u, s')) :
    s'.qc.gates.toList = removeIdentitiesList s.qc.gates.toList ∧ s'.qc.qmap = s.qc.qmap ∧
      s'.qc.numQubits = s.qc.numQubits := by
  unfold removeIdentities at h
  obtain ⟨qc, s1, hq, h1⟩ := run_bind_ok.mp h
  obtain ⟨rfl, rfl⟩ := getQC_run hq
  have := modQC_run h1; subst this
  exact ⟨by simp, rfl, rfl⟩

theorem expqRemove_run {qs : List Nat} {u : Unit} {s s' : CState} (h : (expqRemove qs).run s = .ok (u, s')) :
    s'.qc = s.qc := by
  unfold expqRemove at h
  have := run_modify_ok.mp h; subst this
  rfl

/-- the environment built from the argument names and bits reads bit `i` for the `i`-th name -/
theorem envOf_zip : ∀ {inputs : List String} {x : List Bool} {i : Nat} {n : String},
    inputs.Nodup → inputs[i]? = some n → envOf (inputs.zip x) n = x.getD i false
  | [], _, _, _, _, h => by simp at h
  | m :: ms, [], i, n, _, _ => by simp [envOf]
  | m :: ms, b :: bs, 0, n, _, h => by
    have : m = n := by simpa using h
    subst this
    simp [envOf]
  | m :: ms, b :: bs, i + 1, n, hn, h => by
    obtain ⟨hm, hn'⟩ := List.nodup_cons.mp hn
    have h' : ms[i]? = some n := by simpa using h
    have hne : (m == n) = false := by
      have : n ∈ ms := (mem_of_getElem?' h').1
      simp only [beq_eq_false_iff_ne, ne_eq]
      rintro rfl; exact hm this
    have := envOf_zip (x := bs) hn' h'
    unfold envOf at this ⊢
    simp only [List.zip_cons_cons, List.find?_cons, hne]
    simpa using this

theorem initState_getD (x : List Bool) (N q : Nat) :
    (initState x N).getD q false = x.getD q false := by
  unfold initState
  simp only [List.getD_eq_getElem?_getD, List.getElem?_append]
  split
  · rfl
  · next h =>
    have h1 : x[q]? = none := by simp at h; simp [h]
    rw [h1]
    simp only [List.getElem?_replicate]
    split <;> rfl

theorem initState_length (x : List Bool) (N : Nat) (h : x.length ≤ N) : (initState x N).length = N := by
  unfold initState; simp; omega

/-- the top-level expression is a bare argument symbol: copied into a new qubit (`CX`) when the
defined name is a return name `_ret…`, aliased otherwise -/
theorem topSym_sem {inputs : List String} {ρ : Env} {σ0 : FState} {r : String} (amb : Amb inputs σ0 r)
    {n : String} (hn : n ∈ inputs) {iret : Nat} {s t : CState}
    (h : (compileSymbol n (some r)).run s = .ok (iret, t)) (hp : Pre inputs ρ σ0 s)
    (hinp : s.inputs = inputs) :
    cur σ0 t iret = ρ n ∧ t.qc.marked = s.qc.marked := by
  obtain ⟨i, hi⟩ := idx_of_mem hn
  have hbi := hp.bind i n hi
  have hil := (mem_of_getElem?' hi).2
  have fin : ∀ {a : Nat} {s' : CState}, StateT.run (do
      let qc ← getQC
      match dictGet? qc.qmap n with
        | some i => pure i
        | none => throw s!"CompilerException: Symbol not found in qc: {n}" : M Nat) s = .ok (a, s') →
      cur σ0 s' a = ρ n ∧ s'.qc.marked = s.qc.marked := by
    intro a s' h
    obtain ⟨qc, s1, hq, h⟩ := run_bind_ok.mp h
    obtain ⟨rfl, rfl⟩ := getQC_run hq
    split at h
    · next j hj =>
      obtain ⟨rfl, rfl⟩ := run_pure_ok.mp h
      rw [hbi] at hj
      cases hj
      exact ⟨hp.vals i n hi, rfl⟩
    · exact (run_throw_ok.mp h).elim
  unfold compileSymbol at h
  dsimp only at h
  split at h
  · rw [run_get_bind_ok] at h
    split at h
    · obtain ⟨a0, s2, hadd, h2⟩ := run_bind_ok.mp h
      obtain ⟨ha0, hs2⟩ := addQubit_run hadd
      obtain ⟨stA, _, _, _, _⟩ := addQubit_ok (B := (· = r)) hadd hp.good (Or.inl rfl)
      obtain ⟨q, s3, hl, h3⟩ := run_bind_ok.mp h2
      obtain ⟨rfl, hq, _⟩ := lookup_ok hl stA.good
      obtain ⟨u, s4, hcx, hpure⟩ := run_bind_ok.mp h3
      obtain ⟨rfl, rfl⟩ := run_pure_ok.mp hpure
      have ac := cx_run hcx
      have hqi : q = i := by
        rw [hs2] at hq
        change dictGet? (dictSet s.qc.qmap r s.qc.numQubits) n = some q at hq
        rw [dictGet?_dictSet_ne (amb.fresh n hn).1, hbi] at hq
        exact (Option.some.inj hq).symm
      subst hqi
      have hc3 : cur σ0 s3 = cur σ0 s := by unfold cur; rw [hs2]
      refine ⟨?_, ?_⟩
      · rw [ac.cur_eq rfl σ0, hc3, ha0, zero_of_good amb hp.good hp.nin _ (Nat.le_refl _)]
        simp only [List.all_cons, List.all_nil, Bool.and_true, Bool.false_bne]
        exact hp.vals q n hi
      · rw [ac.marked, hs2]
    · next hc =>
      exfalso; apply hc
      rw [hinp]; simpa using hn
  · exact fin h

/-- the expression of the single definition, compiled with `sym = some r` -/
theorem topExpr_sem {inputs : List String} {ρ : Env} {σ0 : FState} {r : String} (amb : Amb inputs σ0 r)
    {e : BExp} (hov : overInputs inputs e = true) (htl : treeLike e = true) {iret : Nat} {s t : CState}
    (h : (compileExpr e none (some r)).run s = .ok (iret, t)) (hp : Pre inputs ρ σ0 s)
    (hex : s.expq = []) (hmk : s.qc.marked = []) (hinp : s.inputs = inputs) :
    cur σ0 t iret = e.eval ρ ∧ iret ∉ t.qc.marked := by
  cases hs : isSym e with
  | true =>
    cases e with
    | sym n =>
      unfold compileExpr at h
      obtain ⟨hv, hm⟩ := topSym_sem amb (by simpa [overInputs] using hov) h hp hinp
      exact ⟨hv, by rw [hm, hmk]; exact List.not_mem_nil⟩
    | _ => simp [isSym] at hs
  | false =>
    obtain ⟨sem1, hv1, _⟩ := exprSem (ρ := ρ) amb e hov (distinctB_iff.mp htl) none (some r) h hp
      (by intro p hp'; rw [hex] at hp'; cases hp') (by intro d hd; cases hd) (by intro y hy; cases hy; rfl)
      (by intro hs'; rw [hs] at hs'; cases hs')
    refine ⟨(hv1 rfl).2, fun hm => ?_⟩
    rcases sem1.marks iret hm with h | h
    · rw [hmk] at h; cases h
    · exact h.2 rfl rfl

/-- **one definition `r = e` in the fragment**, with or without final uncomputation (`uncompute_all`
never replays a gate whose target is kept, and the qubit of a requested return name is kept): after
every successful run of `compile` the qubit mapped to `r` ends with the value of `e`, on every input -/
theorem compile_single_sem {inputs : List String} {r : String} {e : BExp} {rets : List String}
    {unc : Bool} {cs : List Nat} {s : CState}
    (h : (compile inputs [(r, e)] (some rets) unc).run { choices := cs } = .ok ((), s))
    (hr : unc = true → r ∈ rets)
    (hnd : inputs.Nodup) (hfresh : ∀ n ∈ inputs, n ≠ r ∧ reservedName n = false)
    (hov : overInputs inputs e = true) (htl : treeLike e = true)
    (x : List Bool) (hx : x.length = inputs.length) :
    ∃ q, dictGet? s.qc.qmap r = some q ∧
      (runClassical s.qc.gates.toList (initState x s.qc.numQubits)).getD q false =
        e.eval (envOf (inputs.zip x)) := by
  have hgs : Good s := (compile_ok h).1
  unfold compile at h
  obtain ⟨u0, s0, hmod, h1⟩ := run_bind_ok.mp h
  have := run_modify_ok.mp hmod; subst this
  have hg0 : Good { choices := cs, inputs := inputs } := good_init cs inputs
  obtain ⟨u1, s1, hin, h2⟩ := run_bind_ok.mp h1
  obtain ⟨st1, hn1, _, hpos⟩ := addInputs_ok inputs hin hg0
  obtain ⟨ha1, hf1, hm1, hk1⟩ := addInputs_scratch inputs hin
  obtain ⟨hga1, hex1, hinp1⟩ := addInputs_quiet inputs hin
  obtain ⟨u2, s2, hdefs, h3⟩ := run_bind_ok.mp h2
  obtain ⟨st2, _⟩ := compileDefs_ok (B := (· = r)) (retBits := some rets) (doUnc := unc) [(r, e)] hdefs st1.good
    (fun p hp => by simp at hp; rw [hp])
  have hg2 := st2.good
  obtain ⟨u3, s3, hrem, h4⟩ := run_bind_ok.mp h3
  obtain ⟨hrg, hrq, hrn⟩ := removeIdentities_run hrem
  have hfin : ∃ extra, s.qc.gates.toList = s3.qc.gates.toList ++ extra ∧
      (∀ g ∈ extra, unc = true ∧ (rets.filterMap (dictGet? s3.qc.qmap)).contains g.target = false) ∧
      s.qc.qmap = s3.qc.qmap ∧ s.qc.numQubits = s3.qc.numQubits := by
    dsimp only at h4
    rcases run_ite_ok.mp h4 with ⟨hc, h4⟩ | ⟨_, h4⟩
    · obtain ⟨qc, s4, hq, h5⟩ := run_bind_ok.mp h4
      obtain ⟨rfl, rfl⟩ := getQC_run hq
      obtain ⟨extra, e1, e2, e3, e4⟩ := uncomputeAll_gates h5
      exact ⟨extra, e1, fun g hg => ⟨hc, e2 g hg⟩, e3, e4⟩
    · obtain ⟨_, rfl⟩ := run_pure_ok.mp h4
      exact ⟨[], by simp, by simp, rfl, rfl⟩
  obtain ⟨extra', f1, f2, f3, f4⟩ := hfin
  -- ambient facts for this input
  have hn1' : s1.qc.numQubits = inputs.length := by rw [hn1]; simp
  have hnin2 : inputs.length ≤ s2.qc.numQubits := by rw [← hn1']; exact st2.nq_le
  let σ0 : FState := toF (initState x s.qc.numQubits)
  have amb : Amb inputs σ0 r := by
    refine ⟨hfresh, fun q hq => ?_⟩
    show (initState x s.qc.numQubits).getD q false = false
    rw [initState_getD]
    have : x[q]? = none := by simp; omega
    simp [List.getD_eq_getElem?_getD, this]
  have hp1 : Pre inputs (envOf (inputs.zip x)) σ0 s1 := by
    refine ⟨st1.good, hf1, Nat.le_of_eq hn1'.symm, ⟨?_, ?_, ?_, ?_⟩, ?_, ?_⟩
    · rw [ha1]; intro a ha; cases ha
    · rw [hf1]; intro a ha; cases ha
    · rw [hm1]; intro a ha; cases ha
    · rw [hk1]; intro a ha; cases ha
    · intro i n hi
      have := hpos hnd (fun m hm => (hfresh m hm).2) i n hi
      simpa using this
    · intro i n hi
      show runF s1.qc.gates.toList σ0 i = _
      rw [hga1]
      show (initState x s.qc.numQubits).getD i false = _
      rw [initState_getD, envOf_zip hnd hi]
  -- the statement loop
  unfold compileDefs at hdefs
  obtain ⟨iret, t1, he, k1⟩ := run_bind_ok.mp hdefs
  obtain ⟨u40, t1', hrs, k1'⟩ := run_bind_ok.mp k1
  obtain ⟨u4, t2, hset, k2⟩ := run_bind_ok.mp k1'
  obtain ⟨u5, t3, hmap, k3⟩ := run_bind_ok.mp k2
  -- the defined name is a requested return bit (or there is no final uncomputation): ancillas are released inline
  have hinl : inlineUncompute (some rets) unc r = true := by
    unfold inlineUncompute
    cases unc with
    | false => rfl
    | true => simpa using hr rfl
  rw [if_pos hinl] at k3
  obtain ⟨uncd, t4, hunc, k4⟩ := run_bind_ok.mp k3
  obtain ⟨u6, t5, hrm, k5⟩ := run_bind_ok.mp k4
  unfold compileDefs at k5
  obtain ⟨_, rfl⟩ := run_pure_ok.mp k5
  obtain ⟨q1, hlt⟩ := exprSpec (B := (· = r)) e none (some r) he st1.good (by intro d hd; cases hd)
    (by intro y hy; cases hy; rfl)
  obtain ⟨hval, hnm⟩ := topExpr_sem (ρ := envOf (inputs.zip x)) amb hov htl he hp1 hex1 hm1 hinp1
  have q1' : Step (· = r) t1 t1' := expqRemoveSymbol_ok hrs q1.good
  have hqc1' : t1'.qc = t1.qc := by
    unfold expqRemoveSymbol at hrs
    have := run_modify_ok.mp hrs; subst this; rfl
  have q2 : Step (· = r) t1' t2 := expqSet_ok hset q1'.good (Nat.lt_of_lt_of_le hlt q1'.nq_le)
  obtain ⟨hqc2', _⟩ := expqSet_run hset
  have hqc2 : t2.qc = t1.qc := hqc2'.trans hqc1'
  obtain ⟨q3, hkey⟩ := mapQubit_ok (B := (· = r)) hmap q2.good
    (Nat.lt_of_lt_of_le hlt (q1'.trans q2).nq_le) rfl (by intro hp; cases hp)
  obtain ⟨hg3, hm3, _⟩ := mapQubit_run hmap
  obtain ⟨extra, e1, e2, e3, e4⟩ := uncompute_gates hunc
  have hqc5 := expqRemove_run hrm
  have hcur : cur σ0 s2 iret = e.eval (envOf (inputs.zip x)) := by
    unfold cur
    rw [hqc5, e1, runF_append, untargeted_runF]
    · rw [hg3, hqc2]; exact hval
    · intro g hg hlast
      have ht : g.target = iret := by unfold AGate.target; rw [hlast]; rfl
      have := e2 g hg
      rw [ht, hm3, hqc2] at this
      exact hnm this
  have hkey3 : dictGet? s3.qc.qmap r = some iret := by rw [hrq, hqc5, e3]; exact hkey
  refine ⟨iret, by rw [f3]; exact hkey3, ?_⟩
  rw [f1, hrg, runClassical_append, removeIdentitiesList_sound _ (fun g hg => (hg2.gates_ok g hg).2.1),
    ← runClassical_append]
  have hN : s.qc.numQubits = s2.qc.numQubits := f4.trans hrn
  have hlen : (initState x s.qc.numQubits).length = s.qc.numQubits :=
    initState_length x _ (by rw [hN, hx]; exact hnin2)
  have hspec := congrFun (runF_spec (s2.qc.gates.toList ++ extra') (initState x s.qc.numQubits) (by
    intro g hg w hw
    rw [hlen]
    rcases List.mem_append.mp hg with hg | hg
    · rw [hN]; exact (hg2.gates_ok g hg).2.2.1 w hw
    · exact (hgs.gates_ok g (by rw [f1]; exact List.mem_append_right _ hg)).2.2.1 w hw)) iret
  refine hspec.trans ?_
  rw [runF_append, untargeted_runF]
  · exact hcur
  · intro g hg hlast
    have ht : g.target = iret := by unfold AGate.target; rw [hlast]; rfl
    obtain ⟨hu, hk⟩ := f2 g hg
    rw [ht] at hk
    have : iret ∈ rets.filterMap (dictGet? s3.qc.qmap) := List.mem_filterMap.mpr ⟨r, hr hu, hkey3⟩
    have : (rets.filterMap (dictGet? s3.qc.qmap)).contains iret = true := by simpa using this
    rw [hk] at this; cases this

end QV.Compiler
