import QV.Model.Circuit
import QV.Model.Compiler
/-! Lemmas on the classical semantics of X/CX/MCX gate lists and on the validators. -/
namespace QV
open QV.Compiler

/-! ### flipping a qubit -/

theorem flip_getD (s : BState) (i j : Nat) :
    (s.flip i).getD j false = if i = j ∧ j < s.length then !(s.getD j false) else s.getD j false := by
  unfold BState.flip
  simp only [List.getD_eq_getElem?_getD, List.getElem?_modify]
  by_cases hj : j < s.length
  · simp [hj]
  · have : s[j]? = none := by simp at hj; simp [hj]
    simp [this, hj]

theorem flip_length (s : BState) (i : Nat) : (s.flip i).length = s.length := by
  unfold BState.flip; simp

theorem flip_comm (s : BState) (i j : Nat) : (s.flip i).flip j = (s.flip j).flip i := by
  apply List.ext_getElem?
  intro k
  unfold BState.flip
  simp only [List.getElem?_modify]
  cases s[k]? with
  | none => rfl
  | some a => by_cases h1 : i = k <;> by_cases h2 : j = k <;> simp [h1, h2]

/-- the controls of a gate read the same values after an unrelated qubit was flipped -/
theorem controls_flip (cs : List Nat) (s : BState) (r : Nat) (h : ¬ cs.contains r) :
    cs.all (fun c => (s.flip r).getD c false) = cs.all (fun c => s.getD c false) := by
  induction cs with
  | nil => rfl
  | cons c cs ih =>
    simp only [List.contains_cons, Bool.or_eq_true, not_or] at h
    simp only [List.all_cons]
    rw [ih (by simpa using h.2), flip_getD]
    have : ¬ (r = c) := by intro e; apply h.1; simp [e]
    simp [this]

/-- a gate whose controls do not include `r` commutes with flipping `r` -/
theorem applyClassical_flip (g : AGate) (s : BState) (r : Nat)
    (h : ¬ g.wires.dropLast.contains r) :
    g.applyClassical (s.flip r) = (g.applyClassical s).flip r := by
  unfold AGate.applyClassical
  cases g.wires.getLast? with
  | none => rfl
  | some t =>
    simp only [controls_flip _ s r h]
    split
    · exact flip_comm s r t
    · rfl

/-- **flip commutation**: if `r` is never a control, running the circuit commutes with flipping `r` -/
theorem runClassical_flip (gs : List AGate) (r : Nat) (h : retNeverControl gs r = true) (s : BState) :
    runClassical gs (s.flip r) = (runClassical gs s).flip r := by
  unfold runClassical
  induction gs generalizing s with
  | nil => rfl
  | cons g gs ih =>
    simp only [retNeverControl, List.all_cons, Bool.and_eq_true] at h
    simp only [List.foldl_cons]
    have hg := h.1
    by_cases hm : g.cls.isMCXLike = true
    · simp only [hm, if_true]
      have : ¬ g.wires.dropLast.contains r := by simpa [hm] using hg
      rw [applyClassical_flip g s r this]
      exact ih (by simpa [retNeverControl] using h.2) _
    · simp only [hm]
      exact ih (by simpa [retNeverControl] using h.2) _

/-! ### enumeration of inputs -/

theorem mem_allBits (x : List Bool) : x ∈ allBits x.length := by
  induction x with
  | nil => simp [allBits]
  | cons b bs ih =>
    simp only [List.length_cons, allBits, List.mem_flatMap]
    exact ⟨bs, ih, by cases b <;> simp⟩

theorem mem_allBits' {x : List Bool} {n : Nat} (h : x.length = n) : x ∈ allBits n := h ▸ mem_allBits x

theorem allBits_length {n : Nat} {x : List Bool} (h : x ∈ allBits n) : x.length = n := by
  induction n generalizing x with
  | zero => simp [allBits] at h; simp [h]
  | succ n ih =>
    simp only [allBits, List.mem_flatMap] at h
    obtain ⟨l, hl, hx⟩ := h
    have := ih hl
    simp at hx
    rcases hx with rfl | rfl <;> simp [this]

/-! ### setting the output qubit -/

theorem set_eq_flip_of_false (s : BState) (r : Nat) (h : s.getD r false = false) :
    s.set r true = s.flip r := by
  apply List.ext_getElem?
  intro k
  unfold BState.flip
  simp only [List.getElem?_set, List.getElem?_modify]
  by_cases hk : r = k
  · subst hk
    by_cases hl : r < s.length
    · have hv : s[r] = false := by
        simpa [List.getD_eq_getElem?_getD, List.getElem?_eq_getElem hl] using h
      simp [hl, List.getElem?_eq_getElem hl, hv]
    · have : s[r]? = none := by simp at hl; simp [hl]
      simp [hl, this]
  · simp [hk]

end QV

namespace QV
open QV.Compiler

/-! ### involutions, reverse replay, remove_identities -/

theorem flip_flip (s : BState) (i : Nat) : (s.flip i).flip i = s := by
  unfold BState.flip
  rw [List.modify_modify_eq]
  apply List.ext_getElem?
  intro k
  simp only [List.getElem?_modify]
  cases s[k]? with
  | none => rfl
  | some a => by_cases h : i = k <;> simp [h]

theorem last_not_in_dropLast {l : List Nat} (hn : l.Nodup) {t : Nat} (ht : l.getLast? = some t) :
    ¬ l.dropLast.contains t := by
  have hne : l ≠ [] := by intro h; subst h; simp at ht
  have hl : l.getLast hne = t := by
    rw [List.getLast?_eq_some_getLast hne] at ht; simpa using ht
  have := List.dropLast_concat_getLast hne
  rw [hl] at this
  rw [← this] at hn
  have := (List.nodup_append.mp hn).2.2
  intro hc
  have hc' : t ∈ l.dropLast := by simpa using hc
  exact this t hc' t (by simp) rfl

/-- an X/CX/MCX gate on distinct wires is an involution on basis states -/
theorem applyClassical_involutive (g : AGate) (hn : g.wires.Nodup) (s : BState) :
    g.applyClassical (g.applyClassical s) = s := by
  unfold AGate.applyClassical
  cases ht : g.wires.getLast? with
  | none => rfl
  | some t =>
    simp only
    have hnc := last_not_in_dropLast hn ht
    by_cases hc : g.wires.dropLast.all (fun c => s.getD c false) = true
    · simp only [hc, if_true, controls_flip _ s t hnc, flip_flip]
    · simp only [hc]; simp only [Bool.false_eq_true, if_false, hc]

/-- one step of `runClassical` -/
def stepClassical (s : BState) (g : AGate) : BState :=
  if g.cls.isMCXLike then g.applyClassical s else s

theorem runClassical_cons (g : AGate) (gs : List AGate) (s : BState) :
    runClassical (g :: gs) s = runClassical gs (stepClassical s g) := rfl

theorem runClassical_append (a b : List AGate) (s : BState) :
    runClassical (a ++ b) s = runClassical b (runClassical a s) := by
  unfold runClassical; rw [List.foldl_append]

theorem stepClassical_involutive (g : AGate) (hn : g.wires.Nodup) (s : BState) :
    stepClassical (stepClassical s g) g = s := by
  unfold stepClassical
  split
  · exact applyClassical_involutive g hn s
  · rfl

/-- **reverse replay undoes**: a list of gates on distinct wires followed by its reverse is the identity -/
theorem runClassical_reverse_undo (gs : List AGate) (h : ∀ g ∈ gs, g.wires.Nodup) (s : BState) :
    runClassical (gs ++ gs.reverse) s = s := by
  induction gs generalizing s with
  | nil => rfl
  | cons g gs ih =>
    have e : g :: gs ++ (g :: gs).reverse = g :: ((gs ++ gs.reverse) ++ [g]) := by simp
    rw [e, runClassical_cons, runClassical_append, ih (fun g' hg' => h g' (List.mem_cons_of_mem _ hg'))]
    show runClassical [g] (stepClassical s g) = s
    exact stepClassical_involutive g (h g (List.mem_cons_self)) s

theorem stepClassical_nop (g : AGate) (h : g.cls.isNop = true) (s : BState) : stepClassical s g = s := by
  unfold stepClassical
  have : g.cls.isMCXLike = false := by
    cases hc : g.cls <;> simp_all [GClass.isNop, GClass.isMCXLike]
  simp [this]

end QV

namespace QV
open QV.Compiler

theorem popBarrier_run (res : List AGate) (s : BState) :
    runClassical (popBarrier res).reverse s = runClassical res.reverse s := by
  unfold popBarrier
  cases res with
  | nil => rfl
  | cons r rs =>
    simp only
    split
    · next hb =>
      have hn : r.cls.isNop = true := by
        have : r.cls = .Barrier := by simpa using hb
        simp [this, GClass.isNop]
      rw [List.reverse_cons, runClassical_append]
      show _ = runClassical [r] _
      rw [runClassical_cons, stepClassical_nop r hn]; rfl
    · rfl

/-- **`remove_identities` preserves the classical action** of a list of X/CX/MCX gates on
distinct wires (and barriers): adjacent identical gates, also across one barrier, cancel. -/
theorem removeIdentitiesLoop_sound : ∀ (fuel : Nat) (gs res : List AGate),
    gs.length < fuel → (∀ g ∈ gs, g.wires.Nodup) →
    ∀ s, runClassical (removeIdentitiesLoop fuel gs res) s = runClassical (res.reverse ++ gs) s := by
  intro fuel
  induction fuel with
  | zero => intro gs res hl; omega
  | succ fuel ih =>
    intro gs res hl hwf s
    cases gs with
    | nil => simp [removeIdentitiesLoop]
    | cons g rest =>
      simp only [removeIdentitiesLoop]
      have hg : g.wires.Nodup := hwf g List.mem_cons_self
      cases rest with
      | nil =>
        simp only
        have := ih [] (g :: res) (by simp at hl ⊢; omega) (by simp) s
        simpa using this
      | cons g1 rest1 =>
        simp only
        by_cases e1 : (g.cls.isSelfInverse && g == g1) = true
        · simp only [e1, if_true]
          have eg : g = g1 := by
            simp only [Bool.and_eq_true] at e1; simpa using e1.2
          have h1 := ih rest1 (popBarrier res) (by simp at hl ⊢; omega)
            (fun g' hg' => hwf g' (by simp [hg'])) s
          rw [h1, runClassical_append, runClassical_append, popBarrier_run,
            runClassical_cons, runClassical_cons, ← eg, stepClassical_involutive g hg]
        · simp only [e1, Bool.false_eq_true, if_false]
          cases rest1 with
          | nil =>
            simp only
            have := ih [g1] (g :: res) (by simp at hl ⊢; omega)
              (fun g' hg' => hwf g' (by simp at hg'; simp [hg'])) s
            simpa using this
          | cons g2 rest2 =>
            simp only
            by_cases e2 : (g.cls.isSelfInverse && g == g2 && g1.cls == GClass.Barrier) = true
            · simp only [e2, if_true]
              have e2' := e2
              simp only [Bool.and_eq_true] at e2'
              have eg : g = g2 := by simpa using e2'.1.2
              have hb : g1.cls.isNop = true := by
                have : g1.cls = .Barrier := by simpa using e2'.2
                simp [this, GClass.isNop]
              have h1 := ih rest2 (popBarrier res) (by simp at hl ⊢; omega)
                (fun g' hg' => hwf g' (by simp [hg'])) s
              rw [h1, runClassical_append, runClassical_append, popBarrier_run,
                runClassical_cons, runClassical_cons, runClassical_cons, stepClassical_nop g1 hb,
                ← eg, stepClassical_involutive g hg]
            · simp only [e2, Bool.false_eq_true, if_false]
              have := ih (g1 :: g2 :: rest2) (g :: res) (by simp at hl ⊢; omega)
                (fun g' hg' => hwf g' (by simp at hg'; simp [hg'])) s
              simpa using this

theorem removeIdentitiesList_sound (gs : List AGate)
    (hwf : ∀ g ∈ gs, g.wires.Nodup) (s : BState) :
    runClassical (removeIdentitiesList gs) s = runClassical gs s := by
  have := removeIdentitiesLoop_sound (gs.length + 1) gs [] (by omega) hwf s
  simpa [removeIdentitiesList] using this

end QV
