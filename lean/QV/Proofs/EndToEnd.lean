import QV.Props.C02
import QV.Props.C03
import QV.Props.C06
import QV.Model.Grover
import QV.Proofs.Algo
/-!
# From the compiler model to the algorithm theorems (C15 / C16 end to end)

`QV.C15.C15_full` and `QV.C16.C16_full` are about **every** oracle gate list that satisfies a
clean-xor-oracle hypothesis (`QV.Grover.CleanXorOracle`, `QV.Amp.XorOracle`, `QV.Amp.FunOracle`).
`QV.C06.C06_fragment_partial` proves, for the model of the compiler, that every successful
compilation of a definition of the decidable class `inXorFragment` is a `QV.C06.XorOracle`.
This file connects the two:

* `cleanXorOracle_of_xorOracle` / `algoXorOracle_of_xorOracle` / `funOracle_of_xorOracle` –
  conversions between the three oracle predicates (same gate type `AGate`, same `runClassical`;
  the basis states differ only in how they are written: `(initState x nq).set q y`,
  `oracleState nq q x y`, `x ++ embed (nq - n) (q - n) y`);
* `compile_oracles` – every successful run of `compile … (some rets) true` on a definition of
  `inXorFragment` gives, for the qubit `q` of the return name, all three predicates for the function
  `predOf inputs defs r` the definition denotes (from `C06_fragment_partial`,
  `C02.compile_gates_wellformed`, `C02.compile_bookkeeping`);
* `compile_funOracle` – every successful run of `compile` (any definitions, any return list,
  uncomputation on or off) whose gates never target an argument qubit is a Simon black box
  (`FunOracle`) for the map "everything the circuit leaves on the non-argument qubits";
* `compile_oracles_general` – the same on the general class `inGeneralClean inputs defs [r]` (several definitions,
  named intermediates, cache hits, re-binding, constants) from `C06_general_partial`, under its two decidable side
  conditions on the compiled circuit (output qubit not an argument qubit, never a control);
* `compile_funOracle_general`, `outReg`, `period_outReg` – several return bits: on `inGeneralClean inputs defs rets`
  the compiled gate list is a `FunOracle` whose `F x` is the return bits on their qubits and zero elsewhere
  (`C03_general_partial` + `C02_general_partial`), and the period of the denoted function is the period of `F`;
* `runCheck` / `retsCheck` – Bool-valued checks of a run's result, for the kernel-evaluated examples;
* `sortNat_eq` – `sortNat` (a `List.mergeSort`, which the kernel cannot evaluate) is insertion
  sort; used to evaluate `compile` on concrete programs with `And` / `Or` in the non-vacuity
  examples of `Props/C15.lean`, `Props/C16.lean`.
-/
namespace QV.EndToEnd
open QV QV.Compiler

/-- the predicate a definition list denotes at the name `r`, as a function of the argument bits
(argument `i` = `inputs[i]` = qubit `i`) -/
abbrev predOf (inputs : List String) (defs : List (String × BExp)) (r : String) : List Bool → Bool :=
  fun x => envOf (evalDefs defs (inputs.zip x)) r

/-! ## `sortNat` is insertion sort (kernel-evaluable) -/

def ins (a : Nat) : List Nat → List Nat
  | [] => [a]
  | b :: l => if a ≤ b then a :: b :: l else b :: ins a l

def isort : List Nat → List Nat
  | [] => []
  | a :: l => ins a (isort l)

theorem ins_perm (a : Nat) (l : List Nat) : (ins a l).Perm (a :: l) := by
  induction l with
  | nil => exact List.Perm.refl _
  | cons b l ih =>
    unfold ins; split
    · exact List.Perm.refl _
    · exact (List.Perm.cons b ih).trans (List.Perm.swap a b l)

theorem isort_perm (l : List Nat) : (isort l).Perm l := by
  induction l with
  | nil => exact List.Perm.refl _
  | cons a l ih => exact (ins_perm a _).trans (List.Perm.cons a ih)

theorem ins_sorted (a : Nat) (l : List Nat) (h : l.Pairwise (· ≤ ·)) : (ins a l).Pairwise (· ≤ ·) := by
  induction l with
  | nil => simp [ins]
  | cons b l ih =>
    rw [List.pairwise_cons] at h
    unfold ins; split
    · rename_i hab
      refine List.pairwise_cons.mpr ⟨?_, List.pairwise_cons.mpr h⟩
      intro c hc
      rcases List.mem_cons.mp hc with rfl | hc
      · exact hab
      · exact Nat.le_trans hab (h.1 c hc)
    · rename_i hab
      refine List.pairwise_cons.mpr ⟨?_, ih h.2⟩
      intro c hc
      rcases List.mem_cons.mp ((ins_perm a l).subset hc) with rfl | hc
      · omega
      · exact h.1 c hc

theorem isort_sorted (l : List Nat) : (isort l).Pairwise (· ≤ ·) := by
  induction l with
  | nil => simp [isort]
  | cons a l ih => exact ins_sorted a _ ih

/-- the sorted permutation is unique -/
theorem sortNat_eq (l : List Nat) : sortNat l = isort l := by
  apply List.Perm.eq_of_pairwise (le := (· ≤ ·))
  · intro a b _ _ h1 h2; omega
  · have := List.pairwise_mergeSort (le := fun a b : Nat => decide (a ≤ b))
      (by intro a b c; simp; omega) (by intro a b; simp; omega) l
    simpa [sortNat] using this
  · exact isort_sorted l
  · exact (List.mergeSort_perm _ _).trans (isort_perm l).symm

/-! ## Conversions between the oracle predicates -/

/-- `CleanXorOracle` only looks at `f` on bit lists of the search width -/
theorem cleanXorOracle_congr {n nq ret : Nat} {og : List AGate} {f f' : BState → Bool}
    (h : Grover.CleanXorOracle n nq ret og f) (hff : ∀ x : BState, x.length = n → f x = f' x) :
    Grover.CleanXorOracle n nq ret og f' := by
  obtain ⟨h1, h2, h3, h4, h5, h6⟩ := h
  refine ⟨h1, h2, h3, h4, h5, ?_⟩
  intro x hx r
  rw [← hff x hx]
  exact h6 x hx r

/-- **C06's `XorOracle` ⇒ C15's `CleanXorOracle`** (the basis states `(initState x nq).set q y` and
`oracleState nq q x y` are the same list) -/
theorem cleanXorOracle_of_xorOracle {gs : List AGate} {nq n q : Nat} {f : List Bool → Bool}
    (hge : n ≤ q) (hlt : q < nq)
    (hwf : ∀ g ∈ gs, g.cls.isMCXLike = true ∧ g.wires.Nodup ∧ (∀ w ∈ g.wires, w < nq))
    (hX : C06.XorOracle gs nq n q f) : Grover.CleanXorOracle n nq q gs f := by
  refine ⟨hge, hlt, ?_, fun g hg => (hwf g hg).2.2, fun g hg => (hwf g hg).2.1, ?_⟩
  · simp only [allClassical, List.all_eq_true, Bool.or_eq_true]
    exact fun g hg => Or.inl (hwf g hg).1
  · intro x hx r
    exact hX x r hx

theorem initState_set (x : List Bool) (nq q : Nat) (y : Bool) (hq : x.length ≤ q) :
    (initState x nq).set q y = x ++ Amp.embed (nq - x.length) (q - x.length) y := by
  unfold initState Amp.embed Amp.zeros
  rw [List.set_append_right _ _ hq]

/-- **C06's `XorOracle` ⇒ C16's `XorOracle`** on the `m = nq - n` non-argument qubits with the result
qubit at offset `k = q - n` -/
theorem algoXorOracle_of_xorOracle {gs : List AGate} {nq n q : Nat} {f : List Bool → Bool}
    (hge : n ≤ q)
    (hwf : ∀ g ∈ gs, g.cls.isMCXLike = true ∧ g.wires.Nodup ∧ (∀ w ∈ g.wires, w < nq))
    (hX : C06.XorOracle gs nq n q f) : Amp.XorOracle gs n (nq - n) (q - n) f := by
  constructor
  · simp only [Amp.wfOracle, Amp.wfGate, List.all_eq_true, Bool.or_eq_true, Bool.and_eq_true,
      decide_eq_true_eq]
    exact fun g hg => Or.inl ⟨(hwf g hg).1, (hwf g hg).2.1⟩
  · intro x r hx
    have := hX x r hx
    rw [initState_set x nq q r (by omega), initState_set x nq q _ (by omega), hx] at this
    exact this

theorem embed_false (m k : Nat) : Amp.embed m k false = Amp.zeros m := by
  have := Amp.embed_set_false m k false
  unfold Amp.embed at this ⊢
  rw [List.set_set] at this
  exact this

theorem embed_inj {m k : Nat} (hk : k < m) {a b : Bool} (h : Amp.embed m k a = Amp.embed m k b) : a = b := by
  have := congrArg (fun l => l.getD k false) h
  rwa [Amp.embed_getD m k _ hk, Amp.embed_getD m k _ hk] at this

/-- a clean xor-oracle of a one-bit function is a Simon black box for `x ↦ (0…, f x, …0)` -/
theorem funOracle_of_xorOracle {gs : List AGate} {n m k : Nat} {f : List Bool → Bool}
    (hO : Amp.XorOracle gs n m k f) : Amp.FunOracle gs n m (fun x => Amp.embed m k (f x)) := by
  refine ⟨hO.1, fun x hx => ⟨Amp.embed_length m k _, ?_⟩⟩
  have := hO.2 x false hx
  rw [embed_false] at this
  simpa using this

/-- two-to-one with period `s` for the one-bit function = `Period` of the black box it embeds into -/
theorem period_embed {n m k : Nat} (hk : k < m) {f : List Bool → Bool} {s : List Bool}
    (hs : s.length = n) (hz : s ≠ Amp.zeros n)
    (hp : ∀ x x' : List Bool, x.length = n → x'.length = n → (f x = f x' ↔ (x' = x ∨ x' = Amp.xorBits x s))) :
    Amp.Period n (fun x => Amp.embed m k (f x)) s := by
  refine ⟨hs, hz, fun x x' hx hx' => ?_⟩
  rw [← hp x x' hx hx']
  exact ⟨fun h => embed_inj hk h, fun h => by simp only [h]⟩

/-! ## Every compiled circuit: the structural clauses -/

theorem compile_wf {inputs : List String} {defs : List (String × BExp)} {ret : Option (List String)}
    {unc : Bool} {cs : List Nat} {s : CState}
    (h : (compile inputs defs ret unc).run { choices := cs } = .ok ((), s)) :
    ∀ g ∈ s.qc.gates.toList, g.cls.isMCXLike = true ∧ g.wires.Nodup ∧ (∀ w ∈ g.wires, w < s.qc.numQubits) :=
  fun g hg =>
    have := C02.compile_gates_wellformed inputs defs ret unc cs s h g hg
    ⟨this.1, this.2.1, this.2.2.1⟩

theorem take_of_getD {l x : List Bool} (hl : x.length ≤ l.length)
    (h : ∀ i, i < x.length → l.getD i false = x.getD i false) : l.take x.length = x := by
  apply List.ext_getElem
  · simp; omega
  · intro i h1 h2
    have := h i h2
    simp only [List.getD_eq_getElem?_getD] at this
    rw [List.getElem?_eq_getElem (by omega), List.getElem?_eq_getElem h2] at this
    simpa using this

/-- **Simon black box from any compilation** (any definition list, any return list, uncomputation on or
off): if no gate targets an argument qubit, the compiled gate list is a `FunOracle` for the map
`x ↦` everything the circuit leaves on the `nq - n` non-argument qubits (return bits **and** scratch) -/
theorem compile_funOracle {inputs : List String} {defs : List (String × BExp)} {ret : Option (List String)}
    {unc : Bool} {cs : List Nat} {s : CState}
    (h : (compile inputs defs ret unc).run { choices := cs } = .ok ((), s))
    (htg : ∀ g ∈ s.qc.gates.toList, inputs.length ≤ g.target) :
    Amp.FunOracle s.qc.gates.toList inputs.length (s.qc.numQubits - inputs.length)
      (fun x => (runClassical s.qc.gates.toList (initState x s.qc.numQubits)).drop inputs.length) := by
  have hn : inputs.length ≤ s.qc.numQubits := (compile_ok h).2.1
  constructor
  · simp only [Amp.wfOracle, Amp.wfGate, List.all_eq_true, Bool.or_eq_true, Bool.and_eq_true,
      decide_eq_true_eq]
    exact fun g hg => Or.inl ⟨(compile_wf h g hg).1, (compile_wf h g hg).2.1⟩
  · intro x hx
    have hlen : (runClassical s.qc.gates.toList (initState x s.qc.numQubits)).length = s.qc.numQubits := by
      rw [C06.runClassical_length', initState_length x _ (by omega)]
    refine ⟨by simp [hlen], ?_⟩
    have hz : x ++ Amp.zeros (s.qc.numQubits - inputs.length) = initState x s.qc.numQubits := by
      simp [initState, Amp.zeros, hx]
    rw [hz]
    have htake : (runClassical s.qc.gates.toList (initState x s.qc.numQubits)).take x.length = x := by
      apply take_of_getD (by omega)
      intro i hi
      rw [C03.untargeted_qubit_unchanged _ i _ _, initState_getD]
      intro g hg hlast
      have : g.target = i := by unfold AGate.target; rw [hlast]; rfl
      have := htg g hg
      omega
    conv => lhs; rw [← List.take_append_drop x.length (runClassical s.qc.gates.toList (initState x s.qc.numQubits))]
    rw [htake, hx]

/-! ## The bridge on the proved fragment -/

/-- **Bridge.**  For every definition of the class `inXorFragment` and every successful run of the compiler
model with uncomputation on, the gate list is – on the qubit `q` the return name is mapped to – a
`CleanXorOracle` (hypothesis of `C15_full`), an `Amp.XorOracle` (hypothesis of the Deutsch-Jozsa and
Bernstein-Vazirani parts of `C16_full`) and, as a one-bit black box, a `FunOracle` (Simon) of the predicate
`predOf inputs defs r` the definition denotes; no gate targets an argument qubit. -/
theorem compile_oracles (inputs : List String) (defs : List (String × BExp)) (rets : List String)
    (choices : List Nat) (s : CState)
    (hf : inXorFragment inputs defs rets = true)
    (h : (compile inputs defs (some rets) true).run { choices := choices } = .ok ((), s)) :
    ∀ r ∈ rets, ∃ q, dictGet? s.qc.qmap r = some q ∧ inputs.length ≤ q ∧ q < s.qc.numQubits ∧
      Grover.CleanXorOracle inputs.length s.qc.numQubits q s.qc.gates.toList (predOf inputs defs r) ∧
      Amp.XorOracle s.qc.gates.toList inputs.length (s.qc.numQubits - inputs.length) (q - inputs.length)
        (predOf inputs defs r) ∧
      Amp.FunOracle s.qc.gates.toList inputs.length (s.qc.numQubits - inputs.length)
        (fun x => Amp.embed (s.qc.numQubits - inputs.length) (q - inputs.length) (predOf inputs defs r x)) := by
  intro r hr
  obtain ⟨q, hq, hge, _, hX⟩ := C06.C06_fragment_partial inputs defs rets choices s hf h r hr
  have hlt : q < s.qc.numQubits :=
    (C02.compile_bookkeeping inputs defs (some rets) true choices s h).2.2.2.1 _ (dictGet?_mem hq)
  have hA := algoXorOracle_of_xorOracle hge (compile_wf h) hX
  exact ⟨q, hq, hge, hlt, cleanXorOracle_of_xorOracle hge hlt (compile_wf h) hX, hA, funOracle_of_xorOracle hA⟩

/-! ## The bridge on the general class (`C06_general_partial`, `C03_general_partial`, `C02_general_partial`) -/

/-- **Bridge, general class.**  Definition lists of `inGeneralClean inputs defs [r]` (several definitions, named
intermediates first, shared sub-expressions and cache hits, re-binding, constants; the return bit `r` a new name
defined once, last), final uncomputation on, any successful run of the compiler model.  If the return name is
mapped to the qubit `q`, `q` is not an argument qubit and the compiled gate list never uses `q` as a control
(`retNeverControl`, decidable on the compiled gate list – the two side conditions of `C06_general_partial`), the
gate list is a `CleanXorOracle`, an `Amp.XorOracle` and a one-bit `FunOracle` of the predicate the list denotes
at `r`. -/
theorem compile_oracles_general (inputs : List String) (defs : List (String × BExp)) (r : String)
    (choices : List Nat) (s : CState) (q : Nat)
    (hf : inGeneralClean inputs defs [r] = true)
    (h : (compile inputs defs (some [r]) true).run { choices := choices } = .ok ((), s))
    (hq : dictGet? s.qc.qmap r = some q) (hge : inputs.length ≤ q)
    (hnc : retNeverControl s.qc.gates.toList q = true) :
    q < s.qc.numQubits ∧
      Grover.CleanXorOracle inputs.length s.qc.numQubits q s.qc.gates.toList (predOf inputs defs r) ∧
      Amp.XorOracle s.qc.gates.toList inputs.length (s.qc.numQubits - inputs.length) (q - inputs.length)
        (predOf inputs defs r) ∧
      Amp.FunOracle s.qc.gates.toList inputs.length (s.qc.numQubits - inputs.length)
        (fun x => Amp.embed (s.qc.numQubits - inputs.length) (q - inputs.length) (predOf inputs defs r x)) := by
  have hX := C06.C06_general_partial inputs defs r choices s q hf h hq hge hnc
  have hlt : q < s.qc.numQubits :=
    (C02.compile_bookkeeping inputs defs (some [r]) true choices s h).2.2.2.1 _ (dictGet?_mem hq)
  have hA := algoXorOracle_of_xorOracle hge (compile_wf h) hX
  exact ⟨hlt, cleanXorOracle_of_xorOracle hge hlt (compile_wf h) hX, hA, funOracle_of_xorOracle hA⟩

/-! ### several return bits: the output register -/

/-- what a clean compilation of a definition list with return names `rets` leaves on the `nq - n` non-argument
qubits for the argument bits `x`: qubit `n + j` holds the value of a return name mapped to it (any of them: names
sharing a qubit have the same value on every input), every other qubit is zero -/
def outReg (inputs : List String) (defs : List (String × BExp)) (rets : List String)
    (qmap : List (String × Nat)) (nq : Nat) (x : List Bool) : List Bool :=
  (List.range (nq - inputs.length)).map fun j =>
    match rets.find? (fun r => dictGet? qmap r == some (inputs.length + j)) with
    | some r => predOf inputs defs r x
    | none => false

theorem outReg_length (inputs : List String) (defs : List (String × BExp)) (rets : List String)
    (qmap : List (String × Nat)) (nq : Nat) (x : List Bool) :
    (outReg inputs defs rets qmap nq x).length = nq - inputs.length := by
  simp [outReg]

theorem outReg_getD (inputs : List String) (defs : List (String × BExp)) (rets : List String)
    (qmap : List (String × Nat)) (nq : Nat) (x : List Bool) (j : Nat) (hj : j < nq - inputs.length) :
    (outReg inputs defs rets qmap nq x).getD j false =
      match rets.find? (fun r => dictGet? qmap r == some (inputs.length + j)) with
      | some r => predOf inputs defs r x
      | none => false := by
  simp [outReg, List.getD_eq_getElem?_getD, hj]

/-- **Simon black box on the general class, any number of return bits**: every successful run of the compiler
model on a definition list of `inGeneralClean inputs defs rets` (uncomputation on) is a `FunOracle` whose `F x` is
`outReg …  x`: the return bits on their qubits, zero on every other non-argument qubit (`C03_general_partial` for
the argument and scratch qubits, `C02_general_partial` for the return qubits). -/
theorem compile_funOracle_general (inputs : List String) (defs : List (String × BExp)) (rets : List String)
    (choices : List Nat) (s : CState)
    (hf : inGeneralClean inputs defs rets = true)
    (h : (compile inputs defs (some rets) true).run { choices := choices } = .ok ((), s)) :
    Amp.FunOracle s.qc.gates.toList inputs.length (s.qc.numQubits - inputs.length)
      (outReg inputs defs rets s.qc.qmap s.qc.numQubits) := by
  have hn : inputs.length ≤ s.qc.numQubits := (compile_ok h).2.1
  have hClean := C03.C03_general_partial inputs defs rets choices s
    (by simp only [inGeneralCleanClass, hf, Bool.true_or]) h
  have hCorr := C02.C02_general_partial inputs defs rets true choices s
    (by
      simp only [inGeneralClean, Bool.and_eq_true] at hf
      simp only [inGeneralClass, hf.1, Bool.true_or]) h
  constructor
  · simp only [Amp.wfOracle, Amp.wfGate, List.all_eq_true, Bool.or_eq_true, Bool.and_eq_true,
      decide_eq_true_eq]
    exact fun g hg => Or.inl ⟨(compile_wf h g hg).1, (compile_wf h g hg).2.1⟩
  · intro x hx
    refine ⟨outReg_length _ _ _ _ _ _, ?_⟩
    have hz : x ++ Amp.zeros (s.qc.numQubits - inputs.length) = initState x s.qc.numQubits := by
      simp [initState, Amp.zeros, hx]
    rw [hz]
    have hlen : (runClassical s.qc.gates.toList (initState x s.qc.numQubits)).length = s.qc.numQubits := by
      rw [C06.runClassical_length', initState_length x _ (by omega)]
    apply C06.ext_getD
    · rw [hlen, List.length_append, outReg_length, hx]; omega
    · intro i
      by_cases hi : i < s.qc.numQubits
      · have hc := hClean x hx i hi
        by_cases hin : i < inputs.length
        · rw [hc.1 hin]
          simp [List.getD_eq_getElem?_getD, List.getElem?_append_left (show i < x.length by omega)]
        · have hin' : inputs.length ≤ i := by omega
          have hj : i - inputs.length < s.qc.numQubits - inputs.length := by omega
          have happ : (x ++ outReg inputs defs rets s.qc.qmap s.qc.numQubits x).getD i false
              = (outReg inputs defs rets s.qc.qmap s.qc.numQubits x).getD (i - inputs.length) false := by
            simp only [List.getD_eq_getElem?_getD]
            rw [List.getElem?_append_right (by omega), hx]
          rw [happ, outReg_getD _ _ _ _ _ _ _ hj]
          have hii : inputs.length + (i - inputs.length) = i := by omega
          rw [hii]
          cases hfind : rets.find? (fun r => dictGet? s.qc.qmap r == some i) with
          | none =>
            simp only
            apply hc.2 hin'
            intro hmem
            obtain ⟨r, hr, hrq⟩ := List.mem_filterMap.mp hmem
            have := List.find?_eq_none.mp hfind r hr
            simp [hrq] at this
          | some r =>
            simp only
            have hr : r ∈ rets := List.mem_of_find?_eq_some hfind
            have hrq : dictGet? s.qc.qmap r = some i := by
              have := List.find?_some hfind
              simpa using this
            obtain ⟨q', hq', hv⟩ := hCorr x hx r hr
            rw [hrq] at hq'
            cases hq'
            exact hv
      · have h1 : (runClassical s.qc.gates.toList (initState x s.qc.numQubits))[i]? = none := by
          rw [List.getElem?_eq_none_iff, hlen]; omega
        have h2 : (x ++ outReg inputs defs rets s.qc.qmap s.qc.numQubits x)[i]? = none := by
          rw [List.getElem?_eq_none_iff, List.length_append, outReg_length, hx]; omega
        simp [List.getD_eq_getElem?_getD, h1, h2]

/-- if every return name sits on a non-argument qubit, two argument lists give the same output register iff they
give the same values of all return bits (return names may share a qubit: `Correct` forces equal values then) -/
theorem outReg_eq_iff {inputs : List String} {defs : List (String × BExp)} {rets : List String}
    {gates : List AGate} {qmap : List (String × Nat)} {nq : Nat}
    (hCorr : C02.Correct gates nq qmap inputs defs rets)
    (hall : ∀ r ∈ rets, ∃ q, dictGet? qmap r = some q ∧ inputs.length ≤ q ∧ q < nq)
    (x x' : List Bool) (hx : x.length = inputs.length) (hx' : x'.length = inputs.length) :
    outReg inputs defs rets qmap nq x = outReg inputs defs rets qmap nq x' ↔
      rets.map (fun r => predOf inputs defs r x) = rets.map (fun r => predOf inputs defs r x') := by
  -- the value a return name has is what the register shows on its qubit
  have key : ∀ (y : List Bool), y.length = inputs.length → ∀ r ∈ rets, ∀ q, dictGet? qmap r = some q →
      inputs.length ≤ q → q < nq →
      (outReg inputs defs rets qmap nq y).getD (q - inputs.length) false = predOf inputs defs r y := by
    intro y hy r hr q hq hge hlt
    rw [outReg_getD _ _ _ _ _ _ _ (by omega)]
    have hii : inputs.length + (q - inputs.length) = q := by omega
    rw [hii]
    cases hfind : rets.find? (fun r => dictGet? qmap r == some q) with
    | none =>
      have := List.find?_eq_none.mp hfind r hr
      simp [hq] at this
    | some r' =>
      simp only
      have hr' : r' ∈ rets := List.mem_of_find?_eq_some hfind
      have hrq : dictGet? qmap r' = some q := by
        have := List.find?_some hfind
        simpa using this
      obtain ⟨q1, hq1, hv1⟩ := hCorr y hy r hr
      obtain ⟨q2, hq2, hv2⟩ := hCorr y hy r' hr'
      rw [hq] at hq1; rw [hrq] at hq2
      cases hq1; cases hq2
      show envOf (evalDefs defs (inputs.zip y)) r' = envOf (evalDefs defs (inputs.zip y)) r
      rw [← hv1, ← hv2]
  constructor
  · intro he
    apply List.map_inj_left.mpr
    intro r hr
    obtain ⟨q, hq, hge, hlt⟩ := hall r hr
    rw [← key x hx r hr q hq hge hlt, ← key x' hx' r hr q hq hge hlt, he]
  · intro he
    have hv : ∀ r ∈ rets, predOf inputs defs r x = predOf inputs defs r x' := List.map_inj_left.mp he
    unfold outReg
    apply List.map_congr_left
    intro j _
    cases hfind : rets.find? (fun r => dictGet? qmap r == some (inputs.length + j)) with
    | none => rfl
    | some r' => exact hv r' (List.mem_of_find?_eq_some hfind)

/-- `Period` of the denoted several-bit function ⇒ `Period` of the output register of its compilation -/
theorem period_outReg {inputs : List String} {defs : List (String × BExp)} {rets : List String}
    {gates : List AGate} {qmap : List (String × Nat)} {nq : Nat}
    (hCorr : C02.Correct gates nq qmap inputs defs rets)
    (hall : ∀ r ∈ rets, ∃ q, dictGet? qmap r = some q ∧ inputs.length ≤ q ∧ q < nq)
    {sec : List Bool}
    (hP : Amp.Period inputs.length (fun x => rets.map (fun r => predOf inputs defs r x)) sec) :
    Amp.Period inputs.length (outReg inputs defs rets qmap nq) sec := by
  refine ⟨hP.1, hP.2.1, fun x x' hx hx' => ?_⟩
  rw [outReg_eq_iff hCorr hall x x' hx hx']
  exact hP.2.2 x x' hx hx'

/-! ## Checks on the result of a run (for kernel-evaluated examples) -/

/-- the run succeeded, `name` is mapped to `q`, and `q` is never a control of the compiled gate list -/
def runCheck (res : Except String (Unit × CState)) (name : String) (q : Nat) : Bool :=
  match res with
  | .ok (_, s) => dictGet? s.qc.qmap name == some q && retNeverControl s.qc.gates.toList q
  | .error _ => false

theorem runCheck_ok {res : Except String (Unit × CState)} {name : String} {q : Nat}
    (h : runCheck res name q = true) :
    ∃ s, res = .ok ((), s) ∧ dictGet? s.qc.qmap name = some q ∧ retNeverControl s.qc.gates.toList q = true := by
  match res, h with
  | .ok ((), s), h =>
    simp only [runCheck, Bool.and_eq_true, beq_iff_eq] at h
    exact ⟨s, rfl, h.1, h.2⟩

/-- the run succeeded and every name of `rets` is mapped to a qubit that is not one of the first `n` -/
def retsCheck (res : Except String (Unit × CState)) (rets : List String) (n : Nat) : Bool :=
  match res with
  | .ok (_, s) => rets.all fun r => match dictGet? s.qc.qmap r with
    | some q => decide (n ≤ q)
    | none => false
  | .error _ => false

theorem retsCheck_ok {res : Except String (Unit × CState)} {rets : List String} {n : Nat}
    (h : retsCheck res rets n = true) :
    ∃ s, res = .ok ((), s) ∧ ∀ r ∈ rets, ∃ q, dictGet? s.qc.qmap r = some q ∧ n ≤ q := by
  match res, h with
  | .ok ((), s), h =>
    simp only [retsCheck, List.all_eq_true] at h
    refine ⟨s, rfl, fun r hr => ?_⟩
    have := h r hr
    cases hq : dictGet? s.qc.qmap r with
    | none => rw [hq] at this; cases this
    | some q => rw [hq] at this; exact ⟨q, rfl, by simpa using this⟩

end QV.EndToEnd
