import QV.Model.Decopt
import QV.Proofs.Circuit
import QV.Proofs.Decompiler
/-!
# Lemmas for C12 (circuit boolean optimizer)

* an abstract gate semantics on amplitude functions (`SemLaws`): X/CX/MCX-like gates act as the
  permutation of basis states given by `applyClassical`, `I` and no-ops act as the identity,
  every other gate is arbitrary (but acts on `n`-qubit states); `SameUnitary n A B` = the two
  gate lists send every state to the same state under every such semantics;
* two lists of classical gates with the same classical action are `SameUnitary`;
* `SameUnitary` is a congruence for `P ++ · ++ T`;
* the invariant of the splice loop.
-/
namespace QV.Decopt
open QV QV.Decompiler QV.Compiler

/-! ## abstract semantics -/

/-- a state: one amplitude (of any type) per basis state -/
abbrev Amp (α : Type) := BState → α

/-- apply the gates in order -/
def runSem {α : Type} (sem : AGate → Amp α → Amp α) (gs : List AGate) (ψ : Amp α) : Amp α :=
  gs.foldl (fun ψ g => sem g ψ) ψ

/-- what is assumed of the meaning of gates on `n` qubits: X/CX/CCX/MCX/MCtrl(X) permute the
basis states as `applyClassical` says (they are involutions, so `(P ψ)(b) = ψ(P b)`), `I`,
barriers and no-ops do nothing, and every gate maps states that agree on the `n`-qubit basis
states to states that agree there (the amplitudes of bit lists of another length are junk) -/
structure SemLaws {α : Type} (n : Nat) (sem : AGate → Amp α → Amp α) : Prop where
  perm : ∀ g, g.cls.isMCXLike = true → ∀ ψ b, sem g ψ b = ψ (g.applyClassical b)
  skip : ∀ g, (g.cls.isNop = true ∨ g.cls = .I) → ∀ ψ, sem g ψ = ψ
  loc : ∀ g ψ φ, (∀ b, b.length = n → ψ b = φ b) → ∀ b, b.length = n → sem g ψ b = sem g φ b

/-- the two gate lists implement the same operation on `n` qubits, whatever the non-classical
gates mean -/
def SameUnitary (n : Nat) (A B : List AGate) : Prop :=
  ∀ (α : Type) (sem : AGate → Amp α → Amp α), SemLaws n sem →
    ∀ ψ b, b.length = n → runSem sem A ψ b = runSem sem B ψ b

/-- a gate the decompiler may put into a section, or a no-op -/
def Cish (g : AGate) : Prop := g.cls.isMCXLike = true ∨ g.cls.isNop = true ∨ g.cls = .I

theorem runSem_cons {α : Type} (sem : AGate → Amp α → Amp α) (g : AGate) (gs : List AGate) (ψ : Amp α) :
    runSem sem (g :: gs) ψ = runSem sem gs (sem g ψ) := rfl

theorem runSem_append {α : Type} (sem : AGate → Amp α → Amp α) (a b : List AGate) (ψ : Amp α) :
    runSem sem (a ++ b) ψ = runSem sem b (runSem sem a ψ) := by
  unfold runSem; rw [List.foldl_append]

theorem runSem_loc {α : Type} {n : Nat} {sem : AGate → Amp α → Amp α} (hs : SemLaws n sem)
    (S : List AGate) : ∀ ψ φ : Amp α, (∀ b, b.length = n → ψ b = φ b) →
      ∀ b, b.length = n → runSem sem S ψ b = runSem sem S φ b := by
  induction S with
  | nil => intro ψ φ h b hb; exact h b hb
  | cons g S ih =>
    intro ψ φ h b hb
    rw [runSem_cons, runSem_cons]
    exact ih _ _ (hs.loc g ψ φ h) b hb

theorem isMCXLike_not_nop {c : GClass} (h : c.isMCXLike = true) : c.isNop = false ∧ c ≠ .I := by
  cases c <;> simp_all [GClass.isMCXLike, GClass.isNop]

/-- a list of classical gates acts on amplitudes by the inverse permutation of its classical
action, which is the classical action of the reversed list -/
theorem runSem_cish {α : Type} {n : Nat} {sem : AGate → Amp α → Amp α} (hs : SemLaws n sem)
    (A : List AGate) (hA : ∀ g ∈ A, Cish g) :
    ∀ (ψ : Amp α) (b : BState), runSem sem A ψ b = ψ (runClassical A.reverse b) := by
  induction A with
  | nil => intro ψ b; rfl
  | cons g A ih =>
    intro ψ b
    rw [runSem_cons, ih (fun x hx => hA x (List.mem_cons_of_mem _ hx)), List.reverse_cons,
      runClassical_append]
    show sem g ψ (runClassical A.reverse b) = ψ (stepClassical (runClassical A.reverse b) g)
    unfold stepClassical
    by_cases hm : g.cls.isMCXLike = true
    · rw [hs.perm g hm, if_pos hm]
    · rw [if_neg hm]
      rcases hA g (List.mem_cons_self) with h | h
      · exact absurd h hm
      · rw [hs.skip g h]

theorem applyClassical_length (g : AGate) (s : BState) : (g.applyClassical s).length = s.length := by
  unfold AGate.applyClassical
  cases g.wires.getLast? with
  | none => rfl
  | some t =>
    simp only
    split
    · exact flip_length s t
    · rfl

theorem runClassical_length (gs : List AGate) : ∀ s : BState, (runClassical gs s).length = s.length := by
  induction gs with
  | nil => intro s; rfl
  | cons g gs ih =>
    intro s
    rw [runClassical_cons, ih]
    unfold stepClassical
    split
    · exact applyClassical_length g s
    · rfl

theorem runClassical_undo' (gs : List AGate) (h : ∀ g ∈ gs, g.wires.Nodup) (s : BState) :
    runClassical gs (runClassical gs.reverse s) = s := by
  have := runClassical_reverse_undo gs.reverse (fun g hg => h g (List.mem_reverse.mp hg)) s
  rwa [List.reverse_reverse, runClassical_append] at this

/-- equal classical actions have equal inverses -/
theorem runClassical_reverse_eq {n : Nat} (A B : List AGate) (hA : ∀ g ∈ A, g.wires.Nodup)
    (hB : ∀ g ∈ B, g.wires.Nodup)
    (h : ∀ st : BState, st.length = n → runClassical A st = runClassical B st) :
    ∀ b : BState, b.length = n → runClassical A.reverse b = runClassical B.reverse b := by
  intro b hb
  have hl : (runClassical B.reverse b).length = n := by rw [runClassical_length]; exact hb
  have e1 : runClassical A (runClassical B.reverse b) = b := by
    rw [h _ hl]; exact runClassical_undo' B hB b
  have e2 := runClassical_reverse_undo A hA (runClassical B.reverse b)
  rw [runClassical_append, e1] at e2
  exact e2

/-- two lists of classical gates on distinct wires with the same classical action on every
basis state of `n` qubits implement the same operation -/
theorem sameUnitary_of_classical {n : Nat} (A B : List AGate) (hA : ∀ g ∈ A, Cish g ∧ g.wires.Nodup)
    (hB : ∀ g ∈ B, Cish g ∧ g.wires.Nodup)
    (h : ∀ st : BState, st.length = n → runClassical A st = runClassical B st) :
    SameUnitary n A B := by
  intro α sem hs ψ b hb
  rw [runSem_cish hs A (fun g hg => (hA g hg).1), runSem_cish hs B (fun g hg => (hB g hg).1),
    runClassical_reverse_eq A B (fun g hg => (hA g hg).2) (fun g hg => (hB g hg).2) h b hb]

theorem SameUnitary.refl (n : Nat) (A : List AGate) : SameUnitary n A A := fun _ _ _ _ _ _ => rfl

theorem SameUnitary.trans {n : Nat} {A B C : List AGate} (h1 : SameUnitary n A B)
    (h2 : SameUnitary n B C) : SameUnitary n A C := fun α sem hs ψ b hb =>
  (h1 α sem hs ψ b hb).trans (h2 α sem hs ψ b hb)

/-- replacing a part of a circuit by an equivalent part gives an equivalent circuit -/
theorem SameUnitary.congr {n : Nat} {A B : List AGate} (h : SameUnitary n A B) (P T : List AGate) :
    SameUnitary n (P ++ A ++ T) (P ++ B ++ T) := by
  intro α sem hs ψ b hb
  rw [runSem_append, runSem_append, runSem_append, runSem_append]
  exact runSem_loc hs T _ _ (fun b' hb' => h α sem hs (runSem sem P ψ) b' hb') b hb

/-! ## the splice -/

theorem splice_eq (P R T new : List AGate) :
    splice (P ++ R ++ T) P.length (P.length + R.length) new = P ++ new ++ T := by
  unfold splice
  have e1 : (P ++ R ++ T).take P.length = P := by
    rw [List.append_assoc, List.take_left']; rfl
  have e2 : (P ++ R ++ T).drop (max P.length (P.length + R.length)) = T := by
    rw [Nat.max_eq_right (Nat.le_add_right _ _)]
    have : P.length + R.length = (P ++ R).length := by simp
    rw [this, List.drop_left']; rfl
  rw [e1, e2]

/-- the gates of the range `[start, stop)` -/
def rangeOf (gs : List AGate) (start stop : Nat) : List AGate := (gs.drop start).take (stop - start)

theorem take_split (gs : List AGate) (start stop : Nat) (h1 : start ≤ stop) :
    gs.take stop = gs.take start ++ rangeOf gs start stop := by
  unfold rangeOf
  have : stop = start + (stop - start) := by omega
  conv => lhs; rw [this]
  rw [List.take_add]

theorem rangeOf_length (gs : List AGate) (start stop : Nat) (h1 : start ≤ stop) (h2 : stop ≤ gs.length) :
    (rangeOf gs start stop).length = stop - start := by
  unfold rangeOf; simp; omega

/-- index facts about one reported section (from `QV.Decompiler.SecGood`) -/
structure RangeGood (q : Quirks) (gs : List AGate) (s : Section) : Prop where
  lt : s.start < s.stop
  hi : s.stop ≤ gs.length
  inside : ∀ g ∈ rangeOf gs s.start s.stop, cl q g = true ∨ np g = true
  gates_eq : s.gates = (rangeOf gs s.start s.stop).filter (cl q)

theorem rangeGood_of_secGood {q : Quirks} {gs : List AGate} {s : Section} (h : SecGood q 0 gs s) :
    RangeGood q gs s := by
  refine ⟨h.lt, by simpa using h.hi, ?_, by simpa [rangeOf] using h.gates_eq⟩
  intro g hg
  unfold rangeOf at hg
  obtain ⟨i, hi, rfl⟩ := List.mem_iff_getElem.mp hg
  have hlen : i < s.stop - s.start := by
    have := hi; simp at this; omega
  obtain ⟨g', hg', hc⟩ := h.inside (s.start + i) (by omega) (by omega)
  have : ((gs.drop s.start).take (s.stop - s.start))[i]? = gs[s.start + i]? := by
    rw [List.getElem?_take, if_pos hlen, List.getElem?_drop]
  rw [List.getElem?_eq_getElem hi] at this
  simp only [Nat.sub_zero] at hg'
  rw [hg'] at this
  cases this
  exact hc

theorem cl_cish {q : Quirks} {g : AGate} (h : cl q g = true) : Cish g := by
  unfold cl at h; rw [isZB_eq] at h
  unfold Cish
  cases hc : g.cls <;> simp_all [GClass.isMCXLike, GClass.isNop]

theorem np_cish {g : AGate} (h : np g = true) : Cish g := by
  unfold np at h; rw [isNopClass_eq] at h
  exact Or.inr (Or.inl h)

theorem np_not_mcx {g : AGate} (h : np g = true) : g.cls.isMCXLike = false := by
  unfold np at h; rw [isNopClass_eq] at h
  cases hc : g.cls <;> simp_all [GClass.isMCXLike, GClass.isNop]

/-- the classical action of a range is that of its classical gates -/
theorem runClassical_filter_cl (q : Quirks) (R : List AGate)
    (h : ∀ g ∈ R, cl q g = true ∨ np g = true) :
    ∀ st : BState, runClassical (R.filter (cl q)) st = runClassical R st := by
  induction R with
  | nil => intro st; rfl
  | cons g R ih =>
    intro st
    have ihR := ih (fun x hx => h x (List.mem_cons_of_mem _ hx))
    by_cases hc : cl q g = true
    · rw [List.filter_cons_of_pos hc, runClassical_cons, runClassical_cons, ihR]
    · rw [List.filter_cons_of_neg hc, runClassical_cons, ihR]
      rcases h g (List.mem_cons_self) with h' | h'
      · exact absurd h' hc
      · unfold stepClassical; rw [np_not_mcx h']; rfl

/-- what has to hold of a re-synthesised section for the splice to be harmless -/
def SectionOK (n : Nat) (old new : List AGate) : Prop :=
  (∀ g ∈ new, (g.cls.isMCXLike = true ∨ g.cls.isNop = true) ∧ g.wires.Nodup) ∧
  ∀ st : BState, st.length = n → runClassical new st = runClassical old st

theorem sectionOKb_sound {n : Nat} {old new : List AGate} (h : sectionOKb n old new = true) :
    SectionOK n old new := by
  simp only [sectionOKb, Bool.and_eq_true, List.all_eq_true, Bool.or_eq_true, decide_eq_true_eq,
    beq_iff_eq] at h
  exact ⟨fun g hg => h.1 g hg, fun st hst => h.2 st (mem_allBits' hst)⟩

theorem sectionOKb_complete {n : Nat} {old new : List AGate} (h : SectionOK n old new) :
    sectionOKb n old new = true := by
  simp only [sectionOKb, Bool.and_eq_true, List.all_eq_true, Bool.or_eq_true, decide_eq_true_eq,
    beq_iff_eq]
  exact ⟨fun g hg => h.1 g hg, fun st hst => h.2 st (allBits_length hst)⟩

/-- one accepted splice: the new section is equivalent to the old range -/
theorem range_sameUnitary {q : Quirks} {n : Nat} {gs : List AGate} {s : Section} {new : List AGate}
    (hwf : ∀ g ∈ gs, g.wires.Nodup) (hg : RangeGood q gs s) (hok : SectionOK n s.gates new) :
    SameUnitary n new (rangeOf gs s.start s.stop) := by
  refine sameUnitary_of_classical new _ ?_ ?_ ?_
  · intro g hgn
    obtain ⟨h1, h2⟩ := hok.1 g hgn
    exact ⟨h1.elim Or.inl (fun h => Or.inr (Or.inl h)), h2⟩
  · intro g hgr
    refine ⟨(hg.inside g hgr).elim cl_cish np_cish, hwf g ?_⟩
    unfold rangeOf at hgr
    exact List.mem_of_mem_drop (List.mem_of_mem_take hgr)
  · intro st hst
    rw [hok.2 st hst, hg.gates_eq, runClassical_filter_cl q _ hg.inside]

/-- **invariant of the splice loop**, for any relation `E` between gate lists that is transitive
and a congruence for `P ++ · ++ T`.  `l` is the list of sections still to process, in the order
of the loop (decreasing positions); everything below `B` is still the original prefix. -/
theorem spliceLoop_inv (q : Quirks) (n : Nat) (resyn : Section → Except String SecResult)
    (gs : List AGate) (E : List AGate → List AGate → Prop)
    (Etrans : ∀ {a b c}, E a b → E b c → E a c)
    (Econgr : ∀ {a b}, E a b → ∀ P T, E (P ++ a ++ T) (P ++ b ++ T)) :
    ∀ (l : List Section) (acc out : List AGate) (B : Nat) (tail : List AGate),
      l.Pairwise (fun x y => y.stop < x.start) →
      (∀ s ∈ l, s.stop ≤ B) → B ≤ gs.length →
      acc = gs.take B ++ tail →
      (∀ s ∈ l, RangeGood q gs s) →
      (∀ s ∈ l, ∀ r, resyn s = .ok r → accept q n s r = true → E r.gates (rangeOf gs s.start s.stop)) →
      E acc gs → acc.length ≤ gs.length →
      spliceLoop q n resyn l acc = .ok out →
      E out gs ∧ out.length ≤ gs.length := by
  intro l
  induction l with
  | nil =>
    intro acc out B tail _ _ _ _ _ _ heq hlen h
    simp only [spliceLoop] at h
    cases h
    exact ⟨heq, hlen⟩
  | cons s rest ih =>
    intro acc out B tail hpw hB hBlen hacc hgood hok heq hlen h
    have hpw' := (List.pairwise_cons.mp hpw)
    have hgs := hgood s (List.mem_cons_self)
    have hrest_good : ∀ s' ∈ rest, RangeGood q gs s' := fun s' hs' => hgood s' (List.mem_cons_of_mem _ hs')
    have hrest_ok : ∀ s' ∈ rest, ∀ r, resyn s' = .ok r → accept q n s' r = true →
        E r.gates (rangeOf gs s'.start s'.stop) := fun s' hs' => hok s' (List.mem_cons_of_mem _ hs')
    simp only [spliceLoop] at h
    cases hr : resyn s with
    | error e => rw [hr] at h; cases h
    | ok r =>
      rw [hr] at h
      simp only at h
      by_cases ha : accept q n s r = true
      · rw [if_pos ha] at h
        -- shape of `acc` around the range of `s`
        have hsB : s.stop ≤ B := hB s (List.mem_cons_self)
        have hstart_le : s.start ≤ s.stop := Nat.le_of_lt hgs.lt
        have hP : (gs.take s.start).length = s.start := by
          rw [List.length_take]; have := hgs.hi; omega
        have hR : (rangeOf gs s.start s.stop).length = s.stop - s.start :=
          rangeOf_length gs s.start s.stop hstart_le hgs.hi
        have hsplit : gs.take B = gs.take s.start ++ rangeOf gs s.start s.stop ++ (gs.take B).drop s.stop := by
          have e : gs.take s.stop = (gs.take B).take s.stop := by
            rw [List.take_take, Nat.min_eq_left hsB]
          rw [← take_split gs s.start s.stop hstart_le, e, List.take_append_drop]
        have hacc' : acc = gs.take s.start ++ rangeOf gs s.start s.stop ++ ((gs.take B).drop s.stop ++ tail) := by
          rw [hacc]
          conv => lhs; rw [hsplit]
          simp only [List.append_assoc]
        have hsp : splice acc s.start s.stop r.gates =
            gs.take s.start ++ r.gates ++ ((gs.take B).drop s.stop ++ tail) := by
          have := splice_eq (gs.take s.start) (rangeOf gs s.start s.stop) ((gs.take B).drop s.stop ++ tail) r.gates
          rw [hP, hR, ← hacc'] at this
          have e : s.start + (s.stop - s.start) = s.stop := by omega
          rw [e] at this
          exact this
        have hsec := hok s (List.mem_cons_self) r hr ha
        have hequiv : E (splice acc s.start s.stop r.gates) acc := by
          rw [hsp]
          conv => rhs; rw [hacc']
          exact Econgr hsec _ _
        have hnl : r.gates.length ≤ (rangeOf gs s.start s.stop).length := by
          have h1 : r.gates.length ≤ s.gates.length := by
            simp only [accept, Bool.and_eq_true, decide_eq_true_eq] at ha
            exact ha.1.1
          have h2 : s.gates.length ≤ (rangeOf gs s.start s.stop).length := by
            rw [hgs.gates_eq]; exact List.length_filter_le _ _
          omega
        have hlen' : (splice acc s.start s.stop r.gates).length ≤ gs.length := by
          have e1 : (splice acc s.start s.stop r.gates).length ≤ acc.length := by
            rw [hsp]
            conv => rhs; rw [hacc']
            simp only [List.length_append]
            omega
          omega
        refine ih (splice acc s.start s.stop r.gates) out s.start
          (r.gates ++ ((gs.take B).drop s.stop ++ tail)) hpw'.2
          (fun s' hs' => Nat.le_of_lt (hpw'.1 s' hs')) (by have := hgs.hi; omega)
          (by rw [hsp]; simp only [List.append_assoc]) hrest_good hrest_ok
          (Etrans hequiv heq) hlen' h
      · rw [if_neg ha] at h
        exact ih acc out B tail hpw'.2 (fun s' hs' => hB s' (List.mem_cons_of_mem _ hs')) hBlen hacc
          hrest_good hrest_ok heq hlen h

/-- the sections of a decompilation, reversed, are what `spliceLoop_inv` needs -/
theorem decompile_ranges {q : Quirks} {K : Kernel} {n : Nat} {gs : List AGate} {secs : List Section}
    (h : decompile q K n gs = .ok secs) :
    secs.reverse.Pairwise (fun x y => y.stop < x.start) ∧
    (∀ s ∈ secs.reverse, s.stop ≤ gs.length) ∧ (∀ s ∈ secs.reverse, RangeGood q gs s) := by
  have hd := decompile_decomp q K n gs secs h
  refine ⟨List.pairwise_reverse.mpr hd.ordered, ?_, ?_⟩
  · intro s hs
    exact (rangeGood_of_secGood (hd.secGood s (List.mem_reverse.mp hs))).hi
  · intro s hs
    exact rangeGood_of_secGood (hd.secGood s (List.mem_reverse.mp hs))

/-! ## wires of the result -/

theorem mem_wiresOf {gs : List AGate} {i : Nat} : i ∈ wiresOf gs ↔ ∃ g ∈ gs, i ∈ g.wires := by
  unfold wiresOf; simp [List.mem_flatMap]

theorem accept_wires {q : Quirks} {n : Nat} {s : Section} {r : SecResult} (h : accept q n s r = true) :
    ∀ g ∈ r.gates, ∀ i ∈ g.wires, i ∈ wiresOf s.gates := by
  simp only [accept, Bool.and_eq_true, List.all_eq_true, List.contains_iff_mem] at h
  intro g hg i hi
  exact h.1.2 i (mem_wiresOf.mpr ⟨g, hg, hi⟩)

theorem accept_length {q : Quirks} {n : Nat} {s : Section} {r : SecResult} (h : accept q n s r = true) :
    r.gates.length ≤ s.gates.length := by
  simp only [accept, Bool.and_eq_true, decide_eq_true_eq] at h
  exact h.1.1

theorem accept_stable {n : Nat} {s : Section} {r : SecResult} (h : accept Quirks.none n s r = true) :
    nameStable n r.qmap = true := by
  simp only [accept, Bool.and_eq_true, Quirks.none, Bool.false_or] at h
  exact h.2

/-- every gate of the result touches only qubits the input touches -/
theorem spliceLoop_wires (q : Quirks) (n : Nat) (resyn : Section → Except String SecResult)
    (gs : List AGate) :
    ∀ (l : List Section) (acc out : List AGate),
      (∀ s ∈ l, ∀ g ∈ s.gates, g ∈ gs) →
      (∀ g ∈ acc, ∀ i ∈ g.wires, i ∈ wiresOf gs) →
      spliceLoop q n resyn l acc = .ok out →
      ∀ g ∈ out, ∀ i ∈ g.wires, i ∈ wiresOf gs := by
  intro l
  induction l with
  | nil =>
    intro acc out _ hacc h
    simp only [spliceLoop] at h
    cases h
    exact hacc
  | cons s rest ih =>
    intro acc out hsec hacc h
    have hrest : ∀ s' ∈ rest, ∀ g ∈ s'.gates, g ∈ gs := fun s' hs' => hsec s' (List.mem_cons_of_mem _ hs')
    simp only [spliceLoop] at h
    cases hr : resyn s with
    | error e => rw [hr] at h; cases h
    | ok r =>
      rw [hr] at h
      simp only at h
      by_cases ha : accept q n s r = true
      · rw [if_pos ha] at h
        refine ih _ out hrest ?_ h
        intro g hg i hi
        unfold splice at hg
        rcases List.mem_append.mp hg with hg | hg
        · rcases List.mem_append.mp hg with hg | hg
          · exact hacc g (List.mem_of_mem_take hg) i hi
          · obtain ⟨g', hg', hi'⟩ := mem_wiresOf.mp (accept_wires ha g hg i hi)
            exact mem_wiresOf.mpr ⟨g', hsec s (List.mem_cons_self) g' hg', hi'⟩
        · exact hacc g (List.mem_of_mem_drop hg) i hi
      · rw [if_neg ha] at h
        exact ih acc out hrest hacc h

theorem rangeGood_gates_mem {q : Quirks} {gs : List AGate} {s : Section} (h : RangeGood q gs s) :
    ∀ g ∈ s.gates, g ∈ gs := by
  intro g hg
  rw [h.gates_eq] at hg
  have := (List.mem_filter.mp hg).1
  unfold rangeOf at this
  exact List.mem_of_mem_drop (List.mem_of_mem_take this)

/-! ## `custom_simplify_logic2` keeps the meaning -/

theorem rawKernel4_sound : rawKernel4.Sound where
  not_eval := by intros; simp [rawKernel4, BExp.eval]
  and_eval := by intros; simp [rawKernel4, BExp.eval]
  or_eval := by intros; simp [rawKernel4, BExp.eval]
  xor_eval := by intros; simp [rawKernel4, BExp.eval]

section
variable {simp : BExp → BExp} {K : Kernel4}

mutual
theorem customSimplify_eval (hK : K.Sound) (hs : ∀ ρ e, (simp e).eval ρ = e.eval ρ) (ρ : Env) :
    ∀ e, (customSimplify simp K e).eval ρ = e.eval ρ
  | .xor args => by
      unfold customSimplify
      split
      · next l he => rw [← he]; exact hs ρ _
      · next e he => rw [← he]; exact hs ρ _
      · next s he => rw [← he]; exact hs ρ _
      · rw [hK.xor_eval, (customSimplifyList_eval hK hs ρ args).2.2]; simp [BExp.eval]
  | .and args => by
      unfold customSimplify
      rw [hK.and_eval, (customSimplifyList_eval hK hs ρ args).1]; simp [BExp.eval]
  | .or args => by
      unfold customSimplify
      rw [hK.or_eval, (customSimplifyList_eval hK hs ρ args).2.1]; simp [BExp.eval]
  | .not a => by
      unfold customSimplify
      rw [hK.not_eval, customSimplify_eval hK hs ρ a]; simp [BExp.eval]
  | .tt => by unfold customSimplify; exact hs ρ _
  | .ff => by unfold customSimplify; exact hs ρ _
  | .sym s => by unfold customSimplify; exact hs ρ _
  | .ite c t e => by unfold customSimplify; exact hs ρ _
  | .imp a b => by unfold customSimplify; exact hs ρ _
theorem customSimplifyList_eval (hK : K.Sound) (hs : ∀ ρ e, (simp e).eval ρ = e.eval ρ) (ρ : Env) :
    ∀ l, evalAnd ρ (customSimplifyList simp K l) = evalAnd ρ l ∧
         evalOr ρ (customSimplifyList simp K l) = evalOr ρ l ∧
         evalXor ρ (customSimplifyList simp K l) = evalXor ρ l
  | [] => by unfold customSimplifyList; exact ⟨rfl, rfl, rfl⟩
  | e :: es => by
      unfold customSimplifyList
      have h1 := customSimplify_eval hK hs ρ e
      have h2 := customSimplifyList_eval hK hs ρ es
      simp only [evalAnd, evalOr, evalXor, h1, h2.1, h2.2.1, h2.2.2]
      exact ⟨trivial, trivial, trivial⟩
end
end

/-! ## the code as it is vs. the repaired code -/

/-- the per-section trigger of `spliceIgnoresRename` -/
def secTriggers (q : Quirks) (n : Nat) (resyn : Section → Except String SecResult) (s : Section) : Bool :=
  match resyn s with
  | .ok r => accept q n s r && !nameStable n r.qmap
  | .error _ => false

theorem triggers_eq (q : Quirks) (n : Nat) (resyn : Section → Except String SecResult)
    (secs : List Section) :
    triggers q n resyn secs = (q.spliceIgnoresRename && secs.any (secTriggers q n resyn)) := rfl

theorem accept_congr {q : Quirks} {n : Nat} {s : Section} {r : SecResult}
    (h : (q.spliceIgnoresRename && (accept q n s r && !nameStable n r.qmap)) = false) :
    accept q n s r = accept Quirks.none n s r := by
  unfold accept at *
  simp only [Quirks.none]
  generalize q.spliceIgnoresRename = f at *
  generalize nameStable n r.qmap = st at *
  generalize (decide (r.gates.length ≤ s.gates.length) &&
    (wiresOf r.gates).all (fun i => (wiresOf s.gates).contains i)) = A at *
  cases f <;> cases st <;> cases A <;> simp_all

theorem spliceLoop_congr (q : Quirks) (n : Nat) (resyn : Section → Except String SecResult) :
    ∀ (l : List Section) (acc : List AGate),
      (∀ s ∈ l, (q.spliceIgnoresRename && secTriggers q n resyn s) = false) →
      spliceLoop q n resyn l acc = spliceLoop Quirks.none n resyn l acc := by
  intro l
  induction l with
  | nil => intro acc _; rfl
  | cons s rest ih =>
    intro acc h
    have hs := h s (List.mem_cons_self)
    have hrest : ∀ s' ∈ rest, (q.spliceIgnoresRename && secTriggers q n resyn s') = false :=
      fun s' hs' => h s' (List.mem_cons_of_mem _ hs')
    simp only [spliceLoop]
    cases hr : resyn s with
    | error e => rfl
    | ok r =>
      simp only
      have : accept q n s r = accept Quirks.none n s r := by
        apply accept_congr
        simpa [secTriggers, hr] using hs
      rw [this, ih _ hrest, ih _ hrest]

/-! ## the fragment the repaired optimizer accepts in practice: sections that reduce to X gates -/

theorem bstate_ext {a b : BState} (hl : a.length = b.length)
    (h : ∀ j, j < a.length → a.getD j false = b.getD j false) : a = b := by
  apply List.ext_getElem hl
  intro j h1 h2
  have := h j h1
  simpa [List.getD, h1, h2] using this

/-- a list of X gates on the qubits `F` flips exactly those -/
theorem runClassical_xs : ∀ (F : List Nat) (new : List AGate) (st : BState),
    new.map (fun g => (g.cls, g.wires)) = F.map (fun i => (GClass.X, [i])) →
    runClassical new st = F.foldl (fun s i => s.flip i) st := by
  intro F
  induction F with
  | nil =>
    intro new st h
    cases new with
    | nil => rfl
    | cons g gs => simp at h
  | cons i F ih =>
    intro new st h
    cases new with
    | nil => simp at h
    | cons g gs =>
      simp only [List.map_cons, List.cons.injEq, Prod.mk.injEq] at h
      obtain ⟨⟨hc, hw⟩, hrest⟩ := h
      rw [runClassical_cons, List.foldl_cons]
      have : stepClassical st g = st.flip i := by
        unfold stepClassical AGate.applyClassical
        rw [hc, hw]
        simp [GClass.isMCXLike]
      rw [this]
      exact ih gs _ hrest

theorem foldl_flip_length (F : List Nat) : ∀ st : BState, (F.foldl (fun s i => s.flip i) st).length = st.length := by
  induction F with
  | nil => intro st; rfl
  | cons i F ih => intro st; rw [List.foldl_cons, ih, flip_length]

theorem foldl_flip_getD (F : List Nat) (hF : F.Nodup) : ∀ (st : BState) (j : Nat), j < st.length →
    (F.foldl (fun s i => s.flip i) st).getD j false = if j ∈ F then !(st.getD j false) else st.getD j false := by
  induction F with
  | nil => intro st j _; simp
  | cons i F ih =>
    intro st j hj
    have hnd := List.nodup_cons.mp hF
    rw [List.foldl_cons, ih hnd.2 _ j (by rw [flip_length]; exact hj), flip_getD]
    by_cases hij : i = j
    · subst hij
      simp [hnd.1, hj]
    · have : ¬ (i = j ∧ j < st.length) := fun h => hij h.1
      simp only [this, if_false, List.mem_cons]
      have hji : ¬ j = i := fun h => hij h.symm
      simp [hji]

/-- **X-only sections.**  If the section's expressions say "qubits in `F` are negated, every other
qubit keeps its value" and the new gate list is one X gate per qubit of `F`, the splice is
harmless – by the soundness of the symbolic execution (C11) -/
theorem xonly_sectionOK (K : Kernel) (hK : K.Sound) (q : Quirks) (n : Nat) (sec : List AGate) (d : Dict)
    (hd : expsOfSection q K n sec = .ok d) (new : List AGate) (F : List Nat) (hF : F.Nodup)
    (hnew : new.map (fun g => (g.cls, g.wires)) = F.map (fun i => (GClass.X, [i])))
    (hflip : ∀ i ∈ F, ∀ ρ, (expOf d i).eval ρ = !ρ (qname i))
    (hid : ∀ i, i < n → i ∉ F → ∀ ρ, (expOf d i).eval ρ = ρ (qname i)) :
    SectionOK n sec new := by
  refine ⟨?_, ?_⟩
  · intro g hg
    have : (g.cls, g.wires) ∈ new.map (fun g => (g.cls, g.wires)) := List.mem_map_of_mem hg
    rw [hnew] at this
    obtain ⟨i, _, hi⟩ := List.mem_map.mp this
    simp only [Prod.mk.injEq] at hi
    rw [← hi.1, ← hi.2]
    exact ⟨Or.inl rfl, by simp⟩
  · intro st hst
    rw [runClassical_xs F new st hnew]
    apply bstate_ext
    · rw [foldl_flip_length, runClassical_length]
    · intro j hj
      rw [foldl_flip_length] at hj
      have hjn : j < n := hst ▸ hj
      rw [foldl_flip_getD F hF st j hj]
      have hs := expsOfSection_sound hK q hd st hst j hjn
      rw [← hs]
      by_cases hm : j ∈ F
      · rw [if_pos hm, hflip j hm, stateEnv_qname st hjn]
      · rw [if_neg hm, hid j hjn hm, stateEnv_qname st hjn]

end QV.Decopt
