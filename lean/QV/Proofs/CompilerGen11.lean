import QV.Proofs.CompilerGen10
/-!
# Cleanliness on the general class – part 3: the statement loop in two phases, `compile`

`keptLoop` / `retLoop` carry `KP` / `RP` through the definition list; `compile_general_clean`: after
`remove_identities` and `uncompute_all(keep)` every argument qubit is unchanged and every qubit that is neither an
argument nor the qubit of a requested return bit is zero.  `uncompute_all` replays exactly the gates of the kept
phase whose target is not a return qubit, in reverse (`uncomputeAll_exact`, `removeIdentities_filter_rev`; every gate
of the return phase targets a free qubit or a return qubit), and `bennettF` applies to the kept phase because
every control of its gates kept its value.
-/
namespace QV.Compiler
open QV

variable {ρ : Env} {σ0 : FState}

theorem inlineUncompute_some (rets : List String) (r : String) :
    inlineUncompute (some rets) true r = rets.contains r := by
  simp [inlineUncompute]

/-- **the return phase** -/
theorem retLoop {N : Nat} {Gk : List AGate} {σk : FState} {rets : List String} :
    ∀ (defs : List (String × BExp)) (scope : List String) (env : List (String × Bool)) {u : Unit} {s s' : CState},
    (compileDefs (some rets) true defs).run s = .ok (u, s') → RP N Gk σk rets scope (envOf env) σ0 s →
    genDefs scope defs = true → retDefs rets scope defs = true →
    ∃ scope', RP N Gk σk rets scope' (envOf (evalDefs defs env)) σ0 s' ∧ (∀ n ∈ scope, n ∈ scope') ∧
      (∀ p ∈ defs, p.1 ∈ scope')
  | [], scope, env, u, s, s', h, rp, _, _ => by
    unfold compileDefs at h
    obtain ⟨_, rfl⟩ := run_pure_ok.mp h
    exact ⟨scope, rp, fun n hn => hn, fun p hp => absurd hp List.not_mem_nil⟩
  | (r, e) :: rest, scope, env, u, s, s', h, rp, hgen, hrd => by
    unfold compileDefs at h
    obtain ⟨iret, t1, he, k1⟩ := run_bind_ok.mp h
    obtain ⟨u3, t1', hrs, k1'⟩ := run_bind_ok.mp k1
    obtain ⟨u4, t2, hset, k2⟩ := run_bind_ok.mp k1'
    obtain ⟨u5, t3, hmap, k3⟩ := run_bind_ok.mp k2
    simp only [genDefs, Bool.and_eq_true, Bool.not_eq_true'] at hgen
    obtain ⟨⟨⟨hres, hwf⟩, hsn⟩, hrest⟩ := hgen
    simp only [retDefs, retExprOK, Bool.and_eq_true, List.contains_eq_mem, decide_eq_true_eq, Bool.not_eq_true',
      decide_eq_false_iff_not] at hrd
    obtain ⟨⟨⟨hr, hnew⟩, hnc⟩, hrdrest⟩ := hrd
    have tp0 := topExpr_g he rp.bi hwf hsn
    have tp : TopG scope (envOf env) σ0 r (e.eval (envOf env)) false s t1 iret := hnc ▸ tp0
    have hd := stmt_headG tp.gi.good (notAvail_lt tp.nav) hrs hset hmap
    have hstep : Step (· = r) s t1 := (exprSpec (B := (· = r)) e none (some r) he rp.bi.good
      (by intro d hd'; cases hd') (by intro x hx; cases hx; rfl)).1
    have hbind : ∀ n ∈ scope, n ≠ r → ∃ q, dictGet? t1.qc.qmap n = some q := by
      intro n hn hnr
      obtain ⟨q, hq⟩ := rp.bi.bound n hn
      exact ⟨q, by rw [hstep.qmap_keep n hnr (rp.bi.scopeOK n hn)]; exact hq⟩
    rcases run_ite_ok.mp k3 with ⟨_, k4⟩ | ⟨hc, _⟩
    · obtain ⟨unc, t4, hunc, k5⟩ := run_bind_ok.mp k4
      obtain ⟨u6, t5, hrm, k6⟩ := run_bind_ok.mp k5
      have hend := stmt_unc rp.bi tp hd hunc hrm
      have bi' := rp.bi.step tp hd hend (fun m hm => ⟨(tp.gi.marks m hm).1, fun e' => tp.nm (e' ▸ hm)⟩) hbind hres
      have rp' := rp_step rp tp hd hunc hrm hr hnew hstep bi'
      obtain ⟨scope', hfin, hsub, hmem⟩ := retLoop rest (scope ++ [r]) ((r, e.eval (envOf env)) :: env) k6 rp'
        hrest hrdrest
      refine ⟨scope', hfin, fun n hn => hsub n (List.mem_append_left _ hn), fun p hp => ?_⟩
      rcases List.mem_cons.mp hp with rfl | hp
      · exact hsub _ (by simp)
      · exact hmem p hp
    · exfalso
      rw [inlineUncompute_some] at hc
      exact hc (by simpa using hr)

/-- what the end of `compile` needs of the kept phase -/
structure KFin (nIn N : Nat) (Gk : List AGate) (σk σ0 : FState) : Prop where
  inv : GatesInv Gk
  lt : ∀ g ∈ Gk, ∀ w ∈ g.wires, w < N
  ben : CtlOK (fun f c => f c = σk c) Gk σ0
  run : runF Gk σ0 = σk
  tge : ∀ g ∈ Gk, nIn ≤ g.target
  nN : nIn ≤ N

theorem good_gatesInv {s : CState} (hg : Good s) : GatesInv s.qc.gates.toList := by
  intro g hgm
  have hgo := hg.gates_ok g hgm
  refine ⟨hgo.1, hgo.2.1, fun hnil => ?_⟩
  have := mcx_nq_pos hgo.1
  rw [← hgo.2.2.2, hnil] at this
  exact absurd this (Nat.lt_irrefl _)

theorem KP.fin {nIn : Nat} {scope : List String} {s : CState} (kp : KP nIn scope ρ σ0 s) :
    KFin nIn s.qc.numQubits s.qc.gates.toList (cur σ0 s) σ0 :=
  ⟨good_gatesInv kp.bi.good, fun g hg => (kp.bi.good.gates_ok g hg).2.2.1, kp.ben, rfl,
    fun g hg => (kp.tgtU g hg).2, kp.nqIn⟩

/-- **the kept phase, then the return phase** -/
theorem keptLoop {nIn : Nat} {rets : List String} :
    ∀ (defs : List (String × BExp)) (scope : List String) (env : List (String × Bool)) {u : Unit} {s s' : CState},
    (compileDefs (some rets) true defs).run s = .ok (u, s') → KP nIn scope (envOf env) σ0 s →
    genDefs scope defs = true → keptThenRet rets scope defs = true →
    ∃ N Gk σk scope', RP N Gk σk rets scope' (envOf (evalDefs defs env)) σ0 s' ∧ KFin nIn N Gk σk σ0 ∧
      (∀ n ∈ scope, n ∈ scope') ∧ (∀ p ∈ defs, p.1 ∈ scope')
  | [], scope, env, u, s, s', h, kp, _, _ => by
    unfold compileDefs at h
    obtain ⟨_, rfl⟩ := run_pure_ok.mp h
    exact ⟨_, _, _, scope, kp.toRP, kp.fin, fun n hn => hn, fun p hp => absurd hp List.not_mem_nil⟩
  | (r, e) :: rest, scope, env, u, s, s', h, kp, hgen, hkr => by
    by_cases hrr : rets.contains r = true
    · -- the return phase starts here
      simp only [keptThenRet, hrr, if_true] at hkr
      obtain ⟨scope', hfin, hsub, hmem⟩ := retLoop ((r, e) :: rest) scope env h (kp.toRP (rets := rets)) hgen hkr
      exact ⟨_, _, _, scope', hfin, kp.fin, hsub, hmem⟩
    · simp only [keptThenRet, hrr, Bool.false_eq_true, if_false] at hkr
      unfold compileDefs at h
      obtain ⟨iret, t1, he, k1⟩ := run_bind_ok.mp h
      obtain ⟨u3, t1', hrs, k1'⟩ := run_bind_ok.mp k1
      obtain ⟨u4, t2, hset, k2⟩ := run_bind_ok.mp k1'
      obtain ⟨u5, t3, hmap, k3⟩ := run_bind_ok.mp k2
      simp only [genDefs, Bool.and_eq_true, Bool.not_eq_true'] at hgen
      obtain ⟨⟨⟨hres, hwf⟩, hsn⟩, hrest⟩ := hgen
      have tp := topExpr_g he kp.bi hwf hsn
      have hd := stmt_headG tp.gi.good (notAvail_lt tp.nav) hrs hset hmap
      have hstep : Step (· = r) s t1 := (exprSpec (B := (· = r)) e none (some r) he kp.bi.good
        (by intro d hd'; cases hd') (by intro x hx; cases hx; rfl)).1
      have hbind : ∀ n ∈ scope, n ≠ r → ∃ q, dictGet? t1.qc.qmap n = some q := by
        intro n hn hnr
        obtain ⟨q, hq⟩ := kp.bi.bound n hn
        exact ⟨q, by rw [hstep.qmap_keep n hnr (kp.bi.scopeOK n hn)]; exact hq⟩
      rcases run_ite_ok.mp k3 with ⟨hc, _⟩ | ⟨_, k4⟩
      · exfalso
        rw [inlineUncompute_some] at hc
        exact hrr hc
      · obtain ⟨u6, t5, hk, k5⟩ := run_bind_ok.mp k4
        have hend := stmt_keep kp.bi tp hd hk
        have bi' := kp.bi.step tp hd hend (fun m hm => by cases hm) hbind hres
        have kp' := kp_step kp tp hd hk bi'
        obtain ⟨N, Gk, σk, scope', hfin, hk', hsub, hmem⟩ :=
          keptLoop rest (scope ++ [r]) ((r, e.eval (envOf env)) :: env) k5 kp' hrest hkr
        refine ⟨N, Gk, σk, scope', hfin, hk', fun n hn => hsub n (List.mem_append_left _ hn), fun p hp => ?_⟩
        rcases List.mem_cons.mp hp with rfl | hp
        · exact hsub _ (by simp)
        · exact hmem p hp

/-! ### `compile` -/

theorem mem_of_gcore {U L : List AGate} (h : U.map gcore = L.map gcore) {g : AGate} (hg : g ∈ U) :
    ∃ g' ∈ L, g'.cls = g.cls ∧ g'.wires = g.wires := by
  have hm : gcore g ∈ U.map gcore := List.mem_map.mpr ⟨g, hg, rfl⟩
  rw [h] at hm
  obtain ⟨g', hg', e⟩ := List.mem_map.mp hm
  exact ⟨g', hg', congrArg Prod.fst e, congrArg Prod.snd e⟩

theorem target_of_wires {g g' : AGate} (h : g'.wires = g.wires) : g'.target = g.target := by
  unfold AGate.target; rw [h]

theorem getLast_of_target {g : AGate} (hne : g.wires ≠ []) : g.wires.getLast? = some g.target := by
  obtain ⟨cs, t, hw, ht, _⟩ := wires_split hne
  rw [ht, hw]; simp

theorem mcx_not_nop {c : GClass} (h : c.isMCXLike = true) : c.isNop = false := by
  cases c <;> simp_all [GClass.isMCXLike, GClass.isNop]

theorem removeIdentities_free {u : Unit} {s s' : CState} (h : removeIdentities.run s = .ok (u, s')) :
    s'.qc.free = s.qc.free := by
  unfold removeIdentities at h
  obtain ⟨qc, s1, hq, h1⟩ := run_bind_ok.mp h
  obtain ⟨rfl, rfl⟩ := getQC_run hq
  have := modQC_run h1; subst this
  rfl

/-- the reverse pass, on gate lists: `G = Gk ++ Gr`, the gates of `Gr` target qubits `≥ N` that are free or kept,
`extra` acts like the filtered reversed list -/
theorem clean_aux {nIn N : Nat} {Gk Gr G extra : List AGate} {σk σ0 : FState} {keep free3 : List Nat} {q : Nat}
    (kf : KFin nIn N Gk σk σ0) (hG : G = Gk ++ Gr) (hinvG : GatesInv G)
    (hGrT : ∀ g ∈ Gr, N ≤ g.target ∧ (g.target ∈ free3 ∨ keep.contains g.target = true))
    (hfreeGe : ∀ p ∈ free3, N ≤ p) (hzeroFree : ∀ p ∈ free3, runF G σ0 p = false)
    (hlow : ∀ p, p < N → runF G σ0 p = σk p)
    (hextra : ∀ f : FState, runF extra f = runF ((G.filter (replayP keep free3)).reverse) f)
    (hσ0z : ∀ p, nIn ≤ p → σ0 p = false) :
    (q < nIn → runF extra (runF G σ0) q = σ0 q) ∧
    (nIn ≤ q → keep.contains q = false → runF extra (runF G σ0) q = false) := by
  have hGkN : ∀ g ∈ Gk, g.target < N := by
    intro g hg
    have hne := (kf.inv g hg).2.2
    obtain ⟨cs', t, hw, ht, _⟩ := wires_split hne
    rw [ht]; exact kf.lt g hg t (by rw [hw]; simp)
  have hfilt : G.filter (replayP keep free3) = Gk.filter (fun g => !keep.contains g.target) := by
    rw [hG, List.filter_append]
    have hnil : Gr.filter (replayP keep free3) = [] := by
      apply List.filter_eq_nil_iff.mpr
      intro g hg
      unfold replayP
      rcases (hGrT g hg).2 with hf | hk
      · have : free3.contains g.target = true := by simpa using hf
        simp only [this, Bool.or_true, Bool.not_true]
        exact Bool.false_ne_true
      · simp only [hk, Bool.or_true, Bool.true_or, Bool.not_true]
        exact Bool.false_ne_true
    rw [hnil, List.append_nil]
    apply List.filter_congr
    intro g hg
    unfold replayP
    have h1 : g.cls.isNop = false := mcx_not_nop (kf.inv g hg).1
    have h2 : free3.contains g.target = false := by
      simp only [List.contains_eq_mem, decide_eq_false_iff_not]
      intro hf
      exact absurd (hfreeGe _ hf) (by have := hGkN g hg; omega)
    rw [h1, h2]
    simp only [Bool.false_or, Bool.or_false]
  obtain ⟨M, hM⟩ : ∃ M, M = (Gk.map AGate.target).filter (fun t => !keep.contains t) := ⟨_, rfl⟩
  have hMc : ∀ t, M.contains t = true ↔ (t ∈ Gk.map AGate.target ∧ keep.contains t = false) := by
    intro t
    simp only [hM, List.contains_eq_mem, decide_eq_true_eq, List.mem_filter, Bool.not_eq_true',
      decide_eq_false_iff_not]
  have hrep : (Gk.filter (fun g => !keep.contains g.target)).reverse = rep M Gk := by
    unfold rep
    congr 1
    apply List.filter_congr
    intro g hg
    cases hk : keep.contains g.target with
    | true =>
      have : M.contains g.target = false := by
        cases hc : M.contains g.target with
        | false => rfl
        | true => rw [((hMc _).mp hc).2] at hk; cases hk
      rw [this]; rfl
    | false =>
      have : M.contains g.target = true := (hMc _).mpr ⟨List.mem_map.mpr ⟨g, hg, rfl⟩, hk⟩
      rw [this]; rfl
  obtain ⟨bM, bN⟩ := bennettF M σk Gk σ0 kf.inv
    (CtlOK.mono (fun f c hq' => Or.inr hq') _ _ kf.ben) kf.run
  obtain ⟨l1, l2⟩ := runF_local N (rep M Gk) (runF G σ0) σk (by
    intro g hg
    have hgk : g ∈ Gk := by
      unfold rep at hg
      exact (List.mem_filter.mp (List.mem_reverse.mp hg)).1
    exact ⟨(kf.inv g hgk).1, (kf.inv g hgk).2.2, kf.lt g hgk⟩) hlow
  have hfinal : ∀ p, runF extra (runF G σ0) p = runF (rep M Gk) (runF G σ0) p := by
    intro p; rw [hextra, hfilt, hrep]
  -- a qubit no gate of `l` targets keeps its value
  have hunt : ∀ (l : List AGate) (f : FState) (p : Nat), GatesInv l → (∀ g ∈ l, g.target ≠ p) →
      runF l f p = f p := by
    intro l f p hl hne
    apply untargeted_runF
    intro g hg hlast
    rw [getLast_of_target (hl g hg).2.2] at hlast
    exact hne g hg (Option.some.inj hlast)
  have hrepinv : GatesInv (rep M Gk) := by
    intro g hg
    unfold rep at hg
    exact kf.inv g (List.mem_filter.mp (List.mem_reverse.mp hg)).1
  have hGrinv : GatesInv Gr := fun g hg => hinvG g (by rw [hG]; exact List.mem_append_right _ hg)
  have hcur2 : runF G σ0 = runF Gr σk := by
    rw [hG, runF_append, kf.run]
  rw [hfinal]
  constructor
  · intro hqin
    rw [hunt _ _ q hrepinv (fun g hg e' => by
        unfold rep at hg
        have := kf.tge g (List.mem_filter.mp (List.mem_reverse.mp hg)).1
        omega),
      hcur2, hunt _ _ q hGrinv (fun g hg e' => by
        have := (hGrT g hg).1
        have := kf.nN
        omega),
      ← kf.run, hunt _ _ q kf.inv (fun g hg e' => by have := kf.tge g hg; omega)]
  · intro hqge hkq
    by_cases hqN : q < N
    · rw [l1 q hqN]
      cases hMq : M.contains q with
      | true => rw [bM q hMq]; exact hσ0z q hqge
      | false =>
        rw [bN q hMq, ← kf.run]
        have hnt : ∀ g ∈ Gk, g.target ≠ q := by
          intro g hg e'
          have : M.contains q = true := (hMc q).mpr ⟨List.mem_map.mpr ⟨g, hg, e'⟩, hkq⟩
          rw [this] at hMq; cases hMq
        rw [hunt _ _ q kf.inv hnt]; exact hσ0z q hqge
    · have hqN' : N ≤ q := by omega
      rw [l2 q hqN']
      by_cases hex : ∃ g ∈ Gr, g.target = q
      · obtain ⟨g, hg, ht⟩ := hex
        rcases (hGrT g hg).2 with hf | hk
        · exact hzeroFree q (ht ▸ hf)
        · rw [ht, hkq] at hk; cases hk
      · rw [hcur2, hunt _ _ q hGrinv (fun g hg e' => hex ⟨g, hg, e'⟩), ← kf.run,
          hunt _ _ q kf.inv (fun g hg e' => by have := hGkN g hg; omega)]
        exact hσ0z q hqge

/-- **cleanliness on the general class**: intermediates first, every requested return bit defined once, last;
final uncomputation on.  After every successful run of `compile`, on every input: every argument qubit
is unchanged, every qubit that is neither an argument nor the qubit of a requested return bit is zero. -/
theorem compile_general_clean {inputs : List String} {defs : List (String × BExp)} {rets : List String}
    {cs : List Nat} {s : CState}
    (h : (compile inputs defs (some rets) true).run { choices := cs } = .ok ((), s))
    (hnd : inputs.Nodup) (hfresh : ∀ n ∈ inputs, reservedName n = false)
    (hgen : genDefs inputs defs = true) (hkr : keptThenRet rets inputs defs = true)
    (x : List Bool) (hx : x.length = inputs.length) (q : Nat) :
    (q < inputs.length →
      (runClassical s.qc.gates.toList (initState x s.qc.numQubits)).getD q false = x.getD q false) ∧
    (inputs.length ≤ q → q ∉ rets.filterMap (dictGet? s.qc.qmap) →
      (runClassical s.qc.gates.toList (initState x s.qc.numQubits)).getD q false = false) := by
  have hgs : Good s := (compile_ok h).1
  unfold compile at h
  obtain ⟨u0, s0, hmod, h1⟩ := run_bind_ok.mp h
  have := run_modify_ok.mp hmod; subst this
  obtain ⟨u1, s1, hin, h2⟩ := run_bind_ok.mp h1
  obtain ⟨u2, s2, hdefs, h3⟩ := run_bind_ok.mp h2
  obtain ⟨u3, s3, hrem, h4⟩ := run_bind_ok.mp h3
  dsimp only at h4
  rw [if_pos rfl] at h4
  obtain ⟨qc, s4, hqq, h5⟩ := run_bind_ok.mp h4
  have hqs := getQC_run hqq
  rw [hqs.2, hqs.1] at h5
  obtain ⟨hG', hq3, hn3⟩ := removeIdentities_run hrem
  have hf3 := removeIdentities_free hrem
  obtain ⟨extra, e1, e2, e3, e4⟩ := uncomputeAll_exact h5
  -- the invariants
  obtain ⟨bi1, hn1⟩ := init_bi (x := x) s.qc.numQubits hin hnd hfresh hx
  obtain ⟨_, hf1, _, _⟩ := addInputs_scratch inputs hin
  obtain ⟨hga1, _, _⟩ := addInputs_quiet inputs hin
  have hg1nil : s1.qc.gates.toList = [] := by rw [hga1]
  have kp1 : KP inputs.length inputs (envOf (inputs.zip x)) (toF (initState x s.qc.numQubits)) s1 :=
    ⟨bi1, (by rw [hf1]), (by rw [hn1]; exact Nat.le_refl _), (by rw [hg1nil]; trivial),
      (by rw [hg1nil]; intro g hg; cases hg), (by rw [hg1nil]; intro g hg; cases hg)⟩
  obtain ⟨N, Gk, σk, scope', rp, kf, _, _⟩ := keptLoop defs inputs (inputs.zip x) hdefs kp1 hgen hkr
  obtain ⟨Gr, hG, hGrT⟩ := rp.gates
  have hg2 : Good s2 := rp.bi.good
  have hinv2 : GatesInv s2.qc.gates.toList := good_gatesInv hg2
  have houts : rets.filterMap (dictGet? s.qc.qmap) = rets.filterMap (dictGet? s3.qc.qmap) := by rw [e3]
  -- the value of a qubit at the end
  have hlen : (initState x s.qc.numQubits).length = s.qc.numQubits :=
    initState_length x _ (by
      rw [hx, ← hn1, e4, hn3]
      exact (compileDefs_ok (B := fun _ => True) defs hdefs bi1.good (fun _ _ => trivial)).1.nq_le)
  have hval : (runClassical s.qc.gates.toList (initState x s.qc.numQubits)).getD q false =
      runF extra (runF s2.qc.gates.toList (toF (initState x s.qc.numQubits))) q := by
    rw [e1, hG', runClassical_append, removeIdentitiesList_sound _ (fun g hg => (hinv2 g hg).2.1),
      ← runClassical_append]
    have hspec := congrFun (runF_spec (s2.qc.gates.toList ++ extra) (initState x s.qc.numQubits) (by
      intro g hg w hw
      rw [hlen]
      rcases List.mem_append.mp hg with hg | hg
      · rw [e4, hn3]; exact (hg2.gates_ok g hg).2.2.1 w hw
      · exact (hgs.gates_ok g (by rw [e1]; exact List.mem_append_right _ hg)).2.2.1 w hw)) q
    refine hspec.trans ?_
    rw [runF_append]
  have hσ0z : ∀ p, inputs.length ≤ p → toF (initState x s.qc.numQubits) p = false := by
    intro p hp
    show (initState x s.qc.numQubits).getD p false = false
    rw [initState_getD]
    have : x[p]? = none := by simp; omega
    simp [List.getD_eq_getElem?_getD, this]
  have hσ0x : ∀ p, toF (initState x s.qc.numQubits) p = x.getD p false := by
    intro p
    show (initState x s.qc.numQubits).getD p false = _
    rw [initState_getD]
  obtain ⟨c1, c2⟩ := clean_aux (q := q) (keep := rets.filterMap (dictGet? s3.qc.qmap)) (free3 := s3.qc.free)
    (extra := extra) kf hG hinv2
    (fun g hg => ⟨(hGrT g hg).1, (hGrT g hg).2.imp (fun hf => by rw [hf3]; exact hf) (fun ⟨r, _, hr, hqr⟩ => by
      simp only [List.contains_eq_mem, decide_eq_true_eq]
      exact List.mem_filterMap.mpr ⟨r, hr, by rw [hq3]; exact hqr⟩)⟩)
    (fun p hp => rp.freeGe p (by rw [← hf3]; exact hp))
    (fun p hp => rp.bi.zero p (Or.inl (by rw [← hf3]; exact hp)))
    rp.low
    (fun f => by rw [runF_gcore e2, hG', removeIdentities_filter_rev _ _ hinv2])
    hσ0z
  rw [hval]
  refine ⟨fun hqin => by rw [c1 hqin]; exact hσ0x q, fun hqge hqo => c2 hqge ?_⟩
  rw [houts] at hqo
  simpa using hqo

end QV.Compiler
