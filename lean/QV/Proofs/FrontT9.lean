import QV.Proofs.FrontT8
/-! The widened semantics `semT` extends `semW`: wherever the bool / Qint semantics gives a value, `semT` gives
the same one and no excluded site (`wellT`) is reached; likewise for programs. -/
namespace QV.Sem
open QV QV.Arith QV.Front

set_option linter.unusedSimpArgs false
set_option linter.unusedVariables false

/-- every variable of `σ` has the same value in `σT` -/
def EnvLe (σ : SEnv) (σT : TEnv) : Prop := ∀ n sv, σ n = some sv → σT n = some sv.toT

theorem boolFoldT_toT (isAnd : Bool) : ∀ xs : List SVal, boolFoldT isAnd (xs.map SVal.toT) = boolFold isAnd xs
  | [] => rfl
  | [x] => by cases x <;> rfl
  | x :: y :: ys => by
    have ih := boolFoldT_toT isAnd (y :: ys)
    cases x with
    | bool b =>
      simp only [List.map_cons, SVal.toT] at ih ⊢
      simp only [boolFoldT, boolFold, ih]
    | int w v =>
      simp only [List.map_cons, SVal.toT]
      simp only [boolFoldT, boolFold]

mutual
theorem semT_of_semW (σ : SEnv) (σT : TEnv) (hle : EnvLe σ σT) :
    ∀ (e : PExp) (sv : SVal), semW σ e = some sv → semT σT e = some sv.toT ∧ wellT σT e = true
  | .name n, sv, h => ⟨by simpa only [semT] using hle n sv (by simpa only [semW] using h), rfl⟩
  | .cbool b, sv, h => by
    simp only [semW, Option.some.injEq] at h
    rw [← h]; exact ⟨rfl, rfl⟩
  | .cint c, sv, h => by
    simp only [semW] at h
    split at h
    · rename_i w hw
      simp only [Option.some.injEq] at h
      rw [← h]
      exact ⟨by simp [semT, hw, SVal.toT], rfl⟩
    · cases h
  | .cchar _, sv, h => by simp [semW] at h
  | .tuple _, sv, h => by simp [semW] at h
  | .unsupported _, sv, h => by simp [semW] at h
  | .subs n p, sv, h => by
    simp only [semW] at h
    split at h
    · rename_i w x i hn
      split at h
      · rename_i hi
        simp only [Option.some.injEq] at h
        rw [← h]
        have := hle n _ hn
        have hs : semT σT (.subs n [i]) = some (.bool (x.testBit i.toNat)) := by
          simp [semT, this, SVal.toT, TVal.index, hi]
        exact ⟨hs, by simp [wellT, hs]⟩
      · cases h
    · cases h
  | .not e, sv, h => by
    simp only [semW] at h
    split at h
    · rename_i b he
      simp only [Option.some.injEq] at h
      obtain ⟨h1, h2⟩ := semT_of_semW σ σT hle e _ he
      rw [← h]
      exact ⟨by simp [semT, h1, SVal.toT, notT], by simpa [wellT] using h2⟩
    · cases h
  | .inv e, sv, h => by
    simp only [semW] at h
    split at h
    · rename_i w x he
      simp only [Option.some.injEq] at h
      obtain ⟨h1, h2⟩ := semT_of_semW σ σT hle e _ he
      rw [← h]
      exact ⟨by simp [semT, h1, SVal.toT, invT], by simp [wellT, h2, h1, SVal.toT, isCharO]⟩
    · cases h
  | .boolop isAnd vs, sv, h => by
    simp only [semW] at h
    split at h
    · rename_i xs hxs
      obtain ⟨h1, h2⟩ := semTList_of_semWList σ σT hle vs xs hxs
      simp only [Option.map_eq_some_iff] at h
      obtain ⟨b, hb, rfl⟩ := h
      exact ⟨by simp [semT, h1, boolFoldT_toT, hb, SVal.toT], by simpa [wellT] using h2⟩
    · cases h
  | .ite c a b, sv, h => by
    simp only [semW] at h
    split at h
    · rename_i cb x y hc ha hb
      simp only [Option.some.injEq] at h
      obtain ⟨c1, c2⟩ := semT_of_semW σ σT hle c _ hc
      obtain ⟨a1, a2⟩ := semT_of_semW σ σT hle a _ ha
      obtain ⟨b1, b2⟩ := semT_of_semW σ σT hle b _ hb
      rw [← h]
      exact ⟨by simp [semT, c1, a1, b1, SVal.toT, iteT], by simp [wellT, c2, a2, b2, a1, b1, SVal.toT, isCharO, isIntO]⟩
    · rename_i cb wa x wb y hc ha hb
      simp only [Option.some.injEq] at h
      obtain ⟨c1, c2⟩ := semT_of_semW σ σT hle c _ hc
      obtain ⟨a1, a2⟩ := semT_of_semW σ σT hle a _ ha
      obtain ⟨b1, b2⟩ := semT_of_semW σ σT hle b _ hb
      rw [← h]
      exact ⟨by simp [semT, c1, a1, b1, SVal.toT, iteT], by simp [wellT, c2, a2, b2, a1, b1, SVal.toT, isCharO, isIntO]⟩
    · cases h
  | .cmp op l r, sv, h => by
    simp only [semW] at h
    split at h
    · rename_i x y hl hr
      obtain ⟨l1, l2⟩ := semT_of_semW σ σT hle l _ hl
      obtain ⟨r1, r2⟩ := semT_of_semW σ σT hle r _ hr
      simp only [Option.map_eq_some_iff] at h
      obtain ⟨b, hb, rfl⟩ := h
      exact ⟨by simp [semT, l1, r1, SVal.toT, cmpT, hb], by simp [wellT, l2, r2]⟩
    · rename_i wx x wy y hl hr
      obtain ⟨l1, l2⟩ := semT_of_semW σ σT hle l _ hl
      obtain ⟨r1, r2⟩ := semT_of_semW σ σT hle r _ hr
      simp only [Option.map_eq_some_iff] at h
      obtain ⟨b, hb, rfl⟩ := h
      exact ⟨by simp [semT, l1, r1, SVal.toT, cmpT, hb], by simp [wellT, l2, r2]⟩
    · cases h
  | .bin op l r, sv, h => by
    simp only [semW] at h
    split at h
    · rename_i x hl
      obtain ⟨l1, l2⟩ := semT_of_semW σ σT hle l _ hl
      split at h
      · rename_i y hr
        obtain ⟨r1, r2⟩ := semT_of_semW σ σT hle r _ hr
        exact ⟨by simp [semT, l1, r1, SVal.toT, h], by simp [wellT, l2, r2]⟩
      · cases h
    · rename_i wl x hl
      obtain ⟨l1, l2⟩ := semT_of_semW σ σT hle l _ hl
      split at h
      · rename_i hop
        split at h
        · rename_i k
          split at h
          · cases h
          · rename_i hk
            have hw : wellT σT (.bin op l (.cint k)) = true := by simp [wellT, l2]
            split at h
            · rename_i hls
              simp only [Option.some.injEq] at h
              rw [← h]
              exact ⟨by simp [semT, l1, SVal.toT, hop, hk, hls], hw⟩
            · rename_i hls
              simp only [Option.some.injEq] at h
              rw [← h]
              have hrs : op = "rshift" := by
                simp only [Bool.or_eq_true, beq_iff_eq] at hop hls
                rcases hop with hop | hop
                · exact absurd hop hls
                · exact hop
              subst hrs
              exact ⟨by simp [semT, l1, SVal.toT, hk], hw⟩
        · cases h
      · rename_i hop
        split at h
        · rename_i wr y hr
          obtain ⟨r1, r2⟩ := semT_of_semW σ σT hle r _ hr
          exact ⟨by simp [semT, l1, r1, SVal.toT, hop, h], by simp [wellT, l2, r2]⟩
        · cases h
    · cases h
theorem semTList_of_semWList (σ : SEnv) (σT : TEnv) (hle : EnvLe σ σT) :
    ∀ (es : List PExp) (svs : List SVal), semWList σ es = some svs →
      semTList σT es = some (svs.map SVal.toT) ∧ wellTList σT es = true
  | [], svs, h => by
    simp only [semWList, Option.some.injEq] at h
    rw [← h]; exact ⟨rfl, rfl⟩
  | e :: es, svs, h => by
    simp only [semWList] at h
    split at h
    · rename_i x xs hx hxs
      simp only [Option.some.injEq] at h
      obtain ⟨h1, h2⟩ := semT_of_semW σ σT hle e x hx
      obtain ⟨h3, h4⟩ := semTList_of_semWList σ σT hle es xs hxs
      rw [← h]
      exact ⟨by simp [semTList, h1, h3], by simp [wellTList, h2, h4]⟩
    · cases h
end

theorem envLe_set {σ : SEnv} {σT : TEnv} (hle : EnvLe σ σT) (t : String) (sv : SVal) :
    EnvLe (σ.set t sv) (σT.set t sv.toT) := by
  intro n x hx
  by_cases hn : n = t
  · subst hn
    simp only [SEnv.set, beq_self_eq_true, if_true, Option.some.injEq] at hx
    simp [TEnv.set, hx]
  · simp only [SEnv.set, beq_iff_eq, hn, if_false] at hx
    simp only [TEnv.set, beq_iff_eq, hn, if_false]
    exact hle n x hx

theorem coerceRetT_toT (ret : Ty) (v sv : SVal) (h : coerceRet ret v = some sv) :
    coerceRetT ret v.toT = some sv.toT ∧ wellRet ret (some v.toT) = true := by
  cases v with
  | bool b =>
    cases ret <;> simp only [coerceRet, Option.some.injEq, reduceCtorEq] at h
    rw [← h]; exact ⟨rfl, rfl⟩
  | int a x =>
    cases ret <;> simp only [coerceRet, reduceCtorEq] at h
    rename_i b
    refine ⟨?_, rfl⟩
    simp only [SVal.toT, coerceRetT]
    split at h <;> (simp only [Option.some.injEq] at h; subst h; simp [SVal.toT, *])

theorem semBodyT_of_semBody (ret : Ty) : ∀ (ss : List Stmt) (σ : SEnv) (σT : TEnv) (sv : SVal),
    EnvLe σ σT → semBody ret σ ss = some sv → semBodyT ret σT ss = some sv.toT ∧ wellBody ret σT ss = true
  | [], σ, σT, sv, _, h => by simp [semBody] at h
  | .assign t e :: ss, σ, σT, sv, hle, h => by
    simp only [semBody] at h
    split at h
    · rename_i v hv
      obtain ⟨h1, h2⟩ := semT_of_semW σ σT hle e v hv
      obtain ⟨h3, h4⟩ := semBodyT_of_semBody ret ss _ _ sv (envLe_set hle t v) h
      exact ⟨by simp [semBodyT, h1, h3], by simp [wellBody, h1, h2, h4]⟩
    · cases h
  | .ret e :: ss, σ, σT, sv, hle, h => by
    simp only [semBody] at h
    split at h
    · rename_i v hv
      obtain ⟨h1, h2⟩ := semT_of_semW σ σT hle e v hv
      obtain ⟨h3, h4⟩ := coerceRetT_toT ret v sv h
      exact ⟨by simp [semBodyT, h1, h3], by simp [wellBody, h1, h2, h4]⟩
    · cases h
  | .expr e :: ss, σ, σT, sv, hle, h => by
    simp only [semBody] at h
    obtain ⟨h3, h4⟩ := semBodyT_of_semBody ret ss σ σT sv hle h
    exact ⟨by simp [semBodyT, h3], by simp [wellBody, h4]⟩
  | .unsupported _ :: ss, σ, σT, sv, _, h => by simp [semBody] at h

theorem envLe_args (args : List (String × Ty)) (ρ : QV.Env) : EnvLe (argsEnv args ρ) (argsEnvT args ρ) := by
  intro n sv h
  simp only [argsEnv] at h
  simp only [argsEnvT]
  cases hf : args.find? (·.1 == n) with
  | none => simp [hf] at h
  | some p =>
    obtain ⟨m, ty⟩ := p
    simp only [hf] at h ⊢
    cases ty with
    | bool => simp only [decodeArg, Option.some.injEq] at h; rw [← h]; rfl
    | qint w => simp only [decodeArg, Option.some.injEq] at h; rw [← h]; rfl
    | qchar => simp [decodeArg] at h
    | tuple _ => simp [decodeArg] at h

/-- wherever the bool / Qint semantics gives a program a value, the widened one gives the same value and
no excluded site is reached -/
theorem semProgT_of_semProg (p : Prog) (ρ : QV.Env) (sv : SVal) (h : semProg p ρ = some sv) :
    semProgT p ρ = some sv.toT ∧ wellProg p ρ = true :=
  semBodyT_of_semBody p.ret p.body _ _ sv (envLe_args p.args ρ) h

theorem toT_bits (sv : SVal) : sv.toT.bits = sv.bits := by cases sv <;> rfl

end QV.Sem
