import QV.Model.Decopt
import QV.Proofs.Decopt
import QV.Proofs.CompilerInv
import QV.Proofs.CompilerSem
/-!
# C12: what the repaired splice test accepts

The re-synthesis of a section is `Compiler.compile (symbols n) exprs none false`: every qubit an
argument, no return bits, no final uncomputation.  This file proves, about the compiler model:

* `xonly_ok` – a splice of the `xonly` shape (every simplified definition is `q = q` or `q = ~q`
  and the new gates are the X gates of the self-negations) is `SectionOK`;
* `stable_xonly` – for pairwise distinct definitions of `q0 … q{n-1}`, a re-synthesis whose qubit
  map is still `nameStable` is of the `xonly` shape.  Reason: as long as every definition so far
  was `q = q` or `q = ~q` the compiler state is `Clean` (no ancilla, nothing cached but symbols, the
  qubit map is the identity, only X gates); the first other definition `q{i} = e` is compiled into
  a qubit different from `i` (a symbol `q{j}` into `j`; a constant into the `FALSE`/`TRUE` qubit, a
  compound expression into an ancilla or into the cache, all `≥ n`), `q{i}` is re-mapped onto it,
  and no later definition maps it back (names are distinct) – so the qubit map is not stable.
-/
namespace QV.Decopt
open QV QV.Decompiler QV.Compiler

/-! ## structural equality of expressions -/

mutual
theorem bexp_beq_eq : ∀ a b : BExp, BExp.beq a b = true → a = b
  | .tt, b => by cases b <;> simp [BExp.beq]
  | .ff, b => by cases b <;> simp [BExp.beq]
  | .sym n, b => by cases b <;> simp [BExp.beq]
  | .not a, b => by cases b <;> simp [BExp.beq] <;> exact bexp_beq_eq a _
  | .and l, b => by cases b <;> simp [BExp.beq] <;> exact bexp_beqList_eq l _
  | .or l, b => by cases b <;> simp [BExp.beq] <;> exact bexp_beqList_eq l _
  | .xor l, b => by cases b <;> simp [BExp.beq] <;> exact bexp_beqList_eq l _
  | .ite c t e, b => by
      cases b <;> simp [BExp.beq]
      intro h1 h2 h3
      exact ⟨bexp_beq_eq c _ h1, bexp_beq_eq t _ h2, bexp_beq_eq e _ h3⟩
  | .imp x y, b => by
      cases b <;> simp [BExp.beq]
      intro h1 h2
      exact ⟨bexp_beq_eq x _ h1, bexp_beq_eq y _ h2⟩
theorem bexp_beqList_eq : ∀ a b : List BExp, BExp.beqList a b = true → a = b
  | [], b => by cases b <;> simp [BExp.beqList]
  | x :: xs, b => by
      cases b <;> simp [BExp.beqList]
      intro h1 h2
      exact ⟨bexp_beq_eq x _ h1, bexp_beqList_eq xs _ h2⟩
end

theorem bexp_eq_of_beq {a b : BExp} (h : (a == b) = true) : a = b := bexp_beq_eq a b h

/-! ## qubit names -/

theorem qidx_some {n : Nat} {k : String} {i : Nat} (h : qidx n k = some i) : i < n ∧ k = qname i := by
  unfold qidx at h
  refine ⟨List.mem_range.mp (List.mem_of_find?_eq_some h), ?_⟩
  have := List.find?_some h
  exact (by simpa using this : qname i = k).symm

theorem qidx_qname {n i : Nat} (hi : i < n) : qidx n (qname i) = some i := by
  unfold qidx
  exact find_unique (i := i) (List.mem_range.mpr hi) (by simp)
    (fun j _ hj => qname_inj (by simpa using hj))

theorem negated_nodup_aux (n : Nat) : ∀ l : List (String × BExp), (l.map (·.1)).Nodup →
    (l.filterMap fun p => qidx n p.1).Nodup
  | [], _ => by simp
  | p :: l, h => by
    rw [List.map_cons] at h
    have hnd := List.nodup_cons.mp h
    have ih := negated_nodup_aux n l hnd.2
    rw [List.filterMap_cons]
    cases hq : qidx n p.1 with
    | none => simpa using ih
    | some i =>
      refine List.nodup_cons.mpr ⟨?_, ih⟩
      intro hi
      obtain ⟨p', hp', hq'⟩ := List.mem_filterMap.mp hi
      have h1 := (qidx_some hq).2
      have h2 := (qidx_some hq').2
      exact hnd.1 (List.mem_map.mpr ⟨p', hp', h2.trans h1.symm⟩)

theorem negated_nodup {n : Nat} {l : List (String × BExp)} (h : (l.map (·.1)).Nodup) :
    (negated n l).Nodup := by
  unfold negated
  apply negated_nodup_aux
  exact List.Nodup.sublist (List.Sublist.map _ List.filter_sublist) h

theorem mem_negated {n : Nat} {l : List (String × BExp)} {i : Nat} :
    i ∈ negated n l ↔ ∃ p ∈ l, selfNeg p = true ∧ qidx n p.1 = some i := by
  unfold negated
  simp only [List.mem_filterMap, List.mem_filter]
  constructor
  · rintro ⟨p, ⟨hp, hs⟩, hq⟩; exact ⟨p, hp, hs, hq⟩
  · rintro ⟨p, hp, hs, hq⟩; exact ⟨p, ⟨hp, hs⟩, hq⟩

/-! ## a splice of the `xonly` shape is harmless -/

/-- **xonly ⇒ SectionOK.**  `exprs` are the section's decompiled expressions after a
meaning-preserving rewriting `f` (`custom_simplify_logic2`); if they are all `q = q` or `q = ~q`
and the new gates are the X gates of the self-negations, the new gates have the classical action
of the section's gates. -/
theorem xonly_ok {K : Kernel} (hK : K.Sound) (q : Quirks) (n : Nat) (sec : List AGate) (d : Dict)
    (hd : expsOfSection q K n sec = .ok d) (f : BExp → BExp) (hf : ∀ ρ e, (f e).eval ρ = e.eval ρ)
    (new : List AGate) (hx : xonly n (d.map fun p => (p.1, f p.2)) new = true) :
    SectionOK n sec new := by
  obtain ⟨hnd, hent⟩ := expsOfSection_entries hK q hd
  simp only [xonly, Bool.and_eq_true, List.all_eq_true, Bool.or_eq_true, beq_iff_eq] at hx
  obtain ⟨hall, hnew⟩ := hx
  have hkeys : ((d.map fun p => (p.1, f p.2)).map (·.1)) = Dict.keys d := by
    unfold Dict.keys; rw [List.map_map]; rfl
  refine xonly_sectionOK K hK q n sec d hd new (negated n (d.map fun p => (p.1, f p.2)))
    (negated_nodup (by rw [hkeys]; exact hnd)) hnew ?_ ?_
  · intro i hi ρ
    obtain ⟨p, hp, hs, hq⟩ := mem_negated.mp hi
    obtain ⟨p0, hp0, rfl⟩ := List.mem_map.mp hp
    have hk := (qidx_some hq).2
    dsimp only at hk
    have he : f p0.2 = .not (.sym p0.1) := bexp_eq_of_beq hs
    have hget : d.get (qname i) = p0.2 := by
      rw [← hk]; exact Dict.get_of_mem d hnd (k := p0.1) (e := p0.2) hp0
    unfold expOf
    rw [hget, ← hf ρ p0.2, he, hk]
    rfl
  · intro i hi hni ρ
    unfold expOf
    by_cases hm : qname i ∈ Dict.keys d
    · obtain ⟨p0, hp0, hk⟩ := List.mem_map.mp hm
      have hp : (p0.1, f p0.2) ∈ d.map fun p => (p.1, f p.2) := List.mem_map.mpr ⟨p0, hp0, rfl⟩
      have hget : d.get (qname i) = p0.2 := by
        rw [← hk]; exact Dict.get_of_mem d hnd (k := p0.1) (e := p0.2) hp0
      rw [hget, ← hf ρ p0.2]
      rcases hall _ hp with hid | hs
      · have he : f p0.2 = .sym p0.1 := bexp_eq_of_beq hid
        rw [he, hk]; rfl
      · exact absurd (mem_negated.mpr ⟨_, hp, hs, by dsimp only; rw [hk]; exact qidx_qname hi⟩) hni
    · rw [Dict.get_of_not_mem d _ hm]; rfl

/-- the expressions of every section of a decompilation are the symbolic execution of its gates -/
theorem decomp_exps {q : Quirks} {K : Kernel} {n a : Nat} {W : List AGate} {secs : List Section}
    (h : Decomp q K n a W secs) : ∀ s ∈ secs, expsOfSection q K n s.gates = .ok s.exps := by
  induction h with
  | done => intro s hs; cases hs
  | last a B R s _ _ hs =>
    intro s' hs'
    simp only [List.mem_singleton] at hs'; subst hs'
    exact hs.exps_eq
  | cons a B R sep W s secs _ _ _ _ hs _ ih =>
    intro s' hs'
    rcases List.mem_cons.mp hs' with hs' | hs'
    · subst hs'; exact hs.exps_eq
    · exact ih s' hs'

theorem decompile_exps {q : Quirks} {K : Kernel} {n : Nat} {gs : List AGate} {secs : List Section}
    (h : decompile q K n gs = .ok secs) : ∀ s ∈ secs, expsOfSection q K n s.gates = .ok s.exps :=
  decomp_exps (decompile_decomp q K n gs secs h)

/-- the simplified definitions of a section are keyed like its decompiled expressions: pairwise
distinct names of qubits of the circuit -/
theorem simplifySection_keysOK {K : Kernel} (hK : K.Sound) {q : Quirks} {n : Nat} {s : Section}
    (hd : expsOfSection q K n s.gates = .ok s.exps) (simp : BExp → BExp) (K4 : Kernel4) :
    keysOK n (simplifySection simp K4 s) = true := by
  obtain ⟨hnd, hent⟩ := expsOfSection_entries hK q hd
  unfold keysOK simplifySection
  simp only [Bool.and_eq_true, decide_eq_true_eq, List.all_eq_true, List.map_map]
  refine ⟨hnd, ?_⟩
  intro p hp
  obtain ⟨p0, hp0, rfl⟩ := List.mem_map.mp hp
  obtain ⟨i, hi, hk, _⟩ := hent p0.1 p0.2 hp0
  dsimp only
  rw [hk, qidx_qname hi]; rfl


/-! ## names of qubits are not names the compiler binds on its own -/

theorem qname_toList (i : Nat) : (qname i).toList = 'q' :: (toString i).toList := by
  unfold qname; simp [String.toList_append]

theorem qname_startsWith_us (i : Nat) (p : String) (hp : p.toList.head? = some '_') :
    (qname i).startsWith p = false := by
  rw [Bool.eq_false_iff]
  intro h
  rw [String.startsWith_string_iff, qname_toList] at h
  cases hl : p.toList with
  | nil => rw [hl] at hp; simp at hp
  | cons c cs =>
    rw [hl] at hp h
    simp at hp
    subst hp
    simp at h

theorem qname_ne_of_head (i : Nat) (x : String) (c : Char) (hx : x.toList.head? = some c) (hc : c ≠ 'q') :
    qname i ≠ x := by
  intro h
  rw [← h, qname_toList] at hx
  simp at hx
  exact hc hx.symm

theorem qname_not_reserved (i : Nat) : reservedName (qname i) = false := by
  have h1 : (qname i == "FALSE") = false := beq_eq_false_iff_ne.mpr (qname_ne_of_head i _ 'F' (by decide) (by decide))
  have h2 : (qname i == "TRUE") = false := beq_eq_false_iff_ne.mpr (qname_ne_of_head i _ 'T' (by decide) (by decide))
  have h3 : (qname i).startsWith "__" = false := qname_startsWith_us i _ (by decide)
  have h4 : ancLike (qname i) = false := by
    unfold ancLike; rw [qname_toList]; simp
  simp [reservedName, scratchName, h1, h2, h3, h4]

/-! ## frame of the nested compilation: the qubit map only gains names of new qubits -/

/-- `s'` comes from `s` by steps that only add qubits and bind names only to new qubits -/
structure QStep (s s' : CState) : Prop where
  nq_le : s.qc.numQubits ≤ s'.qc.numQubits
  qmap_new : ∀ p ∈ s'.qc.qmap, p ∈ s.qc.qmap ∨ s.qc.numQubits ≤ p.2

theorem QStep.refl (s : CState) : QStep s s := ⟨Nat.le_refl _, fun _ h => Or.inl h⟩

theorem QStep.trans {s s1 s2 : CState} (h1 : QStep s s1) (h2 : QStep s1 s2) : QStep s s2 :=
  ⟨Nat.le_trans h1.nq_le h2.nq_le, fun p hp =>
    (h2.qmap_new p hp).elim (fun h => h1.qmap_new p h) (fun h => Or.inr (Nat.le_trans h1.nq_le h))⟩

theorem QStep.of_same {s s' : CState} (hn : s'.qc.numQubits = s.qc.numQubits)
    (hq : s'.qc.qmap = s.qc.qmap) : QStep s s' :=
  ⟨Nat.le_of_eq hn.symm, fun p hp => Or.inl (hq ▸ hp)⟩

theorem QStep.of_qc {s s' : CState} (h : s'.qc = s.qc) : QStep s s' :=
  QStep.of_same (by rw [h]) (by rw [h])

/-- every successful run of `m` is a `QStep` -/
def Pres {α : Type} (m : M α) : Prop := ∀ {a : α} {s s' : CState}, m.run s = .ok (a, s') → QStep s s'

theorem Pres.pure {α : Type} (a : α) : Pres (pure a : M α) := by
  intro b s s' h; obtain ⟨_, rfl⟩ := run_pure_ok.mp h; exact QStep.refl _

theorem Pres.throw {α : Type} (e : String) : Pres (throw e : M α) := by
  intro b s s' h; exact (run_throw_ok.mp h).elim

theorem Pres.bind {α β : Type} {m : M α} {f : α → M β} (hm : Pres m) (hf : ∀ a, Pres (f a)) :
    Pres (m >>= f) := by
  intro b s s' h
  obtain ⟨a, s1, h1, h2⟩ := run_bind_ok.mp h
  exact (hm h1).trans (hf a h2)

theorem Pres.discard {α : Type} {m : M α} (hm : Pres m) : Pres (discard m) := by
  intro b s s' h
  obtain ⟨a, h1⟩ := run_discard_ok.mp h
  exact hm h1

theorem pres_getQC : Pres getQC := by
  intro a s s' h; obtain ⟨_, rfl⟩ := getQC_run h; exact QStep.refl _

theorem pres_event (e : String) : Pres (event e) := by
  intro a s s' h; have := event_run h; subst this; exact QStep.of_same rfl rfl

theorem pres_modQC (f : QC → QC) (hn : ∀ qc, (f qc).numQubits = qc.numQubits)
    (hq : ∀ qc, (f qc).qmap = qc.qmap) : Pres (modQC f) := by
  intro a s s' h; have := modQC_run h; subst this; exact QStep.of_same (hn _) (hq _)

theorem pres_append (cls : GClass) (wires : List Nat) : Pres (append cls wires) := by
  intro a s s' h; have ha := append_run h; exact QStep.of_same ha.nq ha.qmap

theorem pres_xGate (w : Nat) : Pres (xGate w) := pres_append _ _
theorem pres_cx (a b : Nat) : Pres (cx a b) := pres_append _ _
theorem pres_mcx (cs : List Nat) (t : Nat) : Pres (mcx cs t) := pres_append _ _

theorem pres_expqSet (e : BExp) (q : Nat) : Pres (expqSet e q) := by
  intro a s s' h; exact QStep.of_qc (expqSet_run h).1

theorem pres_expqRemove (qs : List Nat) : Pres (expqRemove qs) := by
  intro a s s' h; exact QStep.of_qc (expqRemove_run h)

theorem pres_expqGet (e : BExp) : Pres (expqGet? e) := by
  intro a s s' h; obtain ⟨rfl, _⟩ := expqGet?_run h; exact QStep.refl _

theorem lookup_run {n : String} {a : Nat} {s s' : CState} (h : (lookup n).run s = .ok (a, s')) :
    s' = s ∧ dictGet? s.qc.qmap n = some a := by
  unfold lookup at h
  simp only [run_bind_ok] at h
  obtain ⟨qc, s1, hq, h⟩ := h
  obtain ⟨rfl, rfl⟩ := getQC_run hq
  split at h
  · next i hi =>
    obtain ⟨rfl, rfl⟩ := run_pure_ok.mp h
    exact ⟨rfl, hi⟩
  · exact (run_throw_ok.mp h).elim

theorem pres_lookup (n : String) : Pres (lookup n) := by
  intro a s s' h; obtain ⟨rfl, _⟩ := lookup_run h; exact QStep.refl _

theorem pres_addQubit (name : String) : Pres (addQubit name) := by
  intro a s s' h
  obtain ⟨_, rfl⟩ := addQubit_run h
  refine ⟨Nat.le_succ _, fun p hp => ?_⟩
  rcases mem_dictSet hp with hp | hp
  · exact Or.inl hp
  · subst hp; exact Or.inr (Nat.le_refl _)

theorem pres_getFreeAncilla : Pres getFreeAncilla := by
  intro a s s' h
  unfold getFreeAncilla at h
  simp only [run_bind_ok] at h
  obtain ⟨s0, s1, hget, h⟩ := h
  obtain ⟨e1, e2⟩ := run_get_ok.mp hget
  subst e2; subst e1
  split at h
  · exact (run_throw_ok.mp h).elim
  · next c rest hch =>
    simp only [run_bind_ok] at h
    obtain ⟨u, s1, hset, h⟩ := h
    have := run_set_ok.mp hset; subst this
    split at h
    · simp only [run_bind_ok] at h
      obtain ⟨i, s2, hadd, u2, s3, hm, hif⟩ := h
      have hs4 : s' = s3 := by
        split at hif
        · simp only [run_bind_ok, run_throw_ok] at hif
          obtain ⟨_, _, hf, _⟩ := hif
          exact hf.elim
        · exact (run_pure_ok.mp hif).2
      subst hs4
      have q1 := pres_addQubit _ hadd
      have := modQC_run hm; subst this
      exact ⟨q1.nq_le, q1.qmap_new⟩
    · split at h
      · simp only [run_bind_ok, run_throw_ok] at h
        obtain ⟨_, _, hf, _⟩ := h
        exact hf.elim
      · simp only [run_bind_ok] at h
        obtain ⟨u2, s3, hm, hp⟩ := h
        obtain ⟨_, rfl⟩ := run_pure_ok.mp hp
        have := modQC_run hm; subst this
        exact QStep.of_same rfl rfl

end QV.Decopt
