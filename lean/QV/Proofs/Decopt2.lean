import QV.Model.Decopt
import QV.Proofs.Decopt
import QV.Proofs.Decopt2a
import QV.Proofs.CompilerInv
import QV.Proofs.CompilerSem
/-!
# C12: what the repaired splice test accepts

The re-synthesis of a section is `Compiler.compile (symbols n) exprs none false`: every qubit an
argument, no return bits, no final uncomputation.  This file proves, about the compiler model:

* (`xonly_ok` – a splice of the `xonly` shape is `SectionOK` – now in `QV/Proofs/Decopt2a.lean`);
* `stable_xonly` – for pairwise distinct definitions of `q0 … q{n-1}`, a re-synthesis whose qubit
  map is still `nameStable` is of the `xonly` shape.  Reason: as long as every definition so far
  was `q = q` or `q = ~q` the compiler state is `Clean` (no ancilla, nothing cached but symbols, the
  qubit map is the identity, only X gates); the first other definition `q{i} = e` is compiled into
  a qubit different from `i` (a symbol `q{j}` into `j`; a constant into the `FALSE`/`TRUE` qubit, a
  compound expression into an ancilla or into the cache, all `≥ n`), `q{i}` is re-mapped onto it,
  and no later definition maps it back (names are distinct) – so the qubit map is not stable.
-/
namespace QV.Decopt
open QV QV.Decompiler QV.Compiler

/-! ## names of qubits are not names the compiler binds on its own -/

theorem qname_toList (i : Nat) : (qname i).toList = 'q' :: (toString i).toList := by
  unfold qname; simp [String.toList_append]

theorem qname_startsWith_us (i : Nat) (p : String) (hp : p.toList.head? = some '_') :
    (qname i).startsWith p = false := by
  rw [Bool.eq_false_iff]
  intro h
  rw [String.startsWith_string_iff, qname_toList] at h
  cases hl : p.toList with
  | nil => rw [hl] at hp; simp at hp
  | cons c cs =>
    rw [hl] at hp h
    simp at hp
    subst hp
    simp at h

theorem qname_ne_of_head (i : Nat) (x : String) (c : Char) (hx : x.toList.head? = some c) (hc : c ≠ 'q') :
    qname i ≠ x := by
  intro h
  rw [← h, qname_toList] at hx
  simp at hx
  exact hc hx.symm

theorem qname_not_reserved (i : Nat) : reservedName (qname i) = false := by
  have h1 : (qname i == "FALSE") = false := beq_eq_false_iff_ne.mpr (qname_ne_of_head i _ 'F' (by decide) (by decide))
  have h2 : (qname i == "TRUE") = false := beq_eq_false_iff_ne.mpr (qname_ne_of_head i _ 'T' (by decide) (by decide))
  have h3 : (qname i).startsWith "__" = false := qname_startsWith_us i _ (by decide)
  have h4 : ancLike (qname i) = false := by
    unfold ancLike; rw [qname_toList]; simp
  simp [reservedName, scratchName, h1, h2, h3, h4]

/-! ## frame of the nested compilation: the qubit map only gains names of new qubits -/

/-- `s'` comes from `s` by steps that only add qubits and bind names only to new qubits -/
structure QStep (s s' : CState) : Prop where
  nq_le : s.qc.numQubits ≤ s'.qc.numQubits
  qmap_new : ∀ p ∈ s'.qc.qmap, p ∈ s.qc.qmap ∨ s.qc.numQubits ≤ p.2

theorem QStep.refl (s : CState) : QStep s s := ⟨Nat.le_refl _, fun _ h => Or.inl h⟩

theorem QStep.trans {s s1 s2 : CState} (h1 : QStep s s1) (h2 : QStep s1 s2) : QStep s s2 :=
  ⟨Nat.le_trans h1.nq_le h2.nq_le, fun p hp =>
    (h2.qmap_new p hp).elim (fun h => h1.qmap_new p h) (fun h => Or.inr (Nat.le_trans h1.nq_le h))⟩

theorem QStep.of_same {s s' : CState} (hn : s'.qc.numQubits = s.qc.numQubits)
    (hq : s'.qc.qmap = s.qc.qmap) : QStep s s' :=
  ⟨Nat.le_of_eq hn.symm, fun _ hp => Or.inl (hq ▸ hp)⟩

theorem QStep.of_qc {s s' : CState} (h : s'.qc = s.qc) : QStep s s' :=
  QStep.of_same (by rw [h]) (by rw [h])

/-- every successful run of `m` is a `QStep` -/
def Pres {α : Type} (m : M α) : Prop := ∀ ⦃a : α⦄ ⦃s s' : CState⦄, m.run s = .ok (a, s') → QStep s s'

theorem Pres.pure {α : Type} (a : α) : Pres (pure a : M α) := by
  intro b s s' h; obtain ⟨_, rfl⟩ := run_pure_ok.mp h; exact QStep.refl _

theorem Pres.throw {α : Type} (e : String) : Pres (throw e : M α) := by
  intro b s s' h; exact (run_throw_ok.mp h).elim

theorem Pres.bind {α β : Type} {m : M α} {f : α → M β} (hm : Pres m) (hf : ∀ a, Pres (f a)) :
    Pres (m >>= f) := by
  intro b s s' h
  obtain ⟨a, s1, h1, h2⟩ := run_bind_ok.mp h
  exact (hm h1).trans (hf a h2)

theorem Pres.discard {α : Type} {m : M α} (hm : Pres m) : Pres (discard m) := by
  intro b s s' h
  obtain ⟨a, h1⟩ := run_discard_ok.mp h
  exact hm h1

theorem pres_getQC : Pres getQC := by
  intro a s s' h; obtain ⟨_, rfl⟩ := getQC_run h; exact QStep.refl _

theorem pres_event (e : String) : Pres (event e) := by
  intro a s s' h; have := event_run h; subst this; exact QStep.of_same rfl rfl

theorem pres_modQC (f : QC → QC) (hn : ∀ qc, (f qc).numQubits = qc.numQubits)
    (hq : ∀ qc, (f qc).qmap = qc.qmap) : Pres (modQC f) := by
  intro a s s' h; have := modQC_run h; subst this; exact QStep.of_same (hn _) (hq _)

theorem pres_append (cls : GClass) (wires : List Nat) : Pres (append cls wires) := by
  intro a s s' h; have ha := append_run h; exact QStep.of_same ha.nq ha.qmap

theorem pres_xGate (w : Nat) : Pres (xGate w) := pres_append _ _
theorem pres_cx (a b : Nat) : Pres (cx a b) := pres_append _ _
theorem pres_mcx (cs : List Nat) (t : Nat) : Pres (mcx cs t) := pres_append _ _

theorem pres_expqSet (e : BExp) (q : Nat) : Pres (expqSet e q) := by
  intro a s s' h; exact QStep.of_qc (expqSet_run h).1

theorem pres_expqRemove (qs : List Nat) : Pres (expqRemove qs) := by
  intro a s s' h; exact QStep.of_qc (expqRemove_run h)

theorem pres_expqGet (e : BExp) : Pres (expqGet? e) := by
  intro a s s' h; obtain ⟨rfl, _⟩ := expqGet?_run h; exact QStep.refl _

theorem lookup_run {n : String} {a : Nat} {s s' : CState} (h : (lookup n).run s = .ok (a, s')) :
    s' = s ∧ dictGet? s.qc.qmap n = some a := by
  unfold lookup at h
  simp only [run_bind_ok] at h
  obtain ⟨qc, s1, hq, h⟩ := h
  obtain ⟨rfl, rfl⟩ := getQC_run hq
  split at h
  · next i hi =>
    obtain ⟨rfl, rfl⟩ := run_pure_ok.mp h
    exact ⟨rfl, hi⟩
  · exact (run_throw_ok.mp h).elim

theorem pres_lookup (n : String) : Pres (lookup n) := by
  intro a s s' h; obtain ⟨rfl, _⟩ := lookup_run h; exact QStep.refl _

theorem pres_addQubit (name : String) : Pres (addQubit name) := by
  intro a s s' h
  obtain ⟨_, rfl⟩ := addQubit_run h
  refine ⟨Nat.le_succ _, fun p hp => ?_⟩
  rcases mem_dictSet hp with hp | hp
  · exact Or.inl hp
  · subst hp; exact Or.inr (Nat.le_refl _)

theorem pres_getFreeAncilla : Pres getFreeAncilla := by
  intro a s s' h
  unfold getFreeAncilla at h
  simp only [run_bind_ok] at h
  obtain ⟨s0, s1, hget, h⟩ := h
  obtain ⟨e1, e2⟩ := run_get_ok.mp hget
  subst e2; subst e1
  split at h
  · exact (run_throw_ok.mp h).elim
  · next c rest hch =>
    simp only [run_bind_ok] at h
    obtain ⟨u, s1, hset, h⟩ := h
    have := run_set_ok.mp hset; subst this
    split at h
    · simp only [run_bind_ok] at h
      obtain ⟨i, s2, hadd, u2, s3, hm, hif⟩ := h
      have hs4 : s' = s3 := by
        split at hif
        · simp only [run_bind_ok, run_throw_ok] at hif
          obtain ⟨_, _, hf, _⟩ := hif
          exact hf.elim
        · exact (run_pure_ok.mp hif).2
      subst hs4
      have q1 := pres_addQubit _ hadd
      have := modQC_run hm; subst this
      exact ⟨q1.nq_le, q1.qmap_new⟩
    · split at h
      · simp only [run_bind_ok, run_throw_ok] at h
        obtain ⟨_, _, hf, _⟩ := h
        exact hf.elim
      · simp only [run_bind_ok] at h
        obtain ⟨u2, s3, hm, hp⟩ := h
        obtain ⟨_, rfl⟩ := run_pure_ok.mp hp
        have := modQC_run hm; subst this
        exact QStep.of_same rfl rfl

/-- one step of the syntax-directed proof that a `do` block is a `QStep` -/
macro "pres_step0" : tactic => `(tactic| first
  | exact Pres.pure _ | exact Pres.throw _ | exact pres_getQC | exact pres_event _ | exact pres_xGate _
  | exact pres_cx _ _ | exact pres_mcx _ _ | exact pres_expqSet _ _ | exact pres_expqRemove _
  | exact pres_expqGet _ | exact pres_lookup _ | exact pres_getFreeAncilla | exact pres_addQubit _
  | (apply pres_modQC <;> intro _ <;> rfl)
  | assumption
  | refine Pres.bind ?_ (fun _ => ?_) | refine Pres.discard ?_ | split)

theorem pres_markAncilla (w : Nat) : Pres (markAncilla w) := by
  unfold markAncilla
  repeat' pres_step0

theorem pres_markAll : ∀ ws : List Nat, Pres (markAll ws)
  | [] => by unfold markAll; exact Pres.pure _
  | w :: ws => by
    unfold markAll
    have := pres_markAll ws
    have := pres_markAncilla w
    repeat' pres_step0

theorem pres_cxAll (d : Nat) : ∀ is : List Nat, Pres (cxAll d is)
  | [] => by unfold cxAll; exact Pres.pure _
  | i :: is => by
    unfold cxAll
    have := pres_cxAll d is
    repeat' pres_step0

theorem pres_orGate (acc i d : Nat) : Pres (do cx acc d; cx i d; mcx [acc, i] d : M Unit) :=
  Pres.bind (pres_cx _ _) (fun _ => Pres.bind (pres_cx _ _) (fun _ => pres_mcx _ _))

theorem pres_orChain (dest : Nat) : ∀ (rest : List Nat) (acc : Nat), Pres (orChain dest acc rest)
  | [], acc => by unfold orChain; exact Pres.pure _
  | [i], acc => by
    unfold orChain
    exact pres_orGate _ _ _
  | i :: j :: rest, acc => by
    unfold orChain
    refine Pres.bind pres_getFreeAncilla (fun d => ?_)
    refine Pres.bind (pres_markAncilla _) (fun _ => ?_)
    refine Pres.bind (pres_cx _ _) (fun _ => ?_)
    refine Pres.bind (pres_cx _ _) (fun _ => ?_)
    refine Pres.bind (pres_mcx _ _) (fun _ => ?_)
    exact pres_orChain dest (j :: rest) d

theorem pres_orWide (d : Nat) (erets es : List Nat) : Pres (orWide d erets es) := by
  unfold orWide
  dsimp only
  split
  · exact Pres.bind (Pres.throw _) (fun _ => by split <;> first | exact Pres.pure _ | exact pres_orChain _ _ _)
  · split
    · exact Pres.pure _
    · exact pres_orChain _ _ _

theorem pres_constFalse : Pres constFalse := by
  unfold constFalse
  repeat' pres_step0

theorem pres_constTrue : Pres constTrue := by
  unfold constTrue
  repeat' pres_step0

theorem pres_cacheHit (q : Nat) (dest : Option Nat) : Pres (cacheHit q dest) := by
  unfold cacheHit
  repeat' pres_step0

theorem pres_compileSymbol_none (n : String) : Pres (compileSymbol n none) := by
  intro a s s' h
  obtain ⟨rfl, _⟩ := compileSymbol_none_run h
  exact QStep.refl _

macro "pres_prim" : tactic => `(tactic| first
  | exact Pres.pure _ | exact Pres.throw _ | exact pres_getQC | exact pres_event _ | exact pres_xGate _
  | exact pres_cx _ _ | exact pres_mcx _ _ | exact pres_expqSet _ _ | exact pres_expqRemove _
  | exact pres_expqGet _ | exact pres_lookup _ | exact pres_getFreeAncilla
  | exact pres_markAncilla _ | exact pres_markAll _ | exact pres_cxAll _ _ | exact pres_orWide _ _ _
  | exact pres_constFalse | exact pres_constTrue | exact pres_cacheHit _ _
  | exact pres_compileSymbol_none _
  | assumption
  | refine Pres.bind ?_ (fun _ => ?_))

macro "pres_step" : tactic => `(tactic| first | with_reducible pres_prim | split)

/-- `compileExpr e dest none` is a `QStep`, for every destination -/
def ExprP (e : BExp) : Prop := ∀ dest : Option Nat, Pres (compileExpr e dest none)
def ArgsP (as : List BExp) : Prop := Pres (compileArgs as)
def XorP (as : List BExp) : Prop := ∀ d : Nat, Pres (compileXorArgs as d)

theorem exprP_ff : ExprP .ff := by intro dest; unfold compileExpr; exact pres_constFalse
theorem exprP_tt : ExprP .tt := by intro dest; unfold compileExpr; exact pres_constTrue
theorem exprP_sym (n : String) : ExprP (.sym n) := by
  intro dest; unfold compileExpr; exact pres_compileSymbol_none n
theorem exprP_ite (a b c : BExp) : ExprP (.ite a b c) := by
  intro dest; unfold compileExpr; exact Pres.throw _
theorem exprP_imp (a b : BExp) : ExprP (.imp a b) := by
  intro dest; unfold compileExpr; exact Pres.throw _

theorem exprP_xor {args : List BExp} (ih : XorP args) : ExprP (.xor args) := by
  intro dest
  unfold compileExpr
  dsimp only
  have ih' : ∀ d, Pres (compileXorArgs args d) := ih
  repeat' (first | with_reducible exact ih' _ | pres_step)

theorem exprP_not {x : BExp} (ih : ExprP x) : ExprP (.not x) := by
  intro dest
  unfold compileExpr
  dsimp only
  have ih' : ∀ d, Pres (compileExpr x d none) := ih
  repeat' (first | with_reducible exact ih' _ | pres_step)

theorem exprP_and {args : List BExp} (ih : ArgsP args) : ExprP (.and args) := by
  intro dest
  unfold compileExpr
  dsimp only
  have ih' : Pres (compileArgs args) := ih
  repeat' pres_step

theorem exprP_or {args : List BExp} (ih : ArgsP args) : ExprP (.or args) := by
  intro dest
  unfold compileExpr
  dsimp only
  have ih' : Pres (compileArgs args) := ih
  repeat' pres_step

theorem argsP_nil : ArgsP [] := by unfold ArgsP compileArgs; exact Pres.pure _
theorem argsP_cons {a : BExp} {as : List BExp} (iha : ExprP a) (ihs : ArgsP as) : ArgsP (a :: as) := by
  unfold ArgsP compileArgs
  have h1 : Pres (compileExpr a none none) := iha none
  have h2 : Pres (compileArgs as) := ihs
  repeat' pres_step

theorem xorP_nil : XorP [] := by intro d; unfold compileXorArgs; exact Pres.pure _

theorem xorP_cons {a : BExp} {as : List BExp} (iha : ExprP a) (ihi : ExprP (stripNot a))
    (ihs : XorP as) : XorP (a :: as) := by
  intro d
  have h1 : ∀ dest, Pres (compileExpr a dest none) := iha
  have h2 : ∀ dest, Pres (compileExpr (stripNot a) dest none) := ihi
  have h3 : ∀ d, Pres (compileXorArgs as d) := ihs
  cases a with
  | not inner =>
    cases inner <;> simp only [stripNot] at h2 <;> unfold compileXorArgs <;>
      repeat' (first | with_reducible (first | exact h1 _ | exact h2 _ | exact h3 _) | pres_step)
  | _ => unfold compileXorArgs <;> repeat' (first | with_reducible (first | exact h1 _ | exact h2 _ | exact h3 _) | pres_step)

mutual
theorem exprP : ∀ e : BExp, ExprP e
  | .ff => exprP_ff
  | .tt => exprP_tt
  | .sym n => exprP_sym n
  | .xor args => exprP_xor (xorP args)
  | .not a => exprP_not (exprP a)
  | .and args => exprP_and (argsP args)
  | .or args => exprP_or (argsP args)
  | .ite a b c => exprP_ite a b c
  | .imp a b => exprP_imp a b
theorem argsP : ∀ as : List BExp, ArgsP as
  | [] => argsP_nil
  | a :: as => argsP_cons (exprP a) (argsP as)
theorem xorP : ∀ as : List BExp, XorP as
  | [] => xorP_nil
  | .not i :: as => xorP_cons (exprP (.not i)) (exprP i) (xorP as)
  | .ff :: as => xorP_cons (exprP .ff) (exprP .ff) (xorP as)
  | .tt :: as => xorP_cons (exprP .tt) (exprP .tt) (xorP as)
  | .sym n :: as => xorP_cons (exprP (.sym n)) (exprP (.sym n)) (xorP as)
  | .xor l :: as => xorP_cons (exprP (.xor l)) (exprP (.xor l)) (xorP as)
  | .and l :: as => xorP_cons (exprP (.and l)) (exprP (.and l)) (xorP as)
  | .or l :: as => xorP_cons (exprP (.or l)) (exprP (.or l)) (xorP as)
  | .ite x y z :: as => xorP_cons (exprP (.ite x y z)) (exprP (.ite x y z)) (xorP as)
  | .imp x y :: as => xorP_cons (exprP (.imp x y)) (exprP (.imp x y)) (xorP as)
end

/-! ## the qubit a nested compilation returns -/

/-- every successful run of `m` returns a value satisfying `P` -/
def Ret {α : Type} (P : α → Prop) (m : M α) : Prop := ∀ ⦃a : α⦄ ⦃s s' : CState⦄, m.run s = .ok (a, s') → P a

theorem Ret.pure {α : Type} {P : α → Prop} {a : α} (h : P a) : Ret P (pure a : M α) := by
  intro b s s' hr; obtain ⟨rfl, _⟩ := run_pure_ok.mp hr; exact h

theorem Ret.throw {α : Type} {P : α → Prop} (e : String) : Ret P (throw e : M α) := by
  intro b s s' h; exact (run_throw_ok.mp h).elim

theorem Ret.bind {α β : Type} {P : β → Prop} {m : M α} {f : α → M β} (hf : ∀ a, Ret P (f a)) :
    Ret P (m >>= f) := by
  intro b s s' h
  obtain ⟨a, s1, _, h2⟩ := run_bind_ok.mp h
  exact hf a h2

macro "ret_prim" : tactic => `(tactic| first
  | exact Ret.pure rfl | exact Ret.throw _ | assumption | refine Ret.bind (fun _ => ?_))
macro "ret_step" : tactic => `(tactic| first | with_reducible ret_prim | split)

theorem ret_cacheHit (q d : Nat) : Ret (· = d) (cacheHit q (some d)) := by
  unfold cacheHit
  dsimp only
  refine Ret.bind (fun _ => ?_)
  split
  · repeat' ret_step
  · next h =>
    have : d = q := by simpa using h
    subst this
    exact Ret.pure rfl

theorem ret_not (x : BExp) (d : Nat) : Ret (· = d) (compileExpr (.not x) (some d) none) := by
  unfold compileExpr
  dsimp only
  simp only [pure_bind, Option.isNone_some, Bool.false_and, Bool.false_eq_true, ↓reduceIte]
  repeat' (first | with_reducible exact ret_cacheHit _ _ | ret_step)

theorem ret_and (args : List BExp) (d : Nat) : Ret (· = d) (compileExpr (.and args) (some d) none) := by
  unfold compileExpr
  dsimp only
  simp only [pure_bind, Option.isNone_some, Bool.false_eq_true, ↓reduceIte]
  repeat' (first | with_reducible exact ret_cacheHit _ _ | ret_step)

theorem ret_or (args : List BExp) (d : Nat) : Ret (· = d) (compileExpr (.or args) (some d) none) := by
  unfold compileExpr
  dsimp only
  simp only [pure_bind, Option.isNone_some, Bool.false_eq_true, ↓reduceIte]
  repeat' (first | with_reducible exact ret_cacheHit _ _ | ret_step)


/-- the constants' qubits, if any, lie above the `n` argument qubits -/
def CInv (n : Nat) (s : CState) : Prop :=
  n ≤ s.qc.numQubits ∧ ∀ p ∈ s.qc.qmap, (p.1 = "FALSE" ∨ p.1 = "TRUE") → n ≤ p.2

theorem CInv.step {n : Nat} {s s' : CState} (h : CInv n s) (st : QStep s s') : CInv n s' :=
  ⟨Nat.le_trans h.1 st.nq_le, fun p hp hn =>
    (st.qmap_new p hp).elim (fun hp' => h.2 p hp' hn) (fun hge => Nat.le_trans h.1 hge)⟩

theorem constFalse_ge {a : Nat} {s s' : CState} (h : constFalse.run s = .ok (a, s')) {n : Nat}
    (hc : CInv n s) : n ≤ a := by
  have hc' := hc.step (pres_constFalse h)
  unfold constFalse at h
  obtain ⟨qc, s1, _, h1⟩ := run_bind_ok.mp h
  dsimp only at h1
  split at h1
  · obtain ⟨u, s2, _, h2⟩ := run_bind_ok.mp h1
    obtain ⟨rfl, hl⟩ := lookup_run h2
    exact hc'.2 _ (dictGet?_mem hl) (Or.inl rfl)
  · obtain ⟨rfl, hl⟩ := lookup_run h1
    exact hc'.2 _ (dictGet?_mem hl) (Or.inl rfl)

theorem constTrue_ge {a : Nat} {s s' : CState} (h : constTrue.run s = .ok (a, s')) {n : Nat}
    (hc : CInv n s) : n ≤ a := by
  have hc' := hc.step (pres_constTrue h)
  unfold constTrue at h
  obtain ⟨qc, s1, _, h1⟩ := run_bind_ok.mp h
  dsimp only at h1
  split at h1
  · obtain ⟨u, s2, _, h2⟩ := run_bind_ok.mp h1
    obtain ⟨l, s3, _, h3⟩ := run_bind_ok.mp h2
    obtain ⟨u2, s4, _, h4⟩ := run_bind_ok.mp h3
    obtain ⟨rfl, hl⟩ := lookup_run h4
    exact hc'.2 _ (dictGet?_mem hl) (Or.inr rfl)
  · obtain ⟨rfl, hl⟩ := lookup_run h1
    exact hc'.2 _ (dictGet?_mem hl) (Or.inr rfl)

/-- compiled into a given destination `d`, a compound expression ends on `d` or on a constant's qubit -/
def RetE (e : BExp) : Prop := ∀ (d : Nat) {a : Nat} {s s' : CState},
  (compileExpr e (some d) none).run s = .ok (a, s') → isSym e = false → ∀ n, CInv n s → a = d ∨ n ≤ a

def RetX (as : List BExp) : Prop := ∀ (d : Nat) {a : Nat} {s s' : CState},
  (compileXorArgs as d).run s = .ok (a, s') → ∀ n, CInv n s → a = d ∨ n ≤ a

theorem retE_ff : RetE .ff := by
  intro d a s s' h _ n hc
  unfold compileExpr at h
  exact Or.inr (constFalse_ge h hc)

theorem retE_tt : RetE .tt := by
  intro d a s s' h _ n hc
  unfold compileExpr at h
  exact Or.inr (constTrue_ge h hc)

theorem retE_sym (x : String) : RetE (.sym x) := by
  intro d a s s' _ hs; simp [isSym] at hs

theorem retE_ite (a b c : BExp) : RetE (.ite a b c) := by
  intro d r s s' h; unfold compileExpr at h; exact (run_throw_ok.mp h).elim

theorem retE_imp (a b : BExp) : RetE (.imp a b) := by
  intro d r s s' h; unfold compileExpr at h; exact (run_throw_ok.mp h).elim

theorem retE_not (x : BExp) : RetE (.not x) := fun d _ _ _ h _ _ _ => Or.inl (ret_not x d h)
theorem retE_and (l : List BExp) : RetE (.and l) := fun d _ _ _ h _ _ _ => Or.inl (ret_and l d h)
theorem retE_or (l : List BExp) : RetE (.or l) := fun d _ _ _ h _ _ _ => Or.inl (ret_or l d h)

theorem retE_xor {args : List BExp} (ih : RetX args) : RetE (.xor args) := by
  intro d a s s' h _ n hc
  unfold compileExpr at h
  dsimp only at h
  obtain ⟨r, s1, hget, h1⟩ := run_bind_ok.mp h
  obtain ⟨rfl, _⟩ := expqGet?_run hget
  cases r with
  | some q => exact Or.inl (ret_cacheHit q d h1)
  | none =>
    dsimp only at h1
    simp only [Option.isNone_some, Bool.false_eq_true, ↓reduceIte] at h1
    obtain ⟨d0, s2, hp, h2⟩ := run_bind_ok.mp h1
    obtain ⟨rfl, rfl⟩ := run_pure_ok.mp hp
    obtain ⟨d', s3, hx, h3⟩ := run_bind_ok.mp h2
    obtain ⟨rfl, rfl⟩ := run_pure_ok.mp h3
    exact ih d0 hx n hc

theorem retX_nil : RetX [] := by
  intro d a s s' h n _
  unfold compileXorArgs at h
  obtain ⟨rfl, _⟩ := run_pure_ok.mp h
  exact Or.inl rfl

theorem ret_chain {n a d d' : Nat} (h1 : d' = d ∨ n ≤ d') (h2 : a = d' ∨ n ≤ a) : a = d ∨ n ≤ a := by
  rcases h2 with rfl | h2
  · exact h1
  · exact Or.inr h2

theorem xorStep_ret {a : BExp} {as : List BExp} {d r : Nat} {s s' : CState}
    (iha : RetE a) (hns : isSym a = false) (ihs : RetX as)
    (h : StateT.run (do
          let d' ← compileExpr a (some d) none
          if d' != d then event "xorRepl"
          compileXorArgs as d' : M Nat) s = .ok (r, s'))
    {n : Nat} (hc : CInv n s) : r = d ∨ n ≤ r := by
  obtain ⟨d', s1, h1, h2⟩ := run_bind_ok.mp h
  have hd' := iha d h1 hns n hc
  have hc1 := hc.step (exprP a (some d) h1)
  dsimp only at h2
  rcases run_ite_ok.mp h2 with ⟨_, h2⟩ | ⟨_, h2⟩
  · obtain ⟨u, s2, hev, h3⟩ := run_bind_ok.mp h2
    exact ret_chain hd' (ihs d' h3 n (hc1.step (pres_event _ hev)))
  · exact ret_chain hd' (ihs d' h2 n hc1)

theorem xorNotStep_ret {inner : BExp} {as : List BExp} {d r : Nat} {s s' : CState}
    (iha : RetE inner) (hns : isSym inner = false) (ihs : RetX as)
    (h : StateT.run (do
          let d' ← compileExpr inner (some d) none
          if d' != d then event "xorRepl"
          xGate d'
          compileXorArgs as d' : M Nat) s = .ok (r, s'))
    {n : Nat} (hc : CInv n s) : r = d ∨ n ≤ r := by
  obtain ⟨d', s1, h1, h2⟩ := run_bind_ok.mp h
  have hd' := iha d h1 hns n hc
  have hc1 := hc.step (exprP inner (some d) h1)
  have fin : ∀ {s2 : CState}, CInv n s2 →
      StateT.run (do xGate d'; compileXorArgs as d' : M Nat) s2 = .ok (r, s') → r = d ∨ n ≤ r := by
    intro s2 hc2 h3
    obtain ⟨u2, s3, hx, h4⟩ := run_bind_ok.mp h3
    exact ret_chain hd' (ihs d' h4 n (hc2.step (pres_xGate _ hx)))
  dsimp only at h2
  rcases run_ite_ok.mp h2 with ⟨_, h2⟩ | ⟨_, h2⟩
  · obtain ⟨u, s2, hev, h3⟩ := run_bind_ok.mp h2
    exact fin (hc1.step (pres_event _ hev)) h3
  · exact fin hc1 h2

theorem retX_cons {a : BExp} {as : List BExp} (iha : RetE a) (ihi : RetE (stripNot a))
    (ihs : RetX as) : RetX (a :: as) := by
  intro d r s s' h n hc
  cases a with
  | sym x =>
    unfold compileXorArgs at h
    obtain ⟨q, s1, hl, h1⟩ := run_bind_ok.mp h
    obtain ⟨rfl, _⟩ := lookup_run hl
    rcases run_ite_ok.mp h1 with ⟨_, h1⟩ | ⟨_, h1⟩
    · exact ihs d h1 n hc
    · obtain ⟨u, s2, hcx, h2⟩ := run_bind_ok.mp h1
      exact ihs d h2 n (hc.step (pres_cx _ _ hcx))
  | not inner =>
    cases inner with
    | sym x =>
      unfold compileXorArgs at h
      exact xorStep_ret iha rfl ihs h hc
    | ff => unfold compileXorArgs at h; exact xorNotStep_ret ihi rfl ihs h hc
    | tt => unfold compileXorArgs at h; exact xorNotStep_ret ihi rfl ihs h hc
    | xor l => unfold compileXorArgs at h; exact xorNotStep_ret ihi rfl ihs h hc
    | not l => unfold compileXorArgs at h; exact xorNotStep_ret ihi rfl ihs h hc
    | and l => unfold compileXorArgs at h; exact xorNotStep_ret ihi rfl ihs h hc
    | or l => unfold compileXorArgs at h; exact xorNotStep_ret ihi rfl ihs h hc
    | ite x y z => unfold compileXorArgs at h; exact xorNotStep_ret ihi rfl ihs h hc
    | imp x y => unfold compileXorArgs at h; exact xorNotStep_ret ihi rfl ihs h hc
  | ff => unfold compileXorArgs at h; exact xorStep_ret iha rfl ihs h hc
  | tt => unfold compileXorArgs at h; exact xorStep_ret iha rfl ihs h hc
  | xor l => unfold compileXorArgs at h; exact xorStep_ret iha rfl ihs h hc
  | and l => unfold compileXorArgs at h; exact xorStep_ret iha rfl ihs h hc
  | or l => unfold compileXorArgs at h; exact xorStep_ret iha rfl ihs h hc
  | ite x y z => unfold compileXorArgs at h; exact xorStep_ret iha rfl ihs h hc
  | imp x y => unfold compileXorArgs at h; exact xorStep_ret iha rfl ihs h hc

mutual
theorem retE : ∀ e : BExp, RetE e
  | .ff => retE_ff
  | .tt => retE_tt
  | .sym x => retE_sym x
  | .xor args => retE_xor (retX args)
  | .not a => retE_not a
  | .and args => retE_and args
  | .or args => retE_or args
  | .ite a b c => retE_ite a b c
  | .imp a b => retE_imp a b
theorem retX : ∀ as : List BExp, RetX as
  | [] => retX_nil
  | .not i :: as => retX_cons (retE (.not i)) (retE i) (retX as)
  | .ff :: as => retX_cons (retE .ff) (retE .ff) (retX as)
  | .tt :: as => retX_cons (retE .tt) (retE .tt) (retX as)
  | .sym x :: as => retX_cons (retE (.sym x)) (retE (.sym x)) (retX as)
  | .xor l :: as => retX_cons (retE (.xor l)) (retE (.xor l)) (retX as)
  | .and l :: as => retX_cons (retE (.and l)) (retE (.and l)) (retX as)
  | .or l :: as => retX_cons (retE (.or l)) (retE (.or l)) (retX as)
  | .ite x y z :: as => retX_cons (retE (.ite x y z)) (retE (.ite x y z)) (retX as)
  | .imp x y :: as => retX_cons (retE (.imp x y)) (retE (.imp x y)) (retX as)
end

/-! ## the state of the compiler while every definition so far was `q = q` or `q = ~q` -/

/-- no ancilla, nothing cached but symbols, the qubit map is `q{i} ↦ i` for `i < n` -/
structure Clean (n : Nat) (s : CState) : Prop where
  good : Good s
  nq : s.qc.numQubits = n
  anc : s.qc.anc = []
  free : s.qc.free = []
  marked : s.qc.marked = []
  expq : ∀ p ∈ s.expq, isSym p.1 = true
  qmap_get : ∀ i, i < n → dictGet? s.qc.qmap (qname i) = some i
  qmap_mem : ∀ p ∈ s.qc.qmap, ∃ i, i < n ∧ p = (qname i, i)
  kept : s.qc.kept = []

theorem Clean.cinv {n : Nat} {s : CState} (h : Clean n s) : CInv n s := by
  refine ⟨Nat.le_of_eq h.nq.symm, fun p hp hn => ?_⟩
  obtain ⟨i, _, rfl⟩ := h.qmap_mem p hp
  rcases hn with hn | hn
  · exact absurd hn (qname_ne_of_head i _ 'F' (by decide) (by decide))
  · exact absurd hn (qname_ne_of_head i _ 'T' (by decide) (by decide))

theorem Clean.scratch {n : Nat} {s : CState} (h : Clean n s) : ScratchGe n s :=
  ⟨fun a ha => (by rw [h.anc] at ha; cases ha), fun a ha => (by rw [h.free] at ha; cases ha),
   fun a ha => (by rw [h.marked] at ha; cases ha), fun a ha => (by rw [h.kept] at ha; cases ha)⟩

theorem sym_beq_false {k e : BExp} (hk : isSym k = true) (he : isSym e = false) : (k == e) = false := by
  cases k <;> simp [isSym] at hk
  cases e <;> simp [isSym] at he <;> rfl

theorem Clean.miss {n : Nat} {s : CState} (h : Clean n s) {e : BExp} (he : isSym e = false)
    {r : Option Nat} {s' : CState} (hget : (expqGet? e).run s = .ok (r, s')) : s' = s ∧ r = none :=
  expqGet?_miss hget (fun p hp => sym_beq_false (h.expq p hp) he)

theorem getFreeAncilla_ge {a : Nat} {s s' : CState} (h : getFreeAncilla.run s = .ok (a, s')) {n : Nat}
    (hs : ScratchGe n s) (hn : n ≤ s.qc.numQubits) : n ≤ a := by
  unfold getFreeAncilla at h
  simp only [run_bind_ok] at h
  obtain ⟨s0, s1, hget, h⟩ := h
  obtain ⟨e1, e2⟩ := run_get_ok.mp hget
  subst e2; subst e1
  split at h
  · exact (run_throw_ok.mp h).elim
  · next c rest hch =>
    simp only [run_bind_ok] at h
    obtain ⟨u, s1, hset, h⟩ := h
    have := run_set_ok.mp hset; subst this
    split at h
    · simp only [run_bind_ok] at h
      obtain ⟨i, s2, hadd, u2, s3, hm, hif⟩ := h
      have hs4 : a = i := by
        split at hif
        · simp only [run_bind_ok, run_throw_ok] at hif
          obtain ⟨_, _, hf, _⟩ := hif
          exact hf.elim
        · exact (run_pure_ok.mp hif).1
      subst hs4
      obtain ⟨rfl, _⟩ := addQubit_run hadd
      exact hn
    · split at h
      · simp only [run_bind_ok, run_throw_ok] at h
        obtain ⟨_, _, hf, _⟩ := h
        exact hf.elim
      · next hc =>
        simp only [run_bind_ok] at h
        obtain ⟨u2, s3, hm, hp⟩ := h
        obtain ⟨rfl, _⟩ := run_pure_ok.mp hp
        have : a ∈ s0.qc.free := by simpa using hc
        exact hs.2.1 a this

theorem compileSymbol_plain_run {t x : String} {a : Nat} {s s' : CState}
    (hx : x.startsWith "_ret" = false) (h : (compileSymbol t (some x)).run s = .ok (a, s')) :
    s' = s ∧ dictGet? s.qc.qmap t = some a := by
  unfold compileSymbol at h
  dsimp only at h
  simp only [hx, Bool.false_eq_true, ↓reduceIte] at h
  obtain ⟨u, s0, hp, h⟩ := run_bind_ok.mp h
  obtain ⟨_, rfl⟩ := run_pure_ok.mp hp
  obtain ⟨qc, s1, hq, h⟩ := run_bind_ok.mp h
  obtain ⟨rfl, rfl⟩ := getQC_run hq
  split at h
  · next i hi =>
    obtain ⟨rfl, rfl⟩ := run_pure_ok.mp h
    exact ⟨rfl, hi⟩
  · exact (run_throw_ok.mp h).elim


/-! ## one definition `q{i} = e` from a clean state -/

theorem Ret.apply {α : Type} {P : α → Prop} {m : M α} {a : α} {s s' : CState}
    (h : m.run s = .ok (a, s')) (hr : Ret P m) : P a := hr h

/-- what compiling the right-hand side of `q{i} = e` does to a clean state: nothing (`e = q{i}`),
one X gate on qubit `i` (`e = ~q{i}`), or it returns a qubit other than `i` -/
def TopRes (i : Nat) (e : BExp) (iret : Nat) (s s1 : CState) : Prop :=
  (e = .sym (qname i) ∧ iret = i ∧ s1 = s) ∨
  (e = .not (.sym (qname i)) ∧ iret = i ∧ Appended .X ([] ++ [i]) s s1) ∨ iret ≠ i

theorem topRes_ge {n i : Nat} (hi : i < n) {e : BExp} {iret : Nat} {s s1 : CState} (h : n ≤ iret) :
    TopRes i e iret s s1 := Or.inr (Or.inr (by omega))

theorem top_sym {n i : Nat} (hi : i < n) (t : String) {iret : Nat} {s s1 : CState} (hc : Clean n s)
    (h : (compileExpr (.sym t) none (some (qname i))).run s = .ok (iret, s1)) :
    TopRes i (.sym t) iret s s1 := by
  unfold compileExpr at h
  obtain ⟨rfl, hl⟩ := compileSymbol_plain_run (qname_startsWith_us i _ (by decide)) h
  obtain ⟨j, hj, hp⟩ := hc.qmap_mem _ (dictGet?_mem hl)
  obtain ⟨rfl, rfl⟩ := Prod.mk.inj hp
  by_cases hji : iret = i
  · subst hji; exact Or.inl ⟨rfl, rfl, rfl⟩
  · exact Or.inr (Or.inr hji)

theorem top_not {n i : Nat} (hi : i < n) (x : BExp) {iret : Nat} {s s1 : CState} (hc : Clean n s)
    (h : (compileExpr (.not x) none (some (qname i))).run s = .ok (iret, s1)) :
    TopRes i (.not x) iret s s1 := by
  unfold compileExpr at h
  dsimp only at h
  obtain ⟨r, s0, hget, h1⟩ := run_bind_ok.mp h
  obtain ⟨rfl, rfl⟩ := hc.miss (e := .not x) rfl hget
  dsimp only at h1
  rcases run_ite_ok.mp h1 with ⟨hself, k1⟩ | ⟨_, k1⟩
  · have he : x = .sym (qname i) := by
      cases x <;> simp at hself
      rw [hself]
    subst he
    obtain ⟨iret0, s2, hl, h2⟩ := run_bind_ok.mp k1
    obtain ⟨rfl, hl'⟩ := lookup_run hl
    rw [hc.qmap_get i hi] at hl'
    obtain rfl : i = iret0 := Option.some.inj hl'
    obtain ⟨u, s3, hx, h3⟩ := run_bind_ok.mp h2
    obtain ⟨hir, rfl⟩ := run_pure_ok.mp h3
    exact Or.inr (Or.inl ⟨rfl, hir, xGate_run hx⟩)
  · obtain ⟨sh, s0', hsh, k1'⟩ := run_bind_ok.mp k1
    have hs0' := (expqGet?_ok hsh hc.good).1
    rw [hs0'] at k1'
    obtain ⟨eret, s2, he, h2⟩ := run_bind_ok.mp k1'
    obtain ⟨st1, _⟩ := exprSpec (B := fun _ => False) x none none he hc.good
      (by intro d hd; cases hd) (by intro y hy; cases hy)
    have hs2 : ScratchGe n s2 := st1.ge_keep n (Nat.le_of_eq hc.nq.symm) hc.scratch
    have hn2 : n ≤ s2.qc.numQubits := hc.nq ▸ st1.nq_le
    obtain ⟨qc, s3, hq, h3⟩ := run_bind_ok.mp h2
    obtain ⟨rfl, rfl⟩ := getQC_run hq
    split at h3
    · next hcond =>
      have hres : iret = eret := Ret.apply (P := (· = eret)) h3 (by repeat' ret_step)
      have hmem : eret ∈ s3.qc.anc := by
        simp only [Bool.and_eq_true] at hcond
        simpa using hcond.1.2
      exact topRes_ge hi (hres ▸ hs2.1 eret hmem)
    · obtain ⟨d, s4, hf, h4⟩ := run_bind_ok.mp h3
      have hd := getFreeAncilla_ge hf hs2 hn2
      have hres : iret = d := Ret.apply (P := (· = d)) h4 (by repeat' ret_step)
      exact topRes_ge hi (hres ▸ hd)

theorem top_and {n i : Nat} (hi : i < n) (args : List BExp) {iret : Nat} {s s1 : CState} (hc : Clean n s)
    (h : (compileExpr (.and args) none (some (qname i))).run s = .ok (iret, s1)) :
    TopRes i (.and args) iret s s1 := by
  unfold compileExpr at h
  dsimp only at h
  obtain ⟨r, s0, hget, h1⟩ := run_bind_ok.mp h
  obtain ⟨rfl, rfl⟩ := hc.miss (e := .and args) rfl hget
  dsimp only at h1
  obtain ⟨erets, s2, hargs, h2⟩ := run_bind_ok.mp h1
  obtain ⟨st1, _⟩ := argsSpec (B := fun _ => False) args hargs hc.good
  have hs2 : ScratchGe n s2 := st1.ge_keep n (Nat.le_of_eq hc.nq.symm) hc.scratch
  have hn2 : n ≤ s2.qc.numQubits := hc.nq ▸ st1.nq_le
  obtain ⟨d, s4, hf, h4⟩ := run_bind_ok.mp h2
  have hd := getFreeAncilla_ge hf hs2 hn2
  have hres : iret = d := Ret.apply (P := (· = d)) h4 (by repeat' ret_step)
  exact topRes_ge hi (hres ▸ hd)

theorem top_or {n i : Nat} (hi : i < n) (args : List BExp) {iret : Nat} {s s1 : CState} (hc : Clean n s)
    (h : (compileExpr (.or args) none (some (qname i))).run s = .ok (iret, s1)) :
    TopRes i (.or args) iret s s1 := by
  unfold compileExpr at h
  dsimp only at h
  obtain ⟨r, s0, hget, h1⟩ := run_bind_ok.mp h
  obtain ⟨rfl, rfl⟩ := hc.miss (e := .or args) rfl hget
  dsimp only at h1
  obtain ⟨erets, s2, hargs, h2⟩ := run_bind_ok.mp h1
  obtain ⟨st1, _⟩ := argsSpec (B := fun _ => False) args hargs hc.good
  have hs2 : ScratchGe n s2 := st1.ge_keep n (Nat.le_of_eq hc.nq.symm) hc.scratch
  have hn2 : n ≤ s2.qc.numQubits := hc.nq ▸ st1.nq_le
  obtain ⟨d, s4, hf, h4⟩ := run_bind_ok.mp h2
  have hd := getFreeAncilla_ge hf hs2 hn2
  have hres : iret = d := Ret.apply (P := (· = d)) h4 (by repeat' ret_step)
  exact topRes_ge hi (hres ▸ hd)

theorem top_xor {n i : Nat} (hi : i < n) (args : List BExp) {iret : Nat} {s s1 : CState} (hc : Clean n s)
    (h : (compileExpr (.xor args) none (some (qname i))).run s = .ok (iret, s1)) :
    TopRes i (.xor args) iret s s1 := by
  unfold compileExpr at h
  dsimp only at h
  obtain ⟨r, s0, hget, h1⟩ := run_bind_ok.mp h
  obtain ⟨rfl, rfl⟩ := hc.miss (e := .xor args) rfl hget
  dsimp only at h1
  simp only [Option.isNone_none, ↓reduceIte] at h1
  obtain ⟨d, s2, hf, h2⟩ := run_bind_ok.mp h1
  have hd := getFreeAncilla_ge hf hc.scratch (Nat.le_of_eq hc.nq.symm)
  have hc2 : CInv n s2 := hc.cinv.step (pres_getFreeAncilla hf)
  obtain ⟨d', s3, hx, h3⟩ := run_bind_ok.mp h2
  have hd' := retX args d hx n hc2
  obtain ⟨u, s4, hset, h4⟩ := run_bind_ok.mp h3
  obtain ⟨rfl, rfl⟩ := run_pure_ok.mp h4
  refine topRes_ge hi ?_
  rcases hd' with rfl | hd'
  · exact hd
  · exact hd'

theorem top_step {n i : Nat} (hi : i < n) (e : BExp) {iret : Nat} {s s1 : CState} (hc : Clean n s)
    (h : (compileExpr e none (some (qname i))).run s = .ok (iret, s1)) : TopRes i e iret s s1 := by
  cases e with
  | ff => unfold compileExpr at h; exact topRes_ge hi (constFalse_ge h hc.cinv)
  | tt => unfold compileExpr at h; exact topRes_ge hi (constTrue_ge h hc.cinv)
  | sym t => exact top_sym hi t hc h
  | not x => exact top_not hi x hc h
  | and l => exact top_and hi l hc h
  | or l => exact top_or hi l hc h
  | xor l => exact top_xor hi l hc h
  | ite a b c => unfold compileExpr at h; exact (run_throw_ok.mp h).elim
  | imp a b => unfold compileExpr at h; exact (run_throw_ok.mp h).elim

/-! ## the bookkeeping after a definition, in a clean state -/

theorem dictSet_same {d : List (String × Nat)} {k : String} {v : Nat}
    (hany : d.any (·.1 == k) = true) (h : ∀ p ∈ d, p.1 = k → p = (k, v)) : dictSet d k v = d := by
  unfold dictSet
  rw [if_pos hany]
  calc d.map (fun p => if (p.1 == k) = true then (k, v) else p) = d.map id := by
        apply List.map_congr_left
        intro p hp
        by_cases hk : p.1 = k
        · simp [h p hp hk]
        · simp [hk]
    _ = d := List.map_id _

theorem mapQubit_clean {n i : Nat} {promote : Bool} {u : Unit} {s s' : CState} (hc : Clean n s)
    (hi : i < n) (h : (mapQubit (qname i) i promote).run s = .ok (u, s')) : s' = s := by
  unfold mapQubit at h
  dsimp only at h
  obtain ⟨qc, s1, hq, h⟩ := run_bind_ok.mp h
  obtain ⟨rfl, rfl⟩ := getQC_run hq
  have hfalse : (promote && s1.qc.anc.contains i) = false := by rw [hc.anc]; simp
  rw [hfalse] at h
  simp only [Bool.false_eq_true, ↓reduceIte] at h
  have := modQC_run h; subst this
  have hd : dictSet s1.qc.qmap (qname i) i = s1.qc.qmap := by
    apply dictSet_same
    · rw [← dictGet?_isSome, hc.qmap_get i hi]; rfl
    · intro p hp hk
      obtain ⟨j, _, rfl⟩ := hc.qmap_mem p hp
      have := qname_inj hk
      subst this; rfl
  rw [hd]

theorem uncompute_clean {r : List Nat} {s s' : CState} (hm : s.qc.marked = [])
    (h : uncompute.run s = .ok (r, s')) : r = [] ∧ s' = s := by
  unfold uncompute at h
  obtain ⟨qc, s1, hq, h1⟩ := run_bind_ok.mp h
  obtain ⟨rfl, rfl⟩ := getQC_run hq
  rcases run_ite_ok.mp h1 with ⟨_, h1⟩ | ⟨hne, _⟩
  · exact run_pure_ok.mp h1
  · rw [hm] at hne; simp at hne

theorem expqRemove_sub {qs : List Nat} {u : Unit} {s s' : CState} (h : (expqRemove qs).run s = .ok (u, s')) :
    ∀ p ∈ s'.expq, p ∈ s.expq := by
  unfold expqRemove at h
  have := run_modify_ok.mp h; subst this
  intro p hp
  exact (List.mem_filter.mp hp).1

/-- `expqSet (sym x) i; mapQubit q{i} i; uncompute; expqRemove` keep a clean state clean and leave
the circuit alone -/
theorem after_def_clean {n i : Nat} (hi : i < n) {x : String} {promote : Bool} {s s2 s3 s4 s5 : CState}
    {u1 u2 u3 : Unit} {unc : List Nat} (hc : Clean n s)
    (hset : (expqSet (.sym x) i).run s = .ok (u1, s2))
    (hmap : (mapQubit (qname i) i promote).run s2 = .ok (u2, s3))
    (hunc : uncompute.run s3 = .ok (unc, s4))
    (hrem : (expqRemove unc).run s4 = .ok (u3, s5)) : Clean n s5 ∧ s5.qc = s.qc := by
  obtain ⟨hq2, hk2⟩ := expqSet_run hset
  have hg2 : Good s2 := (expqSet_ok (B := fun _ => True) hset hc.good (by rw [hc.nq]; exact hi)).good
  have hc2 : Clean n s2 := by
    refine ⟨hg2, by rw [hq2]; exact hc.nq, by rw [hq2]; exact hc.anc, by rw [hq2]; exact hc.free,
      by rw [hq2]; exact hc.marked, ?_, by rw [hq2]; exact hc.qmap_get, by rw [hq2]; exact hc.qmap_mem,
      by rw [hq2]; exact hc.kept⟩
    intro p hp
    rcases hk2 p hp with ⟨p0, hp0, he⟩ | he
    · rw [← he]; exact hc.expq p0 hp0
    · rw [he]; rfl
  have := mapQubit_clean hc2 hi hmap; subst this
  obtain ⟨rfl, rfl⟩ := uncompute_clean hc2.marked hunc
  have hq5 := expqRemove_run hrem
  have hg5 : Good s5 := (expqRemove_ok (B := fun _ => True) hrem hc2.good).good
  refine ⟨⟨hg5, by rw [hq5]; exact hc2.nq, by rw [hq5]; exact hc2.anc, by rw [hq5]; exact hc2.free,
    by rw [hq5]; exact hc2.marked, fun p hp => hc2.expq p (expqRemove_sub hrem p hp),
    by rw [hq5]; exact hc2.qmap_get, by rw [hq5]; exact hc2.qmap_mem, by rw [hq5]; exact hc2.kept⟩, by rw [hq5, hq2]⟩

/-- `expqRemoveSymbol` keeps a clean state clean and leaves the circuit alone -/
theorem expqRemoveSymbol_clean {n : Nat} {x : String} {u : Unit} {s s' : CState} (hc : Clean n s)
    (h : (expqRemoveSymbol x).run s = .ok (u, s')) : Clean n s' ∧ s'.qc = s.qc := by
  have hg : Good s' := (expqRemoveSymbol_ok (B := fun _ => True) h hc.good).good
  unfold expqRemoveSymbol at h
  have := run_modify_ok.mp h; subst this
  exact ⟨⟨hg, hc.nq, hc.anc, hc.free, hc.marked, fun p hp => hc.expq p (List.mem_filter.mp hp).1,
    hc.qmap_get, hc.qmap_mem, hc.kept⟩, rfl⟩


/-! ## the definition loop -/

/-- the gate list seen by the splice test: class and wires -/
abbrev gkey (g : AGate) : GClass × List Nat := (g.cls, g.wires)

abbrev xkey (i : Nat) : GClass × List Nat := (GClass.X, [i])

theorem selfId_sym (x : String) : selfId (x, .sym x) = true := by
  simp [selfId, BEq.beq, BExp.beq]

theorem selfNeg_sym (x : String) : selfNeg (x, .sym x) = false := by
  simp [selfNeg, BEq.beq, BExp.beq]

theorem selfNeg_not (x : String) : selfNeg (x, .not (.sym x)) = true := by
  simp [selfNeg, BEq.beq, BExp.beq]

/-- **the definition loop from a clean state.**  Definitions keyed by pairwise distinct names of
`q0 … q{n-1}`: if the final qubit map is still `nameStable`, every definition was `q = q` or
`q = ~q`, the final state is clean and the gates added are the X gates of the self-negations. -/
theorem defs_clean {n : Nat} : ∀ (defs : List (String × BExp)) {s s' : CState} {u : Unit} (F : List Nat),
    Clean n s → s.qc.gates.toList.map gkey = F.map xkey →
    (defs.map (·.1)).Nodup → (∀ p ∈ defs, (qidx n p.1).isSome = true) →
    (compileDefs none false defs).run s = .ok (u, s') → nameStable n s'.qc.qmap = true →
    defs.all (fun p => selfId p || selfNeg p) = true ∧ Clean n s' ∧
      s'.qc.gates.toList.map gkey = (F ++ negated n defs).map xkey
  | [], s, s', u, F, hc, hg, _, _, h, _ => by
    unfold compileDefs at h
    obtain ⟨_, rfl⟩ := run_pure_ok.mp h
    refine ⟨rfl, hc, ?_⟩
    simpa [negated] using hg
  | (x, e) :: rest, s, s', u, F, hc, hg, hnd, hkeys, h, hst => by
    obtain ⟨i, hqi⟩ := Option.isSome_iff_exists.mp (hkeys (x, e) List.mem_cons_self)
    obtain ⟨hi, hx⟩ := qidx_some hqi
    dsimp only at hx
    subst hx
    rw [List.map_cons] at hnd
    have hnd' := List.nodup_cons.mp hnd
    have hkeys' : ∀ p ∈ rest, (qidx n p.1).isSome = true := fun p hp => hkeys p (List.mem_cons_of_mem _ hp)
    unfold compileDefs at h
    obtain ⟨iret, s1, he, h1⟩ := run_bind_ok.mp h
    have htop := top_step hi e hc he
    obtain ⟨st1, hlt⟩ := exprSpec (B := fun _ => True) e none (some (qname i)) he hc.good
      (by intro d hd; cases hd) (fun _ _ => trivial)
    obtain ⟨u0, s1', hrs, h1'⟩ := run_bind_ok.mp h1
    obtain ⟨u1, s2, hset, h2⟩ := run_bind_ok.mp h1'
    obtain ⟨u2, s3, hmap, h3⟩ := run_bind_ok.mp h2
    -- decopt mode (`returns=None`, no final uncomputation): the ancillas are released after every statement
    rw [if_pos (show inlineUncompute none false (qname i) = true from rfl)] at h3
    obtain ⟨unc, s4, hunc, h4⟩ := run_bind_ok.mp h3
    obtain ⟨u3, s5, hrem, h5⟩ := run_bind_ok.mp h4
    rcases htop with ⟨rfl, rfl, rfl⟩ | ⟨rfl, rfl, happ⟩ | hne
    · -- `q{i} = q{i}`
      obtain ⟨hc1', hq1'⟩ := expqRemoveSymbol_clean hc hrs
      obtain ⟨hc5, hq5'⟩ := after_def_clean hi hc1' hset hmap hunc hrem
      have hq5 := hq5'.trans hq1'
      obtain ⟨hall, hcl, hgs⟩ := defs_clean rest F hc5 (by rw [hq5]; exact hg) hnd'.2 hkeys' h5 hst
      refine ⟨?_, hcl, ?_⟩
      · rw [List.all_cons, hall, selfId_sym]; rfl
      · rw [hgs]
        unfold negated
        rw [List.filter_cons, selfNeg_sym]
        simp
    · -- `q{i} = ~q{i}`
      have hc1 : Clean n s1 :=
        ⟨st1.good, by rw [happ.nq]; exact hc.nq, by rw [happ.anc]; exact hc.anc,
          by rw [happ.free]; exact hc.free, by rw [happ.marked]; exact hc.marked,
          by rw [happ.expq]; exact hc.expq, by rw [happ.qmap]; exact hc.qmap_get,
          by rw [happ.qmap]; exact hc.qmap_mem, by rw [happ.kept]; exact hc.kept⟩
      have hg1 : s1.qc.gates.toList.map gkey = (F ++ [iret]).map xkey := by
        obtain ⟨g, hcls, hw, hgates, _⟩ := happ.gates
        rw [hgates, Array.toList_push, List.map_append, hg, List.map_append]
        simp [gkey, xkey, hcls, hw]
      obtain ⟨hc1', hq1'⟩ := expqRemoveSymbol_clean hc1 hrs
      obtain ⟨hc5, hq5'⟩ := after_def_clean hi hc1' hset hmap hunc hrem
      have hq5 := hq5'.trans hq1'
      obtain ⟨hall, hcl, hgs⟩ := defs_clean rest (F ++ [iret]) hc5 (by rw [hq5]; exact hg1) hnd'.2 hkeys' h5 hst
      refine ⟨?_, hcl, ?_⟩
      · rw [List.all_cons, hall, selfNeg_not]; simp
      · rw [hgs]
        unfold negated
        rw [List.filter_cons, selfNeg_not]
        simp [hqi]
    · -- any other definition moves `q{i}` away from qubit `i` for good
      exfalso
      have st1' := expqRemoveSymbol_ok (B := fun _ => True) hrs st1.good
      have st2 := expqSet_ok (B := fun _ => True) hset st1'.good (Nat.lt_of_lt_of_le hlt st1'.nq_le)
      obtain ⟨st3, hkey⟩ := mapQubit_ok (B := fun _ => True) hmap st2.good
        (Nat.lt_of_lt_of_le hlt (st1'.trans st2).nq_le) trivial (by intro hp; cases hp)
      have st4 : Step (· ∈ rest.map (·.1)) s3 s4 := uncompute_ok hunc st3.good
      have st5 : Step (· ∈ rest.map (·.1)) s4 s5 := expqRemove_ok hrem st4.good
      obtain ⟨st6, _⟩ := compileDefs_ok (B := (· ∈ rest.map (·.1))) (retBits := none) (doUnc := false) rest h5 st5.good
        (fun p hp => List.mem_map.mpr ⟨p, hp, rfl⟩)
      have hkeep := ((st4.trans st5).trans st6).qmap_keep (qname i) hnd'.1 (qname_not_reserved i)
      have hfin := List.all_eq_true.mp hst i (List.mem_range.mpr hi)
      rw [hkeep, hkey] at hfin
      simp at hfin
      exact hne hfin


/-! ## the state after `addInputs (symbols n)` is clean -/

theorem addInputs_qmap_mem : ∀ (ns : List String) {u : Unit} {s s' : CState},
    (addInputs ns).run s = .ok (u, s') →
    ∀ p ∈ s'.qc.qmap, p ∈ s.qc.qmap ∨ ∃ j, ns[j]? = some p.1 ∧ p.2 = s.qc.numQubits + j
  | [], u, s, s', h => by
    unfold addInputs at h
    obtain ⟨_, rfl⟩ := run_pure_ok.mp h
    exact fun p hp => Or.inl hp
  | x :: ns, u, s, s', h => by
    unfold addInputs at h
    obtain ⟨u1, s1, hd, h1⟩ := run_bind_ok.mp h
    obtain ⟨i0, hadd⟩ := run_discard_ok.mp hd
    have hs1 := (addQubit_run hadd).2
    intro p hp
    rcases addInputs_qmap_mem ns h1 p hp with hp1 | ⟨j, hj, hpj⟩
    · rw [hs1] at hp1
      rcases mem_dictSet hp1 with hp0 | rfl
      · exact Or.inl hp0
      · exact Or.inr ⟨0, by simp, by simp⟩
    · refine Or.inr ⟨j + 1, by simpa using hj, ?_⟩
      rw [hpj, hs1]; simp; omega

theorem symbols_get {n i : Nat} (hi : i < n) : (symbols n)[i]? = some (qname i) := by
  unfold symbols
  rw [List.getElem?_map, List.getElem?_range hi]; rfl

theorem symbols_get_inv {n j : Nat} {x : String} (h : (symbols n)[j]? = some x) : j < n ∧ x = qname j := by
  unfold symbols at h
  rw [List.getElem?_map] at h
  have hj : j < n := by
    by_cases hj : j < n
    · exact hj
    · rw [List.getElem?_eq_none (by simpa using hj)] at h; simp at h
  rw [List.getElem?_range hj] at h
  exact ⟨hj, by simpa using h.symm⟩

theorem symbols_nodup (n : Nat) : (symbols n).Nodup := by
  unfold symbols
  exact List.Pairwise.map qname (fun a b hab h => hab (qname_inj h)) List.nodup_range

theorem symbols_length (n : Nat) : (symbols n).length = n := by simp [symbols]

theorem addInputs_clean {n : Nat} {cs : List Nat} {u : Unit} {s1 : CState}
    (h : (addInputs (symbols n)).run { choices := cs, inputs := symbols n } = .ok (u, s1)) :
    Clean n s1 ∧ s1.qc.gates = #[] := by
  have hg0 : Good { choices := cs, inputs := symbols n } := good_init cs (symbols n)
  obtain ⟨st1, hn1, _, hpos⟩ := addInputs_ok (symbols n) h hg0
  obtain ⟨ha, hf, hm, hk⟩ := addInputs_scratch (symbols n) h
  obtain ⟨hgt, hex, _⟩ := addInputs_quiet (symbols n) h
  have hmem := addInputs_qmap_mem (symbols n) h
  refine ⟨⟨st1.good, by rw [hn1, symbols_length]; simp, ha, hf, hm, ?_, ?_, ?_, hk⟩, hgt⟩
  · intro p hp; rw [hex] at hp; cases hp
  · intro i hi
    have := hpos (symbols_nodup n)
      (fun x hx => by
        obtain ⟨j, hj⟩ := List.getElem?_of_mem hx
        rw [(symbols_get_inv hj).2]; exact qname_not_reserved j)
      i (qname i) (symbols_get hi)
    simpa using this
  · intro p hp
    rcases hmem p hp with hp0 | ⟨j, hj, hpj⟩
    · cases hp0
    · obtain ⟨hjn, hx⟩ := symbols_get_inv hj
      refine ⟨j, hjn, ?_⟩
      have : p.2 = j := by simpa using hpj
      exact Prod.ext hx this

/-! ## `remove_identities` leaves X gates on distinct qubits alone -/

theorem removeIdentitiesLoop_nil (fuel : Nat) (res : List AGate) :
    removeIdentitiesLoop fuel [] res = res.reverse := by
  cases fuel <;> simp [removeIdentitiesLoop]

theorem removeIdentitiesLoop_id : ∀ (fuel : Nat) (gs res : List AGate), gs.length < fuel →
    gs.Pairwise (fun a b => a.wires ≠ b.wires) → (∀ g ∈ gs, g.cls = .X) →
    removeIdentitiesLoop fuel gs res = res.reverse ++ gs
  | 0, gs, res, h, _, _ => by omega
  | fuel + 1, [], res, _, _, _ => by simp [removeIdentitiesLoop]
  | fuel + 1, [g], res, _, _, _ => by
    simp [removeIdentitiesLoop, removeIdentitiesLoop_nil]
  | fuel + 1, g :: g1 :: rest1, res, h, hp, hx => by
    have hpw := List.pairwise_cons.mp hp
    have hne : g ≠ g1 := fun he => hpw.1 g1 List.mem_cons_self (by rw [he])
    have hb : (g1.cls == GClass.Barrier) = false := by
      rw [hx g1 (by simp)]; rfl
    have ih := removeIdentitiesLoop_id fuel (g1 :: rest1) (g :: res) (by simp at h ⊢; omega) hpw.2
      (fun g' hg' => hx g' (List.mem_cons_of_mem _ hg'))
    have hbeq : (g == g1) = false := by simpa using hne
    cases rest1 with
    | nil =>
      unfold removeIdentitiesLoop
      simp only [hbeq, Bool.and_false, Bool.false_eq_true, ↓reduceIte]
      rw [ih]; simp
    | cons g2 rest2 =>
      unfold removeIdentitiesLoop
      simp only [hbeq, hb, Bool.and_false, Bool.false_eq_true, ↓reduceIte]
      rw [ih]; simp

theorem removeIdentitiesList_xs {gs : List AGate} {F : List Nat} (hF : F.Nodup)
    (h : gs.map gkey = F.map xkey) : removeIdentitiesList gs = gs := by
  unfold removeIdentitiesList
  rw [removeIdentitiesLoop_id _ gs [] (Nat.lt_succ_self _)]
  · rfl
  · have hw : gs.map (·.wires) = F.map (fun i => [i]) := by
      have := congrArg (List.map Prod.snd) h
      simpa [List.map_map, gkey, xkey, Function.comp_def] using this
    have hnd : (gs.map (·.wires)).Pairwise (· ≠ ·) := by
      rw [hw]
      exact List.Pairwise.map _ (fun a b hab he => hab (by simpa using he)) hF
    exact List.pairwise_map.mp hnd
  · intro g hg
    have : gkey g ∈ F.map xkey := h ▸ List.mem_map_of_mem hg
    obtain ⟨i, _, hi⟩ := List.mem_map.mp this
    exact (congrArg Prod.fst hi).symm

/-! ## the theorem about the re-synthesis -/

/-- **stable ⇒ xonly.**  For definitions keyed by pairwise distinct names of `q0 … q{n-1}`, every
choice of ancillas: a re-synthesis (`exprs_to_quantum` on all `n` qubits) whose qubit map still
sends every `q{i}` to `i` – a necessary condition of the repaired splice test – compiled only
definitions `q = q` / `q = ~q` and consists of the X gates of the self-negations. -/
theorem stable_xonly {n : Nat} {exprs : List (String × BExp)} {choices : List Nat} {r : SecResult}
    (hk : keysOK n exprs = true) (h : resynth n exprs choices = .ok r)
    (hst : nameStable n r.qmap = true) : xonly n exprs r.gates = true := by
  simp only [keysOK, Bool.and_eq_true, decide_eq_true_eq, List.all_eq_true] at hk
  unfold resynth at h
  split at h
  · cases h
  · next s hrun =>
    cases h
    dsimp only at hst ⊢
    unfold compile at hrun
    obtain ⟨u0, s0, hmod, h1⟩ := run_bind_ok.mp hrun
    have := run_modify_ok.mp hmod; subst this
    obtain ⟨u1, s1, hin, h2⟩ := run_bind_ok.mp h1
    obtain ⟨hc1, hg1⟩ := addInputs_clean hin
    obtain ⟨u2, s2, hdefs, h3⟩ := run_bind_ok.mp h2
    obtain ⟨u3, s3, hrem, h4⟩ := run_bind_ok.mp h3
    obtain ⟨_, rfl⟩ := run_pure_ok.mp h4
    obtain ⟨hgates, hqm, _⟩ := removeIdentities_run hrem
    rw [hqm] at hst
    obtain ⟨hall, _, hgs⟩ := defs_clean exprs [] hc1 (by rw [hg1]; rfl) hk.1 hk.2 hdefs hst
    rw [List.nil_append] at hgs
    rw [hgates, removeIdentitiesList_xs (negated_nodup hk.1) hgs]
    simp only [xonly, Bool.and_eq_true, beq_iff_eq]
    exact ⟨hall, hgs⟩

end QV.Decopt
