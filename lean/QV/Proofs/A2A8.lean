import QV.Proofs.A2A6
import QV.Proofs.A2A7
/-! `ast2ast` preserves the source-level meaning, the converse direction: whenever the source has a meaning
under `exec`, the rewritten list has one (and, by the first direction, the same). -/
namespace QV.A2A
open QV QV.Front QV.Sem

set_option linter.unusedSimpArgs false
set_option linter.unusedVariables false

theorem semW_wrapE_conv (σ : SEnv) (old : String) (e : PExp) :
    ∀ (Γ : List (String × Bool)) (gs : List (SVal × Bool)), guardVals σ Γ = some gs → Γ ≠ [] →
      ∀ v o x, semW σ e = some v → σ old = some o → wrapW gs v o = some x → semW σ (wrapE Γ old e) = some x
  | [], _, _, hne, _, _, _, _, _, _ => absurd rfl hne
  | (g, w) :: Γ, gs, hgs, _, v, o, x, hv, ho, hw => by
    simp only [guardVals] at hgs
    cases h1 : σ g with
    | none => simp [h1] at hgs
    | some gv =>
      cases h2 : guardVals σ Γ with
      | none => simp [h1, h2] at hgs
      | some gs' =>
        simp only [h1, h2, Option.some.injEq] at hgs
        subst hgs
        by_cases hΓ : Γ = []
        · subst hΓ
          simp only [guardVals, Option.some.injEq] at h2
          subst h2
          cases w
          · simp only [wrapW] at hw
            simp only [wrapE, semW_ite, semW_name, h1, ho, hv, hw]
          · simp only [wrapW] at hw
            simp only [wrapE, semW_ite, semW_name, h1, ho, hv, hw]
        · cases w
          · simp only [wrapW] at hw
            cases hi : wrapW gs' v o with
            | none => simp [hi] at hw
            | some xi =>
              simp only [hi] at hw
              have := semW_wrapE_conv σ old e Γ gs' h2 hΓ v o xi hv ho hi
              simp only [wrapE, semW_ite, semW_name, h1, ho, this, hw]
          · simp only [wrapW] at hw
            cases hi : wrapW gs' v o with
            | none => simp [hi] at hw
            | some xi =>
              simp only [hi] at hw
              have := semW_wrapE_conv σ old e Γ gs' h2 hΓ v o xi hv ho hi
              simp only [wrapE, semW_ite, semW_name, h1, ho, this, hw]

/-- the converse of `assign_sim` -/
theorem assign_sim_conv (t : String) (pe : PExp) (ht : userName t = true)
    (hpe : ∀ n, mentions n pe = true → userName n = true) (F : List Front.Stmt)
    (hF : F = [.assign t pe] ∨ F = [.assign ("__" ++ t) pe, .assign t (.name ("__" ++ t))])
    (Γ : List (String × Bool)) (gs : List (SVal × Bool)) (σs σr σs' : SEnv) (v : SVal) (hrel : Rel σs σr)
    (hgs : guardVals σr Γ = some gs) (hΓ : ∀ p ∈ Γ, isIfTarg p.1 = true)
    (hv : semW σs pe = some v) (ha : assignG gs σs t v = some σs') :
    ∃ σr', runA σr (wrapF Γ F) = some σr' ∧ Rel σs' σr' ∧ (∀ n, isIfTarg n = true → σr' n = σr n) := by
  have hcongr : semW σr pe = some v := by
    rw [semW_congr' σr σs pe (fun n hn => hrel n (hpe n hn))]; exact hv
  have htd : isDunder t = false := userName_not_dunder ht
  have hti : isIfTarg t = false := userName_not_iftarg ht
  have hold : oldOf t = t := by simp [oldOf, htd]
  have hst : σr t = σs t := hrel t ht
  have hdi : isIfTarg ("__" ++ t) = false := isIfTarg_dunder t
  have holdd : oldOf ("__" ++ t) = t := by simp [oldOf, isDunder_dunder, dropDunder_dunder]
  have hne_t : t ≠ "__" ++ t := by
    intro h
    have := isDunder_dunder t
    rw [← h, htd] at this; cases this
  -- the value stored and the resulting source environment
  obtain ⟨w, hσs', hwrap⟩ : ∃ w, σs' = σs.set t w ∧
      ((Γ = [] ∧ w = v) ∨ (Γ ≠ [] ∧ ∃ o, σs t = some o ∧ wrapW gs v o = some w)) := by
    cases gs with
    | nil =>
      simp only [assignG, Option.some.injEq] at ha
      have : Γ = [] := by
        cases Γ with
        | nil => rfl
        | cons p Γ => have := guardVals_length hgs; simp at this
      exact ⟨v, ha.symm, Or.inl ⟨this, rfl⟩⟩
    | cons p gs =>
      simp only [assignG] at ha
      cases ho : σs t with
      | none => simp [ho] at ha
      | some o =>
        simp only [ho] at ha
        cases hw : wrapW (p :: gs) v o with
        | none => simp [hw] at ha
        | some w =>
          simp only [hw, Option.some.injEq] at ha
          have : Γ ≠ [] := by
            intro hh; subst hh
            simp [guardVals] at hgs
          exact ⟨w, ha.symm, Or.inr ⟨this, o, rfl, hw⟩⟩
  subst hσs'
  have hx1 : semW σr (wrapE Γ t pe) = some w := by
    rcases hwrap with ⟨rfl, rfl⟩ | ⟨hne, o, ho, hw⟩
    · exact hcongr
    · exact semW_wrapE_conv σr t pe Γ gs hgs hne v o w hcongr (by rw [hst, ho]) hw
  rcases hF with rfl | rfl
  · rw [wrapF_assign Γ t pe hti, hold]
    refine ⟨σr.set t w, by simp only [runA, hx1], hrel.set_user t w, fun n hn => ?_⟩
    exact set_ne _ _ _ _ (ne_of_iftarg hn hti)
  · have hsplit : wrapF Γ [Front.Stmt.assign ("__" ++ t) pe, .assign t (.name ("__" ++ t))]
        = [.assign ("__" ++ t) (wrapE Γ t pe), .assign t (wrapE Γ t (.name ("__" ++ t)))] := by
      have : [Front.Stmt.assign ("__" ++ t) pe, .assign t (.name ("__" ++ t))]
          = [Front.Stmt.assign ("__" ++ t) pe] ++ [.assign t (.name ("__" ++ t))] := rfl
      rw [this, wrapF_append, wrapF_assign Γ _ pe hdi, wrapF_assign Γ t _ hti, holdd, hold]
      rfl
    rw [hsplit]
    have hx2 : semW (σr.set ("__" ++ t) w) (wrapE Γ t (.name ("__" ++ t))) = some w := by
      rcases hwrap with ⟨rfl, rfl⟩ | ⟨hne, o, ho, hw⟩
      · simp only [wrapE, semW_name, set_eq]
      · have hgs1 : guardVals (σr.set ("__" ++ t) w) Γ = some gs := by
          rw [guardVals_set σr Γ _ w hΓ hdi]; exact hgs
        exact semW_wrapE_conv _ t _ Γ gs hgs1 hne w o w (by simp only [semW_name, set_eq])
          (by rw [set_ne _ _ _ _ hne_t, hst, ho]) (wrapW_idem gs v o w hw)
    refine ⟨(σr.set ("__" ++ t) w).set t w, by simp only [runA, hx1, hx2], ?_, fun n hn => ?_⟩
    · intro n hn
      by_cases hnt : n = t
      · subst hnt; rw [set_eq, set_eq]
      · have hnd : n ≠ "__" ++ t := fun hh => by rw [hh, userName_dunder] at hn; cases hn
        rw [set_ne _ _ _ _ hnt, set_ne _ _ _ _ hnt, set_ne _ _ _ _ hnd]
        exact hrel n hn
    · rw [set_ne _ _ _ _ (ne_of_iftarg hn hti), set_ne _ _ _ _ (ne_of_iftarg hn hdi)]

theorem thetaOK_assignG {θ : Subst} {σ σ' : SEnv} {gs : List (SVal × Bool)} {t : String} {v : SVal}
    (h : ThetaOK θ σ) (ht : ∀ p ∈ θ, p.1 ≠ t) (ha : assignG gs σ t v = some σ') : ThetaOK θ σ' := by
  cases gs with
  | nil =>
    simp only [assignG, Option.some.injEq] at ha
    subst ha
    exact h.set t v ht
  | cons g gs =>
    simp only [assignG] at ha
    cases ho : σ t with
    | none => simp [ho] at ha
    | some o =>
      simp only [ho] at ha
      cases hw : wrapW (g :: gs) v o with
      | none => simp [hw] at ha
      | some w =>
        simp only [hw, Option.some.injEq] at ha
        subst ha
        exact h.set t w ht

/-- the converse of `StepOK`'s simulation -/
def StepC (θ : Subst) (st st' : RSt) (L : List SStmt) (noIf noFor : Bool)
    (run : List (SVal × Bool) → SEnv → Option SEnv) : Prop :=
  ∀ (Γ : List (String × Bool)) (gs : List (SVal × Bool)) (σs σr σs' : SEnv), Rel σs σr → ThetaOK θ σs →
    guardVals σr Γ = some gs → GammaFresh st.uniq st'.uniq Γ → (noIf = false → elseOnly Γ = true) →
    (noFor = false → Γ = []) → run gs σs = some σs' →
    ∃ σr', runA σr (wrapF Γ (L.map toStmt)) = some σr' ∧ Rel σs' σr' ∧ ThetaOK θ σs' ∧ Frame st.uniq st'.uniq σr σr'

theorem stepC_of_uniq {θ : Subst} {st s1 st' : RSt} {L : List SStmt} {a c : Bool}
    {run : List (SVal × Bool) → SEnv → Option SEnv} (h : StepC θ s1 st' L a c run) (hu : s1.uniq = st.uniq) :
    StepC θ st st' L a c run := by
  unfold StepC at h ⊢
  rw [hu] at h
  exact h

/-- two rewriting steps one after the other (converse direction) -/
theorem stepC_seq {θ : Subst} {st s1 st' : RSt} {L1 L2 : List SStmt} {a1 c1 a2 c2 : Bool}
    {run1 run2 : List (SVal × Bool) → SEnv → Option SEnv} (hu1 : st.uniq ≤ s1.uniq) (hu2 : s1.uniq ≤ st'.uniq)
    (hc1 : StepC θ st s1 L1 a1 c1 run1) (hc2 : StepC θ s1 st' L2 a2 c2 run2) :
    StepC θ st st' (L1 ++ L2) (a1 && a2) (c1 && c2)
      (fun gs σ => match run1 gs σ with | some σ1 => run2 gs σ1 | none => none) := by
  intro Γ gs σs σr σs' hrel hθ hgs hΓ helse hfor hrun
  simp only at hrun
  cases hex1 : run1 gs σs with
  | none => simp [hex1] at hrun
  | some σs1 =>
    simp only [hex1] at hrun
    have helse1 : a1 = false → elseOnly Γ = true := fun hh => helse (by simp [hh])
    have helse2 : a2 = false → elseOnly Γ = true := fun hh => helse (by simp [hh])
    have hfor1 : c1 = false → Γ = [] := fun hh => hfor (by simp [hh])
    have hfor2 : c2 = false → Γ = [] := fun hh => hfor (by simp [hh])
    have hΓ1 : GammaFresh st.uniq s1.uniq Γ := hΓ.mono (Nat.le_refl _) hu2
    have hΓ2 := hΓ.mono hu1 (Nat.le_refl _)
    obtain ⟨σ1, hr1, hrel1, hθ1, hfr1⟩ := hc1 Γ gs σs σr σs1 hrel hθ hgs hΓ1 helse1 hfor1 hex1
    have hgs1 : guardVals σ1 Γ = some gs := by rw [guardVals_frame hfr1 hΓ1]; exact hgs
    obtain ⟨σr', hr2, hrel2, hθ2, hfr2⟩ := hc2 Γ gs σs1 σ1 σs' hrel1 hθ1 hgs1 hΓ2 helse2 hfor2 hrun
    refine ⟨σr', ?_, hrel2, hθ2, ?_⟩
    · simp only [List.map_append, wrapF_append, runA_append, hr1]
      exact hr2
    · intro n hn hfresh
      rw [hfr2 n hn (fun k hk1 hk2 => hfresh k (by omega) hk2),
        hfr1 n hn (fun k hk1 hk2 => hfresh k hk1 (by omega))]

theorem stepC_congr {θ : Subst} {st st' : RSt} {L : List SStmt} {a c a' c' : Bool}
    {run run' : List (SVal × Bool) → SEnv → Option SEnv} (h : StepC θ st st' L a c run)
    (ha : a' = a) (hc : c' = c) (hr : ∀ gs σ, run' gs σ = run gs σ) : StepC θ st st' L a' c' run' := by
  subst ha hc
  have : run' = run := by funext gs σ; exact hr gs σ
  rw [this]; exact h

theorem foldlM_cons_some {α : Type} (f : SEnv → α → Option SEnv) (a : α) (l : List α) (σ σ' : SEnv)
    (h : (a :: l).foldlM f σ = some σ') : ∃ σ1, f σ a = some σ1 ∧ l.foldlM f σ1 = some σ' := by
  simp only [List.foldlM_cons, bind, Option.bind] at h
  cases h1 : f σ a with
  | none => simp [h1] at h
  | some σ1 => simp only [h1] at h; exact ⟨σ1, rfl, h⟩

theorem forLoop_mlc (θ : Subst) (v : String) (b : List SStmt) (hv : userName v = true) (hvθ : ∀ p ∈ θ, p.1 ≠ v)
    (IH : ∀ val, isIB val = true → ∀ (st st' : RSt) (L : List SStmt),
      (rwSs (θ ++ [(v, val)]) b).run st = .ok (L, st') → KnownOK st →
      StepOK (θ ++ [(v, val)]) st st' L (!hasIfs b) (!hasFors b) (fun gs σs => execList gs σs b) ∧
      StepC (θ ++ [(v, val)]) st st' L (!hasIfs b) (!hasFors b) (fun gs σs => execList gs σs b)) :
    ∀ (vals : List SExp), (∀ val ∈ vals, isIB val = true) → ∀ (st st' : RSt) (L : List SStmt),
      (forLoop (.name v) (fun v val => rwSs (θ ++ [(v, val)]) b) vals).run st = .ok (L, st') → KnownOK st →
      StepC θ st st' L (!hasIfs b) false (fun gs σs => vals.foldlM (forStep gs v b) σs)
  | [], _, st, st', L, h, hk => by
    simp only [forLoop, rm_pure_ok] at h
    obtain ⟨rfl, rfl⟩ := h
    intro Γ gs σs σr σs' hrel hθ _ _ _ _ hrun
    simp only [List.foldlM_nil, pure, Option.some.injEq] at hrun
    subst hrun
    exact ⟨σr, by simp [wrapF_nil, runA], hrel, hθ, fun n _ _ => rfl⟩
  | val :: vals, hvals, st, st', L, h, hk => by
    have hval : isIB val = true := hvals val (List.mem_cons_self)
    have hfw := forLoop_ml θ v b hv hvθ (fun val hval s s' L' hr hks => (IH val hval s s' L' hr hks).1)
    simp only [forLoop, rm_bind_ok, rm_pure_ok] at h
    obtain ⟨v0, s0, ⟨hv0, hs0⟩, _, s1, hsc, tar, s2, hta, Lb, s3, hb, rest, s4, hrest, hL, hst⟩ := h
    subst v0 s0 L st'
    have hg1 := knownGrows_setConstantNode _ _ _ _ _ hsc
    have hk1 : KnownOK s1 := hk.grows hg1 (userName_not_dunder hv)
    obtain ⟨hk2, hu2, htar⟩ := visitAssign_inv v val hv (isIB_plain hval) s1 s2 tar hta hk1
    obtain ⟨⟨hk3, hu3, hg3, hn3, hs3⟩, hc3⟩ := IH val hval s2 s3 Lb hb hk2
    obtain ⟨hk4, hu4, hg4, hn4, hs4⟩ := hfw vals (fun x hx => hvals x (List.mem_cons_of_mem _ hx)) s3 _ rest hrest hk3
    have hc4 := forLoop_mlc θ v b hv hvθ IH vals (fun x hx => hvals x (List.mem_cons_of_mem _ hx)) s3 _ rest hrest hk3
    have hu12 : s2.uniq = st.uniq := by rw [hu2, hg1.1]
    intro Γ gs σs σr σs' hrel hθ hgs hΓ _ hnf hrun
    have hΓe : Γ = [] := hnf rfl
    subst hΓe
    simp only [guardVals, Option.some.injEq] at hgs
    subst hgs
    obtain ⟨σsa, hstep, hrunrest⟩ := foldlM_cons_some _ _ _ _ _ hrun
    simp only [forStep] at hstep
    cases hx : semW σs (toP val) with
    | none => simp [hx] at hstep
    | some x =>
      simp only [hx] at hstep
      simp only [assignG] at hstep
      have hF : tar.map toStmt = [.assign v (toP val)] ∨
          tar.map toStmt = [.assign ("__" ++ v) (toP val), .assign v (.name ("__" ++ v))] := by
        rcases htar with rfl | rfl
        · exact Or.inl rfl
        · exact Or.inr rfl
      obtain ⟨σ1, hr1, hrel1, hfr1⟩ := assign_sim_conv v (toP val) hv
        (fun n hn => by rw [mentions_IB hval n] at hn; cases hn) _ hF [] [] σs σr (σs.set v x) x hrel rfl
        (fun p hp => by simp at hp) hx rfl
      have hθ1 : ThetaOK (θ ++ [(v, val)]) (σs.set v x) :=
        thetaOK_snoc (hθ.set v x hvθ) hv hval (by rw [set_eq, ← semW_toP_IB σs _ hval, hx])
      obtain ⟨σ2, hr2, hrel2, hθ2, hfr2⟩ := hc3 [] [] (σs.set v x) σ1 σsa hrel1 hθ1 rfl
        (fun p hp => by simp at hp) (fun _ => rfl) (fun _ => rfl) hstep
      obtain ⟨σr', hr3, hrel3, hθ3, hfr3⟩ := hc4 [] [] σsa σ2 σs' hrel2 (thetaOK_of_snoc hθ2) rfl
        (fun p hp => by simp at hp) (fun _ => rfl) (fun _ => rfl) hrunrest
      refine ⟨σr', ?_, hrel3, hθ3, ?_⟩
      · simp only [wrapF, List.map_append, runA_append]
        simp only [wrapF] at hr1 hr2 hr3
        simp only [hr1, hr2, hr3]
      · intro n hn hfresh
        rw [hfr3 n hn (fun k hk1 hk2 => hfresh k (by omega) hk2),
          hfr2 n hn (fun k hk1 hk2 => hfresh k (by omega) (by omega)), hfr1 n hn]

mutual
theorem mlc_stmt : ∀ (s : SStmt), okS s = true → ∀ (θ : Subst) (st st' : RSt) (L : List SStmt),
    (rwS θ s).run st = .ok (L, st') → KnownOK st → (∀ p ∈ θ, isIB p.2 = true) →
    StepC θ st st' L (!hasIf s) (!hasFor s) (fun gs σs => exec gs σs s)
  | .assign ts e', hok, θ, st, st', L, h, hk, hib => by
    obtain ⟨t, rfl, ht, he⟩ := okS_assign_inv ts e' hok
    simp only [rwS, List.map_cons, List.map_nil] at h
    rcases substE_name θ hib t with ⟨hname, htθ⟩ | ⟨k, hconst⟩
    · rw [hname] at h
      have hpl : plainE (substE θ e') = true := substE_plain' θ hib e' he
      obtain ⟨hk', hu, hL⟩ := visitAssign_inv t (substE θ e') ht hpl st st' L h hk
      intro Γ gs σs σr σs' hrel hθ hgs hΓ _ _ hrun
      obtain ⟨t', v, hts, hv, ha⟩ := exec_assign_some hrun
      simp only [List.cons.injEq, SExp.name.injEq, and_true] at hts
      subst hts
      have hF : L.map toStmt = [.assign t (toP (substE θ e'))] ∨
          L.map toStmt = [.assign ("__" ++ t) (toP (substE θ e')), .assign t (.name ("__" ++ t))] := by
        rcases hL with rfl | rfl
        · exact Or.inl rfl
        · exact Or.inr rfl
      obtain ⟨σr', hr, hrel', hfr⟩ := assign_sim_conv t (toP (substE θ e')) ht
        (fun n hn => mentions_plain n _ hpl hn) _ hF Γ gs σs σr σs' v hrel hgs (gammaFresh_names hΓ)
        (by rw [substE_sem θ σs hθ e' he]; exact hv) ha
      exact ⟨σr', hr, hrel', thetaOK_assignG hθ htθ ha, frame_of_all hfr⟩
    · rw [hconst] at h
      simp only [visitAssign, rm_bind_ok, rm_throw_ok, false_and, exists_false] at h
  | .aug tg op' e', hok, θ, st, st', L, h, hk, hib => by
    obtain ⟨t, rfl, ht, hp⟩ := okS_aug_inv tg op' e' hok
    simp only [rwS] at h
    rcases substE_name θ hib t with ⟨hname, htθ⟩ | ⟨k, hconst⟩
    · rw [hname] at h
      have hbin : substE θ (.bin op' (.name t) e') = .bin op' (.name t) (substE θ e') := by
        rw [substE_bin, hname]
      have hpl : plainE (.bin op' (.name t) (substE θ e')) = true := by
        rw [← hbin]; exact substE_plain' θ hib _ hp
      obtain ⟨hc, rfl⟩ := visitAug_inv t op' (substE θ e') hpl st st' L h
      intro Γ gs σs σr σs' hrel hθ hgs hΓ _ _ hrun
      simp only [exec] at hrun
      cases hv : semW σs (toP (.bin op' (.name t) e')) with
      | none => simp [hv] at hrun
      | some v =>
        simp only [hv] at hrun
        obtain ⟨σr', hr, hrel', hfr⟩ := assign_sim_conv t (toP (.bin op' (.name t) (substE θ e'))) ht
          (fun n hn => mentions_plain n _ hpl hn) _ (Or.inr rfl) Γ gs σs σr σs' v hrel hgs (gammaFresh_names hΓ)
          (by rw [← hbin, substE_sem θ σs hθ _ hp]; exact hv) hrun
        exact ⟨σr', hr, hrel', thetaOK_assignG hθ htθ hrun, frame_of_all hfr⟩
    · rw [hconst] at h
      simp only [visitAug, rm_bind_ok, rm_throw_ok, false_and, exists_false] at h
  | .ifs c b e, hok, θ, st, st', L, h, hk, hib => by
    simp only [okS, Bool.and_eq_true, Bool.not_eq_true'] at hok
    obtain ⟨⟨⟨⟨⟨hc, hb⟩, hnb⟩, he⟩, hfb⟩, hfe⟩ := hok
    have hpl : plainE (substE θ c) = true := substE_plain' θ hib c hc
    simp only [rwS, rm_bind_ok, rm_liftX_ok, rm_visitM_ok, rm_get_ok, rm_pure_ok, visitE_plain _ _ hpl,
      Except.ok.injEq] at h
    obtain ⟨b', s1, hrb, e', s2, hre, _, s3, hnote, hx, s4, hnu, _, _, ⟨rfl, rfl⟩, _, _, ⟨rfl, rfl⟩,
      gb, _, ⟨hgb, rfl⟩, ge, _, ⟨hge, rfl⟩, rfl, rfl⟩ := h
    obtain ⟨hk1, hu1, hg1, hn1, _⟩ := ml_list b hb θ st s1 b' hrb hk hib
    obtain ⟨hk2, hu2, hg2, hn2, _⟩ := ml_list e he θ s1 s2 e' hre hk1 hib
    have hcb := mlc_list b hb θ st s1 b' hrb hk hib
    have hce := mlc_list e he θ s1 s2 e' hre hk1 hib
    have hc3 := noteIf_core _ _ _ _ _ _ hnote
    obtain ⟨hxe, hu4, hkn4⟩ := nextUniq_inv _ _ _ hnu
    have hu3 : s3.uniq = s2.uniq := hc3.1
    have hs1u : s1.uniq = st.uniq := hn1 (by simp [hnb])
    have hk4 : KnownOK st' := by
      intro n hn
      rw [hkn4, hc3.known] at hn
      exact hk2 n hn
    have hgname : "_iftarg" ++ hx = iftargName (s2.uniq + 1) := by rw [hxe, hu3]; rfl
    rw [hgname] at hgb hge ⊢
    have hab : ∀ s ∈ b', IsAssign s := fun s hs => (hg1 s hs).isAssign
    have hae : ∀ s ∈ e', IsAssign s := fun s hs => (hg2 s hs).isAssign
    rw [guardBody_ok _ hk4 _ b' hab] at hgb
    rw [guardElse_ok _ hk4 _ e' hae] at hge
    simp only [Except.ok.injEq] at hgb hge
    subst hgb hge
    have hu' : st'.uniq = s2.uniq + 1 := by rw [hu4, hu3]
    intro Γ gs σs σr σs' hrel hθ hgs hΓ helse _ hrun
    have helse' : elseOnly Γ = true := helse (by simp [hasIf])
    have hgi := isIfTarg_iftarg (s2.uniq + 1)
    have hgd := isDunder_iftarg (s2.uniq + 1)
    have hshape : wrapF Γ ((SStmt.assign [.name (iftargName (s2.uniq + 1))] (substE θ c) ::
          (b'.map (sBody (iftargName (s2.uniq + 1))) ++ e'.map (sElse (iftargName (s2.uniq + 1))))).map toStmt)
        = [Front.Stmt.assign (iftargName (s2.uniq + 1)) (toP (substE θ c))]
          ++ (wrapF (Γ ++ [(iftargName (s2.uniq + 1), true)]) (b'.map toStmt)
          ++ wrapF (Γ ++ [(iftargName (s2.uniq + 1), false)]) (e'.map toStmt)) := by
      simp only [List.map_cons, List.map_append, map_toStmt_sBody _ b' hab, map_toStmt_sElse _ e' hae]
      have : (toStmt (SStmt.assign [.name (iftargName (s2.uniq + 1))] (substE θ c)) ::
            ((b'.map toStmt).map (fBody (iftargName (s2.uniq + 1))) ++
             (e'.map toStmt).map (fElse (iftargName (s2.uniq + 1)))))
          = [Front.Stmt.assign (iftargName (s2.uniq + 1)) (toP (substE θ c))] ++
            ((b'.map toStmt).map (fBody (iftargName (s2.uniq + 1))) ++
             (e'.map toStmt).map (fElse (iftargName (s2.uniq + 1)))) := rfl
      rw [this, wrapF_append, wrapF_append, wrapF_guard_assign Γ _ _ hgi hgd helse', wrapF_snoc, wrapF_snoc]
      rfl
    simp only [exec] at hrun
    cases hcs : semW σs (toP c) with
    | none => simp [hcs] at hrun
    | some gv =>
      simp only [hcs] at hrun
      cases hexb : execList (gs ++ [(gv, true)]) σs b with
      | none => simp [hexb] at hrun
      | some σsb =>
        simp only [hexb] at hrun
        have hgv : semW σr (toP (substE θ c)) = some gv := by
          rw [semW_congr' σr σs _ (fun n hn => hrel n (mentions_plain n _ hpl hn)), substE_sem θ σs hθ c hc]
          exact hcs
        have hΓne : ∀ p ∈ Γ, p.1 ≠ iftargName (s2.uniq + 1) :=
          fun p hp => (hΓ p hp).2 (s2.uniq + 1) (by omega) (by omega)
        have hgs1 : guardVals (σr.set (iftargName (s2.uniq + 1)) gv) Γ = some gs := by
          rw [guardVals_congr σr _ Γ (fun p hp => set_ne _ _ _ _ (hΓne p hp))]; exact hgs
        have hrel1 : Rel σs (σr.set (iftargName (s2.uniq + 1)) gv) := hrel.set_temp _ gv (userName_iftarg _)
        have hΓb : GammaFresh st.uniq s1.uniq (Γ ++ [(iftargName (s2.uniq + 1), true)]) :=
          gammaFresh_snoc (hΓ.mono (Nat.le_refl _) (by omega)) _ _ (by omega)
        obtain ⟨σ2, hr1, hrelb, hθb, hfrb⟩ := hcb (Γ ++ [(iftargName (s2.uniq + 1), true)]) (gs ++ [(gv, true)])
          σs _ σsb hrel1 hθ (guardVals_snoc _ Γ gs _ true gv hgs1 (set_eq _ _ _)) hΓb
          (fun hh => by simp [hnb] at hh) (fun hh => by simp [hfb] at hh) hexb
        have hΓe0 : GammaFresh st.uniq s1.uniq (Γ ++ [(iftargName (s2.uniq + 1), false)]) :=
          gammaFresh_snoc (hΓ.mono (Nat.le_refl _) (by omega)) _ _ (by omega)
        have hΓe : GammaFresh s1.uniq s2.uniq (Γ ++ [(iftargName (s2.uniq + 1), false)]) :=
          gammaFresh_snoc (hΓ.mono (by omega) (by omega)) _ _ (by omega)
        have hgse : guardVals σ2 (Γ ++ [(iftargName (s2.uniq + 1), false)]) = some (gs ++ [(gv, false)]) := by
          rw [guardVals_frame hfrb hΓe0]
          exact guardVals_snoc _ Γ gs _ false gv hgs1 (set_eq _ _ _)
        obtain ⟨σr', hr2, hrele, hθe, hfre⟩ := hce (Γ ++ [(iftargName (s2.uniq + 1), false)]) (gs ++ [(gv, false)])
          σsb σ2 σs' hrelb hθb hgse hΓe (fun _ => elseOnly_snoc Γ _ helse') (fun hh => by simp [hfe] at hh) hrun
        refine ⟨σr', ?_, hrele, hθe, ?_⟩
        · rw [hshape, runA_append]
          simp only [runA, hgv]
          rw [runA_append, hr1]
          exact hr2
        · intro n hn hfresh
          have h1 : σ2 n = (σr.set (iftargName (s2.uniq + 1)) gv) n :=
            hfrb n hn (fun k hk1 hk2 => hfresh k hk1 (by omega))
          have h2 : σr' n = σ2 n := hfre n hn (fun k hk1 hk2 => hfresh k (by omega) (by omega))
          rw [h2, h1, set_ne _ _ _ _ (hfresh (s2.uniq + 1) (by omega) (by omega))]
  | .for_ tg it b e, hok, θ, st, st', L, h, hk, hib => by
    obtain ⟨v, rfl, hv, hit, hb, he⟩ := okS_for_inv tg it b e hok
    simp only [rwS, rm_bind_ok, rm_pure_ok, substE_closedIter it hit θ] at h
    obtain ⟨_, s0, hnote, vals, s1, hiter, Lr, s2, hloop, Le, s3, htail, rfl, rfl⟩ := h
    have hc0 := noteFor_core _ _ _ _ hnote
    obtain ⟨hstatic, hc1, hvals⟩ := forIter_static it hit s0 s1 vals hiter
    have hk1 : KnownOK s1 := (hk.core hc0).core hc1
    have hu1 : s1.uniq = st.uniq := by rw [hc1.1, hc0.1]
    have hib' : ∀ val, isIB val = true → ∀ p ∈ θ ++ [(v, val)], isIB p.2 = true := by
      intro val hval p hp
      simp only [List.mem_append, List.mem_singleton] at hp
      rcases hp with hp | rfl
      · exact hib p hp
      · exact hval
    have hloopBoth : StepOK θ s1 s2 Lr (!hasIfs b) false (fun gs σs => vals.foldlM (forStep gs v b) σs) ∧
        StepC θ s1 s2 Lr (!hasIfs b) false (fun gs σs => vals.foldlM (forStep gs v b) σs) := by
      rcases substE_name θ hib v with ⟨hname, hvθ⟩ | ⟨k, hconst⟩
      · rw [hname] at hloop
        exact ⟨forLoop_ml θ v b hv hvθ
            (fun val hval s s' L' hr hks => ml_list b hb (θ ++ [(v, val)]) s s' L' hr hks (hib' val hval))
            vals hvals s1 s2 Lr hloop hk1,
          forLoop_mlc θ v b hv hvθ
            (fun val hval s s' L' hr hks => ⟨ml_list b hb (θ ++ [(v, val)]) s s' L' hr hks (hib' val hval),
              mlc_list b hb (θ ++ [(v, val)]) s s' L' hr hks (hib' val hval)⟩)
            vals hvals s1 s2 Lr hloop hk1⟩
      · rw [hconst] at hloop
        obtain ⟨rfl, rfl, rfl⟩ := forLoop_const k _ vals s1 s2 Lr hloop
        refine ⟨⟨hk1, Nat.le_refl _, fun x hx => by simp at hx, fun _ => rfl, ?_⟩, ?_⟩
        · intro Γ gs σs σr σr' hrel hθ _ _ _ _ hrun
          simp only [List.map_nil, wrapF_nil, runA, Option.some.injEq] at hrun
          subst hrun
          exact ⟨σs, rfl, hrel, hθ, fun n _ _ => rfl⟩
        · intro Γ gs σs σr σs' hrel hθ _ _ _ _ hrun
          simp only [List.foldlM_nil, pure, Option.some.injEq] at hrun
          subst hrun
          exact ⟨σr, by simp [wrapF_nil, runA], hrel, hθ, fun n _ _ => rfl⟩
    obtain ⟨hloopOK, hloopC⟩ := hloopBoth
    have htailOK := ml_list e he θ s2 _ Le htail hloopOK.1 hib
    have htailC := mlc_list e he θ s2 _ Le htail hloopOK.1 hib
    refine stepC_of_uniq (stepC_congr (stepC_seq hloopOK.2.1 htailOK.2.1 hloopC htailC) ?_ ?_ ?_) hu1
    · simp [hasIf, Bool.not_or]
    · simp [hasFor]
    · intro gs σ
      rw [exec_for, hstatic]
      rfl
  | .ann _ _ _, hok, _, _, _, _, _, _, _ => by simp [okS] at hok
  | .ret _, hok, _, _, _, _, _, _, _ => by simp [okS] at hok
  | .expr _, hok, _, _, _, _, _, _, _ => by simp [okS] at hok
  | .other _, hok, _, _, _, _, _, _, _ => by simp [okS] at hok
theorem mlc_list : ∀ (ss : List SStmt), okSs ss = true → ∀ (θ : Subst) (st st' : RSt) (L : List SStmt),
    (rwSs θ ss).run st = .ok (L, st') → KnownOK st → (∀ p ∈ θ, isIB p.2 = true) →
    StepC θ st st' L (!hasIfs ss) (!hasFors ss) (fun gs σs => execList gs σs ss)
  | [], _, θ, st, st', L, h, hk, _ => by
    simp only [rwSs, rm_pure_ok] at h
    obtain ⟨rfl, rfl⟩ := h
    intro Γ gs σs σr σs' hrel hθ _ _ _ _ hrun
    simp only [execList, Option.some.injEq] at hrun
    subst hrun
    exact ⟨σr, by simp [wrapF_nil, runA], hrel, hθ, fun n _ _ => rfl⟩
  | s :: ss, hok, θ, st, st', L, h, hk, hib => by
    simp only [okSs, Bool.and_eq_true] at hok
    simp only [rwSs, rm_bind_ok, rm_pure_ok] at h
    obtain ⟨L1, s1, h1, L2, s2, h2, rfl, rfl⟩ := h
    obtain ⟨hk1, hu1, hg1, hn1, _⟩ := ml_stmt s hok.1 θ st s1 L1 h1 hk hib
    obtain ⟨hk2, hu2, hg2, hn2, _⟩ := ml_list ss hok.2 θ s1 _ L2 h2 hk1 hib
    have hc1 := mlc_stmt s hok.1 θ st s1 L1 h1 hk hib
    have hc2 := mlc_list ss hok.2 θ s1 _ L2 h2 hk1 hib
    intro Γ gs σs σr σs' hrel hθ hgs hΓ helse hfor hrun
    simp only [execList] at hrun
    cases hex1 : exec gs σs s with
    | none => simp [hex1] at hrun
    | some σs1 =>
      simp only [hex1] at hrun
      have helse1 : (!hasIf s) = false → elseOnly Γ = true := by
        intro hh; apply helse; simp only [Bool.not_eq_false'] at hh; simp [hasIfs, hh]
      have helse2 : (!hasIfs ss) = false → elseOnly Γ = true := by
        intro hh; apply helse; simp only [Bool.not_eq_false'] at hh; simp [hasIfs, hh]
      have hfor1 : (!hasFor s) = false → Γ = [] := by
        intro hh; apply hfor; simp only [Bool.not_eq_false'] at hh; simp [hasFors, hh]
      have hfor2 : (!hasFors ss) = false → Γ = [] := by
        intro hh; apply hfor; simp only [Bool.not_eq_false'] at hh; simp [hasFors, hh]
      have hΓ1 : GammaFresh st.uniq s1.uniq Γ := hΓ.mono (Nat.le_refl _) hu2
      have hΓ2 := hΓ.mono hu1 (Nat.le_refl _)
      obtain ⟨σ1, hr1, hrel1, hθ1, hfr1⟩ := hc1 Γ gs σs σr σs1 hrel hθ hgs hΓ1 helse1 hfor1 hex1
      have hgs1 : guardVals σ1 Γ = some gs := by rw [guardVals_frame hfr1 hΓ1]; exact hgs
      obtain ⟨σr', hr2, hrel2, hθ2, hfr2⟩ := hc2 Γ gs σs1 σ1 σs' hrel1 hθ1 hgs1 hΓ2 helse2 hfor2 hrun
      refine ⟨σr', ?_, hrel2, hθ2, ?_⟩
      · simp only [List.map_append, wrapF_append, runA_append, hr1]
        exact hr2
      · intro n hn hfresh
        rw [hfr2 n hn (fun k hk1 hk2 => hfresh k (by omega) hk2),
          hfr1 n hn (fun k hk1 hk2 => hfresh k hk1 (by omega))]
end

theorem execBody_cons_some (ret : Ty) (σ : SEnv) (s : SStmt) (ss : List SStmt) (sv : SVal)
    (h : ∀ e, s ≠ .ret (some e)) (hex : execBody ret σ (s :: ss) = some sv) :
    ∃ σ1, exec [] σ s = some σ1 ∧ execBody ret σ1 ss = some sv := by
  cases hs : exec [] σ s with
  | none =>
    cases s with
    | ret v =>
      cases v with
      | none => simp [execBody, exec] at hex
      | some e => exact absurd rfl (h e)
    | _ => simp only [execBody, hs] at hex; cases hex
  | some σ1 =>
    rw [execBody_cons ret σ σ1 s ss h hs] at hex
    exact ⟨σ1, rfl, hex⟩

/-- the converse of `body_preserved` -/
theorem body_preserved_conv (ret : Ty) : ∀ (ss : List SStmt), ss.all okTop = true → ∀ (st st' : RSt) (L : List SStmt),
    (rwSs [] ss).run st = .ok (L, st') → KnownOK st → ∀ (σs σr : SEnv), Rel σs σr → ∀ sv,
    execBody ret σs ss = some sv → semBody ret σr (L.map toStmt) = some sv
  | [], _, st, st', L, h, _, σs, σr, _, sv, hsem => by simp [execBody] at hsem
  | s :: ss, hok, st, st', L, h, hk, σs, σr, hrel, sv, hsem => by
    simp only [List.all_cons, Bool.and_eq_true] at hok
    simp only [rwSs, rm_bind_ok, rm_pure_ok] at h
    obtain ⟨L1, s1, h1, L2, s2, h2, rfl, rfl⟩ := h
    have hmain : okS s = true → semBody ret σr ((L1 ++ L2).map toStmt) = some sv := by
      intro hs
      obtain ⟨hk1, hu1, hg1, _, _⟩ := ml_stmt s hs [] st s1 L1 h1 hk (fun p hp => by simp at hp)
      have hc := mlc_stmt s hs [] st s1 L1 h1 hk (fun p hp => by simp at hp)
      obtain ⟨σs1, hex, hrest⟩ := execBody_cons_some ret σs s ss sv (okS_not_ret s hs) hsem
      obtain ⟨σ1, hr, hrel1, _⟩ := hc [] [] σs σr σs1 hrel (fun p hp => by simp at hp) rfl
        (fun p hp => by simp at hp) (fun _ => rfl) (fun _ => rfl) hex
      rw [List.map_append, semBody_append_assigns ret σr _ _ (fun x hx => by
        simp only [List.mem_map] at hx
        obtain ⟨y, hy, rfl⟩ := hx
        obtain ⟨t, v, rfl, _⟩ := hg1 y hy
        exact ⟨t, toP v, rfl⟩)]
      simp only [wrapF] at hr
      simp only [hr]
      exact body_preserved_conv ret ss hok.2 s1 _ L2 h2 hk1 σs1 σ1 hrel1 sv hrest
    cases s with
    | ret v =>
      cases v with
      | none => simp [okTop, okS] at hok
      | some e =>
        have he : plainE e = true := by simpa [okTop] using hok.1
        simp only [rwS, rm_bind_ok, rm_liftX_ok, rm_visitM_ok, rm_pure_ok, substE_nil, visitE_plain _ e he, Except.ok.injEq] at h1
        obtain ⟨_, _, ⟨rfl, rfl⟩, rfl, rfl⟩ := h1
        simp only [List.cons_append, List.nil_append, List.map_cons, toStmt, semBody]
        have hc : semW σr (toP e) = semW σs (toP e) :=
          semW_congr' σr σs (toP e) (fun n hn => hrel n (mentions_plain n e he hn))
        simp only [execBody] at hsem
        rw [hc]
        exact hsem
    | expr e =>
      have he : plainE e = true := by simpa [okTop] using hok.1
      simp only [rwS, rm_bind_ok, rm_liftX_ok, rm_visitM_ok, rm_pure_ok, substE_nil, visitE_plain _ e he, Except.ok.injEq] at h1
      obtain ⟨_, _, ⟨rfl, rfl⟩, rfl, rfl⟩ := h1
      simp only [List.cons_append, List.nil_append, List.map_cons, toStmt, semBody]
      obtain ⟨σs1, hex, hrest⟩ := execBody_cons_some ret σs _ ss sv (fun e' he' => by cases he') hsem
      simp only [exec, Option.some.injEq] at hex
      subst hex
      exact body_preserved_conv ret ss hok.2 _ _ L2 h2 hk σs σr hrel sv hrest
    | assign ts e => exact hmain (by simpa [okTop] using hok.1)
    | aug t op e => exact hmain (by simpa [okTop] using hok.1)
    | ifs c b e => exact hmain (by simpa [okTop] using hok.1)
    | for_ t it b e => exact hmain (by simpa [okTop] using hok.1)
    | ann _ _ _ => simp [okTop, okS] at hok
    | other _ => simp [okTop, okS] at hok

/-- **the rewriter preserves the source-level meaning, as an equation**: for the programs of `okProg` the
fixed-width meaning of the rewritten straight-line program *is* the source-level meaning (both undefined, or both
defined and equal) -/
theorem rewrite_preserved_eq (p : SProg) (hp : okProg p = true) (L : List SStmt) (st : RSt)
    (h : (rwSs [] p.body).run (initSt (aargsOf p)) = .ok (L, st)) (ρ : String → Bool) :
    semProg ⟨p.args, p.ret, L.map toStmt⟩ ρ = execProg p ρ := by
  cases h1 : semProg ⟨p.args, p.ret, L.map toStmt⟩ ρ with
  | some sv => exact (rewrite_preserved p hp L st h ρ sv h1).symm
  | none =>
    cases h2 : execProg p ρ with
    | none => rfl
    | some sv =>
      have hp' := hp
      simp only [okProg, Bool.and_eq_true, List.all_eq_true] at hp'
      have hk : KnownOK (initSt (aargsOf p)) := knownOK_initSt _ (by
        intro a ha
        simp only [aargsOf, List.mem_map] at ha
        obtain ⟨b, hb, rfl⟩ := ha
        exact hp'.1 b hb)
      have := body_preserved_conv p.ret p.body (by simpa [List.all_eq_true] using hp'.2) _ _ L h hk _ _
        (fun _ _ => rfl) sv h2
      rw [show semProg ⟨p.args, p.ret, L.map toStmt⟩ ρ = semBody p.ret (argsEnv p.args ρ) (L.map toStmt) from rfl,
        this] at h1
      cases h1

end QV.A2A
