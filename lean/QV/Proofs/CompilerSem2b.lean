import QV.Proofs.CompilerSem2a
/-!
# Semantic correctness of the compiler model on wider classes – part 2: `compile_expr`

One lemma per branch of `compile_expr` under the generalised invariants of part 1 (`Pre2`, `Sem2`), tied by
the mutual structural recursion `exprSem2` / `argsSem2` / `xorSem2` over the expression class `wfExp`.
-/
namespace QV.Compiler
open QV

variable {scope : List String} {ρ : Env} {σ0 : FState} {wo : Bool}

theorem notAvail_lt {s : CState} {q : Nat} (h : ¬ Avail s q) : q < s.qc.numQubits := by
  apply Classical.byContradiction
  intro hh
  exact h (Or.inr (by omega))

theorem CtlQ.of_sem {Q : FState → Nat → Prop} {W : Nat → Prop} {K : BExp → Prop} {Mk : Nat → Prop}
    {s s' : CState} (sem : Sem2 scope σ0 wo Q W K Mk s s') (f : FState) (c : Nat)
    (h : CtlQ scope ρ s f c) : CtlQ scope ρ s' f c := by
  rcases h with h | ⟨n, hk, hq, hv⟩
  · exact Or.inl (sem.mkeep c h)
  · exact Or.inr ⟨n, hk, sem.qkeep n c hk hq, hv⟩

/-! ### single gates -/

/-- the invariant after one gate whose target the caller owns -/
theorem gate_pre2 {cls : GClass} {cs : List Nat} {t : Nat} {u : Unit} {s s' : CState}
    (h : (append cls (cs ++ [t])).run s = .ok (u, s')) (hp : Pre2 scope ρ σ0 s)
    (hc : cls.isMCXLike = true) (ht : Priv scope s t) (hcs : ∀ c ∈ cs, ¬ Avail s c) :
    Pre2 scope ρ σ0 s' := by
  have ha := append_run h
  have hg : Good s' := (append_ok (B := fun _ => False) h hp.good hc (by
    intro w hw
    rcases List.mem_append.mp hw with hw | hw
    · exact notAvail_lt (hcs w hw)
    · have : w = t := by simpa using hw
      rw [this]; exact notAvail_lt ht.1)).good
  refine hp.of_same hg ha.nq ha.free ha.anc ha.qmap ha.kept (fun m hm => Or.inl (by rw [← ha.marked]; exact hm)) ?_
  intro q hq
  apply ha.cur_ne hc σ0 q
  rintro rfl
  rcases hq with hq | ⟨n, hk, hq⟩
  · exact ht.1 hq
  · exact ht.2 n hk hq

theorem xGate_pre2 {w : Nat} {u : Unit} {s s' : CState} (h : (xGate w).run s = .ok (u, s'))
    (hp : Pre2 scope ρ σ0 s) (ht : Priv scope s w) : Pre2 scope ρ σ0 s' :=
  gate_pre2 (cs := []) (t := w) h hp rfl ht (fun _ hc => by cases hc)

theorem cx_pre2 {a b : Nat} {u : Unit} {s s' : CState} (h : (cx a b).run s = .ok (u, s'))
    (hp : Pre2 scope ρ σ0 s) (ht : Priv scope s b) (ha : ¬ Avail s a) : Pre2 scope ρ σ0 s' :=
  gate_pre2 (cs := [a]) (t := b) h hp rfl ht (fun c hc => by
    have : c = a := by simpa using hc
    rw [this]; exact ha)

theorem mcx_pre2 {cs : List Nat} {t : Nat} {u : Unit} {s s' : CState} (h : (mcx cs t).run s = .ok (u, s'))
    (hp : Pre2 scope ρ σ0 s) (ht : Priv scope s t) (hcs : ∀ c ∈ cs, ¬ Avail s c) : Pre2 scope ρ σ0 s' :=
  gate_pre2 (cs := cs) (t := t) h hp rfl ht hcs

theorem xGate_sem2 {Q : FState → Nat → Prop} {w : Nat} {u : Unit} {s s' : CState}
    (h : (xGate w).run s = .ok (u, s')) (ht : ¬ Avail s w) :
    Appended .X ([] ++ [w]) s s' ∧ Sem2 scope σ0 wo Q (· = w) NoK NoQ s s' ∧ Tgt s' w :=
  gate_sem2 (cs := []) (t := w) h rfl rfl ht (fun _ _ hc => by cases hc)

theorem cx_sem2 {Q : FState → Nat → Prop} {a b : Nat} {u : Unit} {s s' : CState}
    (h : (cx a b).run s = .ok (u, s')) (ht : ¬ Avail s b) (hq : wo = false → Q (cur σ0 s) a) :
    Appended .CX ([a] ++ [b]) s s' ∧ Sem2 scope σ0 wo Q (· = b) NoK NoQ s s' ∧ Tgt s' b :=
  gate_sem2 (cs := [a]) (t := b) h rfl rfl ht (fun hwo c hc => by
    have : c = a := by simpa using hc
    rw [this]; exact hq hwo)

theorem mcx_sem2 {Q : FState → Nat → Prop} {cs : List Nat} {t : Nat} {u : Unit} {s s' : CState}
    (h : (mcx cs t).run s = .ok (u, s')) (ht : ¬ Avail s t) (hq : wo = false → ∀ c ∈ cs, Q (cur σ0 s) c) :
    Appended (.MCX cs.length) (cs ++ [t]) s s' ∧ Sem2 scope σ0 wo Q (· = t) NoK NoQ s s' ∧ Tgt s' t :=
  gate_sem2 (cs := cs) (t := t) h rfl rfl ht hq

/-! ### steps without gates -/

theorem event_sem2 {Q : FState → Nat → Prop} {e : String} {u : Unit} {s s' : CState}
    (h : (event e).run s = .ok (u, s')) (hp : Pre2 scope ρ σ0 s) :
    Pre2 scope ρ σ0 s' ∧ Sem2 scope σ0 wo Q NoQ NoK NoQ s s' ∧ cur σ0 s' = cur σ0 s := by
  have := event_run h; subst this
  exact ⟨hp.of_same (hp.good.of_eq rfl rfl rfl rfl rfl rfl rfl rfl rfl) rfl rfl rfl rfl rfl (fun m hm => Or.inl hm)
      (fun _ _ => rfl),
    Sem2.of_quiet rfl rfl rfl rfl rfl rfl rfl (fun p hp' => Or.inl ⟨p, hp', rfl⟩) (fun m hm => Or.inl hm)
      (fun m hm => hm), rfl⟩

theorem expqSet_sem2 {Q : FState → Nat → Prop} {e : BExp} {q : Nat} {u : Unit} {s s' : CState}
    (h : (expqSet e q).run s = .ok (u, s')) (hp : Pre2 scope ρ σ0 s) (hq : q < s.qc.numQubits) :
    Pre2 scope ρ σ0 s' ∧ Sem2 scope σ0 wo Q NoQ (· = e) NoQ s s' ∧ cur σ0 s' = cur σ0 s ∧ s'.qc = s.qc := by
  obtain ⟨hqc, hk⟩ := expqSet_run h
  have hg : Good s' := (expqSet_ok (B := fun _ => False) h hp.good hq).good
  have hcur : cur σ0 s' = cur σ0 s := by unfold cur; rw [hqc]
  exact ⟨hp.of_same hg (by rw [hqc]) (by rw [hqc]) (by rw [hqc]) (by rw [hqc]) (by rw [hqc])
      (fun m hm => Or.inl (by rw [← hqc]; exact hm)) (fun _ _ => by rw [hcur]),
    Sem2.of_quiet (by rw [hqc]) (by rw [hqc]) (by rw [hqc]) (by rw [hqc]) (by rw [hqc]) (by rw [hqc]) (by rw [hqc]) hk
      (fun m hm => Or.inl (by rw [← hqc]; exact hm)) (fun m hm => by rw [hqc]; exact hm), hcur, hqc⟩

theorem markAll_sem2 {Q : FState → Nat → Prop} {ws : List Nat} {u : Unit} {s s' : CState}
    (h : (markAll ws).run s = .ok (u, s')) (hp : Pre2 scope ρ σ0 s)
    (htgt : wo = false → ∀ m ∈ ws, m ∈ s.qc.anc → Tgt s m) :
    Pre2 scope ρ σ0 s' ∧ Sem2 scope σ0 wo Q NoQ NoK (fun m => m ∈ ws ∧ m ∈ s.qc.anc) s s' ∧
      cur σ0 s' = cur σ0 s ∧ (∀ m ∈ ws, m ∈ s.qc.anc → m ∉ s.qc.kept → m ∈ s'.qc.marked) ∧
      s'.qc.anc = s.qc.anc ∧ s'.qc.numQubits = s.qc.numQubits := by
  obtain ⟨b0, b1, b2, b3, b4, b5, b6, bk, b7, b8, b9⟩ := markAll_run2 ws h
  have hg : Good s' := (markAll_ok (B := fun _ => False) ws h hp.good).good
  have hcur : cur σ0 s' = cur σ0 s := cur_congr b1
  exact ⟨hp.of_same hg b3 b4 b5 b6 bk (fun m hm => (b7 m hm).imp id (fun x => x.2)) (fun _ _ => by rw [hcur]),
    Sem2.of_quiet b1 b2 b3 b4 b5 b6 bk (fun p hp' => Or.inl ⟨p, by rw [← b0]; exact hp', rfl⟩)
      (fun m hm => (b7 m hm).imp id (fun x => ⟨x, fun hwo => by
        obtain ⟨g, hg, ht⟩ := htgt hwo m x.1 x.2
        exact ⟨g, by rw [b2]; exact hg, ht⟩⟩)) b8,
    hcur, b9, b5, b3⟩

theorem markAncilla_sem2 {Q : FState → Nat → Prop} {w : Nat} {u : Unit} {s s' : CState}
    (h : (markAncilla w).run s = .ok (u, s')) (hp : Pre2 scope ρ σ0 s)
    (htgt : wo = false → w ∈ s.qc.anc → Tgt s w) :
    Pre2 scope ρ σ0 s' ∧ Sem2 scope σ0 wo Q NoQ NoK (fun m => m = w ∧ w ∈ s.qc.anc) s s' ∧
      cur σ0 s' = cur σ0 s ∧ (w ∈ s.qc.anc → w ∉ s.qc.kept → w ∈ s'.qc.marked) ∧ s'.qc.anc = s.qc.anc := by
  have h' : (markAll [w]).run s = .ok (u, s') := by
    unfold markAll markAll
    show (markAncilla w >>= fun _ => pure ()).run s = _
    rw [run_bind_ok]
    exact ⟨u, s', h, rfl⟩
  obtain ⟨p, sem, hc, hm, ha, _⟩ := markAll_sem2 (wo := wo) (Q := Q) h' hp (fun hwo m hm ha => by
    have : m = w := by simpa using hm
    rw [this] at ha ⊢; exact htgt hwo ha)
  refine ⟨p, sem.mono (fun _ _ h => h) (fun _ h => h) (fun m hm' => ?_), hc, fun hw hk => hm w (by simp) hw hk, ha⟩
  exact ⟨by simpa using hm'.1, by have := hm'.1; simp at this; rw [← this]; exact hm'.2⟩

/-! ### constants -/

theorem kval_TRUE : kval ρ "TRUE" = true := by simp [kval]
theorem kval_FALSE : kval ρ "FALSE" = false := by simp [kval]

/-- a new qubit bound to a name that was unbound; `val` is the value the gates that follow give it -/
theorem addQubit_sem2 {Q : FState → Nat → Prop} {name : String} {a : Nat} {s s' : CState}
    (h : (addQubit name).run s = .ok (a, s')) (hp : Pre2 scope ρ σ0 s)
    (hne : ∀ n q, Known scope n → dictGet? s.qc.qmap n = some q → n ≠ name) :
    a = s.qc.numQubits ∧ Sem2 scope σ0 wo Q NoQ NoK NoQ s s' ∧ cur σ0 s' = cur σ0 s ∧
      s'.qc.numQubits = s.qc.numQubits + 1 ∧ s'.qc.free = s.qc.free ∧ s'.qc.anc = s.qc.anc ∧
      s'.qc.marked = s.qc.marked ∧ s'.qc.qmap = dictSet s.qc.qmap name s.qc.numQubits := by
  obtain ⟨rfl, rfl⟩ := addQubit_run h
  refine ⟨rfl, ⟨Nat.le_succ _, ?_, fun _ _ _ => rfl, fun p hp' => Or.inl ⟨p, hp', rfl⟩, fun m hm => Or.inl hm,
    fun m hm => hm, fun a ha => ha, ?_, ?_, rfl, ⟨[], by simp, by simp, fun _ h => absurd h List.not_mem_nil,
    fun _ => trivial⟩⟩, rfl, rfl, rfl, rfl, rfl, rfl⟩
  · intro q hq
    rcases hq with hq | hq
    · exact Or.inl hq
    · exact Or.inr (by simp only at hq ⊢; omega)
  · intro n q hkn hq
    show dictGet? (dictSet _ _ _) _ = _
    rw [dictGet?_dictSet_ne (hne n q hkn hq)]
    exact hq
  · intro n q hq
    have hq' : dictGet? (dictSet s.qc.qmap name s.qc.numQubits) n = some q := hq
    by_cases hne : n = name
    · rw [hne, dictGet?_dictSet_self] at hq'
      cases hq'; exact Or.inr (Nat.le_refl _)
    · rw [dictGet?_dictSet_ne hne] at hq'; exact Or.inl hq'

/-- the invariant after binding a known constant name to a new qubit that now holds the constant -/
theorem Pre2.newConst {Q : FState → Nat → Prop} {name : String} {s s' : CState}
    (hp : Pre2 scope ρ σ0 s) (hg : Good s') (sem : Sem2 scope σ0 wo Q NoQ NoK NoQ s s')
    (hf : s'.qc.free = s.qc.free) (ha : s'.qc.anc = s.qc.anc)
    (hm : s'.qc.marked = s.qc.marked) (hq : s'.qc.qmap = dictSet s.qc.qmap name s.qc.numQubits)
    (hv : cur σ0 s' s.qc.numQubits = kval ρ name) : Pre2 scope ρ σ0 s' := by
  refine ⟨hg, ?_, ?_, ?_, hp.scopeOK, by rw [hf]; exact hp.freeNd, by rw [hf, ha]; exact hp.freeAnc,
    by rw [hm, ha]; exact hp.mkAnc, by rw [sem.kkeep, hf]; exact hp.keptNF⟩
  · intro q hq'
    rw [sem.frame q (fun h => h) (Or.inr hq')]
    exact hp.zero q (sem.avail q hq')
  · intro n q hk hq'
    rw [hq] at hq'
    by_cases hne : n = name
    · rw [hne, dictGet?_dictSet_self] at hq'
      cases hq'
      refine ⟨by rw [hf]; exact fun h => absurd (hp.good.free_lt _ h) (Nat.lt_irrefl _),
        by rw [ha]; exact fun h => absurd (hp.good.anc_lt _ h) (Nat.lt_irrefl _), by rw [hne]; exact hv⟩
    · rw [dictGet?_dictSet_ne hne] at hq'
      obtain ⟨t1, t2, t3⟩ := hp.tbl n q hk hq'
      refine ⟨by rw [hf]; exact t1, by rw [ha]; exact t2, ?_⟩
      rw [sem.frame q (fun h => h) (Or.inl (hp.sym_notAvail hk hq'))]; exact t3
  · intro n hn'
    obtain ⟨q, hq'⟩ := hp.bound n hn'
    exact ⟨q, sem.qkeep n q (Or.inl hn') hq'⟩

theorem constFalse_sem2 {Q : FState → Nat → Prop} {a : Nat} {s s' : CState}
    (h : constFalse.run s = .ok (a, s')) (hp : Pre2 scope ρ σ0 s) :
    Pre2 scope ρ σ0 s' ∧ Sem2 scope σ0 wo Q NoQ NoK NoQ s s' ∧ dictGet? s'.qc.qmap "FALSE" = some a := by
  have hg' : Good s' := (constFalse_ok (B := fun _ => False) h hp.good).1.good
  unfold constFalse at h
  obtain ⟨qc, s1, hq, h⟩ := run_bind_ok.mp h
  obtain ⟨rfl, rfl⟩ := getQC_run hq
  dsimp only at h
  split at h
  · next hnone =>
    have hnone' : dictGet? s1.qc.qmap "FALSE" = none := by simpa using hnone
    obtain ⟨u, s2, hd, hl⟩ := run_bind_ok.mp h
    obtain ⟨i, hadd⟩ := run_discard_ok.mp hd
    obtain ⟨_, sem, hcur, hn, hf, ha, hm, hqm⟩ := addQubit_sem2 (wo := wo) (Q := Q) hadd hp
      (fun n q _ hq e => by rw [e, hnone'] at hq; cases hq)
    obtain ⟨rfl, hq', _⟩ := lookup_ok hl (addQubit_ok (B := fun _ => False) hadd hp.good (Or.inr (by decide))).1.good
    refine ⟨hp.newConst hg' sem hf ha hm hqm ?_, sem, hq'⟩
    rw [hcur, kval_FALSE]
    exact hp.zero _ (Or.inr (Nat.le_refl _))
  · obtain ⟨rfl, hq', _⟩ := lookup_ok h hp.good
    exact ⟨hp, Sem2.refl _, hq'⟩

theorem constTrue_sem2 {Q : FState → Nat → Prop} {a : Nat} {s s' : CState}
    (h : constTrue.run s = .ok (a, s')) (hp : Pre2 scope ρ σ0 s) :
    Pre2 scope ρ σ0 s' ∧ Sem2 scope σ0 wo Q NoQ NoK NoQ s s' ∧ dictGet? s'.qc.qmap "TRUE" = some a := by
  have hg' : Good s' := (constTrue_ok (B := fun _ => False) h hp.good).1.good
  unfold constTrue at h
  obtain ⟨qc, s1, hq, h⟩ := run_bind_ok.mp h
  obtain ⟨rfl, rfl⟩ := getQC_run hq
  dsimp only at h
  split at h
  · next hnone =>
    have hnone' : dictGet? s1.qc.qmap "TRUE" = none := by simpa using hnone
    obtain ⟨u1, s3, hd, h2⟩ := run_bind_ok.mp h
    obtain ⟨i, hadd⟩ := run_discard_ok.mp hd
    obtain ⟨_, sem1, hcur1, hn1, hf1, ha1, hm1, hqm1⟩ := addQubit_sem2 (wo := wo) (Q := Q) hadd hp
      (fun n q _ hq e => by rw [e, hnone'] at hq; cases hq)
    have hg3 : Good s3 := (addQubit_ok (B := fun _ => False) hadd hp.good (Or.inr (by decide))).1.good
    obtain ⟨q, s4, hl1, h3⟩ := run_bind_ok.mp h2
    obtain ⟨rfl, hq1, hlt⟩ := lookup_ok hl1 hg3
    have hqe : q = s1.qc.numQubits := by
      rw [hqm1, dictGet?_dictSet_self] at hq1; exact (Option.some.inj hq1).symm
    obtain ⟨u2, s5, hx, hl⟩ := run_bind_ok.mp h3
    have hnav : ¬ Avail s4 q := by
      rw [hqe]; unfold Avail; rw [hf1, hn1]
      rintro (h' | h')
      · exact absurd (hp.good.free_lt _ h') (Nat.lt_irrefl _)
      · omega
    obtain ⟨ax, semx, _⟩ := xGate_sem2 (scope := scope) (σ0 := σ0) (wo := wo) (Q := Q) hx hnav
    obtain ⟨es5, hq5, _⟩ := lookup_ok hl (xGate_ok (B := fun _ => False) hx hg3 hlt).good
    subst es5
    have sem : Sem2 scope σ0 wo Q NoQ NoK NoQ s1 s' := (sem1.trans' semx).mono (by
      rintro x hx' (h' | h')
      · exact h'
      · have hxq : x = s1.qc.numQubits := h'.trans hqe
        rcases hx' with hx' | hx'
        · exact hx' (Or.inr (by omega))
        · exact hnav (by rw [hqe, ← hxq]; exact semx.avail x hx'))
      (fun _ h => h.elim id id) (fun _ h => h.elim id id)
    refine ⟨hp.newConst hg' sem (ax.free.trans hf1) (ax.anc.trans ha1) (ax.marked.trans hm1)
      (ax.qmap.trans hqm1) ?_, sem, hq5⟩
    rw [← hqe, ax.cur_eq rfl σ0, hcur1, hqe, hp.zero _ (Or.inr (Nat.le_refl _)), kval_TRUE]
    rfl
  · obtain ⟨rfl, hq', _⟩ := lookup_ok h hp.good
    exact ⟨hp, Sem2.refl _, hq'⟩

/-! ### specifications -/

/-- the qubit returned for an expression compiled without destination: the qubit of a known name, or an
ancilla taken from the scratch space of the state the compilation started from -/
def Res (scope : List String) (wo : Bool) (s s' : CState) (a : Nat) : Prop :=
  (∃ n, Known scope n ∧ dictGet? s'.qc.qmap n = some a) ∨
    (Avail s a ∧ a ∈ s'.qc.anc ∧ (wo = false → Tgt s' a))

/-- semantic specification of `compileExpr e` on the widened classes -/
def ExprSem2 (scope : List String) (ρ : Env) (σ0 : FState) (wo : Bool) (e : BExp) : Prop :=
  ∀ (dest : Option Nat) (sym : Option String) {a : Nat} {s s' : CState},
    (compileExpr e dest sym).run s = .ok (a, s') →
    Pre2 scope ρ σ0 s →
    (∀ p ∈ s.expq, ∀ c ∈ compKeys e, (p.1 == c) = false) →
    (∀ d, dest = some d → Priv scope s d) →
    (∀ x, sym = some x → x ∉ scope) →
    (isLeaf e = true → dest = none ∧ sym = none) →
    Pre2 scope ρ σ0 s' ∧
    Sem2 scope σ0 wo (CtlQ scope ρ s') (fun q => dest = some q) (· ∈ compKeys e)
      (fun m => Avail s m ∧ ¬ Avail s' m ∧ (dest = none → m ≠ a)) s s' ∧
    (dest = none → Res scope wo s s' a ∧ ¬ Avail s' a ∧ cur σ0 s' a = e.eval ρ ∧
      (isLeaf e = false → a ∈ s'.qc.anc)) ∧
    (∀ d, dest = some d → a = d ∧ cur σ0 s' d = Bool.xor (cur σ0 s d) (e.eval ρ) ∧ (wo = false → Tgt s' d))

def ArgsSem2 (scope : List String) (ρ : Env) (σ0 : FState) (wo : Bool) (as : List BExp) : Prop :=
  ∀ {rs : List Nat} {s s' : CState}, (compileArgs as).run s = .ok (rs, s') →
    Pre2 scope ρ σ0 s →
    (∀ p ∈ s.expq, ∀ c ∈ compKeysList as, (p.1 == c) = false) →
    Pre2 scope ρ σ0 s' ∧
    Sem2 scope σ0 wo (CtlQ scope ρ s') NoQ (· ∈ compKeysList as) (fun m => Avail s m ∧ ¬ Avail s' m) s s' ∧
    rs.map (cur σ0 s') = as.map (BExp.eval ρ) ∧
    (∀ q ∈ rs, Res scope wo s s' q ∧ ¬ Avail s' q) ∧
    ((∀ a ∈ as, isLeaf a = false) → ∀ q ∈ rs, q ∈ s'.qc.anc)

def XorSem2 (scope : List String) (ρ : Env) (σ0 : FState) (wo : Bool) (as : List BExp) : Prop :=
  ∀ (d : Nat) {a : Nat} {s s' : CState}, (compileXorArgs as d).run s = .ok (a, s') →
    Pre2 scope ρ σ0 s →
    (∀ p ∈ s.expq, ∀ c ∈ compKeysList as, (p.1 == c) = false) →
    Priv scope s d →
    a = d ∧ Pre2 scope ρ σ0 s' ∧
    Sem2 scope σ0 wo (CtlQ scope ρ s') (· = d) (· ∈ compKeysList as) (fun m => Avail s m ∧ ¬ Avail s' m) s s' ∧
      cur σ0 s' d = Bool.xor (cur σ0 s d) (evalXor ρ as) ∧ (wo = false → as ≠ [] → Tgt s' d)

theorem Res.sym_or_anc {s s' : CState} {a : Nat} (hp' : Pre2 scope ρ σ0 s') (h : Res scope wo s s' a)
    (ha : a ∈ s'.qc.anc) : Avail s a := by
  rcases h with ⟨n, hk, hq⟩ | h
  · exact absurd ha (hp'.tbl n a hk hq).2.1
  · exact h.1

theorem Res.tgt_of_anc {s s' : CState} {a : Nat} (hp' : Pre2 scope ρ σ0 s') (h : Res scope wo s s' a)
    (ha : a ∈ s'.qc.anc) (hwo : wo = false) : Tgt s' a := by
  rcases h with ⟨n, hk, hq⟩ | h
  · exact absurd ha (hp'.tbl n a hk hq).2.1
  · exact h.2.2 hwo

/-- an ancilla returned for a sub-expression is not a kept ancilla (it came from the scratch space) -/
theorem Res.notKept {s s' : CState} {a : Nat} (hp : Pre2 scope ρ σ0 s) (hp' : Pre2 scope ρ σ0 s')
    (h : Res scope wo s s' a) (ha : a ∈ s'.qc.anc) (hk : s'.qc.kept = s.qc.kept) : a ∉ s'.qc.kept := by
  rw [hk]; exact hp.notKept (h.sym_or_anc hp' ha)

theorem Tgt.appended {cls : GClass} {wires : List Nat} {s s' : CState} {q : Nat}
    (ha : Appended cls wires s s') (h : Tgt s q) : Tgt s' q := by
  obtain ⟨g', _, _, _, hc⟩ := ha.gates
  obtain ⟨g, hg, ht⟩ := h
  rcases hc with hc | hc
  · exact ⟨g, by rw [hc]; exact hg, ht⟩
  · exact ⟨g, by rw [hc]; simp [hg], ht⟩

theorem Res.next {Q : FState → Nat → Prop} {W : Nat → Prop} {K : BExp → Prop} {Mk : Nat → Prop}
    {s s1 s2 : CState} {a : Nat} (h : Res scope wo s s1 a) (sem : Sem2 scope σ0 wo Q W K Mk s1 s2) :
    Res scope wo s s2 a := by
  rcases h with ⟨n, hk, hq⟩ | ⟨h1, h2, h3⟩
  · exact Or.inl ⟨n, hk, sem.qkeep n a hk hq⟩
  · exact Or.inr ⟨h1, sem.akeep a h2, fun hwo => (h3 hwo).of_sem sem⟩

/-- the condition on a control that is the result of a compiled argument: it is marked at the end
(ancilla) or is a known name's qubit with that name's value -/
theorem ctl_of_res {s s2 t s' : CState} {c : Nat} (hp2 : Pre2 scope ρ σ0 s2) (hres : Res scope wo s s2 c)
    (hcur : cur σ0 t c = cur σ0 s2 c)
    (hk : ∀ n q, Known scope n → dictGet? s2.qc.qmap n = some q → dictGet? s'.qc.qmap n = some q)
    (hm : c ∈ s2.qc.anc → c ∈ s'.qc.marked) : CtlQ scope ρ s' (cur σ0 t) c := by
  rcases hres with ⟨n, hkn, hq⟩ | ⟨_, ha, _⟩
  · exact Or.inr ⟨n, hkn, hk n c hkn hq, by rw [hcur]; exact (hp2.tbl n c hkn hq).2.2⟩
  · exact Or.inl (hm ha)

/-! ### symbols and constants -/

theorem exprSem2_sym (n : String) (hin : n ∈ scope) : ExprSem2 scope ρ σ0 wo (.sym n) := by
  intro dest sym a s s' h hp _ _ _ hleaf
  obtain ⟨rfl, rfl⟩ := hleaf rfl
  unfold compileExpr at h
  obtain ⟨rfl, hq⟩ := compileSymbol_none_run h
  have hk : Known scope n := Or.inl hin
  refine ⟨hp, Sem2.refl _, fun _ => ⟨Or.inl ⟨n, hk, hq⟩, hp.sym_notAvail hk hq, ?_, fun h' => by cases h'⟩,
    fun d hd => by cases hd⟩
  rw [(hp.tbl n a hk hq).2.2, kval_scope hp.scopeOK hin]; rfl

theorem exprSem2_tt : ExprSem2 scope ρ σ0 wo .tt := by
  intro dest sym a s s' h hp _ _ _ hleaf
  obtain ⟨rfl, rfl⟩ := hleaf rfl
  unfold compileExpr at h
  obtain ⟨hp', sem, hq⟩ := constTrue_sem2 (wo := wo) (Q := CtlQ scope ρ s') h hp
  have hk : Known scope "TRUE" := Or.inr (Or.inl rfl)
  refine ⟨hp', sem.mono (fun _ _ h => h.elim) (fun _ h => h.elim) (fun _ h => h.elim),
    fun _ => ⟨Or.inl ⟨_, hk, hq⟩, hp'.sym_notAvail hk hq, ?_, fun h' => by cases h'⟩, fun d hd => by cases hd⟩
  rw [(hp'.tbl _ a hk hq).2.2, kval_TRUE]; rfl

theorem exprSem2_ff : ExprSem2 scope ρ σ0 wo .ff := by
  intro dest sym a s s' h hp _ _ _ hleaf
  obtain ⟨rfl, rfl⟩ := hleaf rfl
  unfold compileExpr at h
  obtain ⟨hp', sem, hq⟩ := constFalse_sem2 (wo := wo) (Q := CtlQ scope ρ s') h hp
  have hk : Known scope "FALSE" := Or.inr (Or.inr rfl)
  refine ⟨hp', sem.mono (fun _ _ h => h.elim) (fun _ h => h.elim) (fun _ h => h.elim),
    fun _ => ⟨Or.inl ⟨_, hk, hq⟩, hp'.sym_notAvail hk hq, ?_, fun h' => by cases h'⟩, fun d hd => by cases hd⟩
  rw [(hp'.tbl _ a hk hq).2.2, kval_FALSE]; rfl

/-! ### destination of a compound node -/

/-- the destination of a compound node: the caller's accumulator or an ancilla from the scratch space; it is
not among the argument qubits -/
theorem dest_sem2 {Q : FState → Nat → Prop} {dest : Option Nat} {erets : List Nat} {d : Nat} {s s2 s3 : CState}
    (hp2 : Pre2 scope ρ σ0 s2) (hd0 : ∀ d, dest = some d → Priv scope s d)
    (hd : ∀ d, dest = some d → Priv scope s2 d)
    (hb : ∀ q ∈ erets, Res scope wo s s2 q ∧ ¬ Avail s2 q)
    (h : (destOr dest).run s2 = .ok (d, s3)) :
    Pre2 scope ρ σ0 s3 ∧ Sem2 scope σ0 wo Q NoQ NoK NoQ s2 s3 ∧ cur σ0 s3 = cur σ0 s2 ∧ d ∉ erets ∧
      Priv scope s3 d ∧
      (dest = some d ∨ (dest = none ∧ Avail s2 d ∧ d ∈ s3.qc.anc ∧ cur σ0 s2 d = false)) := by
  cases dest with
  | some d0 =>
    obtain ⟨rfl, rfl⟩ := run_pure_ok.mp h
    refine ⟨hp2, Sem2.refl _, rfl, fun hm => ?_, hd d rfl, Or.inl rfl⟩
    rcases (hb d hm).1 with ⟨n, hk, hq⟩ | ⟨hav, _, _⟩
    · exact (hd d rfl).2 n hk hq
    · exact (hd0 d rfl).1 hav
  | none =>
    obtain ⟨hp3, semf, hcf, hav, hnav, hanc⟩ := getFreeAncilla_sem2 (wo := wo) (Q := Q) h hp2
    refine ⟨hp3, semf, hcf, fun hm => (hb d hm).2 hav, ⟨hnav, fun n hk hq => ?_⟩,
      Or.inr ⟨rfl, hav, hanc, hp2.zero d hav⟩⟩
    exact (hp3.tbl n d hk hq).2.1 hanc

/-! ### `Not` -/

theorem exprSem2_not {x : BExp} (hx : ∀ n, x = .sym n → n ∈ scope) (ih : ExprSem2 scope ρ σ0 wo x) :
    ExprSem2 scope ρ σ0 wo (.not x) := by
  intro dest sym a s s' h hp hcache hd hsym _
  unfold compileExpr at h
  dsimp only at h
  obtain ⟨r0, s1, hget, h1⟩ := run_bind_ok.mp h
  obtain ⟨rfl, rfl⟩ := expqGet?_miss hget (fun p hp' => hcache p hp' _ (by simp [compKeys]))
  dsimp only at h1
  rcases run_ite_ok.mp h1 with ⟨hc, _⟩ | ⟨_, h1⟩
  · exfalso
    cases x with
    | sym n =>
      cases sym with
      | some sy =>
        have e1 : n = sy := by simpa using hc
        exact hsym sy rfl (e1 ▸ hx n rfl)
      | none => simp at hc
    | _ => simp at hc
  · obtain ⟨shared, s1', hsh, h1⟩ := run_bind_ok.mp h1
    rw [(expqGet?_run hsh).1] at h1
    obtain ⟨eret, s2, he, h2⟩ := run_bind_ok.mp h1
    obtain ⟨hp2, sem1, hv1, _⟩ := ih none none he hp
      (fun p hp' c hc => hcache p hp' c (by simp [compKeys, hc])) (by intro d hd0; cases hd0)
      (by intro y hy; cases hy) (fun _ => ⟨rfl, rfl⟩)
    obtain ⟨hres, hnav2, hval, _⟩ := hv1 rfl
    obtain ⟨qc, s3, hq, h3⟩ := run_bind_ok.mp h2
    obtain ⟨rfl, rfl⟩ := getQC_run hq
    split at h3
    · next hcond =>
      -- in place on the ancilla that holds the argument
      simp only [Bool.and_eq_true] at hcond
      have hdn : dest = none := by
        cases dest with
        | none => rfl
        | some d => simp at hcond
      subst hdn
      have hanc : eret ∈ s3.qc.anc := by simpa using hcond.1.2
      have hav0 : Avail s1 eret := hres.sym_or_anc hp2 hanc
      have hpriv : Priv scope s3 eret := ⟨hnav2, fun n hk hq' => (hp2.tbl n eret hk hq').2.1 hanc⟩
      obtain ⟨u1, s4, hev, h4⟩ := run_bind_ok.mp h3
      obtain ⟨u2, s5, hx', h5⟩ := run_bind_ok.mp h4
      obtain ⟨u3, s6, hset, h6⟩ := run_bind_ok.mp h5
      obtain ⟨rfl, rfl⟩ := run_pure_ok.mp h6
      obtain ⟨hp4, sem4, hc4⟩ := event_sem2 (wo := wo) (Q := CtlQ scope ρ s') hev hp2
      have hpriv4 : Priv scope s4 a := hpriv.next sem4
      have hp5 := xGate_pre2 hx' hp4 hpriv4
      obtain ⟨ax, sem5, tg5⟩ := xGate_sem2 (scope := scope) (σ0 := σ0) (wo := wo) (Q := CtlQ scope ρ s') hx' hpriv4.1
      obtain ⟨hp6, sem6, hc6, hqc6⟩ := expqSet_sem2 (wo := wo) (Q := CtlQ scope ρ s') hset hp5
        (by rw [ax.nq]; exact notAvail_lt hpriv4.1)
      have tail := (sem4.trans' sem5).trans' sem6
      have tot := (sem1.monoQ (CtlQ.of_sem tail)).trans' tail
      have hnav6 : ¬ Avail s' a := fun h' => hnav2 (tail.avail a h')
      refine ⟨hp6, tot.mono ?_ ?_ ?_, fun _ => ⟨Or.inr ⟨hav0, tail.akeep a hanc, fun _ => tg5.of_sem sem6⟩, hnav6, ?_,
        fun _ => tail.akeep a hanc⟩, fun d hd0 => by cases hd0⟩
      · rintro q hq' (h' | ((h' | h') | h'))
        · exact nomatch h'
        · exact h'.elim
        · rcases hq' with hq' | hq'
          · exact absurd (h' ▸ hav0) hq'
          · exact absurd (h' ▸ hq') hnav6
        · exact h'.elim
      · rintro c (h' | ((h' | h') | h'))
        · simp [compKeys, show c ∈ compKeys x from h']
        · exact h'.elim
        · exact h'.elim
        · simp [compKeys, show c = BExp.not x from h']
      · rintro m (h' | ((h' | h') | h'))
        · exact ⟨h'.1, fun hm => h'.2.1 (tail.avail m hm), fun _ => h'.2.2 rfl⟩
        · exact h'.elim
        · exact h'.elim
        · exact h'.elim
      · rw [hc6, ax.cur_eq rfl σ0, hc4, hval]
        simp [BExp.eval]
    · -- copy (`CX`) into the destination and negate (`X`)
      have hd2 : ∀ d, dest = some d → Priv scope s3 d := fun d hd' => (hd d hd').next sem1
      have body : ∀ {d : Nat} {s4 : CState},
          (destOr dest).run s3 = .ok (d, s4) →
          StateT.run (do
            cx eret d
            xGate d
            markAncilla eret
            if dest.isNone = true then do
                expqSet x.not d
                pure d
              else pure d : M Nat) s4 = .ok (a, s') →
          Pre2 scope ρ σ0 s' ∧
          Sem2 scope σ0 wo (CtlQ scope ρ s') (fun q => dest = some q) (· ∈ compKeys (BExp.not x))
            (fun m => Avail s1 m ∧ ¬ Avail s' m ∧ (dest = none → m ≠ a)) s1 s' ∧
          (dest = none → Res scope wo s1 s' a ∧ ¬ Avail s' a ∧ cur σ0 s' a = (BExp.not x).eval ρ ∧
            (isLeaf (BExp.not x) = false → a ∈ s'.qc.anc)) ∧
          (∀ d, dest = some d → a = d ∧ cur σ0 s' d = Bool.xor (cur σ0 s1 d) ((BExp.not x).eval ρ) ∧
            (wo = false → Tgt s' d)) := by
        intro d s4 hdest hrun
        obtain ⟨hp4, semd, hcd, hdn, hpriv4, hdcase⟩ := dest_sem2 (wo := wo) (Q := CtlQ scope ρ s')
          (erets := [eret]) hp2 hd hd2
          (by intro q hq'; have : q = eret := by simpa using hq'
              rw [this]; exact ⟨hres, hnav2⟩) hdest
        have hnav4 : ¬ Avail s4 eret := fun h' => hnav2 (semd.avail _ h')
        obtain ⟨u1, t1, hcx, k1⟩ := run_bind_ok.mp hrun
        obtain ⟨u2, t2, hx', k2⟩ := run_bind_ok.mp k1
        obtain ⟨u3, t3, hmk, k3⟩ := run_bind_ok.mp k2
        have hpt1 := cx_pre2 hcx hp4 hpriv4 hnav4
        have a1 := cx_run hcx
        have hav1 : ∀ q, Avail t1 q ↔ Avail s4 q := by intro q; unfold Avail; rw [a1.free, a1.nq]
        have hpriv1 : Priv scope t1 d := ⟨fun h' => hpriv4.1 ((hav1 d).mp h'), by rw [a1.qmap]; exact hpriv4.2⟩
        have hpt2 := xGate_pre2 hx' hpt1 hpriv1
        have a2 := xGate_run hx'
        have hanc2 : t2.qc.anc = s4.qc.anc := a2.anc.trans a1.anc
        have hres4 : Res scope wo s1 s4 eret := hres.next semd
        obtain ⟨hpt3, sem3, hc3, hmk3, hanc3⟩ := markAncilla_sem2 (wo := wo) (Q := CtlQ scope ρ s') hmk hpt2
          (fun hwo ha => ((hres4.tgt_of_anc hp4 (hanc2 ▸ ha) hwo).appended a1).appended a2)
        have hkept2 : t2.qc.kept = s1.qc.kept :=
          a2.kept.trans (a1.kept.trans (semd.kkeep.trans sem1.kkeep))
        have hlt3 : d < t3.qc.numQubits := by
          rw [(markAncilla_run hmk).2.1, a2.nq]; exact notAvail_lt hpriv1.1
        obtain ⟨ead, hp', sem4, hc4⟩ : a = d ∧ Pre2 scope ρ σ0 s' ∧
            Sem2 scope σ0 wo (CtlQ scope ρ s') NoQ (· = BExp.not x) NoQ t3 s' ∧ cur σ0 s' = cur σ0 t3 := by
          split at k3
          · obtain ⟨u4, t4, hset, k4⟩ := run_bind_ok.mp k3
            obtain ⟨e1, e2⟩ := run_pure_ok.mp k4
            subst e2
            obtain ⟨p4, s4', c4, _⟩ := expqSet_sem2 (wo := wo) (Q := CtlQ scope ρ s') hset hpt3 hlt3
            exact ⟨e1, p4, s4', c4⟩
          · obtain ⟨e1, e2⟩ := run_pure_ok.mp k3
            subst e2
            exact ⟨e1, hpt3, Sem2.refl _, rfl⟩
        subst ead
        have hkq : ∀ n q, Known scope n → dictGet? s3.qc.qmap n = some q → dictGet? s'.qc.qmap n = some q :=
          fun n q hk hq' => sem4.qkeep n q hk (sem3.qkeep n q hk (by
            rw [a2.qmap, a1.qmap]; exact semd.qkeep n q hk hq'))
        obtain ⟨_, semc, tgc⟩ := cx_sem2 (scope := scope) (σ0 := σ0) (wo := wo) (Q := CtlQ scope ρ s') hcx hpriv4.1
          (fun _ => ctl_of_res hp2 hres (by rw [hcd]) hkq
            (fun ha => sem4.mkeep _ (hmk3 (by rw [hanc2]; exact semd.akeep _ ha)
              (by rw [hkept2]; exact hp.notKept (hres.sym_or_anc hp2 ha)))))
        obtain ⟨_, semx, _⟩ := xGate_sem2 (scope := scope) (σ0 := σ0) (wo := wo) (Q := CtlQ scope ρ s') hx' hpriv1.1
        have tail4 := ((semc.trans' semx).trans' sem3).trans' sem4
        have tgd' : Tgt s' a := ((tgc.of_sem semx).of_sem sem3).of_sem sem4
        have tail := semd.trans' tail4
        have tot := (sem1.monoQ (CtlQ.of_sem tail)).trans' tail
        have hv2 : cur σ0 t2 a = !(Bool.xor (cur σ0 s4 a) (cur σ0 s4 eret)) := by
          rw [a2.cur_eq rfl σ0, a1.cur_eq rfl σ0]; simp
        have hvs' : cur σ0 s' a = !(Bool.xor (cur σ0 s3 a) (cur σ0 s3 eret)) := by
          rw [hc4, hc3, hv2, hcd]
        have hnava' : ¬ Avail s' a := fun h' => hpriv4.1 (tail4.avail a h')
        have hnave' : ¬ Avail s' eret := fun h' => hnav4 (tail4.avail eret h')
        have hmke : ∀ m, m = eret ∧ eret ∈ t2.qc.anc → Avail s1 m := by
          rintro m ⟨rfl, h2⟩
          rw [hanc2] at h2
          exact hres4.sym_or_anc hp4 h2
        have hne : eret ≠ a := fun e => hdn (by rw [← e]; simp)
        rcases hdcase with hsome | ⟨hnone, hava, hanca, hz⟩
        · subst hsome
          refine ⟨hp', tot.mono ?_ ?_ ?_, fun hn => (by cases hn), fun d' hd' => ?_⟩
          · rintro q _ (h' | (h' | (((h' | h') | h') | h')))
            · exact nomatch h'
            · exact h'.elim
            · rw [h']
            · rw [h']
            · exact h'.elim
            · exact h'.elim
          · rintro c (h' | (h' | (((h' | h') | h') | h')))
            · simp [compKeys, show c ∈ compKeys x from h']
            · exact h'.elim
            · exact h'.elim
            · exact h'.elim
            · exact h'.elim
            · simp [compKeys, show c = BExp.not x from h']
          · rintro m (h' | (h' | (((h' | h') | h') | h')))
            · exact ⟨h'.1, fun hm => h'.2.1 (tail.avail m hm), fun hn => by cases hn⟩
            · exact h'.elim
            · exact h'.elim
            · exact h'.elim
            · exact ⟨hmke m h', h'.1 ▸ hnave', fun hn => by cases hn⟩
            · exact h'.elim
          · cases hd'
            refine ⟨rfl, ?_, fun _ => tgd'⟩
            rw [hvs', sem1.frame a (fun h' => by cases h') (Or.inl (hd a rfl).1), hval, bnot_xor]
            simp [BExp.eval]
        · subst hnone
          have hav1 : Avail s1 a := sem1.avail a hava
          refine ⟨hp', tot.mono ?_ ?_ ?_, fun _ => ⟨Or.inr ⟨hav1, tail4.akeep a hanca, fun _ => tgd'⟩, hnava', ?_,
            fun _ => tail4.akeep a hanca⟩, fun d' hd' => by cases hd'⟩
          · rintro q hq' (h' | (h' | (((h' | h') | h') | h')))
            · exact nomatch h'
            · exact h'.elim
            · rcases hq' with hq' | hq'
              · exact absurd (h' ▸ hav1) hq'
              · exact absurd (h' ▸ hq') hnava'
            · rcases hq' with hq' | hq'
              · exact absurd (h' ▸ hav1) hq'
              · exact absurd (h' ▸ hq') hnava'
            · exact h'.elim
            · exact h'.elim
          · rintro c (h' | (h' | (((h' | h') | h') | h')))
            · simp [compKeys, show c ∈ compKeys x from h']
            · exact h'.elim
            · exact h'.elim
            · exact h'.elim
            · exact h'.elim
            · simp [compKeys, show c = BExp.not x from h']
          · rintro m (h' | (h' | (((h' | h') | h') | h')))
            · exact ⟨h'.1, fun hm => h'.2.1 (tail.avail m hm), fun _ e => h'.2.1 (e ▸ hava)⟩
            · exact h'.elim
            · exact h'.elim
            · exact h'.elim
            · exact ⟨hmke m h', h'.1 ▸ hnave', fun _ => h'.1 ▸ hne⟩
            · exact h'.elim
          · rw [hvs', hz, hval]; simp [BExp.eval]
      cases dest with
      | some d0 =>
        dsimp only at h3
        obtain ⟨d, s4, hp0, h4⟩ := run_bind_ok.mp h3
        exact body hp0 h4
      | none =>
        dsimp only at h3
        obtain ⟨d, s4, hf, h4⟩ := run_bind_ok.mp h3
        exact body hf h4

end QV.Compiler
