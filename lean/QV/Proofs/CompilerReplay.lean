import QV.Proofs.CompilerSem
/-!
# Exact gate lists of the replay loops (`uncompute`, `uncompute_all`)

`CompilerSem.lean` shows which *targets* the replayed gates have.  Cleanliness needs the exact list:
`uncompute` appends, up to gate identity, the reversed computed gates whose target is marked;
`uncompute_all(keep)` appends nothing when every gate targets a kept or an already freed qubit.
-/
namespace QV.Compiler
open QV

/-- the part of a gate its classical action depends on (replays are new gate objects) -/
def gcore (g : AGate) : GClass × List Nat := (g.cls, g.wires)

theorem stepF_gcore {g g' : AGate} (h : gcore g = gcore g') (f : FState) : stepF f g = stepF f g' := by
  unfold gcore at h
  have h1 : g.cls = g'.cls := congrArg Prod.fst h
  have h2 : g.wires = g'.wires := congrArg Prod.snd h
  unfold stepF applyF
  rw [h1, h2]

/-- gate lists that agree up to gate identity act the same -/
theorem runF_gcore : ∀ {l1 l2 : List AGate}, l1.map gcore = l2.map gcore → ∀ f : FState, runF l1 f = runF l2 f
  | [], [], _, _ => rfl
  | [], _ :: _, h, _ => by simp at h
  | _ :: _, [], h, _ => by simp at h
  | g :: l1, g' :: l2, h, f => by
    simp only [List.map_cons, List.cons.injEq] at h
    rw [runF_cons, runF_cons, stepF_gcore h.1, runF_gcore h.2]

theorem mem_setIns_of {l : List Nat} {x y : Nat} (h : y ∈ l ∨ y = x) : y ∈ setIns l x := by
  unfold setIns
  split
  · next hc =>
    rcases h with h | h
    · exact h
    · rw [h]; simpa using hc
  · rcases h with h | h
    · exact List.mem_append_left _ h
    · rw [h]; simp

theorem mem_foldl_setIns_of_mem_r {l f : List Nat} {x : Nat} (h : x ∈ l ∨ x ∈ f) : x ∈ l.foldl setIns f := by
  induction l generalizing f with
  | nil =>
    rcases h with h | h
    · cases h
    · exact h
  | cons a l ih =>
    rw [List.foldl_cons]
    apply ih
    rcases h with h | h
    · rcases List.mem_cons.mp h with h | h
      · exact Or.inr (mem_setIns_of (Or.inr h))
      · exact Or.inl h
    · exact Or.inr (mem_setIns_of (Or.inl h))

theorem uncomputeLoop_exact {marked : List Nat} :
    ∀ (gs : List AGate) (unc : List Nat) (keepRev : List AGate) {r : List Nat × List AGate} {s s' : CState},
    (uncomputeLoop marked gs unc keepRev).run s = .ok (r, s') →
    ∃ extra, s'.qc.gates.toList = s.qc.gates.toList ++ extra ∧
      extra.map gcore = (gs.filter (fun g => marked.contains g.target)).map gcore ∧
      s'.qc.free = s.qc.free ∧ s'.qc.marked = s.qc.marked ∧ s'.qc.anc = s.qc.anc
  | [], unc, keepRev, r, s, s', h => by
    unfold uncomputeLoop at h
    obtain ⟨rfl, rfl⟩ := run_pure_ok.mp h
    exact ⟨[], by simp, by simp, rfl, rfl, rfl⟩
  | g :: gs, unc, keepRev, r, s, s', h => by
    unfold uncomputeLoop at h
    dsimp only at h
    rcases run_ite_ok.mp h with ⟨hc, h⟩ | ⟨hc, h⟩
    · obtain ⟨b, s1, happ, h1⟩ := run_bind_ok.mp h
      have ha := appendG_run happ
      obtain ⟨g', hgc, hgw, hgates, _⟩ := ha.gates
      have rest : ∀ {s2 : CState}, s2.qc = s1.qc →
          (uncomputeLoop marked gs (setIns unc g.target) keepRev).run s2 = .ok (r, s') →
          ∃ extra, s'.qc.gates.toList = s.qc.gates.toList ++ extra ∧
            extra.map gcore = ((g :: gs).filter (fun g => marked.contains g.target)).map gcore ∧
            s'.qc.free = s.qc.free ∧ s'.qc.marked = s.qc.marked ∧ s'.qc.anc = s.qc.anc := by
        intro s2 hq h2
        obtain ⟨extra, e1, e2, e3, e4, e5⟩ := uncomputeLoop_exact gs _ _ h2
        refine ⟨g' :: extra, ?_, ?_, ?_, ?_, ?_⟩
        · rw [e1, hq, hgates]; simp
        · have hf : (g :: gs).filter (fun g => marked.contains g.target) =
              g :: gs.filter (fun g => marked.contains g.target) := by
            simp only [List.filter_cons, hc, if_true]
          rw [hf]
          have hg : gcore g' = gcore g := by unfold gcore; rw [hgc, hgw]
          rw [List.map_cons, List.map_cons, e2, hg]
        · rw [e3, hq]; exact ha.free
        · rw [e4, hq]; exact ha.marked
        · rw [e5, hq]; exact ha.anc
      rcases run_ite_ok.mp h1 with ⟨_, h1⟩ | ⟨_, h1⟩
      · obtain ⟨u, s2, hev, h2⟩ := run_bind_ok.mp h1
        have := event_run hev; subst this
        exact rest (s2 := { s1 with events := s1.events ++ ["staleReplay"] }) rfl h2
      · exact rest rfl h1
    · have hf : (g :: gs).filter (fun g => marked.contains g.target) =
          gs.filter (fun g => marked.contains g.target) := by
        simpa [List.filter_cons] using hc
      rw [hf]
      exact uncomputeLoop_exact gs _ _ h

/-- `uncompute` appends (up to gate identity) the reversed computed gates whose target is marked, and
puts every marked qubit into the free set -/
theorem uncompute_exact {r : List Nat} {s s' : CState} (h : uncompute.run s = .ok (r, s')) :
    ∃ extra, s'.qc.gates.toList = s.qc.gates.toList ++ extra ∧
      extra.map gcore =
        (s.qc.gatesComputed.toList.reverse.filter (fun g => s.qc.marked.contains g.target)).map gcore ∧
      (∀ m ∈ s.qc.marked, m ∈ s'.qc.free) := by
  unfold uncompute at h
  obtain ⟨qc, s1, hq, h1⟩ := run_bind_ok.mp h
  obtain ⟨rfl, rfl⟩ := getQC_run hq
  rcases run_ite_ok.mp h1 with ⟨he, h1⟩ | ⟨_, h1⟩
  · obtain ⟨_, rfl⟩ := run_pure_ok.mp h1
    have hm := List.isEmpty_iff.mp he
    refine ⟨[], by simp, ?_, ?_⟩
    · rw [hm]; simp
    · rw [hm]; intro m hmem; cases hmem
  · obtain ⟨x, s2, hloop, h2⟩ := run_bind_ok.mp h1
    obtain ⟨extra, e1, e2, e3, _, _⟩ := uncomputeLoop_exact _ _ _ hloop
    obtain ⟨unc, keepRev⟩ := x
    dsimp only at h2
    obtain ⟨u, s3, hm, h3⟩ := run_bind_ok.mp h2
    obtain ⟨rfl, rfl⟩ := run_pure_ok.mp h3
    have := modQC_run hm; subst this
    exact ⟨extra, e1, e2, fun m hmem => mem_foldl_setIns_of_mem_r (Or.inl hmem)⟩

theorem uncomputeAllLoop_skip {keep alreadyFree : List Nat} {off : Nat} :
    ∀ (gs : List AGate) {u : Unit} {s s' : CState},
    (uncomputeAllLoop keep alreadyFree off gs).run s = .ok (u, s') →
    (∀ g ∈ gs, keep.contains g.target = true ∨ alreadyFree.contains g.target = true) →
    s' = s
  | [], u, s, s', h, _ => by
    unfold uncomputeAllLoop at h
    obtain ⟨_, rfl⟩ := run_pure_ok.mp h
    rfl
  | g :: gs, u, s, s', h, hall => by
    unfold uncomputeAllLoop at h
    dsimp only at h
    obtain ⟨qc, s1, hq, h1⟩ := run_bind_ok.mp h
    obtain ⟨rfl, rfl⟩ := getQC_run hq
    rcases run_ite_ok.mp h1 with ⟨_, h1⟩ | ⟨hskip, h1⟩
    · exact uncomputeAllLoop_skip gs h1 (fun x hx => hall x (List.mem_cons_of_mem _ hx))
    · exfalso; apply hskip
      rcases hall g List.mem_cons_self with hk | hk
      · rw [hk]; simp
      · rw [hk]; simp

/-- `uncompute_all(keep)` appends nothing when every gate targets a kept or an already freed qubit -/
theorem uncomputeAll_skip {keep : List Nat} {u : Unit} {s s' : CState}
    (h : (uncomputeAll keep).run s = .ok (u, s'))
    (hall : ∀ g ∈ s.qc.gates.toList, keep.contains g.target = true ∨ s.qc.free.contains g.target = true) :
    s'.qc.gates = s.qc.gates ∧ s'.qc.numQubits = s.qc.numQubits ∧ s'.qc.qmap = s.qc.qmap := by
  unfold uncomputeAll at h
  obtain ⟨qc, s1, hq, h1⟩ := run_bind_ok.mp h
  obtain ⟨rfl, rfl⟩ := getQC_run hq
  obtain ⟨u1, s2, hloop, hm⟩ := run_bind_ok.mp h1
  have hs2 := uncomputeAllLoop_skip _ hloop (fun g hg => hall g (List.mem_reverse.mp hg))
  subst hs2
  have := modQC_run hm; subst this
  exact ⟨rfl, rfl, rfl⟩

end QV.Compiler
