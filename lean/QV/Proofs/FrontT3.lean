import QV.Proofs.FrontT2
/-! Soundness of `QV.Front.tr` w.r.t. the widened semantics `QV.Sem.semT`, part 3: comparisons - bools,
`Qint`s (as `QV/Proofs/Front3.lean`), `Qchar` with `Qchar` / `Qint` (`== !=` through `QintImp.eq / neq`),
tuples of one type (`==`: the loop of `translate_expression` over the flat bit positions). -/
namespace QV.Sem
open QV QV.Arith QV.Front

set_option linter.unusedSimpArgs false
set_option linter.unusedVariables false

/-! ### the tuple comparison loop -/

/-- body of the inner `for si in range(BIT_SIZE)` loop -/
def cmpBody (l r : List Val) (idx : Nat) (k : Nat) (s : BExp) : Except String (ForInStep BExp) :=
  match l[idx + k]?, r[idx + k]? with
  | some (.atom a), some (.atom b) => pure (ForInStep.yield (BExp.and [s, bEq a b]))
  | _, _ => throw "tuple comparison on nested values"

/-- number of positions an element type takes in the loop -/
def elemSize (t : Ty) : Except String Nat := match t with | .bool => pure 1 | _ => sizeOf! t

theorem tupleCmpLoop_cons (l r : List Val) (t : Ty) (ts : List Ty) (idx : Nat) (c : BExp) :
    tupleCmpLoop l r (t :: ts) idx c =
      elemSize t >>= fun n =>
        forIn (List.range' 0 n) c (cmpBody l r idx) >>= fun c1 => tupleCmpLoop l r ts (idx + n) c1 := by
  have key : ∀ n, (forIn [:n] c fun k __s =>
              match l[idx + k]?, r[idx + k]? with
              | some (Val.atom a), some (Val.atom b) =>
                (pure (ForInStep.yield (BExp.and [__s, bEq a b])) : Except String _)
              | x, x_1 => do
                throw "tuple comparison on nested values"
                pure (ForInStep.yield __s)) = forIn (List.range' 0 n) c (cmpBody l r idx) := by
    intro n
    rw [Std.Legacy.Range.forIn_eq_forIn_range']
    simp only [Std.Legacy.Range.size, Nat.sub_zero, Nat.add_sub_cancel, Nat.div_one]
    congr 1
  cases t <;> rw [tupleCmpLoop] <;> (try simp only [elemSize]) <;>
    first
    | (intro hh; cases hh)
    | (congr 1; funext n; congr 1; exact key n)

theorem elemSize_ok {t : Ty} {n : Nat} (h : elemSize t = .ok n) : n = t.bits := by
  cases t with
  | bool => simp only [elemSize, pure, Except.pure, Except.ok.injEq] at h; rw [← h]; rfl
  | qint w => simp only [elemSize, sizeOf!, Ty.size?, pure, Except.pure, Except.ok.injEq] at h; rw [← h]; rfl
  | qchar => simp only [elemSize, sizeOf!, Ty.size?, pure, Except.pure, Except.ok.injEq] at h; rw [← h]; rfl
  | tuple ts => simp [elemSize, sizeOf!, Ty.size?, throw, throwThe, MonadExceptOf.throw] at h

theorem drop_of_getElem? {α} {l : List α} {i : Nat} {x : α} (h : l[i]? = some x) :
    l.drop i = x :: l.drop (i + 1) := by
  obtain ⟨hi, hx⟩ := List.getElem?_eq_some_iff.mp h
  rw [List.drop_eq_getElem_cons hi, hx]

theorem decide_cons_eq (x y : Bool) (A B : List Bool) :
    decide (x :: A = y :: B) = ((x == y) && decide (A = B)) := by
  by_cases h1 : x = y <;> by_cases h2 : A = B <;> simp [h1, h2]

theorem cmpInner (ρ : QV.Env) (l r : List Val) (idx : Nat) :
    ∀ (n s : Nat) (c c' : BExp),
      forIn (List.range' s n) c (cmpBody l r idx) = Except.ok c' →
      ∃ as bs : List BExp, as.length = n ∧ bs.length = n ∧
        (l.drop (idx + s)).take n = as.map Val.atom ∧ (r.drop (idx + s)).take n = bs.map Val.atom ∧
        c'.eval ρ = (c.eval ρ && decide (evalBits ρ as = evalBits ρ bs)) := by
  intro n
  induction n with
  | zero =>
    intro s c c' h
    simp only [List.range'_zero, List.forIn_nil, pure, Except.pure, Except.ok.injEq] at h
    subst h
    exact ⟨[], [], rfl, rfl, by simp, by simp, by simp [evalBits]⟩
  | succ n ih =>
    intro s c c' h
    rw [List.range'_succ, List.forIn_cons, bind_ok] at h
    obtain ⟨st, h1, h2⟩ := h
    unfold cmpBody at h1
    split at h1
    · rename_i a b hl hr
      simp only [pure, Except.pure, Except.ok.injEq] at h1
      subst h1
      obtain ⟨as, bs, ha, hb, hla, hrb, hev⟩ := ih (s + 1) _ _ h2
      refine ⟨a :: as, b :: bs, by simp [ha], by simp [hb], ?_, ?_, ?_⟩
      · rw [← Nat.add_assoc] at hla
        rw [drop_of_getElem? hl, List.take_succ_cons, hla]; rfl
      · rw [← Nat.add_assoc] at hrb
        rw [drop_of_getElem? hr, List.take_succ_cons, hrb]; rfl
      · rw [hev]
        simp only [BExp.eval, evalAnd, bEq_eval, Bool.and_true, evalBits, List.map_cons, decide_cons_eq]
        cases c.eval ρ <;> cases a.eval ρ <;> cases b.eval ρ <;> simp <;> congr
    · simp [throw, throwThe, MonadExceptOf.throw] at h1

theorem cmpOuter (ρ : QV.Env) (l r : List Val) :
    ∀ (ts : List Ty) (idx : Nat) (c c' : BExp), tupleCmpLoop l r ts idx c = .ok c' →
      ∃ as bs : List BExp, as.length = Ty.bitsList ts ∧ bs.length = Ty.bitsList ts ∧
        (l.drop idx).take (Ty.bitsList ts) = as.map Val.atom ∧
        (r.drop idx).take (Ty.bitsList ts) = bs.map Val.atom ∧
        c'.eval ρ = (c.eval ρ && decide (evalBits ρ as = evalBits ρ bs)) := by
  intro ts
  induction ts with
  | nil =>
    intro idx c c' h
    simp only [tupleCmpLoop, pure, Except.pure, Except.ok.injEq] at h
    subst h
    exact ⟨[], [], rfl, rfl, by simp [Ty.bitsList], by simp [Ty.bitsList], by simp [evalBits]⟩
  | cons t ts ih =>
    intro idx c c' h
    rw [tupleCmpLoop_cons] at h
    simp only [bind_ok] at h
    obtain ⟨n, hn, c1, h1, h2⟩ := h
    have hnb := elemSize_ok hn
    subst hnb
    obtain ⟨as1, bs1, ha1, hb1, hl1, hr1, he1⟩ := cmpInner ρ l r idx _ 0 c c1 h1
    obtain ⟨as2, bs2, ha2, hb2, hl2, hr2, he2⟩ := ih _ _ _ h2
    simp only [Nat.add_zero] at hl1 hr1
    refine ⟨as1 ++ as2, bs1 ++ bs2, by simp [ha1, ha2, Ty.bitsList], by simp [hb1, hb2, Ty.bitsList], ?_, ?_, ?_⟩
    · rw [Ty.bitsList, List.take_add, hl1, List.drop_drop, hl2, List.map_append]
    · rw [Ty.bitsList, List.take_add, hr1, List.drop_drop, hr2, List.map_append]
    · rw [he2, he1, evalBits_append, evalBits_append]
      have hlen : (evalBits ρ as1).length = (evalBits ρ bs1).length := by simp [evalBits, ha1, hb1]
      by_cases e1 : evalBits ρ as1 = evalBits ρ bs1
      · by_cases e2 : evalBits ρ as2 = evalBits ρ bs2
        · simp [e1, e2]
        · have : ¬ (evalBits ρ as1 ++ evalBits ρ as2 = evalBits ρ bs1 ++ evalBits ρ bs2) :=
            fun hh => e2 (List.append_inj hh hlen).2
          simp [e1, e2, this]
      · have : ¬ (evalBits ρ as1 ++ evalBits ρ as2 = evalBits ρ bs1 ++ evalBits ρ bs2) :=
          fun hh => e1 (List.append_inj hh hlen).1
        simp [e1, this]

theorem flattenList_append (x y : List Val) :
    Val.flattenList (x ++ y) = Val.flattenList x ++ Val.flattenList y := by
  induction x with
  | nil => rfl
  | cons v vs ih => simp [Val.flattenList, ih]

/-- a list value whose first `n` elements are the expressions `as` and which has `n` leaves in all is,
flattened, `as` -/
theorem flatten_of_take (l : List Val) (as : List BExp) (h : l.take as.length = as.map Val.atom)
    (hlen : (Val.flattenList l).length = as.length) : Val.flattenList l = as := by
  have e : l = as.map Val.atom ++ l.drop as.length := by rw [← h, List.take_append_drop]
  rw [e, flattenList_append, flattenList_atoms] at hlen ⊢
  simp only [List.length_append] at hlen
  have : (Val.flattenList (List.drop as.length l)).length = 0 := by omega
  rw [List.length_eq_zero_iff.mp this, List.append_nil]


/-- the loop of the tuple comparison, run on two values that denote tuples of one type, decides python's
equality of the two tuples -/
theorem tupleCmp_eval (ρ : QV.Env) (a b : List Val) (sa sb : List TVal)
    (hwa : TVal.wfList sa = true) (hwb : TVal.wfList sb = true)
    (hba : evalBits ρ (Val.flattenList a) = TVal.bitsList sa)
    (hbb : evalBits ρ (Val.flattenList b) = TVal.bitsList sb)
    (htys : TVal.tyList sa = TVal.tyList sb) (c : BExp)
    (hloop : tupleCmpLoop a b (TVal.tyList sa) 0 .tt = .ok c) : c.eval ρ = TVal.beqList sa sb := by
  obtain ⟨as, bs, hla, hlb, hta, htb, hev⟩ := cmpOuter ρ a b _ 0 .tt c hloop
  simp only [List.drop_zero] at hta htb
  have hna : (Val.flattenList a).length = as.length := by
    have := congrArg List.length hba
    rw [TVal.bitsList_length] at this
    simpa [evalBits, hla] using this
  have hnb : (Val.flattenList b).length = bs.length := by
    have := congrArg List.length hbb
    rw [TVal.bitsList_length, ← htys] at this
    simpa [evalBits, hlb] using this
  rw [← hla] at hta
  rw [← hlb] at htb
  have hfa := flatten_of_take a as hta hna
  have hfb := flatten_of_take b bs htb hnb
  rw [hfa] at hba
  rw [hfb] at hbb
  rw [hev, hba, hbb]
  simp only [BExp.eval, Bool.true_and]
  have := TVal.beqList_iff_bits sa sb htys hwa hwb
  by_cases hb : TVal.bitsList sa = TVal.bitsList sb
  · simp [hb, this.mpr hb]
  · have : TVal.beqList sa sb = false := by
      rw [← Bool.not_eq_true]; exact fun h => hb (this.mp h)
    simp [hb, this]

/-! ### the comparison forms -/

set_option hygiene false in
macro "cmp_startT" : tactic => `(tactic| (
  intro s t v s' hw h
  rw [tr] at h
  simp only [run_bind_ok] at h
  obtain ⟨⟨lt, lv⟩, s1, h1, ⟨rt, rv⟩, s2, h2, h3⟩ := h
  simp only [wellT, Bool.and_eq_true] at hw
  obtain ⟨hwl, hwr⟩ := hw
  obtain ⟨svl, hsl, hdl⟩ := ihl _ _ _ _ hwl h1
  obtain ⟨svr, hsr, hdr⟩ := ihr _ _ _ _ hwr h2))

set_option hygiene false in
/-- the `Qint × Qint` branch of `Compare` -/
macro "cmp_intT" qf:term:max spec:term:max res:term:max : tactic => `(tactic| (
  simp only [String.reduceEq, imp_self, Ty.size?, run_bind_ok, run_lift_ok, bitsOf_ofBits,
    Except.ok.injEq] at h3
  obtain ⟨_, _, ⟨rfl, rfl⟩, _, _, ⟨rfl, rfl⟩, h4⟩ := h3
  simp only [isQint, Bool.not_true, Bool.false_eq_true, if_false] at h4
  have h5 : (t, v) = (Ty.bool, Val.atom ($qf a b)) := by
    split at h4
    · simp only [run_bind_ok, run_pure_ok] at h4
      obtain ⟨_, _, _, _, _, ⟨rfl, _⟩, h6, _⟩ := h4
      exact h6
    · simp only [run_bind_ok, run_pure_ok] at h4
      obtain ⟨_, _, ⟨rfl, _⟩, h6, _⟩ := h4
      exact h6
  cases h5
  exact ⟨.bool $res, by simp [semT, hsl, hsr, cmpT, cmpNat], DenT.mk_bool _ _ ($spec ρ a b)⟩))

set_option hygiene false in
/-- `Qint` on the left, `Qchar` on the right: `Qint.comparable` refuses -/
macro "cmp_int_charT" : tactic => `(tactic| (
  simp only [String.reduceEq, imp_self, Ty.size?, run_bind_ok, run_lift_ok, bitsOf_ofBits,
    Except.ok.injEq] at h3
  obtain ⟨_, _, ⟨rfl, rfl⟩, _, _, ⟨rfl, rfl⟩, h4⟩ := h3
  simp only [isQint, Bool.not_false, if_true, run_bind_ok, run_throw_ok, false_and, exists_false] at h4))

set_option hygiene false in
/-- `Qchar` on the left (`Qchar` or `Qint` on the right), `==` / `!=`: `QintImp.eq / neq` on the bit lists -/
macro "char_eqT" qf:term:max spec:term:max res:term:max : tactic => `(tactic| (
  simp only [String.reduceEq, imp_self, Ty.size?, run_bind_ok, run_lift_ok, bitsOf_ofBits,
    Except.ok.injEq] at h3
  obtain ⟨_, _, ⟨rfl, rfl⟩, _, _, ⟨rfl, rfl⟩, h4⟩ := h3
  have hq : Quirks.none.charEqZip = false := rfl
  have h5 : (t, v) = (Ty.bool, Val.atom ($qf a b)) := by
    simp only [hq, Bool.false_eq_true, if_false] at h4
    split at h4
    · simp only [run_bind_ok, run_pure_ok] at h4
      obtain ⟨_, _, _, h6, _⟩ := h4
      exact h6
    · simp only [run_pure_ok] at h4
      exact h4.1
  cases h5
  exact ⟨.bool $res, by simp [semT, hsl, hsr, cmpT, cmpEqNat], DenT.mk_bool _ _ ($spec ρ a b)⟩))

set_option hygiene false in
/-- `Qchar` on the left, an ordering: the comparator is abstract -/
macro "char_ordT" : tactic => `(tactic| (
  simp only [String.reduceEq, imp_self, Ty.size?, run_bind_ok, run_lift_ok, bitsOf_ofBits,
    Except.ok.injEq] at h3
  obtain ⟨_, _, ⟨rfl, rfl⟩, _, _, ⟨rfl, rfl⟩, h4⟩ := h3
  simp only [run_ite_ok, run_bind_ok, run_throw_ok, and_false, exists_false, or_self] at h4))

set_option hygiene false in
/-- tuples, an ordering: `OperationNotSupportedException` -/
macro "tup_ordT" : tactic => `(tactic| (
  simp only [run_ite_ok, run_throw_ok, and_false, false_or] at h3
  obtain ⟨_, _, h4⟩ := h3
  simp only [String.reduceEq, imp_self, run_bind_ok, run_throw_ok, false_and, exists_false] at h4))

theorem soundT_cmp_eq (ρ : QV.Env) (env : Front.Env) (σ : TEnv) (l r : PExp)
    (ihl : SoundT ρ env σ l) (ihr : SoundT ρ env σ r) : SoundT ρ env σ (.cmp "Eq" l r) := by
  cmp_startT
  have hf : (Gen.comparators.find? (·.1 == "Eq")) = some ("Eq", "eq") := by decide
  simp only [hf] at h3
  cases hdl with
  | bool a =>
    cases hdr with
    | bool b =>
      simp only [String.reduceEq, imp_self, run_bind_ok, run_lift_ok, atomOf_atom, Except.ok.injEq,
        run_pure_ok] at h3
      obtain ⟨_, _, ⟨rfl, rfl⟩, _, _, ⟨rfl, rfl⟩, h4, _⟩ := h3
      cases h4
      exact ⟨.bool (a.eval ρ == b.eval ρ), by simp [semT, hsl, hsr, cmpT, cmpBool],
        DenT.mk_bool _ _ (bEq_eval ρ a b)⟩
    | int b => cmp_mixed
    | char b hb => cmp_mixed
    | tup b sb _ _ => cmp_mixed
  | int a =>
    cases hdr with
    | bool b => cmp_mixed
    | int b => cmp_intT qEq qEq_eval (decide (val ρ a = val ρ b))
    | char b hb => cmp_int_charT
    | tup b sb _ _ => cmp_mixed
  | char a ha =>
    cases hdr with
    | bool b => cmp_mixed
    | int b => char_eqT qEq qEq_eval (decide (val ρ a = val ρ b))
    | char b hb => char_eqT qEq qEq_eval (decide (val ρ a = val ρ b))
    | tup b sb _ _ => cmp_mixed
  | tup a sa hwa hba =>
    cases hdr with
    | bool b => cmp_mixed
    | int b => cmp_mixed
    | char b hb => cmp_mixed
    | tup b sb hwb hbb =>
      simp only [run_ite_ok, run_throw_ok, and_false, false_or, run_bind_ok, run_pure_ok, run_lift_ok,
        Bool.not_eq_true, Bool.or_eq_false_iff, Bool.not_eq_false'] at h3
      obtain ⟨⟨hne, _⟩, hty, _, _, ⟨rfl, rfl⟩, c, _, ⟨hloop, rfl⟩, h4, _⟩ := h3
      cases h4
      have hne' : sa.isEmpty = false := by
        cases sa with
        | nil => simp [TVal.tyList] at hne
        | cons _ _ => rfl
      refine ⟨.bool (TVal.beqList sa sb), by simp [semT, hsl, hsr, cmpT, hty, hne'], ?_⟩
      apply DenT.mk_bool
      simp only [Bool.false_eq_true, if_false]
      exact tupleCmp_eval ρ a b sa sb hwa hwb hba hbb (Ty.eq_of_beqList _ _ hty) c hloop

theorem soundT_cmp_neq (ρ : QV.Env) (env : Front.Env) (σ : TEnv) (l r : PExp)
    (ihl : SoundT ρ env σ l) (ihr : SoundT ρ env σ r) : SoundT ρ env σ (.cmp "NotEq" l r) := by
  cmp_startT
  have hf : (Gen.comparators.find? (·.1 == "NotEq")) = some ("NotEq", "neq") := by decide
  simp only [hf] at h3
  cases hdl with
  | bool a =>
    cases hdr with
    | bool b =>
      simp only [String.reduceEq, imp_self, run_bind_ok, run_lift_ok, atomOf_atom, Except.ok.injEq,
        run_pure_ok] at h3
      obtain ⟨_, _, ⟨rfl, rfl⟩, _, _, ⟨rfl, rfl⟩, h4, _⟩ := h3
      cases h4
      exact ⟨.bool (a.eval ρ != b.eval ρ), by simp [semT, hsl, hsr, cmpT, cmpBool],
        DenT.mk_bool _ _ (bNeq_eval ρ a b)⟩
    | int b => cmp_mixed
    | char b hb => cmp_mixed
    | tup b sb _ _ => cmp_mixed
  | int a =>
    cases hdr with
    | bool b => cmp_mixed
    | int b => cmp_intT qNeq qNeq_eval (decide (val ρ a ≠ val ρ b))
    | char b hb => cmp_int_charT
    | tup b sb _ _ => cmp_mixed
  | char a ha =>
    cases hdr with
    | bool b => cmp_mixed
    | int b => char_eqT qNeq qNeq_eval (decide (val ρ a ≠ val ρ b))
    | char b hb => char_eqT qNeq qNeq_eval (decide (val ρ a ≠ val ρ b))
    | tup b sb _ _ => cmp_mixed
  | tup a sa hwa hba =>
    cases hdr with
    | bool b => cmp_mixed
    | int b => cmp_mixed
    | char b hb => cmp_mixed
    | tup b sb hwb hbb =>
      simp only [run_ite_ok, run_throw_ok, and_false, false_or, run_bind_ok, run_pure_ok, run_lift_ok,
        Bool.not_eq_true, Bool.or_eq_false_iff, Bool.not_eq_false'] at h3
      obtain ⟨⟨hne, _⟩, hty, _, _, ⟨rfl, rfl⟩, c, _, ⟨hloop, rfl⟩, h4, _⟩ := h3
      cases h4
      have hne' : sa.isEmpty = false := by
        cases sa with
        | nil => simp [TVal.tyList] at hne
        | cons _ _ => rfl
      refine ⟨.bool (!TVal.beqList sa sb), by simp [semT, hsl, hsr, cmpT, hty, hne'], ?_⟩
      apply DenT.mk_bool
      simp only [if_true, BExp.eval]
      rw [tupleCmp_eval ρ a b sa sb hwa hwb hba hbb (Ty.eq_of_beqList _ _ hty) c hloop]

set_option hygiene false in
macro "cmp_ordT" qf:term:max spec:term:max res:term:max : tactic => `(tactic| (
  cases hdl with
  | bool a =>
    cases hdr with
    | bool b => cmp_bool_throw
    | int b => cmp_mixed
    | char b hb => cmp_mixed
    | tup b sb _ _ => cmp_mixed
  | int a =>
    cases hdr with
    | bool b => cmp_mixed
    | int b => cmp_intT $qf $spec $res
    | char b hb => cmp_int_charT
    | tup b sb _ _ => cmp_mixed
  | char a ha =>
    cases hdr with
    | bool b => cmp_mixed
    | int b => char_ordT
    | char b hb => char_ordT
    | tup b sb _ _ => cmp_mixed
  | tup a sa hwa hba =>
    cases hdr with
    | bool b => cmp_mixed
    | int b => cmp_mixed
    | char b hb => cmp_mixed
    | tup b sb hwb hbb => tup_ordT))

theorem soundT_cmp_lt (ρ : QV.Env) (env : Front.Env) (σ : TEnv) (l r : PExp)
    (ihl : SoundT ρ env σ l) (ihr : SoundT ρ env σ r) : SoundT ρ env σ (.cmp "Lt" l r) := by
  cmp_startT
  have hf : (Gen.comparators.find? (·.1 == "Lt")) = some ("Lt", "lt") := by decide
  simp only [hf] at h3
  cmp_ordT (qLt Quirks.none) qLt_eval (decide (val ρ a < val ρ b))

theorem soundT_cmp_lte (ρ : QV.Env) (env : Front.Env) (σ : TEnv) (l r : PExp)
    (ihl : SoundT ρ env σ l) (ihr : SoundT ρ env σ r) : SoundT ρ env σ (.cmp "LtE" l r) := by
  cmp_startT
  have hf : (Gen.comparators.find? (·.1 == "LtE")) = some ("LtE", "lte") := by decide
  simp only [hf] at h3
  cmp_ordT (qLte Quirks.none) qLte_eval (decide (val ρ a ≤ val ρ b))

theorem soundT_cmp_gt (ρ : QV.Env) (env : Front.Env) (σ : TEnv) (l r : PExp)
    (ihl : SoundT ρ env σ l) (ihr : SoundT ρ env σ r) : SoundT ρ env σ (.cmp "Gt" l r) := by
  cmp_startT
  have hf : (Gen.comparators.find? (·.1 == "Gt")) = some ("Gt", "gt") := by decide
  simp only [hf] at h3
  cmp_ordT (qGt Quirks.none) qGt_eval (decide (val ρ a > val ρ b))

theorem soundT_cmp_gte (ρ : QV.Env) (env : Front.Env) (σ : TEnv) (l r : PExp)
    (ihl : SoundT ρ env σ l) (ihr : SoundT ρ env σ r) : SoundT ρ env σ (.cmp "GtE" l r) := by
  cmp_startT
  have hf : (Gen.comparators.find? (·.1 == "GtE")) = some ("GtE", "gte") := by decide
  simp only [hf] at h3
  cmp_ordT (qGte Quirks.none) qGte_eval (decide (val ρ a ≥ val ρ b))

theorem soundT_cmp (ρ : QV.Env) (env : Front.Env) (σ : TEnv) (op : String) (hop : cmpOps.contains op = true)
    (l r : PExp) (ihl : SoundT ρ env σ l) (ihr : SoundT ρ env σ r) : SoundT ρ env σ (.cmp op l r) := by
  simp only [cmpOps, List.contains_eq_mem, List.mem_cons, List.mem_nil_iff, or_false, decide_eq_true_eq] at hop
  rcases hop with rfl | rfl | rfl | rfl | rfl | rfl
  · exact soundT_cmp_eq ρ env σ l r ihl ihr
  · exact soundT_cmp_neq ρ env σ l r ihl ihr
  · exact soundT_cmp_lt ρ env σ l r ihl ihr
  · exact soundT_cmp_lte ρ env σ l r ihl ihr
  · exact soundT_cmp_gt ρ env σ l r ihl ihr
  · exact soundT_cmp_gte ρ env σ l r ihl ihr

theorem soundT_bin (ρ : QV.Env) (env : Front.Env) (σ : TEnv) (op : String) (hop : binOps.contains op = true)
    (l r : PExp) (ihl : SoundT ρ env σ l) (ihr : SoundT ρ env σ r) : SoundT ρ env σ (.bin op l r) := by
  simp only [binOps, List.contains_eq_mem, List.mem_cons, List.mem_nil_iff, or_false, decide_eq_true_eq] at hop
  rcases hop with rfl | rfl | rfl | rfl | rfl | rfl | rfl | rfl | rfl
  · exact soundT_add ρ env σ l r ihl ihr
  · exact soundT_sub ρ env σ l r ihl ihr
  · exact soundT_mul ρ env σ l r ihl ihr
  · exact soundT_mod ρ env σ l r ihl ihr
  · exact soundT_xor ρ env σ l r ihl ihr
  · exact soundT_and ρ env σ l r ihl ihr
  · exact soundT_or ρ env σ l r ihl ihr
  · exact soundT_lshift ρ env σ l r ihl ihr
  · exact soundT_rshift ρ env σ l r ihl ihr

end QV.Sem
