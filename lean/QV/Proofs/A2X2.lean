import QV.Proofs.A2X1
import QV.Proofs.A2A1
/-! Expression-level rewrites of `ast2ast`, part 2 (meaning): the if-chains of `create_if_exp` select the element the
index values name; the chains `__call_sum` / `__call_anyall` build have python's meaning on the element values.
Everything is stated for a family `acc` of expressions that stand for the element accesses (`L[a]`, `L[a][b]`):
`Sem.semW` gives a subscript of a tuple-typed variable no value of its own, so the values of the accesses are
hypotheses. -/
namespace QV.A2A
open QV QV.Front QV.Sem

set_option linter.unusedSimpArgs false
set_option linter.unusedVariables false

/-! ### constants -/

theorem constWidth_lt (v : Int) (w : Nat) (h : constWidth v = some w) : v < (2 : Int) ^ w := by
  have := List.find?_some h
  simpa using this

theorem constWidth_some (k : Nat) (hk : k < 65536) : ∃ w, constWidth (k : Int) = some w := by
  cases h : constWidth (k : Int) with
  | some w => exact ⟨w, rfl⟩
  | none =>
    have := List.find?_eq_none.mp h 16 (by simp [constWidths])
    simp only [decide_eq_true_eq, Int.not_lt] at this
    have h2 : ((2 : Int) ^ 16) = 65536 := by norm_num
    omega

/-- an index constant below `2^16` evaluates to itself -/
theorem semW_cint_nat (σ : SEnv) (k : Nat) (hk : k < 65536) : ∃ w, semW σ (.cint k) = some (.int w k) := by
  obtain ⟨w, hw⟩ := constWidth_some k hk
  refine ⟨w, ?_⟩
  have hlt := constWidth_lt _ _ hw
  simp only [semW, hw]
  have h0 : (0 : Int) ≤ (k : Int) := by omega
  have : ((k : Int) % (2 : Int) ^ w).toNat = k := by
    rw [Int.emod_eq_of_lt h0 hlt]; simp
  rw [this]

theorem semW_eq_index (σ : SEnv) (i : String) (wi x k : Nat) (hi : σ i = some (.int wi x)) (hk : k < 65536) :
    semW σ (.cmp "Eq" (.name i) (.cint k)) = some (.bool (decide (x = k))) := by
  obtain ⟨w, hw⟩ := constWidth_some k hk
  have hlt := constWidth_lt _ _ hw
  have h0 : (0 : Int) ≤ (k : Int) := by omega
  have hk' : ((k : Int) % (2 : Int) ^ w).toNat = k := by
    rw [Int.emod_eq_of_lt h0 hlt]; simp
  simp [semW, hi, hw, hk', cmpNat]

/-! ### values of one type -/

/-- the type of a value: `none` for a bool, the width of a `Qint` -/
def tyOf : SVal → Option Nat
  | .bool _ => none
  | .int w _ => some w

theorem selW_sameTy (c : Bool) (u v : SVal) (h : tyOf u = tyOf v) : selW (.bool c) u v = some (if c then u else v) := by
  cases u <;> cases v <;> simp [tyOf] at h <;> cases c <;> simp [selW, h]

/-! ### `create_if_exp` with one index -/

/-- `toP` of `ifChain1`, for any expressions standing for the accesses -/
def chain1P (acc : Nat → PExp) (i : String) : Nat → Nat → PExp
  | k, 0 => acc k
  | k, r + 1 => .ite (.cmp "Eq" (.name i) (.cint k)) (acc k) (chain1P acc i (k + 1) r)

theorem toP_access1 (L : String) (k : Nat) : toP (access1 L k) = .subs L [(k : Int)] := by
  simp [access1, toP, subsPath]

theorem toP_ifChain1 (L i : String) : ∀ (k r : Nat),
    toP (ifChain1 L i k r) = chain1P (fun a => .subs L [(a : Int)]) i k r
  | k, 0 => by simp [ifChain1, chain1P, toP_access1]
  | k, r + 1 => by
    simp only [ifChain1, chain1P, toP, toP_access1, toP_ifChain1 L i (k + 1) r]

/-- the chain from `k` with `r` more elements, under `i = x`: the element `x` if `k ≤ x < k + r`, the last one otherwise -/
theorem chain1_value (σ : SEnv) (acc : Nat → PExp) (vals : Nat → SVal) (T : Option Nat) (i : String) (wi x : Nat)
    (hi : σ i = some (.int wi x)) :
    ∀ (r k : Nat), k + r < 65536 → (∀ a, k ≤ a → a ≤ k + r → semW σ (acc a) = some (vals a) ∧ tyOf (vals a) = T) →
      semW σ (chain1P acc i k r) = some (vals (if k ≤ x ∧ x < k + r then x else k + r))
  | 0, k, _, hacc => by
    simp only [chain1P, Nat.add_zero]
    have : ¬ (k ≤ x ∧ x < k) := by omega
    simp only [this, if_false]
    exact (hacc k (Nat.le_refl _) (by omega)).1
  | r + 1, k, hk, hacc => by
    have ih := chain1_value σ acc vals T i wi x hi r (k + 1) (by omega)
      (fun a h1 h2 => hacc a (by omega) (by omega))
    have hk0 := hacc k (Nat.le_refl _) (by omega)
    have hlast := hacc (if k + 1 ≤ x ∧ x < k + 1 + r then x else k + 1 + r) (by split <;> omega) (by split <;> omega)
    simp only [chain1P, semW_ite, semW_eq_index σ i wi x k hi (by omega), hk0.1, ih]
    rw [selW_sameTy _ _ _ (by rw [hk0.2, hlast.2])]
    by_cases hxk : x = k
    · subst hxk
      have : x ≤ x ∧ x < x + (r + 1) := by omega
      simp [this]
    · have h1 : (if k ≤ x ∧ x < k + (r + 1) then x else k + (r + 1))
          = (if k + 1 ≤ x ∧ x < k + 1 + r then x else k + 1 + r) := by
        split <;> split <;> omega
      simp only [hxk, decide_false, Bool.false_eq_true, if_false, h1]

/-- **`L[i]` selects element `i`**: with `n + 1` elements of one type and `x ≤ n` the value of the index, the if-chain
of `create_if_exp` has the value of the access `x` - python's indexing of the decoded list -/
theorem chain1_selects (σ : SEnv) (acc : Nat → PExp) (vals : Nat → SVal) (T : Option Nat) (i : String) (wi x n : Nat)
    (hi : σ i = some (.int wi x)) (hx : x ≤ n) (hn : n < 65536)
    (hacc : ∀ a, a ≤ n → semW σ (acc a) = some (vals a) ∧ tyOf (vals a) = T) :
    semW σ (chain1P acc i 0 n) = some (vals x) := by
  have := chain1_value σ acc vals T i wi x hi n 0 (by omega) (fun a _ h2 => hacc a (by omega))
  rw [this]
  have : (if 0 ≤ x ∧ x < 0 + n then x else 0 + n) = x := by split <;> omega
  rw [this]

/-! ### `create_if_exp` with two indices -/

def chain2P (acc : Nat → Nat → PExp) (i j : String) : List (Nat × Nat) → PExp
  | [] => acc 0 0
  | [p] => acc p.1 p.2
  | p :: q :: ps =>
    .ite (.boolop true [.cmp "Eq" (.name i) (.cint p.1), .cmp "Eq" (.name j) (.cint p.2)]) (acc p.1 p.2)
      (chain2P acc i j (q :: ps))

theorem toP_access2 (L : String) (a b : Nat) : toP (access2 L a b) = .subs L [(a : Int), (b : Int)] := by
  simp [access2, toP, subsPath]

theorem toP_ifChain2 (L i j : String) : ∀ ps : List (Nat × Nat),
    toP (ifChain2 L i j ps) = chain2P (fun a b => .subs L [(a : Int), (b : Int)]) i j ps
  | [] => by simp [ifChain2, chain2P, toP_access2]
  | [p] => by simp [ifChain2, chain2P, toP_access2]
  | p :: q :: ps => by
    simp only [ifChain2, chain2P, toP, toPs, toP_access2, toP_ifChain2 L i j (q :: ps)]

/-- the position the chain over `ps` stops at under `(i, j) = (x, y)`: the first one equal to `(x, y)`, else the last -/
def stopAt (x y : Nat) : List (Nat × Nat) → Nat × Nat
  | [] => (0, 0)
  | [p] => p
  | p :: q :: ps => if p.1 = x ∧ p.2 = y then p else stopAt x y (q :: ps)

theorem stopAt_mem (x y : Nat) : ∀ ps : List (Nat × Nat), ps ≠ [] → stopAt x y ps ∈ ps
  | [], h => absurd rfl h
  | [p], _ => by simp [stopAt]
  | p :: q :: ps, _ => by
    simp only [stopAt]
    split
    · simp
    · exact List.mem_cons_of_mem _ (stopAt_mem x y (q :: ps) (by simp))

theorem stopAt_of_mem (x y : Nat) : ∀ ps : List (Nat × Nat), (x, y) ∈ ps → stopAt x y ps = (x, y)
  | [], h => by simp at h
  | [p], h => by
    simp only [List.mem_singleton] at h
    subst h
    rfl
  | p :: q :: ps, h => by
    simp only [stopAt]
    by_cases hp : p.1 = x ∧ p.2 = y
    · simp only [hp, and_self, if_true]
      exact Prod.ext hp.1 hp.2
    · simp only [hp, if_false]
      apply stopAt_of_mem x y (q :: ps)
      simp only [List.mem_cons] at h ⊢
      rcases h with h | h
      · exact absurd ⟨by rw [← h], by rw [← h]⟩ hp
      · exact h

theorem chain2_value (σ : SEnv) (acc : Nat → Nat → PExp) (vals : Nat → Nat → SVal) (T : Option Nat) (i j : String)
    (wi wj x y : Nat) (hi : σ i = some (.int wi x)) (hj : σ j = some (.int wj y)) :
    ∀ ps : List (Nat × Nat), ps ≠ [] →
      (∀ p ∈ ps, p.1 < 65536 ∧ p.2 < 65536 ∧ semW σ (acc p.1 p.2) = some (vals p.1 p.2) ∧ tyOf (vals p.1 p.2) = T) →
      semW σ (chain2P acc i j ps) = some (vals (stopAt x y ps).1 (stopAt x y ps).2)
  | [], h, _ => absurd rfl h
  | [p], _, hacc => by
    simp only [chain2P, stopAt]
    exact (hacc p (by simp)).2.2.1
  | p :: q :: ps, _, hacc => by
    have ih := chain2_value σ acc vals T i j wi wj x y hi hj (q :: ps) (by simp)
      (fun r hr => hacc r (List.mem_cons_of_mem _ hr))
    have hp := hacc p (by simp)
    have hs := hacc (stopAt x y (q :: ps)) (List.mem_cons_of_mem _ (stopAt_mem x y (q :: ps) (by simp)))
    have htest : semW σ (.boolop true [.cmp "Eq" (.name i) (.cint p.1), .cmp "Eq" (.name j) (.cint p.2)])
        = some (.bool (decide (x = p.1) && decide (y = p.2))) := by
      have e1 := semW_eq_index σ i wi x p.1 hi hp.1
      have e2 := semW_eq_index σ j wj y p.2 hj hp.2.1
      have hl : semWList σ [PExp.cmp "Eq" (.name i) (.cint p.1), .cmp "Eq" (.name j) (.cint p.2)]
          = some [.bool (decide (x = p.1)), .bool (decide (y = p.2))] := by
        rw [semWList, e1, semWList, e2, semWList]
      rw [semW, hl]
      simp [boolFold]
    simp only [chain2P, semW_ite, htest, hp.2.2.1, ih]
    rw [selW_sameTy _ _ _ (by rw [hp.2.2.2, hs.2.2.2])]
    simp only [stopAt]
    by_cases hxy : p.1 = x ∧ p.2 = y
    · simp [hxy]
    · have : (decide (x = p.1) && decide (y = p.2)) = false := by
        simp only [Bool.and_eq_false_iff, decide_eq_false_iff_not]
        by_cases h1 : x = p.1
        · right; intro h2; exact hxy ⟨h1.symm, h2.symm⟩
        · left; exact h1
      simp only [this, Bool.false_eq_true, if_false, hxy]

theorem mem_positions (n m x y : Nat) (hx : x < n) (hy : y < m) : (x, y) ∈ positions n m := by
  simp only [positions, List.mem_flatMap, List.mem_range, List.mem_map]
  exact ⟨x, hx, y, hy, rfl⟩

theorem positions_bound (n m : Nat) (p : Nat × Nat) (h : p ∈ positions n m) : p.1 < n ∧ p.2 < m := by
  simp only [positions, List.mem_flatMap, List.mem_range, List.mem_map] at h
  obtain ⟨a, ha, b, hb, rfl⟩ := h
  exact ⟨ha, hb⟩

/-- **`L[i][j]` selects element `[i][j]`**, for every shape `n x m` (`n, m ≥ 1`) and every pair of index values in
range: the if-chain of `create_if_exp` over the positions of an `n x m` matrix has the value of the access `[x][y]` -
python's indexing of the decoded matrix.  Every access `[a][b]`, `a < n`, `b < m`, has to have a value (the chain is an
if-expression of `Sem.semW`: all its branches are evaluated) and no other access is asked for. -/
theorem chain2_selects (σ : SEnv) (acc : Nat → Nat → PExp) (vals : Nat → Nat → SVal) (T : Option Nat) (i j : String)
    (wi wj x y n m : Nat) (hi : σ i = some (.int wi x)) (hj : σ j = some (.int wj y)) (hx : x < n) (hy : y < m)
    (hn : n < 65536) (hm : m < 65536)
    (hacc : ∀ a b, a < n → b < m → semW σ (acc a b) = some (vals a b) ∧ tyOf (vals a b) = T) :
    semW σ (chain2P acc i j (positions n m)) = some (vals x y) := by
  have hne : positions n m ≠ [] := by
    intro h
    have := mem_positions n m x y hx hy
    rw [h] at this; simp at this
  have := chain2_value σ acc vals T i j wi wj x y hi hj (positions n m) hne (fun p hp => by
    obtain ⟨h1, h2⟩ := positions_bound n m p hp
    exact ⟨by omega, by omega, hacc p.1 p.2 h1 h2⟩)
  rw [this, stopAt_of_mem x y _ (mem_positions n m x y hx hy)]

end QV.A2A
