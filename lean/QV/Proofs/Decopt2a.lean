import QV.Model.Decopt
import QV.Proofs.Decopt
/-!
# C12: a splice of the `xonly` shape is harmless

The part of `QV/Proofs/Decopt2.lean` that does not look inside the compiler model (split off so that
it stays in the build while `Decopt2.lean` waits for its port to the repaired compiler model):
structural equality of expressions, qubit names, `xonly_ok` – a splice of the `xonly` shape (every
simplified definition is `q = q` or `q = ~q` and the new gates are the X gates of the
self-negations) is `SectionOK` –, `decompile_exps`, `simplifySection_keysOK`.
-/
namespace QV.Decopt
open QV QV.Decompiler QV.Compiler

/-! ## structural equality of expressions -/

mutual
theorem bexp_beq_eq : ∀ a b : BExp, BExp.beq a b = true → a = b
  | .tt, b => by cases b <;> simp [BExp.beq]
  | .ff, b => by cases b <;> simp [BExp.beq]
  | .sym n, b => by cases b <;> simp [BExp.beq]
  | .not a, b => by cases b <;> simp [BExp.beq] <;> exact bexp_beq_eq a _
  | .and l, b => by cases b <;> simp [BExp.beq] <;> exact bexp_beqList_eq l _
  | .or l, b => by cases b <;> simp [BExp.beq] <;> exact bexp_beqList_eq l _
  | .xor l, b => by cases b <;> simp [BExp.beq] <;> exact bexp_beqList_eq l _
  | .ite c t e, b => by
      cases b <;> simp [BExp.beq]
      intro h1 h2 h3
      exact ⟨bexp_beq_eq c _ h1, bexp_beq_eq t _ h2, bexp_beq_eq e _ h3⟩
  | .imp x y, b => by
      cases b <;> simp [BExp.beq]
      intro h1 h2
      exact ⟨bexp_beq_eq x _ h1, bexp_beq_eq y _ h2⟩
theorem bexp_beqList_eq : ∀ a b : List BExp, BExp.beqList a b = true → a = b
  | [], b => by cases b <;> simp [BExp.beqList]
  | x :: xs, b => by
      cases b <;> simp [BExp.beqList]
      intro h1 h2
      exact ⟨bexp_beq_eq x _ h1, bexp_beqList_eq xs _ h2⟩
end

theorem bexp_eq_of_beq {a b : BExp} (h : (a == b) = true) : a = b := bexp_beq_eq a b h

/-! ## qubit names -/

theorem qidx_some {n : Nat} {k : String} {i : Nat} (h : qidx n k = some i) : i < n ∧ k = qname i := by
  unfold qidx at h
  refine ⟨List.mem_range.mp (List.mem_of_find?_eq_some h), ?_⟩
  have := List.find?_some h
  exact (by simpa using this : qname i = k).symm

theorem qidx_qname {n i : Nat} (hi : i < n) : qidx n (qname i) = some i := by
  unfold qidx
  exact find_unique (i := i) (List.mem_range.mpr hi) (by simp)
    (fun j _ hj => qname_inj (by simpa using hj))

theorem negated_nodup_aux (n : Nat) : ∀ l : List (String × BExp), (l.map (·.1)).Nodup →
    (l.filterMap fun p => qidx n p.1).Nodup
  | [], _ => by simp
  | p :: l, h => by
    rw [List.map_cons] at h
    have hnd := List.nodup_cons.mp h
    have ih := negated_nodup_aux n l hnd.2
    rw [List.filterMap_cons]
    cases hq : qidx n p.1 with
    | none => simpa using ih
    | some i =>
      refine List.nodup_cons.mpr ⟨?_, ih⟩
      intro hi
      obtain ⟨p', hp', hq'⟩ := List.mem_filterMap.mp hi
      have h1 := (qidx_some hq).2
      have h2 := (qidx_some hq').2
      exact hnd.1 (List.mem_map.mpr ⟨p', hp', h2.trans h1.symm⟩)

theorem negated_nodup {n : Nat} {l : List (String × BExp)} (h : (l.map (·.1)).Nodup) :
    (negated n l).Nodup := by
  unfold negated
  apply negated_nodup_aux
  exact List.Nodup.sublist (List.Sublist.map _ List.filter_sublist) h

theorem mem_negated {n : Nat} {l : List (String × BExp)} {i : Nat} :
    i ∈ negated n l ↔ ∃ p ∈ l, selfNeg p = true ∧ qidx n p.1 = some i := by
  unfold negated
  simp only [List.mem_filterMap, List.mem_filter]
  constructor
  · rintro ⟨p, ⟨hp, hs⟩, hq⟩; exact ⟨p, hp, hs, hq⟩
  · rintro ⟨p, hp, hs, hq⟩; exact ⟨p, ⟨hp, hs⟩, hq⟩

/-! ## a splice of the `xonly` shape is harmless -/

/-- **xonly ⇒ SectionOK.**  `exprs` are the section's decompiled expressions after a
meaning-preserving rewriting `f` (`custom_simplify_logic2`); if they are all `q = q` or `q = ~q`
and the new gates are the X gates of the self-negations, the new gates have the classical action
of the section's gates. -/
theorem xonly_ok {K : Kernel} (hK : K.Sound) (q : Quirks) (n : Nat) (sec : List AGate) (d : Dict)
    (hd : expsOfSection q K n sec = .ok d) (f : BExp → BExp) (hf : ∀ ρ e, (f e).eval ρ = e.eval ρ)
    (new : List AGate) (hx : xonly n (d.map fun p => (p.1, f p.2)) new = true) :
    SectionOK n sec new := by
  obtain ⟨hnd, hent⟩ := expsOfSection_entries hK q hd
  simp only [xonly, Bool.and_eq_true, List.all_eq_true, Bool.or_eq_true, beq_iff_eq] at hx
  obtain ⟨hall, hnew⟩ := hx
  have hkeys : ((d.map fun p => (p.1, f p.2)).map (·.1)) = Dict.keys d := by
    unfold Dict.keys; rw [List.map_map]; rfl
  refine xonly_sectionOK K hK q n sec d hd new (negated n (d.map fun p => (p.1, f p.2)))
    (negated_nodup (by rw [hkeys]; exact hnd)) hnew ?_ ?_
  · intro i hi ρ
    obtain ⟨p, hp, hs, hq⟩ := mem_negated.mp hi
    obtain ⟨p0, hp0, rfl⟩ := List.mem_map.mp hp
    have hk := (qidx_some hq).2
    dsimp only at hk
    have he : f p0.2 = .not (.sym p0.1) := bexp_eq_of_beq hs
    have hget : d.get (qname i) = p0.2 := by
      rw [← hk]; exact Dict.get_of_mem d hnd (k := p0.1) (e := p0.2) hp0
    unfold expOf
    rw [hget, ← hf ρ p0.2, he, hk]
    rfl
  · intro i hi hni ρ
    unfold expOf
    by_cases hm : qname i ∈ Dict.keys d
    · obtain ⟨p0, hp0, hk⟩ := List.mem_map.mp hm
      have hp : (p0.1, f p0.2) ∈ d.map fun p => (p.1, f p.2) := List.mem_map.mpr ⟨p0, hp0, rfl⟩
      have hget : d.get (qname i) = p0.2 := by
        rw [← hk]; exact Dict.get_of_mem d hnd (k := p0.1) (e := p0.2) hp0
      rw [hget, ← hf ρ p0.2]
      rcases hall _ hp with hid | hs
      · have he : f p0.2 = .sym p0.1 := bexp_eq_of_beq hid
        rw [he, hk]; rfl
      · exact absurd (mem_negated.mpr ⟨_, hp, hs, by dsimp only; rw [hk]; exact qidx_qname hi⟩) hni
    · rw [Dict.get_of_not_mem d _ hm]; rfl

/-- the expressions of every section of a decompilation are the symbolic execution of its gates -/
theorem decomp_exps {q : Quirks} {K : Kernel} {n a : Nat} {W : List AGate} {secs : List Section}
    (h : Decomp q K n a W secs) : ∀ s ∈ secs, expsOfSection q K n s.gates = .ok s.exps := by
  induction h with
  | done => intro s hs; cases hs
  | last a B R s _ _ hs =>
    intro s' hs'
    simp only [List.mem_singleton] at hs'; subst hs'
    exact hs.exps_eq
  | cons a B R sep W s secs _ _ _ _ hs _ ih =>
    intro s' hs'
    rcases List.mem_cons.mp hs' with hs' | hs'
    · subst hs'; exact hs.exps_eq
    · exact ih s' hs'

theorem decompile_exps {q : Quirks} {K : Kernel} {n : Nat} {gs : List AGate} {secs : List Section}
    (h : decompile q K n gs = .ok secs) : ∀ s ∈ secs, expsOfSection q K n s.gates = .ok s.exps :=
  decomp_exps (decompile_decomp q K n gs secs h)

/-- the simplified definitions of a section are keyed like its decompiled expressions: pairwise
distinct names of qubits of the circuit -/
theorem simplifySection_keysOK {K : Kernel} (hK : K.Sound) {q : Quirks} {n : Nat} {s : Section}
    (hd : expsOfSection q K n s.gates = .ok s.exps) (simp : BExp → BExp) (K4 : Kernel4) :
    keysOK n (simplifySection simp K4 s) = true := by
  obtain ⟨hnd, hent⟩ := expsOfSection_entries hK q hd
  unfold keysOK simplifySection
  simp only [Bool.and_eq_true, decide_eq_true_eq, List.all_eq_true, List.map_map]
  refine ⟨hnd, ?_⟩
  intro p hp
  obtain ⟨p0, hp0, rfl⟩ := List.mem_map.mp hp
  obtain ⟨i, hi, hk, _⟩ := hent p0.1 p0.2 hp0
  dsimp only
  rw [hk, qidx_qname hi]; rfl

end QV.Decopt
