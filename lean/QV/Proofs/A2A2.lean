import QV.Proofs.A2A1
/-! `ast2ast` preserves the source-level meaning, part 2: the monad of the rewriter, the names it generates,
the guard wrappers on the syntax of `QV.Model.Front` and what they mean. -/
namespace QV.A2A
open QV QV.Front QV.Sem

set_option linter.unusedSimpArgs false
set_option linter.unusedVariables false

/-! ### the monad `RM = StateT RSt (Except Err)` -/

theorem rm_bind_ok {α β} (x : RM α) (f : α → RM β) (s : RSt) (r : β × RSt) :
    (x >>= f).run s = .ok r ↔ ∃ a s1, x.run s = .ok (a, s1) ∧ (f a).run s1 = .ok r := by
  rw [StateT.run_bind]
  cases h : x.run s with
  | error e => simp [bind, Except.bind]
  | ok p =>
    cases p
    simp only [bind, Except.bind, Except.ok.injEq, Prod.mk.injEq]
    constructor
    · intro h; exact ⟨_, _, ⟨rfl, rfl⟩, h⟩
    · rintro ⟨a, s1, ⟨rfl, rfl⟩, h⟩; exact h

theorem rm_pure_ok {α} (a : α) (s : RSt) (b : α) (s1 : RSt) :
    (pure a : RM α).run s = .ok (b, s1) ↔ b = a ∧ s1 = s := by
  simp [pure, StateT.pure, StateT.run, Except.pure, eq_comm]

theorem rm_throw_ok {α} (e : Err) (s : RSt) (r : α × RSt) : ((throw e : RM α).run s = .ok r) ↔ False := by
  simp [throw, throwThe, MonadExceptOf.throw, StateT.run, StateT.lift, bind, Except.bind]

theorem rm_get_ok (s : RSt) (a s1 : RSt) : ((get : RM RSt).run s = .ok (a, s1)) ↔ a = s ∧ s1 = s := by
  simp [get, getThe, MonadStateOf.get, StateT.get, StateT.run, pure, Except.pure, eq_comm]

theorem rm_modify_ok (f : RSt → RSt) (s : RSt) (a : Unit) (s1 : RSt) :
    ((modify f : RM Unit).run s = .ok (a, s1)) ↔ s1 = f s := by
  simp [modify, modifyGet, MonadStateOf.modifyGet, StateT.modifyGet, StateT.run, pure, Except.pure, eq_comm]

theorem rm_set_ok (s s' : RSt) (a : Unit) (s1 : RSt) : ((set s' : RM Unit).run s = .ok (a, s1)) ↔ s1 = s' := by
  simp [set, StateT.set, StateT.run, pure, Except.pure, eq_comm]

theorem rm_liftX_ok {α} (x : X α) (s : RSt) (a : α) (s1 : RSt) :
    ((liftX x).run s = .ok (a, s1)) ↔ x = .ok a ∧ s1 = s := by
  cases x <;> simp [liftX, StateT.run, eq_comm]

theorem rm_visitM_ok (e : SExp) (s : RSt) (a : SExp) (s1 : RSt) :
    ((visitM e).run s = .ok (a, s1)) ↔ visitE s e = .ok a ∧ s1 = s := by
  unfold visitM
  cases h : visitE s e <;> simp [StateT.run, h, eq_comm]

theorem rm_visitMs_ok (es : List SExp) (s : RSt) (a : List SExp) (s1 : RSt) :
    ((visitMs es).run s = .ok (a, s1)) ↔ visitEs s es = .ok a ∧ s1 = s := by
  unfold visitMs
  cases h : visitEs s es <;> simp [StateT.run, h, eq_comm]

theorem rm_ite_ok {α} (c : Prop) [Decidable c] (x y : RM α) (s : RSt) (r : α × RSt) :
    (if c then x else y).run s = .ok r ↔ (c ∧ x.run s = .ok r) ∨ (¬ c ∧ y.run s = .ok r) := by
  by_cases h : c <;> simp [h]

theorem x_bind_ok {α β} (x : X α) (f : α → X β) (r : β) :
    (x >>= f) = .ok r ↔ ∃ a, x = .ok a ∧ f a = .ok r := by
  cases x <;> simp [bind, Except.bind]

theorem x_pure_ok {α} (a b : α) : (pure a : X α) = .ok b ↔ b = a := by
  simp [pure, Except.pure, eq_comm]

theorem x_throw_ok {α} (e : Err) (r : α) : ((throw e : X α) = .ok r) ↔ False := by
  simp [throw, throwThe, MonadExceptOf.throw]

/-! ### the part of the state the rewriting depends on -/

/-- same counter and same `Environment` (the log of exercised rules may differ) -/
def SameCore (s s' : RSt) : Prop := s'.uniq = s.uniq ∧ s'.types = s.types ∧ s'.consts = s.consts

theorem SameCore.rfl' (s : RSt) : SameCore s s := ⟨rfl, rfl, rfl⟩

theorem SameCore.known {s s' : RSt} (h : SameCore s s') : s'.known = s.known := by
  funext n; simp [RSt.known, h.2.1, h.2.2]

theorem note_core (m : String) (s : RSt) (u : Unit) (s1 : RSt) (h : (note m).run s = .ok (u, s1)) :
    SameCore s s1 := by
  unfold note at h
  rw [rm_modify_ok] at h
  subst h
  split <;> exact ⟨rfl, rfl, rfl⟩

theorem notes_core (l : List String) (s : RSt) (u : Unit) (s1 : RSt) (h : (notes l).run s = .ok (u, s1)) :
    SameCore s s1 := by
  unfold notes at h
  rw [rm_modify_ok] at h
  subst h
  exact ⟨rfl, rfl, rfl⟩

theorem noteIf_core (e b' e' : List SStmt) (s : RSt) (u : Unit) (s1 : RSt)
    (h : (noteIf e b' e').run s = .ok (u, s1)) : SameCore s s1 := notes_core _ _ _ _ h

theorem noteFor_core (e : List SStmt) (s : RSt) (u : Unit) (s1 : RSt)
    (h : (noteFor e).run s = .ok (u, s1)) : SameCore s s1 := notes_core _ _ _ _ h

/-! ### names -/

def iftargName (k : Nat) : String := "_iftarg" ++ hexDigits k

theorem toList_dunder (t : String) : ("__" ++ t).toList = '_' :: '_' :: t.toList := by
  simp [String.toList_append]

theorem isDunder_dunder (t : String) : isDunder ("__" ++ t) = true := by
  simp [isDunder, toList_dunder, List.isPrefixOf]

theorem isIfTarg_dunder (t : String) : isIfTarg ("__" ++ t) = false := by
  simp [isIfTarg, toList_dunder, List.isPrefixOf]

theorem dropDunder_dunder (t : String) : dropDunder ("__" ++ t) = t := by
  simp [dropDunder, toList_dunder]

theorem toList_iftarg (k : Nat) :
    (iftargName k).toList = '_' :: 'i' :: 'f' :: 't' :: 'a' :: 'r' :: 'g' :: Nat.toDigits 16 k := by
  simp [iftargName, hexDigits, String.toList_append]

theorem isIfTarg_iftarg (k : Nat) : isIfTarg (iftargName k) = true := by
  simp [isIfTarg, toList_iftarg, List.isPrefixOf]

theorem isDunder_iftarg (k : Nat) : isDunder (iftargName k) = false := by
  simp [isDunder, toList_iftarg, List.isPrefixOf]

theorem userName_not_iftarg {n : String} (h : userName n = true) : isIfTarg n = false := by
  simp only [userName, Bool.and_eq_true, Bool.not_eq_true'] at h; exact h.2

theorem userName_not_dunder {n : String} (h : userName n = true) : isDunder n = false := by
  simp only [userName, Bool.and_eq_true, Bool.not_eq_true'] at h; exact h.1

def hexVal (c : Char) : Nat := if c.toNat ≥ 97 then c.toNat - 87 else c.toNat - 48

theorem hexVal_digitChar : ∀ a : Fin 16, hexVal (Nat.digitChar a.val) = a.val := by decide

theorem digitChar_inj16 (a b : Nat) (ha : a < 16) (hb : b < 16) (h : Nat.digitChar a = Nat.digitChar b) : a = b := by
  have h1 := hexVal_digitChar ⟨a, ha⟩
  have h2 := hexVal_digitChar ⟨b, hb⟩
  simp only at h1 h2
  rw [← h1, ← h2, h]

theorem toDigits16_inj : ∀ (n m : Nat), Nat.toDigits 16 n = Nat.toDigits 16 m → n = m := by
  intro n
  induction n using Nat.strongRecOn with
  | _ n ih =>
    intro m h
    rw [Nat.toDigits_eq_if (by decide : 1 < 16) (n := n), Nat.toDigits_eq_if (by decide : 1 < 16) (n := m)] at h
    by_cases hn : n < 16
    · by_cases hm : m < 16
      · simp only [hn, hm, if_true, List.cons.injEq, and_true] at h
        exact digitChar_inj16 n m hn hm h
      · simp only [hn, hm, if_true, if_false] at h
        have hl := congrArg List.length h
        simp only [List.length_cons, List.length_nil, List.length_append] at hl
        have hp := @Nat.length_toDigits_pos 16 (m / 16)
        omega
    · by_cases hm : m < 16
      · simp only [hn, hm, if_true, if_false] at h
        have hl := congrArg List.length h
        simp only [List.length_cons, List.length_nil, List.length_append] at hl
        have hp := @Nat.length_toDigits_pos 16 (n / 16)
        omega
      · simp only [hn, hm, if_false] at h
        have h1 := List.append_inj' h (by simp)
        have hq := ih (n / 16) (by omega) (m / 16) h1.1
        have hr := digitChar_inj16 (n % 16) (m % 16) (Nat.mod_lt _ (by decide)) (Nat.mod_lt _ (by decide))
          (by simpa using h1.2)
        omega

theorem iftargName_inj {k k' : Nat} (h : iftargName k = iftargName k') : k = k' := by
  have := congrArg String.toList h
  rw [toList_iftarg, toList_iftarg] at this
  simp only [List.cons.injEq, true_and] at this
  exact toDigits16_inj k k' this

/-! ### the guarded forms on the syntax of `QV.Model.Front` -/

/-- the variable whose value the guarded assignment of `t` keeps: `x` for the temporary `__x` -/
def oldOf (t : String) : String := if isDunder t then dropDunder t else t

/-- `guardBody` on a translated statement -/
def fBody (g : String) : Front.Stmt → Front.Stmt
  | .assign t e => .assign t (.ite (.name g) e (.name (oldOf t)))
  | s => s

/-- `guardElse` on a translated statement -/
def fElse (g : String) : Front.Stmt → Front.Stmt
  | .assign t e =>
    if isDunder t then .assign t (.ite (.name g) (.name (dropDunder t)) e)
    else if isIfTarg t then .assign t e
    else .assign t (.ite (.name g) (.name t) e)
  | s => s

/-- the guards of the enclosing `if`s (variable, polarity), outermost first, applied to a rewritten list -/
def wrapF : List (String × Bool) → List Front.Stmt → List Front.Stmt
  | [], L => L
  | (g, w) :: Γ, L => (wrapF Γ L).map (if w then fBody g else fElse g)

theorem wrapF_append (Γ : List (String × Bool)) (A B : List Front.Stmt) :
    wrapF Γ (A ++ B) = wrapF Γ A ++ wrapF Γ B := by
  induction Γ with
  | nil => rfl
  | cons p Γ ih => obtain ⟨g, w⟩ := p; simp [wrapF, ih]

theorem wrapF_nil (Γ : List (String × Bool)) : wrapF Γ [] = [] := by
  induction Γ with
  | nil => rfl
  | cons p Γ ih => obtain ⟨g, w⟩ := p; simp [wrapF, ih]

theorem wrapF_snoc (Γ : List (String × Bool)) (g : String) (w : Bool) (L : List Front.Stmt) :
    wrapF (Γ ++ [(g, w)]) L = wrapF Γ (L.map (if w then fBody g else fElse g)) := by
  induction Γ with
  | nil => simp [wrapF]
  | cons p Γ ih => obtain ⟨g', w'⟩ := p; simp [wrapF, ih]

/-- the right-hand side after all the guards -/
def wrapE : List (String × Bool) → String → PExp → PExp
  | [], _, e => e
  | (g, true) :: Γ, old, e => .ite (.name g) (wrapE Γ old e) (.name old)
  | (g, false) :: Γ, old, e => .ite (.name g) (.name old) (wrapE Γ old e)

/-- every guard on the stack is negative (the statement sits in else branches only) -/
def elseOnly (Γ : List (String × Bool)) : Bool := Γ.all fun p => !p.2

theorem wrapF_assign (Γ : List (String × Bool)) (t : String) (e : PExp) (ht : isIfTarg t = false) :
    wrapF Γ [.assign t e] = [.assign t (wrapE Γ (oldOf t) e)] := by
  induction Γ with
  | nil => rfl
  | cons p Γ ih =>
    obtain ⟨g, w⟩ := p
    simp only [wrapF, ih, List.map_cons, List.map_nil]
    cases w
    · simp only [Bool.false_eq_true, if_false, fElse, ht, wrapE, oldOf]
      by_cases hd : isDunder t = true <;> simp [hd]
    · simp only [if_true, fBody, wrapE]

theorem wrapF_guard_assign (Γ : List (String × Bool)) (t : String) (e : PExp) (ht : isIfTarg t = true)
    (hd : isDunder t = false) (hΓ : elseOnly Γ = true) : wrapF Γ [.assign t e] = [.assign t e] := by
  induction Γ with
  | nil => rfl
  | cons p Γ ih =>
    obtain ⟨g, w⟩ := p
    simp only [elseOnly, List.all_cons, Bool.and_eq_true, Bool.not_eq_true'] at hΓ
    have hw : w = false := hΓ.1
    subst hw
    simp only [wrapF, ih (by simpa [elseOnly] using hΓ.2), List.map_cons, List.map_nil, Bool.false_eq_true,
      if_false, fElse, hd, ht, if_true]

/-! ### the meaning of the wrapped right-hand side -/

/-- the values of the guard variables -/
def guardVals (σ : SEnv) : List (String × Bool) → Option (List (SVal × Bool))
  | [] => some []
  | (g, w) :: Γ =>
    match σ g, guardVals σ Γ with
    | some v, some gs => some ((v, w) :: gs)
    | _, _ => none

theorem guardVals_congr (σ σ' : SEnv) (Γ : List (String × Bool)) (h : ∀ p ∈ Γ, σ' p.1 = σ p.1) :
    guardVals σ' Γ = guardVals σ Γ := by
  induction Γ with
  | nil => rfl
  | cons p Γ ih =>
    obtain ⟨g, w⟩ := p
    simp only [guardVals, h (g, w) (List.mem_cons_self), ih (fun q hq => h q (List.mem_cons_of_mem _ hq))]

theorem guardVals_snoc (σ : SEnv) (Γ : List (String × Bool)) (gs : List (SVal × Bool)) (g : String) (w : Bool)
    (v : SVal) (h : guardVals σ Γ = some gs) (hg : σ g = some v) :
    guardVals σ (Γ ++ [(g, w)]) = some (gs ++ [(v, w)]) := by
  induction Γ generalizing gs with
  | nil =>
    simp only [guardVals, Option.some.injEq] at h
    subst h
    simp [guardVals, hg]
  | cons p Γ ih =>
    obtain ⟨g', w'⟩ := p
    simp only [guardVals] at h
    cases h1 : σ g' with
    | none => simp [h1] at h
    | some v' =>
      cases h2 : guardVals σ Γ with
      | none => simp [h1, h2] at h
      | some gs' =>
        simp only [h1, h2, Option.some.injEq] at h
        subst h
        simp [guardVals, h1, ih gs' h2]

theorem guardVals_length {σ : SEnv} {Γ : List (String × Bool)} {gs : List (SVal × Bool)}
    (h : guardVals σ Γ = some gs) : gs.length = Γ.length := by
  induction Γ generalizing gs with
  | nil => simp [guardVals] at h; subst h; rfl
  | cons p Γ ih =>
    obtain ⟨g', w'⟩ := p
    simp only [guardVals] at h
    cases h1 : σ g' with
    | none => simp [h1] at h
    | some v' =>
      cases h2 : guardVals σ Γ with
      | none => simp [h1, h2] at h
      | some gs' =>
        simp only [h1, h2, Option.some.injEq] at h
        subst h
        simp [ih h2]

/-- if the wrapped right-hand side has a value, the plain one has, the old variable has, and the value is
`wrapW` of the two under the values of the guards -/
theorem semW_wrapE (σ : SEnv) (old : String) (e : PExp) :
    ∀ (Γ : List (String × Bool)) (gs : List (SVal × Bool)), guardVals σ Γ = some gs → Γ ≠ [] →
      ∀ x, semW σ (wrapE Γ old e) = some x →
      ∃ v o, semW σ e = some v ∧ σ old = some o ∧ wrapW gs v o = some x
  | [], _, _, hne, _, _ => absurd rfl hne
  | (g, w) :: Γ, gs, hgs, _, x, hx => by
    simp only [guardVals] at hgs
    cases h1 : σ g with
    | none => simp [h1] at hgs
    | some gv =>
      cases h2 : guardVals σ Γ with
      | none => simp [h1, h2] at hgs
      | some gs' =>
        simp only [h1, h2, Option.some.injEq] at hgs
        subst hgs
        by_cases hΓ : Γ = []
        · subst hΓ
          simp only [guardVals, Option.some.injEq] at h2
          subst h2
          cases w
          · simp only [wrapE, semW_ite, semW_name, h1] at hx
            cases ho : σ old with
            | none => simp [ho] at hx
            | some o =>
              cases hv : semW σ e with
              | none => simp [ho, hv] at hx
              | some v =>
                simp only [ho, hv] at hx
                exact ⟨v, o, rfl, rfl, by simpa [wrapW] using hx⟩
          · simp only [wrapE, semW_ite, semW_name, h1] at hx
            cases ho : σ old with
            | none =>
              cases hv : semW σ e <;> simp [ho, hv] at hx
            | some o =>
              cases hv : semW σ e with
              | none => simp [ho, hv] at hx
              | some v =>
                simp only [ho, hv] at hx
                exact ⟨v, o, rfl, rfl, by simpa [wrapW] using hx⟩
        · cases w
          · simp only [wrapE, semW_ite, semW_name, h1] at hx
            cases ho : σ old with
            | none => simp [ho] at hx
            | some o =>
              cases hi : semW σ (wrapE Γ old e) with
              | none => simp [ho, hi] at hx
              | some xi =>
                simp only [ho, hi] at hx
                obtain ⟨v, o', hv, ho', hw⟩ := semW_wrapE σ old e Γ gs' h2 hΓ xi hi
                rw [ho] at ho'
                cases ho'
                exact ⟨v, o, hv, rfl, by simp [wrapW, hw, hx]⟩
          · simp only [wrapE, semW_ite, semW_name, h1] at hx
            cases ho : σ old with
            | none =>
              cases hi : semW σ (wrapE Γ old e) <;> simp [ho, hi] at hx
            | some o =>
              cases hi : semW σ (wrapE Γ old e) with
              | none => simp [ho, hi] at hx
              | some xi =>
                simp only [ho, hi] at hx
                obtain ⟨v, o', hv, ho', hw⟩ := semW_wrapE σ old e Γ gs' h2 hΓ xi hi
                rw [ho] at ho'
                cases ho'
                exact ⟨v, o, hv, rfl, by simp [wrapW, hw, hx]⟩

end QV.A2A
