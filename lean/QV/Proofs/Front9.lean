import QV.Proofs.Front7
/-! Statement level of C01, part 2: one statement of the translator keeps the invariant `EnvInv`
(assignment: `Env.bind` + `decompose_to_symbols`, re-binding included; `return`: fill / crop), and the
induction over the body (`trBody`, `runDefs`, `semBody`). -/
namespace QV.Sem
open QV QV.Arith QV.Front

set_option linter.unusedSimpArgs false
set_option linter.unusedVariables false

theorem atoms_inj : ∀ {a b : List BExp}, a.map Val.atom = b.map Val.atom → a = b
  | [], [], _ => rfl
  | [], _ :: _, h => by simp at h
  | _ :: _, [], h => by simp at h
  | x :: xs, y :: ys, h => by
    simp only [List.map_cons, List.cons.injEq, Val.atom.injEq] at h
    rw [h.1, atoms_inj h.2]

theorem ofBits_inj {a b : List BExp} (h : Val.ofBits a = Val.ofBits b) : a = b := by
  unfold Val.ofBits at h
  injection h with h
  exact atoms_inj h

theorem den_int_inv {ρ : QV.Env} {ty : Ty} {bits : List BExp} {sv : SVal}
    (h : Den ρ ty (Val.ofBits bits) sv) : ty = .qint bits.length ∧ sv = .int bits.length (val ρ bits) := by
  generalize hv : Val.ofBits bits = v at h
  cases h with
  | bool a => simp [Val.ofBits] at hv
  | int bits' =>
    have := ofBits_inj hv
    subst this
    exact ⟨rfl, rfl⟩

/-- value of a binding's symbols under `ρ`, read at the binding's type -/
def decodeB (ρ : QV.Env) (b : Binding) : Option SVal :=
  match b.ty with
  | .bool => some (.bool (ρ b.name))
  | .qint w => some (.int w (valLE (b.bitvec.map ρ)))
  | _ => none

/-- `σ` with the variable `t` re-read from its symbols under `ρ''` -/
def rebase (t : String) (env : Front.Env) (σ : SEnv) (ρ'' : QV.Env) : SEnv := fun n =>
  if n = t then (match env.find t with | some b => decodeB ρ'' b | none => σ t) else σ n

theorem envInv_rebase {ρ ρ'' : QV.Env} {env : Front.Env} {σ : SEnv} (hinv : EnvInv ρ env σ) {t : String}
    (hgt : goodName t = true) (ha : AgreeOff t ρ ρ'') : EnvInv ρ'' env (rebase t env σ ρ'') := by
  refine ⟨?_, hinv.good, ?_⟩
  · intro n b hf
    have hname := find_name hf
    by_cases hn : n = t
    · subst hn
      have hr : rebase n env σ ρ'' b.name = decodeB ρ'' b := by
        rw [hname]; simp [rebase, hf]
      rcases hinv.bind n b hf with ⟨hty, hbv, _⟩ | ⟨w, hw, hty, hbv, _⟩
      · exact Or.inl ⟨hty, hbv, by rw [hr]; simp [decodeB, hty]⟩
      · exact Or.inr ⟨w, hw, hty, hbv, by rw [hr]; simp [decodeB, hty]⟩
    · have hne : b.name ≠ t := by rw [hname]; exact hn
      exact bindOK_transfer (hinv.bind n b hf) (by rw [hname]; exact hinv.good n b hf) hgt hne ha
        (by simp [rebase, hne])
  · intro n w x hσ
    by_cases hn : n = t
    · subst hn
      simp only [rebase, if_true] at hσ
      cases hf : env.find n with
      | none => rw [hf] at hσ; exact hinv.width n w x hσ
      | some b =>
        rw [hf] at hσ
        simp only [decodeB] at hσ
        rcases hinv.bind n b hf with ⟨hty, _, _⟩ | ⟨w', hw, hty, _, _⟩
        · rw [hty] at hσ; simp at hσ
        · rw [hty] at hσ
          simp only [Option.some.injEq, SVal.int.injEq] at hσ
          rw [← hσ.1]; exact hw
    · simp only [rebase, hn, if_false] at hσ
      exact hinv.width n w x hσ

/-- the translated value of an expression that does not read `t` denotes the same `SemW` value under
every assignment that differs from `ρ` only on the symbols of `t` -/
theorem tr_indep {ρ : QV.Env} {env : Front.Env} {σ : SEnv} (hinv : EnvInv ρ env σ) {t : String}
    (hgt : goodName t = true) {e : PExp} (hfrag : inFrag e = true) (hself : mentions t e = false)
    {s s' : St} {ty : Ty} {v : Val} (htr : (tr Quirks.none env e).run s = .ok ((ty, v), s')) :
    ∃ sv, semW σ e = some sv ∧ ∀ ρ'', AgreeOff t ρ ρ'' → Den ρ'' ty v sv := by
  obtain ⟨sv, hs, hd⟩ := sound_all ρ env σ (envOK_of_inv hinv) e hfrag _ _ _ _ htr
  refine ⟨sv, hs, fun ρ'' ha => ?_⟩
  obtain ⟨sv', hs', hd'⟩ := sound_all ρ'' env _ (envOK_of_inv (envInv_rebase hinv hgt ha)) e hfrag _ _ _ _ htr
  have := semW_congr t (rebase t env σ ρ'') σ (fun n hn => by simp [rebase, hn]) e hself
  rw [this, hs] at hs'
  cases hs'
  exact hd'

/-- the invariant after (re)binding `t` to a value whose definitions changed only the symbols of `t` -/
theorem envInv_bind {ρ ρ' : QV.Env} {env : Front.Env} {σ : SEnv} (hinv : EnvInv ρ env σ) {t : String}
    (hgt : goodName t = true) (ha : AgreeOff t ρ ρ') (nb : Binding) (hname : nb.name = t) (sv : SVal)
    (hnew : BindOK ρ' (σ.set t sv) nb) (hwid : ∀ w x, sv = .int w x → w ≠ 1) (env' : Front.Env)
    (hfind : ∀ n, env'.find n = if n = t then some nb else env.find n) :
    EnvInv ρ' env' (σ.set t sv) := by
  refine ⟨?_, ?_, ?_⟩
  · intro n b hf
    rw [hfind] at hf
    by_cases hn : n = t
    · simp only [hn, if_true, Option.some.injEq] at hf
      subst hf; exact hnew
    · simp only [hn, if_false] at hf
      have hbn := find_name hf
      have hne : b.name ≠ t := by rw [hbn]; exact hn
      exact bindOK_transfer (hinv.bind n b hf) (by rw [hbn]; exact hinv.good n b hf) hgt hne ha
        (by simp [SEnv.set, hne])
  · intro n b hf
    rw [hfind] at hf
    by_cases hn : n = t
    · rw [hn]; exact hgt
    · simp only [hn, if_false] at hf
      exact hinv.good n b hf
  · intro n w x hσ
    by_cases hn : n = t
    · simp only [SEnv.set, hn, beq_self_eq_true, if_true, Option.some.injEq] at hσ
      exact hwid w x hσ
    · simp only [SEnv.set, beq_iff_eq, hn, if_false] at hσ
      exact hinv.width n w x hσ

/-- binding `t` to the translated value `v` (`decompose_to_symbols` + sequential evaluation of the new
definitions): the invariant is kept with `σ[t := sv]`, only symbols of `t` change, and the symbols of
`t` now hold the bits of `sv` -/
theorem bind_value {ρ : QV.Env} {env : Front.Env} {σ : SEnv} (hinv : EnvInv ρ env σ) {t : String}
    (hgt : goodName t = true) {ty : Ty} {v : Val} {sv : SVal}
    (hind : ∀ ρ'', AgreeOff t ρ ρ'' → Den ρ'' ty v sv) (hwid : ∀ w x, sv = .int w x → w ≠ 1)
    (env' : Front.Env)
    (hfind : ∀ n, env'.find n = if n = t then some ⟨t, ty, (v.decompose t).map (·.1)⟩ else env.find n) :
    EnvInv (runDefs (v.decompose t) ρ) env' (σ.set t sv) ∧ AgreeOff t ρ (runDefs (v.decompose t) ρ) ∧
      (ty.names t).map (runDefs (v.decompose t) ρ) = sv.bits := by
  have hd := hind ρ (AgreeOff.refl t ρ)
  cases hd with
  | bool a =>
    have hdefs : (Val.atom a).decompose t = [(t, a)] := by simp [Val.decompose]
    rw [hdefs] at hfind ⊢
    have hrun : runDefs [(t, a)] ρ = stepDef ρ (t, a) := by rw [runDefs_cons, runDefs_nil]
    rw [hrun]
    have hag : AgreeOff t ρ (stepDef ρ (t, a)) := by
      intro s hs
      have hne : s ≠ t := fun h => hs (h ▸ owned_self t)
      simp [stepDef, hne]
    refine ⟨?_, hag, by simp [Ty.names, stepDef, SVal.bits]⟩
    apply envInv_bind hinv hgt hag _ rfl _ _ (fun w x h => by cases h) env' hfind
    exact Or.inl ⟨rfl, rfl, by simp [SEnv.set, stepDef]⟩
  | int bits =>
    rw [decompose_ofBits] at hfind ⊢
    have hb : ∀ b ∈ bits, ∀ ρ'', AgreeOff t ρ ρ'' → b.eval ρ'' = b.eval ρ := by
      intro b hbm ρ'' ha
      have h2 := (den_int_inv (hind ρ'' ha)).2
      simp only [SVal.int.injEq, true_and] at h2
      have h3 : evalBits ρ'' bits = evalBits ρ bits :=
        valLE_inj (by simp) h2.symm
      exact (List.map_inj_left.mp h3) b hbm
    obtain ⟨hag, hmap, _⟩ := seq_eval t ρ bits 0 ρ (AgreeOff.refl t ρ) hb
    have hmap' : ((List.range bits.length).map (bitName t)).map (runDefs (defsOf t 0 bits) ρ) = evalBits ρ bits := by
      rw [List.range_eq_range', List.map_map]
      exact hmap
    refine ⟨?_, hag, ?_⟩
    · apply envInv_bind hinv hgt hag _ rfl _ _ (fun w x h => hwid w x h) env' hfind
      refine Or.inr ⟨bits.length, hwid _ _ rfl, rfl, defsOf_names0 t bits, ?_⟩
      simp only [SEnv.set, beq_self_eq_true, if_true, defsOf_names0, hmap']
      rfl
    · rw [names_qint, hmap']
      simp only [SVal.bits, val]
      have := toBitsLE_valLE (evalBits ρ bits)
      simpa using this.symm


/-! ### one statement -/

theorem assign_step {ρ : QV.Env} {env : Front.Env} {σ : SEnv} (hinv : EnvInv ρ env σ) (ret : Ty)
    (t : String) (e : PExp) (hgt : goodName t = true) (hfrag : inFrag e = true)
    (hself : mentions t e = false) {s s' : St} {defs : List (String × BExp)} {env' : Front.Env}
    (h : (trStmt Quirks.none ret env (.assign t e)).run s = .ok ((defs, env'), s')) :
    ∃ sv, semW σ e = some sv ∧ EnvInv (runDefs defs ρ) env' (σ.set t sv) ∧
      AgreeOff t ρ (runDefs defs ρ) ∧ (∀ n, n ≠ t → env'.find n = env.find n) := by
  rw [trStmt] at h
  simp only [run_bind_ok] at h
  obtain ⟨⟨ty, v⟩, s1, h1, h2⟩ := h
  obtain ⟨sv, hs, hind⟩ := tr_indep hinv hgt hfrag hself h1
  have hwid : ∀ w x, sv = .int w x → w ≠ 1 := fun w x hsv => semW_width σ hinv.width e w x (hsv ▸ hs)
  have hd := hind ρ (AgreeOff.refl t ρ)
  have h3 : defs = v.decompose t ∧ env' = env.bind ⟨t, ty, (v.decompose t).map (·.1)⟩ := by
    cases hd with
    | bool a =>
      simp only [run_pure_ok, Prod.mk.injEq] at h2
      exact h2.1
    | int bits =>
      simp only [run_pure_ok, Prod.mk.injEq] at h2
      exact h2.1
  obtain ⟨rfl, rfl⟩ := h3
  have hfind := fun n => find_bind env ⟨t, ty, (v.decompose t).map (·.1)⟩ n
  obtain ⟨i1, i2, _⟩ := bind_value hinv hgt hind hwid _ hfind
  refine ⟨sv, hs, i1, i2, fun n hn => ?_⟩
  rw [hfind n]
  simp [hn]

theorem retName_good : goodName "_ret" = true := by decide

theorem ret_step {ρ : QV.Env} {env : Front.Env} {σ : SEnv} (hinv : EnvInv ρ env σ) (ret : Ty)
    (hret : argTyOK ret = true) (e : PExp) (hfrag : inFrag e = true)
    (hself : mentions "_ret" e = false) {s s' : St} {defs : List (String × BExp)} {env' : Front.Env}
    (h : (trStmt Quirks.none ret env (.ret e)).run s = .ok ((defs, env'), s')) :
    env.find "_ret" = none ∧ ∃ v sv, semW σ e = some v ∧ coerceRet ret v = some sv ∧
      (ret.names "_ret").map (runDefs defs ρ) = sv.bits ∧
      EnvInv (runDefs defs ρ) env' (σ.set "_ret" sv) ∧ AgreeOff "_ret" ρ (runDefs defs ρ) ∧
      (env'.find "_ret").isSome = true := by
  rw [trStmt] at h
  simp only [run_bind_ok] at h
  obtain ⟨⟨ty, v⟩, s1, h1, h2⟩ := h
  obtain ⟨sv, hs, hind⟩ := tr_indep hinv retName_good hfrag hself h1
  have hd := hind ρ (AgreeOff.refl _ ρ)
  -- the coerced value
  have key : ∃ (v' : Val) (sv' : SVal), coerceRet ret sv = some sv' ∧
      (∀ ρ'', AgreeOff "_ret" ρ ρ'' → Den ρ'' ret v' sv') ∧ env.find "_ret" = none ∧
      defs = v'.decompose "_ret" ∧
      env' = env ++ [⟨"_ret", ret, (v'.decompose "_ret").map (·.1)⟩] := by
    cases hd with
    | bool a =>
      cases ret with
      | bool =>
        simp only [Ty.size?, bne_bool_bool, Bool.false_eq_true, if_false, run_ite_ok, run_bind_ok,
          run_throw_ok, run_pure_ok, false_and, exists_false, and_false, false_or, Prod.mk.injEq] at h2
        obtain ⟨hnone, ⟨rfl, rfl⟩, _⟩ := h2
        refine ⟨_, _, rfl, hind, ?_, rfl, rfl⟩
        cases hf : env.find "_ret" with
        | none => rfl
        | some b => simp [hf] at hnone
      | qint b =>
        simp only [Ty.size?, bne_bool_qint, if_true, run_throw_ok, run_bind_ok, false_and, exists_false] at h2
      | qchar => simp [argTyOK] at hret
      | tuple _ => simp [argTyOK] at hret
    | int bits =>
      cases ret with
      | bool =>
        simp only [Ty.size?, bne_qint_bool, if_true, run_throw_ok, run_bind_ok, false_and, exists_false] at h2
      | qchar => simp [argTyOK] at hret
      | tuple _ => simp [argTyOK] at hret
      | qint b =>
        have hval : ∀ ρ'', AgreeOff "_ret" ρ ρ'' → val ρ'' bits = val ρ bits := by
          intro ρ'' ha
          have h2 := (den_int_inv (hind ρ'' ha)).2
          simp only [SVal.int.injEq, true_and] at h2
          exact h2.symm
        simp only [Ty.size?] at h2
        by_cases hlt : bits.length < b
        · simp only [hlt, if_true, run_bind_ok, run_lift_ok, bitsOf_ofBits, Except.ok.injEq, run_ite_ok,
            run_throw_ok, run_pure_ok, false_and, exists_false, and_false, false_or, Prod.mk.injEq] at h2
          obtain ⟨_, _, ⟨rfl, rfl⟩, hnone, ⟨rfl, rfl⟩, _⟩ := h2
          refine ⟨_, .int b (val ρ bits), by simp [coerceRet, Nat.le_of_lt hlt], ?_, ?_, rfl, rfl⟩
          · intro ρ'' ha
            apply Den.mk_int
            · rw [fill_length]; omega
            · rw [val_fill, hval ρ'' ha]
          · cases hf : env.find "_ret" with
            | none => rfl
            | some b => simp [hf] at hnone
        · by_cases hgt : bits.length > b
          · simp only [hlt, hgt, if_true, if_false, run_bind_ok, run_lift_ok, bitsOf_ofBits, Except.ok.injEq,
              run_ite_ok, run_throw_ok, run_pure_ok, false_and, exists_false, and_false, false_or,
              Prod.mk.injEq] at h2
            obtain ⟨_, _, ⟨rfl, rfl⟩, hnone, ⟨rfl, rfl⟩, _⟩ := h2
            have hnle : ¬ bits.length ≤ b := by omega
            refine ⟨_, .int b (val ρ bits % 2 ^ b), by simp [coerceRet, hnle], ?_, ?_, rfl, rfl⟩
            · intro ρ'' ha
              apply Den.mk_int
              · rw [crop_length]; omega
              · rw [val_crop, hval ρ'' ha]
            · cases hf : env.find "_ret" with
              | none => rfl
              | some b => simp [hf] at hnone
          · have heq : bits.length = b := by omega
            subst heq
            simp only [Nat.lt_irrefl, gt_iff_lt, if_false, bne_qint_qint, beq_self_eq_true, Bool.not_true,
              Bool.false_eq_true, run_ite_ok, run_bind_ok, run_throw_ok, run_pure_ok, false_and,
              exists_false, and_false, false_or, Prod.mk.injEq] at h2
            obtain ⟨hnone, ⟨rfl, rfl⟩, _⟩ := h2
            refine ⟨_, .int bits.length (val ρ bits), by simp [coerceRet], hind, ?_, rfl, rfl⟩
            cases hf : env.find "_ret" with
            | none => rfl
            | some b => simp [hf] at hnone
  obtain ⟨v', sv', hco, hind', hnone, rfl, rfl⟩ := key
  have hwid : ∀ w x, sv' = .int w x → w ≠ 1 := by
    intro w x hsv
    subst hsv
    cases sv with
    | bool _ => cases ret <;> simp [coerceRet] at hco
    | int a y =>
      cases ret with
      | qint b =>
        simp only [argTyOK, bne_iff_ne, ne_eq] at hret
        simp only [coerceRet] at hco
        split at hco <;> simp only [Option.some.injEq, SVal.int.injEq] at hco <;> omega
      | _ => simp [coerceRet] at hco
  have hfind := fun n => find_append_ret env ⟨"_ret", ret, (v'.decompose "_ret").map (·.1)⟩ n hnone
  obtain ⟨i1, i2, i3⟩ := bind_value hinv retName_good hind' hwid _ hfind
  refine ⟨hnone, sv, sv', hs, hco, i3, i1, i2, ?_⟩
  rw [hfind]
  simp


/-! ### the body -/

theorem names_owned (ret : Ty) (hret : argTyOK ret = true) : ∀ x ∈ ret.names "_ret", Owned "_ret" x := by
  intro x hx
  cases ret with
  | bool => simp [Ty.names] at hx; exact Or.inl hx
  | qint w =>
    rw [names_qint] at hx
    simp only [List.mem_map, List.mem_range] at hx
    obtain ⟨i, _, rfl⟩ := hx
    exact owned_bit _ i
  | qchar => simp [argTyOK] at hret
  | tuple _ => simp [argTyOK] at hret

theorem expr_step {ret : Ty} {env : Front.Env} {e : PExp} {s s' : St} {defs : List (String × BExp)}
    {env' : Front.Env} (h : (trStmt Quirks.none ret env (.expr e)).run s = .ok ((defs, env'), s')) :
    defs = [] ∧ env' = env := by
  rw [trStmt] at h
  simp only [run_bind_ok, run_pure_ok, Prod.mk.injEq] at h
  obtain ⟨_, _, _, ⟨rfl, rfl⟩, _⟩ := h
  exact ⟨rfl, rfl⟩

/-- once `_ret` is bound, the rest of the body leaves the return bits alone (and a second `return`
is refused) -/
theorem body_frame (ret : Ty) (hret : argTyOK ret = true) :
    ∀ (ss : List Stmt) (ρ : QV.Env) (env : Front.Env) (σ : SEnv), EnvInv ρ env σ →
      ss.all stmtOK = true → (env.find "_ret").isSome = true →
      ∀ (s s' : St) (defs : List (String × BExp)), (trBody Quirks.none ret env ss).run s = .ok (defs, s') →
      ∀ x, Owned "_ret" x → runDefs defs ρ x = ρ x
  | [], ρ, env, σ, hinv, hok, hsome, s, s', defs, h, x, hx => by
    rw [trBody] at h
    have hn : ¬ ((env.find "_ret").isNone = true) := by
      cases hf : env.find "_ret" <;> simp [hf] at hsome ⊢
    rw [if_neg hn] at h
    simp only [run_pure_ok] at h
    obtain ⟨rfl, _⟩ := h
    rfl
  | st :: ss, ρ, env, σ, hinv, hok, hsome, s, s', defs, h, x, hx => by
    rw [trBody] at h
    simp only [run_bind_ok, run_pure_ok] at h
    obtain ⟨⟨d1, env1⟩, s1, h1, rest, s2, h2, rfl, _⟩ := h
    simp only [List.all_cons, Bool.and_eq_true] at hok
    rw [runDefs_append]
    cases st with
    | assign t e =>
      simp only [stmtOK, Bool.and_eq_true, bne_iff_ne, ne_eq, Bool.not_eq_true'] at hok
      obtain ⟨⟨⟨⟨hgt, hne⟩, hfrag⟩, hself⟩, hrest⟩ := hok
      obtain ⟨sv, hs, hinv1, hag, hfind⟩ := assign_step hinv ret t e hgt hfrag hself h1
      have hsome1 : (env1.find "_ret").isSome = true := by
        rw [hfind "_ret" (fun h => hne h.symm)]; exact hsome
      rw [body_frame ret hret ss _ env1 _ hinv1 hrest hsome1 s1 s2 rest h2 x hx]
      exact hag x (owned_disjoint retName_good hgt (fun h => hne h.symm) hx)
    | ret e =>
      simp only [stmtOK, Bool.and_eq_true, Bool.not_eq_true'] at hok
      obtain ⟨hnone, _⟩ := ret_step hinv ret hret e hok.1.1 hok.1.2 h1
      rw [hnone] at hsome
      cases hsome
    | expr e =>
      obtain ⟨rfl, rfl⟩ := expr_step h1
      rw [runDefs_nil]
      exact body_frame ret hret ss ρ _ σ hinv hok.2 hsome s1 s2 rest h2 x hx
    | unsupported w => simp [stmtOK] at hok


/-- the body of a straight-line program: the sequential evaluation of the definitions leaves in the
return symbols the bits of `semBody` -/
theorem body_main (ret : Ty) (hret : argTyOK ret = true) :
    ∀ (ss : List Stmt) (ρ : QV.Env) (env : Front.Env) (σ : SEnv), EnvInv ρ env σ →
      ss.all stmtOK = true → env.find "_ret" = none →
      ∀ (s s' : St) (defs : List (String × BExp)), (trBody Quirks.none ret env ss).run s = .ok (defs, s') →
      ∃ sv, semBody ret σ ss = some sv ∧ (ret.names "_ret").map (runDefs defs ρ) = sv.bits
  | [], ρ, env, σ, hinv, hok, hnone, s, s', defs, h => by
    rw [trBody] at h
    have hq : Quirks.none.noReturnAccepted = false := rfl
    rw [if_pos (by rw [hnone]; rfl)] at h
    simp only [run_bind_ok, run_ite_ok, run_throw_ok, run_pure_ok, hq, Bool.not_false, not_true_eq_false,
      false_and, and_false, exists_false, or_false] at h
  | st :: ss, ρ, env, σ, hinv, hok, hnone, s, s', defs, h => by
    rw [trBody] at h
    simp only [run_bind_ok, run_pure_ok] at h
    obtain ⟨⟨d1, env1⟩, s1, h1, rest, s2, h2, rfl, _⟩ := h
    simp only [List.all_cons, Bool.and_eq_true] at hok
    rw [runDefs_append]
    cases st with
    | assign t e =>
      simp only [stmtOK, Bool.and_eq_true, bne_iff_ne, ne_eq, Bool.not_eq_true'] at hok
      obtain ⟨⟨⟨⟨hgt, hne⟩, hfrag⟩, hself⟩, hrest⟩ := hok
      obtain ⟨sv, hs, hinv1, hag, hfind⟩ := assign_step hinv ret t e hgt hfrag hself h1
      have hnone1 : env1.find "_ret" = none := by
        rw [hfind "_ret" (fun h => hne h.symm)]; exact hnone
      obtain ⟨r, hr1, hr2⟩ := body_main ret hret ss _ env1 _ hinv1 hrest hnone1 s1 s2 rest h2
      exact ⟨r, by simp only [semBody, hs, hr1], hr2⟩
    | ret e =>
      simp only [stmtOK, Bool.and_eq_true, Bool.not_eq_true'] at hok
      obtain ⟨_, v, sv, hs, hco, hbits, hinv1, hag, hsome1⟩ := ret_step hinv ret hret e hok.1.1 hok.1.2 h1
      refine ⟨sv, by simp only [semBody, hs, hco], ?_⟩
      rw [← hbits]
      apply List.map_congr_left
      intro x hx
      exact body_frame ret hret ss _ env1 _ hinv1 hok.2 hsome1 s1 s2 rest h2 x (names_owned ret hret x hx)
    | expr e =>
      obtain ⟨rfl, rfl⟩ := expr_step h1
      rw [runDefs_nil]
      obtain ⟨r, hr1, hr2⟩ := body_main ret hret ss ρ _ σ hinv hok.2 hnone s1 s2 rest h2
      exact ⟨r, by simp only [semBody, hr1], hr2⟩
    | unsupported w => simp [stmtOK] at hok

/-! ### the program -/

theorem widthOK_args (ρ : QV.Env) (args : List (String × Ty)) (hargs : ∀ p ∈ args, argTyOK p.2 = true) :
    WidthOK (argsEnv args ρ) := by
  intro n w x h
  simp only [argsEnv] at h
  cases hf : args.find? (·.1 == n) with
  | none => simp [hf] at h
  | some p =>
    obtain ⟨m, ty⟩ := p
    have hty := hargs _ (List.mem_of_find?_eq_some hf)
    simp only [hf] at h
    cases ty with
    | bool => simp [decodeArg] at h
    | qint w' =>
      simp only [decodeArg, Option.some.injEq, SVal.int.injEq] at h
      simp only [argTyOK, bne_iff_ne, ne_eq] at hty
      omega
    | qchar => simp [argTyOK] at hty
    | tuple _ => simp [argTyOK] at hty

/-- the environment `translate_ast` starts from satisfies the invariant with `σ` = the decoded
arguments -/
theorem envInv_args (ρ : QV.Env) (args : List (String × Ty))
    (hargs : ∀ p ∈ args, argTyOK p.2 = true ∧ goodName p.1 = true) :
    EnvInv ρ (initEnv args) (argsEnv args ρ) := by
  have hfind : ∀ n, (initEnv args).find n
      = (args.find? (·.1 == n)).map fun p => (⟨p.1, p.2, p.2.names p.1⟩ : Binding) := by
    intro n
    unfold Env.find
    rw [initEnv_eq, List.find?_map]
    rfl
  refine ⟨?_, ?_, widthOK_args ρ args (fun p hp => (hargs p hp).1)⟩
  · intro n b hf
    rw [hfind] at hf
    cases hfa : args.find? (·.1 == n) with
    | none => simp [hfa] at hf
    | some p =>
      obtain ⟨m, ty⟩ := p
      have hmem := List.mem_of_find?_eq_some hfa
      have hty := (hargs _ hmem).1
      have hname : m = n := by
        have := List.find?_some hfa
        simpa using this
      subst hname
      simp only [hfa, Option.map_some, Option.some.injEq] at hf
      subst hf
      have hsem : argsEnv args ρ m = decodeArg ρ m ty := by simp [argsEnv, hfa]
      cases ty with
      | bool => exact Or.inl ⟨rfl, by simp [Ty.names], by rw [hsem]; rfl⟩
      | qint w =>
        simp only [argTyOK, bne_iff_ne, ne_eq] at hty
        exact Or.inr ⟨w, hty, rfl, names_qint m w, by rw [hsem]; rfl⟩
      | qchar => simp [argTyOK] at hty
      | tuple _ => simp [argTyOK] at hty
  · intro n b hf
    rw [hfind] at hf
    cases hfa : args.find? (·.1 == n) with
    | none => simp [hfa] at hf
    | some p =>
      have hmem := List.mem_of_find?_eq_some hfa
      have hname : p.1 = n := by
        have := List.find?_some hfa
        simpa using this
      rw [← hname]
      exact (hargs _ hmem).2

theorem initEnv_no_ret (args : List (String × Ty)) (h : ∀ p ∈ args, p.1 ≠ "_ret") :
    (initEnv args).find "_ret" = none := by
  unfold Env.find
  rw [initEnv_eq, List.find?_eq_none]
  intro b hb
  simp only [List.mem_map] at hb
  obtain ⟨p, hp, rfl⟩ := hb
  simp [h p hp]

/-- **the statement level**: a straight-line program that `translate` accepts has, under every
assignment of the argument bits, a `SemW` value, and the sequential evaluation of the definition list
leaves exactly its bits in the return symbols -/
theorem translate_sound (p : Prog) (consts : List (Bool × Bool)) (hp : straightLine p = true)
    (defs : List (String × BExp)) (events : List String)
    (h : translate Quirks.none consts p = .ok (defs, events)) (ρ : QV.Env) :
    ∃ sv, semProg p ρ = some sv ∧ (p.ret.names "_ret").map (runDefs defs ρ) = sv.bits := by
  simp only [straightLine, Bool.and_eq_true, List.all_eq_true, bne_iff_ne, ne_eq] at hp
  obtain ⟨⟨hargs, hret⟩, hbody⟩ := hp
  unfold translate at h
  simp only at h
  split at h
  · rename_i defs' st hrun
    simp only [Except.ok.injEq, Prod.mk.injEq] at h
    obtain ⟨rfl, _⟩ := h
    have hinv := envInv_args ρ p.args (fun a ha => ⟨(hargs a ha).1.1, (hargs a ha).1.2⟩)
    have hnone := initEnv_no_ret p.args (fun a ha => (hargs a ha).2)
    exact body_main p.ret hret p.body ρ _ _ hinv (by simpa [List.all_eq_true] using hbody) hnone _ _ _ hrun
  · cases h

end QV.Sem
