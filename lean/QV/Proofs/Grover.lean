import QV.Model.Grover
import QV.Proofs.Types
import Mathlib.Tactic.Ring
import Mathlib.Tactic.Linarith
/-! Helper lemmas for the Grover model (`QV.Model.Grover`). -/
namespace QV.Grover
open QV

/-! ### normalisation of the reduced recurrence (all N, M, k) -/

theorem norm_oracleStep (N M : Int) (s : RState) : (oracleStep s).norm N M = s.norm N M := by
  simp only [RState.norm, oracleStep, Amp.sq]; ring

theorem norm_phaseStep (N M : Int) (s : RState) : (phaseStep s).norm N M = s.norm N M := by
  simp only [RState.norm, phaseStep, Amp.sq]; ring

theorem norm_diffuseStep (N M : Int) (s : RState) :
    (diffuseStep N M s).norm N M = N ^ 2 * s.norm N M := by
  simp only [RState.norm, diffuseStep, Amp.sq]; ring

theorem norm_rstep (N M : Int) (s : RState) : (rstep N M s).norm N M = N ^ 2 * s.norm N M := by
  unfold rstep
  rw [norm_diffuseStep, norm_phaseStep, norm_oracleStep]

theorem norm_riter (N M : Int) : ∀ (k : Nat) (s : RState),
    (riter N M k s).norm N M = N ^ (2 * k) * s.norm N M
  | 0, s => by simp [riter]
  | k + 1, s => by
    rw [riter, norm_riter N M k, norm_rstep]
    rw [show 2 * (k + 1) = 2 * k + 2 by ring, pow_add]; ring

theorem norm_init (N M : Int) : RState.init.norm N M = N := by
  simp only [RState.norm, RState.init, Amp.sq]; ring

/-! ### the search for the least admissible iteration count -/

theorem kSearch_least (p : Nat × Nat) (n M : Nat) : ∀ (fuel start j : Nat),
    start ≤ j → j < kSearch p n M fuel start → kOk p n M j = false
  | 0, start, j, h1, h2 => by simp [kSearch] at h2; omega
  | fuel + 1, start, j, h1, h2 => by
    unfold kSearch at h2
    by_cases hk : kOk p n M start = true
    · simp [hk] at h2; omega
    · simp [hk] at h2
      by_cases hj : j = start
      · subst hj; simpa using hk
      · exact kSearch_least p n M fuel (start + 1) j (by omega) h2

theorem kSearch_ok (p : Nat × Nat) (n M : Nat) : ∀ (fuel start j : Nat),
    start ≤ j → j < start + fuel → kOk p n M j = true →
    kOk p n M (kSearch p n M fuel start) = true
  | 0, start, j, h1, h2, _ => by omega
  | fuel + 1, start, j, h1, h2, h3 => by
    unfold kSearch
    by_cases hk : kOk p n M start = true
    · simp [hk]
    · simp [hk]
      have hj : j ≠ start := by intro e; subst e; exact hk h3
      exact kSearch_ok p n M fuel (start + 1) j (by omega) (by omega) h3

/-- with `p ≤ 4` (true of both bounds on π) `k = 2^n` is always admissible, so the fuel suffices -/
theorem kOk_pow (p : Nat × Nat) (n M : Nat) (hp : p.1 * p.1 ≤ 16 * p.2 * p.2) (hM : 0 < M) :
    kOk p n M (2 ^ n) = true := by
  unfold kOk
  simp only [decide_eq_true_eq]
  have h1 : 1 ≤ 2 ^ n := Nat.one_le_two_pow
  calc p.1 * p.1 * 2 ^ n ≤ (16 * p.2 * p.2) * 2 ^ n := Nat.mul_le_mul_right _ hp
    _ ≤ (16 * p.2 * p.2) * (2 ^ n * 2 ^ n * M) := by
        apply Nat.mul_le_mul_left
        calc 2 ^ n = 2 ^ n * 1 * 1 := by ring
          _ ≤ 2 ^ n * 2 ^ n * M := Nat.mul_le_mul (Nat.mul_le_mul_left _ h1) hM
    _ = 16 * 2 ^ n * 2 ^ n * M * p.2 * p.2 := by ring

end QV.Grover
