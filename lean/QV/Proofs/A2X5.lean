import QV.Proofs.A2X2
/-! Expression-level rewrites of `ast2ast`, part 5: the constant table.  `visit_Subscript` on a variable index into a
tuple literal / a constant tuple returns `tableChain` (a left fold: the *last* element is the outermost test, the
first element the innermost `else`), and that chain selects the element the index value names. -/
namespace QV.A2A
open QV QV.Front QV.Sem

set_option linter.unusedSimpArgs false
set_option linter.unusedVariables false

/-! ### what `visit_Subscript` returns -/

/-- `[x0, …, xn][i]`, `i` a variable that is no constant of the environment (the elements are not visited) -/
theorem visitE_table_lit (st : RSt) (i : String) (x : SExp) (xs : List SExp) (hi : lookup st.consts i = none) :
    visitE st (.sub (.tuple (x :: xs)) (.name i)) = .ok (tableChain (.name i) x xs) := by
  simp [visitE, visitSub, constSlice, hi, visitSubTable, pure, Except.pure]

/-- `[x0, …, xn][a[b]]`: a subscript as index -/
theorem visitE_table_lit_sub (st : RSt) (a b x : SExp) (xs : List SExp) :
    visitE st (.sub (.tuple (x :: xs)) (.sub a b)) = .ok (tableChain (.sub a b) x xs) := by
  simp [visitE, visitSub, constSlice, visitSubTable, pure, Except.pure]

/-- `T[a[b]]`, `T` a constant tuple of the environment -/
theorem visitE_table_const (st : RSt) (T : String) (cv : EVal) (a b x : SExp) (xs : List SExp) (hT : T ≠ "Tuple")
    (hc : lookup st.consts T = some cv) (hn : cv.asNode? = some (.tuple (x :: xs))) :
    visitE st (.sub (.name T) (.sub a b)) = .ok (tableChain (.sub a b) x xs) := by
  simp only [visitE, visitSub, constSlice, visitSubTable]
  split
  · rename_i h; simp at h
  · split
    · rename_i h; cases h; exact absurd rfl hT
    · simp [hc, hn, pure, Except.pure]

/-! ### the chain on translated expressions -/

/-- `toP` of `tableChain`: the fold with the accumulator `acc`, the next test being `i == k + 1` -/
def tableP (ip : PExp) : PExp → List PExp → Nat → PExp
  | acc, [], _ => acc
  | acc, e :: es, k => tableP ip (.ite (.cmp "Eq" ip (.cint ((k : Int) + 1))) e acc) es (k + 1)

theorem toP_tableFold (i : SExp) : ∀ (xs : List SExp) (k : Nat) (acc : SExp),
    toP ((xs.zipIdx k).foldl
      (fun acc (p : SExp × Nat) => .ite (.cmp "Eq" i (.const (.int ((p.2 : Int) + 1)))) p.1 acc) acc)
      = tableP (toP i) (toP acc) (toPs xs) k
  | [], k, acc => by simp [tableP, toPs]
  | e :: es, k, acc => by
    simp only [List.zipIdx_cons, List.foldl_cons, toPs, tableP]
    rw [toP_tableFold i es (k + 1)]
    simp only [toP]

theorem toP_tableChain (i x : SExp) (xs : List SExp) :
    toP (tableChain i x xs) = tableP (toP i) (toP x) (toPs xs) 0 := by
  simp only [tableChain]
  exact toP_tableFold i xs 0 x

/-! ### values -/

def widthOf : SVal → Nat
  | .bool _ => 0
  | .int w _ => w

/-- the value at another width (a bool is left alone): what an if-expression of `Sem.semW` does to the branch it takes -/
def withWidth (W : Nat) : SVal → SVal
  | .bool b => .bool b
  | .int _ n => .int W n

def isInt : SVal → Bool
  | .bool _ => false
  | .int _ _ => true

theorem selW_kind (c : Bool) (u v : SVal) (h : isInt u = isInt v) :
    selW (.bool c) u v = some (withWidth (max (widthOf u) (widthOf v)) (if c then u else v)) := by
  cases u <;> cases v <;> simp [isInt] at h <;> cases c <;> simp [selW, withWidth, widthOf]

theorem isInt_withWidth (W : Nat) (u : SVal) : isInt (withWidth W u) = isInt u := by
  cases u <;> rfl

theorem withWidth_withWidth (W M : Nat) (u : SVal) : withWidth W (withWidth M u) = withWidth W u := by
  cases u <;> rfl

theorem withWidth_self (u : SVal) : withWidth (widthOf u) u = u := by
  cases u <;> rfl

theorem widthOf_sel (c : Bool) (u v : SVal) (h : isInt u = isInt v) :
    widthOf (withWidth (max (widthOf u) (widthOf v)) (if c then u else v)) = max (widthOf v) (widthOf u) := by
  cases u <;> cases v <;> simp [isInt] at h <;> cases c <;> simp [withWidth, widthOf, Nat.max_comm]

theorem semW_eq_gen (σ : SEnv) (ip : PExp) (wi x k : Nat) (hi : semW σ ip = some (.int wi x)) (hk : k < 65536) :
    semW σ (.cmp "Eq" ip (.cint k)) = some (.bool (decide (x = k))) := by
  obtain ⟨w, hw⟩ := constWidth_some k hk
  have hlt := constWidth_lt _ _ hw
  have h0 : (0 : Int) ≤ (k : Int) := by omega
  have hk' : ((k : Int) % (2 : Int) ^ w).toNat = k := by
    rw [Int.emod_eq_of_lt h0 hlt]; simp
  simp [semW, hi, hw, hk', cmpNat]

/-- the width of the chain: the largest width among the accumulator and the elements -/
def maxWidth (w : Nat) (vs : List SVal) : Nat := vs.foldl (fun m v => max m (widthOf v)) w

/-- **the value of the table chain**: with the accumulator `accV` standing for the elements before `k + 1`, the fold over
the elements `es` (values `vs`, all bools or all `Qint`s) under index value `x` is - at the largest width - element
`x - (k + 1)` of `vs` if `k < x ≤ k + |vs|`, the accumulator otherwise -/
theorem tableP_value (σ : SEnv) (ip : PExp) (wi x : Nat) (hi : semW σ ip = some (.int wi x)) (b : Bool) :
    ∀ (es : List SExp) (vs : List SVal) (k : Nat) (accE : PExp) (accV : SVal),
      List.Forall₂ (fun e v => semW σ (toP e) = some v ∧ isInt v = b) es vs →
      semW σ accE = some accV → isInt accV = b → k + es.length < 65536 →
      semW σ (tableP ip accE (toPs es) k)
        = some (withWidth (maxWidth (widthOf accV) vs) (if x ≤ k then accV else (vs[x - (k + 1)]?).getD accV))
  | [], vs, k, accE, accV, hf, hacc, _, _ => by
    cases hf
    simp [toPs, tableP, maxWidth, withWidth_self, hacc]
  | e :: es, vs, k, accE, accV, hf, hacc, hb, hk => by
    cases hf with
    | @cons _ v _ vs' hev hf' =>
    have hkind : isInt v = isInt accV := by rw [hev.2, hb]
    have hcast : ((k : Int) + 1) = ((k + 1 : Nat) : Int) := by push_cast; rfl
    have hacc' : semW σ (.ite (.cmp "Eq" ip (.cint ((k : Int) + 1))) (toP e) accE)
        = some (withWidth (max (widthOf v) (widthOf accV)) (if decide (x = k + 1) then v else accV)) := by
      rw [semW_ite, hcast, semW_eq_gen σ ip wi x (k + 1) hi (by simp at hk; omega), hev.1, hacc]
      exact selW_kind _ _ _ hkind
    have hb' : isInt (withWidth (max (widthOf v) (widthOf accV)) (if decide (x = k + 1) then v else accV)) = b := by
      rw [isInt_withWidth]; split
      · exact hev.2
      · exact hb
    have ih := tableP_value σ ip wi x hi b es vs' (k + 1) _ _ hf' hacc' hb' (by simp at hk; omega)
    simp only [toPs, tableP]
    rw [ih, widthOf_sel _ _ _ hkind]
    simp only [maxWidth, List.foldl_cons]
    congr 1
    rcases Nat.lt_trichotomy x (k + 1) with hx | hx | hx
    · have h1 : x ≤ k + 1 := by omega
      have h2 : x ≤ k := by omega
      have h3 : ¬ x = k + 1 := by omega
      simp only [h1, h2, h3, if_true, decide_false, Bool.false_eq_true, if_false, withWidth_withWidth]
    · subst hx
      have h2 : ¬ (k + 1 ≤ k) := by omega
      simp only [Nat.le_refl, if_true, decide_true, h2, if_false, Nat.sub_self, List.getElem?_cons_zero,
        Option.getD_some, withWidth_withWidth]
    · have h1 : ¬ x ≤ k + 1 := by omega
      have h2 : ¬ x ≤ k := by omega
      have h3 : ¬ x = k + 1 := by omega
      have h4 : x - (k + 1) = (x - (k + 1 + 1)) + 1 := by omega
      simp only [h1, h2, h3, if_false, decide_false, Bool.false_eq_true]
      rw [h4, List.getElem?_cons_succ]
      cases vs'[x - (k + 1 + 1)]? with
      | some u => simp
      | none => simp [withWidth_withWidth]

/-- elements of one type: the chain does not change the selected value -/
theorem maxWidth_sameTy (T : Option Nat) (a : SVal) (ha : tyOf a = T) :
    ∀ vs : List SVal, (∀ v ∈ vs, tyOf v = T) → maxWidth (widthOf a) vs = widthOf a
  | [], _ => rfl
  | v :: vs, h => by
    have hv : widthOf v = widthOf a := by
      have h1 := h v (by simp)
      rw [← ha] at h1
      cases v <;> cases a <;> simp [tyOf] at h1 <;> simp [widthOf, h1]
    simp only [maxWidth, List.foldl_cons, hv, Nat.max_self]
    exact maxWidth_sameTy T a ha vs (fun u hu => h u (List.mem_cons_of_mem _ hu))

theorem withWidth_sameTy (a u : SVal) (h : tyOf u = tyOf a) : withWidth (widthOf a) u = u := by
  cases u <;> cases a <;> simp_all [tyOf, widthOf, withWidth]

theorem isInt_of_tyOf (v : SVal) (T : Option Nat) (h : tyOf v = T) : isInt v = T.isSome := by
  cases v <;> subst h <;> rfl

theorem forall₂_length {α β : Type} (R : α → β → Prop) : ∀ (l1 : List α) (l2 : List β), List.Forall₂ R l1 l2 →
    l1.length = l2.length := by
  intro l1 l2 h
  induction h with
  | nil => rfl
  | cons _ _ ih => simp [ih]

theorem forall₂_imp {α β : Type} (R S : α → β → Prop) (hRS : ∀ a b, R a b → S a b) :
    ∀ (l1 : List α) (l2 : List β), List.Forall₂ R l1 l2 → List.Forall₂ S l1 l2 := by
  intro l1 l2 h
  induction h with
  | nil => exact .nil
  | cons h1 _ ih => exact .cons (hRS _ _ h1) ih

/-- **a variable index into a table selects the element**: over elements `x :: xs` whose values `vals` are all bools or
all `Qint`s, under index value `xv`, the chain has - at the largest width of the elements - the value of element `xv`
if `xv ≤ |xs|` and of element `0` otherwise -/
theorem tableChain_selects (σ : SEnv) (ie x : SExp) (xs : List SExp) (vals : List SVal) (b : Bool) (wi xv : Nat)
    (hi : semW σ (toP ie) = some (.int wi xv)) (hlen : xs.length < 65535)
    (hvals : List.Forall₂ (fun e v => semW σ (toP e) = some v ∧ isInt v = b) (x :: xs) vals) :
    semW σ (toP (tableChain ie x xs))
      = (pyIndex1 vals (if xv ≤ xs.length then xv else 0)).map (withWidth (maxWidth 0 vals)) := by
  cases hvals with
  | @cons _ v _ vs hev hf =>
  rw [toP_tableChain, tableP_value σ (toP ie) wi xv hi b xs vs 0 (toP x) v hf hev.1 hev.2 (by omega)]
  have hl : vs.length = xs.length := (forall₂_length _ _ _ hf).symm
  have hmw : maxWidth 0 (v :: vs) = maxWidth (widthOf v) vs := by simp [maxWidth]
  rw [hmw]
  simp only [pyIndex1]
  cases xv with
  | zero => simp
  | succ m =>
    have h1 : ¬ m + 1 ≤ 0 := by omega
    have h5 : m + 1 - (0 + 1) = m := by omega
    simp only [h1, if_false, h5]
    by_cases hr : m + 1 ≤ xs.length
    · have hlt : m < vs.length := by omega
      simp [hr, List.getElem?_eq_getElem hlt]
    · have h2 : vs[m]? = none := List.getElem?_eq_none (by omega)
      simp [hr, h2]

/-- elements of one type `Tv`: exactly python's indexing -/
theorem tableChain_selects_sameTy (σ : SEnv) (ie x : SExp) (xs : List SExp) (vals : List SVal) (Tv : Option Nat)
    (wi xv : Nat) (hi : semW σ (toP ie) = some (.int wi xv)) (hlen : xs.length < 65535)
    (hvals : List.Forall₂ (fun e v => semW σ (toP e) = some v ∧ tyOf v = Tv) (x :: xs) vals) :
    semW σ (toP (tableChain ie x xs)) = pyIndex1 vals (if xv ≤ xs.length then xv else 0) := by
  have hvals' : List.Forall₂ (fun e v => semW σ (toP e) = some v ∧ isInt v = Tv.isSome) (x :: xs) vals :=
    forall₂_imp _ _ (fun _ _ h => ⟨h.1, isInt_of_tyOf _ _ h.2⟩) _ _ hvals
  rw [tableChain_selects σ ie x xs vals Tv.isSome wi xv hi hlen hvals']
  have hall : ∀ v ∈ vals, tyOf v = Tv := by
    intro v hv
    have : ∀ (es : List SExp) (vs : List SVal),
        List.Forall₂ (fun e v => semW σ (toP e) = some v ∧ tyOf v = Tv) es vs → ∀ v ∈ vs, tyOf v = Tv := by
      intro es vs h
      induction h with
      | nil => intro v hv; cases hv
      | cons h1 _ ih =>
        intro v hv
        rcases List.mem_cons.mp hv with rfl | hv
        · exact h1.2
        · exact ih v hv
    exact this _ _ hvals v hv
  cases hvals with
  | @cons _ v _ vs hev hf =>
  have hmw : maxWidth 0 (v :: vs) = widthOf v := by
    have : maxWidth 0 (v :: vs) = maxWidth (widthOf v) vs := by simp [maxWidth]
    rw [this]
    exact maxWidth_sameTy Tv v hev.2 vs (fun u hu => hall u (List.mem_cons_of_mem _ hu))
  rw [hmw]
  cases hg : pyIndex1 (v :: vs) (if xv ≤ xs.length then xv else 0) with
  | none => rfl
  | some u =>
    have hu : u ∈ v :: vs := by
      simp only [pyIndex1] at hg
      exact List.mem_of_getElem? hg
    simp only [Option.map_some]
    rw [withWidth_sameTy v u (by rw [hall u hu, hev.2])]

end QV.A2A
