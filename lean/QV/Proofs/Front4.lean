import QV.Proofs.Front3
/-! Soundness of `QV.Front.tr` w.r.t. `QV.Sem.semW`, continued: if-expressions. -/
namespace QV.Sem
open QV QV.Arith QV.Front

set_option linter.unusedSimpArgs false

theorem iteZip_atoms (c : BExp) (x y : List BExp) :
    iteZip c (x.map .atom) (y.map .atom) = .ok ((List.zipWith (BExp.ite c) x y).map .atom) := by
  induction x generalizing y with
  | nil => simp [iteZip, pure, Except.pure]
  | cons a as ih =>
    cases y with
    | nil => simp [iteZip, pure, Except.pure]
    | cons b bs => simp [iteZip, ih, bind, Except.bind, pure, Except.pure]

theorem val_zipWith_ite (ρ : QV.Env) (c : BExp) (x y : List BExp) (h : x.length = y.length) :
    val ρ (List.zipWith (BExp.ite c) x y) = if c.eval ρ then val ρ x else val ρ y := by
  induction x generalizing y with
  | nil => cases y <;> simp_all [val_nil]
  | cons a as ih =>
    cases y with
    | nil => simp at h
    | cons b bs =>
      simp only [List.length_cons, Nat.add_right_cancel_iff] at h
      simp only [List.zipWith_cons_cons, val_cons, ih bs h, BExp.eval]
      cases c.eval ρ <;> simp

theorem ite_den (ρ : QV.Env) (cb : BExp) (x y a b : List BExp) (n : Nat)
    (hx : x.length = n) (hy : y.length = n) (hvx : val ρ x = val ρ a) (hvy : val ρ y = val ρ b)
    (hn : n = max a.length b.length) :
    Den ρ (.qint n) (Val.list ((List.zipWith (BExp.ite cb) x y).map .atom))
      (.int (max a.length b.length) (if cb.eval ρ then val ρ a else val ρ b)) := by
  subst hn
  have := Den.mk_int (ρ := ρ) (List.zipWith (BExp.ite cb) x y) (max a.length b.length)
    (if cb.eval ρ then val ρ a else val ρ b)
    (by rw [List.length_zipWith, hx, hy]; omega)
    (by rw [val_zipWith_ite ρ cb x y (by omega), hvx, hvy])
  exact this

theorem sound_ite (ρ : QV.Env) (env : Front.Env) (σ : SEnv) (c l r : PExp)
    (ihc : Sound ρ env σ c) (ihl : Sound ρ env σ l) (ihr : Sound ρ env σ r) :
    Sound ρ env σ (.ite c l r) := by
  intro s t v s' h
  rw [tr] at h
  simp only [run_bind_ok] at h
  obtain ⟨⟨ct, cv⟩, s0, h0, ⟨lt, lv⟩, s1, h1, ⟨rt, rv⟩, s2, h2, h3⟩ := h
  obtain ⟨svc, hsc, hdc⟩ := ihc _ _ _ _ h0
  obtain ⟨svl, hsl, hdl⟩ := ihl _ _ _ _ h1
  obtain ⟨svr, hsr, hdr⟩ := ihr _ _ _ _ h2
  cases hdc with
  | int cbits =>
    simp only [bne_qint_bool, if_true, run_bind_ok, run_throw_ok, false_and, exists_false] at h3
  | bool cb =>
    simp only [bne_bool_bool, Bool.false_eq_true, if_false, run_bind_ok, run_lift_ok, atomOf_atom,
      Except.ok.injEq] at h3
    obtain ⟨_, _, ⟨rfl, rfl⟩, h3⟩ := h3
    cases hdl with
    | bool a =>
      cases hdr with
      | bool b =>
        simp only [bne_bool_bool, Bool.false_eq_true, if_false, beq_bool_bool, if_true, run_bind_ok,
          run_lift_ok, atomOf_atom, Except.ok.injEq, run_pure_ok] at h3
        obtain ⟨_, _, ⟨rfl, rfl⟩, _, _, ⟨rfl, rfl⟩, h4, _⟩ := h3
        cases h4
        refine ⟨.bool (if cb.eval ρ then a.eval ρ else b.eval ρ), by simp [semW, hsc, hsl, hsr], ?_⟩
        exact Den.mk_bool _ _ (by simp [BExp.eval])
      | int b =>
        simp only [bne_bool_qint, if_true, Ty.size?, run_bind_ok, run_throw_ok, false_and,
          exists_false] at h3
    | int a =>
      cases hdr with
      | bool b =>
        simp only [bne_qint_bool, if_true, Ty.size?, run_bind_ok, run_throw_ok, false_and,
          exists_false] at h3
      | int b =>
        simp only [bne_qint_qint, Ty.size?, run_ite_ok, run_bind_ok, run_lift_ok, bitsOf_ofBits,
          Except.ok.injEq, beq_qint_bool, Bool.false_eq_true, false_and, false_or, not_false_eq_true,
          true_and] at h3
        simp only [Val.ofBits, iteZip_atoms, run_bind_ok, run_lift_ok, Except.ok.injEq, run_pure_ok] at h3
        have hsem : semW σ (.ite c l r)
            = some (.int (max a.length b.length) (if cb.eval ρ then val ρ a else val ρ b)) := by
          simp [semW, hsc, hsl, hsr]
        refine ⟨_, hsem, ?_⟩
        rcases h3 with ⟨hc1, (⟨hc2, _, _, ⟨rfl, rfl⟩, _, _, ⟨rfl, rfl⟩, h4, _⟩ |
            ⟨hc2, (⟨hc3, _, _, ⟨rfl, rfl⟩, _, _, ⟨rfl, rfl⟩, h4, _⟩ | ⟨hc3, _, _, ⟨rfl, rfl⟩, h4, _⟩)⟩)⟩ |
            ⟨hc1, _, _, ⟨rfl, rfl⟩, h4, _⟩
        · cases h4
          exact ite_den ρ cb a (fill a.length b) a b a.length rfl (by rw [fill_length]; omega) rfl
            (val_fill ρ _ _) (by omega)
        · cases h4
          exact ite_den ρ cb (fill b.length a) b a b b.length (by rw [fill_length]; omega) rfl
            (val_fill ρ _ _) rfl (by omega)
        · cases h4
          have : a.length = b.length := by omega
          exact ite_den ρ cb a b a b a.length rfl (by omega) rfl rfl (by omega)
        · cases h4
          have : a.length = b.length := by simpa using hc1
          exact ite_den ρ cb a b a b a.length rfl (by omega) rfl rfl (by omega)

end QV.Sem
