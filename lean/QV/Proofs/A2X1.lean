import QV.Model.SemSrc
import QV.Proofs.A2A2
/-! Expression-level rewrites of `ast2ast`, part 1 (syntax): what `ReplaceTypeAnn` makes of `Qlist` / `Qmatrix`
annotations, what `visit_Subscript` and `__unroll_arg` read off such a type, and the expressions they return. -/
namespace QV.A2A
open QV QV.Front QV.Sem

set_option linter.unusedSimpArgs false
set_option linter.unusedVariables false

/-- the annotation `Qlist[T, n]` -/
def qlistAnn (T : SExp) (n : Nat) : SExp := .sub (.name "Qlist") (.tuple [T, .const (.int n)])
/-- the annotation `Qmatrix[T, n, m]` (`n` rows of `m` elements) -/
def qmatrixAnn (T : SExp) (n m : Nat) : SExp :=
  .sub (.name "Qmatrix") (.tuple [T, .const (.int n), .const (.int m)])

/-- the type `Tuple[(T,)*n]` the environment holds for a `Qlist[T, n]` argument -/
def listTy (T : SExp) (n : Nat) : SExp := .sub (.name "Tuple") (.tuple (List.replicate n T))
/-- the type the environment holds for a `Qmatrix[T, n, m]` argument: `n` bare tuples of `m` elements -/
def matrixTy (T : SExp) (n m : Nat) : SExp :=
  .sub (.name "Tuple") (.tuple (List.replicate n (.tuple (List.replicate m T))))

theorem replaceAnn_qlist (T T' : SExp) (n : Nat) (hT : replaceAnn T = .ok T') :
    replaceAnn (qlistAnn T n) = .ok (listTy T' n) := by
  simp [qlistAnn, listTy, replaceAnn, hT, bind, Except.bind, pure, Except.pure]

theorem replaceAnn_qmatrix (T T' : SExp) (n m : Nat) (hT : replaceAnn T = .ok T') :
    replaceAnn (qmatrixAnn T n m) = .ok (matrixTy T' n m) := by
  simp [qmatrixAnn, matrixTy, replaceAnn, hT, bind, Except.bind, pure, Except.pure]

/-- a `Qlist` nested in a `Qlist` is elaborated too (f3ecbf2): `Qlist[Qlist[T, m], n]` is `n` rows `Tuple[(T,)*m]` -/
theorem replaceAnn_qlist_qlist (T T' : SExp) (n m : Nat) (hT : replaceAnn T = .ok T') :
    replaceAnn (qlistAnn (qlistAnn T m) n) = .ok (listTy (listTy T' m) n) :=
  replaceAnn_qlist _ _ n (replaceAnn_qlist T T' m hT)

/-- a one-element `Tuple[bool]` (its slice is not a tuple) is elaborated into a one-element tuple type (f3ecbf2;
before, it was left alone and the visit of the annotation raised `AttributeError`) -/
theorem replaceAnn_tuple1_bool : replaceAnn (.sub (.name "Tuple") (.name "bool")) = .ok (listTy (.name "bool") 1) := by
  rfl

/-- a tuple type whose rows may be `Tuple[…]` annotations or bare tuples (what `Tuple[Tuple[…], …]`, `Qlist[Qlist…]`,
`Qmatrix` give) -/
def rowLen : SExp → Option Nat
  | .sub _ (.tuple es) => some es.length
  | .tuple es => some es.length
  | _ => none

/-! ### `L[i]` -/

theorem lenOfType_ann (st : RSt) (L hd : String) (es : List SExp)
    (h : lookup st.types L = some (.ann (.sub (.name hd) (.tuple es)))) : lenOfType st L = .ok es.length := by
  simp [lenOfType, h, EVal.asNode?, typeSlice, sliceOf, eltsOf, bind, Except.bind, pure, Except.pure]

/-- a constant table: `c = [a, b, …]` stores the tuple node itself as the type of `c` -/
theorem lenOfType_node (st : RSt) (L : String) (es : List SExp)
    (h : lookup st.types L = some (.node (.tuple es))) : lenOfType st L = .ok es.length := by
  simp [lenOfType, h, EVal.asNode?, pure, Except.pure]

theorem visitSub1_ok (st : RSt) (L i : String) (n : Nat) (hn : lenOfType st L = .ok (n + 1)) :
    visitSub1 st L i = .ok (ifChain1 L i 0 n) := by
  simp [visitSub1, hn, bind, Except.bind, pure, Except.pure]

/-- **`visit_Subscript` on `L[i]`**, `L` a variable whose type has `n + 1` elements and `i` a variable that is no
constant of the environment: the if-chain `L[0] if i == 0 else … else L[n]` -/
theorem visitE_index1 (st : RSt) (L i : String) (n : Nat) (hn : lenOfType st L = .ok (n + 1))
    (hi : lookup st.consts i = none) : visitE st (.sub (.name L) (.name i)) = .ok (ifChain1 L i 0 n) := by
  simp only [visitE, visitSub, constSlice, hi]
  exact visitSub1_ok st L i n hn

/-! ### `L[i][j]` -/

theorem dimsOfType_ann (st : RSt) (L hd : String) (row : SExp) (rows : List SExp) (m : Nat)
    (h : lookup st.types L = some (.ann (.sub (.name hd) (.tuple (row :: rows))))) (hrow : rowLen row = some m) :
    dimsOfType st L = .ok (rows.length + 1, m) := by
  cases row with
  | sub v sl =>
    cases sl with
    | tuple es =>
      simp only [rowLen, Option.some.injEq] at hrow
      simp [dimsOfType, h, EVal.asNode?, typeSlice, sliceOf, eltsOf, bind, Except.bind, pure, Except.pure, hrow]
    | _ => simp [rowLen] at hrow
  | tuple es =>
    simp only [rowLen, Option.some.injEq] at hrow
    simp [dimsOfType, h, EVal.asNode?, typeSlice, sliceOf, eltsOf, bind, Except.bind, pure, Except.pure, hrow]
  | _ => simp [rowLen] at hrow

theorem dimsOfType_matrix (st : RSt) (L : String) (T : SExp) (n m : Nat)
    (h : lookup st.types L = some (.ann (matrixTy T (n + 1) m))) : dimsOfType st L = .ok (n + 1, m) := by
  have := dimsOfType_ann st L "Tuple" (.tuple (List.replicate m T))
    (List.replicate n (.tuple (List.replicate m T))) m (by simpa [matrixTy, List.replicate_succ] using h)
    (by simp [rowLen])
  simpa using this

/-- **`visit_Subscript` on `L[i][j]`**: for a type with `n + 1` rows whose row 0 has `m + 1` elements, the if-chain over
the positions `(0,0) … (n, m)` in row-major order -/
theorem visitE_index2 (st : RSt) (L i j : String) (n m : Nat) (hd : dimsOfType st L = .ok (n + 1, m + 1))
    (hj : lookup st.consts j = none) :
    visitE st (.sub (.sub (.name L) (.name i)) (.name j)) = .ok (ifChain2 L i j (positions (n + 1) (m + 1))) := by
  simp only [visitE, visitSub, constSlice, hj]
  simp [visitSub2, hd, bind, Except.bind, pure, Except.pure]

/-! ### `__unroll_arg` -/

/-- the elements `L[0] … L[n-1]` -/
def elems1 (L : String) (n : Nat) : List SExp := (List.range n).map fun i => access1 L i
/-- the elements `L[c][0] … L[c][m-1]` of row `c` -/
def elems2 (L : String) (c m : Nat) : List SExp := (List.range m).map fun i => access2 L c i

/-- **`__unroll_arg` on a tuple-typed name** -/
theorem unrollArg_name (st : RSt) (t : String) (es : List SExp)
    (h : lookup st.types t = some (.ann (.sub (.name "Tuple") (.tuple es)))) :
    ∀ strict, unrollArg st strict (.name t) = .ok (elems1 t es.length) := by
  intro strict
  simp [unrollArg, h, EVal.asNode?, eltsOf, bind, Except.bind, pure, Except.pure, elems1, access1]

/-- **`__unroll_arg` on a row `L[c]`**: as many elements as *that row* has (the repaired `C01-matrix-row-length`) -/
theorem unrollArg_row (st : RSt) (L hd : String) (rows : List SExp) (c m : Nat) (row : SExp)
    (h : lookup st.types L = some (.ann (.sub (.name hd) (.tuple rows)))) (hc : rows[c]? = some row)
    (hrow : rowLen row = some m) :
    ∀ strict, unrollArg st strict (.sub (.name L) (.const (.int c))) = .ok (elems2 L c m) := by
  intro strict
  have hlt : c < rows.length := by
    rcases Nat.lt_or_ge c rows.length with h1 | h1
    · exact h1
    · rw [List.getElem?_eq_none h1] at hc; cases hc
  have hget : rows.getD c (.const (.int c)) = row := by
    simp [List.getD, hc]
  have hidx : pyIndex rows (.int c) = .ok row := by
    simp only [pyIndex, Const.asInt?, Option.getD_some]
    have h0 : ¬ ((c : Int) < 0) := by omega
    have h1 : (0 : Int) ≤ (c : Int) ∧ (c : Int) < (rows.length : Int) := ⟨by omega, by exact_mod_cast hlt⟩
    simp only [h0, if_false, h1, and_self, if_true, Int.toNat_natCast, hget, pure, Except.pure]
  cases row with
  | sub v sl =>
    cases sl with
    | tuple es =>
      simp only [rowLen, Option.some.injEq] at hrow
      simp [unrollArg, h, EVal.asNode?, hidx, bind, Except.bind, pure, Except.pure, elems2, access2, hrow]
    | _ => simp [rowLen] at hrow
  | tuple es =>
    simp only [rowLen, Option.some.injEq] at hrow
    simp [unrollArg, h, EVal.asNode?, hidx, bind, Except.bind, pure, Except.pure, elems2, access2, hrow]
  | _ => simp [rowLen] at hrow

theorem unrollArg_matrix_row (st : RSt) (L : String) (T : SExp) (n m c : Nat) (hc : c < n)
    (h : lookup st.types L = some (.ann (matrixTy T n m))) :
    ∀ strict, unrollArg st strict (.sub (.name L) (.const (.int c))) = .ok (elems2 L c m) :=
  unrollArg_row st L "Tuple" _ c m (.tuple (List.replicate m T)) h
    (by simp [List.getElem?_replicate, hc]) (by simp [rowLen])

/-! ### the builtins over an unrolled argument -/

/-- `visit_Subscript` leaves `L[c]` with a literal index alone -/
theorem visitE_const_sub (st : RSt) (L : String) (c : Const) :
    visitE st (.sub (.name L) (.const c)) = .ok (.sub (.name L) (.const c)) := by
  simp [visitE, visitSub, constSlice, visitSubTable, pure, Except.pure]

theorem visitE_user_name (st : RSt) (t : String) (ht : isDunder t = false) : visitE st (.name t) = .ok (.name t) := by
  simp [visitE, ht, pure, Except.pure]

/-- what `len / sum / any / all` make of an argument that `__unroll_arg` turns into the elements `xs` -/
theorem visitCall_len (st : RSt) (a : SExp) (xs : List SExp) (h : unrollArg st true a = .ok xs) :
    visitCall st "len" [a] = .ok (.const (.int xs.length)) := by
  simp [visitCall, h, bind, Except.bind, pure, Except.pure]

theorem visitCall_sum (st : RSt) (a : SExp) (xs : List SExp) (h : unrollArg st true a = .ok xs) :
    visitCall st "sum" [a] = sumChain xs := by
  simp [visitCall, h, bind, Except.bind]

theorem visitCall_all (st : RSt) (a : SExp) (xs : List SExp) (h : unrollArg st true a = .ok xs) :
    visitCall st "all" [a] = .ok (.boolop true xs) := by
  simp [visitCall, h, bind, Except.bind, pure, Except.pure]

theorem visitCall_any (st : RSt) (a : SExp) (xs : List SExp) (h : unrollArg st true a = .ok xs) :
    visitCall st "any" [a] = .ok (.boolop false xs) := by
  simp [visitCall, h, bind, Except.bind, pure, Except.pure]

/-- **since 5e521a1**: `len`, `sum`, `any`, `all` (and one-argument `min` / `max`) refuse an argument `__unroll_arg` does not
know - an if-expression (`m[i]` with a variable row index, once visited), a scalar variable … - instead of taking it as
its own only element -/
theorem unrollArg_strict_ite (st : RSt) (c a b : SExp) :
    unrollArg st true (.ite c a b) = .error (.exc "Exception" "Not an iterable of known length") := by
  simp [unrollArg, unrollRest, throw, throwThe, MonadExceptOf.throw]

theorem visitCall_len_ite (st : RSt) (c a b : SExp) :
    visitCall st "len" [.ite c a b] = .error (.exc "Exception" "Not an iterable of known length") := by
  simp [visitCall, unrollArg_strict_ite, bind, Except.bind]

/-- the visitor on `fn(a)` when visiting `a` gives `a'` -/
theorem visitE_call1 (st : RSt) (fn : String) (a a' : SExp) (h : visitE st a = .ok a') :
    visitE st (.call fn [a]) = visitCall st fn [a'] := by
  simp [visitE, visitEs, h, bind, Except.bind, pure, Except.pure]

end QV.A2A
