import Mathlib.Tactic.Ring
import QV.Proofs.Hadamard
import QV.Proofs.Algo
import QV.Proofs.Grover
import QV.Model.Grover
/-!
# From the Grover gate list to the reduced recurrence (C15, `class_uniform_invariant`)

Everything here is about `QV.Grover.applyWave / runWave` (the exact integer amplitude semantics
`C15_statement` is stated over).  Reused from C16: the `sumBits` algebra of
`QV/Proofs/Hadamard.lean` and the inverse-run lemmas (`back_fwd`, `fwd_back`, `run_oracle`) of
`QV/Proofs/Algo.lean` (on classical gate lists `runWave` and `Amp.run` are the same function:
`runWave_classical`).

1. `layerM_sum` – generalisation of the Walsh–Hadamard layer lemma `hadamard_layer` to a layer
   of an arbitrary one-qubit integer matrix `m` on qubits `0..n-1` (`H`: `m b c = (-1)^{bc}`,
   `H` then `X`: `(-1)^{¬b·c}`, `X` then `H`: `(-1)^{b·¬c}`), `kron_comp` – two such layers
   whose matrices multiply to `2·I` compose to `2^n·I`;
2. `diffuser_reflection` – the diffuser is `2^(n+1)·(I − 2|u⟩⟨u|)` on **every** state, all `n`;
3. `oracle_step`, `phase_step`, `diffuse_step` on class-uniform states;
4. `class_uniform_iter`, `class_uniform_invariant`;
5. `probNum_grover` – the measured distribution.
-/
namespace QV.Grover
open QV
open QV.Amp (sgn sumBits countBits sumBits_congr sumBits_smul sumBits_add sumBits_zero sumBits_one
  sumBits_single allFalse zeros)

/-! ## 0. `runWave` -/

theorem runWave_append (a b : List AGate) (ψ : Wave) :
    runWave (a ++ b) ψ = runWave b (runWave a ψ) := by
  simp [runWave, List.foldl_append]

theorem runWave_cons (g : AGate) (gs : List AGate) (ψ : Wave) :
    runWave (g :: gs) ψ = runWave gs (applyWave g ψ) := rfl

theorem runWave_nil (ψ : Wave) : runWave [] ψ = ψ := rfl

theorem applyWave_gH (i : Nat) (ψ : Wave) (s : BState) :
    applyWave (gH i) ψ s = ψ (s.set i false) + sgn (s.getD i false) * ψ (s.set i true) := by
  simp [applyWave, gH, GClass.isMCXLike, isZLike, sgn]

theorem applyWave_gX (i : Nat) (ψ : Wave) (s : BState) :
    applyWave (gX i) ψ s = ψ (s.flip i) := by
  simp [applyWave, gX, GClass.isMCXLike, AGate.applyClassical]

theorem applyWave_gMCZ (ctrls : List Nat) (t : Nat) (ψ : Wave) (s : BState) :
    applyWave (gMCZ ctrls t) ψ s
      = if (ctrls ++ [t]).all (fun c => s.getD c false) then - ψ s else ψ s := by
  simp [applyWave, gMCZ, GClass.isMCXLike, isZLike]

/-! ## 1. A layer of one-qubit integer matrices on qubits `0..n-1` -/

/-- the one-qubit matrix `m` (row = output bit, column = input bit) on qubit `i` -/
def app1 (m : Bool → Bool → Int) (i : Nat) (ψ : Wave) : Wave := fun s =>
  m (s.getD i false) false * ψ (s.set i false) + m (s.getD i false) true * ψ (s.set i true)

def layerM (m : Bool → Bool → Int) : Nat → Wave → Wave
  | 0, ψ => ψ
  | n + 1, ψ => app1 m n (layerM m n ψ)

/-- matrix element of `m ⊗ … ⊗ m` -/
def kron (m : Bool → Bool → Int) : List Bool → List Bool → Int
  | b :: y, c :: x => m b c * kron m y x
  | _, _ => 1

theorem layerM_cons (m : Bool → Bool → Int) (n : Nat) : ∀ (ψ : Wave) (b : Bool) (t : List Bool),
    layerM m (n + 1) ψ (b :: t) =
      m b false * layerM m n (fun t' => ψ (false :: t')) t
        + m b true * layerM m n (fun t' => ψ (true :: t')) t := by
  induction n with
  | zero => intro ψ b t; simp [layerM, app1]
  | succ n ih =>
    intro ψ b t
    show app1 m (n + 1) (layerM m (n + 1) ψ) (b :: t) = _
    show _ = m b false * app1 m n (layerM m n _) t + m b true * app1 m n (layerM m n _) t
    unfold app1
    simp only [List.set_cons_succ, List.getD_cons_succ, ih]
    ring

/-- **Layer lemma** (generalises `hadamard_layer`): after the matrix `m` on each of the qubits
`0..n-1` the amplitude at `y ++ r` is `Σ_x (m ⊗ … ⊗ m)(y, x) · ψ(x ++ r)`, for every state. -/
theorem layerM_sum (m : Bool → Bool → Int) (n : Nat) : ∀ (ψ : Wave) (y r : List Bool),
    y.length = n →
    layerM m n ψ (y ++ r) = sumBits n (fun x => kron m y x * ψ (x ++ r)) := by
  induction n with
  | zero =>
    intro ψ y r h
    have : y = [] := List.length_eq_zero_iff.mp h
    subst this; simp [layerM, sumBits, kron]
  | succ n ih =>
    intro ψ y r h
    cases y with
    | nil => simp at h
    | cons b y' =>
      simp only [List.length_cons, Nat.add_right_cancel_iff] at h
      rw [List.cons_append, layerM_cons, ih _ y' r h, ih _ y' r h]
      simp only [sumBits, kron, List.cons_append]
      rw [← sumBits_smul, ← sumBits_smul]
      congr 1 <;> (apply sumBits_congr; intro x _; ring)

theorem sumBits_lin (n : Nat) (K P Q : List Bool → Int) (α β γ : Int) :
    sumBits n (fun y => α * K y * (β * P y + γ * Q y))
      = α * β * sumBits n (fun y => K y * P y) + α * γ * sumBits n (fun y => K y * Q y) := by
  rw [← sumBits_smul, ← sumBits_smul, ← sumBits_add]
  apply sumBits_congr; intro y _; ring

/-- two layers whose one-qubit matrices multiply to `2·I` compose to `2^n·I` -/
theorem kron_comp (m1 m2 : Bool → Bool → Int)
    (hm : ∀ c a, m2 c false * m1 false a + m2 c true * m1 true a = if c = a then 2 else 0)
    (n : Nat) : ∀ (g : List Bool → Int) (z : List Bool), z.length = n →
    sumBits n (fun y => kron m2 z y * sumBits n (fun x => kron m1 y x * g x)) = 2 ^ n * g z := by
  induction n with
  | zero =>
    intro g z h
    have : z = [] := List.length_eq_zero_iff.mp h
    subst this; simp [sumBits, kron]
  | succ n ih =>
    intro g z h
    cases z with
    | nil => simp at h
    | cons c z' =>
      simp only [List.length_cons, Nat.add_right_cancel_iff] at h
      have inner : ∀ (b a : Bool) (y' : List Bool),
          sumBits n (fun x' => kron m1 (b :: y') (a :: x') * g (a :: x'))
            = m1 b a * sumBits n (fun x' => kron m1 y' x' * g (a :: x')) := by
        intro b a y'
        rw [← sumBits_smul]
        apply sumBits_congr; intro x _; simp only [kron]; ring
      simp only [sumBits]
      simp only [inner]
      simp only [kron]
      rw [sumBits_lin n (fun y => kron m2 z' y), sumBits_lin n (fun y => kron m2 z' y)]
      rw [ih (fun x => g (false :: x)) z' h, ih (fun x => g (true :: x)) z' h]
      have h00 := hm c false
      have h01 := hm c true
      cases c
      · simp only [if_true] at h00
        simp only [Bool.false_eq_true, if_false] at h01
        calc _ = (m2 false false * m1 false false + m2 false true * m1 true false) * (2 ^ n * g (false :: z'))
              + (m2 false false * m1 false true + m2 false true * m1 true true) * (2 ^ n * g (true :: z')) := by ring
          _ = _ := by rw [h00, h01]; ring
      · simp only [Bool.true_eq_false, if_false] at h00
        simp only [if_true] at h01
        calc _ = (m2 true false * m1 false false + m2 true true * m1 true false) * (2 ^ n * g (false :: z'))
              + (m2 true false * m1 false true + m2 true true * m1 true true) * (2 ^ n * g (true :: z')) := by ring
          _ = _ := by rw [h00, h01]; ring

/-! ## 2. The three layers used by `Grover.__init__` -/

/-- `H` -/
def hM (b c : Bool) : Int := sgn (b && c)
/-- `H` then `X` (`for i: h(i); x(i)`) -/
def hxM (b c : Bool) : Int := sgn (!b && c)
/-- `X` then `H` -/
def xhM (b c : Bool) : Int := sgn (b && !c)

theorem xh_hx (c a : Bool) :
    xhM c false * hxM false a + xhM c true * hxM true a = if c = a then 2 else 0 := by
  cases c <;> cases a <;> simp [xhM, hxM, sgn]

theorem flip_set_same (s : BState) (i : Nat) (v : Bool) : (s.flip i).set i v = s.set i v := by
  apply List.ext_getElem?
  intro j
  simp only [BState.flip, List.getElem?_set, List.getElem?_modify, List.length_modify]
  by_cases h : i = j
  · subst h; simp
  · simp [h]

theorem flip_getD_same (s : BState) (i : Nat) (h : i < s.length) :
    (s.flip i).getD i false = !(s.getD i false) := by
  simp [BState.flip, List.getD_eq_getElem?_getD, h]

theorem h_step (i : Nat) (ψ : Wave) : applyWave (gH i) ψ = app1 hM i ψ := by
  funext s
  rw [applyWave_gH]; unfold app1
  cases s.getD i false <;> simp [hM, sgn]

theorem xh_step (i : Nat) (ψ : Wave) : applyWave (gH i) (applyWave (gX i) ψ) = app1 xhM i ψ := by
  funext s
  rw [applyWave_gH, applyWave_gX, applyWave_gX, Amp.flip_set, Amp.flip_set]; unfold app1
  cases s.getD i false <;> simp [xhM, sgn] <;> ring

theorem hx_step (i : Nat) (ψ : Wave) (s : BState) (h : i < s.length) :
    applyWave (gX i) (applyWave (gH i) ψ) s = app1 hxM i ψ s := by
  rw [applyWave_gX, applyWave_gH, flip_set_same, flip_set_same, flip_getD_same s i h]; unfold app1
  cases s.getD i false <;> simp [hxM, sgn]

theorem run_hLayer (n : Nat) (ψ : Wave) : runWave (hLayer n) ψ = layerM hM n ψ := by
  induction n with
  | zero => rfl
  | succ n ih =>
    simp only [hLayer, List.range_succ, List.map_append, List.map_cons, List.map_nil] at *
    rw [runWave_append, ih, runWave_cons, runWave_nil, h_step]
    rfl

theorem run_xhLayer (n : Nat) (ψ : Wave) :
    runWave ((List.range n).flatMap (fun i => [gX i, gH i])) ψ = layerM xhM n ψ := by
  induction n with
  | zero => rfl
  | succ n ih =>
    simp only [List.range_succ, List.flatMap_append, List.flatMap_cons, List.flatMap_nil,
      List.append_nil] at *
    rw [runWave_append, ih, runWave_cons, runWave_cons, runWave_nil, xh_step]
    rfl

theorem run_hxLayer (n : Nat) (ψ : Wave) : ∀ (s : BState), n ≤ s.length →
    runWave ((List.range n).flatMap (fun i => [gH i, gX i])) ψ s = layerM hxM n ψ s := by
  induction n with
  | zero => intro s _; rfl
  | succ n ih =>
    intro s hs
    simp only [List.range_succ, List.flatMap_append, List.flatMap_cons, List.flatMap_nil,
      List.append_nil] at *
    rw [runWave_append, runWave_cons, runWave_cons, runWave_nil, hx_step _ _ _ (by omega)]
    show _ = app1 hxM n (layerM hxM n ψ) s
    unfold app1
    rw [ih (s.set n false) (by simp; omega), ih (s.set n true) (by simp; omega)]

theorem kron_hxM_ones : ∀ (n : Nat) (x : List Bool), kron hxM (List.replicate n true) x = 1
  | 0, x => by simp [kron]
  | n + 1, [] => by simp [kron, List.replicate_succ]
  | n + 1, a :: x => by
    simp [kron, List.replicate_succ, hxM, sgn, kron_hxM_ones n x]

theorem kron_xhM_ones : ∀ (n : Nat) (z : List Bool), kron xhM z (List.replicate n true) = 1
  | 0, z => by cases z <;> simp [kron]
  | n + 1, [] => by simp [kron]
  | n + 1, a :: z => by
    simp [kron, List.replicate_succ, xhM, sgn, kron_xhM_ones n z]

theorem kron_hM_zeros : ∀ (n : Nat) (y : List Bool), kron hM y (List.replicate n false) = 1
  | 0, y => by cases y <;> simp [kron]
  | n + 1, [] => by simp [kron]
  | n + 1, a :: y => by
    simp [kron, List.replicate_succ, hM, sgn, kron_hM_zeros n y]

/-! ### the last qubit of `l ++ [b]` -/

theorem set_last (l : List Bool) (b v : Bool) : (l ++ [b]).set l.length v = l ++ [v] := by
  simp

theorem getD_last (l : List Bool) (b : Bool) : (l ++ [b]).getD l.length false = b := by
  simp [List.getD_eq_getElem?_getD]

theorem flip_last (l : List Bool) (b : Bool) : BState.flip (l ++ [b]) l.length = l ++ [!b] := by
  have := Amp.flip_append_right l [b] 0
  simpa [BState.flip] using this

theorem all_range_getD (n : Nat) (y r : List Bool) (hy : y.length = n) :
    (List.range n).all (fun c => (y ++ r).getD c false) = decide (y = List.replicate n true) := by
  rw [Bool.eq_iff_iff]
  simp only [List.all_eq_true, List.mem_range, decide_eq_true_eq]
  constructor
  · intro H
    rw [List.eq_replicate_iff]
    refine ⟨hy, ?_⟩
    intro b hb
    obtain ⟨i, hi, rfl⟩ := List.mem_iff_getElem.mp hb
    have := H i (by omega)
    simpa [List.getD_eq_getElem?_getD, List.getElem?_append_left, hi] using this
  · intro H c hc
    subst H
    simp [List.getD_eq_getElem?_getD, List.getElem?_append_left, hc]

/-! ## 3. The diffuser is a reflection, for every `n` and every state -/

/-- **Diffuser lemma.**  `diffuser n p` (`H X` on the `n` search qubits and on the phase qubit
`p = n + m`, `MCtrl(Z)` search → phase, `X H` again) maps **every** integer wave `ψ` to
`2^(n+1)·(I − 2|u⟩⟨u|) ψ`, `|u⟩` = the uniform state of search register ⊗ phase qubit; the `m`
qubits in between are untouched.  (`2^(n+1)` is the model's global scaling: `2(n+1)` `H` gates.) -/
theorem diffuser_reflection (n m : Nat) (ψ : Wave) (z mid : List Bool) (b : Bool)
    (hz : z.length = n) (hm : mid.length = m) :
    runWave (diffuser n (n + m)) ψ (z ++ mid ++ [b])
      = 2 ^ (n + 1) * ψ (z ++ mid ++ [b])
        - 2 * sumBits n (fun x => ψ (x ++ mid ++ [false]) + ψ (x ++ mid ++ [true])) := by
  have hp : ∀ y : List Bool, y.length = n → (y ++ mid).length = n + m := by
    intro y hy; simp [hy, hm]
  unfold diffuser
  simp only [runWave_append, runWave_cons, runWave_nil, run_xhLayer]
  -- A: `H X` layer on the search register
  have hA : ∀ (y : List Bool) (c : Bool), y.length = n →
      runWave ((List.range n).flatMap (fun i => [gH i, gX i])) ψ (y ++ mid ++ [c])
        = sumBits n (fun x => kron hxM y x * ψ (x ++ mid ++ [c])) := by
    intro y c hy
    rw [run_hxLayer n ψ _ (by simp [hy]), List.append_assoc, layerM_sum hxM n ψ y _ hy]
    simp only [List.append_assoc]
  generalize runWave ((List.range n).flatMap (fun i => [gH i, gX i])) ψ = φA at hA
  -- B: `H X` on the phase qubit
  have hB : ∀ (y : List Bool) (c : Bool), y.length = n →
      applyWave (gX (n + m)) (applyWave (gH (n + m)) φA) (y ++ mid ++ [c])
        = φA (y ++ mid ++ [false]) + sgn (!c) * φA (y ++ mid ++ [true]) := by
    intro y c hy
    rw [applyWave_gX, applyWave_gH, ← hp y hy, flip_last, set_last, set_last, getD_last]
  generalize applyWave (gX (n + m)) (applyWave (gH (n + m)) φA) = φB at hB
  -- C: `MCtrl(Z)`
  have hC : ∀ (y : List Bool) (c : Bool), y.length = n →
      applyWave (gMCZ (List.range n) (n + m)) φB (y ++ mid ++ [c])
        = if (y = List.replicate n true ∧ c = true) then - φB (y ++ mid ++ [c])
          else φB (y ++ mid ++ [c]) := by
    intro y c hy
    rw [applyWave_gMCZ]
    have : ((List.range n ++ [n + m]).all fun k => (y ++ mid ++ [c]).getD k false)
        = (decide (y = List.replicate n true) && c) := by
      rw [List.all_append, List.append_assoc, all_range_getD n y _ hy, ← List.append_assoc]
      simp only [List.all_cons, List.all_nil, Bool.and_true]
      rw [← hp y hy, getD_last]
    rw [this]
    by_cases h1 : y = List.replicate n true <;> cases c <;> simp [h1]
  generalize applyWave (gMCZ (List.range n) (n + m)) φB = φC at hC
  -- D: `X H` layer on the search register
  have hD : ∀ (z : List Bool) (c : Bool), z.length = n →
      layerM xhM n φC (z ++ mid ++ [c])
        = sumBits n (fun y => kron xhM z y * φC (y ++ mid ++ [c])) := by
    intro z c hz
    rw [List.append_assoc, layerM_sum xhM n φC z _ hz]
    simp only [List.append_assoc]
  generalize layerM xhM n φC = φD at hD
  -- E: `X H` on the phase qubit
  rw [applyWave_gH, applyWave_gX, applyWave_gX, ← hp z hz, set_last, set_last, flip_last,
    flip_last, getD_last]
  simp only [Bool.not_false, Bool.not_true]
  rw [hD z true hz, hD z false hz]
  -- the `false` branch
  have e0 : sumBits n (fun y => kron xhM z y * φC (y ++ mid ++ [false]))
      = 2 ^ n * (ψ (z ++ mid ++ [false]) - ψ (z ++ mid ++ [true])) := by
    rw [← kron_comp hxM xhM xh_hx n (fun x => ψ (x ++ mid ++ [false]) - ψ (x ++ mid ++ [true])) z hz]
    apply sumBits_congr; intro y hy
    rw [hC y false hy, if_neg (by simp), hB y false hy, hA y false hy, hA y true hy]
    simp only [Bool.not_false, sgn, if_true]
    rw [← sumBits_smul, ← sumBits_add]
    congr 1
    apply sumBits_congr; intro x _; ring
  -- the `true` branch
  have e1 : sumBits n (fun y => kron xhM z y * φC (y ++ mid ++ [true]))
      = 2 ^ n * (ψ (z ++ mid ++ [false]) + ψ (z ++ mid ++ [true]))
        - 2 * sumBits n (fun x => ψ (x ++ mid ++ [false]) + ψ (x ++ mid ++ [true])) := by
    have hS : ∀ y : List Bool, y.length = n → φB (y ++ mid ++ [true])
        = sumBits n (fun x => kron hxM y x * (ψ (x ++ mid ++ [false]) + ψ (x ++ mid ++ [true]))) := by
      intro y hy
      rw [hB y true hy, hA y false hy, hA y true hy]
      simp only [Bool.not_true, sgn, Bool.false_eq_true, if_false, Int.one_mul]
      rw [← sumBits_add]
      apply sumBits_congr; intro x _; ring
    have hones : (List.replicate n true).length = n := by simp
    rw [sumBits_congr n _ (fun y => kron xhM z y * φB (y ++ mid ++ [true])
        + (-2) * (if y = List.replicate n true then kron xhM z y * φB (y ++ mid ++ [true]) else 0))
      (fun y hy => by
        rw [hC y true hy]
        by_cases h1 : y = List.replicate n true
        · simp [h1]; ring
        · simp [h1])]
    rw [sumBits_add, sumBits_smul,
      sumBits_single n (List.replicate n true) (fun y => kron xhM z y * φB (y ++ mid ++ [true])) hones,
      kron_xhM_ones, hS _ hones]
    rw [sumBits_congr n (fun y => kron xhM z y * φB (y ++ mid ++ [true]))
      (fun y => kron xhM z y * sumBits n (fun x => kron hxM y x *
        (ψ (x ++ mid ++ [false]) + ψ (x ++ mid ++ [true])))) (fun y hy => by rw [hS y hy])]
    rw [kron_comp hxM xhM xh_hx n (fun x => ψ (x ++ mid ++ [false]) + ψ (x ++ mid ++ [true])) z hz]
    simp only [kron_hxM_ones, Int.one_mul]
    ring
  rw [e0, e1, pow_succ]
  cases b <;> simp [sgn] <;> ring

/-! ## 4. The oracle: a clean xor-oracle permutes the clean basis states -/

theorem applyWave_classical (g : AGate) (h : (g.cls.isMCXLike || g.cls.isNop) = true) (ψ : Wave) :
    applyWave g ψ = Amp.applyGate g ψ := by
  unfold applyWave Amp.applyGate
  by_cases hm : g.cls.isMCXLike = true
  · simp [hm]
  · cases hc : g.cls <;> simp_all [GClass.isNop, GClass.isMCXLike, isZLike]

/-- on classical gate lists the amplitude semantics of `Model/Grover.lean` and of `Model/Amp.lean`
(C16) are the same function -/
theorem runWave_classical : ∀ (gs : List AGate), allClassical gs = true → ∀ ψ : Wave,
    runWave gs ψ = Amp.run gs ψ
  | [], _, ψ => rfl
  | g :: gs, h, ψ => by
    simp only [allClassical, List.all_cons, Bool.and_eq_true] at h
    rw [runWave_cons, Amp.run_cons, applyWave_classical g h.1, runWave_classical gs h.2]

theorem wf_of_classical (og : List AGate) (h1 : allClassical og = true)
    (h2 : ∀ g ∈ og, g.wires.Nodup) : Amp.wfOracle og = true := by
  simp only [Amp.wfOracle, List.all_eq_true]
  intro g hg
  have h := (List.all_eq_true.mp h1) g hg
  simp only [Bool.or_eq_true] at h
  simp only [Amp.wfGate, Bool.or_eq_true, Bool.and_eq_true, decide_eq_true_eq]
  rcases h with h | h
  · exact Or.inl ⟨h, h2 g hg⟩
  · exact Or.inr h

theorem flip_append_left (s t : BState) (i : Nat) (h : i < s.length) :
    BState.flip (s ++ t) i = BState.flip s i ++ t := by
  apply List.ext_getElem?
  intro j
  simp only [BState.flip, List.getElem?_modify]
  by_cases hj : j < s.length
  · rw [List.getElem?_append_left hj, List.getElem?_append_left (by simpa using hj),
      List.getElem?_modify]
  · have hj' : s.length ≤ j := by omega
    rw [List.getElem?_append_right hj', List.getElem?_append_right (by simpa using hj')]
    have : ¬ i = j := by omega
    simp [this]

theorem applyClassical_append (g : AGate) (s t : BState) (hw : ∀ w ∈ g.wires, w < s.length) :
    g.applyClassical (s ++ t) = g.applyClassical s ++ t := by
  unfold AGate.applyClassical
  cases hl : g.wires.getLast? with
  | none => rfl
  | some tg =>
    have htg : tg < s.length := hw tg (List.mem_of_getLast? hl)
    have hall : (g.wires.dropLast.all fun c => (s ++ t).getD c false)
        = g.wires.dropLast.all fun c => s.getD c false := by
      rw [Bool.eq_iff_iff]
      simp only [List.all_eq_true]
      have hc : ∀ c ∈ g.wires.dropLast, (s ++ t).getD c false = s.getD c false := by
        intro c hc
        have := hw c (List.dropLast_subset _ hc)
        simp [List.getD_eq_getElem?_getD, List.getElem?_append_left this]
      constructor
      · intro H c hcm; rw [← hc c hcm]; exact H c hcm
      · intro H c hcm; rw [hc c hcm]; exact H c hcm
    simp only [hall]
    split
    · exact flip_append_left s t tg htg
    · rfl

theorem runClassical_append : ∀ (gs : List AGate) (s t : BState),
    (∀ g ∈ gs, ∀ w ∈ g.wires, w < s.length) →
    runClassical gs (s ++ t) = runClassical gs s ++ t
  | [], _, _, _ => rfl
  | g :: gs, s, t, hw => by
    have hg := hw g (by simp)
    have hgs : ∀ g' ∈ gs, ∀ w ∈ g'.wires, w < s.length := fun g' h => hw g' (by simp [h])
    simp only [runClassical, List.foldl_cons]
    by_cases hm : g.cls.isMCXLike = true
    · simp only [hm, if_true]
      rw [applyClassical_append g s t hg]
      exact runClassical_append gs _ t (by rw [Amp.applyClassical_length]; exact hgs)
    · simp only [hm]
      exact runClassical_append gs s t hgs

theorem oracleState_eq (n nq ret : Nat) (x : BState) (r : Bool) (hx : x.length = n)
    (h1 : n ≤ ret) : oracleState nq ret x r = x ++ Amp.embed (nq - n) (ret - n) r := by
  unfold oracleState Amp.embed Amp.zeros
  rw [List.set_append, if_neg (by omega), hx]

/-- what the proofs use of a clean xor-oracle: search register `x` (qubits `0..n-1`), `m` oracle
qubits of which number `k` is `_ret` and the others are scratch, then the phase qubit -/
structure OracleSpec (og : List AGate) (n m k : Nat) (f : BState → Bool) : Prop where
  wf : Amp.wfOracle og = true
  cl : allClassical og = true
  km : k < m
  act : ∀ (x : BState) (r pb : Bool), x.length = n →
    runClassical og (x ++ Amp.embed m k r ++ [pb]) = x ++ Amp.embed m k (xor r (f x)) ++ [pb]

theorem oracleSpec_of_clean (n nq ret : Nat) (og : List AGate) (f : BState → Bool)
    (h : CleanXorOracle n nq ret og f) : OracleSpec og n (nq - n) (ret - n) f := by
  obtain ⟨h1, h2, h3, h4, h5, h6⟩ := h
  refine ⟨wf_of_classical og h3 h5, h3, by omega, ?_⟩
  intro x r pb hx
  rw [runClassical_append og _ [pb] (by
    intro g hg w hw'
    have := h4 g hg w hw'
    simp [hx, Amp.embed_length]; omega)]
  have := h6 x hx r
  rw [oracleState_eq n nq ret x r hx h1, oracleState_eq n nq ret x _ hx h1] at this
  rw [this]

/-! ## 5. Class-uniform states and the three steps of one iteration -/

/-- amplitude (numerator) at `_ret = r`, phase qubit `= pb` of a class with sector numerators
`A` (phase qubit written in the basis |±⟩) -/
def ampOf (A : Amp) (r pb : Bool) : Int :=
  (if r then A.op else A.zp) + sgn pb * (if r then A.om else A.zm)

def classOf (f : BState → Bool) (R : RState) (x : BState) : Amp := if f x then R.sol else R.non

/-- `ψ` is supported on clean basis states (scratch qubits 0) and there equals `c ·` the
reduced state `R`: uniform on solutions and on non-solutions in each (`_ret`, ±) sector -/
def ClassUniform (n m k : Nat) (f : BState → Bool) (c : Int) (R : RState) (ψ : Wave) : Prop :=
  ∀ (x mid : List Bool) (pb : Bool), x.length = n → mid.length = m →
    ψ (x ++ mid ++ [pb]) =
      if allFalse (mid.set k false) then c * ampOf (classOf f R x) (mid.getD k false) pb else 0

theorem split3 (n m : Nat) (t : List Bool) (h : t.length = n + m + 1) :
    ∃ (x mid : List Bool) (pb : Bool), t = x ++ mid ++ [pb] ∧ x.length = n ∧ mid.length = m := by
  have hne : t.drop n ≠ [] := by
    intro e
    have := congrArg List.length e
    simp at this; omega
  refine ⟨t.take n, (t.drop n).dropLast, (t.drop n).getLast hne, ?_, by simp; omega, by simp; omega⟩
  rw [List.append_assoc, List.dropLast_concat_getLast, List.take_append_drop]

/-- **Oracle step**: the compiled oracle swaps the `_ret = 0/1` sectors on solutions only -/
theorem oracle_step (og : List AGate) (n m k : Nat) (f : BState → Bool) (c : Int) (R : RState)
    (ψ : Wave) (hO : OracleSpec og n m k f) (hψ : ClassUniform n m k f c R ψ) :
    ClassUniform n m k f c (oracleStep R) (runWave og ψ) := by
  intro x mid pb hx hmid
  rw [runWave_classical og hO.cl, Amp.run_oracle og hO.wf]
  have hamp : ∀ r : Bool, ampOf (classOf f (oracleStep R) x) r pb
      = ampOf (classOf f R x) (xor r (f x)) pb := by
    intro r
    unfold classOf oracleStep ampOf
    cases f x <;> cases r <;> simp
  by_cases hA : allFalse (mid.set k false) = true
  · simp only [hA, if_true]
    have hrest := Amp.rest_eq_embed mid m k hmid hO.km hA
    generalize mid.getD k false = r at hrest
    have h1 := hO.act x (xor r (f x)) pb hx
    have h2 : xor (xor r (f x)) (f x) = r := by cases r <;> cases f x <;> rfl
    rw [h2, ← hrest] at h1
    rw [← h1, Amp.back_fwd og hO.wf, hψ x _ pb hx (Amp.embed_length m k _), Amp.embed_set_false,
      Amp.allFalse_zeros, Amp.embed_getD m k _ hO.km, hamp]
    simp
  · simp only [hA]
    have hlen : (Amp.back og (x ++ mid ++ [pb])).length = n + m + 1 := by
      simp [Amp.back_length, hx, hmid, Nat.add_assoc]
    obtain ⟨x', mid', pb', hb, hx', hm'⟩ := split3 n m _ hlen
    rw [hb, hψ x' mid' pb' hx' hm']
    by_cases hB : allFalse (mid'.set k false) = true
    · exfalso
      have hrest' := Amp.rest_eq_embed mid' m k hm' hO.km hB
      have h1 := hO.act x' (mid'.getD k false) pb' hx'
      rw [← hrest', ← hb, Amp.fwd_back og hO.wf] at h1
      have h3 := List.append_inj (List.append_inj h1 (by simp [hx, hmid, hx', Amp.embed_length])).1
        (by rw [hx, hx'])
      apply hA
      rw [h3.2, Amp.embed_set_false, Amp.allFalse_zeros]
    · simp [hB]

theorem getD_mid (x mid : List Bool) (pb : Bool) (k : Nat) (hk : k < mid.length) :
    (x ++ mid ++ [pb]).getD (x.length + k) false = mid.getD k false := by
  rw [List.append_assoc, Amp.getD_append_right']
  simp [List.getD_eq_getElem?_getD, List.getElem?_append_left hk]

/-- **Kick-back step**: `MCtrl(Z)` from `_ret` (qubit `n + k`) onto the phase qubit (`n + m`)
swaps |+⟩ and |−⟩ where `_ret = 1` -/
theorem phase_step (n m k : Nat) (f : BState → Bool) (c : Int) (R : RState) (ψ : Wave)
    (hk : k < m) (hψ : ClassUniform n m k f c R ψ) :
    ClassUniform n m k f c (phaseStep R) (applyWave (gMCZ [n + k] (n + m)) ψ) := by
  intro x mid pb hx hmid
  rw [applyWave_gMCZ]
  have hcond : (([n + k] ++ [n + m]).all fun c => (x ++ mid ++ [pb]).getD c false)
      = (mid.getD k false && pb) := by
    simp only [List.cons_append, List.nil_append, List.all_cons, List.all_nil, Bool.and_true]
    rw [← hx, getD_mid x mid pb k (by omega)]
    have : x.length + m = (x ++ mid).length := by simp [hmid]
    rw [this, getD_last]
  rw [hcond, hψ x mid pb hx hmid]
  by_cases hA : allFalse (mid.set k false) = true
  · simp only [hA, if_true]
    unfold classOf phaseStep ampOf
    cases f x <;> cases mid.getD k false <;> cases pb <;>
      simp only [sgn, Bool.and_self, Bool.and_true, Bool.and_false, Bool.false_eq_true,
        ↓reduceIte] <;> ring
  · simp [hA]

theorem sumBits_ite (n : Nat) : ∀ (f : List Bool → Bool) (a b : Int),
    sumBits n (fun x => if f x then a else b)
      = (countBits n f : Int) * a + (2 ^ n - (countBits n f : Int)) * b := by
  induction n with
  | zero => intro f a b; cases h : f [] <;> simp [sumBits, countBits, h]
  | succ n ih =>
    intro f a b
    simp only [sumBits, countBits]
    rw [ih, ih]
    push_cast
    ring

/-- **Diffuser step** on class-uniform states: on the two `+` sectors subtract twice the mean -/
theorem diffuse_step (n m k : Nat) (f : BState → Bool) (c : Int) (R : RState) (ψ : Wave)
    (hψ : ClassUniform n m k f c R ψ) :
    ClassUniform n m k f (2 * c) (diffuseStep (2 ^ n) (countBits n f) R)
      (runWave (diffuser n (n + m)) ψ) := by
  intro z mid pb hz hmid
  rw [diffuser_reflection n m ψ z mid pb hz hmid, hψ z mid pb hz hmid]
  by_cases hA : allFalse (mid.set k false) = true
  · simp only [hA, if_true]
    rw [sumBits_congr n _ (fun x => if f x
          then 2 * c * (if mid.getD k false then R.sol.op else R.sol.zp)
          else 2 * c * (if mid.getD k false then R.non.op else R.non.zp))
      (fun x hx' => by
        rw [hψ x mid false hx' hmid, hψ x mid true hx' hmid]
        simp only [hA, if_true]
        unfold classOf ampOf
        cases f x <;> cases mid.getD k false <;>
          simp only [sgn, Bool.false_eq_true, ↓reduceIte] <;> ring)]
    rw [sumBits_ite]
    unfold classOf diffuseStep ampOf
    cases f z <;> cases mid.getD k false <;> cases pb <;>
      simp only [sgn, Bool.false_eq_true, ↓reduceIte] <;> ring
  · simp only [hA]
    rw [sumBits_congr n _ (fun _ => 0) (fun x hx' => by
      rw [hψ x mid false hx' hmid, hψ x mid true hx' hmid]; simp [hA]), sumBits_zero]
    simp

/-- one Grover iteration (`oracle_qc + diffuser_qc`) is one step of the reduced recurrence;
the integer wave picks up the factor 2 (`2(n+1)` more `H` gates) -/
theorem iteration_step (og : List AGate) (n m k : Nat) (f : BState → Bool) (c : Int) (R : RState)
    (ψ : Wave) (hO : OracleSpec og n m k f) (hψ : ClassUniform n m k f c R ψ) :
    ClassUniform n m k f (2 * c) (rstep (2 ^ n) (countBits n f) R)
      (runWave (iteration n og (n + m) (n + k)) ψ) := by
  unfold iteration oracleWithPhase rstep
  rw [runWave_append, runWave_append, runWave_cons, runWave_nil]
  exact diffuse_step n m k f c _ _ (phase_step n m k f c _ _ hO.km (oracle_step og n m k f c R ψ hO hψ))

theorem class_uniform_iter (og : List AGate) (n m k : Nat) (f : BState → Bool)
    (hO : OracleSpec og n m k f) : ∀ (j : Nat) (c : Int) (R : RState) (ψ : Wave),
    ClassUniform n m k f c R ψ →
    ClassUniform n m k f (2 ^ j * c) (riter (2 ^ n) (countBits n f) j R)
      (runWave (repeatGates (iteration n og (n + m) (n + k)) j) ψ)
  | 0, c, R, ψ, h => by simpa [riter, repeatGates, runWave_nil] using h
  | j + 1, c, R, ψ, h => by
    rw [repeatGates, runWave_append, riter]
    have := class_uniform_iter og n m k f hO j (2 * c) _ _ (iteration_step og n m k f c R ψ hO h)
    have e : (2 : Int) ^ (j + 1) * c = 2 ^ j * (2 * c) := by ring
    rw [e]; exact this

/-! ### the state after the two initial `H` layers -/

theorem zeroWave_eq : zeroWave = Amp.ket0 := rfl

theorem sum_zeroWave (n : Nat) : ∀ (y r : List Bool),
    sumBits n (fun x => kron hM y x * zeroWave (x ++ r)) = zeroWave r := by
  induction n with
  | zero => intro y r; simp [sumBits, kron]
  | succ n ih =>
    intro y r
    simp only [sumBits]
    have h1 : ∀ t : List Bool, zeroWave (true :: t ++ r) = 0 := by intro t; simp [zeroWave]
    have h0 : ∀ t : List Bool, zeroWave (false :: t ++ r) = zeroWave (t ++ r) := by
      intro t; simp [zeroWave]
    simp only [h1, h0, Int.mul_zero, sumBits_zero, Int.add_zero]
    cases y with
    | nil => simpa [kron] using ih [] r
    | cons b y' => simpa [kron, hM, sgn] using ih y' r

theorem allFalse_split : ∀ (mid : List Bool) (k : Nat), k < mid.length →
    allFalse mid = (allFalse (mid.set k false) && !(mid.getD k false))
  | [], _, h => by simp at h
  | a :: t, 0, _ => by cases a <;> simp [allFalse]
  | a :: t, k + 1, h => by
    have := allFalse_split t k (by simpa using h)
    simp only [allFalse] at this
    simp only [allFalse, List.set_cons_succ, List.all_cons, List.getD_cons_succ, this]
    cases a <;> simp

theorem init_uniform (n m k : Nat) (f : BState → Bool) (hk : k < m) :
    ClassUniform n m k f 1 RState.init (runWave (hLayer n ++ [gH (n + m)]) zeroWave) := by
  intro x mid pb hx hmid
  have hl : n + m = (x ++ mid).length := by simp [hx, hmid]
  rw [runWave_append, runWave_cons, runWave_nil, run_hLayer, applyWave_gH, hl, set_last,
    set_last, getD_last, List.append_assoc, List.append_assoc,
    layerM_sum hM n _ x _ hx, layerM_sum hM n _ x _ hx, sum_zeroWave, sum_zeroWave]
  have h1 : zeroWave (mid ++ [true]) = 0 := by simp [zeroWave]
  have h0 : zeroWave (mid ++ [false]) = if allFalse mid then 1 else 0 := by
    simp [zeroWave, allFalse]
  rw [h1, h0, allFalse_split mid k (by omega)]
  unfold classOf ampOf RState.init
  cases allFalse (mid.set k false) <;> cases mid.getD k false <;> simp

/-- **`class_uniform_invariant`**: for every `n`, every predicate `f`, every clean xor-oracle
`og` of `f` and every number `j` of iterations, the state of the Grover gate list is supported
on clean basis states and is `2^j ·` the reduced state `riter N M j init`, `M = #{x | f x}` –
uniform on solutions and on non-solutions in each (`_ret`, ±) sector. -/
theorem class_uniform_invariant (n nq ret : Nat) (og : List AGate) (f : BState → Bool)
    (h : CleanXorOracle n nq ret og f) (j : Nat) :
    ClassUniform n (nq - n) (ret - n) f (2 ^ j)
      (riter (2 ^ n) (countBits n f) j RState.init)
      (runWave (hLayer n ++ [gH nq] ++ repeatGates (iteration n og nq ret) j) zeroWave) := by
  have hO := oracleSpec_of_clean n nq ret og f h
  obtain ⟨h1, h2, -⟩ := h
  obtain ⟨m, rfl⟩ : ∃ m, nq = n + m := ⟨nq - n, by omega⟩
  obtain ⟨k, rfl⟩ : ∃ k, ret = n + k := ⟨ret - n, by omega⟩
  simp only [Nat.add_sub_cancel_left] at hO ⊢
  rw [runWave_append]
  have := class_uniform_iter og n m k f hO j 1 _ _ (init_uniform n m k f hO.km)
  simpa using this

/-! ## 6. The measured distribution -/

theorem sum_flatMap_pair (l : List BState) (F : BState → Int) :
    ((l.flatMap fun s => [false :: s, true :: s]).map F).sum
      = (l.map fun s => F (false :: s) + F (true :: s)).sum := by
  induction l with
  | nil => rfl
  | cons a l ih =>
    simp only [List.flatMap_cons, List.map_append, List.sum_append, List.map_cons, List.sum_cons,
      List.map_nil, List.sum_nil, ih]
    ring

theorem allStates_sum (L : Nat) : ∀ F : BState → Int, ((allStates L).map F).sum = sumBits L F := by
  induction L with
  | zero => intro F; simp [allStates, sumBits]
  | succ L ih =>
    intro F
    rw [allStates, sum_flatMap_pair, ih, sumBits_add]
    rfl

theorem filter_flatMap_pair (l : List BState) (f : BState → Bool) :
    ((l.flatMap fun s => [false :: s, true :: s]).filter f).length
      = (l.filter fun s => f (false :: s)).length + (l.filter fun s => f (true :: s)).length := by
  induction l with
  | nil => rfl
  | cons a l ih =>
    simp only [List.flatMap_cons, List.filter_append, List.length_append, ih, List.filter_cons]
    cases f (false :: a) <;> cases f (true :: a) <;> simp <;> omega

/-- the number of solutions, as counted in `C15_statement` and as counted by `countBits` -/
theorem count_allStates (n : Nat) : ∀ f : BState → Bool,
    ((allStates n).filter f).length = countBits n f := by
  induction n with
  | zero => intro f; cases h : f [] <;> simp [allStates, countBits, h]
  | succ n ih =>
    intro f
    rw [allStates, filter_flatMap_pair, ih, ih]
    rfl

theorem sumBits_snoc (m : Nat) : ∀ F : List Bool → Int,
    sumBits (m + 1) F = sumBits m (fun mid => F (mid ++ [false]) + F (mid ++ [true])) := by
  induction m with
  | zero => intro F; simp [sumBits]
  | succ m ih =>
    intro F
    rw [sumBits, ih, ih, sumBits]
    simp only [List.cons_append]

theorem allFalse_cons_false (t : List Bool) : allFalse (false :: t) = allFalse t := rfl
theorem allFalse_cons_true (t : List Bool) : allFalse (true :: t) = false := rfl

theorem sum_allFalse (m : Nat) (v : Int) : sumBits m (fun t => if allFalse t then v else 0) = v := by
  induction m with
  | zero => simp [sumBits, allFalse]
  | succ m ih =>
    simp only [sumBits, allFalse_cons_false, allFalse_cons_true, Bool.false_eq_true, if_false,
      sumBits_zero, Int.add_zero]
    exact ih

theorem sum_clean : ∀ (m k : Nat), k < m → ∀ G : Bool → Int,
    sumBits m (fun mid => if allFalse (mid.set k false) then G (mid.getD k false) else 0)
      = G false + G true
  | 0, _, h, _ => by omega
  | m + 1, 0, _, G => by
    simp only [sumBits, List.set_cons_zero, List.getD_cons_zero, allFalse_cons_false]
    rw [sum_allFalse, sum_allFalse]
  | m + 1, k + 1, h, G => by
    simp only [sumBits, List.set_cons_succ, List.getD_cons_succ, allFalse_cons_false,
      allFalse_cons_true, Bool.false_eq_true, if_false, sumBits_zero, Int.add_zero]
    exact sum_clean m k (by omega) G

/-- probability numerator of reading `x` in a class-uniform state -/
theorem prob_uniform (n m k : Nat) (f : BState → Bool) (c : Int) (R : RState) (ψ : Wave)
    (hk : k < m) (hψ : ClassUniform n m k f c R ψ) (x : BState) (hx : x.length = n) :
    sumBits (m + 1) (fun rest => ψ (x ++ rest) ^ 2) = 2 * c ^ 2 * (classOf f R x).sq := by
  rw [sumBits_snoc]
  have hG := sum_clean m k hk (fun r =>
    (c * ampOf (classOf f R x) r false) ^ 2 + (c * ampOf (classOf f R x) r true) ^ 2)
  refine (sumBits_congr m _ _ (fun mid hmid => ?_)).trans (hG.trans ?_)
  · rw [← List.append_assoc, ← List.append_assoc, hψ x mid false hx hmid, hψ x mid true hx hmid]
    by_cases hA : allFalse (mid.set k false) = true <;> simp [hA]
  · unfold ampOf Amp.sq
    simp only [sgn, Bool.false_eq_true, ↓reduceIte]
    ring

theorem hCount_append (a b : List AGate) : hCount (a ++ b) = hCount a + hCount b := by
  simp [hCount, List.countP_append]

theorem hCount_classical (og : List AGate) (h : allClassical og = true) : hCount og = 0 := by
  simp only [hCount, List.countP_eq_zero]
  intro g hg
  have := (List.all_eq_true.mp h) g hg
  cases hc : g.cls <;> simp_all [GClass.isMCXLike, GClass.isNop]

theorem hCount_hLayer (n : Nat) : hCount (hLayer n) = n := by
  induction n with
  | zero => rfl
  | succ n ih =>
    simp only [hLayer, List.range_succ, List.map_append, List.map_cons, List.map_nil] at *
    rw [hCount_append, ih]; rfl

theorem hCount_hx (n : Nat) : hCount ((List.range n).flatMap fun i => [gH i, gX i]) = n := by
  induction n with
  | zero => rfl
  | succ n ih =>
    simp only [List.range_succ, List.flatMap_append, List.flatMap_cons, List.flatMap_nil,
      List.append_nil] at *
    rw [hCount_append, ih]; rfl

theorem hCount_xh (n : Nat) : hCount ((List.range n).flatMap fun i => [gX i, gH i]) = n := by
  induction n with
  | zero => rfl
  | succ n ih =>
    simp only [List.range_succ, List.flatMap_append, List.flatMap_cons, List.flatMap_nil,
      List.append_nil] at *
    rw [hCount_append, ih]; rfl

theorem hCount_repeat (l : List AGate) : ∀ c, hCount (repeatGates l c) = c * hCount l
  | 0 => by simp [repeatGates, hCount]
  | c + 1 => by rw [repeatGates, hCount_append, hCount_repeat l c]; ring

/-- number of `H` gates of the algorithm circuit (the amplitudes are integers times `2^(-h/2)`) -/
theorem hCount_grover (q : Quirks) (n : Nat) (og : List AGate) (nq ret k : Nat)
    (hcl : allClassical og = true) (hk : 1 ≤ k) :
    hCount (groverGates q n og nq ret k) = n + 1 + k * (2 * n + 2) := by
  have hc : repeatCopies q k = k := by unfold repeatCopies; rw [if_neg (by omega)]
  have hit : hCount (iteration n og nq ret) = 2 * n + 2 := by
    unfold iteration oracleWithPhase diffuser
    simp only [hCount_append, hCount_classical og hcl, hCount_hx, hCount_xh]
    simp [hCount, gMCZ, gH, gX]
    omega
  unfold groverGates
  rw [hCount_append, hCount_append, hCount_hLayer, hCount_repeat, hit, hc]
  rfl

/-- **The distribution of the Grover circuit.**  For every `n`, every predicate `f`, every clean
xor-oracle of `f` and every iteration count `k ≥ 1`: the probability numerator of reading `x`
is `2·4^k ·` the squared reduced amplitudes of the class of `x` – a function of `n`, the number
of solutions, `k` and of whether `f x` holds, and of nothing else. -/
theorem probNum_grover (q : Quirks) (n nq ret : Nat) (og : List AGate) (f : BState → Bool)
    (h : CleanXorOracle n nq ret og f) (k : Nat) (hk : 1 ≤ k) (x : BState) (hx : x.length = n) :
    probNum (groverGates q n og nq ret k) (nq + 1) n x
      = 2 * (2 ^ k) ^ 2 * (classOf f (riter (2 ^ n) (countBits n f) k RState.init) x).sq := by
  have hinv := class_uniform_invariant n nq ret og f h k
  have hc : repeatCopies q k = k := by unfold repeatCopies; rw [if_neg (by omega)]
  obtain ⟨h1, h2, -⟩ := h
  have e : nq + 1 - n = (nq - n) + 1 := by omega
  unfold probNum groverGates
  rw [allStates_sum, e, hc]
  exact prob_uniform n (nq - n) (ret - n) f _ _ _ (by omega) hinv x hx

end QV.Grover
