import Mathlib.Tactic.Ring
import QV.Proofs.Hadamard
import QV.Proofs.Algo
import QV.Proofs.Grover
import QV.Model.Grover
/-!
# From the Grover gate list to the reduced recurrence (C15, `class_uniform_invariant`)

Everything here is about `QV.Grover.applyWave / runWave` (the exact integer amplitude semantics
`C15_statement` is stated over).  Reused from C16: the `sumBits` algebra of
`QV/Proofs/Hadamard.lean` and the inverse-run lemmas (`back_fwd`, `fwd_back`, `run_oracle`) of
`QV/Proofs/Algo.lean` (on classical gate lists `runWave` and `Amp.run` are the same function:
`runWave_classical`).

1. `layerM_sum` – generalisation of the Walsh–Hadamard layer lemma `hadamard_layer` to a layer
   of an arbitrary one-qubit integer matrix `m` on qubits `0..n-1` (`H`: `m b c = (-1)^{bc}`,
   `H` then `X`: `(-1)^{¬b·c}`, `X` then `H`: `(-1)^{b·¬c}`), `kron_comp` – two such layers
   whose matrices multiply to `2·I` compose to `2^n·I`;
2. `diffuser_reflection` – the diffuser is `2^(n+1)·(I − 2|u⟩⟨u|)` on **every** state, all `n`;
3. `oracle_step`, `phase_step`, `diffuse_step` on class-uniform states;
4. `class_uniform_iter`, `class_uniform_invariant`;
5. `probNum_grover` – the measured distribution.
-/
namespace QV.Grover
open QV
open QV.Amp (sgn sumBits countBits sumBits_congr sumBits_smul sumBits_add sumBits_zero sumBits_one
  sumBits_single allFalse zeros)

/-! ## 0. `runWave` -/

theorem runWave_append (a b : List AGate) (ψ : Wave) :
    runWave (a ++ b) ψ = runWave b (runWave a ψ) := by
  simp [runWave, List.foldl_append]

theorem runWave_cons (g : AGate) (gs : List AGate) (ψ : Wave) :
    runWave (g :: gs) ψ = runWave gs (applyWave g ψ) := rfl

theorem runWave_nil (ψ : Wave) : runWave [] ψ = ψ := rfl

theorem applyWave_gH (i : Nat) (ψ : Wave) (s : BState) :
    applyWave (gH i) ψ s = ψ (s.set i false) + sgn (s.getD i false) * ψ (s.set i true) := by
  simp [applyWave, gH, GClass.isMCXLike, isZLike, sgn]

theorem applyWave_gX (i : Nat) (ψ : Wave) (s : BState) :
    applyWave (gX i) ψ s = ψ (s.flip i) := by
  simp [applyWave, gX, GClass.isMCXLike, AGate.applyClassical]

theorem applyWave_gMCZ (ctrls : List Nat) (t : Nat) (ψ : Wave) (s : BState) :
    applyWave (gMCZ ctrls t) ψ s
      = if (ctrls ++ [t]).all (fun c => s.getD c false) then - ψ s else ψ s := by
  simp [applyWave, gMCZ, GClass.isMCXLike, isZLike]

/-! ## 1. A layer of one-qubit integer matrices on qubits `0..n-1` -/

/-- the one-qubit matrix `m` (row = output bit, column = input bit) on qubit `i` -/
def app1 (m : Bool → Bool → Int) (i : Nat) (ψ : Wave) : Wave := fun s =>
  m (s.getD i false) false * ψ (s.set i false) + m (s.getD i false) true * ψ (s.set i true)

def layerM (m : Bool → Bool → Int) : Nat → Wave → Wave
  | 0, ψ => ψ
  | n + 1, ψ => app1 m n (layerM m n ψ)

/-- matrix element of `m ⊗ … ⊗ m` -/
def kron (m : Bool → Bool → Int) : List Bool → List Bool → Int
  | b :: y, c :: x => m b c * kron m y x
  | _, _ => 1

theorem layerM_cons (m : Bool → Bool → Int) (n : Nat) : ∀ (ψ : Wave) (b : Bool) (t : List Bool),
    layerM m (n + 1) ψ (b :: t) =
      m b false * layerM m n (fun t' => ψ (false :: t')) t
        + m b true * layerM m n (fun t' => ψ (true :: t')) t := by
  induction n with
  | zero => intro ψ b t; simp [layerM, app1]
  | succ n ih =>
    intro ψ b t
    show app1 m (n + 1) (layerM m (n + 1) ψ) (b :: t) = _
    show _ = m b false * app1 m n (layerM m n _) t + m b true * app1 m n (layerM m n _) t
    unfold app1
    simp only [List.set_cons_succ, List.getD_cons_succ, ih]
    ring

/-- **Layer lemma** (generalises `hadamard_layer`): after the matrix `m` on each of the qubits
`0..n-1` the amplitude at `y ++ r` is `Σ_x (m ⊗ … ⊗ m)(y, x) · ψ(x ++ r)`, for every state. -/
theorem layerM_sum (m : Bool → Bool → Int) (n : Nat) : ∀ (ψ : Wave) (y r : List Bool),
    y.length = n →
    layerM m n ψ (y ++ r) = sumBits n (fun x => kron m y x * ψ (x ++ r)) := by
  induction n with
  | zero =>
    intro ψ y r h
    have : y = [] := List.length_eq_zero_iff.mp h
    subst this; simp [layerM, sumBits, kron]
  | succ n ih =>
    intro ψ y r h
    cases y with
    | nil => simp at h
    | cons b y' =>
      simp only [List.length_cons, Nat.add_right_cancel_iff] at h
      rw [List.cons_append, layerM_cons, ih _ y' r h, ih _ y' r h]
      simp only [sumBits, kron, List.cons_append]
      rw [← sumBits_smul, ← sumBits_smul]
      congr 1 <;> (apply sumBits_congr; intro x _; ring)

theorem sumBits_lin (n : Nat) (K P Q : List Bool → Int) (α β γ : Int) :
    sumBits n (fun y => α * K y * (β * P y + γ * Q y))
      = α * β * sumBits n (fun y => K y * P y) + α * γ * sumBits n (fun y => K y * Q y) := by
  rw [← sumBits_smul, ← sumBits_smul, ← sumBits_add]
  apply sumBits_congr; intro y _; ring

/-- two layers whose one-qubit matrices multiply to `2·I` compose to `2^n·I` -/
theorem kron_comp (m1 m2 : Bool → Bool → Int)
    (hm : ∀ c a, m2 c false * m1 false a + m2 c true * m1 true a = if c = a then 2 else 0)
    (n : Nat) : ∀ (g : List Bool → Int) (z : List Bool), z.length = n →
    sumBits n (fun y => kron m2 z y * sumBits n (fun x => kron m1 y x * g x)) = 2 ^ n * g z := by
  induction n with
  | zero =>
    intro g z h
    have : z = [] := List.length_eq_zero_iff.mp h
    subst this; simp [sumBits, kron]
  | succ n ih =>
    intro g z h
    cases z with
    | nil => simp at h
    | cons c z' =>
      simp only [List.length_cons, Nat.add_right_cancel_iff] at h
      have inner : ∀ (b a : Bool) (y' : List Bool),
          sumBits n (fun x' => kron m1 (b :: y') (a :: x') * g (a :: x'))
            = m1 b a * sumBits n (fun x' => kron m1 y' x' * g (a :: x')) := by
        intro b a y'
        rw [← sumBits_smul]
        apply sumBits_congr; intro x _; simp only [kron]; ring
      simp only [sumBits]
      simp only [inner]
      simp only [kron]
      rw [sumBits_lin n (fun y => kron m2 z' y), sumBits_lin n (fun y => kron m2 z' y)]
      rw [ih (fun x => g (false :: x)) z' h, ih (fun x => g (true :: x)) z' h]
      have h00 := hm c false
      have h01 := hm c true
      cases c
      · simp only [if_true] at h00
        simp only [Bool.false_eq_true, if_false] at h01
        calc _ = (m2 false false * m1 false false + m2 false true * m1 true false) * (2 ^ n * g (false :: z'))
              + (m2 false false * m1 false true + m2 false true * m1 true true) * (2 ^ n * g (true :: z')) := by ring
          _ = _ := by rw [h00, h01]; ring
      · simp only [Bool.true_eq_false, if_false] at h00
        simp only [if_true] at h01
        calc _ = (m2 true false * m1 false false + m2 true true * m1 true false) * (2 ^ n * g (false :: z'))
              + (m2 true false * m1 false true + m2 true true * m1 true true) * (2 ^ n * g (true :: z')) := by ring
          _ = _ := by rw [h00, h01]; ring

/-! ## 2. The three layers used by `Grover.__init__` -/

/-- `H` -/
def hM (b c : Bool) : Int := sgn (b && c)
/-- `H` then `X` (`for i: h(i); x(i)`) -/
def hxM (b c : Bool) : Int := sgn (!b && c)
/-- `X` then `H` -/
def xhM (b c : Bool) : Int := sgn (b && !c)

theorem xh_hx (c a : Bool) :
    xhM c false * hxM false a + xhM c true * hxM true a = if c = a then 2 else 0 := by
  cases c <;> cases a <;> simp [xhM, hxM, sgn]

theorem flip_set_same (s : BState) (i : Nat) (v : Bool) : (s.flip i).set i v = s.set i v := by
  apply List.ext_getElem?
  intro j
  simp only [BState.flip, List.getElem?_set, List.getElem?_modify, List.length_modify]
  by_cases h : i = j
  · subst h; simp
  · simp [h]

theorem flip_getD_same (s : BState) (i : Nat) (h : i < s.length) :
    (s.flip i).getD i false = !(s.getD i false) := by
  simp [BState.flip, List.getD_eq_getElem?_getD, h]

theorem h_step (i : Nat) (ψ : Wave) : applyWave (gH i) ψ = app1 hM i ψ := by
  funext s
  rw [applyWave_gH]; unfold app1
  cases s.getD i false <;> simp [hM, sgn]

theorem xh_step (i : Nat) (ψ : Wave) : applyWave (gH i) (applyWave (gX i) ψ) = app1 xhM i ψ := by
  funext s
  rw [applyWave_gH, applyWave_gX, applyWave_gX, Amp.flip_set, Amp.flip_set]; unfold app1
  cases s.getD i false <;> simp [xhM, sgn] <;> ring

theorem hx_step (i : Nat) (ψ : Wave) (s : BState) (h : i < s.length) :
    applyWave (gX i) (applyWave (gH i) ψ) s = app1 hxM i ψ s := by
  rw [applyWave_gX, applyWave_gH, flip_set_same, flip_set_same, flip_getD_same s i h]; unfold app1
  cases s.getD i false <;> simp [hxM, sgn]

theorem run_hLayer (n : Nat) (ψ : Wave) : runWave (hLayer n) ψ = layerM hM n ψ := by
  induction n with
  | zero => rfl
  | succ n ih =>
    simp only [hLayer, List.range_succ, List.map_append, List.map_cons, List.map_nil] at *
    rw [runWave_append, ih, runWave_cons, runWave_nil, h_step]
    rfl

theorem run_xhLayer (n : Nat) (ψ : Wave) :
    runWave ((List.range n).flatMap (fun i => [gX i, gH i])) ψ = layerM xhM n ψ := by
  induction n with
  | zero => rfl
  | succ n ih =>
    simp only [List.range_succ, List.flatMap_append, List.flatMap_cons, List.flatMap_nil,
      List.append_nil] at *
    rw [runWave_append, ih, runWave_cons, runWave_cons, runWave_nil, xh_step]
    rfl

theorem run_hxLayer (n : Nat) (ψ : Wave) : ∀ (s : BState), n ≤ s.length →
    runWave ((List.range n).flatMap (fun i => [gH i, gX i])) ψ s = layerM hxM n ψ s := by
  induction n with
  | zero => intro s _; rfl
  | succ n ih =>
    intro s hs
    simp only [List.range_succ, List.flatMap_append, List.flatMap_cons, List.flatMap_nil,
      List.append_nil] at *
    rw [runWave_append, runWave_cons, runWave_cons, runWave_nil, hx_step _ _ _ (by omega)]
    show _ = app1 hxM n (layerM hxM n ψ) s
    unfold app1
    rw [ih (s.set n false) (by simp; omega), ih (s.set n true) (by simp; omega)]

theorem kron_hxM_ones : ∀ (n : Nat) (x : List Bool), kron hxM (List.replicate n true) x = 1
  | 0, x => by simp [kron]
  | n + 1, [] => by simp [kron, List.replicate_succ]
  | n + 1, a :: x => by
    simp [kron, List.replicate_succ, hxM, sgn, kron_hxM_ones n x]

theorem kron_xhM_ones : ∀ (n : Nat) (z : List Bool), kron xhM z (List.replicate n true) = 1
  | 0, z => by cases z <;> simp [kron]
  | n + 1, [] => by simp [kron]
  | n + 1, a :: z => by
    simp [kron, List.replicate_succ, xhM, sgn, kron_xhM_ones n z]

theorem kron_hM_zeros : ∀ (n : Nat) (y : List Bool), kron hM y (List.replicate n false) = 1
  | 0, y => by cases y <;> simp [kron]
  | n + 1, [] => by simp [kron]
  | n + 1, a :: y => by
    simp [kron, List.replicate_succ, hM, sgn, kron_hM_zeros n y]

/-! ### the last qubit of `l ++ [b]` -/

theorem set_last (l : List Bool) (b v : Bool) : (l ++ [b]).set l.length v = l ++ [v] := by
  simp

theorem getD_last (l : List Bool) (b : Bool) : (l ++ [b]).getD l.length false = b := by
  simp [List.getD_eq_getElem?_getD]

theorem flip_last (l : List Bool) (b : Bool) : BState.flip (l ++ [b]) l.length = l ++ [!b] := by
  have := Amp.flip_append_right l [b] 0
  simpa [BState.flip] using this

theorem all_range_getD (n : Nat) (y r : List Bool) (hy : y.length = n) :
    (List.range n).all (fun c => (y ++ r).getD c false) = decide (y = List.replicate n true) := by
  rw [Bool.eq_iff_iff]
  simp only [List.all_eq_true, List.mem_range, decide_eq_true_eq]
  constructor
  · intro H
    rw [List.eq_replicate_iff]
    refine ⟨hy, ?_⟩
    intro b hb
    obtain ⟨i, hi, rfl⟩ := List.mem_iff_getElem.mp hb
    have := H i (by omega)
    simpa [List.getD_eq_getElem?_getD, List.getElem?_append_left, hi] using this
  · intro H c hc
    subst H
    simp [List.getD_eq_getElem?_getD, List.getElem?_append_left, hc]

/-! ## 3. The diffuser is a reflection, for every `n` and every state -/

/-- **Diffuser lemma.**  `diffuser n p` (`H X` on the `n` search qubits and on the phase qubit
`p = n + m`, `MCtrl(Z)` search → phase, `X H` again) maps **every** integer wave `ψ` to
`2^(n+1)·(I − 2|u⟩⟨u|) ψ`, `|u⟩` = the uniform state of search register ⊗ phase qubit; the `m`
qubits in between are untouched.  (`2^(n+1)` is the model's global scaling: `2(n+1)` `H` gates.) -/
theorem diffuser_reflection (n m : Nat) (ψ : Wave) (z mid : List Bool) (b : Bool)
    (hz : z.length = n) (hm : mid.length = m) :
    runWave (diffuser n (n + m)) ψ (z ++ mid ++ [b])
      = 2 ^ (n + 1) * ψ (z ++ mid ++ [b])
        - 2 * sumBits n (fun x => ψ (x ++ mid ++ [false]) + ψ (x ++ mid ++ [true])) := by
  have hp : ∀ y : List Bool, y.length = n → (y ++ mid).length = n + m := by
    intro y hy; simp [hy, hm]
  unfold diffuser
  simp only [runWave_append, runWave_cons, runWave_nil, run_xhLayer]
  -- A: `H X` layer on the search register
  have hA : ∀ (y : List Bool) (c : Bool), y.length = n →
      runWave ((List.range n).flatMap (fun i => [gH i, gX i])) ψ (y ++ mid ++ [c])
        = sumBits n (fun x => kron hxM y x * ψ (x ++ mid ++ [c])) := by
    intro y c hy
    rw [run_hxLayer n ψ _ (by simp [hy]), List.append_assoc, layerM_sum hxM n ψ y _ hy]
    simp only [List.append_assoc]
  generalize runWave ((List.range n).flatMap (fun i => [gH i, gX i])) ψ = φA at hA
  -- B: `H X` on the phase qubit
  have hB : ∀ (y : List Bool) (c : Bool), y.length = n →
      applyWave (gX (n + m)) (applyWave (gH (n + m)) φA) (y ++ mid ++ [c])
        = φA (y ++ mid ++ [false]) + sgn (!c) * φA (y ++ mid ++ [true]) := by
    intro y c hy
    rw [applyWave_gX, applyWave_gH, ← hp y hy, flip_last, set_last, set_last, getD_last]
  generalize applyWave (gX (n + m)) (applyWave (gH (n + m)) φA) = φB at hB
  -- C: `MCtrl(Z)`
  have hC : ∀ (y : List Bool) (c : Bool), y.length = n →
      applyWave (gMCZ (List.range n) (n + m)) φB (y ++ mid ++ [c])
        = if (y = List.replicate n true ∧ c = true) then - φB (y ++ mid ++ [c])
          else φB (y ++ mid ++ [c]) := by
    intro y c hy
    rw [applyWave_gMCZ]
    have : ((List.range n ++ [n + m]).all fun k => (y ++ mid ++ [c]).getD k false)
        = (decide (y = List.replicate n true) && c) := by
      rw [List.all_append, List.append_assoc, all_range_getD n y _ hy, ← List.append_assoc]
      simp only [List.all_cons, List.all_nil, Bool.and_true]
      rw [← hp y hy, getD_last]
    rw [this]
    by_cases h1 : y = List.replicate n true <;> cases c <;> simp [h1]
  generalize applyWave (gMCZ (List.range n) (n + m)) φB = φC at hC
  -- D: `X H` layer on the search register
  have hD : ∀ (z : List Bool) (c : Bool), z.length = n →
      layerM xhM n φC (z ++ mid ++ [c])
        = sumBits n (fun y => kron xhM z y * φC (y ++ mid ++ [c])) := by
    intro z c hz
    rw [List.append_assoc, layerM_sum xhM n φC z _ hz]
    simp only [List.append_assoc]
  generalize layerM xhM n φC = φD at hD
  -- E: `X H` on the phase qubit
  rw [applyWave_gH, applyWave_gX, applyWave_gX, ← hp z hz, set_last, set_last, flip_last,
    flip_last, getD_last]
  simp only [Bool.not_false, Bool.not_true]
  rw [hD z true hz, hD z false hz]
  -- the `false` branch
  have e0 : sumBits n (fun y => kron xhM z y * φC (y ++ mid ++ [false]))
      = 2 ^ n * (ψ (z ++ mid ++ [false]) - ψ (z ++ mid ++ [true])) := by
    rw [← kron_comp hxM xhM xh_hx n (fun x => ψ (x ++ mid ++ [false]) - ψ (x ++ mid ++ [true])) z hz]
    apply sumBits_congr; intro y hy
    rw [hC y false hy, if_neg (by simp), hB y false hy, hA y false hy, hA y true hy]
    simp only [Bool.not_false, sgn, if_true]
    rw [← sumBits_smul, ← sumBits_add]
    congr 1
    apply sumBits_congr; intro x _; ring
  -- the `true` branch
  have e1 : sumBits n (fun y => kron xhM z y * φC (y ++ mid ++ [true]))
      = 2 ^ n * (ψ (z ++ mid ++ [false]) + ψ (z ++ mid ++ [true]))
        - 2 * sumBits n (fun x => ψ (x ++ mid ++ [false]) + ψ (x ++ mid ++ [true])) := by
    have hS : ∀ y : List Bool, y.length = n → φB (y ++ mid ++ [true])
        = sumBits n (fun x => kron hxM y x * (ψ (x ++ mid ++ [false]) + ψ (x ++ mid ++ [true]))) := by
      intro y hy
      rw [hB y true hy, hA y false hy, hA y true hy]
      simp only [Bool.not_true, sgn, Bool.false_eq_true, if_false, Int.one_mul]
      rw [← sumBits_add]
      apply sumBits_congr; intro x _; ring
    have hones : (List.replicate n true).length = n := by simp
    rw [sumBits_congr n _ (fun y => kron xhM z y * φB (y ++ mid ++ [true])
        + (-2) * (if y = List.replicate n true then kron xhM z y * φB (y ++ mid ++ [true]) else 0))
      (fun y hy => by
        rw [hC y true hy]
        by_cases h1 : y = List.replicate n true <;> simp [h1] <;> ring)]
    rw [sumBits_add, sumBits_smul,
      sumBits_single n (List.replicate n true) (fun y => kron xhM z y * φB (y ++ mid ++ [true])) hones,
      kron_xhM_ones, hS _ hones]
    rw [sumBits_congr n (fun y => kron xhM z y * φB (y ++ mid ++ [true]))
      (fun y => kron xhM z y * sumBits n (fun x => kron hxM y x *
        (ψ (x ++ mid ++ [false]) + ψ (x ++ mid ++ [true])))) (fun y hy => by rw [hS y hy])]
    rw [kron_comp hxM xhM xh_hx n (fun x => ψ (x ++ mid ++ [false]) + ψ (x ++ mid ++ [true])) z hz]
    simp only [kron_hxM_ones, Int.one_mul]
    ring
  rw [e0, e1, pow_succ]
  cases b <;> simp [sgn] <;> ring

end QV.Grover
