import QV.Proofs.CompilerGen1
/-!
# Semantic correctness of the compiler model on the general class – part 2: specifications, leaves, cache hits

Specifications `ExprG` / `ArgsG` / `XorG` of `compileExpr` / `compileArgs` / `compileXorArgs` under the
invariant `GI` of part 1 – with NO hypothesis on the contents of the expression cache: step 3 of
`compile_expr` (the expression is cached) is a case like the others (`cacheHit_g`).
-/
namespace QV.Compiler
open QV

variable {Kn : String → Prop} {ρ : Env} {σ0 : FState} {s0 : CState}

/-- the qubit returned for an expression compiled without destination -/
structure ResG (Kn : String → Prop) (ρ : Env) (σ0 : FState) (s0 s s' : CState) (e : BExp) (a : Nat) : Prop where
  nav : ¬ Avail s' a
  val : cur σ0 s' a = e.eval ρ
  tgt : a ∈ s'.qc.anc → a ∉ s'.qc.kept → TgtL s0 s' a
  fresh : Avail s a → Unread s0 s' a ∧ a ∉ s'.qc.marked
  miss : isLeaf e = false → (∀ p ∈ s.expq, (p.1 == e) = false) → Avail s a
  np : ∀ x, PrivD Kn s0 s x → a ≠ x
  leaf : isLeaf e = true → a ∉ s'.qc.anc

/-- semantic specification of `compileExpr e` on the general class -/
def ExprG (Kn : String → Prop) (ρ : Env) (σ0 : FState) (s0 : CState) (e : BExp) : Prop :=
  ∀ (dest : Option Nat) (sym : Option String) {a : Nat} {s s' : CState},
    (compileExpr e dest sym).run s = .ok (a, s') → GI Kn ρ σ0 s0 s →
    (∀ d, dest = some d → PrivD Kn s0 s d) →
    (isLeaf e = true → dest = none ∧ sym = none) →
    (∀ x, sym = some x → selfNot x e = false) →
    GI Kn ρ σ0 s0 s' ∧ Fr Kn σ0 s0 s s' (fun q => dest = some q) (· = a) NoN (fun _ => hasConst e = true) ∧
    (dest = none → ResG Kn ρ σ0 s0 s s' e a) ∧
    (∀ d, dest = some d → a = d ∧ cur σ0 s' d = Bool.xor (cur σ0 s d) (e.eval ρ) ∧ TgtL s0 s' d)

def ArgsG (Kn : String → Prop) (ρ : Env) (σ0 : FState) (s0 : CState) (as : List BExp) : Prop :=
  ∀ {rs : List Nat} {s s' : CState}, (compileArgs as).run s = .ok (rs, s') → GI Kn ρ σ0 s0 s →
    GI Kn ρ σ0 s0 s' ∧ Fr Kn σ0 s0 s s' NoN (· ∈ rs) NoN (fun _ => hasConstList as = true) ∧
    rs.map (cur σ0 s') = as.map (BExp.eval ρ) ∧
    (∀ q ∈ rs, ¬ Avail s' q ∧ (q ∈ s'.qc.anc → q ∉ s'.qc.kept → TgtL s0 s' q) ∧
      ∀ x, PrivD Kn s0 s x → q ≠ x)

def XorG (Kn : String → Prop) (ρ : Env) (σ0 : FState) (s0 : CState) (as : List BExp) : Prop :=
  ∀ (d : Nat) {a : Nat} {s s' : CState}, (compileXorArgs as d).run s = .ok (a, s') → GI Kn ρ σ0 s0 s →
    PrivD Kn s0 s d →
    a = d ∧ GI Kn ρ σ0 s0 s' ∧ Fr Kn σ0 s0 s s' (· = d) (· = d) NoN (fun _ => hasConstList as = true) ∧
      cur σ0 s' d = Bool.xor (cur σ0 s d) (evalXor ρ as) ∧ (as ≠ [] → TgtL s0 s' d)

/-! ### small facts -/

theorem GIh.name_nav {H : Nat → Prop} {s : CState} (gi : GIh Kn ρ σ0 s0 H s) {n : String} {q : Nat}
    (hk : Kn n) (hq : dictGet? s.qc.qmap n = some q) : ¬ Avail s q := by
  rintro (h | h)
  · exact (gi.names n q hk hq).1 h
  · exact absurd (gi.good.qmap_lt _ (dictGet?_mem hq)) (by simp only; omega)

theorem Unread.of_avail {H : Nat → Prop} {s : CState} (gi : GIh Kn ρ σ0 s0 H s) {a : Nat} (h : Avail s a) :
    Unread s0 s a := fun g hg hc => gi.ctl g hg a hc h

theorem TgtL.of_gate {s s' : CState} {g : AGate} {cs : List Nat} {t : Nat} (hgw : g.wires = cs ++ [t])
    (hL : Lof s0 s' = Lof s0 s ++ [g]) : TgtL s0 s' t :=
  ⟨g, by rw [hL]; simp, by unfold AGate.target; rw [hgw]; simp⟩

theorem Unread.of_gate {s s' : CState} {g : AGate} {cs : List Nat} {t x : Nat} (hgw : g.wires = cs ++ [t])
    (hL : Lof s0 s' = Lof s0 s ++ [g]) (h : Unread s0 s x) (hx : x ∉ cs) : Unread s0 s' x := by
  intro g' hg'
  rw [hL] at hg'
  rcases List.mem_append.mp hg' with hm | hm
  · exact h g' hm
  · have : g' = g := by simpa using hm
    rw [this, hgw]; simpa using hx

theorem Unread.congr {s s' : CState} {x : Nat} (h : s'.qc.gates = s.qc.gates) (hu : Unread s0 s x) :
    Unread s0 s' x := by
  unfold Unread; rw [Lof_congr h]; exact hu

/-! ### step 3 of `compile_expr`: the expression is cached -/

theorem cacheHit_g {E : Nat → Prop} {e : BExp} {q : Nat} {dest : Option Nat} {a : Nat} {s s' : CState}
    (h : (cacheHit q dest).run s = .ok (a, s')) (gi : GI Kn ρ σ0 s0 s)
    (hd : ∀ d, dest = some d → PrivD Kn s0 s d)
    (hp : ∃ p ∈ s.expq, (p.1 == e) = true ∧ p.2 = q) (hnl : isLeaf e = false) :
    GI Kn ρ σ0 s0 s' ∧ Fr Kn σ0 s0 s s' (fun q => dest = some q) (· = a) NoN E ∧
    (dest = none → ResG Kn ρ σ0 s0 s s' e a) ∧
    (∀ d, dest = some d → a = d ∧ cur σ0 s' d = Bool.xor (cur σ0 s d) (e.eval ρ) ∧ TgtL s0 s' d) := by
  obtain ⟨p, hpm, hpe, rfl⟩ := hp
  have hpe' : p.1 = e := gen_eq_of_beq hpe
  obtain ⟨c1, c2, c3⟩ := gi.cache p hpm (fun hh => hh)
  unfold cacheHit at h
  obtain ⟨u, s1, hev, h1⟩ := run_bind_ok.mp h
  obtain ⟨gi1, fr1, hc1⟩ := event_gi hev gi
  have hs1 := event_run hev
  have hqc1 : s1.qc = s.qc := by rw [hs1]
  have hex1 : s1.expq = s.expq := by rw [hs1]
  have hav1 : ∀ x, Avail s1 x ↔ Avail s x := avail_congr (by rw [hqc1]) (by rw [hqc1])
  cases dest with
  | none =>
    obtain ⟨rfl, rfl⟩ := run_pure_ok.mp h1
    refine ⟨gi1, fr1.mono (fun _ _ hh => hh.elim) (fun _ hh _ _ _ => hh.elim) (fun _ _ hh => hh) (fun _ hh => hh.elim),
      fun _ => ⟨fun hh => c1 ((hav1 _).mp hh), by rw [hc1, c2, hpe'],
        fun h1' h2' => fr1.tkeep _ (c3 (by rw [← hqc1]; exact h1') (by rw [← hqc1]; exact h2')),
        fun hh => absurd hh c1, fun _ hm => (by rw [hm p hpm] at hpe; cases hpe),
        fun x hx e' => hx.nc p hpm e', fun hl => (by rw [hnl] at hl; cases hl)⟩, fun d hd' => (by cases hd')⟩
  | some d =>
    have hdp := hd d rfl
    have hne : d ≠ p.2 := fun e' => hdp.nc p hpm e'.symm
    dsimp only at h1
    rw [if_pos (by simpa using hne)] at h1
    obtain ⟨u2, s2, hcx, h2⟩ := run_bind_ok.mp h1
    obtain ⟨rfl, rfl⟩ := run_pure_ok.mp h2
    have hdp1 : PrivD Kn s0 s1 a := fr1.priv a hdp (fun hh => hh)
    obtain ⟨gi2, ha2, g, hgw, hL⟩ := gate_gi (cs := [p.2]) (t := a) hcx gi1 rfl rfl
      (by intro c hc; have : c = p.2 := by simpa using hc
          rw [this]; exact fun hh => c1 ((hav1 _).mp hh))
      hdp1.av0 hdp1.nav hdp1.unread hdp1.nn
    have gi2' : GI Kn ρ σ0 s0 s' := gi2.close (by rw [ha2.expq]; exact hdp1.nc) (fun _ => TgtL.of_gate hgw hL)
    have fr2 := gate_fr (Kn := Kn) (σ0 := σ0) ha2 rfl hgw hL
    refine ⟨gi2', (fr1.trans fr2).mono ?_ ?_ ?_ (fun _ hh => hh.elim (fun h' => h'.elim) (fun h' => h'.elim)),
      fun hn => (by cases hn), fun d' hd' => ?_⟩
    · rintro x _ (hh | hh)
      · exact hh.elim
      · rw [hh]
    · rintro x (hh | hh) _ _ _
      · exact hh.elim
      · exact hh.elim
    · rintro x hx (hh | hh)
      · exact hh
      · have : x = p.2 := by simpa using hh
        exact hx.nc p hpm this.symm
    · cases hd'
      refine ⟨rfl, ?_, TgtL.of_gate hgw hL⟩
      rw [ha2.cur_eq rfl σ0, hc1]
      simp only [List.all_cons, List.all_nil, Bool.and_true]
      rw [c2, hpe']

/-- a lookup that finds the key -/
theorem expqGet?_hit {e : BExp} {q : Nat} {s s' : CState} (h : (expqGet? e).run s = .ok (some q, s')) :
    s' = s ∧ ∃ p ∈ s.expq, (p.1 == e) = true ∧ p.2 = q := by
  obtain ⟨rfl, hr⟩ := expqGet?_run h
  refine ⟨rfl, ?_⟩
  cases hf : s'.expq.find? (·.1 == e) with
  | none => rw [hf] at hr; cases hr
  | some p =>
    rw [hf] at hr
    exact ⟨p, List.mem_of_find?_eq_some hf, by simpa using List.find?_some hf, by simpa using hr.symm⟩

/-- a lookup that does not find the key -/
theorem expqGet?_none {e : BExp} {s s' : CState} (h : (expqGet? e).run s = .ok (none, s')) :
    s' = s ∧ ∀ p ∈ s.expq, (p.1 == e) = false := by
  obtain ⟨rfl, hr⟩ := expqGet?_run h
  refine ⟨rfl, fun p hp => ?_⟩
  cases hf : s'.expq.find? (·.1 == e) with
  | none =>
    have := List.find?_eq_none.mp hf p hp
    simpa using this
  | some p0 => rw [hf] at hr; cases hr

/-! ### symbols -/

theorem exprG_sym (n : String) (hk : Kn n) (hkv : kval ρ n = ρ n) : ExprG Kn ρ σ0 s0 (.sym n) := by
  intro dest sym a s s' h gi _ hleaf _
  obtain ⟨rfl, rfl⟩ := hleaf rfl
  unfold compileExpr at h
  obtain ⟨rfl, hq⟩ := compileSymbol_none_run h
  obtain ⟨t1, t2, t3⟩ := gi.names n a hk hq
  exact ⟨gi, Fr.refl _, fun _ => ⟨gi.name_nav hk hq, by rw [t3, hkv]; rfl, fun h' => absurd h' t2,
    fun h' => absurd h' (gi.name_nav hk hq), fun h' => (by cases h'), fun x hx e' => hx.nn n hk (e' ▸ hq), fun _ => t2⟩,
    fun d hd => (by cases hd)⟩

/-! ### a new named qubit -/

theorem addQubit_gi {name : String} {a : Nat} {s s' : CState}
    (h : (addQubit name).run s = .ok (a, s')) (gi : GI Kn ρ σ0 s0 s) (hne : ∀ n, Kn n → n ≠ name) :
    GI Kn ρ σ0 s0 s' ∧ Fr Kn σ0 s0 s s' NoN NoN NoN (· = a) ∧ a = s.qc.numQubits ∧ cur σ0 s' = cur σ0 s ∧
      PrivD Kn s0 s' a ∧ Avail s a ∧ dictGet? s'.qc.qmap name = some a ∧ a ∉ s'.qc.anc ∧ a ∉ s'.qc.free ∧
      s'.expq = s.expq ∧ s'.qc.marked = s.qc.marked ∧
      (∀ n, n ≠ name → dictGet? s'.qc.qmap n = dictGet? s.qc.qmap n) := by
  have hg' : Good s' := (addQubit_ok (B := fun _ => True) h gi.good (Or.inl trivial)).1.good
  obtain ⟨ha, hs'⟩ := addQubit_run h
  have hgt : s'.qc.gates = s.qc.gates := by rw [hs']
  have hgc : s'.qc.gatesComputed = s.qc.gatesComputed := by rw [hs']
  have hn : s'.qc.numQubits = s.qc.numQubits + 1 := by rw [hs']
  have hf : s'.qc.free = s.qc.free := by rw [hs']
  have hanc : s'.qc.anc = s.qc.anc := by rw [hs']
  have hmk : s'.qc.marked = s.qc.marked := by rw [hs']
  have hkp : s'.qc.kept = s.qc.kept := by rw [hs']
  have hex : s'.expq = s.expq := by rw [hs']
  have hqm0 : s'.qc.qmap = dictSet s.qc.qmap name s.qc.numQubits := by rw [hs']
  have hcur : cur σ0 s' = cur σ0 s := cur_congr hgt
  have hL : Lof s0 s' = Lof s0 s := Lof_congr hgt
  have hav : ∀ q, Avail s' q → Avail s q := by
    intro q hq
    unfold Avail at hq ⊢
    rw [hf, hn] at hq
    exact hq.imp id (fun h' => by omega)
  have hava : Avail s a := Or.inr (by rw [ha]; exact Nat.le_refl _)
  have hqm : ∀ n, n ≠ name → dictGet? s'.qc.qmap n = dictGet? s.qc.qmap n :=
    fun n hn' => by rw [hqm0]; exact dictGet?_dictSet_ne hn'
  have htk : ∀ q, TgtL s0 s q → TgtL s0 s' q := fun q h' => by unfold TgtL; rw [hL]; exact h'
  have hnava : ¬ Avail s' a := by
    unfold Avail; rw [hf, hn, ha]
    rintro (h' | h')
    · exact absurd (gi.good.free_lt _ h') (Nat.lt_irrefl _)
    · omega
  refine ⟨⟨hg', by rw [hgt, hL]; exact gi.gates, by rw [hgc, hL]; exact gi.comp, ?_, ?_, ?_,
      by rw [hn]; exact Nat.le_succ_of_le gi.nq,
      fun q h' => gi.avail q (hav q h'), hkp.trans gi.kept, fun q h' => by rw [hcur]; exact gi.zero q (hav q h'), ?_,
      gi.knOK, ?_, by rw [hf]; exact gi.freeNd, by rw [hf, hanc]; exact gi.freeAnc,
      by rw [hf, hkp]; exact gi.keptNF, ?_, by rw [hanc, hkp]; exact gi.ancOld⟩,
    ⟨by rw [hn]; exact Nat.le_succ _, hav, fun m h' => by rw [hmk]; exact h', fun x h' => by rw [hanc]; exact h',
      fun x h' => Or.inl (by rw [← hanc]; exact h'), htk, hkp, fun _ _ _ => by rw [hcur], ?_, ?_,
      fun q h1 h2 => Or.inr (by rw [hn] at h2; omega), fun q h' => by rw [hf] at h'; exact h'⟩,
    ha, hcur, ⟨hnava, gi.avail _ hava, ?_, ?_, ?_, ?_⟩, hava, by rw [hqm0, ha]; exact dictGet?_dictSet_self,
    ?_, ?_, hex, hmk, hqm⟩
  · intro g hg; rw [hL] at hg
    exact ⟨(gi.tgt g hg).1, fun h' => (gi.tgt g hg).2 (hav _ h')⟩
  · intro g hg c hc; rw [hL] at hg
    exact fun h' => gi.ctl g hg c hc (hav _ h')
  · rw [hL, hcur]; exact gi.ben
  · intro n q hk hq
    rw [hqm n (hne n hk)] at hq
    obtain ⟨t1, t2, t3⟩ := gi.names n q hk hq
    exact ⟨by rw [hf]; exact t1, by rw [hanc]; exact t2, by rw [hcur]; exact t3⟩
  · intro p hp hn'
    rw [hex] at hp
    obtain ⟨c1, c2, c3⟩ := gi.cache p hp hn'
    exact ⟨fun h' => c1 (hav _ h'), by rw [hcur]; exact c2,
      fun h1 h2 => htk _ (c3 (by rw [← hanc]; exact h1) (by rw [← hkp]; exact h2))⟩
  · intro m hm
    rw [hmk] at hm
    obtain ⟨m1, m2, m3, m4⟩ := gi.marks m hm
    exact ⟨by rw [hanc]; exact m1, by rw [hkp]; exact m2, fun h' => m3 (hav _ h'), fun hn => htk _ (m4 hn)⟩
  · intro x hx _
    refine ⟨fun h' => hx.nav (hav x h'), hx.av0, fun n hk hq => ?_, by rw [hex]; exact hx.nc,
      by unfold Unread; rw [hL]; exact hx.unread, by rw [hmk]; exact hx.nm⟩
    rw [hqm n (hne n hk)] at hq
    exact hx.nn n hk hq
  · intro x h1 h2 _ h4
    exact Or.inl ⟨by rw [← hanc]; exact h1, by rw [← hf]; exact h2, by rw [← hmk]; exact h4⟩
  · intro n hk hq
    rw [hqm n (hne n hk)] at hq
    exact absurd (gi.good.qmap_lt _ (dictGet?_mem hq)) (by rw [ha]; exact Nat.lt_irrefl _)
  · intro p hp e'
    rw [hex] at hp
    exact (gi.cache p hp (fun hh => hh)).1 (e' ▸ hava)
  · unfold Unread; rw [hL]; exact Unread.of_avail gi hava
  · rw [hmk]; exact fun hm => (gi.marks _ hm).2.2.1 hava
  · rw [hanc, ha]; exact fun h' => absurd (gi.good.anc_lt _ h') (Nat.lt_irrefl _)
  · rw [hf, ha]; exact fun h' => absurd (gi.good.free_lt _ h') (Nat.lt_irrefl _)

/-- names can be added to `Kn` once their qubits hold their values -/
theorem GIh.extendKn {Kn' : String → Prop} {H : Nat → Prop} {s : CState} (gi : GIh Kn' ρ σ0 s0 H s)
    (h : ∀ n, Kn n → ancLike n = false ∧ (Kn' n ∨ ∀ q, dictGet? s.qc.qmap n = some q →
      q ∉ s.qc.free ∧ q ∉ s.qc.anc ∧ cur σ0 s q = kval ρ n)) : GIh Kn ρ σ0 s0 H s :=
  { gi with
    names := fun n q hk hq => (h n hk).2.elim (fun hk' => gi.names n q hk' hq) (fun hh => hh q hq)
    knOK := fun n hk => (h n hk).1 }

theorem PrivD.monoKn {Kn' : String → Prop} {s : CState} {x : Nat} (h : PrivD Kn s0 s x) (hs : ∀ n, Kn' n → Kn n) :
    PrivD Kn' s0 s x :=
  ⟨h.nav, h.av0, fun n hk => h.nn n (hs n hk), h.nc, h.unread, h.nm⟩

/-- the frame for a larger set of known names -/
theorem Fr.extendKn {Kn' : String → Prop} {D R C E : Nat → Prop} {s s' : CState} (fr : Fr Kn' σ0 s0 s s' D R C E)
    (hs : ∀ n, Kn' n → Kn n)
    (h : ∀ x, PrivD Kn s0 s x → ∀ n, Kn n → ¬ Kn' n → dictGet? s'.qc.qmap n ≠ some x) :
    Fr Kn σ0 s0 s s' D R C E :=
  ⟨fr.nq, fr.avail, fr.mkeep, fr.akeep, fr.anew, fr.tkeep, fr.kkeep, fr.val, fun x hx hc => by
    have hx' := fr.priv x (hx.monoKn hs) hc
    refine ⟨hx'.nav, hx'.av0, fun n hk hq => ?_, hx'.nc, hx'.unread, hx'.nm⟩
    by_cases hk' : Kn' n
    · exact hx'.nn n hk' hq
    · exact h x hx n hk hk' hq, fr.pend, fr.alloc, fr.fkeep⟩

/-! ### constants -/

/-- `ExprG` for a constant with the precise allocation claim: the only qubit that may be allocated is the
result (the constant's qubit, created on first use) -/
def ExprGc (Kn : String → Prop) (ρ : Env) (σ0 : FState) (s0 : CState) (e : BExp) : Prop :=
  ∀ (dest : Option Nat) (sym : Option String) {a : Nat} {s s' : CState},
    (compileExpr e dest sym).run s = .ok (a, s') → GI Kn ρ σ0 s0 s →
    (∀ d, dest = some d → PrivD Kn s0 s d) →
    (isLeaf e = true → dest = none ∧ sym = none) →
    (∀ x, sym = some x → selfNot x e = false) →
    GI Kn ρ σ0 s0 s' ∧ Fr Kn σ0 s0 s s' (fun q => dest = some q) (· = a) NoN (· = a) ∧
    (dest = none → ResG Kn ρ σ0 s0 s s' e a) ∧
    (∀ d, dest = some d → a = d ∧ cur σ0 s' d = Bool.xor (cur σ0 s d) (e.eval ρ) ∧ TgtL s0 s' d)

theorem ExprGc.toG {e : BExp} (h : ExprGc Kn ρ σ0 s0 e) (hc : hasConst e = true) : ExprG Kn ρ σ0 s0 e := by
  intro dest sym a s s' hr gi hd hl hs
  obtain ⟨g, fr, r1, r2⟩ := h dest sym hr gi hd hl hs
  exact ⟨g, fr.mono (fun _ _ hh => hh) (fun _ hh _ _ _ => hh) (fun _ _ hh => hh) (fun _ _ => hc), r1, r2⟩

theorem exprGc_ff (hF : Kn "FALSE") : ExprGc Kn ρ σ0 s0 .ff := by
  intro dest sym a s s' h gi _ hleaf _
  obtain ⟨rfl, rfl⟩ := hleaf rfl
  unfold compileExpr constFalse at h
  obtain ⟨qc, s1, hq, h⟩ := run_bind_ok.mp h
  obtain ⟨rfl, rfl⟩ := getQC_run hq
  dsimp only at h
  split at h
  · next hnone =>
    have hnone' : dictGet? s1.qc.qmap "FALSE" = none := by simpa using hnone
    obtain ⟨u, s2, hd, hl⟩ := run_bind_ok.mp h
    obtain ⟨i, hadd⟩ := run_discard_ok.mp hd
    have gi' : GI (fun n => Kn n ∧ n ≠ "FALSE") ρ σ0 s0 s1 := gi.monoKn (fun n hn => hn.1)
    obtain ⟨gi2, fr2, hi, hcur, hpr, hava, hqi, hna, hnf, hex, hmk, hqm⟩ := addQubit_gi hadd gi' (fun n hn => hn.2)
    obtain ⟨rfl, hq', _⟩ := lookup_ok hl gi2.good
    have : a = i := by rw [hqi] at hq'; exact (Option.some.inj hq').symm
    subst this
    have hval : cur σ0 s' a = false := by rw [hcur]; exact gi.zero a hava
    refine ⟨gi2.extendKn (fun n hk => ⟨gi.knOK n hk, ?_⟩), (fr2.extendKn (fun n hn => hn.1) ?_).mono
        (fun _ _ hh => hh.elim) (fun _ hh _ _ _ => hh.elim) (fun _ _ hh => hh) (fun _ hh => hh), fun _ =>
      ⟨hpr.nav, hval, fun h' => absurd h' hna, fun _ => ⟨hpr.unread, hpr.nm⟩, fun h' => (by cases h'),
        fun x hx e' => hx.nav (e' ▸ hava), fun _ => hna⟩, fun d hd' => (by cases hd')⟩
    · by_cases hn : n = "FALSE"
      · subst hn
        refine Or.inr (fun q hq'' => ?_)
        rw [hqi] at hq''; cases hq''
        exact ⟨hnf, hna, by rw [hval]; simp [kval]⟩
      · exact Or.inl ⟨hk, hn⟩
    · intro x hx n hk hk' hq''
      have hn : n = "FALSE" := Classical.byContradiction (fun hn => hk' ⟨hk, hn⟩)
      subst hn
      rw [hqi] at hq''; cases hq''
      exact hx.nav hava
  · obtain ⟨rfl, hq', _⟩ := lookup_ok h gi.good
    obtain ⟨t1, t2, t3⟩ := gi.names _ a hF hq'
    exact ⟨gi, Fr.refl _, fun _ => ⟨gi.name_nav hF hq', by rw [t3]; simp [kval, BExp.eval], fun h' => absurd h' t2,
      fun h' => absurd h' (gi.name_nav hF hq'), fun h' => (by cases h'), fun x hx e' => hx.nn _ hF (e' ▸ hq'), fun _ => t2⟩,
      fun d hd => (by cases hd)⟩

theorem exprGc_tt (hT : Kn "TRUE") : ExprGc Kn ρ σ0 s0 .tt := by
  intro dest sym a s s' h gi _ hleaf _
  obtain ⟨rfl, rfl⟩ := hleaf rfl
  unfold compileExpr constTrue at h
  obtain ⟨qc, s1, hq, h⟩ := run_bind_ok.mp h
  obtain ⟨rfl, rfl⟩ := getQC_run hq
  dsimp only at h
  split at h
  · next hnone =>
    have hnone' : dictGet? s1.qc.qmap "TRUE" = none := by simpa using hnone
    obtain ⟨u1, s3, hd, h2⟩ := run_bind_ok.mp h
    obtain ⟨i, hadd⟩ := run_discard_ok.mp hd
    have gi' : GI (fun n => Kn n ∧ n ≠ "TRUE") ρ σ0 s0 s1 := gi.monoKn (fun n hn => hn.1)
    obtain ⟨gi2, fr2, hi, hcur, hpr, hava, hqi, hna, hnf, hex, hmk, hqm⟩ := addQubit_gi hadd gi' (fun n hn => hn.2)
    obtain ⟨q, s4, hl1, h3⟩ := run_bind_ok.mp h2
    obtain ⟨rfl, hq1, hlt⟩ := lookup_ok hl1 gi2.good
    have : q = i := by rw [hqi] at hq1; exact (Option.some.inj hq1).symm
    subst this
    obtain ⟨u2, s5, hx, hl⟩ := run_bind_ok.mp h3
    obtain ⟨gi5, ha5, g, hgw, hL⟩ := gate_gi (cs := []) (t := q) hx gi2 rfl rfl (fun _ hc => by cases hc)
      hpr.av0 hpr.nav hpr.unread hpr.nn
    have gi5' := gi5.close (by rw [ha5.expq]; exact hpr.nc) (fun _ => TgtL.of_gate hgw hL)
    have fr5 := gate_fr (Kn := fun n => Kn n ∧ n ≠ "TRUE") (σ0 := σ0) ha5 rfl hgw hL
    obtain ⟨es5, hq5, _⟩ := lookup_ok hl gi5'.good
    subst es5
    have : a = q := by rw [ha5.qmap, hqi] at hq5; exact (Option.some.inj hq5).symm
    subst this
    have hval : cur σ0 s' a = true := by
      rw [ha5.cur_eq rfl σ0, hcur, gi.zero a hava]; rfl
    have hnav' : ¬ Avail s' a := fun h' => hpr.nav (fr5.avail a h')
    have fr := (fr2.trans fr5).mono (D' := NoN) (R' := (· = a)) (C' := NoN) (E' := (· = a))
      (fun x hx' hh => by
        rcases hh with hh | hh
        · exact hh
        · exact hx' (hh ▸ hava))
      (fun _ hh _ _ _ => hh.elim (fun h' => h'.elim) (fun h' => h'.elim))
      (fun _ _ hh => hh.elim (fun h' => h') (fun h' => by simp at h')) (fun _ hh => hh.elim (fun h' => h') (fun h' => h'.elim))
    refine ⟨gi5'.extendKn (fun n hk => ⟨gi.knOK n hk, ?_⟩), (fr.extendKn (fun n hn => hn.1) ?_).mono
        (fun _ _ hh => hh.elim) (fun _ hh _ _ _ => hh) (fun _ _ hh => hh) (fun _ hh => hh), fun _ =>
      ⟨hnav', hval, fun h' => absurd h' (by rw [ha5.anc]; exact hna),
        fun _ => ⟨Unread.of_gate hgw hL hpr.unread (by simp), by rw [ha5.marked]; exact hpr.nm⟩,
        fun h' => (by cases h'), fun x hx' e' => hx'.nav (e' ▸ hava), fun _ => (by rw [ha5.anc]; exact hna)⟩,
      fun d hd' => (by cases hd')⟩
    · by_cases hn : n = "TRUE"
      · subst hn
        refine Or.inr (fun q hq'' => ?_)
        rw [hq5] at hq''; cases hq''
        exact ⟨by rw [ha5.free]; exact hnf, by rw [ha5.anc]; exact hna, by rw [hval]; simp [kval]⟩
      · exact Or.inl ⟨hk, hn⟩
    · intro x hx' n hk hk' hq''
      have hn : n = "TRUE" := Classical.byContradiction (fun hn => hk' ⟨hk, hn⟩)
      subst hn
      rw [hq5] at hq''; cases hq''
      exact hx'.nav hava
  · obtain ⟨rfl, hq', _⟩ := lookup_ok h gi.good
    obtain ⟨t1, t2, t3⟩ := gi.names _ a hT hq'
    exact ⟨gi, Fr.refl _, fun _ => ⟨gi.name_nav hT hq', by rw [t3]; simp [kval, BExp.eval], fun h' => absurd h' t2,
      fun h' => absurd h' (gi.name_nav hT hq'), fun h' => (by cases h'), fun x hx e' => hx.nn _ hT (e' ▸ hq'), fun _ => t2⟩,
      fun d hd => (by cases hd)⟩

theorem exprG_ff (hF : Kn "FALSE") : ExprG Kn ρ σ0 s0 .ff := (exprGc_ff hF).toG rfl

theorem exprG_tt (hT : Kn "TRUE") : ExprG Kn ρ σ0 s0 .tt := (exprGc_tt hT).toG rfl

end QV.Compiler
