import QV.Proofs.FrontT5
/-! Statement level of the widened C01 theorems, part 1: nested bit names (`t.i.j…`) - which symbols belong to a
variable, distinctness of the names of one type, disjointness for different variables; sequential evaluation
of the definitions of one assignment; the variables an expression reads (`semT`, `wellT`); the types of
`semT` values are `tyGood`. -/
namespace QV.Sem
open QV QV.Arith QV.Front

set_option linter.unusedSimpArgs false
set_option linter.unusedVariables false

/-! ### the symbols of a variable -/

/-- the symbols that belong to the variable `t`: `t` itself, or `t.` followed by anything (`t.0`, `t.1.0` …) -/
def Sub (t s : String) : Prop := s = t ∨ ∃ r : List Char, s.toList = t.toList ++ '.' :: r

theorem sub_refl (t : String) : Sub t t := Or.inl rfl

theorem sub_child (t : String) (i : Nat) {s : String} (h : Sub (bitName t i) s) : Sub t s := by
  rcases h with rfl | ⟨r, hr⟩
  · exact Or.inr ⟨_, bitName_toList t i⟩
  · refine Or.inr ⟨(toString i).toList ++ '.' :: r, ?_⟩
    rw [hr, bitName_toList]; simp

theorem owned_sub {t s : String} (h : Owned t s) : Sub t s := by
  rcases h with rfl | ⟨i, rfl⟩
  · exact sub_refl _
  · exact sub_child t i (sub_refl _)

theorem no_dot_repr (i : Nat) : '.' ∉ (toString i).toList := by
  intro h
  have : (toString i).toList = Nat.toDigits 10 i := by
    simp [toString, Nat.repr]
  rw [this] at h
  have := Nat.isDigit_of_mem_toDigits (by decide) (by decide) h
  revert this; decide

/-- two dot-free prefixes of one string, each followed by the end or by a dot, are equal -/
theorem prefix_split : ∀ {a b r1 r2 : List Char}, '.' ∉ a → '.' ∉ b →
    (r1 = [] ∨ ∃ x, r1 = '.' :: x) → (r2 = [] ∨ ∃ x, r2 = '.' :: x) → a ++ r1 = b ++ r2 → a = b
  | [], [], _, _, _, _, _, _, _ => rfl
  | [], d :: b', r1, r2, _, hb, h1, _, h => by
    simp only [List.nil_append, List.cons_append] at h
    rcases h1 with rfl | ⟨x, rfl⟩
    · cases h
    · simp only [List.cons.injEq] at h
      exact absurd (by rw [← h.1]; simp) hb
  | c :: a', [], r1, r2, ha, _, _, h2, h => by
    simp only [List.nil_append, List.cons_append] at h
    rcases h2 with rfl | ⟨x, rfl⟩
    · cases h
    · simp only [List.cons.injEq] at h
      exact absurd (by rw [h.1]; simp) ha
  | c :: a', d :: b', r1, r2, ha, hb, h1, h2, h => by
    simp only [List.cons_append, List.cons.injEq] at h
    obtain ⟨rfl, h⟩ := h
    congr 1
    exact prefix_split (fun hh => ha (List.mem_cons_of_mem _ hh)) (fun hh => hb (List.mem_cons_of_mem _ hh))
      h1 h2 h

theorem sub_tail {t s : String} (h : Sub t s) :
    ∃ r, s.toList = t.toList ++ r ∧ (r = [] ∨ ∃ x, r = '.' :: x) := by
  rcases h with rfl | ⟨r, hr⟩
  · exact ⟨[], by simp, Or.inl rfl⟩
  · exact ⟨'.' :: r, hr, Or.inr ⟨r, rfl⟩⟩

/-- the symbols of two different dot-free variables are different strings -/
theorem sub_disjoint {n m s : String} (hn : goodName n = true) (hm : goodName m = true)
    (hne : n ≠ m) (h1 : Sub n s) : ¬ Sub m s := by
  rw [goodName_iff] at hn hm
  intro h2
  obtain ⟨r1, e1, t1⟩ := sub_tail h1
  obtain ⟨r2, e2, t2⟩ := sub_tail h2
  rw [e1] at e2
  exact hne (String.toList_inj.mp (prefix_split hn hm t1 t2 e2))

/-- the symbols below two different elements `t.i`, `t.j` of one variable are different strings -/
theorem child_disjoint {t s : String} {i j : Nat} (h1 : Sub (bitName t i) s) (h2 : Sub (bitName t j) s) :
    i = j := by
  obtain ⟨r1, e1, t1⟩ := sub_tail h1
  obtain ⟨r2, e2, t2⟩ := sub_tail h2
  rw [e1, bitName_toList, bitName_toList] at e2
  simp only [List.append_assoc, List.cons_append] at e2
  have e3 := List.append_cancel_left e2
  simp only [List.cons.injEq, true_and] at e3
  have := prefix_split (no_dot_repr i) (no_dot_repr j) t1 t2 e3
  exact Nat.repr_injective (String.toList_inj.mp this)

mutual
theorem names_sub : ∀ (ty : Ty) (base : String), ∀ s ∈ Ty.names base ty, Sub base s
  | .bool, base, s, hs => by simp only [names_bool, List.mem_singleton] at hs; exact Or.inl hs
  | .qint w, base, s, hs => by
    rw [names_qint] at hs
    simp only [List.mem_map, List.mem_range] at hs
    obtain ⟨i, _, rfl⟩ := hs
    exact sub_child base i (sub_refl _)
  | .qchar, base, s, hs => by
    rw [names_qchar] at hs
    simp only [List.mem_map, List.mem_range] at hs
    obtain ⟨i, _, rfl⟩ := hs
    exact sub_child base i (sub_refl _)
  | .tuple ts, base, s, hs => by
    rw [Ty.names] at hs
    obtain ⟨j, _, hj⟩ := namesList_sub ts base 0 s hs
    exact sub_child base j hj
theorem namesList_sub : ∀ (ts : List Ty) (base : String) (i : Nat), ∀ s ∈ Ty.namesList base i ts,
    ∃ j, i ≤ j ∧ Sub (bitName base j) s
  | [], base, i, s, hs => by simp [Ty.namesList] at hs
  | t :: ts, base, i, s, hs => by
    rw [namesList_cons, List.mem_append] at hs
    rcases hs with hs | hs
    · exact ⟨i, Nat.le_refl _, names_sub t _ s hs⟩
    · obtain ⟨j, hj, hsub⟩ := namesList_sub ts base (i + 1) s hs
      exact ⟨j, by omega, hsub⟩
end

theorem nodup_map_bitName (base : String) (w : Nat) : ((List.range w).map (bitName base)).Nodup := by
  rw [List.Nodup, List.pairwise_map]
  exact List.Pairwise.imp (fun {a b} (h : a ≠ b) hh => h (bitName_inj hh)) List.nodup_range

mutual
/-- the bit names of one variable are pairwise different -/
theorem names_nodup : ∀ (ty : Ty) (base : String), (Ty.names base ty).Nodup
  | .bool, base => by simp [names_bool]
  | .qint w, base => by
    rw [names_qint]
    exact nodup_map_bitName base _
  | .qchar, base => by
    rw [names_qchar]
    exact nodup_map_bitName base _
  | .tuple ts, base => by rw [Ty.names]; exact namesList_nodup ts base 0
theorem namesList_nodup : ∀ (ts : List Ty) (base : String) (i : Nat), (Ty.namesList base i ts).Nodup
  | [], base, i => by simp [Ty.namesList]
  | t :: ts, base, i => by
    rw [namesList_cons, List.nodup_append]
    refine ⟨names_nodup t _, namesList_nodup ts base (i + 1), ?_⟩
    intro a ha b hb hab
    subst hab
    obtain ⟨j, hj, hsub⟩ := namesList_sub ts base (i + 1) a hb
    have := child_disjoint (names_sub t _ a ha) hsub
    omega
end

/-- `ρ'` differs from `ρ` at most on the symbols of `t` -/
def AgreeOffT (t : String) (ρ ρ' : QV.Env) : Prop := ∀ s, ¬ Sub t s → ρ' s = ρ s

theorem AgreeOffT.refl (t : String) (ρ : QV.Env) : AgreeOffT t ρ ρ := fun _ _ => rfl

mutual
theorem decodeT_congr (ρ ρ' : QV.Env) : ∀ (ty : Ty) (base : String),
    (∀ s ∈ Ty.names base ty, ρ' s = ρ s) → decodeT ρ' base ty = decodeT ρ base ty
  | .bool, base, h => by simp only [decodeT]; rw [h base (by simp [names_bool])]
  | .qint w, base, h => by
    simp only [decodeT]; congr 2; exact List.map_congr_left h
  | .qchar, base, h => by
    simp only [decodeT]; congr 2; exact List.map_congr_left h
  | .tuple ts, base, h => by
    simp only [decodeT]; congr 1
    exact decodeTList_congr ρ ρ' ts base 0 (by rw [Ty.names] at h; exact h)
theorem decodeTList_congr (ρ ρ' : QV.Env) : ∀ (ts : List Ty) (base : String) (i : Nat),
    (∀ s ∈ Ty.namesList base i ts, ρ' s = ρ s) → decodeTList ρ' base i ts = decodeTList ρ base i ts
  | [], _, _, _ => rfl
  | t :: ts, base, i, h => by
    rw [decodeTList_cons, decodeTList_cons]
    rw [namesList_cons] at h
    rw [decodeT_congr ρ ρ' t _ (fun s hs => h s (List.mem_append_left _ hs)),
      decodeTList_congr ρ ρ' ts base (i + 1) (fun s hs => h s (List.mem_append_right _ hs))]
end

/-! ### the definitions of one assignment, evaluated in order -/

theorem seq_evalT (t : String) (ρ : QV.Env) : ∀ (defs : List (String × BExp)) (ρ1 : QV.Env),
    AgreeOffT t ρ ρ1 → (∀ d ∈ defs, Sub t d.1) → (defs.map (·.1)).Nodup →
    (∀ d ∈ defs, ∀ ρ'', AgreeOffT t ρ ρ'' → d.2.eval ρ'' = d.2.eval ρ) →
    AgreeOffT t ρ (runDefs defs ρ1) ∧
      (defs.map fun d => runDefs defs ρ1 d.1) = defs.map (fun d => d.2.eval ρ) ∧
      (∀ x, x ∉ defs.map (·.1) → runDefs defs ρ1 x = ρ1 x)
  | [], ρ1, h1, _, _, _ => by
    exact ⟨h1, rfl, fun _ _ => rfl⟩
  | d :: ds, ρ1, h1, hsub, hnd, hb => by
    simp only [runDefs_cons]
    simp only [List.map_cons, List.nodup_cons] at hnd
    have h2 : AgreeOffT t ρ (stepDef ρ1 d) := by
      intro s hs
      have hne : s ≠ d.1 := fun h => hs (h ▸ hsub d (by simp))
      simp only [stepDef, beq_iff_eq, hne, if_false]
      exact h1 s hs
    obtain ⟨i1, i2, i3⟩ := seq_evalT t ρ ds _ h2 (fun d' hd' => hsub d' (List.mem_cons_of_mem _ hd')) hnd.2
      (fun d' hd' => hb d' (List.mem_cons_of_mem _ hd'))
    refine ⟨i1, ?_, ?_⟩
    · simp only [List.map_cons, List.cons.injEq]
      refine ⟨?_, i2⟩
      rw [i3 d.1 hnd.1]
      simp only [stepDef, beq_self_eq_true, if_true]
      exact hb d (by simp) ρ1 h1
    · intro x hx
      simp only [List.map_cons, List.mem_cons, not_or] at hx
      rw [i3 x hx.2]
      simp only [stepDef, beq_iff_eq, hx.1, if_false]

/-! ### which variables an expression reads -/

mutual
theorem semT_congr (t : String) (σ σ' : TEnv) (h : ∀ n, n ≠ t → σ n = σ' n) :
    ∀ e : PExp, mentions t e = false → semT σ e = semT σ' e
  | .name n, hm => by
    simp only [mentions, beq_eq_false_iff_ne, ne_eq] at hm
    simp only [semT, h n hm]
  | .subs n p, hm => by
    simp only [mentions, beq_eq_false_iff_ne, ne_eq] at hm
    simp only [semT, h n hm]
  | .cbool _, _ => by simp only [semT]
  | .cint _, _ => by simp only [semT]
  | .cchar _, _ => by simp only [semT]
  | .unsupported _, _ => by simp only [semT]
  | .tuple es, hm => by
    simp only [mentions] at hm
    simp only [semT, semTList_congr t σ σ' h es hm]
  | .not e, hm => by
    simp only [mentions] at hm
    simp only [semT, semT_congr t σ σ' h e hm]
  | .inv e, hm => by
    simp only [mentions] at hm
    simp only [semT, semT_congr t σ σ' h e hm]
  | .boolop _ vs, hm => by
    simp only [mentions] at hm
    simp only [semT, semTList_congr t σ σ' h vs hm]
  | .ite c a b, hm => by
    simp only [mentions, Bool.or_eq_false_iff] at hm
    simp only [semT, semT_congr t σ σ' h c hm.1.1, semT_congr t σ σ' h a hm.1.2,
      semT_congr t σ σ' h b hm.2]
  | .cmp _ l r, hm => by
    simp only [mentions, Bool.or_eq_false_iff] at hm
    simp only [semT, semT_congr t σ σ' h l hm.1, semT_congr t σ σ' h r hm.2]
  | .bin _ l r, hm => by
    simp only [mentions, Bool.or_eq_false_iff] at hm
    simp only [semT, semT_congr t σ σ' h l hm.1, semT_congr t σ σ' h r hm.2]
theorem semTList_congr (t : String) (σ σ' : TEnv) (h : ∀ n, n ≠ t → σ n = σ' n) :
    ∀ es : List PExp, mentionsList t es = false → semTList σ es = semTList σ' es
  | [], _ => by simp only [semTList]
  | e :: es, hm => by
    simp only [mentionsList, Bool.or_eq_false_iff] at hm
    simp only [semTList, semT_congr t σ σ' h e hm.1, semTList_congr t σ σ' h es hm.2]
end

mutual
theorem wellT_congr (t : String) (σ σ' : TEnv) (h : ∀ n, n ≠ t → σ n = σ' n) :
    ∀ e : PExp, mentions t e = false → wellT σ e = wellT σ' e
  | .name _, _ => by simp only [wellT]
  | .subs n p, hm => by
    simp only [wellT, semT_congr t σ σ' h (.subs n p) hm]
  | .cbool _, _ => by simp only [wellT]
  | .cint _, _ => by simp only [wellT]
  | .cchar _, _ => by simp only [wellT]
  | .unsupported _, _ => by simp only [wellT]
  | .tuple es, hm => by
    simp only [mentions] at hm
    simp only [wellT, wellTList_congr t σ σ' h es hm]
  | .not e, hm => by
    simp only [mentions] at hm
    simp only [wellT, wellT_congr t σ σ' h e hm]
  | .inv e, hm => by
    simp only [mentions] at hm
    simp only [wellT, wellT_congr t σ σ' h e hm, semT_congr t σ σ' h e hm]
  | .boolop _ vs, hm => by
    simp only [mentions] at hm
    simp only [wellT, wellTList_congr t σ σ' h vs hm]
  | .ite c a b, hm => by
    simp only [mentions, Bool.or_eq_false_iff] at hm
    simp only [wellT, wellT_congr t σ σ' h c hm.1.1, wellT_congr t σ σ' h a hm.1.2,
      wellT_congr t σ σ' h b hm.2, semT_congr t σ σ' h a hm.1.2, semT_congr t σ σ' h b hm.2]
  | .cmp _ l r, hm => by
    simp only [mentions, Bool.or_eq_false_iff] at hm
    simp only [wellT, wellT_congr t σ σ' h l hm.1, wellT_congr t σ σ' h r hm.2]
  | .bin _ l r, hm => by
    simp only [mentions, Bool.or_eq_false_iff] at hm
    simp only [wellT, wellT_congr t σ σ' h l hm.1, wellT_congr t σ σ' h r hm.2]
theorem wellTList_congr (t : String) (σ σ' : TEnv) (h : ∀ n, n ≠ t → σ n = σ' n) :
    ∀ es : List PExp, mentionsList t es = false → wellTList σ es = wellTList σ' es
  | [], _ => by simp only [wellTList]
  | e :: es, hm => by
    simp only [mentionsList, Bool.or_eq_false_iff] at hm
    simp only [wellTList, wellT_congr t σ σ' h e hm.1, wellTList_congr t σ σ' h es hm.2]
end

/-! ### the types of the values are `tyGood` -/

/-- every variable has a `tyGood` type -/
def GoodEnv (σ : TEnv) : Prop := ∀ n v, σ n = some v → tyGood v.ty = true

theorem mulWidth_ge (s : Nat) : 2 ≤ mulWidth s := by
  unfold mulWidth
  repeat' split
  all_goals omega

theorem constWidth_ge (v : Int) (w : Nat) (h : constWidth v = some w) : 2 ≤ w := by
  have hmem := List.mem_of_find?_eq_some h
  simp only [constWidths, List.mem_cons, List.mem_nil_iff, or_false] at hmem
  omega

theorem tyGoodList_get : ∀ (vs : List TVal) (i : Nat) (x : TVal), tyGoodList (TVal.tyList vs) = true →
    vs[i]? = some x → tyGood x.ty = true
  | [], i, x, _, h => by simp at h
  | v :: vs, 0, x, hg, h => by
    simp only [TVal.tyList, tyGoodList, Bool.and_eq_true] at hg
    simp only [List.getElem?_cons_zero, Option.some.injEq] at h
    rw [← h]; exact hg.1
  | v :: vs, i + 1, x, hg, h => by
    simp only [TVal.tyList, tyGoodList, Bool.and_eq_true] at hg
    rw [List.getElem?_cons_succ] at h
    exact tyGoodList_get vs i x hg.2 h

theorem index_good : ∀ (path : List Int) (v r : TVal), tyGood v.ty = true → v.index path = some r →
    tyGood r.ty = true
  | [], v, r, hg, h => by
    simp only [TVal.index, Option.some.injEq] at h
    rw [← h]; exact hg
  | i :: is, .tuple vs, r, hg, h => by
    simp only [TVal.index] at h
    split at h
    · split at h
      · rename_i x hx
        simp only [TVal.ty, tyGood, Bool.and_eq_true] at hg
        exact index_good is x r (tyGoodList_get vs _ x hg.2 hx) h
      · cases h
    · cases h
  | [i], .int w x, r, _, h => by
    simp only [TVal.index] at h
    split at h
    · simp only [Option.some.injEq] at h
      rw [← h]; rfl
    · cases h
  | i :: j :: js, .int w x, r, _, h => by simp [TVal.index] at h
  | i :: is, .bool _, r, _, h => by simp [TVal.index] at h
  | i :: is, .char _, r, _, h => by simp [TVal.index] at h

theorem semTList_length (σ : TEnv) : ∀ (es : List PExp) (vs : List TVal), semTList σ es = some vs →
    vs.length = es.length
  | [], vs, h => by simp only [semTList, Option.some.injEq] at h; rw [← h]; rfl
  | e :: es, vs, h => by
    simp only [semTList] at h
    split at h
    · rename_i x xs _ hxs
      simp only [Option.some.injEq] at h
      rw [← h, List.length_cons, List.length_cons, semTList_length σ es xs hxs]
    · cases h

mutual
theorem semT_good (σ : TEnv) (hσ : GoodEnv σ) :
    ∀ (e : PExp) (v : TVal), inFragT e = true → semT σ e = some v → tyGood v.ty = true
  | .name n, v, _, h => hσ n v (by simpa only [semT] using h)
  | .cbool _, v, _, h => by simp only [semT, Option.some.injEq] at h; rw [← h]; rfl
  | .cchar _, v, _, h => by
    simp only [semT] at h
    split at h
    · simp only [Option.some.injEq] at h; rw [← h]; rfl
    · cases h
  | .unsupported _, v, _, h => by simp [semT] at h
  | .cint c, v, _, h => by
    simp only [semT] at h
    split at h
    · rename_i w hw
      simp only [Option.some.injEq] at h
      rw [← h]
      simpa [TVal.ty, tyGood] using constWidth_ge c w hw
    · cases h
  | .subs n p, v, _, h => by
    simp only [semT] at h
    split at h
    · rename_i x hx
      exact index_good p x v (hσ n x hx) h
    · cases h
  | .not e, v, _, h => by
    simp only [semT] at h
    split at h
    · rename_i x _
      cases x <;> simp only [notT, Option.some.injEq, reduceCtorEq] at h
      rw [← h]; rfl
    · cases h
  | .inv e, v, hf, h => by
    simp only [semT] at h
    split at h
    · rename_i x hx
      have hg := semT_good σ hσ e x (by simpa [inFragT] using hf) hx
      cases x <;> simp only [invT, Option.some.injEq, reduceCtorEq] at h
      rw [← h]; exact hg
    · cases h
  | .boolop _ vs, v, _, h => by
    simp only [semT] at h
    split at h
    · simp only [Option.map_eq_some_iff] at h
      obtain ⟨b, _, rfl⟩ := h
      rfl
    · cases h
  | .ite c a b, v, hf, h => by
    simp only [inFragT, Bool.and_eq_true] at hf
    simp only [semT] at h
    split at h
    · rename_i cv x y hc hx hy
      have hgx := semT_good σ hσ a x hf.1.2 hx
      have hgy := semT_good σ hσ b y hf.2 hy
      cases cv <;> cases x <;> cases y <;> simp only [iteT, Option.some.injEq, reduceCtorEq] at h
      · rw [← h]; rfl
      · rw [← h]
        simp only [TVal.ty, tyGood, decide_eq_true_eq] at hgx hgy ⊢
        omega
      · rw [← h]; rfl
      · split at h
        · simp only [Option.some.injEq] at h
          rw [← h]
          split
          · exact hgx
          · exact hgy
        · cases h
    · cases h
  | .cmp op l r, v, _, h => by
    simp only [semT] at h
    split at h
    · rename_i x y _ _
      cases x <;> cases y <;> simp only [cmpT, Option.map_eq_some_iff, reduceCtorEq] at h
      · obtain ⟨b, _, rfl⟩ := h; rfl
      · obtain ⟨b, _, rfl⟩ := h; rfl
      · obtain ⟨b, _, rfl⟩ := h; rfl
      · obtain ⟨b, _, rfl⟩ := h; rfl
      · split at h
        · split at h
          · simp only [Option.some.injEq] at h; rw [← h]; rfl
          · simp only [Option.some.injEq] at h; rw [← h]; rfl
          · cases h
        · cases h
    · cases h
  | .bin op l r, v, hf, h => by
    simp only [inFragT, Bool.and_eq_true] at hf
    simp only [semT] at h
    split at h
    · -- bool left operand
      split at h
      · simp only [Option.map_eq_some_iff] at h
        obtain ⟨sv, hsv, rfl⟩ := h
        unfold boolBin at hsv
        split at hsv <;> simp only [Option.some.injEq, reduceCtorEq] at hsv <;> (rw [← hsv]; rfl)
      · cases h
    · rename_i wl xl hl
      have h1 := semT_good σ hσ l _ hf.1.2 hl
      simp only [TVal.ty, tyGood, decide_eq_true_eq] at h1
      split at h
      · split at h
        · split at h
          · cases h
          · split at h
            · simp only [Option.some.injEq] at h
              rw [← h]; simpa [TVal.ty, tyGood] using h1
            · simp only [Option.some.injEq] at h
              rw [← h]; simpa [TVal.ty, tyGood] using h1
        · cases h
      · split at h
        · rename_i wr xr hr
          have h2 := semT_good σ hσ r _ hf.2 hr
          simp only [TVal.ty, tyGood, decide_eq_true_eq] at h2
          simp only [Option.map_eq_some_iff] at h
          obtain ⟨sv, hsv, rfl⟩ := h
          unfold intBin at hsv
          have hm := mulWidth_ge (max wl wr + max wl wr)
          split at hsv
          all_goals (try split at hsv)
          all_goals simp only [Option.some.injEq, reduceCtorEq] at hsv
          all_goals (rw [← hsv]; simp only [SVal.toT, TVal.ty, tyGood, decide_eq_true_eq]; omega)
        · cases h
    · cases h
  | .tuple es, v, hf, h => by
    simp only [inFragT, Bool.and_eq_true, decide_eq_true_eq] at hf
    simp only [semT] at h
    split at h
    · rename_i xs hxs
      simp only [Option.some.injEq] at h
      rw [← h]
      simp only [TVal.ty, tyGood, Bool.and_eq_true, decide_eq_true_eq]
      refine ⟨?_, semTList_good σ hσ es xs hf.2 hxs⟩
      rw [tyList_length, semTList_length σ es xs hxs]
      exact hf.1
    · cases h
theorem semTList_good (σ : TEnv) (hσ : GoodEnv σ) :
    ∀ (es : List PExp) (vs : List TVal), inFragTList es = true → semTList σ es = some vs →
      tyGoodList (TVal.tyList vs) = true
  | [], vs, _, h => by simp only [semTList, Option.some.injEq] at h; rw [← h]; rfl
  | e :: es, vs, hf, h => by
    simp only [inFragTList, Bool.and_eq_true] at hf
    simp only [semTList] at h
    split at h
    · rename_i x xs hx hxs
      simp only [Option.some.injEq] at h
      rw [← h]
      simp only [TVal.tyList, tyGoodList, Bool.and_eq_true]
      exact ⟨semT_good σ hσ e x hf.1 hx, semTList_good σ hσ es xs hf.2 hxs⟩
    · cases h
end

end QV.Sem
