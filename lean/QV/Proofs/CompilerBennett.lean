import QV.Proofs.CompilerReplay
/-!
# Cleanliness of the inline `uncompute` replay

`bennett_replay` (`Bennett.lean`) instantiated with the keep set "neither argument qubit nor marked":
the gates `uncompute` appends (given up to gate identity by `gcore`) restore every qubit except the
result qubit.
-/
namespace QV.Compiler
open QV

theorem GateOK.wires_ne_nil {n : Nat} {g : AGate} (h : GateOK n g) : g.wires ≠ [] := by
  intro e
  have h1 := h.1
  have h4 := h.2.2.2
  rw [e] at h4
  cases hc : g.cls <;> rw [hc] at h1 h4 <;> simp [GClass.isMCXLike, GClass.nQubits] at h1 h4

theorem GateOK.getLast?_eq {n : Nat} {g : AGate} (h : GateOK n g) :
    g.wires.getLast? = some g.target := by
  unfold AGate.target
  cases hw : g.wires.getLast? with
  | none => exact absurd (List.getLast?_eq_none_iff.mp hw) h.wires_ne_nil
  | some t => rfl

/-- Bennett replay as the compiler's inline `uncompute` performs it.  `G` = the computed gates, `M` = the
marked qubits, `n` = number of argument qubits, `a` = the (unmarked) result qubit, `U` = the replayed
gates: up to gate identity the reversed gates of `G` whose target is marked.  If every control of every
gate is an argument qubit or a marked qubit, no gate targets an argument qubit, and every target is
marked or the result qubit, then after `G ++ U` every qubit other than `a` is back to its initial value. -/
theorem replay_clean (n : Nat) (M : List Nat) (a : Nat) (G U : List AGate) (σ : BState)
    (hgood : ∀ g ∈ G, GateOK σ.length g)
    (hc : ∀ g ∈ G, ∀ c ∈ g.wires.dropLast, c < n ∨ c ∈ M)
    (ht : ∀ g ∈ G, n ≤ g.target ∧ (g.target ∈ M ∨ g.target = a))
    (hU : U.map gcore = (G.reverse.filter (fun g => M.contains g.target)).map gcore)
    (ha : a ∉ M) :
    ∀ q, q ≠ a → runF (G ++ U) (toF σ) q = toF σ q := by
  intro q hqa
  have _ := ha  -- not needed for the conclusion; kept for the caller's convenience
  let K : Nat → Bool := fun q => decide (n ≤ q) && !M.contains q
  have hKdef : ∀ x, K x = (decide (n ≤ x) && !M.contains x) := fun _ => rfl
  have hlast : ∀ g ∈ G, g.wires.getLast? = some g.target := fun g hg => (hgood g hg).getLast?_eq
  have htin : ∀ g ∈ G, targetIn K g = !M.contains g.target := by
    intro g hg
    unfold targetIn; rw [hlast g hg]
    simp [hKdef, (ht g hg).1]
  have hrep : replayed K G = G.filter (fun g => M.contains g.target) := by
    unfold replayed
    apply List.filter_congr
    intro g hg
    rw [htin g hg]; simp
  have hsafe : ReplaySafe K G := by
    intro g hg _
    unfold controlsOff
    rw [List.all_eq_true]
    intro c hc'
    rcases hc g hg c hc' with h | h
    · have : ¬ n ≤ c := by omega
      simp [hKdef, this]
    · simp [hKdef, h]
  have hU' : U.map gcore = ((replayed K G).reverse).map gcore := by
    rw [hrep, ← List.filter_reverse]; exact hU
  have hwires : ∀ g ∈ G ++ (replayed K G).reverse, ∀ w ∈ g.wires, w < σ.length := by
    intro g hg
    rcases List.mem_append.mp hg with h | h
    · exact (hgood g h).2.2.1
    · exact (hgood g (List.mem_filter.mp (List.mem_reverse.mp h)).1).2.2.1
  have hb := bennett_replay K G (fun g hg => (hgood g hg).2.1) hsafe σ
  rw [runF_append, runF_gcore hU', ← runF_append, ← runF_spec _ σ hwires]
  show (runClassical (G ++ (replayed K G).reverse) σ).getD q false = σ.getD q false
  cases hK : K q with
  | false => exact hb.2 q hK
  | true =>
    rw [hb.1 q hK]
    have e : (runClassical G σ).getD q false = runF G (toF σ) q :=
      congrFun (runF_spec G σ (fun g hg => (hgood g hg).2.2.1)) q
    rw [e]
    apply untargeted_runF
    intro g hg e2
    rw [hlast g hg] at e2
    have htq : g.target = q := by simpa using e2
    rcases (ht g hg).2 with h | h
    · rw [htq] at h
      simp [hKdef, h] at hK
    · exact hqa (htq ▸ h)

end QV.Compiler
