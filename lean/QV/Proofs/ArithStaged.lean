import QV.Proofs.Mul
import QV.Model.ArithStaged
/-! The row-by-row evaluation of the product (`QV/Model/ArithStaged.lean`: the driver's way to evaluate the model of
`QintImp.mul` on operands of the largest widths) gives every bit the value the bit of `QV.Arith.qMul` has:
`mulRow` reads the product list and the carry only through constructors, and `eval` is a homomorphism. -/
namespace QV.Arith
open QV

theorem eval_litB (ρ : Env) (b : Bool) : (litB b).eval ρ = b := by
  cases b <;> simp [litB, BExp.eval]

theorem evalBits_map_litB (ρ : Env) (l : List BExp) :
    evalBits ρ (l.map fun e => litB (e.eval ρ)) = evalBits ρ l := by
  induction l with
  | nil => rfl
  | cons a as ih => simp [evalBits, eval_litB] at *

theorem getD_eval_congr (ρ : Env) (P P' : List BExp) (k : Nat) (h : evalBits ρ P = evalBits ρ P') :
    (P.getD k .ff).eval ρ = (P'.getD k .ff).eval ρ := by
  rw [← evalBits_getD, ← evalBits_getD, h]

theorem fullAdder_congr (ρ : Env) (c c' a b b' : BExp) (hc : c.eval ρ = c'.eval ρ) (hb : b.eval ρ = b'.eval ρ) :
    (fullAdder c a b).1.eval ρ = (fullAdder c' a b').1.eval ρ ∧
    (fullAdder c a b).2.eval ρ = (fullAdder c' a b').2.eval ρ := by
  simp [fullAdder, BExp.eval, evalAnd, evalXor, hc, hb]

/-- the inner loop depends on the carry and on the product list only through their values -/
theorem mulRow_congr (ρ : Env) (li : BExp) (last : Nat) (rs : List BExp) :
    ∀ (c c' : BExp) (k : Nat) (P P' : List BExp),
      c.eval ρ = c'.eval ρ → evalBits ρ P = evalBits ρ P' →
      evalBits ρ (mulRow li last c k rs P) = evalBits ρ (mulRow li last c' k rs P') := by
  induction rs with
  | nil =>
    intro c c' k P P' hc hP
    simp only [mulRow, evalBits_set, hc, hP]
  | cons rj rs ih =>
    intro c c' k P P' hc hP
    simp only [mulRow]
    have hg := getD_eval_congr ρ P P' k hP
    by_cases hk : k < last
    · simp only [hk, if_true]
      have hfa := fullAdder_congr ρ c c' (BExp.and [li, rj]) (P.getD k .ff) (P'.getD k .ff) hc hg
      apply ih
      · exact hfa.1
      · simp only [evalBits_set, hP, hfa.2]
    · simp only [hk, if_false]
      apply ih
      · exact hc
      · simp only [evalBits_set, hP]
        congr 1
        simp [BExp.eval, evalXor, hc]

/-- the outer loop run under the assignment: same values as `mulRows` -/
theorem mulRowsLit_eval (ρ : Env) (r : List BExp) (last : Nat) (ls : List BExp) :
    ∀ (i : Nat) (P P' : List BExp), evalBits ρ P = evalBits ρ P' →
      evalBits ρ (mulRowsLit ρ r last i ls P) = evalBits ρ (mulRows r last i ls P') := by
  induction ls with
  | nil => intro i P P' h; simpa [mulRowsLit, mulRows] using h
  | cons li ls ih =>
    intro i P P' h
    simp only [mulRowsLit, mulRows]
    apply ih
    rw [evalBits_map_litB]
    exact mulRow_congr ρ li last r .ff .ff i P P' rfl h

theorem schoolbookLit_eval (ρ : Env) (l r : List BExp) :
    evalBits ρ (schoolbookLit ρ l r) = evalBits ρ (schoolbook l r) := by
  unfold schoolbookLit schoolbook
  exact mulRowsLit_eval ρ r _ l 0 _ _ rfl

theorem evalBits_fill_congr (ρ : Env) (n : Nat) (a b : List BExp) (h : evalBits ρ a = evalBits ρ b) :
    evalBits ρ (fill n a) = evalBits ρ (fill n b) := by
  have hl : a.length = b.length := by simpa using congrArg List.length h
  unfold fill
  rw [hl]
  split
  · exact h
  · rw [evalBits_append, evalBits_append, h]

theorem evalBits_crop_congr (ρ : Env) (n : Nat) (a b : List BExp) (h : evalBits ρ a = evalBits ρ b) :
    evalBits ρ (crop n a) = evalBits ρ (crop n b) := by
  have hl : a.length = b.length := by simpa using congrArg List.length h
  unfold crop
  rw [hl]
  split
  · exact h
  · rw [evalBits_take, evalBits_take, h]

/-- **the tie of the driver's evaluation of wide products**: for every assignment, both `is_const` outcomes and all
widths, `qMulLit ρ` has the result type of `qMul` (the repaired code: `Quirks.none`) and each of its bits has, under
`ρ`, the value of the corresponding bit of `qMul` -/
theorem qMulLit_eval (ρ : Env) (cl cr : Bool) (nl nr : Nat) (l r : List BExp) :
    (qMulLit ρ cl cr nl nr l r).1 = (qMul Quirks.none cl cr nl nr l r).1 ∧
    evalBits ρ (qMulLit ρ cl cr nl nr l r).2 = evalBits ρ (qMul Quirks.none cl cr nl nr l r).2 := by
  have hq : Quirks.none.mulEvenConst = false := rfl
  unfold qMulLit qMul
  simp only [hq, Bool.false_and, Bool.false_eq_true, if_false, true_and]
  apply evalBits_crop_congr
  apply evalBits_fill_congr
  exact schoolbookLit_eval ρ _ _

end QV.Arith
