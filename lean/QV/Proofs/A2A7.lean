import QV.Proofs.A2A1
/-! The guard-stack semantics `QV.A2A.exec` is control flow: a statement that sits under a guard that does not
hold changes no value (it only widens types), and an assignment under guards that all hold stores the value of
its right-hand side. -/
namespace QV.A2A
open QV QV.Front QV.Sem

set_option linter.unusedSimpArgs false
set_option linter.unusedVariables false

/-- the same python value (a `Qint` may have been widened) -/
def sameVal : Option SVal → Option SVal → Prop
  | some (.bool a), some (.bool b) => a = b
  | some (.int _ x), some (.int _ y) => x = y
  | none, none => True
  | _, _ => False

theorem sameVal_refl (a : Option SVal) : sameVal a a := by
  cases a with
  | none => trivial
  | some v => cases v <;> simp [sameVal]

theorem sameVal_trans {a b c : Option SVal} (h1 : sameVal a b) (h2 : sameVal b c) : sameVal a c := by
  cases a with
  | none => cases b with
    | none => exact h2
    | some v => cases v <;> simp [sameVal] at h1
  | some u =>
    cases b with
    | none => cases u <;> simp [sameVal] at h1
    | some v =>
      cases c with
      | none => cases v <;> simp [sameVal] at h2
      | some w =>
        cases u <;> cases v <;> cases w <;> simp [sameVal] at h1 h2 ⊢
        all_goals exact h1.trans h2

/-- the environments hold the same python values -/
def SameVals (σ σ' : SEnv) : Prop := ∀ n, sameVal (σ n) (σ' n)

theorem SameVals.refl (σ : SEnv) : SameVals σ σ := fun n => sameVal_refl _

theorem SameVals.trans {a b c : SEnv} (h1 : SameVals a b) (h2 : SameVals b c) : SameVals a c :=
  fun n => sameVal_trans (h1 n) (h2 n)

theorem allHold_append_false (gs : List (SVal × Bool)) (p : SVal × Bool) (h : allHold gs = false) :
    allHold (gs ++ [p]) = false := by
  induction gs with
  | nil => simp [allHold] at h
  | cons q gs ih =>
    obtain ⟨g, w⟩ := q
    cases g with
    | bool b =>
      simp only [allHold, Bool.and_eq_false_iff] at h
      simp only [List.cons_append, allHold, Bool.and_eq_false_iff]
      rcases h with h | h
      · exact Or.inl h
      · exact Or.inr (ih h)
    | int a x =>
      simp only [allHold] at h
      simp only [List.cons_append, allHold]
      exact ih h

/-- under a guard that does not hold the stored value is the old one -/
theorem wrapW_skipped (gs : List (SVal × Bool)) (h : allHold gs = false) (v o w : SVal)
    (hw : wrapW gs v o = some w) : sameVal (some o) (some w) := by
  have hne : gs ≠ [] := by intro hh; subst hh; simp [allHold] at h
  rw [wrapW_closed gs hne] at hw
  split at hw
  · rw [h] at hw
    cases v <;> cases o <;> simp [joinV] at hw <;> subst hw <;> simp [sameVal]
  · cases hw

/-- under guards that all hold the stored value is the new one -/
theorem wrapW_taken (gs : List (SVal × Bool)) (h : allHold gs = true) (v o w : SVal)
    (hw : wrapW gs v o = some w) : sameVal (some v) (some w) := by
  by_cases hne : gs = []
  · subst hne
    simp only [wrapW, Option.some.injEq] at hw
    subst hw
    exact sameVal_refl _
  · rw [wrapW_closed gs hne] at hw
    split at hw
    · rw [h] at hw
      cases v <;> cases o <;> simp [joinV] at hw <;> subst hw <;> simp [sameVal]
    · cases hw

theorem assignG_skipped (gs : List (SVal × Bool)) (h : allHold gs = false) (σ σ' : SEnv) (t : String) (v : SVal)
    (ha : assignG gs σ t v = some σ') : SameVals σ σ' := by
  cases gs with
  | nil => simp [allHold] at h
  | cons p gs =>
    simp only [assignG] at ha
    cases ho : σ t with
    | none => simp [ho] at ha
    | some o =>
      simp only [ho] at ha
      cases hw : wrapW (p :: gs) v o with
      | none => simp [hw] at ha
      | some w =>
        simp only [hw, Option.some.injEq] at ha
        subst ha
        intro n
        by_cases hn : n = t
        · subst hn
          simp only [SEnv.set, beq_self_eq_true, if_true, ho]
          exact wrapW_skipped _ h v o w hw
        · simp only [SEnv.set, beq_iff_eq, hn, if_false]
          exact sameVal_refl _

theorem foldlM_sameVals {α : Type} (f : SEnv → α → Option SEnv)
    (hf : ∀ σ a σ', f σ a = some σ' → SameVals σ σ') :
    ∀ (l : List α) (σ σ' : SEnv), l.foldlM f σ = some σ' → SameVals σ σ'
  | [], σ, σ', h => by
    simp only [List.foldlM_nil, pure, Option.some.injEq] at h
    subst h; exact SameVals.refl _
  | a :: l, σ, σ', h => by
    simp only [List.foldlM_cons, bind, Option.bind] at h
    cases h1 : f σ a with
    | none => simp [h1] at h
    | some σ1 =>
      simp only [h1] at h
      exact (hf σ a σ1 h1).trans (foldlM_sameVals f hf l σ1 σ' h)

theorem exec_assign_some {gs : List (SVal × Bool)} {σ σ' : SEnv} {ts : List SExp} {e : SExp}
    (h : exec gs σ (.assign ts e) = some σ') :
    ∃ t v, ts = [.name t] ∧ semW σ (toP e) = some v ∧ assignG gs σ t v = some σ' := by
  cases ts with
  | nil => simp [exec] at h
  | cons a r =>
    cases r with
    | cons b r' => cases a <;> simp [exec] at h
    | nil =>
      cases a with
      | name t =>
        simp only [exec] at h
        cases hv : semW σ (toP e) with
        | none => simp [hv] at h
        | some v => simp only [hv] at h; exact ⟨t, v, rfl, rfl, h⟩
      | _ => simp [exec] at h

theorem allHold_snoc_wrong (gs : List (SVal × Bool)) (g w : Bool) (h : g ≠ w) :
    allHold (gs ++ [(.bool g, w)]) = false := by
  induction gs with
  | nil => cases g <;> cases w <;> simp [allHold] at h ⊢
  | cons p gs ih =>
    obtain ⟨q, w'⟩ := p
    cases q <;> simp [allHold, ih]

mutual
/-- **a skipped statement changes no value**: under a guard stack one of whose guards does not hold, whatever
the statement does (assignments, loops, nested `if`s) leaves every variable with the python value it had -/
theorem exec_skipped_keeps_values : ∀ (s : SStmt) (gs : List (SVal × Bool)), allHold gs = false →
    ∀ (σ σ' : SEnv), exec gs σ s = some σ' → SameVals σ σ'
  | .assign ts e, gs, hg, σ, σ', h => by
    obtain ⟨t, v, _, _, ha⟩ := exec_assign_some h
    exact assignG_skipped gs hg σ σ' t v ha
  | .aug tg op e, gs, hg, σ, σ', h => by
    cases tg with
    | name t =>
      simp only [exec] at h
      cases hv : semW σ (toP (.bin op (.name t) e)) with
      | none => simp [hv] at h
      | some v => simp only [hv] at h; exact assignG_skipped gs hg σ σ' t v h
    | _ => simp [exec] at h
  | .expr _, gs, hg, σ, σ', h => by
    simp only [exec, Option.some.injEq] at h
    subst h; exact SameVals.refl _
  | .ifs c b e, gs, hg, σ, σ', h => by
    simp only [exec] at h
    cases hc : semW σ (toP c) with
    | none => simp [hc] at h
    | some g =>
      simp only [hc] at h
      cases hb : execList (gs ++ [(g, true)]) σ b with
      | none => simp [hb] at h
      | some σ1 =>
        simp only [hb] at h
        exact (execList_skipped_keeps_values b _ (allHold_append_false gs _ hg) σ σ1 hb).trans
          (execList_skipped_keeps_values e _ (allHold_append_false gs _ hg) σ1 σ' h)
  | .for_ tg it b e, gs, hg, σ, σ', h => by
    cases tg with
    | name v =>
      simp only [exec] at h
      cases hv : staticVals it with
      | none => simp [hv] at h
      | some vals =>
        simp only [hv] at h
        split at h
        · rename_i σ1 hfold
          refine SameVals.trans (foldlM_sameVals _ ?_ vals σ σ1 hfold)
            (execList_skipped_keeps_values e gs hg σ1 σ' h)
          intro σa val σb hstep
          cases hx : semW σa (toP val) with
          | none => simp [hx] at hstep
          | some x =>
            simp only [hx] at hstep
            cases ha : assignG gs σa v x with
            | none => simp [ha] at hstep
            | some σc =>
              simp only [ha] at hstep
              exact (assignG_skipped gs hg σa σc v x ha).trans
                (execList_skipped_keeps_values b gs hg σc σb hstep)
        · cases h
    | _ => simp [exec] at h
  | .ann _ _ _, _, _, _, _, h => by simp [exec] at h
  | .ret _, _, _, _, _, h => by simp [exec] at h
  | .other _, _, _, _, _, h => by simp [exec] at h
theorem execList_skipped_keeps_values : ∀ (ss : List SStmt) (gs : List (SVal × Bool)), allHold gs = false →
    ∀ (σ σ' : SEnv), execList gs σ ss = some σ' → SameVals σ σ'
  | [], gs, hg, σ, σ', h => by
    simp only [execList, Option.some.injEq] at h
    subst h; exact SameVals.refl _
  | s :: ss, gs, hg, σ, σ', h => by
    simp only [execList] at h
    cases h1 : exec gs σ s with
    | none => simp [h1] at h
    | some σ1 =>
      simp only [h1] at h
      exact (exec_skipped_keeps_values s gs hg σ σ1 h1).trans
        (execList_skipped_keeps_values ss gs hg σ1 σ' h)
end

/-- **an `if` runs one branch**: the test is evaluated once, to `g`; the statements of the branch `g` does not
select change no value -/
theorem if_runs_one_branch (gs : List (SVal × Bool)) (σ σ1 σ' : SEnv) (c : SExp) (b e : List SStmt) (g : Bool)
    (hc : semW σ (toP c) = some (.bool g)) (hb : execList (gs ++ [(.bool g, true)]) σ b = some σ1)
    (he : execList (gs ++ [(.bool g, false)]) σ1 e = some σ') :
    exec gs σ (.ifs c b e) = some σ' ∧ (g = false → SameVals σ σ1) ∧ (g = true → SameVals σ1 σ') := by
  refine ⟨by simp only [exec, hc, hb, he], fun hg => ?_, fun hg => ?_⟩
  · subst hg
    exact execList_skipped_keeps_values b _ (allHold_snoc_wrong gs false true (by decide)) σ σ1 hb
  · subst hg
    exact execList_skipped_keeps_values e _ (allHold_snoc_wrong gs true false (by decide)) σ1 σ' he

end QV.A2A
