import QV.Proofs.FrontX2
/-! `semT` against `semXT`, part 3: the structural induction, straight-line bodies, programs, claimed bits. -/
namespace QV.Sem
open QV QV.Arith QV.Front

set_option linter.unusedSimpArgs false
set_option linter.unusedVariables false

/-- the environments of the two widened semantics give every variable agreeing values -/
def EnvAgreeT (σX : XTEnv) (σW : TEnv) : Prop :=
  ∀ n xv sv, σX n = some xv → σW n = some sv → AgreeT xv sv

mutual
/-- **`SemT` against the widened `Sem`**: on every expression on which both are defined, the fixed-width
value agrees with the exact python value as far as the latter claims, leaf by leaf -/
theorem semT_agree (σX : XTEnv) (σW : TEnv) (henv : EnvAgreeT σX σW) :
    ∀ (e : PExp) (sv : TVal) (xv : XT), semT σW e = some sv → semXT σX e = some xv → AgreeT xv sv
  | .name n, sv, xv, hw, hx =>
    henv n xv sv (by simpa only [semXT] using hx) (by simpa only [semT] using hw)
  | .cbool b, sv, xv, hw, hx => by
    simp only [semT, Option.some.injEq] at hw
    simp only [semXT, Option.some.injEq] at hx
    subst hw; subst hx
    simp [AgreeT, Agree]
  | .cchar c, sv, xv, hw, hx => by
    simp only [semT] at hw
    simp only [semXT] at hx
    split at hw
    · rename_i hc
      simp only [hc, if_true, Option.some.injEq] at hx
      simp only [Option.some.injEq] at hw
      subst hw; subst hx
      simp [AgreeT, hc]
    · cases hw
  | .unsupported _, sv, xv, hw, hx => by simp [semT] at hw
  | .cint v, sv, xv, hw, hx => by
    simp only [semT] at hw
    simp only [semXT] at hx
    cases hc : constWidth v with
    | none => simp [hc] at hw
    | some w =>
      simp only [hc, Option.some.injEq] at hw hx
      subst hw; subst hx
      simp only [AgreeT]
      have hlt : v < (2 : Int) ^ w := by
        have := List.find?_some hc
        simpa using this
      have hp := pow2_pos_int w
      have hcast := toNat_emod_cast v w
      have hY : (v % (2 : Int) ^ w).toNat < 2 ^ w := by
        apply Int.ofNat_lt.mp
        rw [hcast, cast_pow2]
        exact Int.emod_lt_of_pos _ hp
      by_cases h0 : 0 ≤ v
      · simp only [h0, if_true]
        exact ⟨rfl, hY, fun _ => by rw [hcast, Int.emod_eq_of_lt h0 hlt], fun j hj => (by cases hj)⟩
      · simp only [h0, if_false]
        refine ⟨rfl, hY, fun h => (by cases h), fun j hj => ?_⟩
        cases hj
        exact ⟨Nat.le_refl _, by rw [hcast, Int.emod_emod_of_dvd _ (Int.dvd_refl _)]⟩
  | .subs n path, sv, xv, hw, hx => by
    simp only [semT] at hw
    simp only [semXT] at hx
    cases hw1 : σW n with
    | none => simp [hw1] at hw
    | some s1 =>
    cases hx1 : σX n with
    | none => simp [hx1] at hx
    | some x1 =>
    simp only [hw1] at hw
    simp only [hx1] at hx
    exact index_agree path x1 s1 sv xv (henv n x1 s1 hx1 hw1) hw hx
  | .not e, sv, xv, hw, hx => by
    simp only [semT] at hw
    simp only [semXT] at hx
    cases hw1 : semT σW e with
    | none => simp [hw1] at hw
    | some s1 =>
    cases hx1 : semXT σX e with
    | none => simp [hx1] at hx
    | some x1 =>
    simp only [hw1] at hw
    simp only [hx1] at hx
    exact notT_agree (semT_agree σX σW henv e s1 x1 hw1 hx1) hw hx
  | .inv e, sv, xv, hw, hx => by
    simp only [semT] at hw
    simp only [semXT] at hx
    cases hw1 : semT σW e with
    | none => simp [hw1] at hw
    | some s1 =>
    cases hx1 : semXT σX e with
    | none => simp [hx1] at hx
    | some x1 =>
    simp only [hw1] at hw
    simp only [hx1] at hx
    exact invT_agree (semT_agree σX σW henv e s1 x1 hw1 hx1) hw hx
  | .boolop isAnd vs, sv, xv, hw, hx => by
    simp only [semT] at hw
    simp only [semXT] at hx
    cases hw1 : semTList σW vs with
    | none => simp [hw1] at hw
    | some ss =>
    cases hx1 : semXTList σX vs with
    | none => simp [hx1] at hx
    | some xs =>
    have ih := semTList_agree σX σW henv vs ss xs hw1 hx1
    simp only [hw1] at hw
    simp only [hx1] at hx
    cases hl : leavesOf xs with
    | none => simp [hl] at hx
    | some ls =>
    simp only [hl] at hx
    obtain ⟨ss', rfl, hf⟩ := leaves_agree xs ss ls ih hl
    rw [boolFoldT_toT] at hw
    cases hf' : boolFold isAnd ss' with
    | none => simp [hf'] at hw
    | some b' =>
    cases hfx : boolFoldX isAnd ls with
    | none => simp [hfx] at hx
    | some p =>
    obtain ⟨r, kk⟩ := p
    simp only [hf', Option.map_some, Option.some.injEq] at hw
    simp only [hfx, Option.map_some, Option.some.injEq] at hx
    subst hw; subst hx
    simp only [AgreeT]
    apply mkBool_agree
    exact boolFold_agree isAnd ls ss' hf r kk b' hfx hf'
  | .ite c a b, sv, xv, hw, hx => by
    simp only [semT] at hw
    simp only [semXT] at hx
    cases hwc : semT σW c with
    | none => simp [hwc] at hw
    | some sc =>
    cases hwa : semT σW a with
    | none => simp [hwc, hwa] at hw
    | some sa =>
    cases hwb : semT σW b with
    | none => simp [hwc, hwa, hwb] at hw
    | some sb =>
    cases hxc : semXT σX c with
    | none => simp [hxc] at hx
    | some xc =>
    cases hxa : semXT σX a with
    | none => simp [hxc, hxa] at hx
    | some xa =>
    cases hxb : semXT σX b with
    | none => simp [hxc, hxa, hxb] at hx
    | some xb =>
    simp only [hwc, hwa, hwb] at hw
    simp only [hxc, hxa, hxb] at hx
    exact iteT_agree (semT_agree σX σW henv c sc xc hwc hxc) (semT_agree σX σW henv a sa xa hwa hxa)
      (semT_agree σX σW henv b sb xb hwb hxb) hw hx
  | .cmp op l r, sv, xv, hw, hx => by
    simp only [semT] at hw
    simp only [semXT] at hx
    cases hwl : semT σW l with
    | none => simp [hwl] at hw
    | some sl =>
    cases hwr : semT σW r with
    | none => simp [hwl, hwr] at hw
    | some sr =>
    cases hxl : semXT σX l with
    | none => simp [hxl] at hx
    | some xl =>
    cases hxr : semXT σX r with
    | none => simp [hxl, hxr] at hx
    | some xr =>
    simp only [hwl, hwr] at hw
    simp only [hxl, hxr] at hx
    exact cmpT_agree op (semT_agree σX σW henv l sl xl hwl hxl) (semT_agree σX σW henv r sr xr hwr hxr) hw hx
  | .tuple es, sv, xv, hw, hx => by
    simp only [semT] at hw
    simp only [semXT] at hx
    cases hw1 : semTList σW es with
    | none => simp [hw1] at hw
    | some ss =>
    cases hx1 : semXTList σX es with
    | none => simp [hx1] at hx
    | some xs =>
    simp only [hw1, Option.some.injEq] at hw
    simp only [hx1, Option.some.injEq] at hx
    subst hw; subst hx
    simp only [AgreeT]
    exact semTList_agree σX σW henv es ss xs hw1 hx1
  | .bin op l r, sv, xv, hw, hx => by
    simp only [semT] at hw
    simp only [semXT] at hx
    cases hwl : semT σW l with
    | none => simp [hwl] at hw
    | some sl =>
    cases hxl : semXT σX l with
    | none => simp [hxl] at hx
    | some xl =>
    have ihl := semT_agree σX σW henv l sl xl hwl hxl
    cases sl with
    | char _ => simp [hwl] at hw
    | tuple _ => simp [hwl] at hw
    | bool a' =>
      obtain ⟨a0, kl, rfl, _⟩ := agreeT_bool_inv ihl
      simp only [AgreeT] at ihl
      simp only [hwl] at hw
      simp only [hxl] at hx
      cases hwr : semT σW r with
      | none => simp [hwr] at hw
      | some sr =>
      cases hxr : semXT σX r with
      | none => simp [hxr] at hx
      | some xr =>
      have ihr := semT_agree σX σW henv r sr xr hwr hxr
      cases sr with
      | int _ _ => simp [hwr] at hw
      | char _ => simp [hwr] at hw
      | tuple _ => simp [hwr] at hw
      | bool b' =>
        obtain ⟨b0, kr, rfl, _⟩ := agreeT_bool_inv ihr
        simp only [AgreeT] at ihr
        simp only [hwr] at hw
        simp only [hxr] at hx
        cases hw0 : boolBin op a' b' with
        | none => simp [hw0] at hw
        | some sv0 =>
        cases hx0 : boolBinX op a0 b0 (kmin kl kr) with
        | none => simp [hx0] at hx
        | some xv0 =>
        simp only [hw0, Option.map_some, Option.some.injEq] at hw
        simp only [hx0, Option.map_some, Option.some.injEq] at hx
        subst hw; subst hx
        exact agreeT_leaf.mpr (boolBin_agree op a0 b0 a' b' kl kr ihl ihr sv0 xv0 hw0 hx0)
    | int wl yl =>
      obtain ⟨xl0, kl, rfl, _⟩ := agreeT_int_inv ihl
      simp only [AgreeT] at ihl
      simp only [hwl] at hw
      simp only [hxl] at hx
      split at hw
      · -- shifts
        rename_i hop
        simp only [hop, if_true] at hx
        split at hw
        · rename_i kc
          simp only at hx
          split at hw
          · cases hw
          · rename_i hk0
            simp only [hk0, if_false] at hx
            split at hw
            · rename_i hls
              simp only [hls, if_true, Option.some.injEq] at hx
              simp only [Option.some.injEq] at hw
              subst hw; subst hx
              simp only [AgreeT]
              apply mkInt_agree _ _ _ _ (Nat.mod_lt _ (Nat.pow_pos (by decide)))
              intro j hj hwi
              rw [natmod_cong _ hj, Int.natCast_mul, cast_pow2]
              exact cong_mul (agree_cong ihl hwi) rfl
            · rename_i hls
              simp only [hls, Bool.false_eq_true, if_false, Option.some.injEq] at hx
              simp only [Option.some.injEq] at hw
              subst hw; subst hx
              simp only [AgreeT]
              apply mkOpen_agree _ _ _ _ (Nat.lt_of_le_of_lt (Nat.div_le_self _ _) ihl.2.1)
              intro hk
              rw [← ihl.2.2.1 hk, Int.fdiv_eq_ediv_of_nonneg _ (Int.le_of_lt (pow2_pos_int _)),
                Int.natCast_ediv, cast_pow2]
        · cases hw
      · rename_i hop
        simp only [hop, if_false] at hx
        cases hwr : semT σW r with
        | none => simp [hwr] at hw
        | some sr =>
        cases hxr : semXT σX r with
        | none => simp [hxr] at hx
        | some xr =>
        have ihr := semT_agree σX σW henv r sr xr hwr hxr
        cases sr with
        | bool _ => simp [hwr] at hw
        | char _ => simp [hwr] at hw
        | tuple _ => simp [hwr] at hw
        | int wr yr =>
          obtain ⟨xr0, kr, rfl, _⟩ := agreeT_int_inv ihr
          simp only [AgreeT] at ihr
          simp only [hwr] at hw
          simp only [hxr] at hx
          cases hw0 : intBin op wl wr yl yr with
          | none => simp [hw0] at hw
          | some sv0 =>
          cases hx0 : intBinX op wl wr xl0 xr0 (kmin kl kr) with
          | none => simp [hx0] at hx
          | some xv0 =>
          simp only [hw0, Option.map_some, Option.some.injEq] at hw
          simp only [hx0, Option.map_some, Bool.false_eq_true, if_false, Option.some.injEq] at hx
          subst hw; subst hx
          exact agreeT_leaf.mpr (intBin_agree op wl wr xl0 xr0 kl kr yl yr ihl ihr sv0 xv0 hw0 hx0)
theorem semTList_agree (σX : XTEnv) (σW : TEnv) (henv : EnvAgreeT σX σW) :
    ∀ (es : List PExp) (ss : List TVal) (xs : List XT), semTList σW es = some ss →
      semXTList σX es = some xs → AgreeTList xs ss
  | [], ss, xs, hw, hx => by
    simp only [semTList, Option.some.injEq] at hw
    simp only [semXTList, Option.some.injEq] at hx
    subst hw; subst hx
    trivial
  | e :: es, ss, xs, hw, hx => by
    simp only [semTList] at hw
    simp only [semXTList] at hx
    cases hw1 : semT σW e with
    | none => simp [hw1] at hw
    | some s1 =>
    cases hw2 : semTList σW es with
    | none => simp [hw1, hw2] at hw
    | some ss2 =>
    cases hx1 : semXT σX e with
    | none => simp [hx1] at hx
    | some x1 =>
    cases hx2 : semXTList σX es with
    | none => simp [hx1, hx2] at hx
    | some xs2 =>
    simp only [hw1, hw2, Option.some.injEq] at hw
    simp only [hx1, hx2, Option.some.injEq] at hx
    subst hw; subst hx
    exact ⟨semT_agree σX σW henv e s1 x1 hw1 hx1, semTList_agree σX σW henv es ss2 xs2 hw2 hx2⟩
end

/-! ### statements, programs -/

theorem envAgreeT_set {σX : XTEnv} {σW : TEnv} (h : EnvAgreeT σX σW) (t : String) {xv : XT} {sv : TVal}
    (ha : AgreeT xv sv) : EnvAgreeT (σX.set t xv) (σW.set t sv) := by
  intro n xv' sv' hx hw
  simp only [XTEnv.set] at hx
  simp only [TEnv.set] at hw
  by_cases hn : (n == t) = true
  · simp only [hn, if_true, Option.some.injEq] at hx hw
    subst hx; subst hw; exact ha
  · simp only [hn, if_false] at hx hw
    exact h n xv' sv' hx hw

theorem coerceRetT_of_toT (ret : Ty) (sv : SVal) : coerceRetT ret sv.toT = (coerceRet ret sv).map SVal.toT := by
  cases sv with
  | bool b => cases ret <;> rfl
  | int a x =>
    cases ret with
    | qint b => simp only [SVal.toT, coerceRetT, coerceRet]; split <;> rfl
    | bool => rfl
    | qchar => rfl
    | tuple _ => rfl

theorem coerceRetT_agree (ret : Ty) {xv : XT} {sv : TVal} (h : AgreeT xv sv) {sv' : TVal} {xv' : XT}
    (hw : coerceRetT ret sv = some sv') (hx : coerceRetXT ret xv = some xv') : AgreeT xv' sv' := by
  cases xv with
  | leaf x =>
    have key : ∀ s0 : SVal, sv = s0.toT → AgreeT xv' sv' := by
      intro s0 hs0
      subst hs0
      rw [coerceRetT_of_toT] at hw
      simp only [coerceRetXT] at hx
      cases hw0 : coerceRet ret s0 with
      | none => simp [hw0] at hw
      | some s1 =>
      cases hx0 : coerceRetX ret x with
      | none => simp [hx0] at hx
      | some x1 =>
      simp only [hw0, Option.map_some, Option.some.injEq] at hw
      simp only [hx0, Option.map_some, Option.some.injEq] at hx
      subst hw; subst hx
      exact agreeT_leaf.mpr (coerceRet_agree ret x s0 (agreeT_leaf.mp h) s1 x1 hw0 hx0)
    cases sv with
    | bool b => exact key (.bool b) rfl
    | int w y => exact key (.int w y) rfl
    | char _ => simp [AgreeT] at h
    | tuple _ => simp [AgreeT] at h
  | char c k =>
    cases sv with
    | char c' =>
      cases ret <;> simp only [coerceRetT, coerceRetXT, Option.some.injEq, reduceCtorEq] at hw hx
      subst hw; subst hx; exact h
    | bool _ => simp [AgreeT] at h
    | int _ _ => simp [AgreeT] at h
    | tuple _ => simp [AgreeT] at h
  | tuple xs =>
    cases sv with
    | tuple vs =>
      cases ret with
      | tuple ts =>
        simp only [coerceRetT] at hw
        simp only [coerceRetXT] at hx
        split at hw
        · split at hx
          · simp only [Option.some.injEq] at hw hx
            subst hw; subst hx; exact h
          · cases hx
        · cases hw
      | bool => simp [coerceRetT] at hw
      | qint _ => simp [coerceRetT] at hw
      | qchar => simp [coerceRetT] at hw
    | bool _ => simp [AgreeT] at h
    | int _ _ => simp [AgreeT] at h
    | char _ => simp [AgreeT] at h

theorem semBodyT_agree (ret : Ty) :
    ∀ (ss : List Stmt) (σX : XTEnv) (σW : TEnv), EnvAgreeT σX σW → ∀ (sv : TVal) (xv : XT),
      semBodyT ret σW ss = some sv → semBodyXT ret σX ss = some xv → AgreeT xv sv
  | [], _, _, _, sv, xv, hw, _ => by simp [semBodyT] at hw
  | .assign t e :: ss, σX, σW, henv, sv, xv, hw, hx => by
    simp only [semBodyT] at hw
    simp only [semBodyXT] at hx
    cases hw1 : semT σW e with
    | none => simp [hw1] at hw
    | some s1 =>
    cases hx1 : semXT σX e with
    | none => simp [hx1] at hx
    | some x1 =>
    simp only [hw1] at hw
    simp only [hx1] at hx
    exact semBodyT_agree ret ss _ _ (envAgreeT_set henv t (semT_agree σX σW henv e s1 x1 hw1 hx1)) sv xv hw hx
  | .ret e :: ss, σX, σW, henv, sv, xv, hw, hx => by
    simp only [semBodyT] at hw
    simp only [semBodyXT] at hx
    cases hw1 : semT σW e with
    | none => simp [hw1] at hw
    | some s1 =>
    cases hx1 : semXT σX e with
    | none => simp [hx1] at hx
    | some x1 =>
    simp only [hw1] at hw
    simp only [hx1] at hx
    exact coerceRetT_agree ret (semT_agree σX σW henv e s1 x1 hw1 hx1) hw hx
  | .expr e :: ss, σX, σW, henv, sv, xv, hw, hx => by
    simp only [semBodyT] at hw
    simp only [semBodyXT] at hx
    exact semBodyT_agree ret ss σX σW henv sv xv hw hx
  | .unsupported _ :: ss, _, _, _, sv, xv, hw, _ => by simp [semBodyT] at hw

theorem decodeXTList_cons (ρ : QV.Env) (base : String) (i : Nat) (t : Ty) (ts : List Ty) :
    decodeXTList ρ base i (t :: ts) = decodeXT ρ (bitName base i) t :: decodeXTList ρ base (i + 1) ts := by
  simp only [decodeXTList]
  rfl

mutual
/-- the decoded arguments of the two semantics agree (both are the value of the bits, exact and in range) -/
theorem decode_agree (ρ : QV.Env) : ∀ (t : Ty) (base : String), AgreeT (decodeXT ρ base t) (decodeT ρ base t)
  | .bool, base => by simp [decodeXT, decodeT, AgreeT, Agree]
  | .qint w, base => by
    have := valLE_lt ((Ty.names base (.qint w)).map ρ)
    rw [List.length_map, names_length] at this
    simp only [decodeXT, decodeT, AgreeT, Agree]
    exact ⟨trivial, by simpa [Ty.bits] using this, fun _ => trivial, fun j hj => by cases hj⟩
  | .qchar, base => by
    have := valLE_lt ((Ty.names base .qchar).map ρ)
    rw [List.length_map, names_length] at this
    simp only [decodeXT, decodeT, AgreeT]
    exact ⟨by simpa [Ty.bits] using this, fun _ => trivial⟩
  | .tuple ts, base => by
    simp only [decodeXT, decodeT, AgreeT]
    exact decodeList_agree ρ ts base 0
theorem decodeList_agree (ρ : QV.Env) : ∀ (ts : List Ty) (base : String) (i : Nat),
    AgreeTList (decodeXTList ρ base i ts) (decodeTList ρ base i ts)
  | [], _, _ => by simp [decodeXTList, decodeTList, AgreeTList]
  | t :: ts, base, i => by
    rw [decodeXTList_cons, decodeTList_cons]
    exact ⟨decode_agree ρ t _, decodeList_agree ρ ts base (i + 1)⟩
end

theorem envAgreeT_args (args : List (String × Ty)) (ρ : QV.Env) :
    EnvAgreeT (argsEnvXT args ρ) (argsEnvT args ρ) := by
  intro n xv sv hx hw
  simp only [argsEnvXT] at hx
  simp only [argsEnvT] at hw
  cases hf : args.find? (·.1 == n) with
  | none => simp [hf] at hw
  | some p =>
    obtain ⟨m, ty⟩ := p
    simp only [hf, Option.some.injEq] at hx hw
    subst hx; subst hw
    exact decode_agree ρ ty n

theorem semProgT_agree (p : Prog) (ρ : QV.Env) (sv : TVal) (xv : XT)
    (hw : semProgT p ρ = some sv) (hx : semProgXT p ρ = some xv) : AgreeT xv sv :=
  semBodyT_agree p.ret p.body _ _ (envAgreeT_args p.args ρ) sv xv hw hx

/-! ### claimed bits -/

theorem xval_claim_length (x : XVal) (sv : SVal) (h : Agree x sv) : x.claim.length = sv.bits.length := by
  obtain ⟨v, k⟩ := x
  cases sv with
  | bool b =>
    cases v with
    | bool a => simp [XVal.claim, SVal.bits]
    | int _ _ => exact h.elim
  | int w' y =>
    cases v with
    | bool _ => exact h.elim
    | int w x =>
      obtain ⟨rfl, _⟩ := h
      simp only [XVal.claim, SVal.bits, List.length_append, List.length_map, toBitsLE_length,
        List.length_replicate]
      have : claimWidth w' k ≤ w' := by
        cases k <;> simp only [claimWidth] <;> omega
      omega

mutual
theorem agreeT_claim_length : ∀ (x : XT) (v : TVal), AgreeT x v → x.claim.length = v.bits.length
  | .leaf x, .bool b, h => by
    simp only [AgreeT] at h
    simpa [XT.claim, TVal.bits, SVal.bits] using xval_claim_length x (.bool b) h
  | .leaf x, .int w y, h => by
    simp only [AgreeT] at h
    simpa [XT.claim, TVal.bits, SVal.bits] using xval_claim_length x (.int w y) h
  | .char c k, .char c', _ => by cases k <;> simp [XT.claim, TVal.bits]
  | .tuple xs, .tuple vs, h => by
    simp only [AgreeT] at h
    rw [XT.claim, TVal.bits]; exact agreeTList_claim_length xs vs h
  | .leaf _, .char _, h => by simp [AgreeT] at h
  | .leaf _, .tuple _, h => by simp [AgreeT] at h
  | .char _ _, .bool _, h => by simp [AgreeT] at h
  | .char _ _, .int _ _, h => by simp [AgreeT] at h
  | .char _ _, .tuple _, h => by simp [AgreeT] at h
  | .tuple _, .bool _, h => by simp [AgreeT] at h
  | .tuple _, .int _ _, h => by simp [AgreeT] at h
  | .tuple _, .char _, h => by simp [AgreeT] at h
theorem agreeTList_claim_length : ∀ (xs : List XT) (vs : List TVal), AgreeTList xs vs →
    (XT.claimList xs).length = (TVal.bitsList vs).length
  | [], [], _ => rfl
  | x :: xs, v :: vs, h => by
    rw [XT.claimList, TVal.bitsList, List.length_append, List.length_append,
      agreeT_claim_length x v h.1, agreeTList_claim_length xs vs h.2]
  | [], _ :: _, h => by simp [AgreeTList] at h
  | _ :: _, [], h => by simp [AgreeTList] at h
end

mutual
/-- every return bit the widened exact semantics claims is the bit of the fixed-width value -/
theorem agreeT_claim : ∀ (x : XT) (v : TVal), AgreeT x v → ∀ (i : Nat) (b : Bool),
    x.claim[i]? = some (some b) → v.bits[i]? = some b
  | .leaf x, .bool b0, h, i, b, hc => by
    simp only [AgreeT] at h
    exact agree_claim h i b (by simpa [XT.claim] using hc)
  | .leaf x, .int w y, h, i, b, hc => by
    simp only [AgreeT] at h
    exact agree_claim h i b (by simpa [XT.claim] using hc)
  | .char c k, .char c', h, i, b, hc => by
    simp only [AgreeT] at h
    cases k with
    | none =>
      rw [h.2 rfl]
      simp only [XT.claim, List.getElem?_map, Option.map_eq_some_iff, Option.some.injEq] at hc
      obtain ⟨a, ha, rfl⟩ := hc
      simpa [TVal.bits] using ha
    | some _ =>
      simp only [XT.claim, List.getElem?_replicate] at hc
      split at hc <;> simp at hc
  | .tuple xs, .tuple vs, h, i, b, hc => by
    simp only [AgreeT] at h
    rw [TVal.bits]
    exact agreeTList_claim xs vs h i b (by simpa [XT.claim] using hc)
  | .leaf _, .char _, h, _, _, _ => by simp [AgreeT] at h
  | .leaf _, .tuple _, h, _, _, _ => by simp [AgreeT] at h
  | .char _ _, .bool _, h, _, _, _ => by simp [AgreeT] at h
  | .char _ _, .int _ _, h, _, _, _ => by simp [AgreeT] at h
  | .char _ _, .tuple _, h, _, _, _ => by simp [AgreeT] at h
  | .tuple _, .bool _, h, _, _, _ => by simp [AgreeT] at h
  | .tuple _, .int _ _, h, _, _, _ => by simp [AgreeT] at h
  | .tuple _, .char _, h, _, _, _ => by simp [AgreeT] at h
theorem agreeTList_claim : ∀ (xs : List XT) (vs : List TVal), AgreeTList xs vs → ∀ (i : Nat) (b : Bool),
    (XT.claimList xs)[i]? = some (some b) → (TVal.bitsList vs)[i]? = some b
  | [], [], _, i, b, hc => by simp [XT.claimList] at hc
  | x :: xs, v :: vs, h, i, b, hc => by
    have hl := agreeT_claim_length x v h.1
    rw [XT.claimList] at hc
    rw [TVal.bitsList]
    by_cases hi : i < x.claim.length
    · rw [List.getElem?_append_left hi] at hc
      rw [List.getElem?_append_left (by omega)]
      exact agreeT_claim x v h.1 i b hc
    · rw [List.getElem?_append_right (by omega)] at hc
      rw [List.getElem?_append_right (by omega), ← hl]
      exact agreeTList_claim xs vs h.2 _ b hc
  | [], _ :: _, h, _, _, _ => by simp [AgreeTList] at h
  | _ :: _, [], h, _, _, _ => by simp [AgreeTList] at h
end

end QV.Sem
