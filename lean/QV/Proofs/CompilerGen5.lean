import QV.Proofs.CompilerGen4
/-!
# Semantic correctness of the compiler model on the general class – part 5: `Or`

The three shapes of `compile_or`: one distinct argument qubit (`CX`), two (`CX, CX, MCX`), more (the chain of
binary ors into new marked ancillas, the last into the destination).
-/
namespace QV.Compiler
open QV

variable {Kn : String → Prop} {ρ : Env} {σ0 : FState} {s0 : CState}

/-- one gate whose target is in use, belongs to the statement, is not cached, and has not been read yet or is
marked; the hole on the target is closed -/
theorem gateQ {H : Nat → Prop} {cls : GClass} {cs : List Nat} {t : Nat} {u : Unit} {s s' : CState}
    (h : (append cls (cs ++ [t])).run s = .ok (u, s')) (gi : GIh Kn ρ σ0 s0 H s)
    (hc : cls.isMCXLike = true) (hnop : cls.isNop = false)
    (hcs : ∀ c ∈ cs, ¬ Avail s c) (ht0 : Avail s0 t) (ht : ¬ Avail s t)
    (hur : Unread s0 s t) (hnn : ∀ n, Kn n → dictGet? s.qc.qmap n ≠ some t)
    (hnc : ∀ p ∈ s.expq, p.2 ≠ t) :
    GIh Kn ρ σ0 s0 (fun q => H q ∧ q ≠ t) s' ∧ Fr Kn σ0 s0 s s' (· = t) NoN (· ∈ cs) ∧ TgtL s0 s' t ∧
      Appended cls (cs ++ [t]) s s' ∧ t ∉ cs ∧ Unread s0 s' t := by
  obtain ⟨gi', ha, g, hgw, hL⟩ := gate_gi h gi hc hnop hcs ht0 ht hur hnn
  have htg : TgtL s0 s' t := TgtL.of_gate hgw hL
  have gi'' := gi'.close' (by rw [ha.expq]; exact hnc) htg
  have fr := gate_fr (Kn := Kn) (σ0 := σ0) ha hc hgw hL
  have hnd : (cs ++ [t]).Nodup := by
    have hm : g ∈ s'.qc.gates.toList := by rw [gi''.gates, hL]; simp
    have := (gi''.good.gates_ok g hm).2.1
    rwa [hgw] at this
  have htcs : t ∉ cs := fun hm => (List.nodup_append.mp hnd).2.2 t hm t (by simp) rfl
  exact ⟨gi'', fr, htg, ha, htcs, Unread.of_gate hgw hL hur htcs⟩

theorem or_bool (d a b : Bool) : Bool.xor (Bool.xor (Bool.xor d a) b) (a && (b && true)) = Bool.xor d (a || b) := by
  cases d <;> cases a <;> cases b <;> rfl

/-- the block `CX acc t; CX i t; MCX [acc, i] t`: `t ^= acc ∨ i` -/
theorem orGate_g {H : Nat → Prop} {acc i t : Nat} {u : Unit} {s s' : CState}
    (h : StateT.run (do cx acc t; cx i t; mcx [acc, i] t : M Unit) s = .ok (u, s'))
    (gi : GIh Kn ρ σ0 s0 H s) (hacc : ¬ Avail s acc) (hi : ¬ Avail s i) (ht0 : Avail s0 t) (ht : ¬ Avail s t)
    (hur : Unread s0 s t) (hnn : ∀ n, Kn n → dictGet? s.qc.qmap n ≠ some t)
    (hnc : ∀ p ∈ s.expq, p.2 ≠ t) :
    GIh Kn ρ σ0 s0 (fun q => H q ∧ q ≠ t) s' ∧ Fr Kn σ0 s0 s s' (· = t) NoN (fun q => q = acc ∨ q = i) ∧
      TgtL s0 s' t ∧ cur σ0 s' t = Bool.xor (cur σ0 s t) (cur σ0 s acc || cur σ0 s i) ∧
      Unread s0 s' t ∧ s'.qc.marked = s.qc.marked ∧ s'.qc.qmap = s.qc.qmap ∧
      s'.expq = s.expq ∧ acc ≠ t ∧ i ≠ t := by
  obtain ⟨u1, s1, h1, k1⟩ := run_bind_ok.mp h
  obtain ⟨u2, s2, h2, h3⟩ := run_bind_ok.mp k1
  obtain ⟨g1, f1, _, a1, n1, ur1⟩ := gateQ (cs := [acc]) (t := t) h1 gi rfl rfl
    (by intro c hc; have : c = acc := by simpa using hc
        rw [this]; exact hacc) ht0 ht hur hnn hnc
  have hat : acc ≠ t := fun e => n1 (by simp [e])
  have hav1 : ∀ q, Avail s1 q ↔ Avail s q := avail_congr a1.free a1.nq
  obtain ⟨g2, f2, _, a2, n2, ur2⟩ := gateQ (cs := [i]) (t := t) h2 g1 rfl rfl
    (by intro c hc; have : c = i := by simpa using hc
        rw [this]; exact fun h' => hi ((hav1 _).mp h')) ht0 (fun h' => ht ((hav1 _).mp h'))
    ur1 (by rw [a1.qmap]; exact hnn) (by rw [a1.expq]; exact hnc)
  have hit : i ≠ t := fun e => n2 (by simp [e])
  have hav2 : ∀ q, Avail s2 q ↔ Avail s q := fun q => (avail_congr a2.free a2.nq q).trans (hav1 q)
  obtain ⟨g3, f3, tg3, a3, _, ur3⟩ := gateQ (cs := [acc, i]) (t := t) h3 g2 rfl rfl
    (by intro c hc
        have : c = acc ∨ c = i := by simpa using hc
        rcases this with e | e <;> rw [e]
        · exact fun h' => hacc ((hav2 _).mp h')
        · exact fun h' => hi ((hav2 _).mp h')) ht0 (fun h' => ht ((hav2 _).mp h'))
    ur2 (by rw [a2.qmap, a1.qmap]; exact hnn) (by rw [a2.expq, a1.expq]; exact hnc)
  refine ⟨g3.monoH (fun q hh => ⟨hh.1.1.1, hh.2⟩), ((f1.trans f2).trans f3).mono ?_ ?_ ?_, tg3, ?_,
    ur3, by rw [a3.marked, a2.marked, a1.marked], by rw [a3.qmap, a2.qmap, a1.qmap],
    by rw [a3.expq, a2.expq, a1.expq], hat, hit⟩
  · rintro q _ ((hh | hh) | hh) <;> exact hh
  · rintro q ((hh | hh) | hh) _ _ _ <;> exact hh.elim
  · rintro q _ ((hh | hh) | hh)
    · exact Or.inl (by simpa using hh)
    · exact Or.inr (by simpa using hh)
    · simpa using hh
  · have e3 := a3.cur_eq rfl σ0
    have e2 := a2.cur_eq rfl σ0
    have e1 := a1.cur_eq rfl σ0
    simp only [List.all_cons, List.all_nil, Bool.and_true] at e1 e2 e3
    rw [e3, a2.cur_ne rfl σ0 acc hat, a2.cur_ne rfl σ0 i hit, e2, a1.cur_ne rfl σ0 acc hat,
      a1.cur_ne rfl σ0 i hit, e1]
    generalize cur σ0 s t = x
    generalize cur σ0 s acc = y
    generalize cur σ0 s i = z
    cases x <;> cases y <;> cases z <;> rfl

/-- the chain of binary ors -/
theorem orChain_g {dest : Nat} :
    ∀ (rest : List Nat) (acc : Nat) {u : Unit} {s s' : CState},
    (orChain dest acc rest).run s = .ok (u, s') → rest ≠ [] → GI Kn ρ σ0 s0 s → PrivD Kn s0 s dest →
    ¬ Avail s acc → acc ≠ dest → (∀ i ∈ rest, ¬ Avail s i ∧ i ≠ dest) →
    GI Kn ρ σ0 s0 s' ∧ Fr Kn σ0 s0 s s' (· = dest) NoN (fun q => q = acc ∨ q ∈ rest ∨ Avail s q) ∧
      PrivD Kn s0 s' dest ∧ TgtL s0 s' dest ∧
      cur σ0 s' dest = Bool.xor (cur σ0 s dest) (cur σ0 s acc || rest.any (cur σ0 s))
  | [], acc, u, s, s', _, hne, _, _, _, _, _ => absurd rfl hne
  | [i], acc, u, s, s', h, _, gi, pd, hna, hacc, hr => by
    unfold orChain at h
    obtain ⟨hni, hi⟩ := hr i List.mem_cons_self
    obtain ⟨g3, f3, tg, hv, hur, hmk, hqm, hex, _, _⟩ := orGate_g h gi hna hni pd.av0 pd.nav pd.unread pd.nn pd.nc
    refine ⟨g3.monoH (fun _ hh => hh.1), f3.mono (fun _ _ hh => hh) (fun _ hh _ _ _ => hh) ?_, ?_, tg, ?_⟩
    · rintro q _ (hh | hh)
      · exact Or.inl hh
      · exact Or.inr (Or.inl (by simp [hh]))
    · exact f3.priv dest pd (fun hh => hh.elim (fun e => hacc e.symm) (fun e => hi e.symm))
    · rw [hv]; simp
  | i :: j :: rest, acc, u, s, s', h, _, gi, pd, hna, hacc, hr => by
    unfold orChain at h
    obtain ⟨d, s1, hfa, k1⟩ := run_bind_ok.mp h
    obtain ⟨gi1, fr1, hc1, hava, pd', hanc, hnk, hmk1, hex1⟩ := getFreeAncilla_gi hfa gi
    obtain ⟨u2, s2, hmk, k2⟩ := run_bind_ok.mp k1
    obtain ⟨gi2, fr2, hc2, hmarked, hanc2, hex2, hf2, hn2⟩ := markAncilla_gi hmk (gi1.monoH (H' := (· = d)) (fun _ hh => hh.elim))
      ⟨pd'.nav, fun _ _ hn => absurd rfl hn⟩
    have k2' : StateT.run (do
        (do cx acc d; cx i d; mcx [acc, i] d : M Unit)
        orChain dest d (j :: rest) : M Unit) s2 = .ok (u, s') := by
      simpa only [bind_assoc] using k2
    obtain ⟨u3, s3, hgate, k3⟩ := run_bind_ok.mp k2'
    obtain ⟨hni, hi⟩ := hr i List.mem_cons_self
    have hav2 : ∀ q, Avail s2 q ↔ Avail s1 q := avail_congr hf2 hn2
    have hnav2 : ∀ q, ¬ Avail s q → ¬ Avail s2 q := fun q hq h' => hq (fr1.avail q ((hav2 q).mp h'))
    have hdd : d ≠ dest := fun e => pd.nav (e ▸ hava)
    have hd2m : d ∈ s2.qc.marked := hmarked hanc hnk
    have hqm2 : s2.qc.qmap = s1.qc.qmap := by
      obtain ⟨_, _, _, _, _, _, b6, _⟩ := markAncilla_run3 hmk
      exact b6
    have hgt2 : s2.qc.gates = s1.qc.gates := by
      obtain ⟨_, b1, _⟩ := markAncilla_run3 hmk
      exact b1
    obtain ⟨gi3, fr3, tg3, hv3, _, hmk3, hqm3, hex3, haccd, hid⟩ := orGate_g hgate gi2 (hnav2 acc hna) (hnav2 i hni)
      pd'.av0 (fun h' => pd'.nav ((hav2 d).mp h')) (Unread.congr hgt2 pd'.unread) (by rw [hqm2]; exact pd'.nn)
      (by rw [hex2]; exact pd'.nc)
    have gi3' : GI Kn ρ σ0 s0 s3 := gi3.monoH (fun q hh => hh.2 hh.1)
    have fr03 := (fr1.trans fr2).trans fr3
    have pd3 : PrivD Kn s0 s3 dest := fr03.priv dest pd (by
      rintro ((hh | hh) | hh)
      · exact hh
      · exact hdd hh.symm
      · exact hh.elim (fun e => hacc e.symm) (fun e => hi e.symm))
    have hcur2 : cur σ0 s2 = cur σ0 s := by rw [hc2, hc1]
    have hz : cur σ0 s d = false := gi.zero d hava
    have hfr3 : ∀ q, ¬ Avail s q → cur σ0 s3 q = cur σ0 s q := by
      intro q hq
      rw [fr3.val q (hnav2 q hq) (fun e => hq (e ▸ hava)), hcur2]
    obtain ⟨gi', frr, pd'', tgr, hvr⟩ := orChain_g (j :: rest) d k3 (by simp) gi3' pd3
      (fun h' => pd'.nav ((hav2 d).mp (fr3.avail d h'))) hdd
      (fun x hx => ⟨fun h' => (hr x (List.mem_cons_of_mem _ hx)).1 (fr03.avail x h'),
        (hr x (List.mem_cons_of_mem _ hx)).2⟩)
    refine ⟨gi', (fr03.trans frr).mono ?_ ?_ ?_, pd'', tgr, ?_⟩
    · rintro q hq ((((hh | hh) | hh) | hh))
      · exact hh.elim
      · exact hh.elim
      · exact absurd (hh ▸ hava) hq
      · exact hh
    · rintro q ((((hh | hh) | hh) | hh)) _ _ h3'
      · exact absurd (frr.mkeep _ (fr3.mkeep _ (hh ▸ hd2m))) h3'
      · exact hh.elim
      · exact hh.elim
      · exact hh.elim
    · rintro q _ ((((hh | hh) | hh) | hh))
      · exact hh.elim
      · exact Or.inr (Or.inr (hh ▸ hava))
      · rcases hh with e | e
        · exact Or.inl e
        · exact Or.inr (Or.inl (by simp [e]))
      · rcases hh with e | e | e
        · exact Or.inr (Or.inr (e ▸ hava))
        · exact Or.inr (Or.inl (List.mem_cons_of_mem _ e))
        · exact Or.inr (Or.inr (fr03.avail q e))
    · rw [hvr, hfr3 dest pd.nav, hv3, hcur2, hz]
      have hrest : (j :: rest).any (cur σ0 s3) = (j :: rest).any (cur σ0 s) :=
        any_congr_mem (fun x hx => hfr3 x (hr x (List.mem_cons_of_mem _ hx)).1)
      rw [hrest]
      simp only [List.any_cons, Bool.false_bne, Bool.or_assoc]

/-- step 4 of `compile_or` for more than two distinct argument qubits -/
theorem orWide_g {d : Nat} {erets es : List Nat} {u : Unit} {s s' : CState}
    (h : (orWide d erets es).run s = .ok (u, s')) (hlen : 2 < es.length) (hd : d ∉ es)
    (gi : GI Kn ρ σ0 s0 s) (pd : PrivD Kn s0 s d) (hes : ∀ c ∈ es, ¬ Avail s c) :
    GI Kn ρ σ0 s0 s' ∧ Fr Kn σ0 s0 s s' (· = d) NoN (fun q => q ∈ es ∨ Avail s q) ∧
      PrivD Kn s0 s' d ∧ TgtL s0 s' d ∧ cur σ0 s' d = Bool.xor (cur σ0 s d) (es.any (cur σ0 s)) := by
  unfold orWide at h
  dsimp only at h
  rcases run_ite_ok.mp h with ⟨_, h⟩ | ⟨hne, h⟩
  · obtain ⟨_, _, hthrow, _⟩ := run_bind_ok.mp h
    exact (run_throw_ok.mp hthrow).elim
  · have heq : sortNat (pySetOrder erets) = es := by simpa using hne
    have hmem : ∀ x, x ∈ pySetOrder erets ↔ x ∈ es := by
      intro x; rw [← heq]; unfold sortNat; exact List.mem_mergeSort.symm
    have hl : (pySetOrder erets).length = es.length := by
      rw [← heq]; unfold sortNat; exact (List.length_mergeSort _).symm
    cases ho : pySetOrder erets with
    | nil => rw [ho] at hl; simp at hl; omega
    | cons a rest =>
      rw [ho] at h hmem hl
      have hrest : rest ≠ [] := by
        rintro rfl; simp at hl; omega
      have ha : a ∈ es := (hmem a).mp List.mem_cons_self
      obtain ⟨gi', fr, pd', tg, hv⟩ := orChain_g rest a h hrest gi pd (hes a ha)
        (by rintro rfl; exact hd ha)
        (fun i hi => by
          have hie : i ∈ es := (hmem i).mp (List.mem_cons_of_mem _ hi)
          exact ⟨hes i hie, by rintro rfl; exact hd hie⟩)
      have hany : (cur σ0 s a || rest.any (cur σ0 s)) = es.any (cur σ0 s) := by
        have := any_of_mem_iff (cur σ0 s) hmem
        simpa only [List.any_cons] using this
      refine ⟨gi', fr.mono (fun _ _ hh => hh) (fun _ hh _ _ _ => hh) ?_, pd', tg, by rw [hv, hany]⟩
      rintro q _ (hh | hh | hh)
      · exact Or.inl (hh ▸ ha)
      · exact Or.inl ((hmem q).mp (List.mem_cons_of_mem _ hh))
      · exact Or.inr hh

/-- the gates of `compile_or`, followed by the common tail `k` -/
theorem orGates_g {erets es : List Nat} {d a : Nat} {k : M Nat} {s s' : CState}
    (h : StateT.run (
        if es.length ≤ 2 then do
          cxAll d es
          if (es.length == 2) = true then do
              mcx es d
              k
            else k
        else do
          orWide d erets es
          k : M Nat) s = .ok (a, s'))
    (gi : GI Kn ρ σ0 s0 s) (hd : d ∉ es) (pd : PrivD Kn s0 s d) (hes : ∀ c ∈ es, ¬ Avail s c) (hne : es ≠ []) :
    ∃ t1, GI Kn ρ σ0 s0 t1 ∧ Fr Kn σ0 s0 s t1 (· = d) NoN (fun q => q ∈ es ∨ Avail s q) ∧
      PrivD Kn s0 t1 d ∧ TgtL s0 t1 d ∧ cur σ0 t1 d = Bool.xor (cur σ0 s d) (es.any (cur σ0 s)) ∧
      k.run t1 = .ok (a, s') := by
  rcases run_ite_ok.mp h with ⟨hle, h⟩ | ⟨hnle, h⟩
  · obtain ⟨u1, s1, hcx, h1⟩ := run_bind_ok.mp h
    match es, hd, hes, hne, hle, hcx, h1 with
    | [], _, _, hne, _, _, _ => exact absurd rfl hne
    | [q1], hd, hes, _, _, hcx, h1 =>
      unfold cxAll at hcx
      obtain ⟨u2, s2, hc1, hc2⟩ := run_bind_ok.mp hcx
      unfold cxAll at hc2
      obtain ⟨_, rfl⟩ := run_pure_ok.mp hc2
      obtain ⟨g1, f1, p1, tg1, a1, _⟩ := gateP (cs := [q1]) (t := d) hc1 gi rfl rfl hes pd
      rcases run_ite_ok.mp h1 with ⟨hc, _⟩ | ⟨_, h1⟩
      · simp at hc
      · refine ⟨_, g1, f1.mono (fun _ _ hh => hh) (fun _ hh _ _ _ => hh) (fun _ _ hh => Or.inl hh), p1, tg1, ?_, h1⟩
        rw [a1.cur_eq rfl σ0]; simp
    | [q1, q2], hd, hes, _, _, hcx, h1 =>
      unfold cxAll at hcx
      obtain ⟨u2, s2, hc1, hc2⟩ := run_bind_ok.mp hcx
      unfold cxAll at hc2
      obtain ⟨u3, s3, hc3, hc4⟩ := run_bind_ok.mp hc2
      unfold cxAll at hc4
      obtain ⟨_, rfl⟩ := run_pure_ok.mp hc4
      rcases run_ite_ok.mp h1 with ⟨_, h1⟩ | ⟨hc, _⟩
      · obtain ⟨u4, s4, hm, h2⟩ := run_bind_ok.mp h1
        have hblock : StateT.run (do cx q1 d; cx q2 d; mcx [q1, q2] d : M Unit) s = .ok (u4, s4) :=
          run_bind_ok.mpr ⟨u2, s2, hc1, run_bind_ok.mpr ⟨u3, s1, hc3, hm⟩⟩
        obtain ⟨g3, f3, tg, hv, _, _, _, _, hq1, hq2⟩ := orGate_g hblock gi (hes q1 (by simp)) (hes q2 (by simp))
          pd.av0 pd.nav pd.unread pd.nn pd.nc
        refine ⟨_, g3.monoH (fun _ hh => hh.1), f3.mono (fun _ _ hh => hh) (fun _ hh _ _ _ => hh) ?_,
          f3.priv d pd (fun hh => hh.elim (fun e => hq1 e.symm) (fun e => hq2 e.symm)), tg, ?_, h2⟩
        · rintro q _ (hh | hh)
          · exact Or.inl (by simp [hh])
          · exact Or.inl (by simp [hh])
        · rw [hv]; simp
      · simp at hc
    | _ :: _ :: _ :: _, _, _, _, hle, _, _ => simp at hle
  · obtain ⟨u1, t, hw, h1⟩ := run_bind_ok.mp h
    have hlen : 2 < es.length := by omega
    obtain ⟨gi', fr, pd', tg, hv⟩ := orWide_g hw hlen hd gi pd hes
    exact ⟨t, gi', fr, pd', tg, hv, h1⟩

/-! ### `Or` -/

theorem exprG_or {args : List BExp} (ih : ArgsG Kn ρ σ0 s0 args) (hne : args ≠ []) :
    ExprG Kn ρ σ0 s0 (.or args) := by
  intro dest sym a s s' h gi hd _ _
  unfold compileExpr at h
  dsimp only at h
  obtain ⟨r0, s1, hget, h1⟩ := run_bind_ok.mp h
  cases r0 with
  | some q =>
    obtain ⟨rfl, hp⟩ := expqGet?_hit hget
    exact cacheHit_g h1 gi hd hp rfl
  | none =>
  obtain ⟨rfl, _⟩ := expqGet?_none hget
  dsimp only at h1
  obtain ⟨erets, s2, hargs, h2⟩ := run_bind_ok.mp h1
  obtain ⟨gi2, frA, hvals, hb⟩ := ih hargs gi
  have hd2 : ∀ d, dest = some d → PrivD Kn s0 s2 d := fun d hd' => frA.priv d (hd d hd') (fun hh => hh)
  have hlen : erets.length = args.length := by
    have := congrArg List.length hvals
    simpa using this
  have body : ∀ {d : Nat} {s3 : CState} {k : M Nat},
      (destOr dest).run s2 = .ok (d, s3) →
      StateT.run (if erets.contains d = true then do event "destAmongArgs"; k else k) s3 = .ok (a, s') →
      (k = (
        if (sortNat (if erets.contains d = true then erets.erase d else erets).eraseDups).length ≤ 2 then do
          cxAll d (sortNat (if erets.contains d = true then erets.erase d else erets).eraseDups)
          if ((sortNat (if erets.contains d = true then erets.erase d else erets).eraseDups).length == 2) = true then do
              mcx (sortNat (if erets.contains d = true then erets.erase d else erets).eraseDups) d
              markAll (sortNat (if erets.contains d = true then erets.erase d else erets).eraseDups)
              if dest.isNone = true then do
                  expqSet (BExp.or args) d
                  pure d
                else pure d
            else do
              markAll (sortNat (if erets.contains d = true then erets.erase d else erets).eraseDups)
              if dest.isNone = true then do
                  expqSet (BExp.or args) d
                  pure d
                else pure d
        else do
          orWide d (if erets.contains d = true then erets.erase d else erets)
            (sortNat (if erets.contains d = true then erets.erase d else erets).eraseDups)
          markAll (sortNat (if erets.contains d = true then erets.erase d else erets).eraseDups)
          if dest.isNone = true then do
              expqSet (BExp.or args) d
              pure d
            else pure d : M Nat)) →
      GI Kn ρ σ0 s0 s' ∧
      Fr Kn σ0 s0 s1 s' (fun q => dest = some q) (· = a) NoN (fun _ => hasConstList args = true) ∧
      (dest = none → ResG Kn ρ σ0 s0 s1 s' (BExp.or args) a) ∧
      (∀ d, dest = some d → a = d ∧ cur σ0 s' d = Bool.xor (cur σ0 s1 d) ((BExp.or args).eval ρ) ∧
        TgtL s0 s' d) := by
    intro d s3 k hdest h3 hk
    obtain ⟨gi3, frd, hcd, pd3, hex3, hmk3, dcase⟩ := dest_g hdest gi2 hd2
    have hdn : d ∉ erets := by
      intro hm
      rcases dcase with hsome | ⟨_, hava, _, _⟩
      · exact (hb d hm).2.2 d (hd d hsome) rfl
      · exact (hb d hm).1 hava
    have hcdn : ¬ (erets.contains d = true) := by simpa using hdn
    rcases run_ite_ok.mp h3 with ⟨hc, _⟩ | ⟨_, k3⟩
    · exact absurd hc hcdn
    · rw [hk] at k3
      simp only [if_neg hcdn] at k3
      have hes3 : ∀ c ∈ sortNat erets.eraseDups, ¬ Avail s3 c :=
        fun c hc h' => (hb c (mem_sortDedup.mp hc)).1 (frd.avail c h')
      have hesne : sortNat erets.eraseDups ≠ [] := by
        cases hea : erets with
        | nil => rw [hea] at hlen; exact absurd (List.length_eq_zero_iff.mp hlen.symm) hne
        | cons x xs =>
          intro hnil
          have : x ∈ sortNat (x :: xs).eraseDups := mem_sortDedup.mpr List.mem_cons_self
          rw [hnil] at this; cases this
      obtain ⟨t1, git1, frg, pd1, tg1, hv, k1⟩ := orGates_g k3 gi3 (fun hm => hdn (mem_sortDedup.mp hm)) pd3 hes3 hesne
      refine node_tail (e := .or args) (fun x => mem_sortDedup) rfl hd frA hb frd hcd gi2 dcase git1
        (frg.mono (fun _ _ hh => hh) (fun _ hh _ _ _ => hh) ?_) pd1 tg1 ?_ k1
      · rintro q hq (hh | hh)
        · exact hh
        · exact absurd hh hq.nav
      · rw [hv, any_sortDedup, hcd, any_of_map hvals]
        simp [BExp.eval]
  cases dest with
  | some d0 =>
    dsimp only at h2
    obtain ⟨d, s3, hp0, h4⟩ := run_bind_ok.mp h2
    simpa only [hasConst] using body hp0 h4 rfl
  | none =>
    dsimp only at h2
    obtain ⟨d, s3, hf, h4⟩ := run_bind_ok.mp h2
    simpa only [hasConst] using body hf h4 rfl

end QV.Compiler
