import QV.Proofs.FrontT6
/-! Statement level of the widened C01 theorems, part 2: `decompose_to_symbols` / `_nest_as_type`, the environment
invariant `EnvInvT` along the definition list (assignment of tuple / `Qchar` values, re-binding included;
`return` of every `tyGood` type), the induction over the body, the program. -/
namespace QV.Sem
open QV QV.Arith QV.Front

set_option linter.unusedSimpArgs false
set_option linter.unusedVariables false

/-! ### values from their bits -/

mutual
theorem TVal.eq_of_beq : ∀ a b : TVal, a.ty = b.ty → a.beq b = true → a = b
  | .bool x, .bool y, _, h => by simp only [TVal.beq, beq_iff_eq] at h; rw [h]
  | .int w x, .int w' y, ht, h => by
    simp only [TVal.ty, Ty.qint.injEq] at ht
    simp only [TVal.beq, beq_iff_eq] at h
    rw [ht, h]
  | .char x, .char y, _, h => by simp only [TVal.beq, beq_iff_eq] at h; rw [h]
  | .tuple xs, .tuple ys, ht, h => by
    simp only [TVal.ty, Ty.tuple.injEq] at ht
    simp only [TVal.beq] at h
    rw [TVal.eq_of_beqList xs ys ht h]
  | .bool _, .int _ _, ht, _ => by simp [TVal.ty] at ht
  | .bool _, .char _, ht, _ => by simp [TVal.ty] at ht
  | .bool _, .tuple _, ht, _ => by simp [TVal.ty] at ht
  | .int _ _, .bool _, ht, _ => by simp [TVal.ty] at ht
  | .int _ _, .char _, ht, _ => by simp [TVal.ty] at ht
  | .int _ _, .tuple _, ht, _ => by simp [TVal.ty] at ht
  | .char _, .bool _, ht, _ => by simp [TVal.ty] at ht
  | .char _, .int _ _, ht, _ => by simp [TVal.ty] at ht
  | .char _, .tuple _, ht, _ => by simp [TVal.ty] at ht
  | .tuple _, .bool _, ht, _ => by simp [TVal.ty] at ht
  | .tuple _, .int _ _, ht, _ => by simp [TVal.ty] at ht
  | .tuple _, .char _, ht, _ => by simp [TVal.ty] at ht
theorem TVal.eq_of_beqList : ∀ a b : List TVal, TVal.tyList a = TVal.tyList b →
    TVal.beqList a b = true → a = b
  | [], [], _, _ => rfl
  | x :: xs, y :: ys, ht, h => by
    simp only [TVal.tyList, List.cons.injEq] at ht
    simp only [TVal.beqList, Bool.and_eq_true] at h
    rw [TVal.eq_of_beq x y ht.1 h.1, TVal.eq_of_beqList xs ys ht.2 h.2]
  | [], _ :: _, ht, _ => by simp [TVal.tyList] at ht
  | _ :: _, [], ht, _ => by simp [TVal.tyList] at ht
end

/-- a value within the range of its type is the one decoded from symbols that hold its bits -/
theorem decode_of_bits (ρ : QV.Env) (base : String) (sv : TVal) (hwf : sv.wf = true)
    (hbits : (Ty.names base sv.ty).map ρ = sv.bits) : decodeT ρ base sv.ty = sv := by
  apply TVal.eq_of_beq _ _ (decodeT_ty ρ _ _)
  rw [TVal.beq_iff_bits _ _ (decodeT_ty ρ _ _) (decodeT_wf ρ _ _) hwf, decodeT_bits, hbits]

/-! ### `decompose_to_symbols`, `_nest_as_type` -/

mutual
theorem decompose_snd : ∀ (v : Val) (base : String), (v.decompose base).map (·.2) = v.flatten
  | .atom e, base => by simp [Val.decompose, Val.flatten]
  | .list vs, base => by rw [Val.decompose, Val.flatten]; exact decomposeList_snd vs base 0
theorem decomposeList_snd : ∀ (vs : List Val) (base : String) (i : Nat),
    (Val.decomposeList base i vs).map (·.2) = Val.flattenList vs
  | [], _, _ => by simp [Val.decomposeList, Val.flattenList]
  | v :: vs, base, i => by
    rw [Val.decomposeList, List.map_append, decompose_snd v, decomposeList_snd vs, Val.flattenList]
end

theorem decomposeList_cons (base : String) (i : Nat) (v : Val) (vs : List Val) :
    Val.decomposeList base i (v :: vs) = v.decompose (bitName base i) ++ Val.decomposeList base (i + 1) vs := by
  simp only [Val.decomposeList]
  rfl

mutual
/-- `_nest_as_type` consumes the first bits of the list and gives them the nesting whose
`decompose_to_symbols` names are `translate_argument`'s -/
theorem nestAs_spec : ∀ (t : Ty) (bits : List BExp) (v : Val) (rest : List BExp) (base : String),
    nestAs t bits = some (v, rest) → bits = v.flatten ++ rest ∧ (v.decompose base).map (·.1) = Ty.names base t
  | .bool, [], v, rest, base, h => by simp [nestAs] at h
  | .bool, b :: bs, v, rest, base, h => by
    simp only [nestAs, Option.some.injEq, Prod.mk.injEq] at h
    obtain ⟨rfl, rfl⟩ := h
    simp [Val.flatten, Val.decompose, names_bool]
  | .qint w, bs, v, rest, base, h => by
    simp only [nestAs] at h
    split at h
    · cases h
    · rename_i hlen
      simp only [Option.some.injEq, Prod.mk.injEq] at h
      obtain ⟨rfl, rfl⟩ := h
      refine ⟨by rw [flatten_ofBits, List.take_append_drop], ?_⟩
      rw [decompose_ofBits, defsOf_names0, names_qint, List.length_take]
      congr 2; omega
  | .qchar, bs, v, rest, base, h => by
    simp only [nestAs] at h
    split at h
    · cases h
    · rename_i hlen
      simp only [Option.some.injEq, Prod.mk.injEq] at h
      obtain ⟨rfl, rfl⟩ := h
      refine ⟨by rw [flatten_ofBits, List.take_append_drop], ?_⟩
      rw [decompose_ofBits, defsOf_names0, names_qchar, List.length_take]
      congr 2; omega
  | .tuple ts, bs, v, rest, base, h => by
    simp only [nestAs, Option.map_eq_some_iff] at h
    obtain ⟨⟨vs, r⟩, h1, h2⟩ := h
    simp only [Prod.mk.injEq] at h2
    obtain ⟨rfl, rfl⟩ := h2
    obtain ⟨i1, i2⟩ := nestAsList_spec ts bs vs r base 0 h1
    exact ⟨by rw [Val.flatten]; exact i1, by rw [Val.decompose, Ty.names]; exact i2⟩
theorem nestAsList_spec : ∀ (ts : List Ty) (bits : List BExp) (vs : List Val) (rest : List BExp)
    (base : String) (i : Nat), nestAsList ts bits = some (vs, rest) →
    bits = Val.flattenList vs ++ rest ∧ (Val.decomposeList base i vs).map (·.1) = Ty.namesList base i ts
  | [], bs, vs, rest, base, i, h => by
    simp only [nestAsList, Option.some.injEq, Prod.mk.injEq] at h
    obtain ⟨rfl, rfl⟩ := h
    simp [Val.flattenList, Val.decomposeList, Ty.namesList]
  | t :: ts, bs, vs, rest, base, i, h => by
    simp only [nestAsList] at h
    split at h
    · cases h
    · rename_i v r hv
      simp only [Option.map_eq_some_iff] at h
      obtain ⟨⟨vs', r'⟩, h1, h2⟩ := h
      simp only [Prod.mk.injEq] at h2
      obtain ⟨rfl, rfl⟩ := h2
      obtain ⟨i1, i2⟩ := nestAs_spec t bs v r (bitName base i) hv
      obtain ⟨j1, j2⟩ := nestAsList_spec ts r vs' r' base (i + 1) h1
      refine ⟨by rw [i1, j1, Val.flattenList, List.append_assoc], ?_⟩
      rw [decomposeList_cons, namesList_cons, List.map_append, i2, j2]
end

/-- re-nesting a value that denotes a tuple gives a value that denotes the same tuple -/
theorem den_renest {ρ : QV.Env} {ts : List Ty} {v v' : Val} {sv : TVal} {rest : List BExp}
    (hd : DenT ρ (.tuple ts) v sv) (hn : nestAs (.tuple ts) v.flatten = some (v', rest)) (base : String) :
    DenT ρ (.tuple ts) v' sv ∧ (v'.decompose base).map (·.1) = Ty.names base (.tuple ts) := by
  obtain ⟨h1, h2⟩ := nestAs_spec _ _ _ _ base hn
  refine ⟨?_, h2⟩
  have hl1 : v'.flatten.length = (Ty.tuple ts).bits := by
    rw [← decompose_snd v' base, List.length_map, ← List.length_map (f := (·.1)), h2, names_length]
  have hl2 : v.flatten.length = (Ty.tuple ts).bits := by
    have := congrArg List.length (den_bits hd)
    rw [TVal.bits_length, den_ty hd] at this
    simpa [evalBits] using this
  have hr : rest = [] := by
    have := congrArg List.length h1
    rw [List.length_append, hl1, hl2] at this
    exact List.length_eq_zero_iff.mp (by omega)
  rw [hr, List.append_nil] at h1
  have hb := den_bits hd
  rw [h1] at hb
  simp only [nestAs, Option.map_eq_some_iff] at hn
  obtain ⟨⟨vs, r⟩, _, h3⟩ := hn
  simp only [Prod.mk.injEq] at h3
  obtain ⟨rfl, _⟩ := h3
  cases sv with
  | tuple svs =>
    have hty := den_ty hd
    simp only [TVal.ty, Ty.tuple.injEq] at hty
    have hwf := den_wf hd
    exact DenT.mk_tup _ _ _ hty (by simpa [TVal.wf] using hwf) (by simpa [Val.flatten, TVal.bits] using hb)
  | bool _ => cases hd
  | int _ _ => cases hd
  | char _ => cases hd

/-! ### the environment invariant -/

/-- invariant of the statement translator: every variable that can be looked up has the bit names of its
(`tyGood`) type and a dot-free name, its value in `σ` is what its symbols say under `ρ`, and every value
of `σ` has a `tyGood` type -/
structure EnvInvT (ρ : QV.Env) (env : Front.Env) (σ : TEnv) : Prop where
  bind : ∀ n b, env.find n = some b → BindOKT ρ σ b
  good : ∀ n b, env.find n = some b → goodName n = true
  genv : GoodEnv σ

theorem envOKT_of_inv {ρ : QV.Env} {env : Front.Env} {σ : TEnv} (h : EnvInvT ρ env σ) : EnvOKT ρ env σ := h.bind

/-- the decoded value of another variable is not disturbed by a change of the symbols of `t` -/
theorem decodeT_agree {ρ ρ' : QV.Env} {t n : String} (ty : Ty) (hg : goodName n = true)
    (hgt : goodName t = true) (hne : n ≠ t) (ha : AgreeOffT t ρ ρ') : decodeT ρ' n ty = decodeT ρ n ty :=
  decodeT_congr ρ ρ' ty n (fun s hs => ha s (sub_disjoint hg hgt hne (names_sub ty n s hs)))

theorem bindOKT_transfer {ρ ρ' : QV.Env} {σ σ' : TEnv} {b : Binding} {t : String} (hb : BindOKT ρ σ b)
    (hg : goodName b.name = true) (hgt : goodName t = true) (hne : b.name ≠ t)
    (ha : AgreeOffT t ρ ρ') (hσ : σ' b.name = σ b.name) : BindOKT ρ' σ' b := by
  obtain ⟨h1, h2, h3⟩ := hb
  exact ⟨h1, h2, by rw [hσ, h3, decodeT_agree b.ty hg hgt hne ha]⟩

/-- `σ` with the variable `t` re-read from its symbols under `ρ''` -/
def rebaseT (t : String) (env : Front.Env) (σ : TEnv) (ρ'' : QV.Env) : TEnv := fun n =>
  if n = t then (match env.find t with | some b => some (decodeT ρ'' t b.ty) | none => σ t) else σ n

theorem envInvT_rebase {ρ ρ'' : QV.Env} {env : Front.Env} {σ : TEnv} (hinv : EnvInvT ρ env σ) {t : String}
    (hgt : goodName t = true) (ha : AgreeOffT t ρ ρ'') : EnvInvT ρ'' env (rebaseT t env σ ρ'') := by
  refine ⟨?_, hinv.good, ?_⟩
  · intro n b hf
    have hname := find_name hf
    by_cases hn : n = t
    · subst hn
      obtain ⟨h1, h2, _⟩ := hinv.bind n b hf
      exact ⟨h1, h2, by rw [hname]; simp [rebaseT, hf]⟩
    · have hne : b.name ≠ t := by rw [hname]; exact hn
      exact bindOKT_transfer (hinv.bind n b hf) (by rw [hname]; exact hinv.good n b hf) hgt hne ha
        (by simp [rebaseT, hne])
  · intro n v hσ
    by_cases hn : n = t
    · subst hn
      simp only [rebaseT, if_true] at hσ
      cases hf : env.find n with
      | none => rw [hf] at hσ; exact hinv.genv n v hσ
      | some b =>
        rw [hf] at hσ
        simp only [Option.some.injEq] at hσ
        rw [← hσ, decodeT_ty]
        exact (hinv.bind n b hf).2.1
    · simp only [rebaseT, hn, if_false] at hσ
      exact hinv.genv n v hσ

/-- the translated value of an expression that does not read `t` denotes the same `SemT` value under
every assignment that differs from `ρ` only on the symbols of `t` -/
theorem tr_indepT {ρ : QV.Env} {env : Front.Env} {σ : TEnv} (hinv : EnvInvT ρ env σ) {t : String}
    (hgt : goodName t = true) {e : PExp} (hfrag : inFragT e = true) (hself : mentions t e = false)
    (hw : wellT σ e = true)
    {s s' : St} {ty : Ty} {v : Val} (htr : (tr Quirks.none env e).run s = .ok ((ty, v), s')) :
    ∃ sv, semT σ e = some sv ∧ ∀ ρ'', AgreeOffT t ρ ρ'' → DenT ρ'' ty v sv := by
  obtain ⟨sv, hs, hd⟩ := soundT_all ρ env σ (envOKT_of_inv hinv) e hfrag _ _ _ _ hw htr
  refine ⟨sv, hs, fun ρ'' ha => ?_⟩
  have hcg : ∀ n, n ≠ t → rebaseT t env σ ρ'' n = σ n := fun n hn => by simp [rebaseT, hn]
  have hw' : wellT (rebaseT t env σ ρ'') e = true := by
    rw [wellT_congr t _ σ hcg e hself]; exact hw
  obtain ⟨sv', hs', hd'⟩ := soundT_all ρ'' env _ (envOKT_of_inv (envInvT_rebase hinv hgt ha)) e hfrag _ _ _ _ hw' htr
  have := semT_congr t (rebaseT t env σ ρ'') σ hcg e hself
  rw [this, hs] at hs'
  cases hs'
  exact hd'

/-- the invariant after (re)binding `t` to a value whose definitions changed only the symbols of `t` -/
theorem envInvT_bind {ρ ρ' : QV.Env} {env : Front.Env} {σ : TEnv} (hinv : EnvInvT ρ env σ) {t : String}
    (hgt : goodName t = true) (ha : AgreeOffT t ρ ρ') (nb : Binding) (hname : nb.name = t) (sv : TVal)
    (hnew : BindOKT ρ' (σ.set t sv) nb) (hgood : tyGood sv.ty = true) (env' : Front.Env)
    (hfind : ∀ n, env'.find n = if n = t then some nb else env.find n) :
    EnvInvT ρ' env' (σ.set t sv) := by
  refine ⟨?_, ?_, ?_⟩
  · intro n b hf
    rw [hfind] at hf
    by_cases hn : n = t
    · simp only [hn, if_true, Option.some.injEq] at hf
      subst hf; exact hnew
    · simp only [hn, if_false] at hf
      have hbn := find_name hf
      have hne : b.name ≠ t := by rw [hbn]; exact hn
      exact bindOKT_transfer (hinv.bind n b hf) (by rw [hbn]; exact hinv.good n b hf) hgt hne ha
        (by simp [TEnv.set, hne])
  · intro n b hf
    rw [hfind] at hf
    by_cases hn : n = t
    · rw [hn]; exact hgt
    · simp only [hn, if_false] at hf
      exact hinv.good n b hf
  · intro n v hσ
    by_cases hn : n = t
    · simp only [TEnv.set, hn, beq_self_eq_true, if_true, Option.some.injEq] at hσ
      rw [← hσ]; exact hgood
    · simp only [TEnv.set, beq_iff_eq, hn, if_false] at hσ
      exact hinv.genv n v hσ

/-- binding `t` to the translated value `v` whose `decompose_to_symbols` names are those of its type
(sequential evaluation of the new definitions): the invariant is kept with `σ[t := sv]`, only symbols of
`t` change, and the symbols of `t` now hold the bits of `sv` -/
theorem bind_valueT {ρ : QV.Env} {env : Front.Env} {σ : TEnv} (hinv : EnvInvT ρ env σ) {t : String}
    (hgt : goodName t = true) {ty : Ty} {v : Val} {sv : TVal}
    (hind : ∀ ρ'', AgreeOffT t ρ ρ'' → DenT ρ'' ty v sv) (hgood : tyGood ty = true)
    (hnames : (v.decompose t).map (·.1) = ty.names t) (env' : Front.Env)
    (hfind : ∀ n, env'.find n = if n = t then some ⟨t, ty, (v.decompose t).map (·.1)⟩ else env.find n) :
    EnvInvT (runDefs (v.decompose t) ρ) env' (σ.set t sv) ∧ AgreeOffT t ρ (runDefs (v.decompose t) ρ) ∧
      (ty.names t).map (runDefs (v.decompose t) ρ) = sv.bits := by
  have hd := hind ρ (AgreeOffT.refl t ρ)
  have hty := den_ty hd
  have hsub : ∀ d ∈ v.decompose t, Sub t d.1 := by
    intro d hdm
    apply names_sub ty t
    rw [← hnames]
    exact List.mem_map_of_mem hdm
  have hnd : ((v.decompose t).map (·.1)).Nodup := by rw [hnames]; exact names_nodup ty t
  have hb : ∀ d ∈ v.decompose t, ∀ ρ'', AgreeOffT t ρ ρ'' → d.2.eval ρ'' = d.2.eval ρ := by
    intro d hdm ρ'' ha
    have h1 := den_bits (hind ρ'' ha)
    have h2 := den_bits hd
    rw [← h2] at h1
    have hmem : d.2 ∈ v.flatten := by
      rw [← decompose_snd v t]; exact List.mem_map_of_mem hdm
    exact (List.map_inj_left.mp h1) d.2 hmem
  obtain ⟨hag, hmap, _⟩ := seq_evalT t ρ (v.decompose t) ρ (AgreeOffT.refl t ρ) hsub hnd hb
  have hbits : (ty.names t).map (runDefs (v.decompose t) ρ) = sv.bits := by
    rw [← hnames, List.map_map]
    have : (v.decompose t).map (fun d => d.2.eval ρ) = evalBits ρ v.flatten := by
      rw [← decompose_snd v t]; simp [evalBits, List.map_map, Function.comp_def]
    rw [← den_bits hd, ← this, ← hmap]
    rfl
  refine ⟨?_, hag, hbits⟩
  apply envInvT_bind hinv hgt hag _ rfl sv _ (by rw [hty]; exact hgood) env' hfind
  refine ⟨hnames, hgood, ?_⟩
  simp only [TEnv.set, beq_self_eq_true, if_true, Option.some.injEq]
  have := decode_of_bits (runDefs (v.decompose t) ρ) t sv (den_wf hd) (by rw [hty]; exact hbits)
  rw [hty] at this
  exact this.symm

/-! ### one statement -/

theorem names_of_den {ρ : QV.Env} {ty : Ty} {v : Val} {sv : TVal} (hd : DenT ρ ty v sv) (t : String)
    (hnt : ∀ ts, ty ≠ .tuple ts) : (v.decompose t).map (·.1) = ty.names t := by
  cases hd with
  | bool a => simp [Val.decompose, names_bool]
  | int bits => rw [decompose_ofBits, defsOf_names0, names_qint]
  | char bits h8 => rw [decompose_ofBits, defsOf_names0, names_qchar, h8]
  | tup vs svs _ _ => exact absurd rfl (hnt _)

theorem assign_stepT {ρ : QV.Env} {env : Front.Env} {σ : TEnv} (hinv : EnvInvT ρ env σ) (ret : Ty)
    (t : String) (e : PExp) (hgt : goodName t = true) (hfrag : inFragT e = true)
    (hself : mentions t e = false) (hw : wellT σ e = true)
    {s s' : St} {defs : List (String × BExp)} {env' : Front.Env}
    (h : (trStmt Quirks.none ret env (.assign t e)).run s = .ok ((defs, env'), s')) :
    ∃ sv, semT σ e = some sv ∧ EnvInvT (runDefs defs ρ) env' (σ.set t sv) ∧
      AgreeOffT t ρ (runDefs defs ρ) ∧ (∀ n, n ≠ t → env'.find n = env.find n) := by
  rw [trStmt] at h
  simp only [run_bind_ok] at h
  obtain ⟨⟨ty, v⟩, s1, h1, h2⟩ := h
  obtain ⟨sv, hs, hind⟩ := tr_indepT hinv hgt hfrag hself hw h1
  have hd := hind ρ (AgreeOffT.refl t ρ)
  have hgood : tyGood ty = true := by
    rw [← den_ty hd]; exact semT_good σ hinv.genv e sv hfrag hs
  have key : ∃ v' : Val, defs = v'.decompose t ∧ env' = env.bind ⟨t, ty, (v'.decompose t).map (·.1)⟩ ∧
      (v'.decompose t).map (·.1) = ty.names t ∧ ∀ ρ'', AgreeOffT t ρ ρ'' → DenT ρ'' ty v' sv := by
    cases hd with
    | bool a =>
      simp only [run_pure_ok, Prod.mk.injEq] at h2
      obtain ⟨⟨rfl, rfl⟩, _⟩ := h2
      exact ⟨_, rfl, rfl, names_of_den (hind ρ (AgreeOffT.refl t ρ)) t (by intro ts hh; cases hh), hind⟩
    | int bits =>
      simp only [run_pure_ok, Prod.mk.injEq] at h2
      obtain ⟨⟨rfl, rfl⟩, _⟩ := h2
      exact ⟨_, rfl, rfl, names_of_den (hind ρ (AgreeOffT.refl t ρ)) t (by intro ts hh; cases hh), hind⟩
    | char bits h8 =>
      simp only [run_pure_ok, Prod.mk.injEq] at h2
      obtain ⟨⟨rfl, rfl⟩, _⟩ := h2
      exact ⟨_, rfl, rfl, names_of_den (hind ρ (AgreeOffT.refl t ρ)) t (by intro ts hh; cases hh), hind⟩
    | tup vs svs hwf hbits =>
      have hq : Quirks.none.tupleAssignFlat = false := rfl
      simp only [hq, Bool.not_false, if_true, run_ite_ok, run_bind_ok, run_event_ok] at h2
      rcases h2 with ⟨_, _, _, _, h3⟩ | ⟨hne, h3⟩
      · cases hn : nestAs (Ty.tuple (TVal.tyList svs)) (Val.list vs).flatten with
        | none =>
          rw [hn] at h3
          simp only [run_bind_ok, run_throw_ok, false_and, exists_false] at h3
        | some p =>
          obtain ⟨v', rest⟩ := p
          rw [hn] at h3
          simp only [run_pure_ok, Prod.mk.injEq] at h3
          obtain ⟨⟨rfl, rfl⟩, _⟩ := h3
          refine ⟨v', rfl, rfl, (den_renest (hind ρ (AgreeOffT.refl t ρ)) hn t).2, fun ρ'' ha => ?_⟩
          exact (den_renest (hind ρ'' ha) hn t).1
      · simp only [run_pure_ok, Prod.mk.injEq] at h3
        obtain ⟨⟨rfl, rfl⟩, _⟩ := h3
        refine ⟨_, rfl, rfl, ?_, hind⟩
        simpa using hne
  obtain ⟨v', rfl, rfl, hnames, hind'⟩ := key
  have hfind := fun n => find_bind env ⟨t, ty, (v'.decompose t).map (·.1)⟩ n
  obtain ⟨i1, i2, _⟩ := bind_valueT hinv hgt hind' hgood hnames _ hfind
  refine ⟨sv, hs, i1, i2, fun n hn => ?_⟩
  rw [hfind n]
  simp [hn]

theorem none_of_not_isSome {α} {o : Option α} (h : ¬ o.isSome = true) : o = none := by
  cases o with
  | none => rfl
  | some _ => simp at h

theorem ret_stepT {ρ : QV.Env} {env : Front.Env} {σ : TEnv} (hinv : EnvInvT ρ env σ) (ret : Ty)
    (hret : tyGood ret = true) (e : PExp) (hfrag : inFragT e = true)
    (hself : mentions "_ret" e = false) (hw : wellT σ e = true) (hwr : wellRet ret (semT σ e) = true)
    {s s' : St} {defs : List (String × BExp)} {env' : Front.Env}
    (h : (trStmt Quirks.none ret env (.ret e)).run s = .ok ((defs, env'), s')) :
    env.find "_ret" = none ∧ ∃ v sv, semT σ e = some v ∧ coerceRetT ret v = some sv ∧
      (ret.names "_ret").map (runDefs defs ρ) = sv.bits ∧
      EnvInvT (runDefs defs ρ) env' (σ.set "_ret" sv) ∧ AgreeOffT "_ret" ρ (runDefs defs ρ) ∧
      (env'.find "_ret").isSome = true := by
  rw [trStmt] at h
  simp only [run_bind_ok] at h
  obtain ⟨⟨ty, v⟩, s1, h1, h2⟩ := h
  obtain ⟨sv, hs, hind⟩ := tr_indepT hinv retName_good hfrag hself hw h1
  have hd := hind ρ (AgreeOffT.refl _ ρ)
  rw [hs] at hwr
  have key : ∃ (v' : Val) (sv' : TVal), coerceRetT ret sv = some sv' ∧
      (∀ ρ'', AgreeOffT "_ret" ρ ρ'' → DenT ρ'' ret v' sv') ∧ env.find "_ret" = none ∧
      defs = v'.decompose "_ret" ∧
      env' = env ++ [⟨"_ret", ret, (v'.decompose "_ret").map (·.1)⟩] ∧
      (v'.decompose "_ret").map (·.1) = ret.names "_ret" := by
    cases hd with
    | bool a =>
      cases ret with
      | bool =>
        simp only [Ty.size?, bne_bool_bool, Bool.false_eq_true, if_false, run_ite_ok, run_bind_ok,
          run_throw_ok, run_pure_ok, false_and, exists_false, and_false, false_or, Prod.mk.injEq] at h2
        obtain ⟨hnone, ⟨rfl, rfl⟩, _⟩ := h2
        exact ⟨_, _, rfl, hind, none_of_not_isSome hnone, rfl, rfl,
          names_of_den (hind ρ (AgreeOffT.refl _ ρ)) _ (by intro ts hh; cases hh)⟩
      | qint b =>
        simp only [Ty.size?, bne_bool_qint, if_true, run_throw_ok, run_bind_ok, false_and, exists_false] at h2
      | qchar =>
        simp only [Ty.size?, bne_bool_qchar, if_true, run_throw_ok, run_bind_ok, false_and, exists_false] at h2
      | tuple ts =>
        simp only [Ty.size?, bne_bool_tuple, if_true, run_throw_ok, run_bind_ok, false_and, exists_false] at h2
    | int bits =>
      cases ret with
      | bool =>
        simp only [Ty.size?, bne_qint_bool, if_true, run_throw_ok, run_bind_ok, false_and, exists_false] at h2
      | qchar => simp [wellRet] at hwr
      | tuple ts =>
        simp only [Ty.size?, bne_qint_tuple, if_true, run_throw_ok, run_bind_ok, false_and, exists_false] at h2
      | qint b =>
        have hval : ∀ ρ'', AgreeOffT "_ret" ρ ρ'' → val ρ'' bits = val ρ bits := by
          intro ρ'' ha
          have h3 := den_bits (hind ρ'' ha)
          rw [flatten_ofBits, TVal.bits] at h3
          have h4 := congrArg valLE h3
          rw [valLE_toBitsLE, Nat.mod_eq_of_lt (val_lt ρ bits)] at h4
          exact h4
        simp only [Ty.size?] at h2
        by_cases hlt : bits.length < b
        · simp only [hlt, if_true, run_bind_ok, run_lift_ok, bitsOf_ofBits, Except.ok.injEq, run_ite_ok,
            run_throw_ok, run_pure_ok, false_and, exists_false, and_false, false_or, Prod.mk.injEq] at h2
          obtain ⟨_, _, ⟨rfl, rfl⟩, hnone, ⟨rfl, rfl⟩, _⟩ := h2
          have hden : ∀ ρ'', AgreeOffT "_ret" ρ ρ'' →
              DenT ρ'' (.qint b) (Val.ofBits (fill b bits)) (.int b (val ρ bits)) := by
            intro ρ'' ha
            apply DenT.mk_int
            · rw [fill_length]; omega
            · rw [val_fill, hval ρ'' ha]
          exact ⟨_, .int b (val ρ bits), by simp [coerceRetT, Nat.le_of_lt hlt], hden,
            none_of_not_isSome hnone, rfl, rfl,
            names_of_den (hden ρ (AgreeOffT.refl _ ρ)) _ (by intro ts hh; cases hh)⟩
        · by_cases hgt : bits.length > b
          · simp only [hlt, hgt, if_true, if_false, run_bind_ok, run_lift_ok, bitsOf_ofBits, Except.ok.injEq,
              run_ite_ok, run_throw_ok, run_pure_ok, false_and, exists_false, and_false, false_or,
              Prod.mk.injEq] at h2
            obtain ⟨_, _, ⟨rfl, rfl⟩, hnone, ⟨rfl, rfl⟩, _⟩ := h2
            have hnle : ¬ bits.length ≤ b := by omega
            have hden : ∀ ρ'', AgreeOffT "_ret" ρ ρ'' →
                DenT ρ'' (.qint b) (Val.ofBits (crop b bits)) (.int b (val ρ bits % 2 ^ b)) := by
              intro ρ'' ha
              apply DenT.mk_int
              · rw [crop_length]; omega
              · rw [val_crop, hval ρ'' ha]
            exact ⟨_, .int b (val ρ bits % 2 ^ b), by simp [coerceRetT, hnle], hden,
              none_of_not_isSome hnone, rfl, rfl,
              names_of_den (hden ρ (AgreeOffT.refl _ ρ)) _ (by intro ts hh; cases hh)⟩
          · have heq : bits.length = b := by omega
            subst heq
            simp only [Nat.lt_irrefl, gt_iff_lt, if_false, bne_qint_qint, beq_self_eq_true, Bool.not_true,
              Bool.false_eq_true, run_ite_ok, run_bind_ok, run_throw_ok, run_pure_ok, false_and,
              exists_false, and_false, false_or, Prod.mk.injEq] at h2
            obtain ⟨hnone, ⟨rfl, rfl⟩, _⟩ := h2
            exact ⟨_, .int bits.length (val ρ bits), by simp [coerceRetT], hind,
              none_of_not_isSome hnone, rfl, rfl,
              names_of_den (hind ρ (AgreeOffT.refl _ ρ)) _ (by intro ts hh; cases hh)⟩
    | char bits h8 =>
      cases ret with
      | bool =>
        simp only [Ty.size?, bne_qchar_bool, if_true, run_throw_ok, run_bind_ok, false_and, exists_false] at h2
      | qint b => simp [wellRet] at hwr
      | tuple ts =>
        simp only [Ty.size?, bne_qchar_tuple, if_true, run_throw_ok, run_bind_ok, false_and, exists_false] at h2
      | qchar =>
        simp only [Ty.size?, Nat.lt_irrefl, gt_iff_lt, if_false, bne_qchar_qchar, Bool.false_eq_true,
          run_ite_ok, run_bind_ok, run_throw_ok, run_pure_ok, false_and, exists_false, and_false, false_or,
          Prod.mk.injEq] at h2
        obtain ⟨hnone, ⟨rfl, rfl⟩, _⟩ := h2
        exact ⟨_, _, rfl, hind, none_of_not_isSome hnone, rfl, rfl,
          names_of_den (hind ρ (AgreeOffT.refl _ ρ)) _ (by intro ts hh; cases hh)⟩
    | tup vs svs hwf hbits =>
      cases ret with
      | bool =>
        simp only [Ty.size?, bne_tuple_bool, if_true, run_throw_ok, run_bind_ok, false_and, exists_false] at h2
      | qint b =>
        simp only [Ty.size?, bne_tuple_qint, if_true, run_throw_ok, run_bind_ok, false_and, exists_false] at h2
      | qchar =>
        simp only [Ty.size?, bne_tuple_qchar, if_true, run_throw_ok, run_bind_ok, false_and, exists_false] at h2
      | tuple ts =>
        simp only [Ty.size?] at h2
        by_cases hne : (Ty.tuple (TVal.tyList svs) != Ty.tuple ts) = true
        · simp only [hne, if_true, run_bind_ok, run_throw_ok, false_and, exists_false] at h2
        · simp only [hne, Bool.false_eq_true, if_false] at h2
          have hty : TVal.tyList svs = ts := by
            have := (Ty.bne_iff _ _).not.mp hne
            simpa using this
          subst hty
          cases hn : nestAs (Ty.tuple (TVal.tyList svs)) (Val.list vs).flatten with
          | none =>
            rw [hn] at h2
            simp only [run_bind_ok, run_throw_ok, false_and, exists_false] at h2
          | some p =>
            obtain ⟨v', rest⟩ := p
            rw [hn] at h2
            simp only [run_ite_ok, run_bind_ok, run_throw_ok, run_pure_ok, false_and, exists_false,
              and_false, false_or, Prod.mk.injEq] at h2
            obtain ⟨hnone, ⟨rfl, rfl⟩, _⟩ := h2
            have hbeq : Ty.beqList (TVal.tyList svs) (TVal.tyList svs) = true := Ty.beqList_refl _
            exact ⟨v', .tuple svs, by simp [coerceRetT, hbeq],
              fun ρ'' ha => (den_renest (hind ρ'' ha) hn "_ret").1, none_of_not_isSome hnone, rfl, rfl,
              (den_renest (hind ρ (AgreeOffT.refl _ ρ)) hn "_ret").2⟩
  obtain ⟨v', sv', hco, hind', hnone, rfl, rfl, hnames⟩ := key
  have hfind := fun n => find_append_ret env ⟨"_ret", ret, (v'.decompose "_ret").map (·.1)⟩ n hnone
  obtain ⟨i1, i2, i3⟩ := bind_valueT hinv retName_good hind' hret hnames _ hfind
  refine ⟨hnone, sv, sv', hs, hco, i3, i1, i2, ?_⟩
  rw [hfind]
  simp

end QV.Sem
