import QV.Proofs.CompilerGen7
/-!
# Semantic correctness of the compiler model on the general class – part 8: the end of a statement, `compile`
-/
namespace QV.Compiler
open QV

variable {ρ : Env} {σ0 : FState}

/-- what `expqmap.remove_symbol(r)`, `expqmap[r] = iret` and `map_qubit(r, iret, promote)` do -/
structure HeadG (r : String) (t1 t3 : CState) (iret : Nat) : Prop where
  g3 : Good t3
  gates3 : t3.qc.gates = t1.qc.gates
  comp3 : t3.qc.gatesComputed = t1.qc.gatesComputed
  mk3 : t3.qc.marked = t1.qc.marked
  fr3 : t3.qc.free = t1.qc.free
  nq3 : t3.qc.numQubits = t1.qc.numQubits
  kp3 : t3.qc.kept = t1.qc.kept
  anc3a : ∀ x ∈ t3.qc.anc, x ∈ t1.qc.anc
  anc3b : iret ∉ t3.qc.anc
  anc3c : ∀ x ∈ t1.qc.anc, x ≠ iret → x ∈ t3.qc.anc
  qm3r : dictGet? t3.qc.qmap r = some iret
  qm3o : ∀ x, scratchName x = false → x ≠ r → dictGet? t3.qc.qmap x = dictGet? t1.qc.qmap x
  ex3 : ∀ p ∈ t3.expq, (p ∈ t1.expq ∧ p.1.syms.contains r = false ∧ p.2 ≠ iret) ∨ p = (.sym r, iret)

theorem stmt_headG {r : String} {iret : Nat} {u1 u2 u3 : Unit} {t1 t1' t2 t3 : CState}
    (hg1 : Good t1) (hlt1 : iret < t1.qc.numQubits)
    (hrs : (expqRemoveSymbol r).run t1 = .ok (u1, t1'))
    (hset : (expqSet (.sym r) iret).run t1' = .ok (u2, t2))
    (hmap : (mapQubit r iret true).run t2 = .ok (u3, t3)) : HeadG r t1 t3 iret := by
  have hg1' : Good t1' := (expqRemoveSymbol_ok (B := fun _ => True) hrs hg1).good
  have hs1' : t1' = { t1 with expq := t1.expq.filter (fun p => !p.1.syms.contains r) } := by
    unfold expqRemoveSymbol at hrs
    exact run_modify_ok.mp hrs
  have hqc1' : t1'.qc = t1.qc := by rw [hs1']
  have hex1' : ∀ p ∈ t1'.expq, p ∈ t1.expq ∧ p.1.syms.contains r = false := by
    rw [hs1']
    intro p hp
    obtain ⟨m1, m2⟩ := List.mem_filter.mp hp
    exact ⟨m1, by simpa using m2⟩
  obtain ⟨hqc2', hk2⟩ := expqSet_run3 hset
  have hqc2 : t2.qc = t1.qc := hqc2'.trans hqc1'
  have hg2 : Good t2 := (expqSet_ok (B := fun _ => True) hset hg1' (by rw [hqc1']; exact hlt1)).good
  obtain ⟨m1, m2, m3, m4, m5, m6, mk, m7, m8, m9, m10, m11⟩ := mapQubit_run2 hmap hg2
  have hg3 : Good t3 := (mapQubit_ok (B := fun _ => True) hmap hg2 (by rw [hqc2]; exact hlt1) trivial
    (by intro hpf; cases hpf)).1.good
  refine ⟨hg3, by rw [m1, hqc2], by rw [m2, hqc2], by rw [m3, hqc2], by rw [m4, hqc2], by rw [m5, hqc2],
    by rw [mk, hqc2], fun x hx => by rw [← hqc2]; exact m7 x hx, m8 rfl,
    fun x hx hxi => m9 x (by rw [hqc2]; exact hx) hxi, m10, fun x hx hxr => by rw [m11 x hx hxr, hqc2], ?_⟩
  intro p hp
  rw [m6] at hp
  rcases hk2 p hp with ⟨h1, h2⟩ | h'
  · exact Or.inl ⟨(hex1' p h1).1, (hex1' p h1).2, h2⟩
  · exact Or.inr h'

/-- what the end of a statement establishes about the state `t5` the next statement starts from; `M` the
qubits it released -/
structure EndG (σ0 : FState) (M : List Nat) (t1 t3 t5 : CState) : Prop where
  good : Good t5
  avail : ∀ x, Avail t5 x ↔ (Avail t1 x ∨ x ∈ M)
  zeroM : ∀ q ∈ M, cur σ0 t5 q = false
  val : ∀ q, q ∉ M → cur σ0 t5 q = cur σ0 t1 q
  free : ∀ x, x ∈ t5.qc.free ↔ (x ∈ t1.qc.free ∨ x ∈ M)
  qmap : t5.qc.qmap = t3.qc.qmap
  anc : t5.qc.anc = t3.qc.anc
  nomark : t5.qc.marked = []
  freeNd : t5.qc.free.Nodup
  comp : ∀ g ∈ t5.qc.gatesComputed.toList, ¬ Avail t5 g.target
  expq : ∀ p ∈ t5.expq, p ∈ t3.expq ∧ p.2 ∉ M
  keptNF : ∀ k ∈ t5.qc.kept, k ∉ t5.qc.free
  nl : ∀ a ∈ t5.qc.anc, a ∈ t5.qc.free ∨ a ∈ t5.qc.kept
  nq : t5.qc.numQubits = t1.qc.numQubits
  kept : M ≠ [] → t5.qc.kept = t1.qc.kept

/-- the statement's result is kept to the end: the inline `uncompute` replays, in reverse, the gates whose
target is marked; `bennettF` shows that the released ancillas are zero again -/
theorem stmt_unc {scope : List String} {r : String} {v nc : Bool} {iret : Nat} {unc : List Nat} {u : Unit}
    {s t1 t3 t4 t5 : CState} (bi : BI scope ρ σ0 s) (tp : TopG scope ρ σ0 r v nc s t1 iret)
    (hd : HeadG r t1 t3 iret)
    (hunc : uncompute.run t3 = .ok (unc, t4)) (hrm : (expqRemove unc).run t4 = .ok (u, t5)) :
    EndG σ0 t1.qc.marked t1 t3 t5 := by
  have gi := tp.gi
  obtain ⟨c1, c2, c3, c4, c5, c6, c7, c8, c9, c10⟩ := uncompute_sem (σ0 := σ0) hunc hd.g3
  have hg4 : Good t4 := (uncompute_ok (B := fun _ => True) hunc hd.g3).good
  have hqc5 := expqRemove_run hrm
  have hg5 : Good t5 := (expqRemove_ok (B := fun _ => True) hrm hg4).good
  have hex5 : ∀ p ∈ t5.expq, p ∈ t4.expq ∧ p.2 ∉ unc := by
    unfold expqRemove at hrm
    have := run_modify_ok.mp hrm; subst this
    intro p hp
    obtain ⟨m1, m2⟩ := List.mem_filter.mp hp
    exact ⟨m1, by simpa using m2⟩
  have hmk3 := hd.mk3
  have hcomp3 : t3.qc.gatesComputed.toList = s.qc.gatesComputed.toList ++ Lof s t1 := by rw [hd.comp3, gi.comp]
  have hMc : ∀ q, t1.qc.marked.contains q = true ↔ q ∈ t1.qc.marked := by intro q; simp
  have hrep : rep t3.qc.marked t3.qc.gatesComputed.toList = rep t1.qc.marked (Lof s t1) := by
    rw [hcomp3, hmk3]; unfold rep; rw [List.filter_append]
    have : s.qc.gatesComputed.toList.filter (fun g => t1.qc.marked.contains g.target) = [] :=
      List.filter_eq_nil_iff.mpr (fun g hg hc => bi.comp g hg (gi.marked_av0 ((hMc _).mp hc)))
    rw [this, List.nil_append]
  have hcur31 : cur σ0 t3 = cur σ0 t1 := cur_congr hd.gates3
  have hok : ∀ g ∈ Lof s t1, g.cls.isMCXLike = true ∧ g.wires.Nodup ∧ g.wires ≠ [] := by
    intro g hg
    have hgo := gi.good.comp_ok g (by rw [gi.comp]; exact List.mem_append_right _ hg)
    refine ⟨hgo.1, hgo.2.1, fun hnil => ?_⟩
    have := mcx_nq_pos hgo.1
    rw [← hgo.2.2.2, hnil] at this
    exact absurd this (Nat.lt_irrefl _)
  obtain ⟨bM, bN⟩ := bennettF t1.qc.marked (cur σ0 t1) (Lof s t1) (cur σ0 s) hok
    (CtlOK.mono (fun f c hq => Or.inr hq) _ _ gi.ben) (cur_of_gates gi.gates).symm
  have hcur4 : cur σ0 t4 = runF (rep t1.qc.marked (Lof s t1)) (cur σ0 t1) := by rw [c1, hrep, hcur31]
  have hcur5 : cur σ0 t5 = cur σ0 t4 := by unfold cur; rw [hqc5]
  have hv4M : ∀ q ∈ t1.qc.marked, cur σ0 t5 q = false := by
    intro q hq
    rw [hcur5, hcur4, bM q ((hMc q).mpr hq)]
    exact bi.zero q (gi.marked_av0 hq)
  have hv4N : ∀ q, q ∉ t1.qc.marked → cur σ0 t5 q = cur σ0 t1 q := by
    intro q hq
    rw [hcur5, hcur4]
    exact bN q (by
      cases hc : t1.qc.marked.contains q
      · rfl
      · exact absurd ((hMc q).mp hc) hq)
  have hfree5 : ∀ x, x ∈ t5.qc.free ↔ (x ∈ t1.qc.free ∨ x ∈ t1.qc.marked) := by
    intro x
    rw [hqc5, c6, hmk3, hd.fr3]
    exact ⟨mem_foldl_setIns, mem_foldl_setIns_of_mem _ _ x⟩
  have hnq5 : t5.qc.numQubits = t1.qc.numQubits := by rw [hqc5, c3, hd.nq3]
  have hav5 : ∀ x, Avail t5 x ↔ (Avail t1 x ∨ x ∈ t1.qc.marked) := by
    intro x
    unfold Avail
    rw [hfree5, hnq5]
    constructor
    · rintro ((h' | h') | h')
      · exact Or.inl (Or.inl h')
      · exact Or.inr h'
      · exact Or.inl (Or.inr h')
    · rintro ((h' | h') | h')
      · exact Or.inl (Or.inl h')
      · exact Or.inr h'
      · exact Or.inl (Or.inr h')
  have hMunc : ∀ m ∈ t1.qc.marked, m ∈ unc := by
    intro m hm
    obtain ⟨g, hg, ht⟩ := (gi.marks m hm).2.2.2 (fun hh => hh)
    have : g.target ∈ unc := c8 g (by rw [hcomp3]; exact List.mem_append_right _ hg)
      (by rw [hmk3, ht]; exact (hMc m).mpr hm)
    rw [ht] at this
    exact this
  have hkept5 : t5.qc.kept = t1.qc.kept := by rw [hqc5, c10, hd.kp3]
  refine ⟨hg5, hav5, hv4M, hv4N, hfree5, by rw [hqc5, c2], by rw [hqc5, c4], ?_,
    by rw [hqc5, c6, hmk3, hd.fr3]; exact foldl_setIns_nodup _ _ gi.freeNd, ?_, ?_, ?_, ?_, hnq5, fun _ => hkept5⟩
  · rw [hqc5, c7, hmk3]
    apply List.filter_eq_nil_iff.mpr
    intro m hm
    simp [hMunc m hm]
  · intro g hg
    rw [hqc5, c9, hmk3] at hg
    obtain ⟨hg1, hg2⟩ := List.mem_filter.mp hg
    have hnM : g.target ∉ t1.qc.marked := fun hm => by
      rw [(hMc _).mpr hm] at hg2; cases hg2
    have hna1 : ¬ Avail t1 g.target := by
      rw [hcomp3] at hg1
      rcases List.mem_append.mp hg1 with h' | h'
      · exact fun ha => bi.comp g h' (gi.avail _ ha)
      · exact (gi.tgt g h').2
    exact fun ha => ((hav5 _).mp ha).elim hna1 hnM
  · intro p hp
    obtain ⟨h4, hnu⟩ := hex5 p hp
    exact ⟨c5 p h4, fun hm => hnu (hMunc _ hm)⟩
  · intro k hk hf
    rw [hkept5] at hk
    rcases (hfree5 k).mp hf with h' | h'
    · exact gi.keptNF k hk h'
    · exact (gi.marks k h').2.1 hk
  · intro a ha
    rw [hqc5, c4] at ha
    have ha1 := hd.anc3a a ha
    have hai : a ≠ iret := fun e => hd.anc3b (e ▸ ha)
    by_cases hf : a ∈ t1.qc.free
    · exact Or.inl ((hfree5 a).mpr (Or.inl hf))
    · by_cases hk : a ∈ t1.qc.kept
      · exact Or.inr (by rw [hkept5]; exact hk)
      · by_cases hm : a ∈ t1.qc.marked
        · exact Or.inl ((hfree5 a).mpr (Or.inr hm))
        · exact absurd (tp.pend a ha1 hf hk hm) hai

/-- the statement's result is undone by the final `uncompute_all`: `keep_ancillas` leaves every qubit as it
is, moves the ancillas in use to the kept set and drops the marks -/
theorem stmt_keep {scope : List String} {r : String} {v nc : Bool} {iret : Nat} {u : Unit}
    {s t1 t3 t5 : CState} (bi : BI scope ρ σ0 s) (tp : TopG scope ρ σ0 r v nc s t1 iret)
    (hd : HeadG r t1 t3 iret) (hk : keepAncillas.run t3 = .ok (u, t5)) : EndG σ0 [] t1 t3 t5 := by
  have gi := tp.gi
  have hg5 : Good t5 := (keepAncillas_ok (B := fun _ => True) hk hd.g3).good
  unfold keepAncillas at hk
  have hs5 := modQC_run hk
  have hgt5 : t5.qc.gates = t3.qc.gates := by rw [hs5]
  have hgc5 : t5.qc.gatesComputed = t3.qc.gatesComputed := by rw [hs5]
  have hf5 : t5.qc.free = t3.qc.free := by rw [hs5]
  have hn5 : t5.qc.numQubits = t3.qc.numQubits := by rw [hs5]
  have ha5 : t5.qc.anc = t3.qc.anc := by rw [hs5]
  have hq5 : t5.qc.qmap = t3.qc.qmap := by rw [hs5]
  have hm5 : t5.qc.marked = [] := by rw [hs5]
  have hex5 : t5.expq = t3.expq := by rw [hs5]
  have hk5 : t5.qc.kept = (t3.qc.anc.filter (fun a => !t3.qc.free.contains a)).foldl setIns t3.qc.kept := by
    rw [hs5]
  have hav : ∀ x, Avail t5 x ↔ Avail t1 x := by
    intro x; unfold Avail; rw [hf5, hn5, hd.fr3, hd.nq3]
  have hcur : cur σ0 t5 = cur σ0 t1 := by rw [cur_congr hgt5, cur_congr hd.gates3]
  refine ⟨hg5, fun x => (by rw [hav]; simp), fun q hq => (by cases hq), fun q _ => (by rw [hcur]),
    fun x => (by rw [hf5, hd.fr3]; simp), hq5, ha5, hm5, (by rw [hf5, hd.fr3]; exact gi.freeNd), ?_,
    fun p hp => ⟨(by rw [← hex5]; exact hp), List.not_mem_nil⟩, ?_, ?_, hn5.trans hd.nq3, fun h => absurd rfl h⟩
  · intro g hg ha
    rw [hgc5, hd.comp3, gi.comp] at hg
    have ha1 : Avail t1 g.target := (hav _).mp ha
    rcases List.mem_append.mp hg with h' | h'
    · exact bi.comp g h' (gi.avail _ ha1)
    · exact (gi.tgt g h').2 ha1
  · intro k hk' hf
    rw [hf5] at hf
    rw [hk5] at hk'
    rcases mem_foldl_setIns hk' with h' | h'
    · exact gi.keptNF k (by rw [← hd.kp3]; exact h') (by rw [← hd.fr3]; exact hf)
    · have := (List.mem_filter.mp h').2
      simp only [Bool.not_eq_true', List.contains_eq_mem, decide_eq_false_iff_not] at this
      exact this hf
  · intro a ha
    rw [ha5] at ha
    by_cases hf : a ∈ t3.qc.free
    · exact Or.inl (by rw [hf5]; exact hf)
    · refine Or.inr ?_
      rw [hk5]
      exact mem_foldl_setIns_of_mem _ _ a (Or.inr (List.mem_filter.mpr ⟨ha, by simpa using hf⟩))

/-- the invariant for the next statement: the scope extended by the defined name, the environment updated at
the defined name (which may have been bound before) -/
theorem BI.step {scope : List String} {env : List (String × Bool)} {e : BExp} {r : String} {iret : Nat}
    {nc : Bool} {M : List Nat} {s t1 t3 t5 : CState} (bi : BI scope (envOf env) σ0 s)
    (tp : TopG scope (envOf env) σ0 r (e.eval (envOf env)) nc s t1 iret)
    (hd : HeadG r t1 t3 iret) (he : EndG σ0 M t1 t3 t5) (hM : ∀ m ∈ M, m ∈ t1.qc.anc ∧ m ≠ iret)
    (hbind : ∀ n ∈ scope, n ≠ r → ∃ q, dictGet? t1.qc.qmap n = some q)
    (hres : reservedName r = false) :
    BI (scope ++ [r]) (envOf ((r, e.eval (envOf env)) :: env)) σ0 t5 := by
  have gi := tp.gi
  have hrT : r ≠ "TRUE" ∧ r ≠ "FALSE" := by
    simp only [reservedName, Bool.or_eq_false_iff, beq_eq_false_iff_ne, ne_eq] at hres
    exact ⟨hres.1.2, hres.1.1⟩
  have hiretF : iret ∉ t5.qc.free := by
    intro hf
    rcases (he.free _).mp hf with h' | h'
    · exact tp.nav (Or.inl h')
    · exact (hM _ h').2 rfl
  have hiretM : iret ∉ M := fun hm => (hM _ hm).2 rfl
  have hρ : ∀ n, n ≠ r → envOf ((r, e.eval (envOf env)) :: env) n = envOf env n := fun n hn => envOf_cons_ne hn
  have hkv : ∀ n, n ≠ r → kval (envOf ((r, e.eval (envOf env)) :: env)) n = kval (envOf env) n := by
    intro n hn; unfold kval; rw [hρ n hn]
  have hkvr : kval (envOf ((r, e.eval (envOf env)) :: env)) r = e.eval (envOf env) := by
    unfold kval; rw [if_neg hrT.1, if_neg hrT.2, envOf_cons_self]
  have hknown : ∀ n, Known (scope ++ [r]) n → n ≠ r → Known scope n := by
    rintro n (hk | hk | hk) hn
    · rcases List.mem_append.mp hk with hk | hk
      · exact Or.inl hk
      · exact absurd (by simpa using hk) hn
    · exact Or.inr (Or.inl hk)
    · exact Or.inr (Or.inr hk)
  have hqmK : ∀ n, Known scope n → n ≠ r → dictGet? t5.qc.qmap n = dictGet? t1.qc.qmap n := by
    intro n hk hn
    rw [he.qmap, hd.qm3o n (known_notAnc bi.scopeOK hk) hn]
  have hnavM : ∀ q, ¬ Avail t1 q → q ∉ M → ¬ Avail t5 q := fun q h1 h2 h' => ((he.avail q).mp h').elim h1 h2
  refine ⟨he.good, ?_, ?_, ?_, ?_, ?_, he.freeNd, ?_, he.keptNF, he.nomark, he.comp, he.nl⟩
  · intro q hq
    rcases (he.avail q).mp hq with h' | h'
    · by_cases hqm : q ∈ M
      · exact he.zeroM q hqm
      · rw [he.val q hqm]; exact gi.zero q h'
    · exact he.zeroM q h'
  · intro n q hk hq
    by_cases hn : n = r
    · subst hn
      rw [he.qmap, hd.qm3r] at hq
      cases hq
      exact ⟨hiretF, by rw [he.anc]; exact hd.anc3b, by rw [he.val _ hiretM, hkvr]; exact tp.val⟩
    · have hk' := hknown n hk hn
      rw [hqmK n hk' hn] at hq
      obtain ⟨t1f, t1a, t1v⟩ := gi.names n q ⟨hk', hn⟩ hq
      have hqM : q ∉ M := fun hm => t1a (hM q hm).1
      refine ⟨fun hf => ?_, fun ha => t1a (hd.anc3a q (by rw [← he.anc]; exact ha)), ?_⟩
      · rcases (he.free _).mp hf with h' | h'
        · exact t1f h'
        · exact hqM h'
      · rw [he.val q hqM, hkv n hn]; exact t1v
  · intro n hn
    by_cases hnr : n = r
    · rw [hnr]; exact ⟨iret, by rw [he.qmap]; exact hd.qm3r⟩
    · have hns : n ∈ scope := by
        rcases List.mem_append.mp hn with h' | h'
        · exact h'
        · exact absurd (by simpa using h') hnr
      obtain ⟨q, hq⟩ := hbind n hns hnr
      exact ⟨q, by rw [hqmK n (Or.inl hns) hnr]; exact hq⟩
  · intro n hn
    rcases List.mem_append.mp hn with hn | hn
    · exact bi.scopeOK n hn
    · have : n = r := by simpa using hn
      rw [this]; exact hres
  · intro p hp
    obtain ⟨h3, hpM⟩ := he.expq p hp
    rcases hd.ex3 p h3 with ⟨h1, hsy, hpi⟩ | rfl
    · obtain ⟨c1, c2, _⟩ := gi.cache p h1 (fun hh => hh)
      refine ⟨hnavM _ c1 hpM, ?_⟩
      rw [he.val _ hpM, c2]
      apply evalG_congr
      intro n hn
      have hnr : n ≠ r := by
        rintro rfl
        have : p.1.syms.contains n = true := by simpa using hn
        rw [this] at hsy; cases hsy
      exact (hρ n hnr).symm
    · refine ⟨hnavM _ tp.nav hiretM, ?_⟩
      show cur σ0 t5 iret = envOf ((r, e.eval (envOf env)) :: env) r
      rw [he.val _ hiretM, envOf_cons_self]; exact tp.val
  · intro q hq
    rw [he.anc]
    rcases (he.free q).mp hq with h' | h'
    · exact hd.anc3c q (gi.freeAnc q h') (fun e' => tp.nav (Or.inl (e' ▸ h')))
    · exact hd.anc3c q (hM q h').1 (hM q h').2

/-! ### the statement loop -/

/-- **the statement loop on the general class**, for every return list and with or without final
uncomputation: the invariant `BI` is kept by every definition, the scope grows by the defined names, the
environment follows `evalDefs` -/
theorem defsG {retBits : Option (List String)} {doUnc : Bool} :
    ∀ (defs : List (String × BExp)) (scope : List String) (env : List (String × Bool)) {u : Unit} {s s' : CState},
    (compileDefs retBits doUnc defs).run s = .ok (u, s') → BI scope (envOf env) σ0 s →
    genDefs scope defs = true →
    ∃ scope', BI scope' (envOf (evalDefs defs env)) σ0 s' ∧ (∀ n ∈ scope, n ∈ scope') ∧
      (∀ p ∈ defs, p.1 ∈ scope')
  | [], scope, env, u, s, s', h, bi, _ => by
    unfold compileDefs at h
    obtain ⟨_, rfl⟩ := run_pure_ok.mp h
    exact ⟨scope, bi, fun n hn => hn, fun p hp => absurd hp List.not_mem_nil⟩
  | (r, e) :: rest, scope, env, u, s, s', h, bi, hgen => by
    unfold compileDefs at h
    obtain ⟨iret, t1, he, k1⟩ := run_bind_ok.mp h
    obtain ⟨u3, t1', hrs, k1'⟩ := run_bind_ok.mp k1
    obtain ⟨u4, t2, hset, k2⟩ := run_bind_ok.mp k1'
    obtain ⟨u5, t3, hmap, k3⟩ := run_bind_ok.mp k2
    simp only [genDefs, Bool.and_eq_true, Bool.not_eq_true'] at hgen
    obtain ⟨⟨⟨hres, hwf⟩, hsn⟩, hrest⟩ := hgen
    have tp := topExpr_g he bi hwf hsn
    have hd := stmt_headG tp.gi.good (notAvail_lt tp.nav) hrs hset hmap
    have hstep : Step (· = r) s t1 := (exprSpec (B := (· = r)) e none (some r) he bi.good
      (by intro d hd'; cases hd') (by intro x hx; cases hx; rfl)).1
    have hbind : ∀ n ∈ scope, n ≠ r → ∃ q, dictGet? t1.qc.qmap n = some q := by
      intro n hn hnr
      obtain ⟨q, hq⟩ := bi.bound n hn
      exact ⟨q, by rw [hstep.qmap_keep n hnr (bi.scopeOK n hn)]; exact hq⟩
    have fin : ∀ {M : List Nat} {t5 : CState}, EndG σ0 M t1 t3 t5 → (∀ m ∈ M, m ∈ t1.qc.anc ∧ m ≠ iret) →
        (compileDefs retBits doUnc rest).run t5 = .ok (u, s') →
        ∃ scope', BI scope' (envOf (evalDefs ((r, e) :: rest) env)) σ0 s' ∧
          (∀ n ∈ scope, n ∈ scope') ∧ (∀ p ∈ (r, e) :: rest, p.1 ∈ scope') := by
      intro M t5 hend hM k5
      obtain ⟨scope', hfin, hsub, hmem⟩ := defsG rest (scope ++ [r]) ((r, e.eval (envOf env)) :: env) k5
        (bi.step tp hd hend hM hbind hres) hrest
      refine ⟨scope', hfin, fun n hn => hsub n (List.mem_append_left _ hn), fun p hp => ?_⟩
      rcases List.mem_cons.mp hp with rfl | hp
      · exact hsub _ (by simp)
      · exact hmem p hp
    rcases run_ite_ok.mp k3 with ⟨_, k3⟩ | ⟨_, k3⟩
    · obtain ⟨unc, t4, hunc, k4⟩ := run_bind_ok.mp k3
      obtain ⟨u6, t5, hrm, k5⟩ := run_bind_ok.mp k4
      exact fin (stmt_unc bi tp hd hunc hrm) (fun m hm => ⟨(tp.gi.marks m hm).1, fun e' => tp.nm (e' ▸ hm)⟩) k5
    · obtain ⟨u6, t5, hk, k5⟩ := run_bind_ok.mp k3
      exact fin (stmt_keep bi tp hd hk) (fun m hm => by cases hm) k5

/-! ### `compile` -/

/-- the state after the argument qubits have been added satisfies the invariant between statements -/
theorem init_bi {inputs : List String} {cs : List Nat} {x : List Bool} {u : Unit} {s1 : CState} (N : Nat)
    (hin : (addInputs inputs).run { choices := cs, inputs := inputs } = .ok (u, s1))
    (hnd : inputs.Nodup) (hfresh : ∀ n ∈ inputs, reservedName n = false) (hx : x.length = inputs.length) :
    BI inputs (envOf (inputs.zip x)) (toF (initState x N)) s1 ∧ s1.qc.numQubits = inputs.length := by
  obtain ⟨hp1, hm1, hgc1, hex1, hn1⟩ := init_pre2 N hin hnd hfresh hx
  obtain ⟨ha1, _, _, _⟩ := addInputs_scratch inputs hin
  refine ⟨⟨hp1.good, hp1.zero, hp1.tbl, hp1.bound, hp1.scopeOK, ?_, hp1.freeNd, hp1.freeAnc, hp1.keptNF, hm1, ?_, ?_⟩,
    hn1⟩
  · rw [hex1]; intro p hp; cases hp
  · rw [hgc1]; intro g hg; cases hg
  · rw [ha1]; intro a ha; cases ha

/-- **the general class, final uncomputation on or off**: after every successful run of `compile` the qubit mapped
to a name that is an argument or a left-hand side – and, with final uncomputation on, a requested return bit –
ends with the value the reference semantics `evalDefs` gives the name, on every input -/
theorem compile_general_sem {inputs : List String} {defs : List (String × BExp)} {rets : List String}
    {unc : Bool} {cs : List Nat} {s : CState}
    (h : (compile inputs defs (some rets) unc).run { choices := cs } = .ok ((), s))
    (hnd : inputs.Nodup) (hfresh : ∀ n ∈ inputs, reservedName n = false)
    (hgen : genDefs inputs defs = true)
    (x : List Bool) (hx : x.length = inputs.length) (r : String) (hr : r ∈ inputs ∨ ∃ p ∈ defs, p.1 = r)
    (hrr : unc = true → r ∈ rets) :
    ∃ q, dictGet? s.qc.qmap r = some q ∧
      (runClassical s.qc.gates.toList (initState x s.qc.numQubits)).getD q false =
        envOf (evalDefs defs (inputs.zip x)) r := by
  have hgs : Good s := (compile_ok h).1
  unfold compile at h
  obtain ⟨u0, s0, hmod, h1⟩ := run_bind_ok.mp h
  have := run_modify_ok.mp hmod; subst this
  obtain ⟨u1, s1, hin, h2⟩ := run_bind_ok.mp h1
  obtain ⟨u2, s2, hdefs, h3⟩ := run_bind_ok.mp h2
  obtain ⟨extra, f1, f2, f3, f4⟩ := compile_tail h3
  obtain ⟨bi1, hn1⟩ := init_bi s.qc.numQubits hin hnd hfresh hx
  obtain ⟨scope', hfin, hsub, hmem⟩ := defsG defs inputs (inputs.zip x) hdefs bi1 hgen
  have hrs : r ∈ scope' := by
    rcases hr with hr | ⟨p, hpd, rfl⟩
    · exact hsub r hr
    · exact hmem p hpd
  obtain ⟨q, hq⟩ := hfin.bound r hrs
  have hval := (hfin.names r q (Or.inl hrs) hq).2.2
  rw [kval_scope hfin.scopeOK hrs] at hval
  refine ⟨q, by rw [f3]; exact hq, ?_⟩
  rw [compile_tail_val hgs hfin.good f1 f2 f4 (by
      rw [hx, ← hn1]
      exact (compileDefs_ok (B := fun _ => True) defs hdefs bi1.good (fun _ _ => trivial)).1.nq_le)
    (fun hu => List.mem_filterMap.mpr ⟨r, hrr hu, hq⟩)]
  exact hval

/-! ### the general class contains the straight-line classes -/

mutual
theorem wfExpG_of_wfExpW {scope : List String} : ∀ e : BExp, wfExpW scope false e = true → wfExpG scope e = true
  | .sym _, h => by simpa [wfExpW, wfExpG] using h
  | .tt, _ => rfl
  | .ff, _ => rfl
  | .not a, h => by
    have h' : wfExpW scope false a = true := by simpa [wfExpW] using h
    simpa [wfExpG] using wfExpG_of_wfExpW a h'
  | .and l, h => by
    have h' : wfExpListW scope false l = true := by simpa [wfExpW] using h
    simpa [wfExpG] using wfExpListG_of_wfExpListW l h'
  | .or l, h => by
    simp only [wfExpW, Bool.and_eq_true, Bool.or_eq_true, Bool.false_eq_true, false_or] at h
    simp only [wfExpG, Bool.and_eq_true]
    exact ⟨wfExpListG_of_wfExpListW l h.1, h.2⟩
  | .xor l, h => by
    simp only [wfExpW, Bool.and_eq_true, Bool.or_eq_true, Bool.false_eq_true, false_or] at h
    simp only [wfExpG, Bool.and_eq_true]
    exact ⟨⟨wfExpListG_of_wfExpListW l h.1.1, h.1.2⟩, h.2⟩
  | .ite _ _ _, h => by simp [wfExpW] at h
  | .imp _ _, h => by simp [wfExpW] at h
theorem wfExpListG_of_wfExpListW {scope : List String} : ∀ l : List BExp, wfExpListW scope false l = true →
    wfExpListG scope l = true
  | [], _ => rfl
  | a :: as, h => by
    simp only [wfExpListW, Bool.and_eq_true] at h
    simp only [wfExpListG, Bool.and_eq_true]
    exact ⟨wfExpG_of_wfExpW a h.1, wfExpListG_of_wfExpListW as h.2⟩
end

theorem genDefs_of_slDefsW : ∀ (defs : List (String × BExp)) (scope : List String),
    slDefsW scope defs = true → genDefs scope defs = true
  | [], _, _ => rfl
  | (r, e) :: rest, scope, h => by
    simp only [slDefsW, Bool.and_eq_true, Bool.not_eq_true', List.contains_eq_mem, decide_eq_false_iff_not] at h
    obtain ⟨⟨⟨hres, hnr⟩, hwf⟩, hrest⟩ := h
    simp only [genDefs, Bool.and_eq_true, Bool.not_eq_true']
    refine ⟨⟨⟨hres, wfExpG_of_wfExpW e hwf⟩, ?_⟩, genDefs_of_slDefsW rest _ hrest⟩
    cases e with
    | not a =>
      cases a with
      | sym n =>
        simp only [selfNot, beq_eq_false_iff_ne, ne_eq]
        rintro rfl
        exact hnr (by simpa [wfExpW] using hwf)
      | _ => rfl
    | _ => rfl

/-- the class of `C02_fragment_named_wide` (hence `inFragmentNamed`, `inFragmentMulti`) lies in the general class -/
theorem inGeneral_of_inFragmentNamedW {inputs : List String} {defs : List (String × BExp)} {rets : List String}
    (h : inFragmentNamedW inputs defs rets = true) : inGeneral inputs defs rets = true := by
  simp only [inFragmentNamedW, Bool.and_eq_true] at h
  simp only [inGeneral, Bool.and_eq_true]
  refine ⟨⟨h.1.1.1, genDefs_of_slDefsW _ _ h.1.1.2⟩, ?_⟩
  have := h.2
  simp only [List.all_eq_true] at this ⊢
  intro r hr
  simp only [Bool.or_eq_true]
  exact Or.inr (this r hr)

end QV.Compiler
