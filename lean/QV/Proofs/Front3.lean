import QV.Proofs.Front2
/-! Soundness of `QV.Front.tr` w.r.t. `QV.Sem.semW`, continued: comparisons. -/
namespace QV.Sem
open QV QV.Arith QV.Front

set_option linter.unusedSimpArgs false

theorem qLt_eval (ρ : QV.Env) (l r : List BExp) :
    (qLt Quirks.none l r).eval ρ = decide (val ρ l < val ρ r) := by
  have hg := qGt_eval ρ l r
  have he := qEq_eval ρ l r
  simp only [qLt, BExp.eval, evalAnd, hg, he, Bool.and_true]
  by_cases h1 : val ρ l > val ρ r
  · have : ¬ val ρ l < val ρ r := by omega
    simp [h1, this]
  · by_cases h2 : val ρ l = val ρ r
    · have : ¬ val ρ l < val ρ r := by omega
      simp [h2, this]
    · have : val ρ l < val ρ r := by omega
      simp [h1, h2, this]

theorem qLte_eval (ρ : QV.Env) (l r : List BExp) :
    (qLte Quirks.none l r).eval ρ = decide (val ρ l ≤ val ρ r) := by
  have hg := qGt_eval ρ l r
  simp only [qLte, BExp.eval, hg]
  by_cases h1 : val ρ l > val ρ r
  · have : ¬ val ρ l ≤ val ρ r := by omega
    simp [h1, this]
  · have : val ρ l ≤ val ρ r := by omega
    simp [h1, this]

theorem qGte_eval (ρ : QV.Env) (l r : List BExp) :
    (qGte Quirks.none l r).eval ρ = decide (val ρ l ≥ val ρ r) := by
  have hl := qLt_eval ρ l r
  simp only [qGte, BExp.eval, hl]
  by_cases h1 : val ρ l < val ρ r
  · have : ¬ val ρ l ≥ val ρ r := by omega
    simp [h1, this]
  · have : val ρ l ≥ val ρ r := by omega
    simp [h1, this]

set_option hygiene false in
/-- the `Qint × Qint` branch of `Compare`: whatever events are logged, the result is the library
comparator `qf` on the two bit lists -/
macro "cmp_int" qf:term:max spec:term:max res:term:max : tactic => `(tactic| (
  simp only [String.reduceEq, imp_self, Ty.size?, run_bind_ok, run_lift_ok, bitsOf_ofBits,
    Except.ok.injEq] at h3
  obtain ⟨_, _, ⟨rfl, rfl⟩, _, _, ⟨rfl, rfl⟩, h4⟩ := h3
  simp only [isQint, Bool.not_true, Bool.false_eq_true, if_false] at h4
  have h5 : (t, v) = (Ty.bool, Val.atom ($qf a b)) := by
    split at h4
    · simp only [run_bind_ok, run_pure_ok] at h4
      obtain ⟨_, _, _, _, _, ⟨rfl, _⟩, h6, _⟩ := h4
      exact h6
    · simp only [run_bind_ok, run_pure_ok] at h4
      obtain ⟨_, _, ⟨rfl, _⟩, h6, _⟩ := h4
      exact h6
  cases h5
  exact ⟨.bool $res, by simp [semW, hsl, hsr, cmpNat], Den.mk_bool _ _ ($spec ρ a b)⟩))

set_option hygiene false in
macro "cmp_mixed" : tactic => `(tactic|
  (simp only [String.reduceEq, imp_self, Ty.size?, run_throw_ok] at h3))

set_option hygiene false in
macro "cmp_bool_throw" : tactic => `(tactic|
  (simp only [run_bind_ok, run_lift_ok, atomOf_atom, Except.ok.injEq] at h3
   obtain ⟨_, _, ⟨rfl, rfl⟩, _, _, ⟨rfl, rfl⟩, h4⟩ := h3
   split at h4
   · rename_i h; exact absurd h (by decide)
   · rename_i h; exact absurd h (by decide)
   · simp only [run_throw_ok] at h4))

theorem sound_cmp_eq (ρ : QV.Env) (env : Front.Env) (σ : SEnv) (l r : PExp)
    (ihl : Sound ρ env σ l) (ihr : Sound ρ env σ r) : Sound ρ env σ (.cmp "Eq" l r) := by
  bin_start
  have hf : (Gen.comparators.find? (·.1 == "Eq")) = some ("Eq", "eq") := by decide
  simp only [hf] at h3
  cases hdl with
  | bool a =>
    cases hdr with
    | bool b =>
      simp only [String.reduceEq, imp_self, run_bind_ok, run_lift_ok, atomOf_atom, Except.ok.injEq,
        run_pure_ok] at h3
      obtain ⟨_, _, ⟨rfl, rfl⟩, _, _, ⟨rfl, rfl⟩, h4, _⟩ := h3
      cases h4
      exact ⟨.bool (a.eval ρ == b.eval ρ), by simp [semW, hsl, hsr, cmpBool],
        Den.mk_bool _ _ (bEq_eval ρ a b)⟩
    | int b => cmp_mixed
  | int a =>
    cases hdr with
    | bool b => cmp_mixed
    | int b => cmp_int qEq qEq_eval (decide (val ρ a = val ρ b))

theorem sound_cmp_neq (ρ : QV.Env) (env : Front.Env) (σ : SEnv) (l r : PExp)
    (ihl : Sound ρ env σ l) (ihr : Sound ρ env σ r) : Sound ρ env σ (.cmp "NotEq" l r) := by
  bin_start
  have hf : (Gen.comparators.find? (·.1 == "NotEq")) = some ("NotEq", "neq") := by decide
  simp only [hf] at h3
  cases hdl with
  | bool a =>
    cases hdr with
    | bool b =>
      simp only [String.reduceEq, imp_self, run_bind_ok, run_lift_ok, atomOf_atom, Except.ok.injEq,
        run_pure_ok] at h3
      obtain ⟨_, _, ⟨rfl, rfl⟩, _, _, ⟨rfl, rfl⟩, h4, _⟩ := h3
      cases h4
      exact ⟨.bool (a.eval ρ != b.eval ρ), by simp [semW, hsl, hsr, cmpBool],
        Den.mk_bool _ _ (bNeq_eval ρ a b)⟩
    | int b => cmp_mixed
  | int a =>
    cases hdr with
    | bool b => cmp_mixed
    | int b => cmp_int qNeq qNeq_eval (decide (val ρ a ≠ val ρ b))

theorem sound_cmp_lt (ρ : QV.Env) (env : Front.Env) (σ : SEnv) (l r : PExp)
    (ihl : Sound ρ env σ l) (ihr : Sound ρ env σ r) : Sound ρ env σ (.cmp "Lt" l r) := by
  bin_start
  have hf : (Gen.comparators.find? (·.1 == "Lt")) = some ("Lt", "lt") := by decide
  simp only [hf] at h3
  cases hdl with
  | bool a =>
    cases hdr with
    | bool b => cmp_bool_throw
    | int b => cmp_mixed
  | int a =>
    cases hdr with
    | bool b => cmp_mixed
    | int b => cmp_int (qLt Quirks.none) qLt_eval (decide (val ρ a < val ρ b))

theorem sound_cmp_lte (ρ : QV.Env) (env : Front.Env) (σ : SEnv) (l r : PExp)
    (ihl : Sound ρ env σ l) (ihr : Sound ρ env σ r) : Sound ρ env σ (.cmp "LtE" l r) := by
  bin_start
  have hf : (Gen.comparators.find? (·.1 == "LtE")) = some ("LtE", "lte") := by decide
  simp only [hf] at h3
  cases hdl with
  | bool a =>
    cases hdr with
    | bool b => cmp_bool_throw
    | int b => cmp_mixed
  | int a =>
    cases hdr with
    | bool b => cmp_mixed
    | int b => cmp_int (qLte Quirks.none) qLte_eval (decide (val ρ a ≤ val ρ b))

theorem sound_cmp_gt (ρ : QV.Env) (env : Front.Env) (σ : SEnv) (l r : PExp)
    (ihl : Sound ρ env σ l) (ihr : Sound ρ env σ r) : Sound ρ env σ (.cmp "Gt" l r) := by
  bin_start
  have hf : (Gen.comparators.find? (·.1 == "Gt")) = some ("Gt", "gt") := by decide
  simp only [hf] at h3
  cases hdl with
  | bool a =>
    cases hdr with
    | bool b => cmp_bool_throw
    | int b => cmp_mixed
  | int a =>
    cases hdr with
    | bool b => cmp_mixed
    | int b => cmp_int (qGt Quirks.none) qGt_eval (decide (val ρ a > val ρ b))

theorem sound_cmp_gte (ρ : QV.Env) (env : Front.Env) (σ : SEnv) (l r : PExp)
    (ihl : Sound ρ env σ l) (ihr : Sound ρ env σ r) : Sound ρ env σ (.cmp "GtE" l r) := by
  bin_start
  have hf : (Gen.comparators.find? (·.1 == "GtE")) = some ("GtE", "gte") := by decide
  simp only [hf] at h3
  cases hdl with
  | bool a =>
    cases hdr with
    | bool b => cmp_bool_throw
    | int b => cmp_mixed
  | int a =>
    cases hdr with
    | bool b => cmp_mixed
    | int b => cmp_int (qGte Quirks.none) qGte_eval (decide (val ρ a ≥ val ρ b))

end QV.Sem
