import QV.Model.Api
/-! Helper lemmas about the API state machine with every listed defect repaired (`Quirks.none`). -/
namespace QV.Api
open QV

@[simp] theorem none_exec : Quirks.none.execIntoModuleGlobals = false := rfl
@[simp] theorem none_eval : Quirks.none.evalSeesLocals = false := rfl
@[simp] theorem none_oraclize : Quirks.none.oraclizeRenames = false := rfl
@[simp] theorem none_grover : Quirks.none.groverMutatesOracle = false := rfl
@[simp] theorem none_bindOrig : Quirks.none.bindOrigWithoutDefs = false := rfl
@[simp] theorem none_defShadows : Quirks.none.defShadowsAnnotation = false := rfl

@[simp] theorem defShadows_none (annots : List String) (defs : List DefView) :
    defShadows Quirks.none annots defs = false := by simp [defShadows]

@[simp] theorem collides_none (ns : List (String × Src)) (r : List String) :
    collides Quirks.none ns r = false := by simp [collides]

@[simp] theorem nsWrite_none (ns : List (String × Src)) (n : String) (s : Src) :
    nsWrite Quirks.none ns n s = ns := by simp [nsWrite]

@[simp] theorem origNow_none (P : Pool) (ns : List (String × Src)) (f : QF) :
    f.origNow Quirks.none P ns = f.orig := by simp [QF.origNow]

/-- with nothing shared, a fingerprint does not depend on the module namespace -/
theorem qffp_none_ns (P : Pool) (ns ns' : List (String × Src)) (f : QF) :
    f.fp Quirks.none P ns = f.fp Quirks.none P ns' := by simp [QF.fp]

theorem fp_none_ns (P : Pool) (ns ns' : List (String × Src)) (o : Obj) :
    o.fp Quirks.none P ns = o.fp Quirks.none P ns' := by
  cases o with
  | dead => rfl
  | qf f => simp [Obj.fp, qffp_none_ns P ns ns']
  | unbound i defs => rfl
  | alg a =>
    simp only [Obj.fp]
    cases a.own with
    | none => rfl
    | some f => simp [qffp_none_ns P ns ns']


/-! ### what the repaired operations do to the state -/

theorem fromFunction_none_fst (P : Pool) (K : Oracle) (s : ApiState) (src : Src) (key : String)
    (annots : List String) (params : Bool) (defs : List DefView) :
    (fromFunction Quirks.none P K s src key annots params defs).1 = s := by
  unfold fromFunction
  simp only [collides_none, defShadows_none, nsWrite_none, Bool.false_eq_true, ↓reduceIte]
  split
  · rfl
  · split <;> rfl

theorem oraclizeCore_none_fst (P : Pool) (K : Oracle) (s : ApiState) (r : Nat) (f : QF) (e : String) :
    (oraclizeCore Quirks.none P K s r f e).1 = s := by
  unfold oraclizeCore
  simp only [none_oraclize, collides_none, Bool.false_eq_true, ↓reduceIte, fromFunction_none_fst]

theorem groverPre_none_fst (P : Pool) (K : Oracle) (s : ApiState) (r : Nat) (f : QF)
    (elem : Option String) : (groverPre Quirks.none P K s r f elem).1 = s := by
  unfold groverPre
  cases elem with
  | none => rfl
  | some e => simp only [oraclizeCore_none_fst]

theorem groverFinish_none_fst (s1 : ApiState) (r : Nat) (f : QF) (own : Option QF) (iters : Nat) :
    (groverFinish Quirks.none s1 r f own iters).1 = s1 := by
  unfold groverFinish
  simp only [none_grover, Bool.false_and, Bool.false_eq_true, ↓reduceIte]
  split <;> rfl

theorem groverCore_none_fst (P : Pool) (K : Oracle) (s : ApiState) (r : Nat) (f : QF)
    (elem : Option String) (iters : Nat) :
    (groverCore Quirks.none P K s r f elem iters).1 = s := by
  unfold groverCore
  split
  · rfl
  · have h := groverPre_none_fst P K s r f elem
    dsimp only
    split
    · exact h
    · exact h
    · rw [groverFinish_none_fst]; exact h

/-- the only thing a repaired operation may do to an existing object is reset the private
`__native` cache of a circuit, which no fingerprint contains -/
inductive Harmless (P : Pool) (s : ApiState) : ApiState → Prop where
  | same : Harmless P s s
  | native (r : Nat) (o : Obj) :
      o.fp Quirks.none P s.ns = (s.objs.getD r .dead).fp Quirks.none P s.ns →
      Harmless P s (setObj s r o)

theorem stepCore_none_harmless (P : Pool) (K : Oracle) (s : ApiState) (op : Op) :
    Harmless P s (stepCore Quirks.none P K s op).1 := by
  cases op with
  | compile i defs c =>
    simp only [stepCore, collides_none]
    split
    · exact .same
    · simp only [Bool.false_eq_true, ↓reduceIte]
      split
      · split
        · exact .same
        · split <;> exact .same
      · rw [fromFunction_none_fst]; exact .same
  | bind r k =>
    simp only [stepCore, collides_none]
    split
    · simp only [Bool.false_eq_true, ↓reduceIte]
      split <;> exact .same
    · exact .same
  | oraclize r e =>
    simp only [stepCore]
    split
    · exact .same
    · rw [oraclizeCore_none_fst]; exact .same
  | grover r e n =>
    simp only [stepCore]
    split
    · exact .same
    · rw [groverCore_none_fst]; exact .same
  | dj r =>
    simp only [stepCore]
    split
    · exact .same
    · split
      · exact .same
      · split <;> exact .same
  | bv r =>
    simp only [stepCore]
    split
    · exact .same
    · split
      · exact .same
      · split <;> exact .same
  | simon r =>
    simp only [stepCore]
    split
    · exact .same
    · split <;> exact .same
  | secretOracle n sec =>
    simp only [stepCore]
    rw [fromFunction_none_fst]; exact .same
  | readOnly kind r =>
    simp only [stepCore, collides_none, Bool.and_false, Bool.false_eq_true, ↓reduceIte]
    split
    · exact .same
    · exact .same
    · rename_i f hf
      split
      · refine .native r _ ?_
        rw [hf]; simp [Obj.fp, QF.fp]
      · exact .same
    · rename_i a ha
      split
      · exact .same
      · split
        · refine .native r _ ?_
          rw [ha]; simp [Obj.fp]
        · exact .same

theorem harmless_ns {P : Pool} {s s' : ApiState} (h : Harmless P s s') : s'.ns = s.ns := by
  cases h <;> rfl

theorem harmless_defaults {P : Pool} {s s' : ApiState} (h : Harmless P s s') : s'.defaults = s.defaults := by
  cases h <;> rfl

theorem harmless_length {P : Pool} {s s' : ApiState} (h : Harmless P s s') :
    s'.objs.length = s.objs.length := by
  cases h <;> simp [setObj]

theorem harmless_fp {P : Pool} {s s' : ApiState} (h : Harmless P s s') (r : Nat) :
    (s'.objs.getD r .dead).fp Quirks.none P s'.ns = (s.objs.getD r .dead).fp Quirks.none P s.ns := by
  cases h with
  | same => rfl
  | native r' o ho =>
    simp only [setObj]
    by_cases hr : r' = r
    · subst hr
      by_cases hl : r' < s.objs.length
      · simp [List.getD_eq_getElem?_getD, List.getElem?_set, hl] at ho ⊢
        exact ho
      · simp [List.getD_eq_getElem?_getD, List.getElem?_set, hl]
    · simp [List.getD_eq_getElem?_getD, List.getElem?_set, hr]

/-! ### `close` -/

theorem close_objs (x : ApiState × Tri Obj) :
    ∃ o, (close x).1.objs = x.1.objs ++ [o] ∧ (close x).1.ns = x.1.ns ∧
      (close x).1.defaults = x.1.defaults := by
  unfold close
  cases x.2 <;> simp

/-! ### the outcome of a repaired operation depends on its argument slots only -/

theorem fromFunction_none_snd (P : Pool) (K : Oracle) (s s' : ApiState) (src : Src) (key : String)
    (annots : List String) (params : Bool) (defs : List DefView) :
    (fromFunction Quirks.none P K s src key annots params defs).2 =
      (fromFunction Quirks.none P K s' src key annots params defs).2 := by
  unfold fromFunction
  simp only [collides_none, defShadows_none, nsWrite_none, Bool.false_eq_true, ↓reduceIte]
  split
  · rfl
  · split <;> rfl

theorem oraclizeCore_none_snd (P : Pool) (K : Oracle) (s s' : ApiState) (r : Nat) (f : QF) (e : String) :
    (oraclizeCore Quirks.none P K s r f e).2 = (oraclizeCore Quirks.none P K s' r f e).2 := by
  unfold oraclizeCore
  simp only [none_oraclize, collides_none, Bool.false_eq_true, ↓reduceIte]
  exact fromFunction_none_snd ..

theorem groverPre_none_snd (P : Pool) (K : Oracle) (s s' : ApiState) (r : Nat) (f : QF) (elem : Option String) :
    (groverPre Quirks.none P K s r f elem).2 = (groverPre Quirks.none P K s' r f elem).2 := by
  unfold groverPre
  cases elem with
  | none => rfl
  | some e => simp only [oraclizeCore_none_snd P K s s' r f e]

theorem groverFinish_none_snd (s s' : ApiState) (r : Nat) (f : QF) (own : Option QF) (iters : Nat) :
    (groverFinish Quirks.none s r f own iters).2 = (groverFinish Quirks.none s' r f own iters).2 := by
  unfold groverFinish
  simp only [none_grover, Bool.false_and, Bool.false_eq_true, ↓reduceIte]
  split <;> rfl

theorem groverCore_none_snd (P : Pool) (K : Oracle) (s s' : ApiState) (r : Nat) (f : QF)
    (elem : Option String) (iters : Nat) :
    (groverCore Quirks.none P K s r f elem iters).2 = (groverCore Quirks.none P K s' r f elem iters).2 := by
  unfold groverCore
  split
  · rfl
  · have h := groverPre_none_snd P K s s' r f elem
    dsimp only
    rw [h]
    split
    · rfl
    · rfl
    · exact groverFinish_none_snd ..

theorem mapM_defView_congr (s s' : ApiState) (l : List Nat)
    (h : ∀ r ∈ l, s.objs.getD r .dead = s'.objs.getD r .dead) :
    l.mapM (defView s) = l.mapM (defView s') := by
  induction l with
  | nil => rfl
  | cons a l ih =>
    have ha : defView s a = defView s' a := by
      simp only [defView, getQF, h a (by simp)]
    simp only [List.mapM_cons, ha, ih (fun r hr => h r (by simp [hr]))]

/-- same argument objects ⇒ same outcome, whatever else the two states contain -/
theorem stepCore_none_snd (P : Pool) (K : Oracle) (s s' : ApiState) (op : Op)
    (h : ∀ r ∈ op.refs, s.objs.getD r .dead = s'.objs.getD r .dead) :
    (stepCore Quirks.none P K s op).2 = (stepCore Quirks.none P K s' op).2 := by
  cases op with
  | compile i defs c =>
    have hm := mapM_defView_congr s s' defs (fun r hr => h r (by simpa [Op.refs] using hr))
    simp only [stepCore, collides_none, hm, Bool.false_eq_true, ↓reduceIte]
    split
    · rfl
    · split
      · split
        · rfl
        · split <;> rfl
      · exact fromFunction_none_snd ..
  | bind r k =>
    have hr := h r (by simp [Op.refs])
    simp only [stepCore, collides_none, hr, Bool.false_eq_true, ↓reduceIte]
    split
    · split <;> rfl
    · rfl
  | oraclize r e =>
    have hr := h r (by simp [Op.refs])
    simp only [stepCore, getQF, hr]
    split
    · rfl
    · exact oraclizeCore_none_snd ..
  | grover r e n =>
    have hr := h r (by simp [Op.refs])
    simp only [stepCore, getQF, hr]
    split
    · rfl
    · exact groverCore_none_snd ..
  | dj r =>
    have hr := h r (by simp [Op.refs])
    simp only [stepCore, getQF, hr]
    split
    · rfl
    · split
      · rfl
      · split <;> rfl
  | bv r =>
    have hr := h r (by simp [Op.refs])
    simp only [stepCore, getQF, hr]
    split
    · rfl
    · split
      · rfl
      · split <;> rfl
  | simon r =>
    have hr := h r (by simp [Op.refs])
    simp only [stepCore, getQF, hr]
    split
    · rfl
    · split <;> rfl
  | secretOracle n sec =>
    simp only [stepCore]
    exact fromFunction_none_snd ..
  | readOnly kind r =>
    have hr := h r (by simp [Op.refs])
    simp only [stepCore, collides_none, hr, Bool.and_false, Bool.false_eq_true, ↓reduceIte]
    split
    · rfl
    · rfl
    · split <;> rfl
    · split
      · rfl
      · split <;> rfl

theorem close_result_congr (x y : ApiState × Tri Obj) (h : x.2 = y.2) : (close x).2 = (close y).2 := by
  unfold close
  rw [h]
  cases y.2 <;> rfl

theorem close_newfp_congr (P : Pool) (x y : ApiState × Tri Obj) {n m : Nat}
    (hx : x.1.objs.length = n) (hy : y.1.objs.length = m) (h : x.2 = y.2) :
    fingerprint Quirks.none P (close x).1 n = fingerprint Quirks.none P (close y).1 m := by
  subst hx hy
  unfold fingerprint close
  rw [h]
  cases y.2 <;> simp [List.getD_eq_getElem?_getD, fp_none_ns P x.1.ns y.1.ns]

/-! ### the code as it is, away from the triggers -/

theorem fromFunction_noexec (q : Quirks) (P : Pool) (K : Oracle) (s : ApiState) (src : Src) (key : String)
    (annots : List String) (params : Bool) (defs : List DefView)
    (hq : q.execIntoModuleGlobals = false) (he : q.evalSeesLocals = false)
    (hd : q.defShadowsAnnotation = false) :
    fromFunction q P K s src key annots params defs = fromFunction Quirks.none P K s src key annots params defs := by
  unfold fromFunction
  simp [collides, nsWrite, evalHitsLocal, defShadows, hq, he, hd]

theorem stepCore_eq_none_of_no_trigger (q : Quirks) (P : Pool) (K : Oracle) (s : ApiState) (op : Op)
    (hq : q.execIntoModuleGlobals = false) (he : q.evalSeesLocals = false)
    (hd : q.defShadowsAnnotation = false)
    (ht : opTrigger q s op = false) :
    stepCore q P K s op = stepCore Quirks.none P K s op := by
  have hc : ∀ ns r, collides q ns r = false := by intro ns r; simp [collides, hq]
  have horc : ∀ (r : Nat) (f : QF) (e : String), getQF s r = some f →
      (q.oraclizeRenames && (some f.name == some "oracle")) = false →
      oraclizeCore q P K s r f e = oraclizeCore Quirks.none P K s r f e := by
    intro r f e hf hn
    unfold oraclizeCore
    simp only [hc, collides_none, none_oraclize, Bool.false_eq_true, ↓reduceIte,
      fromFunction_noexec q P K _ _ _ _ _ _ hq he hd]
    by_cases hren : q.oraclizeRenames = true
    · have hne : f.name ≠ "oracle" := by
        intro h
        simp [hren, h] at hn
      have hob : s.objs.getD r .dead = .qf f := by
        unfold getQF at hf
        split at hf
        · rename_i f0 h0
          rw [h0]
          simp only [Option.some.injEq] at hf
          rw [hf]
        · cases hf
      have hset : setObj s r (.qf { f with name := f.name }) = s := by
        unfold setObj
        have : s.objs.set r (Obj.qf f) = s.objs := by
          by_cases hl : r < s.objs.length
          · apply List.ext_getElem (by simp)
            intro i h1 h2
            by_cases hi : r = i
            · subst hi
              simp [List.getD_eq_getElem?_getD, hl] at hob
              simp [hob]
            · simp [List.getElem_set, hi]
          · simp [List.set_eq_of_length_le (Nat.le_of_not_lt hl)]
        simp [this]
      simp only [hne, beq_iff_eq, ↓reduceIte, hren, hset]
    · simp only [hren, Bool.false_eq_true, ↓reduceIte]
  cases op with
  | compile i defs c => simp [stepCore, hc, fromFunction_noexec q P K _ _ _ _ _ _ hq he hd]
  | bind r k =>
    simp only [opTrigger] at ht
    simp [stepCore, hc, boundOrig, ht]
  | oraclize r e =>
    simp only [stepCore]
    split
    · rfl
    · rename_i f hf
      simp only [opTrigger, hf, Option.map_some] at ht
      exact horc r f e hf ht
  | grover r e n =>
    simp only [stepCore]
    split
    · rfl
    · rename_i f hf
      simp only [opTrigger, hf, Option.map_some] at ht
      unfold groverCore
      split
      · rfl
      · cases e with
        | none =>
          simp only [Option.isSome_none, Bool.and_false, Bool.false_and, Bool.or_false] at ht
          simp [groverPre, groverFinish, ht]
        | some e =>
          simp only [Option.isSome_some, Bool.and_true, Bool.or_eq_false_iff] at ht
          obtain ⟨hg, ht⟩ := ht
          have hp : groverPre q P K s r f (some e) = groverPre Quirks.none P K s r f (some e) := by
            simp only [groverPre, horc r f e hf ht]
          dsimp only
          rw [hp]
          split
          · rfl
          · rfl
          · simp [groverFinish, hg]
  | dj r => simp [stepCore]
  | bv r => simp [stepCore]
  | simon r => simp [stepCore]
  | secretOracle n sec => simp [stepCore, fromFunction_noexec q P K _ _ _ _ _ _ hq he hd]
  | readOnly kind r => simp [stepCore, hc]

end QV.Api
