import QV.Proofs.FrontT4
import QV.Proofs.Front9
/-! Soundness of `QV.Front.tr` w.r.t. the widened semantics `QV.Sem.semT`, part 5: variables and constant-index
subscript chains (the environment hypothesis `EnvOKT`: every binding has the bit names `translate_argument`
gives its type, and its value is what those symbols say), the assembly by structural induction. -/
namespace QV.Sem
open QV QV.Arith QV.Front

set_option linter.unusedSimpArgs false
set_option linter.unusedVariables false

/-! ### bit names, decoded values -/

theorem names_bool (base : String) : Ty.names base .bool = [base] := by simp [Ty.names]

theorem names_qchar (m : String) : Ty.names m .qchar = (List.range 8).map (bitName m) := by
  simp only [Ty.names]
  rfl

theorem namesList_cons (base : String) (i : Nat) (t : Ty) (ts : List Ty) :
    Ty.namesList base i (t :: ts) = Ty.names (bitName base i) t ++ Ty.namesList base (i + 1) ts := by
  simp only [Ty.namesList]
  rfl

theorem decodeTList_cons (ρ : QV.Env) (base : String) (i : Nat) (t : Ty) (ts : List Ty) :
    decodeTList ρ base i (t :: ts) = decodeT ρ (bitName base i) t :: decodeTList ρ base (i + 1) ts := by
  simp only [decodeTList]
  rfl

mutual
theorem names_length : ∀ (t : Ty) (base : String), (Ty.names base t).length = t.bits
  | .bool, base => by simp [Ty.names, Ty.bits]
  | .qint w, base => by simp [Ty.names, Ty.bits]
  | .qchar, base => by simp [Ty.names, Ty.bits]
  | .tuple ts, base => by rw [Ty.names, Ty.bits]; exact namesList_length ts base 0
theorem namesList_length : ∀ (ts : List Ty) (base : String) (i : Nat),
    (Ty.namesList base i ts).length = Ty.bitsList ts
  | [], base, i => by simp [Ty.namesList, Ty.bitsList]
  | t :: ts, base, i => by
    rw [namesList_cons, List.length_append, names_length t, namesList_length ts, Ty.bitsList]
end

mutual
theorem tyGood_bits_pos : ∀ t : Ty, tyGood t = true → 1 ≤ t.bits
  | .bool, _ => by simp [Ty.bits]
  | .qint w, h => by simp only [tyGood, decide_eq_true_eq] at h; simp only [Ty.bits]; omega
  | .qchar, _ => by simp [Ty.bits]
  | .tuple ts, h => by
    simp only [tyGood, Bool.and_eq_true, decide_eq_true_eq] at h
    have := tyGoodList_bits ts h.2
    rw [Ty.bits]; omega
theorem tyGoodList_bits : ∀ ts : List Ty, tyGoodList ts = true → ts.length ≤ Ty.bitsList ts
  | [], _ => by simp [Ty.bitsList]
  | t :: ts, h => by
    simp only [tyGoodList, Bool.and_eq_true] at h
    have h1 := tyGood_bits_pos t h.1
    have h2 := tyGoodList_bits ts h.2
    simp only [Ty.bitsList, List.length_cons]; omega
end

/-- a good type other than `bool` has at least two bits: a name of that type evaluates to a list -/
theorem tyGood_two_bits (t : Ty) (h : tyGood t = true) (hb : t ≠ .bool) : 2 ≤ t.bits := by
  cases t with
  | bool => exact absurd rfl hb
  | qint w => simp only [tyGood, decide_eq_true_eq] at h; simpa [Ty.bits] using h
  | qchar => simp [Ty.bits]
  | tuple ts =>
    simp only [tyGood, Bool.and_eq_true, decide_eq_true_eq] at h
    have := tyGoodList_bits ts h.2
    rw [Ty.bits]; omega

mutual
theorem decodeT_ty (ρ : QV.Env) : ∀ (t : Ty) (base : String), (decodeT ρ base t).ty = t
  | .bool, _ => rfl
  | .qint _, _ => rfl
  | .qchar, _ => rfl
  | .tuple ts, base => by rw [decodeT, TVal.ty, decodeTList_ty ρ ts base 0]
theorem decodeTList_ty (ρ : QV.Env) : ∀ (ts : List Ty) (base : String) (i : Nat),
    TVal.tyList (decodeTList ρ base i ts) = ts
  | [], _, _ => rfl
  | t :: ts, base, i => by
    rw [decodeTList_cons, TVal.tyList, decodeT_ty ρ t, decodeTList_ty ρ ts]
end

mutual
theorem decodeT_wf (ρ : QV.Env) : ∀ (t : Ty) (base : String), (decodeT ρ base t).wf = true
  | .bool, _ => rfl
  | .qint w, base => by
    have := valLE_lt ((Ty.names base (.qint w)).map ρ)
    rw [List.length_map, names_length] at this
    simpa [decodeT, TVal.wf, Ty.bits] using this
  | .qchar, base => by
    have := valLE_lt ((Ty.names base .qchar).map ρ)
    rw [List.length_map, names_length] at this
    simpa [decodeT, TVal.wf, Ty.bits] using this
  | .tuple ts, base => by rw [decodeT, TVal.wf]; exact decodeTList_wf ρ ts base 0
theorem decodeTList_wf (ρ : QV.Env) : ∀ (ts : List Ty) (base : String) (i : Nat),
    TVal.wfList (decodeTList ρ base i ts) = true
  | [], _, _ => rfl
  | t :: ts, base, i => by
    rw [decodeTList_cons, TVal.wfList, decodeT_wf ρ t, decodeTList_wf ρ ts]; rfl
end

mutual
/-- the bits of the decoded value are the values of the bit names -/
theorem decodeT_bits (ρ : QV.Env) : ∀ (t : Ty) (base : String),
    (decodeT ρ base t).bits = (Ty.names base t).map ρ
  | .bool, base => by simp [decodeT, TVal.bits, Ty.names]
  | .qint w, base => by
    rw [decodeT, TVal.bits]
    have := toBitsLE_valLE ((Ty.names base (.qint w)).map ρ)
    rw [List.length_map, names_length] at this
    exact this
  | .qchar, base => by
    rw [decodeT, TVal.bits]
    have := toBitsLE_valLE ((Ty.names base .qchar).map ρ)
    rw [List.length_map, names_length] at this
    exact this
  | .tuple ts, base => by rw [decodeT, TVal.bits, Ty.names]; exact decodeTList_bits ρ ts base 0
theorem decodeTList_bits (ρ : QV.Env) : ∀ (ts : List Ty) (base : String) (i : Nat),
    TVal.bitsList (decodeTList ρ base i ts) = (Ty.namesList base i ts).map ρ
  | [], _, _ => by simp [decodeTList, TVal.bitsList, Ty.namesList]
  | t :: ts, base, i => by
    rw [decodeTList_cons, TVal.bitsList, namesList_cons, List.map_append, decodeT_bits ρ t,
      decodeTList_bits ρ ts]
end

theorem evalBits_syms (ρ : QV.Env) (names : List String) : evalBits ρ (names.map BExp.sym) = names.map ρ := by
  simp [evalBits, BExp.eval, Function.comp_def]

/-- the flat list of the bit symbols of a non-bool type denotes the decoded value: what a name of that
type (two bits or more) and - since 6b971e4 - a subscript chain that stops there evaluate to -/
theorem den_syms (ρ : QV.Env) (t : Ty) (base : String) (hb : t ≠ .bool) :
    DenT ρ t (.list ((Ty.names base t).map fun s => .atom (.sym s))) (decodeT ρ base t) := by
  rw [ofBits_syms]
  cases t with
  | bool => exact absurd rfl hb
  | qint w =>
    rw [decodeT]
    exact DenT.mk_int _ _ _ (by rw [List.length_map, names_length]; rfl) (val_syms ρ _)
  | qchar =>
    rw [decodeT]
    exact DenT.mk_char _ _ (by rw [List.length_map, names_length]; rfl) (val_syms ρ _)
  | tuple ts =>
    rw [decodeT]
    apply DenT.mk_tup _ _ _ (decodeTList_ty ρ ts base 0) (decodeTList_wf ρ ts base 0)
    rw [flattenList_atoms, evalBits_syms]
    have := decodeT_bits ρ (.tuple ts) base
    rw [decodeT, TVal.bits] at this
    exact this.symm

/-! ### the environment hypothesis -/

/-- the binding `b` has the bit names `translate_argument` / `decompose_to_symbols` (after `_nest_as_type`)
give a variable of its type, the type is `tyGood`, and the variable's value in `σ` is the value of those
symbols under `ρ` -/
def BindOKT (ρ : QV.Env) (σ : TEnv) (b : Binding) : Prop :=
  b.bitvec = b.ty.names b.name ∧ tyGood b.ty = true ∧ σ b.name = some (decodeT ρ b.name b.ty)

/-- hypothesis of `C01_expr_struct`: every binding that can be looked up is `BindOKT` -/
def EnvOKT (ρ : QV.Env) (env : Front.Env) (σ : TEnv) : Prop :=
  ∀ n b, env.find n = some b → BindOKT ρ σ b

theorem soundT_name (ρ : QV.Env) (env : Front.Env) (σ : TEnv) (henv : EnvOKT ρ env σ) (n : String) :
    SoundT ρ env σ (.name n) := by
  intro s t v s' _ h
  rw [tr] at h
  cases hf : env.find n with
  | none =>
    rw [hf] at h
    simp only [run_throw_ok] at h
  | some b =>
    rw [hf] at h
    have hname := find_name hf
    obtain ⟨hbv, hgood, hσ⟩ := henv n b hf
    rw [hname] at hbv hσ
    have hlen : b.bitvec.length = b.ty.bits := by rw [hbv, names_length]
    refine ⟨decodeT ρ n b.ty, by simpa only [semT] using hσ, ?_⟩
    by_cases hb : b.ty = .bool
    · rw [hb] at hbv
      simp only [hbv, names_bool, List.length_singleton, Nat.lt_irrefl, if_false, run_pure_ok,
        gt_iff_lt] at h
      obtain ⟨h, _⟩ := h
      cases h
      rw [hb, decodeT]
      exact DenT.mk_bool _ _ rfl
    · have h2 := tyGood_two_bits b.ty hgood hb
      have hgt : b.bitvec.length > 1 := by omega
      simp only [hgt, if_true, run_pure_ok] at h
      obtain ⟨h, _⟩ := h
      cases h
      rw [hbv]
      exact den_syms ρ b.ty n hb

/-! ### constant-index subscript chains -/

theorem int_name (s : String) (i : Int) (h : 0 ≤ i) : (s!"{s}.{i}" : String) = bitName s i.toNat := by
  obtain ⟨k, rfl⟩ := Int.eq_ofNat_of_zero_le h
  simp only [Int.toNat_natCast, bitName]
  rfl

theorem pathName_cons (n : String) (i : Int) (is : List Int) (h : 0 ≤ i) :
    pathName n (i :: is) = pathName (bitName n i.toNat) is := by
  simp only [pathName, List.foldl_cons]
  rw [int_name n i h]

theorem testBit_valLE (l : List Bool) : ∀ i, (valLE l).testBit i = l.getD i false := by
  induction l with
  | nil => intro i; simp [valLE]
  | cons b bs ih =>
    intro i
    cases i with
    | zero =>
      simp only [valLE, Nat.testBit_zero, List.getD_cons_zero]
      cases b <;> simp <;> omega
    | succ i =>
      rw [Nat.testBit_succ]
      have : (valLE (b :: bs)) / 2 = valLE bs := by
        simp only [valLE]; cases b <;> simp <;> omega
      rw [this, ih i]
      simp

theorem decodeTList_get (ρ : QV.Env) (base : String) : ∀ (ts : List Ty) (k j : Nat),
    (decodeTList ρ base k ts)[j]? = (ts[j]?).map (decodeT ρ (bitName base (k + j)))
  | [], k, j => by simp [decodeTList]
  | t :: ts, k, 0 => by simp [decodeTList_cons]
  | t :: ts, k, j + 1 => by
    rw [decodeTList_cons, List.getElem?_cons_succ, List.getElem?_cons_succ, decodeTList_get ρ base ts (k + 1) j]
    congr 3
    omega

theorem walkTy_bool (i : Int) (is : List Int) (t' : Ty) : walkTy false .bool (i :: is) = .ok t' ↔ False := by
  unfold walkTy
  simp only [Ty.size?]
  split <;> simp [throw, throwThe, MonadExceptOf.throw]
  split <;> simp

theorem walkTy_qint (w : Nat) (i : Int) (is : List Int) (h0 : 0 ≤ i) :
    walkTy false (.qint w) (i :: is) = if i < (w : Int) then walkTy false .bool is else throw "OutOfBound" := by
  have hneg : ¬ (i < 0) := by omega
  rw [walkTy]
  · simp [hneg, Ty.size?]
  · intro ts h; cases h

theorem walkTy_qchar (i : Int) (is : List Int) (h0 : 0 ≤ i) :
    walkTy false .qchar (i :: is) = if i < 8 then walkTy false .bool is else throw "OutOfBound" := by
  have hneg : ¬ (i < 0) := by omega
  rw [walkTy]
  · simp [hneg, Ty.size?]
  · intro ts h; cases h

theorem walkTy_tuple (ts : List Ty) (i : Int) (is : List Int) (h0 : 0 ≤ i) :
    walkTy false (.tuple ts) (i :: is) =
      if i < (ts.length : Int) then
        (match ts[i.toNat]? with
         | some t' => walkTy false t' is
         | none => throw "IndexError")
      else throw "OutOfBound" := by
  have hneg : ¬ (i < 0) := by omega
  rw [walkTy]
  simp only [hneg, Ty.size?, decide_false, Bool.false_and, Bool.false_eq_true, if_false]
  split
  · split <;> simp_all
  · rfl

/-- the type walk of `translate_expression` along a subscript path and the value the path selects: the
value at the end is the one decoded from the symbols named by the path -/
theorem walk_index (ρ : QV.Env) : ∀ (path : List Int) (t : Ty) (base : String) (t' : Ty) (v : TVal),
    (∀ i ∈ path, 0 ≤ i) → walkTy false t path = .ok t' → (decodeT ρ base t).index path = some v →
    v = decodeT ρ (pathName base path) t'
  | [], t, base, t', v, _, hw, hi => by
    simp only [walkTy, pure, Except.pure, Except.ok.injEq] at hw
    simp only [TVal.index, Option.some.injEq] at hi
    rw [← hw, ← hi]; rfl
  | i :: is, t, base, t', v, hpos, hw, hi => by
    have hi0 : 0 ≤ i := hpos i (by simp)
    cases t with
    | bool => exact ((walkTy_bool i is t').mp hw).elim
    | qchar => simp [decodeT, TVal.index] at hi
    | qint w =>
      rw [walkTy_qint w i is hi0] at hw
      split at hw
      · rename_i hlt
        cases is with
        | nil =>
          simp only [walkTy, pure, Except.pure, Except.ok.injEq] at hw
          subst hw
          simp only [decodeT, TVal.index, hi0, hlt, and_self, if_true, Option.some.injEq] at hi
          rw [← hi, pathName_cons base i [] hi0]
          simp only [pathName, List.foldl_nil, decodeT, TVal.bool.injEq]
          rw [testBit_valLE, names_qint]
          have hk : i.toNat < w := by omega
          simp [List.getD_eq_getElem?_getD, List.getElem?_map, List.getElem?_range hk]
        | cons j js => exact ((walkTy_bool j js t').mp hw).elim
      · simp [throw, throwThe, MonadExceptOf.throw] at hw
    | tuple ts =>
      rw [walkTy_tuple ts i is hi0] at hw
      split at hw
      · split at hw
        · rename_i t1 ht1
          simp only [decodeT, TVal.index, hi0, if_true] at hi
          have hg := decodeTList_get ρ base ts 0 i.toNat
          rw [ht1] at hg
          simp only [Nat.zero_add, Option.map_some] at hg
          rw [hg] at hi
          rw [pathName_cons base i is hi0]
          exact walk_index ρ is t1 _ t' v (fun j hj => hpos j (by simp [hj])) hw hi
        · simp [throw, throwThe, MonadExceptOf.throw] at hw
      · simp [throw, throwThe, MonadExceptOf.throw] at hw

theorem soundT_subs (ρ : QV.Env) (env : Front.Env) (σ : TEnv) (henv : EnvOKT ρ env σ) (n : String)
    (path : List Int) (hpos : ∀ i ∈ path, 0 ≤ i) : SoundT ρ env σ (.subs n path) := by
  intro s t v s' hw h
  rw [tr] at h
  cases hf : env.find n with
  | none =>
    rw [hf] at h
    simp only [run_throw_ok] at h
  | some b =>
    rw [hf] at h
    have hname := find_name hf
    obtain ⟨hbv, hgood, hσ⟩ := henv n b hf
    rw [hname] at hσ
    have hq : Quirks.none.negIndexAccepted = false := rfl
    have hany : (path.any fun x => decide (x < 0)) = false := by
      rw [List.any_eq_false]
      intro x hx
      have := hpos x hx
      simp only [decide_eq_true_eq]; omega
    simp only [hany, Bool.false_eq_true, if_false, run_bind_ok, run_lift_ok, hq] at h
    obtain ⟨t', _, ⟨hwalk, rfl⟩, h3⟩ := h
    -- the value the path selects
    have hsem : semT σ (.subs n path) = (decodeT ρ n b.ty).index path := by simp [semT, hσ]
    simp only [wellT, hsem] at hw
    obtain ⟨sv, hsv⟩ := Option.isSome_iff_exists.mp hw
    have hv := walk_index ρ path b.ty n t' sv hpos hwalk hsv
    refine ⟨sv, by rw [hsem, hsv], ?_⟩
    rw [hv]
    cases t' with
    | bool =>
      simp only [Ty.size?, run_pure_ok] at h3
      obtain ⟨h3, _⟩ := h3
      cases h3
      rw [decodeT]
      exact DenT.mk_bool _ _ rfl
    | qint w =>
      simp only [Ty.size?, run_pure_ok] at h3
      obtain ⟨h3, _⟩ := h3
      cases h3
      have := den_syms ρ (.qint w) (pathName n path) (by intro hh; cases hh)
      rw [names_qint, List.map_map] at this
      exact this
    | qchar =>
      simp only [Ty.size?, run_pure_ok] at h3
      obtain ⟨h3, _⟩ := h3
      cases h3
      have := den_syms ρ .qchar (pathName n path) (by intro hh; cases hh)
      rw [names_qchar, List.map_map] at this
      exact this
    | tuple ts =>
      simp only [Ty.size?, run_pure_ok] at h3
      obtain ⟨h3, _⟩ := h3
      cases h3
      exact den_syms ρ (.tuple ts) (pathName n path) (by intro hh; cases hh)

/-! ### the assembly -/

mutual
theorem soundT_all (ρ : QV.Env) (env : Front.Env) (σ : TEnv) (henv : EnvOKT ρ env σ) :
    ∀ e : PExp, inFragT e = true → SoundT ρ env σ e
  | .name n, _ => soundT_name ρ env σ henv n
  | .cbool b, _ => soundT_cbool ρ env σ b
  | .cint c, _ => soundT_cint ρ env σ c
  | .cchar c, h => soundT_cchar ρ env σ c (by simpa [inFragT] using h)
  | .subs n path, h => soundT_subs ρ env σ henv n path (by simpa [inFragT] using h)
  | .not e, h => soundT_not ρ env σ e (soundT_all ρ env σ henv e (by simpa [inFragT] using h))
  | .inv e, h => soundT_inv ρ env σ e (soundT_all ρ env σ henv e (by simpa [inFragT] using h))
  | .boolop isAnd vs, h =>
    soundT_boolop ρ env σ isAnd vs (soundT_all_list ρ env σ henv vs (by simpa [inFragT] using h))
  | .ite c t e, h => by
    simp only [inFragT, Bool.and_eq_true] at h
    exact soundT_ite ρ env σ c t e (soundT_all ρ env σ henv c h.1.1) (soundT_all ρ env σ henv t h.1.2)
      (soundT_all ρ env σ henv e h.2)
  | .cmp op l r, h => by
    simp only [inFragT, Bool.and_eq_true] at h
    exact soundT_cmp ρ env σ op h.1.1 l r (soundT_all ρ env σ henv l h.1.2) (soundT_all ρ env σ henv r h.2)
  | .bin op l r, h => by
    simp only [inFragT, Bool.and_eq_true] at h
    exact soundT_bin ρ env σ op h.1.1 l r (soundT_all ρ env σ henv l h.1.2) (soundT_all ρ env σ henv r h.2)
  | .tuple es, h => by
    simp only [inFragT, Bool.and_eq_true] at h
    exact soundT_tuple ρ env σ es (soundT_all_list ρ env σ henv es h.2)
  | .unsupported _, h => by simp [inFragT] at h
theorem soundT_all_list (ρ : QV.Env) (env : Front.Env) (σ : TEnv) (henv : EnvOKT ρ env σ) :
    ∀ es : List PExp, inFragTList es = true → ∀ e ∈ es, SoundT ρ env σ e
  | [], _ => by intro e he; simp at he
  | e :: es, h => by
    simp only [inFragTList, Bool.and_eq_true] at h
    intro e' he'
    simp only [List.mem_cons] at he'
    rcases he' with rfl | he'
    · exact soundT_all ρ env σ henv _ h.1
    · exact soundT_all_list ρ env σ henv es h.2 e' he'
end

/-! ### the environment `translate` starts from -/

theorem envOKT_args (ρ : QV.Env) (args : List (String × Ty)) (hargs : ∀ p ∈ args, tyGood p.2 = true) :
    EnvOKT ρ (initEnv args) (argsEnvT args ρ) := by
  intro n b hf
  have hfind : (initEnv args).find n
      = (args.find? (·.1 == n)).map fun p => (⟨p.1, p.2, p.2.names p.1⟩ : Binding) := by
    unfold Env.find
    rw [initEnv_eq, List.find?_map]
    rfl
  rw [hfind] at hf
  cases hfa : args.find? (·.1 == n) with
  | none => simp [hfa] at hf
  | some p =>
    obtain ⟨m, ty⟩ := p
    have hmem := List.mem_of_find?_eq_some hfa
    have hname : m = n := by
      have := List.find?_some hfa
      simpa using this
    subst hname
    simp only [hfa, Option.map_some, Option.some.injEq] at hf
    subst hf
    exact ⟨rfl, hargs _ hmem, by simp [argsEnvT, hfa]⟩

end QV.Sem
