import QV.Model.Codec
import QV.Proofs.Types
/-! Helper lemmas for C05 (`QV.Model.Codec`). -/
namespace QV.Codec
open QV QV.Types

/-! ### names -/

theorem subNames_length (b : Name) (n : Nat) : (subNames b n).length = n := by
  simp [subNames]

mutual
theorem argNames_length : ∀ (t : QTy) (b : Name), (argNames t b).length = t.size
  | .bool, _ => rfl
  | .qint w, b => by simp [argNames, QTy.size, subNames_length]
  | .qchar, b => by simp [argNames, QTy.size, subNames_length]
  | .qfixed i f, b => by simp [argNames, QTy.size, subNames_length]
  | .tuple ts, b => by simpa [argNames, QTy.size] using argNamesList_length ts b 0
theorem argNamesList_length : ∀ (ts : List QTy) (b : Name) (k : Nat),
    (argNamesList ts b k).length = sizeList ts
  | [], _, _ => rfl
  | t :: ts, b, k => by
      simp [argNamesList, sizeList, argNames_length t, argNamesList_length ts]
end

theorem retNamesList_replicate (n : Nat) (b : Name) (k : Nat) :
    retNamesList (List.replicate n .leaf) b k = (List.range n).map (fun i => b.sub (k + i)) := by
  induction n generalizing k with
  | zero => simp [retNamesList]
  | succ n ih =>
    simp only [List.replicate_succ, retNamesList, retNames, ih, List.range_succ_eq_map,
      List.map_cons, List.map_map, Nat.add_zero, List.singleton_append, List.cons.injEq, true_and]
    apply List.map_congr_left; intro i _; simp [Function.comp]; congr 1; omega

theorem retNames_leaves (n : Nat) (b : Name) : retNames (leaves n) b = subNames b n := by
  simp [leaves, retNames, retNamesList_replicate, subNames]

mutual
/-- naming by the nesting of the type is `translate_argument`'s naming -/
theorem retNames_tyShape : ∀ (t : QTy) (b : Name), retNames (tyShape t) b = argNames t b
  | .bool, _ => rfl
  | .qint w, b => by simp [tyShape, retNames_leaves, argNames]
  | .qchar, b => by simp [tyShape, retNames_leaves, argNames]
  | .qfixed i f, b => by simp [tyShape, retNames_leaves, argNames]
  | .tuple ts, b => by simpa [tyShape, retNames, argNames] using retNamesList_tyShapes ts b 0
theorem retNamesList_tyShapes : ∀ (ts : List QTy) (b : Name) (k : Nat),
    retNamesList (tyShapes ts) b k = argNamesList ts b k
  | [], _, _ => rfl
  | t :: ts, b, k => by
      simp [tyShapes, retNamesList, argNamesList, retNames_tyShape t, retNamesList_tyShapes ts]
end

/-! ### encode_input -/

mutual
theorem valToBin_eq : ∀ (t : QTy) (v : QVal), valToBin t v = boolListToBin (encode t v)
  | .bool, .bool _ => rfl
  | .qint _, .int _ => rfl
  | .qchar, .char _ => rfl
  | .qfixed _ _, .fixed _ => rfl
  | .tuple ts, .tuple vs => by simpa [valToBin, encode] using valToBinList_eq ts vs
  | .bool, .int _ | .bool, .char _ | .bool, .fixed _ | .bool, .tuple _ | .bool, .error
  | .qint _, .bool _ | .qint _, .char _ | .qint _, .fixed _ | .qint _, .tuple _ | .qint _, .error
  | .qchar, .bool _ | .qchar, .int _ | .qchar, .fixed _ | .qchar, .tuple _ | .qchar, .error
  | .qfixed _ _, .bool _ | .qfixed _ _, .int _ | .qfixed _ _, .char _ | .qfixed _ _, .tuple _
  | .qfixed _ _, .error
  | .tuple _, .bool _ | .tuple _, .int _ | .tuple _, .char _ | .tuple _, .fixed _
  | .tuple _, .error => by simp [valToBin, encode, boolListToBin]
theorem valToBinList_eq : ∀ (ts : List QTy) (vs : List QVal),
    valToBinList ts vs = boolListToBin (encodeList ts vs)
  | [], [] | [], _ :: _ | _ :: _, [] => by simp [valToBinList, encodeList, boolListToBin]
  | t :: ts, v :: vs => by
      simp [valToBinList, encodeList, boolListToBin, valToBin_eq t v, valToBinList_eq ts vs]
end

/-! ### dict -/

theorem dictGet_dictSet (d : List (Name × Nat)) (k k' : Name) (v : Nat) :
    dictGet (dictSet d k v) k' = if k = k' then some v else dictGet d k' := by
  induction d with
  | nil => simp [dictSet, dictGet]
  | cons e r ih =>
    obtain ⟨a, b⟩ := e
    simp only [dictSet]
    by_cases h : a = k
    · subst h; by_cases h2 : a = k' <;> simp [dictGet, h2]
    · by_cases h2 : k = k'
      · subst h2; simp [dictGet, h, ih]
      · simp [dictGet, h, ih, h2]

/-- every value stored is a qubit of the circuit -/
def QMap.WF (m : QMap) : Prop := ∀ e ∈ m.entries, e.2 < m.numQubits

theorem dictSet_mem {d : List (Name × Nat)} {k : Name} {v : Nat} {e : Name × Nat}
    (h : e ∈ dictSet d k v) : e ∈ d ∨ e = (k, v) := by
  induction d with
  | nil => simp [dictSet] at h; exact Or.inr h
  | cons x r ih =>
    obtain ⟨a, b⟩ := x
    simp only [dictSet] at h
    split at h
    · simp at h; rcases h with h | h
      · exact Or.inr h
      · exact Or.inl (List.mem_cons_of_mem _ h)
    · simp at h; rcases h with h | h
      · exact Or.inl (by simp [h])
      · rcases ih h with h | h
        · exact Or.inl (List.mem_cons_of_mem _ h)
        · exact Or.inr h

theorem dictGet_mem {d : List (Name × Nat)} {k : Name} {v : Nat} (h : dictGet d k = some v) :
    (k, v) ∈ d := by
  induction d with
  | nil => simp [dictGet] at h
  | cons x r ih =>
    obtain ⟨a, b⟩ := x
    simp only [dictGet] at h
    split at h
    · simp at h; subst h; simp [*]
    · exact List.mem_cons_of_mem _ (ih h)

theorem outputQubits_some_iff (m : QMap) (bv : List Name) :
    (outputQubits m bv).isSome ↔ ∀ n ∈ bv, (m.get n).isSome := by
  induction bv with
  | nil => simp [outputQubits]
  | cons n ns ih =>
    simp only [outputQubits, List.mem_cons, forall_eq_or_imp]
    rw [← ih]
    cases h1 : m.get n <;> cases h2 : outputQubits m ns <;> simp

theorem outputQubits_spec (m : QMap) (bv : List Name) (l : List Nat)
    (h : outputQubits m bv = some l) :
    l.length = bv.length ∧ ∀ i (hi : i < bv.length), m.get bv[i] = l[i]? := by
  induction bv generalizing l with
  | nil => simp [outputQubits] at h; subst h; simp
  | cons n ns ih =>
    simp only [outputQubits] at h
    cases h1 : m.get n <;> cases h2 : outputQubits m ns <;> simp [h1, h2] at h
    subst h
    obtain ⟨hl, hg⟩ := ih _ h2
    refine ⟨by simp [hl], ?_⟩
    intro i hi
    cases i with
    | zero => simpa using h1
    | succ i => simpa using hg i (by simpa using hi)

/-! ### decode_counts -/

theorem totalCount_countsAdd {V : Type} [BEq V] (d : List (V × Nat)) (e : V) (c : Nat) :
    totalCount (countsAdd d e c) = totalCount d + c := by
  induction d with
  | nil => simp [countsAdd, totalCount]
  | cons x r ih =>
    obtain ⟨a, b⟩ := x
    simp only [countsAdd]
    split
    · simp [totalCount]; omega
    · simp only [totalCount, List.map_cons, List.sum_cons] at ih ⊢; omega

theorem totalCount_fold {K V : Type} [BEq V] (dec : K → V) (counts : List (K × Nat))
    (d0 : List (V × Nat)) :
    totalCount (counts.foldl (fun d e => countsAdd d (dec e.1) e.2) d0)
      = totalCount d0 + totalCount counts := by
  induction counts generalizing d0 with
  | nil => simp [totalCount]
  | cons x r ih =>
    simp only [List.foldl_cons, ih, totalCount_countsAdd]
    simp [totalCount]; omega

theorem totalCount_filter_le {V : Type} (l : List (V × Nat)) (p : V × Nat → Bool) :
    totalCount (l.filter p) ≤ totalCount l := by
  induction l with
  | nil => simp [totalCount]
  | cons x r ih =>
    simp only [List.filter_cons]
    split <;> simp only [totalCount, List.map_cons, List.sum_cons] at ih ⊢ <;> omega

/-! ### signature, qubit map, zfill -/

theorem translateArguments_tys (sig : List (String × QTy)) :
    (translateArguments sig).map (·.ty) = sig.map (·.2) := by
  simp [translateArguments, translateArgument]

theorem addQubits_numQubits (m : QMap) (ns : List Name) :
    (m.addQubits ns).numQubits = m.numQubits + ns.length := by
  induction ns generalizing m with
  | nil => rfl
  | cons n r ih => simp only [QMap.addQubits, List.foldl_cons] at ih ⊢; rw [ih]; simp [QMap.addQubit]; omega

theorem addQubits_get_other (m : QMap) (ns : List Name) (k : Name) (h : k ∉ ns) :
    (m.addQubits ns).get k = m.get k := by
  induction ns generalizing m with
  | nil => rfl
  | cons n r ih =>
    simp only [QMap.addQubits, List.foldl_cons] at ih ⊢
    rw [ih _ (fun hk => h (List.mem_cons_of_mem _ hk))]
    simp only [QMap.get, QMap.addQubit, dictGet_dictSet]
    rw [if_neg]; intro e; exact h (by simp [e])

theorem zfill_binDigits {n m : Nat} (hm : 0 < m) (h : n < 2 ^ m) :
    (zfill m (binDigits n)).map (· == '1') = (toBitsLE m n).reverse := by
  have hlen : (binDigits n).length ≤ m := by
    rw [binDigits_length]; split
    · omega
    · exact bitsLE_length_le h
  have := binToBoolList_pyBin_reverse h
  rw [← this, List.reverse_reverse]
  unfold binToBoolList zfill
  simp only [strip0b_pyBin, Option.getD_some, List.take_of_length_le hlen, List.length_map,
    List.map_append, List.map_replicate]
  rfl

theorem steps_get (steps : List (Name × Nat)) (m : QMap) (k : Name) :
    ((steps.foldl (fun m s => m.mapQubit s.1 s.2) m).get k).isSome
      ↔ (m.get k).isSome ∨ k ∈ steps.map (·.1) := by
  induction steps generalizing m with
  | nil => simp
  | cons s r ih =>
    simp only [List.foldl_cons, ih, List.map_cons, List.mem_cons]
    simp only [QMap.get, QMap.mapQubit, dictGet_dictSet]
    by_cases hk : s.1 = k
    · simp [hk]
    · simp [hk]; constructor
      · rintro (h | h); exact Or.inl h; exact Or.inr (Or.inr h)
      · rintro (h | h | h); exact Or.inl h; exact absurd h.symm hk; exact Or.inr h

/-! ### distinctness of bit names -/

theorem sub_inj (b : Name) {i j : Nat} (h : b.sub i = b.sub j) : i = j := by
  have := congrArg Name.path h
  simpa [Name.sub] using this

theorem subNames_nodup (b : Name) (n : Nat) : (subNames b n).Nodup := by
  unfold subNames
  rw [List.nodup_iff_pairwise_ne, List.pairwise_map]
  exact (List.nodup_range (n := n)).imp (fun hne h => hne (sub_inj b h))

theorem mem_subNames {b n : Name} {w : Nat} (h : n ∈ subNames b w) :
    n.base = b.base ∧ b.path <+: n.path := by
  simp only [subNames, List.mem_map] at h
  obtain ⟨i, _, rfl⟩ := h
  exact ⟨rfl, by simp [Name.sub]⟩

mutual
theorem argNames_prefix : ∀ (t : QTy) (b n : Name), n ∈ argNames t b →
    n.base = b.base ∧ b.path <+: n.path
  | .bool, b, n, h => by simp [argNames] at h; subst h; exact ⟨rfl, List.prefix_refl _⟩
  | .qint w, b, n, h => mem_subNames (by simpa [argNames] using h)
  | .qchar, b, n, h => mem_subNames (by simpa [argNames] using h)
  | .qfixed i f, b, n, h => mem_subNames (by simpa [argNames] using h)
  | .tuple ts, b, n, h => by
      obtain ⟨hb, j, _, hp⟩ := argNamesList_prefix ts b 0 n (by simpa [argNames] using h)
      exact ⟨hb, List.IsPrefix.trans (List.prefix_append _ _) hp⟩
theorem argNamesList_prefix : ∀ (ts : List QTy) (b : Name) (k : Nat) (n : Name),
    n ∈ argNamesList ts b k → n.base = b.base ∧ ∃ j, k ≤ j ∧ (b.path ++ [j]) <+: n.path
  | [], _, _, _, h => by simp [argNamesList] at h
  | t :: ts, b, k, n, h => by
      simp only [argNamesList, List.mem_append] at h
      rcases h with h | h
      · obtain ⟨hb, hp⟩ := argNames_prefix t (b.sub k) n h
        exact ⟨hb, k, Nat.le_refl _, hp⟩
      · obtain ⟨hb, j, hj, hp⟩ := argNamesList_prefix ts b (k + 1) n h
        exact ⟨hb, j, by omega, hp⟩
end

mutual
/-- the bit names of one argument are pairwise distinct -/
theorem argNames_nodup : ∀ (t : QTy) (b : Name), (argNames t b).Nodup
  | .bool, b => by simp [argNames]
  | .qint w, b => subNames_nodup b w
  | .qchar, b => subNames_nodup b 8
  | .qfixed i f, b => subNames_nodup b (i + f)
  | .tuple ts, b => by simpa [argNames] using argNamesList_nodup ts b 0
theorem argNamesList_nodup : ∀ (ts : List QTy) (b : Name) (k : Nat), (argNamesList ts b k).Nodup
  | [], _, _ => by simp [argNamesList]
  | t :: ts, b, k => by
      simp only [argNamesList]
      rw [List.nodup_append]
      refine ⟨argNames_nodup t _, argNamesList_nodup ts b (k + 1), ?_⟩
      intro x hx y hy hxy
      subst hxy
      obtain ⟨_, hp1⟩ := argNames_prefix t (b.sub k) x hx
      obtain ⟨_, j, hj, hp2⟩ := argNamesList_prefix ts b (k + 1) x hy
      have := List.prefix_of_prefix_length_le hp1 hp2 (by simp [Name.sub])
      have := this.eq_of_length (by simp [Name.sub])
      simp [Name.sub] at this
      omega
end

theorem mem_inputSymbols_base (sig : List (String × QTy)) (x : Name)
    (h : x ∈ inputSymbols (translateArguments sig)) : x.base ∈ sig.map (·.1) := by
  induction sig with
  | nil => simp [translateArguments, inputSymbols] at h
  | cons a r ih =>
    simp only [translateArguments, List.map_cons, inputSymbols, List.mem_append] at h ih ⊢
    rcases h with h | h
    · have := (argNames_prefix a.2 ⟨a.1, []⟩ x (by simpa [translateArgument] using h)).1
      simp [this]
    · exact List.mem_cons_of_mem _ (ih h)

/-- distinct argument names give pairwise distinct input bit names -/
theorem inputSymbols_nodup (sig : List (String × QTy)) (h : (sig.map (·.1)).Nodup) :
    (inputSymbols (translateArguments sig)).Nodup := by
  induction sig with
  | nil => simp [translateArguments, inputSymbols]
  | cons a r ih =>
    have hc : a.1 ∉ r.map (·.1) ∧ (r.map (·.1)).Nodup := by
      rw [List.map_cons] at h; exact List.nodup_cons.mp h
    simp only [translateArguments, List.map_cons, inputSymbols] at ih ⊢
    rw [List.nodup_append]
    refine ⟨by simpa [translateArgument] using argNames_nodup a.2 ⟨a.1, []⟩, ih hc.2, ?_⟩
    intro x hx y hy hxy
    subst hxy
    have h1 := (argNames_prefix a.2 ⟨a.1, []⟩ x (by simpa [translateArgument] using hx)).1
    have h2 := mem_inputSymbols_base r x (by simpa [translateArguments] using hy)
    rw [h1] at h2
    exact hc.1 h2

end QV.Codec
