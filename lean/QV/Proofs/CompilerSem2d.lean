import QV.Proofs.CompilerSem2c
/-!
# Semantic correctness of the compiler model on wider classes – part 4: `Xor` and the induction
-/
namespace QV.Compiler
open QV

variable {scope : List String} {ρ : Env} {σ0 : FState} {wo : Bool}

/-! ### `Xor`: accumulate every argument into one qubit -/

theorem xorSem2_nil : XorSem2 scope ρ σ0 wo [] := by
  intro d a s s' h hp _ _
  unfold compileXorArgs at h
  obtain ⟨rfl, rfl⟩ := run_pure_ok.mp h
  exact ⟨rfl, hp, Sem2.refl _, by simp [evalXor], fun _ h => absurd rfl h⟩

/-- generic branch of the `compile_xor` loop -/
theorem xorStep_sem2 {a : BExp} {as : List BExp} {d q : Nat} {s s' : CState}
    (iha : ExprSem2 scope ρ σ0 wo a) (ihs : XorSem2 scope ρ σ0 wo as) (hns : isLeaf a = false)
    (hdis : ∀ x ∈ compKeys a, ∀ y ∈ compKeysList as, (x == y) = false)
    (h : StateT.run (do
          let d' ← compileExpr a (some d) none
          if d' != d then event "xorRepl"
          compileXorArgs as d' : M Nat) s = .ok (q, s'))
    (hp : Pre2 scope ρ σ0 s)
    (hcache : ∀ p ∈ s.expq, ∀ c ∈ compKeysList (a :: as), (p.1 == c) = false)
    (hpd : Priv scope s d) :
    q = d ∧ Pre2 scope ρ σ0 s' ∧
      Sem2 scope σ0 wo (CtlQ scope ρ s') (· = d) (· ∈ compKeysList (a :: as))
        (fun m => Avail s m ∧ ¬ Avail s' m) s s' ∧
      cur σ0 s' d = Bool.xor (cur σ0 s d) (evalXor ρ (a :: as)) ∧ (wo = false → a :: as ≠ [] → Tgt s' d) := by
  obtain ⟨d', s1, h1, h2⟩ := run_bind_ok.mp h
  obtain ⟨hp1, sem1, _, hv1⟩ := iha (some d) none h1 hp
    (fun p hp' c hc => hcache p hp' c (by simp [compKeysList, hc]))
    (by intro d0 h0; cases h0; exact hpd) (by intro y hy; cases hy)
    (by intro hs; rw [hns] at hs; cases hs)
  obtain ⟨e', hval, htg⟩ := hv1 d rfl
  subst e'
  dsimp only at h2
  rcases run_ite_ok.mp h2 with ⟨hc, _⟩ | ⟨_, h2⟩
  · simp at hc
  · obtain ⟨rfl, hp2, sem2, hv2, _⟩ := ihs d' h2 hp1 (cache_next2 hcache sem1 (fun _ h => h) hdis)
      (hpd.next sem1)
    refine ⟨rfl, hp2, ((sem1.monoQ (CtlQ.of_sem sem2)).trans' sem2).mono ?_ ?_ ?_, ?_,
      fun hwo _ => (htg hwo).of_sem sem2⟩
    · rintro q _ (h' | h')
      · cases h'; rfl
      · exact h'
    · rintro c (h' | h')
      · simp [compKeysList, show c ∈ compKeys a from h']
      · simp [compKeysList, show c ∈ compKeysList as from h']
    · rintro m (h' | h')
      · exact ⟨h'.1, fun hm => h'.2.1 (sem2.avail m hm)⟩
      · exact ⟨sem1.avail m h'.1, h'.2⟩
    · rw [hv2, hval, Bool.xor_assoc]; rfl

/-- `Not` of a compound argument: accumulate the argument, then `X` -/
theorem xorNotStep_sem2 {inner : BExp} {as : List BExp} {d q : Nat} {s s' : CState}
    (iha : ExprSem2 scope ρ σ0 wo inner) (ihs : XorSem2 scope ρ σ0 wo as) (hns : isLeaf inner = false)
    (hdis : ∀ x ∈ compKeys (.not inner), ∀ y ∈ compKeysList as, (x == y) = false)
    (h : StateT.run (do
          let d' ← compileExpr inner (some d) none
          if d' != d then event "xorRepl"
          xGate d'
          compileXorArgs as d' : M Nat) s = .ok (q, s'))
    (hp : Pre2 scope ρ σ0 s)
    (hcache : ∀ p ∈ s.expq, ∀ c ∈ compKeysList (.not inner :: as), (p.1 == c) = false)
    (hpd : Priv scope s d) :
    q = d ∧ Pre2 scope ρ σ0 s' ∧
      Sem2 scope σ0 wo (CtlQ scope ρ s') (· = d) (· ∈ compKeysList (.not inner :: as))
        (fun m => Avail s m ∧ ¬ Avail s' m) s s' ∧
      cur σ0 s' d = Bool.xor (cur σ0 s d) (evalXor ρ (.not inner :: as)) ∧
      (wo = false → BExp.not inner :: as ≠ [] → Tgt s' d) := by
  obtain ⟨d', s1, h1, h2⟩ := run_bind_ok.mp h
  obtain ⟨hp1, sem1, _, hv1⟩ := iha (some d) none h1 hp
    (fun p hp' c hc => hcache p hp' c (by simp [compKeysList, compKeys, hc]))
    (by intro d0 h0; cases h0; exact hpd) (by intro y hy; cases hy)
    (by intro hs; rw [hns] at hs; cases hs)
  obtain ⟨e', hval, htg⟩ := hv1 d rfl
  subst e'
  dsimp only at h2
  rcases run_ite_ok.mp h2 with ⟨hc, _⟩ | ⟨_, h2⟩
  · simp at hc
  · obtain ⟨u, s2, hx, h3⟩ := run_bind_ok.mp h2
    have hpd1 := hpd.next sem1
    have hp2 := xGate_pre2 hx hp1 hpd1
    obtain ⟨ax, semx, _⟩ := xGate_sem2 (scope := scope) (σ0 := σ0) (wo := wo) (Q := CtlQ scope ρ s') hx hpd1.1
    have hc1 := cache_next2 hcache sem1 (by
      intro c h'
      simp [compKeys, show c ∈ compKeys inner from h']) hdis
    obtain ⟨rfl, hp3, sem3, hv3, _⟩ := ihs d' h3 hp2
      (fun p hp' c hc => hc1 p (by rw [← ax.expq]; exact hp') c hc) (hpd1.next semx)
    have tail := semx.trans' sem3
    refine ⟨rfl, hp3, ((sem1.monoQ (CtlQ.of_sem tail)).trans' tail).mono ?_ ?_ ?_, ?_,
      fun hwo _ => (htg hwo).of_sem tail⟩
    · rintro q _ (h' | (h' | h'))
      · cases h'; rfl
      · exact h'
      · exact h'
    · rintro c (h' | (h' | h'))
      · simp [compKeysList, compKeys, show c ∈ compKeys inner from h']
      · exact h'.elim
      · simp [compKeysList, show c ∈ compKeysList as from h']
    · rintro m (h' | (h' | h'))
      · exact ⟨h'.1, fun hm => h'.2.1 (tail.avail m hm)⟩
      · exact h'.elim
      · exact ⟨sem1.avail m (semx.avail m h'.1), h'.2⟩
    · rw [hv3, ax.cur_eq rfl σ0, hval]
      simp only [List.all_nil, Bool.xor_true, evalXor, BExp.eval]
      rw [bnot_xor, Bool.xor_assoc]

theorem xorSem2_cons {a : BExp} {as : List BExp} (hwf : wfExp scope wo a = true) (hbad : xorArgBad a = false)
    (iha : ExprSem2 scope ρ σ0 wo a) (ihi : ExprSem2 scope ρ σ0 wo (stripNot a))
    (ihs : XorSem2 scope ρ σ0 wo as)
    (hdis : ∀ x ∈ compKeys a, ∀ y ∈ compKeysList as, (x == y) = false) :
    XorSem2 scope ρ σ0 wo (a :: as) := by
  intro d q s s' h hp hcache hpd
  cases a with
  | sym n =>
    unfold compileXorArgs at h
    obtain ⟨q0, s1, hl, h1⟩ := run_bind_ok.mp h
    obtain ⟨rfl, hq0, _⟩ := lookup_ok hl hp.good
    have hn : n ∈ scope := by simpa [wfExp] using hwf
    have hk : Known scope n := Or.inl hn
    rcases run_ite_ok.mp h1 with ⟨hc, _⟩ | ⟨_, h1⟩
    · have : q0 = d := by simpa using hc
      exact absurd hq0 (this ▸ hpd.2 n hk)
    · obtain ⟨u, s2, hcx, h2⟩ := run_bind_ok.mp h1
      have hnav0 := hp.sym_notAvail hk hq0
      have hp2 := cx_pre2 hcx hp hpd hnav0
      have ac := cx_run hcx
      have hpd2 : Priv scope s2 d :=
        ⟨by unfold Avail; rw [ac.free, ac.nq]; exact hpd.1, by rw [ac.qmap]; exact hpd.2⟩
      obtain ⟨rfl, hp3, sem2, hv2, _⟩ := ihs d h2 hp2
        (fun p hp' c hc => hcache p (by rw [← ac.expq]; exact hp') c (by simp [compKeysList, compKeys, hc])) hpd2
      obtain ⟨_, semc, tgc⟩ := cx_sem2 (scope := scope) (σ0 := σ0) (wo := wo) (Q := CtlQ scope ρ s') hcx hpd.1
        (fun _ => Or.inr ⟨n, hk, sem2.qkeep n q0 hk (by rw [ac.qmap]; exact hq0), (hp.tbl n q0 hk hq0).2.2⟩)
      refine ⟨rfl, hp3, (semc.trans' sem2).mono ?_ ?_ ?_, ?_, fun _ _ => tgc.of_sem sem2⟩
      · rintro q _ (h' | h') <;> exact h'
      · rintro c (h' | h')
        · exact h'.elim
        · simp [compKeysList, show c ∈ compKeysList as from h']
      · rintro m (h' | h')
        · exact h'.elim
        · refine ⟨?_, h'.2⟩
          have := h'.1
          unfold Avail at this ⊢
          rw [ac.free, ac.nq] at this
          exact this
      · rw [hv2, ac.cur_eq rfl σ0]
        simp only [List.all_cons, List.all_nil, Bool.and_true, evalXor, BExp.eval]
        rw [(hp.tbl n q0 hk hq0).2.2, kval_scope hp.scopeOK hn, Bool.xor_assoc]
  | not inner =>
    cases inner with
    | sym n =>
      unfold compileXorArgs at h
      exact xorStep_sem2 iha ihs rfl hdis h hp hcache hpd
    | ff => simp [xorArgBad] at hbad
    | tt => simp [xorArgBad] at hbad
    | xor l => unfold compileXorArgs at h; exact xorNotStep_sem2 ihi ihs rfl hdis h hp hcache hpd
    | not l => unfold compileXorArgs at h; exact xorNotStep_sem2 ihi ihs rfl hdis h hp hcache hpd
    | and l => unfold compileXorArgs at h; exact xorNotStep_sem2 ihi ihs rfl hdis h hp hcache hpd
    | or l => unfold compileXorArgs at h; exact xorNotStep_sem2 ihi ihs rfl hdis h hp hcache hpd
    | ite x y z => simp [wfExp] at hwf
    | imp x y => simp [wfExp] at hwf
  | ff => simp [xorArgBad] at hbad
  | tt => simp [xorArgBad] at hbad
  | xor l => unfold compileXorArgs at h; exact xorStep_sem2 iha ihs rfl hdis h hp hcache hpd
  | and l => unfold compileXorArgs at h; exact xorStep_sem2 iha ihs rfl hdis h hp hcache hpd
  | or l => unfold compileXorArgs at h; exact xorStep_sem2 iha ihs rfl hdis h hp hcache hpd
  | ite x y z => simp [wfExp] at hwf
  | imp x y => simp [wfExp] at hwf

theorem exprSem2_xor {args : List BExp} (ih : XorSem2 scope ρ σ0 wo args) (hne : wo = false → args ≠ []) :
    ExprSem2 scope ρ σ0 wo (.xor args) := by
  intro dest sym a s s' h hp hcache hd hsym _
  unfold compileExpr at h
  dsimp only at h
  obtain ⟨r0, s1, hget, h1⟩ := run_bind_ok.mp h
  obtain ⟨rfl, rfl⟩ := expqGet?_miss hget (fun p hp' => hcache p hp' _ (by simp [compKeys]))
  dsimp only at h1
  have hsub : ∀ p ∈ s1.expq, ∀ c ∈ compKeysList args, (p.1 == c) = false :=
    fun p hp' c hc => hcache p hp' c (by simp [compKeys, hc])
  cases dest with
  | some d =>
    simp only [Option.isNone_some, Bool.false_eq_true, ↓reduceIte] at h1
    obtain ⟨d0, s2, hp0, h2⟩ := run_bind_ok.mp h1
    obtain ⟨rfl, rfl⟩ := run_pure_ok.mp hp0
    obtain ⟨d', s3, hx, h3⟩ := run_bind_ok.mp h2
    obtain ⟨rfl, rfl⟩ := run_pure_ok.mp h3
    obtain ⟨rfl, hp', sem1, hv, htg⟩ := ih d0 hx hp hsub (hd d0 rfl)
    refine ⟨hp', sem1.mono ?_ ?_ ?_, fun hn => (by cases hn), fun d' hd' => ?_⟩
    · rintro q _ h'; rw [h']
    · rintro c h'; simp [compKeys, show c ∈ compKeysList args from h']
    · rintro m h'; exact ⟨h'.1, h'.2, fun hn => by cases hn⟩
    · cases hd'
      exact ⟨rfl, by rw [hv]; simp [BExp.eval], fun hwo => htg hwo (hne hwo)⟩
  | none =>
    simp only [Option.isNone_none, ↓reduceIte] at h1
    obtain ⟨d, s2, hf, h2⟩ := run_bind_ok.mp h1
    obtain ⟨hp2, semf, hcf, hava, hnava, hanca⟩ := getFreeAncilla_sem2 (wo := wo) (Q := CtlQ scope ρ s') hf hp
    have hpd : Priv scope s2 d := ⟨hnava, fun n hk hq' => (hp2.tbl n d hk hq').2.1 hanca⟩
    obtain ⟨d', s3, hx, h3⟩ := run_bind_ok.mp h2
    obtain ⟨u, s4, hset, h4⟩ := run_bind_ok.mp h3
    obtain ⟨rfl, rfl⟩ := run_pure_ok.mp h4
    obtain ⟨rfl, hp3, sem1, hv, htg⟩ := ih d hx hp2 (by
      intro p hp' c hc
      rcases semf.keys p hp' with ⟨p0, hp0, e0⟩ | hk
      · rw [← e0]; exact hsub p0 hp0 c hc
      · exact hk.elim) hpd
    obtain ⟨hp4, sem4, hc4, hqc4⟩ := expqSet_sem2 (wo := wo) (Q := CtlQ scope ρ s') hset hp3
      (notAvail_lt (fun h' => hnava (sem1.avail _ h')))
    have tail4 := (sem1.monoQ (CtlQ.of_sem sem4)).trans' sem4
    have hnava' : ¬ Avail s' a := fun h' => hnava (tail4.avail a h')
    have hanc' : a ∈ s'.qc.anc := tail4.akeep a hanca
    refine ⟨hp4, (semf.trans' tail4).mono ?_ ?_ ?_, fun _ => ⟨Or.inr ⟨hava, hanc', fun hwo => (htg hwo (hne hwo)).of_sem sem4⟩, hnava', ?_, fun _ => hanc'⟩,
      fun d' hd' => by cases hd'⟩
    · rintro q hq' (h' | (h' | h'))
      · exact h'.elim
      · rcases hq' with hq' | hq'
        · exact absurd (h' ▸ hava) hq'
        · exact absurd (h' ▸ hq') hnava'
      · exact h'.elim
    · rintro c (h' | (h' | h'))
      · exact h'.elim
      · simp [compKeys, show c ∈ compKeysList args from h']
      · simp [compKeys, show c = BExp.xor args from h']
    · rintro m (h' | (h' | h'))
      · exact h'.elim
      · exact ⟨semf.avail m h'.1, fun hm => h'.2 (sem4.avail m hm), fun _ e => hnava (e ▸ h'.1)⟩
      · exact h'.elim
    · rw [hc4, hv, hcf, hp.zero a hava]; simp [BExp.eval]

/-! ### the induction -/

theorem distinct_cons_list2 {e : BExp} {l : List BExp} (h : Distinct (e :: compKeysList l)) :
    Distinct (compKeysList l) := (List.pairwise_cons.mp h).2

theorem distinct_split2 {a : BExp} {as : List BExp} (h : Distinct (compKeysList (a :: as))) :
    Distinct (compKeys a) ∧ Distinct (compKeysList as) ∧
      ∀ x ∈ compKeys a, ∀ y ∈ compKeysList as, (x == y) = false := by
  unfold Distinct at h
  rw [compKeysList, List.pairwise_append] at h
  exact h

theorem distinct_strip2 {a : BExp} (h : Distinct (compKeys a)) : Distinct (compKeys (stripNot a)) := by
  cases a with
  | not i =>
    show Distinct (compKeys i)
    exact distinct_tail (e := .not i) (by simpa [compKeys] using h)
  | _ => exact h

theorem wfExp_strip {a : BExp} (h : wfExp scope wo a = true) : wfExp scope wo (stripNot a) = true := by
  cases a <;> simp_all [stripNot, wfExp]

theorem wf_or_cond {l : List BExp} (h : wfExp scope wo (.or l) = true) :
    wfExpList scope wo l = true ∧ (wo = false → l.length ≤ 2 ∨ ∀ a ∈ l, isLeaf a = false) ∧
      (wo = false → l ≠ []) := by
  simp only [wfExp, Bool.and_eq_true, Bool.or_eq_true, decide_eq_true_eq, List.all_eq_true,
    Bool.not_eq_true', List.isEmpty_eq_false_iff] at h
  refine ⟨h.1, fun hwo => ?_, fun hwo => ?_⟩
  · rcases h.2 with h' | h'
    · rw [hwo] at h'; cases h'
    · exact h'.2
  · rcases h.2 with h' | h'
    · rw [hwo] at h'; cases h'
    · exact h'.1

theorem wf_xor_cond {l : List BExp} (h : wfExp scope wo (.xor l) = true) :
    wfExpList scope wo l = true ∧ (∀ a ∈ l, xorArgBad a = false) ∧ (wo = false → l ≠ []) := by
  simp only [wfExp, Bool.and_eq_true, Bool.or_eq_true, List.all_eq_true, Bool.not_eq_true',
    List.isEmpty_eq_false_iff] at h
  refine ⟨h.1.1, h.1.2, fun hwo => ?_⟩
  rcases h.2 with h' | h'
  · rw [hwo] at h'; cases h'
  · exact h'

theorem wf_cons {a : BExp} {as : List BExp} (h : wfExpList scope wo (a :: as) = true) :
    wfExp scope wo a = true ∧ wfExpList scope wo as = true := by
  simpa [wfExpList] using h

mutual
/-- **`compileExpr` on the widened classes**: the result qubit holds the value of the expression (or the
accumulator gets it xor-ed in); nothing outside the scratch space and the accumulator changes; the scratch
space stays zero -/
theorem exprSem2 : ∀ e : BExp, wfExp scope wo e = true → Distinct (compKeys e) → ExprSem2 scope ρ σ0 wo e
  | .sym n => fun hwf _ => exprSem2_sym n (by simpa [wfExp] using hwf)
  | .tt => fun _ _ => exprSem2_tt
  | .ff => fun _ _ => exprSem2_ff
  | .not a => fun hwf hd =>
    have hwf' : wfExp scope wo a = true := by simpa [wfExp] using hwf
    exprSem2_not (fun n hn => by subst hn; simpa [wfExp] using hwf')
      (exprSem2 a hwf' (distinct_tail (by simpa [compKeys] using hd)))
  | .and args => fun hwf hd =>
    exprSem2_and (argsSem2 args (by simpa [wfExp] using hwf)
      (distinct_cons_list2 (by simpa [compKeys] using hd)))
  | .or args => fun hwf hd =>
    exprSem2_or (argsSem2 args (wf_or_cond hwf).1 (distinct_cons_list2 (by simpa [compKeys] using hd)))
      (wf_or_cond hwf).2.1 (wf_or_cond hwf).2.2
  | .xor args => fun hwf hd =>
    exprSem2_xor (xorSem2 args (wf_xor_cond hwf).1 (wf_xor_cond hwf).2.1
      (distinct_cons_list2 (by simpa [compKeys] using hd))) (wf_xor_cond hwf).2.2
  | .ite _ _ _ => fun hwf _ => by simp [wfExp] at hwf
  | .imp _ _ => fun hwf _ => by simp [wfExp] at hwf
theorem argsSem2 : ∀ as : List BExp, wfExpList scope wo as = true → Distinct (compKeysList as) →
      ArgsSem2 scope ρ σ0 wo as
  | [] => fun _ _ => argsSem2_nil
  | a :: as => fun hwf hd =>
    have hs := distinct_split2 hd
    argsSem2_cons (exprSem2 a (wf_cons hwf).1 hs.1) (argsSem2 as (wf_cons hwf).2 hs.2.1) hs.2.2
theorem xorSem2 : ∀ as : List BExp, wfExpList scope wo as = true → (∀ x ∈ as, xorArgBad x = false) →
      Distinct (compKeysList as) → XorSem2 scope ρ σ0 wo as
  | [] => fun _ _ _ => xorSem2_nil
  | .not i :: as => fun hwf hb hd =>
    have hs := distinct_split2 hd
    xorSem2_cons (wf_cons hwf).1 (hb _ List.mem_cons_self) (exprSem2 (.not i) (wf_cons hwf).1 hs.1)
      (exprSem2 i (wfExp_strip (wf_cons hwf).1) (distinct_strip2 hs.1))
      (xorSem2 as (wf_cons hwf).2 (fun x hx => hb x (List.mem_cons_of_mem _ hx)) hs.2.1) hs.2.2
  | .sym n :: as => fun hwf hb hd =>
    have hs := distinct_split2 hd
    xorSem2_cons (wf_cons hwf).1 (hb _ List.mem_cons_self) (exprSem2 (.sym n) (wf_cons hwf).1 hs.1)
      (exprSem2 (.sym n) (wf_cons hwf).1 hs.1)
      (xorSem2 as (wf_cons hwf).2 (fun x hx => hb x (List.mem_cons_of_mem _ hx)) hs.2.1) hs.2.2
  | .xor l :: as => fun hwf hb hd =>
    have hs := distinct_split2 hd
    xorSem2_cons (wf_cons hwf).1 (hb _ List.mem_cons_self) (exprSem2 (.xor l) (wf_cons hwf).1 hs.1)
      (exprSem2 (.xor l) (wf_cons hwf).1 hs.1)
      (xorSem2 as (wf_cons hwf).2 (fun x hx => hb x (List.mem_cons_of_mem _ hx)) hs.2.1) hs.2.2
  | .and l :: as => fun hwf hb hd =>
    have hs := distinct_split2 hd
    xorSem2_cons (wf_cons hwf).1 (hb _ List.mem_cons_self) (exprSem2 (.and l) (wf_cons hwf).1 hs.1)
      (exprSem2 (.and l) (wf_cons hwf).1 hs.1)
      (xorSem2 as (wf_cons hwf).2 (fun x hx => hb x (List.mem_cons_of_mem _ hx)) hs.2.1) hs.2.2
  | .or l :: as => fun hwf hb hd =>
    have hs := distinct_split2 hd
    xorSem2_cons (wf_cons hwf).1 (hb _ List.mem_cons_self) (exprSem2 (.or l) (wf_cons hwf).1 hs.1)
      (exprSem2 (.or l) (wf_cons hwf).1 hs.1)
      (xorSem2 as (wf_cons hwf).2 (fun x hx => hb x (List.mem_cons_of_mem _ hx)) hs.2.1) hs.2.2
  | .ff :: as => fun _ hb _ => by have := hb .ff List.mem_cons_self; simp [xorArgBad] at this
  | .tt :: as => fun _ hb _ => by have := hb .tt List.mem_cons_self; simp [xorArgBad] at this
  | .ite _ _ _ :: as => fun hwf _ _ => by have := (wf_cons hwf).1; simp [wfExp] at this
  | .imp _ _ :: as => fun hwf _ _ => by have := (wf_cons hwf).1; simp [wfExp] at this
end

end QV.Compiler
