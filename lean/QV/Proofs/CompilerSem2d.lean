import QV.Proofs.CompilerSem2c
/-!
# Semantic correctness of the compiler model on wider classes – part 4: the `Or` node, `Xor` and the induction
-/
namespace QV.Compiler
open QV

variable {scope : List String} {ρ : Env} {σ0 : FState} {wo : Bool}

/-! ### the `Or` node -/

/-- after the gates of `compile_or` (state `t`): the common tail, and the assembly of the node's relation.
`Mg` are the qubits the gates marked on their own (the ancillas of the or-chain). -/
theorem orFin {es : List Nat} {dest : Option Nat} {e : BExp} {d a : Nat} {s t s' : CState} {Mg : Nat → Prop}
    (hpt : Pre2 scope ρ σ0 t)
    (hak : ∀ c ∈ s.qc.anc, c ∈ t.qc.anc) (hkk : t.qc.kept = s.qc.kept)
    (hqk : ∀ n q, Known scope n → dictGet? s.qc.qmap n = some q → dictGet? t.qc.qmap n = some q)
    (hdlt : d < t.qc.numQubits)
    (hv : cur σ0 t d = Bool.xor (cur σ0 s d) (es.any (cur σ0 s)))
    (hrun : StateT.run (do
          markAll es
          if dest.isNone = true then do
              expqSet e d
              pure d
            else pure d : M Nat) t = .ok (a, s'))
    (htgt : wo = false → ∀ m ∈ es, m ∈ t.qc.anc → Tgt t m) (htd : wo = false → es ≠ [] → Tgt t d)
    (hMg : ∀ m, Mg m → Avail s m ∧ ¬ Avail t m ∧ m ≠ d)
    (hsem : (∀ (f : FState) (c : Nat), c ∈ es →
        ((c ∈ s.qc.anc ∧ c ∉ s.qc.kept) ∨ ∃ n, Known scope n ∧ dictGet? s.qc.qmap n = some c ∧ f c = kval ρ n) →
          CtlQ scope ρ s' f c) →
       (∀ (f : FState) (c : Nat), c ∈ t.qc.marked → CtlQ scope ρ s' f c) →
       Sem2 scope σ0 wo (CtlQ scope ρ s') (· = d) NoK Mg s t) :
    a = d ∧ Pre2 scope ρ σ0 s' ∧
      Sem2 scope σ0 wo (CtlQ scope ρ s') (· = d) (· = e)
        (fun m => (m ∈ es ∧ m ∈ s'.qc.anc) ∨ (Avail s m ∧ ¬ Avail s' m ∧ m ≠ d)) s s' ∧
      cur σ0 s' d = Bool.xor (cur σ0 s d) (es.any (cur σ0 s)) ∧ (wo = false → es ≠ [] → Tgt s' d) := by
  obtain ⟨ead, hp', semf, hcf, hmkf, hancf⟩ := finish_sem2 (wo := wo) (Q := CtlQ scope ρ s') hrun hpt hdlt htgt
  have hQ : ∀ (f : FState) (c : Nat), c ∈ es →
      ((c ∈ s.qc.anc ∧ c ∉ s.qc.kept) ∨ ∃ n, Known scope n ∧ dictGet? s.qc.qmap n = some c ∧ f c = kval ρ n) →
        CtlQ scope ρ s' f c := by
    intro f c hc h'
    rcases h' with ⟨ha, hk⟩ | ⟨n, hk, hq, hv'⟩
    · exact Or.inl (hmkf c hc (hak c ha) (by rw [hkk]; exact hk))
    · exact Or.inr ⟨n, hk, semf.qkeep n c hk (hqk n c hk hq), hv'⟩
  have semg := hsem hQ (fun f c hc => Or.inl (semf.mkeep c hc))
  refine ⟨ead, hp', (semg.trans' semf).mono ?_ ?_ ?_, by rw [hcf, hv], fun hwo hne => (htd hwo hne).of_sem semf⟩
  · rintro q _ (h' | h')
    · exact h'
    · exact h'.elim
  · rintro c (h' | h')
    · exact h'.elim
    · exact h'
  · rintro m (h' | h')
    · obtain ⟨m1, m2, m3⟩ := hMg m h'
      exact Or.inr ⟨m1, fun hm => m2 (semf.avail m hm), m3⟩
    · exact Or.inl ⟨h'.1, by rw [hancf]; exact h'.2⟩

theorem orGates_sem2 {erets es : List Nat} {dest : Option Nat} {e : BExp} {d a : Nat} {s s' : CState}
    (h : StateT.run (
        if es.length ≤ 2 then do
          cxAll d es
          if (es.length == 2) = true then do
              mcx es d
              markAll es
              if dest.isNone = true then do
                  expqSet e d
                  pure d
                else pure d
            else do
              markAll es
              if dest.isNone = true then do
                  expqSet e d
                  pure d
                else pure d
        else do
          orWide d erets es
          markAll es
          if dest.isNone = true then do
              expqSet e d
              pure d
            else pure d : M Nat) s = .ok (a, s'))
    (hp : Pre2 scope ρ σ0 s) (hd : d ∉ es) (hpd : Priv scope s d) (hes : ∀ c ∈ es, ¬ Avail s c)
    (hres : ∀ c ∈ es, (∃ n, Known scope n ∧ dictGet? s.qc.qmap n = some c) ∨
        (c ∈ s.qc.anc ∧ c ∉ s.qc.kept ∧ (wo = false → Tgt s c))) :
    a = d ∧ Pre2 scope ρ σ0 s' ∧
      Sem2 scope σ0 wo (CtlQ scope ρ s') (· = d) (· = e)
        (fun m => (m ∈ es ∧ m ∈ s'.qc.anc) ∨ (Avail s m ∧ ¬ Avail s' m ∧ m ≠ d)) s s' ∧
      cur σ0 s' d = Bool.xor (cur σ0 s d) (es.any (cur σ0 s)) ∧ (wo = false → es ≠ [] → Tgt s' d) := by
  -- a gate applied while the argument qubits hold the values they have in `s`
  have hctl' : ∀ (f : FState), (∀ c ∈ es, f c = cur σ0 s c) → ∀ c ∈ es,
      ((c ∈ s.qc.anc ∧ c ∉ s.qc.kept) ∨ ∃ n, Known scope n ∧ dictGet? s.qc.qmap n = some c ∧ f c = kval ρ n) := by
    intro f hf c hc
    rcases hres c hc with ⟨n, hk, hq⟩ | ⟨h1, h2, _⟩
    · exact Or.inr ⟨n, hk, hq, by rw [hf c hc]; exact (hp.tbl n c hk hq).2.2⟩
    · exact Or.inl ⟨h1, h2⟩
  -- an argument qubit that is still an ancilla after the gates is the target of an earlier gate
  have htgtT : ∀ (t : CState), Pre2 scope ρ σ0 t →
      (∀ n q, Known scope n → dictGet? s.qc.qmap n = some q → dictGet? t.qc.qmap n = some q) →
      (∀ q, Tgt s q → Tgt t q) → wo = false → ∀ m ∈ es, m ∈ t.qc.anc → Tgt t m := by
    intro t hpt hqk htk hwo m hm ha
    rcases hres m hm with ⟨n, hk, hq⟩ | ⟨_, _, h3⟩
    · exact absurd ha (hpt.tbl n m hk (hqk n m hk hq)).2.1
    · exact htk m (h3 hwo)
  have hdlt := notAvail_lt hpd.1
  rcases run_ite_ok.mp h with ⟨hle, h⟩ | ⟨hnle, h⟩
  · obtain ⟨u1, s1, hcx, h1⟩ := run_bind_ok.mp h
    match es, hd, hes, hctl', htgtT, hle, hcx, h1 with
    | [], _, _, _, htgtT, _, hcx, h1 =>
      unfold cxAll at hcx
      obtain ⟨_, rfl⟩ := run_pure_ok.mp hcx
      rcases run_ite_ok.mp h1 with ⟨hc, _⟩ | ⟨_, h1⟩
      · simp at hc
      · exact orFin (Mg := NoQ) hp (fun _ h' => h') rfl (fun _ _ _ h' => h') hdlt (by simp) h1
          (fun _ _ hm => absurd hm List.not_mem_nil)
          (fun _ hne => absurd rfl hne) (fun _ h' => h'.elim) (fun _ _ => Sem2.refl _)
    | [q1], hd, hes, hctl', htgtT, _, hcx, h1 =>
      unfold cxAll at hcx
      obtain ⟨u2, s2, hc1, hc2⟩ := run_bind_ok.mp hcx
      unfold cxAll at hc2
      obtain ⟨_, rfl⟩ := run_pure_ok.mp hc2
      have a1 := cx_run hc1
      have hp1 := cx_pre2 hc1 hp hpd (hes q1 (by simp))
      rcases run_ite_ok.mp h1 with ⟨hc, _⟩ | ⟨_, h1⟩
      · simp at hc
      · refine orFin (Mg := NoQ) hp1 (by rw [a1.anc]; exact fun _ h' => h') a1.kept
          (by rw [a1.qmap]; exact fun _ _ _ h' => h') (by rw [a1.nq]; exact hdlt)
          (by rw [a1.cur_eq rfl σ0]; simp) h1
          (htgtT _ hp1 (by rw [a1.qmap]; exact fun _ _ _ h' => h') (fun q hq => hq.appended a1))
          (fun _ _ => (cx_sem2 (scope := scope) (σ0 := σ0) (wo := wo) (Q := fun _ _ => True) hc1 hpd.1
            (fun _ => trivial)).2.2)
          (fun _ h' => h'.elim) (fun hQ _ => ?_)
        exact (cx_sem2 (scope := scope) (σ0 := σ0) (wo := wo) hc1 hpd.1
          (fun _ => hQ _ q1 (by simp) (hctl' _ (fun _ _ => rfl) q1 (by simp)))).2.1
    | [q1, q2], hd, hes, hctl', htgtT, _, hcx, h1 =>
      unfold cxAll at hcx
      obtain ⟨u2, s2, hc1, hc2⟩ := run_bind_ok.mp hcx
      unfold cxAll at hc2
      obtain ⟨u3, s3, hc3, hc4⟩ := run_bind_ok.mp hc2
      unfold cxAll at hc4
      obtain ⟨_, rfl⟩ := run_pure_ok.mp hc4
      have hne : ∀ c ∈ [q1, q2], c ≠ d := fun c hc => by rintro rfl; exact hd hc
      have hq1 : q1 ≠ d := hne q1 (by simp)
      have hq2 : q2 ≠ d := hne q2 (by simp)
      rcases run_ite_ok.mp h1 with ⟨_, h1⟩ | ⟨hc, _⟩
      · obtain ⟨u4, s4, hm, h2⟩ := run_bind_ok.mp h1
        have hblock : StateT.run (do cx q1 d; cx q2 d; mcx [q1, q2] d : M Unit) s = .ok (u4, s4) :=
          run_bind_ok.mpr ⟨u2, s2, hc1, run_bind_ok.mpr ⟨u3, s1, hc3, hm⟩⟩
        obtain ⟨hp4, _, tg4, hv4, _, anc4, qm4, nq4, _, _, kp4, htk4⟩ :=
          orGate_sem2 (wo := wo) (Q := fun _ _ => True) hblock hp hpd hq1 hq2 (hes q1 (by simp)) (hes q2 (by simp))
            (fun _ _ _ _ => ⟨trivial, trivial⟩)
        refine orFin (Mg := NoQ) hp4 (by rw [anc4]; exact fun _ h' => h') kp4
          (by rw [qm4]; exact fun _ _ _ h' => h') (by rw [nq4]; exact hdlt) ?_ h2
          (htgtT _ hp4 (by rw [qm4]; exact fun _ _ _ h' => h') htk4)
          (fun _ _ => tg4) (fun _ h' => h'.elim) (fun hQ _ => ?_)
        · rw [hv4]; simp
        · exact (orGate_sem2 (wo := wo) (Q := CtlQ scope ρ s') hblock hp hpd hq1 hq2 (hes q1 (by simp))
            (hes q2 (by simp)) (fun _ f hf1 hf2 => by
              have hf : ∀ c ∈ [q1, q2], f c = cur σ0 s c := by
                intro c hc
                have : c = q1 ∨ c = q2 := by simpa using hc
                rcases this with e | e <;> rw [e] <;> assumption
              exact ⟨hQ f q1 (by simp) (hctl' f hf q1 (by simp)), hQ f q2 (by simp) (hctl' f hf q2 (by simp))⟩)).2.1
      · simp at hc
    | _ :: _ :: _ :: _, _, _, _, _, hle, _, _ => simp at hle
  · obtain ⟨u1, t, hw, h1⟩ := run_bind_ok.mp h
    have hlen : 2 < es.length := by omega
    obtain ⟨hpt, semT, hvt, tgt, htkt⟩ := orWide_sem2 (wo := wo) (Q := fun _ _ => True) hw hlen hd hp hpd hes
      (fun _ _ _ _ => trivial) (fun _ _ _ _ _ => trivial)
    refine orFin (Mg := fun m => Avail s m ∧ ¬ Avail t m ∧ m ≠ d) hpt semT.akeep semT.kkeep semT.qkeep
      (notAvail_lt (fun h' => hpd.1 (semT.avail d h'))) hvt h1 (htgtT _ hpt semT.qkeep htkt) (fun _ _ => tgt)
      (fun _ h' => h') (fun hQ hQm => ?_)
    exact (orWide_sem2 (wo := wo) (Q := CtlQ scope ρ s') hw hlen hd hp hpd hes (fun _ f c hc => hQm f c hc)
      (fun _ c hc f hf => hQ f c hc (by
        rcases hres c hc with ⟨n, hk, hq⟩ | ⟨h1', h2', _⟩
        · exact Or.inr ⟨n, hk, hq, by rw [hf]; exact (hp.tbl n c hk hq).2.2⟩
        · exact Or.inl ⟨h1', h2'⟩))).2.1

theorem exprSem2_or {args : List BExp} (ih : ArgsSem2 scope ρ σ0 wo args) (hne : wo = false → args ≠ []) :
    ExprSem2 scope ρ σ0 wo (.or args) := by
  intro dest sym a s s' h hp hcache hd hsym _
  unfold compileExpr at h
  dsimp only at h
  obtain ⟨r0, s1, hget, h1⟩ := run_bind_ok.mp h
  obtain ⟨rfl, rfl⟩ := expqGet?_miss hget (fun p hp' => hcache p hp' _ (by simp [compKeys]))
  dsimp only at h1
  obtain ⟨erets, s2, hargs, h2⟩ := run_bind_ok.mp h1
  obtain ⟨hp2, sem1, hvals, hb, hancs⟩ := ih hargs hp
    (fun p hp' c hc => hcache p hp' c (by simp [compKeys, hc]))
  have hd2 : ∀ d, dest = some d → Priv scope s2 d := fun d hd' => (hd d hd').next sem1
  have hlen : erets.length = args.length := by
    have := congrArg List.length hvals
    simpa using this
  have body : ∀ {d : Nat} {s3 : CState} {k : M Nat} (es : List Nat),
      es = sortNat (if erets.contains d = true then erets.erase d else erets).eraseDups →
      (destOr dest).run s2 = .ok (d, s3) →
      StateT.run (if erets.contains d = true then do event "destAmongArgs"; k else k) s3 = .ok (a, s') →
      (∀ {t : CState}, k.run t = .ok (a, s') → Pre2 scope ρ σ0 t → d ∉ es → Priv scope t d →
        (∀ c ∈ es, ¬ Avail t c) →
        (∀ c ∈ es, (∃ n, Known scope n ∧ dictGet? t.qc.qmap n = some c) ∨
          (c ∈ t.qc.anc ∧ c ∉ t.qc.kept ∧ (wo = false → Tgt t c))) →
        a = d ∧ Pre2 scope ρ σ0 s' ∧
          Sem2 scope σ0 wo (CtlQ scope ρ s') (· = d) (· = BExp.or args)
            (fun m => (m ∈ es ∧ m ∈ s'.qc.anc) ∨ (Avail t m ∧ ¬ Avail s' m ∧ m ≠ d)) t s' ∧
          cur σ0 s' d = Bool.xor (cur σ0 t d) (es.any (cur σ0 t)) ∧ (wo = false → es ≠ [] → Tgt s' d)) →
      Pre2 scope ρ σ0 s' ∧
      Sem2 scope σ0 wo (CtlQ scope ρ s') (fun q => dest = some q) (· ∈ compKeys (BExp.or args))
        (fun m => Avail s1 m ∧ ¬ Avail s' m ∧ (dest = none → m ≠ a)) s1 s' ∧
      (dest = none → Res scope wo s1 s' a ∧ ¬ Avail s' a ∧ cur σ0 s' a = (BExp.or args).eval ρ ∧
        (isLeaf (BExp.or args) = false → a ∈ s'.qc.anc)) ∧
      (∀ d, dest = some d → a = d ∧ cur σ0 s' d = Bool.xor (cur σ0 s1 d) ((BExp.or args).eval ρ) ∧
        (wo = false → Tgt s' d)) := by
    intro d s3 k es hes hdest h3 hk
    obtain ⟨hp3, semd, hcd, hdn, hpriv3, hdcase⟩ := dest_sem2 (wo := wo) (Q := CtlQ scope ρ s') hp2 hd hd2 hb hdest
    have hcdn : ¬ (erets.contains d = true) := by simpa using hdn
    rw [if_neg hcdn] at hes
    have hmem : ∀ c, c ∈ es → c ∈ erets := fun c hc => mem_sortDedup.mp (hes ▸ hc)
    have hdes : d ∉ es := fun h' => hdn (hmem d h')
    rcases run_ite_ok.mp h3 with ⟨hc, _⟩ | ⟨_, h3⟩
    · exact absurd hc hcdn
    · obtain ⟨ead, hp', semo, hv, htd⟩ := hk h3 hp3 hdes hpriv3
        (fun c hc h' => (hb c (hmem c hc)).2 (semd.avail c h'))
        (fun c hc => by
          rcases (hb c (hmem c hc)).1 with ⟨n, hkn, hq⟩ | ⟨hav, hanc, htg⟩
          · exact Or.inl ⟨n, hkn, semd.qkeep n c hkn hq⟩
          · exact Or.inr ⟨semd.akeep c hanc, by rw [semd.kkeep, sem1.kkeep]; exact hp.notKept hav,
              fun hwo => (htg hwo).of_sem semd⟩)
      subst ead
      have tgd' : wo = false → Tgt s' a := fun hwo => htd hwo (by
        have hne' := hne hwo
        cases hea : erets with
        | nil => rw [hea] at hlen; exact absurd (List.length_eq_zero_iff.mp hlen.symm) hne'
        | cons x xs =>
          intro hnil
          have : x ∈ es := by rw [hes]; exact mem_sortDedup.mpr (by rw [hea]; exact List.mem_cons_self)
          rw [hnil] at this; cases this)
      have tail := semd.trans' semo
      have tot := (sem1.monoQ (CtlQ.of_sem tail)).trans' tail
      have hval : cur σ0 s' a = Bool.xor (cur σ0 s2 a) (evalOr ρ args) := by
        rw [hv, hes, any_sortDedup, hcd, any_of_map hvals]
      have hnava' : ¬ Avail s' a := fun h' => hpriv3.1 (semo.avail a h')
      have hmk : ∀ m, (m ∈ es ∧ m ∈ s'.qc.anc) ∨ (Avail s3 m ∧ ¬ Avail s' m ∧ m ≠ a) →
          Avail s1 m ∧ ¬ Avail s' m ∧ m ≠ a := by
        rintro m (⟨h1', h2'⟩ | ⟨h1', h2', h3'⟩)
        · have hm := hb m (hmem m h1')
          exact ⟨(hm.1.next tail).sym_or_anc hp' h2', fun h' => hm.2 (tail.avail m h'),
            fun e => hdes (e ▸ h1')⟩
        · exact ⟨sem1.avail m (semd.avail m h1'), h2', h3'⟩
      rcases hdcase with hsome | ⟨hnone, hava, hanca, hz⟩
      · subst hsome
        refine ⟨hp', tot.mono ?_ ?_ ?_, fun hn => (by cases hn), fun d' hd' => ?_⟩
        · rintro q _ (h' | (h' | h'))
          · exact h'.elim
          · exact h'.elim
          · rw [h']
        · rintro c (h' | (h' | h'))
          · simp [compKeys, show c ∈ compKeysList args from h']
          · exact h'.elim
          · simp [compKeys, show c = BExp.or args from h']
        · rintro m (h' | (h' | h'))
          · exact ⟨h'.1, fun hm => h'.2 (tail.avail m hm), fun hn => by cases hn⟩
          · exact h'.elim
          · exact ⟨(hmk m h').1, (hmk m h').2.1, fun hn => by cases hn⟩
        · cases hd'
          refine ⟨rfl, ?_, tgd'⟩
          rw [hval, sem1.frame a (fun h' => h') (Or.inl (hd a rfl).1)]
          simp [BExp.eval]
      · subst hnone
        have hav1 : Avail s1 a := sem1.avail a hava
        have hanc' : a ∈ s'.qc.anc := semo.akeep a hanca
        refine ⟨hp', tot.mono ?_ ?_ ?_, fun _ => ⟨Or.inr ⟨hav1, hanc', tgd'⟩, hnava', ?_, fun _ => hanc'⟩,
          fun d' hd' => by cases hd'⟩
        · rintro q hq' (h' | (h' | h'))
          · exact h'.elim
          · exact h'.elim
          · rcases hq' with hq' | hq'
            · exact absurd (h' ▸ hav1) hq'
            · exact absurd (h' ▸ hq') hnava'
        · rintro c (h' | (h' | h'))
          · simp [compKeys, show c ∈ compKeysList args from h']
          · exact h'.elim
          · simp [compKeys, show c = BExp.or args from h']
        · rintro m (h' | (h' | h'))
          · exact ⟨h'.1, fun hm => h'.2 (tail.avail m hm), fun _ e => h'.2 (e ▸ hava)⟩
          · exact h'.elim
          · exact ⟨(hmk m h').1, (hmk m h').2.1, fun _ => (hmk m h').2.2⟩
        · rw [hval, hz]
          simp [BExp.eval]
  cases dest with
  | some d0 =>
    dsimp only at h2
    obtain ⟨d, s3, hp0, h4⟩ := run_bind_ok.mp h2
    exact body _ rfl hp0 h4 (fun hk hpt hdes hpd hes hres => orGates_sem2 hk hpt hdes hpd hes hres)
  | none =>
    dsimp only at h2
    obtain ⟨d, s3, hf, h4⟩ := run_bind_ok.mp h2
    exact body _ rfl hf h4 (fun hk hpt hdes hpd hes hres => orGates_sem2 hk hpt hdes hpd hes hres)

/-! ### the expression class of the repaired compiler

`wfExp scope lax` (`QV/Model/Compiler.lean`) carries, for `lax = false`, the restriction the unrepaired compiler
needed: an `Or` has one or two arguments or only compound ones (De Morgan's `X` gates on a symbol's qubit were
not undone by the inline `uncompute`).  The or-chain of the repaired compiler writes no argument qubit, so the
proofs go through on `wfExpW`, the same class without that restriction. -/

mutual
/-- `wfExp` without the De Morgan restriction on `Or`: symbols of `scope`, constants, `Not` / `And` / `Or` / `Xor`
of any arity; no constant (or negated constant) directly under `Xor`; with `lax = false` no `Or` / `Xor` without
arguments -/
def wfExpW (scope : List String) (lax : Bool) : BExp → Bool
  | .sym n => scope.contains n
  | .tt => true
  | .ff => true
  | .not a => wfExpW scope lax a
  | .and l => wfExpListW scope lax l
  | .or l => wfExpListW scope lax l && (lax || !l.isEmpty)
  | .xor l => wfExpListW scope lax l && l.all (fun a => !xorArgBad a) && (lax || !l.isEmpty)
  | _ => false
def wfExpListW (scope : List String) (lax : Bool) : List BExp → Bool
  | [] => true
  | a :: as => wfExpW scope lax a && wfExpListW scope lax as
end

mutual
theorem wfExpW_of_wfExp {lax : Bool} : ∀ e : BExp, wfExp scope lax e = true → wfExpW scope lax e = true
  | .sym _, h => by simpa [wfExp, wfExpW] using h
  | .tt, _ => rfl
  | .ff, _ => rfl
  | .not a, h => by
    have h' : wfExp scope lax a = true := by simpa [wfExp] using h
    simpa [wfExpW] using wfExpW_of_wfExp a h'
  | .and l, h => by
    have h' : wfExpList scope lax l = true := by simpa [wfExp] using h
    simpa [wfExpW] using wfExpListW_of_wfExpList l h'
  | .or l, h => by
    simp only [wfExp, Bool.and_eq_true, Bool.or_eq_true] at h
    simp only [wfExpW, Bool.and_eq_true, Bool.or_eq_true]
    exact ⟨wfExpListW_of_wfExpList l h.1, h.2.imp id (fun h' => h'.1)⟩
  | .xor l, h => by
    simp only [wfExp, Bool.and_eq_true] at h
    simp only [wfExpW, Bool.and_eq_true]
    exact ⟨⟨wfExpListW_of_wfExpList l h.1.1, h.1.2⟩, h.2⟩
  | .ite _ _ _, h => by simp [wfExp] at h
  | .imp _ _, h => by simp [wfExp] at h
theorem wfExpListW_of_wfExpList {lax : Bool} : ∀ l : List BExp, wfExpList scope lax l = true →
    wfExpListW scope lax l = true
  | [], _ => rfl
  | a :: as, h => by
    simp only [wfExpList, Bool.and_eq_true] at h
    simp only [wfExpListW, Bool.and_eq_true]
    exact ⟨wfExpW_of_wfExp a h.1, wfExpListW_of_wfExpList as h.2⟩
end

/-! ### `Xor`: accumulate every argument into one qubit -/

theorem xorSem2_nil : XorSem2 scope ρ σ0 wo [] := by
  intro d a s s' h hp _ _
  unfold compileXorArgs at h
  obtain ⟨rfl, rfl⟩ := run_pure_ok.mp h
  exact ⟨rfl, hp, Sem2.refl _, by simp [evalXor], fun _ h => absurd rfl h⟩

/-- generic branch of the `compile_xor` loop -/
theorem xorStep_sem2 {a : BExp} {as : List BExp} {d q : Nat} {s s' : CState}
    (iha : ExprSem2 scope ρ σ0 wo a) (ihs : XorSem2 scope ρ σ0 wo as) (hns : isLeaf a = false)
    (hdis : ∀ x ∈ compKeys a, ∀ y ∈ compKeysList as, (x == y) = false)
    (h : StateT.run (do
          let d' ← compileExpr a (some d) none
          if d' != d then event "xorRepl"
          compileXorArgs as d' : M Nat) s = .ok (q, s'))
    (hp : Pre2 scope ρ σ0 s)
    (hcache : ∀ p ∈ s.expq, ∀ c ∈ compKeysList (a :: as), (p.1 == c) = false)
    (hpd : Priv scope s d) :
    q = d ∧ Pre2 scope ρ σ0 s' ∧
      Sem2 scope σ0 wo (CtlQ scope ρ s') (· = d) (· ∈ compKeysList (a :: as))
        (fun m => Avail s m ∧ ¬ Avail s' m) s s' ∧
      cur σ0 s' d = Bool.xor (cur σ0 s d) (evalXor ρ (a :: as)) ∧ (wo = false → a :: as ≠ [] → Tgt s' d) := by
  obtain ⟨d', s1, h1, h2⟩ := run_bind_ok.mp h
  obtain ⟨hp1, sem1, _, hv1⟩ := iha (some d) none h1 hp
    (fun p hp' c hc => hcache p hp' c (by simp [compKeysList, hc]))
    (by intro d0 h0; cases h0; exact hpd) (by intro y hy; cases hy)
    (by intro hs; rw [hns] at hs; cases hs)
  obtain ⟨e', hval, htg⟩ := hv1 d rfl
  subst e'
  dsimp only at h2
  rcases run_ite_ok.mp h2 with ⟨hc, _⟩ | ⟨_, h2⟩
  · simp at hc
  · obtain ⟨rfl, hp2, sem2, hv2, _⟩ := ihs d' h2 hp1 (cache_next2 hcache sem1 (fun _ h => h) hdis)
      (hpd.next sem1)
    refine ⟨rfl, hp2, ((sem1.monoQ (CtlQ.of_sem sem2)).trans' sem2).mono ?_ ?_ ?_, ?_,
      fun hwo _ => (htg hwo).of_sem sem2⟩
    · rintro q _ (h' | h')
      · cases h'; rfl
      · exact h'
    · rintro c (h' | h')
      · simp [compKeysList, show c ∈ compKeys a from h']
      · simp [compKeysList, show c ∈ compKeysList as from h']
    · rintro m (h' | h')
      · exact ⟨h'.1, fun hm => h'.2.1 (sem2.avail m hm)⟩
      · exact ⟨sem1.avail m h'.1, h'.2⟩
    · rw [hv2, hval, Bool.xor_assoc]; rfl

/-- `Not` of a compound argument: accumulate the argument, then `X` -/
theorem xorNotStep_sem2 {inner : BExp} {as : List BExp} {d q : Nat} {s s' : CState}
    (iha : ExprSem2 scope ρ σ0 wo inner) (ihs : XorSem2 scope ρ σ0 wo as) (hns : isLeaf inner = false)
    (hdis : ∀ x ∈ compKeys (.not inner), ∀ y ∈ compKeysList as, (x == y) = false)
    (h : StateT.run (do
          let d' ← compileExpr inner (some d) none
          if d' != d then event "xorRepl"
          xGate d'
          compileXorArgs as d' : M Nat) s = .ok (q, s'))
    (hp : Pre2 scope ρ σ0 s)
    (hcache : ∀ p ∈ s.expq, ∀ c ∈ compKeysList (.not inner :: as), (p.1 == c) = false)
    (hpd : Priv scope s d) :
    q = d ∧ Pre2 scope ρ σ0 s' ∧
      Sem2 scope σ0 wo (CtlQ scope ρ s') (· = d) (· ∈ compKeysList (.not inner :: as))
        (fun m => Avail s m ∧ ¬ Avail s' m) s s' ∧
      cur σ0 s' d = Bool.xor (cur σ0 s d) (evalXor ρ (.not inner :: as)) ∧
      (wo = false → BExp.not inner :: as ≠ [] → Tgt s' d) := by
  obtain ⟨d', s1, h1, h2⟩ := run_bind_ok.mp h
  obtain ⟨hp1, sem1, _, hv1⟩ := iha (some d) none h1 hp
    (fun p hp' c hc => hcache p hp' c (by simp [compKeysList, compKeys, hc]))
    (by intro d0 h0; cases h0; exact hpd) (by intro y hy; cases hy)
    (by intro hs; rw [hns] at hs; cases hs)
  obtain ⟨e', hval, htg⟩ := hv1 d rfl
  subst e'
  dsimp only at h2
  rcases run_ite_ok.mp h2 with ⟨hc, _⟩ | ⟨_, h2⟩
  · simp at hc
  · obtain ⟨u, s2, hx, h3⟩ := run_bind_ok.mp h2
    have hpd1 := hpd.next sem1
    have hp2 := xGate_pre2 hx hp1 hpd1
    obtain ⟨ax, semx, _⟩ := xGate_sem2 (scope := scope) (σ0 := σ0) (wo := wo) (Q := CtlQ scope ρ s') hx hpd1.1
    have hc1 := cache_next2 hcache sem1 (by
      intro c h'
      simp [compKeys, show c ∈ compKeys inner from h']) hdis
    obtain ⟨rfl, hp3, sem3, hv3, _⟩ := ihs d' h3 hp2
      (fun p hp' c hc => hc1 p (by rw [← ax.expq]; exact hp') c hc) (hpd1.next semx)
    have tail := semx.trans' sem3
    refine ⟨rfl, hp3, ((sem1.monoQ (CtlQ.of_sem tail)).trans' tail).mono ?_ ?_ ?_, ?_,
      fun hwo _ => (htg hwo).of_sem tail⟩
    · rintro q _ (h' | (h' | h'))
      · cases h'; rfl
      · exact h'
      · exact h'
    · rintro c (h' | (h' | h'))
      · simp [compKeysList, compKeys, show c ∈ compKeys inner from h']
      · exact h'.elim
      · simp [compKeysList, show c ∈ compKeysList as from h']
    · rintro m (h' | (h' | h'))
      · exact ⟨h'.1, fun hm => h'.2.1 (tail.avail m hm)⟩
      · exact h'.elim
      · exact ⟨sem1.avail m (semx.avail m h'.1), h'.2⟩
    · rw [hv3, ax.cur_eq rfl σ0, hval]
      simp only [List.all_nil, Bool.xor_true, evalXor, BExp.eval]
      rw [bnot_xor, Bool.xor_assoc]

theorem xorSem2_cons {a : BExp} {as : List BExp} (hwf : wfExpW scope wo a = true) (hbad : xorArgBad a = false)
    (iha : ExprSem2 scope ρ σ0 wo a) (ihi : ExprSem2 scope ρ σ0 wo (stripNot a))
    (ihs : XorSem2 scope ρ σ0 wo as)
    (hdis : ∀ x ∈ compKeys a, ∀ y ∈ compKeysList as, (x == y) = false) :
    XorSem2 scope ρ σ0 wo (a :: as) := by
  intro d q s s' h hp hcache hpd
  cases a with
  | sym n =>
    unfold compileXorArgs at h
    obtain ⟨q0, s1, hl, h1⟩ := run_bind_ok.mp h
    obtain ⟨rfl, hq0, _⟩ := lookup_ok hl hp.good
    have hn : n ∈ scope := by simpa [wfExpW] using hwf
    have hk : Known scope n := Or.inl hn
    rcases run_ite_ok.mp h1 with ⟨hc, _⟩ | ⟨_, h1⟩
    · have : q0 = d := by simpa using hc
      exact absurd hq0 (this ▸ hpd.2 n hk)
    · obtain ⟨u, s2, hcx, h2⟩ := run_bind_ok.mp h1
      have hnav0 := hp.sym_notAvail hk hq0
      have hp2 := cx_pre2 hcx hp hpd hnav0
      have ac := cx_run hcx
      have hpd2 : Priv scope s2 d :=
        ⟨by unfold Avail; rw [ac.free, ac.nq]; exact hpd.1, by rw [ac.qmap]; exact hpd.2⟩
      obtain ⟨rfl, hp3, sem2, hv2, _⟩ := ihs d h2 hp2
        (fun p hp' c hc => hcache p (by rw [← ac.expq]; exact hp') c (by simp [compKeysList, compKeys, hc])) hpd2
      obtain ⟨_, semc, tgc⟩ := cx_sem2 (scope := scope) (σ0 := σ0) (wo := wo) (Q := CtlQ scope ρ s') hcx hpd.1
        (fun _ => Or.inr ⟨n, hk, sem2.qkeep n q0 hk (by rw [ac.qmap]; exact hq0), (hp.tbl n q0 hk hq0).2.2⟩)
      refine ⟨rfl, hp3, (semc.trans' sem2).mono ?_ ?_ ?_, ?_, fun _ _ => tgc.of_sem sem2⟩
      · rintro q _ (h' | h') <;> exact h'
      · rintro c (h' | h')
        · exact h'.elim
        · simp [compKeysList, show c ∈ compKeysList as from h']
      · rintro m (h' | h')
        · exact h'.elim
        · refine ⟨?_, h'.2⟩
          have := h'.1
          unfold Avail at this ⊢
          rw [ac.free, ac.nq] at this
          exact this
      · rw [hv2, ac.cur_eq rfl σ0]
        simp only [List.all_cons, List.all_nil, Bool.and_true, evalXor, BExp.eval]
        rw [(hp.tbl n q0 hk hq0).2.2, kval_scope hp.scopeOK hn, Bool.xor_assoc]
  | not inner =>
    cases inner with
    | sym n =>
      unfold compileXorArgs at h
      exact xorStep_sem2 iha ihs rfl hdis h hp hcache hpd
    | ff => simp [xorArgBad] at hbad
    | tt => simp [xorArgBad] at hbad
    | xor l => unfold compileXorArgs at h; exact xorNotStep_sem2 ihi ihs rfl hdis h hp hcache hpd
    | not l => unfold compileXorArgs at h; exact xorNotStep_sem2 ihi ihs rfl hdis h hp hcache hpd
    | and l => unfold compileXorArgs at h; exact xorNotStep_sem2 ihi ihs rfl hdis h hp hcache hpd
    | or l => unfold compileXorArgs at h; exact xorNotStep_sem2 ihi ihs rfl hdis h hp hcache hpd
    | ite x y z => simp [wfExpW] at hwf
    | imp x y => simp [wfExpW] at hwf
  | ff => simp [xorArgBad] at hbad
  | tt => simp [xorArgBad] at hbad
  | xor l => unfold compileXorArgs at h; exact xorStep_sem2 iha ihs rfl hdis h hp hcache hpd
  | and l => unfold compileXorArgs at h; exact xorStep_sem2 iha ihs rfl hdis h hp hcache hpd
  | or l => unfold compileXorArgs at h; exact xorStep_sem2 iha ihs rfl hdis h hp hcache hpd
  | ite x y z => simp [wfExpW] at hwf
  | imp x y => simp [wfExpW] at hwf

theorem exprSem2_xor {args : List BExp} (ih : XorSem2 scope ρ σ0 wo args) (hne : wo = false → args ≠ []) :
    ExprSem2 scope ρ σ0 wo (.xor args) := by
  intro dest sym a s s' h hp hcache hd hsym _
  unfold compileExpr at h
  dsimp only at h
  obtain ⟨r0, s1, hget, h1⟩ := run_bind_ok.mp h
  obtain ⟨rfl, rfl⟩ := expqGet?_miss hget (fun p hp' => hcache p hp' _ (by simp [compKeys]))
  dsimp only at h1
  have hsub : ∀ p ∈ s1.expq, ∀ c ∈ compKeysList args, (p.1 == c) = false :=
    fun p hp' c hc => hcache p hp' c (by simp [compKeys, hc])
  cases dest with
  | some d =>
    simp only [Option.isNone_some, Bool.false_eq_true, ↓reduceIte] at h1
    obtain ⟨d0, s2, hp0, h2⟩ := run_bind_ok.mp h1
    obtain ⟨rfl, rfl⟩ := run_pure_ok.mp hp0
    obtain ⟨d', s3, hx, h3⟩ := run_bind_ok.mp h2
    obtain ⟨rfl, rfl⟩ := run_pure_ok.mp h3
    obtain ⟨rfl, hp', sem1, hv, htg⟩ := ih d0 hx hp hsub (hd d0 rfl)
    refine ⟨hp', sem1.mono ?_ ?_ ?_, fun hn => (by cases hn), fun d' hd' => ?_⟩
    · rintro q _ h'; rw [h']
    · rintro c h'; simp [compKeys, show c ∈ compKeysList args from h']
    · rintro m h'; exact ⟨h'.1, h'.2, fun hn => by cases hn⟩
    · cases hd'
      exact ⟨rfl, by rw [hv]; simp [BExp.eval], fun hwo => htg hwo (hne hwo)⟩
  | none =>
    simp only [Option.isNone_none, ↓reduceIte] at h1
    obtain ⟨d, s2, hf, h2⟩ := run_bind_ok.mp h1
    obtain ⟨hp2, semf, hcf, hava, hnava, hanca⟩ := getFreeAncilla_sem2 (wo := wo) (Q := CtlQ scope ρ s') hf hp
    have hpd : Priv scope s2 d := ⟨hnava, fun n hk hq' => (hp2.tbl n d hk hq').2.1 hanca⟩
    obtain ⟨d', s3, hx, h3⟩ := run_bind_ok.mp h2
    obtain ⟨u, s4, hset, h4⟩ := run_bind_ok.mp h3
    obtain ⟨rfl, rfl⟩ := run_pure_ok.mp h4
    obtain ⟨rfl, hp3, sem1, hv, htg⟩ := ih d hx hp2 (by
      intro p hp' c hc
      rcases semf.keys p hp' with ⟨p0, hp0, e0⟩ | hk
      · rw [← e0]; exact hsub p0 hp0 c hc
      · exact hk.elim) hpd
    obtain ⟨hp4, sem4, hc4, hqc4⟩ := expqSet_sem2 (wo := wo) (Q := CtlQ scope ρ s') hset hp3
      (notAvail_lt (fun h' => hnava (sem1.avail _ h')))
    have tail4 := (sem1.monoQ (CtlQ.of_sem sem4)).trans' sem4
    have hnava' : ¬ Avail s' a := fun h' => hnava (tail4.avail a h')
    have hanc' : a ∈ s'.qc.anc := tail4.akeep a hanca
    refine ⟨hp4, (semf.trans' tail4).mono ?_ ?_ ?_, fun _ => ⟨Or.inr ⟨hava, hanc', fun hwo => (htg hwo (hne hwo)).of_sem sem4⟩, hnava', ?_, fun _ => hanc'⟩,
      fun d' hd' => by cases hd'⟩
    · rintro q hq' (h' | (h' | h'))
      · exact h'.elim
      · rcases hq' with hq' | hq'
        · exact absurd (h' ▸ hava) hq'
        · exact absurd (h' ▸ hq') hnava'
      · exact h'.elim
    · rintro c (h' | (h' | h'))
      · exact h'.elim
      · simp [compKeys, show c ∈ compKeysList args from h']
      · simp [compKeys, show c = BExp.xor args from h']
    · rintro m (h' | (h' | h'))
      · exact h'.elim
      · exact ⟨semf.avail m h'.1, fun hm => h'.2 (sem4.avail m hm), fun _ e => hnava (e ▸ h'.1)⟩
      · exact h'.elim
    · rw [hc4, hv, hcf, hp.zero a hava]; simp [BExp.eval]

/-! ### the induction -/

theorem distinct_cons_list2 {e : BExp} {l : List BExp} (h : Distinct (e :: compKeysList l)) :
    Distinct (compKeysList l) := (List.pairwise_cons.mp h).2

theorem distinct_split2 {a : BExp} {as : List BExp} (h : Distinct (compKeysList (a :: as))) :
    Distinct (compKeys a) ∧ Distinct (compKeysList as) ∧
      ∀ x ∈ compKeys a, ∀ y ∈ compKeysList as, (x == y) = false := by
  unfold Distinct at h
  rw [compKeysList, List.pairwise_append] at h
  exact h

theorem distinct_strip2 {a : BExp} (h : Distinct (compKeys a)) : Distinct (compKeys (stripNot a)) := by
  cases a with
  | not i =>
    show Distinct (compKeys i)
    exact distinct_tail (e := .not i) (by simpa [compKeys] using h)
  | _ => exact h

theorem wfExp_strip {a : BExp} (h : wfExpW scope wo a = true) : wfExpW scope wo (stripNot a) = true := by
  cases a <;> simp_all [stripNot, wfExpW]

theorem wf_or_cond {l : List BExp} (h : wfExpW scope wo (.or l) = true) :
    wfExpListW scope wo l = true ∧ (wo = false → l ≠ []) := by
  simp only [wfExpW, Bool.and_eq_true, Bool.or_eq_true, Bool.not_eq_true', List.isEmpty_eq_false_iff] at h
  refine ⟨h.1, fun hwo => ?_⟩
  rcases h.2 with h' | h'
  · rw [hwo] at h'; cases h'
  · exact h'

theorem wf_xor_cond {l : List BExp} (h : wfExpW scope wo (.xor l) = true) :
    wfExpListW scope wo l = true ∧ (∀ a ∈ l, xorArgBad a = false) ∧ (wo = false → l ≠ []) := by
  simp only [wfExpW, Bool.and_eq_true, Bool.or_eq_true, List.all_eq_true, Bool.not_eq_true',
    List.isEmpty_eq_false_iff] at h
  refine ⟨h.1.1, h.1.2, fun hwo => ?_⟩
  rcases h.2 with h' | h'
  · rw [hwo] at h'; cases h'
  · exact h'

theorem wf_cons {a : BExp} {as : List BExp} (h : wfExpListW scope wo (a :: as) = true) :
    wfExpW scope wo a = true ∧ wfExpListW scope wo as = true := by
  simpa [wfExpListW] using h

mutual
/-- **`compileExpr` on the widened classes**: the result qubit holds the value of the expression (or the
accumulator gets it xor-ed in); nothing outside the scratch space and the accumulator changes; the scratch
space stays zero -/
theorem exprSem2 : ∀ e : BExp, wfExpW scope wo e = true → Distinct (compKeys e) → ExprSem2 scope ρ σ0 wo e
  | .sym n => fun hwf _ => exprSem2_sym n (by simpa [wfExpW] using hwf)
  | .tt => fun _ _ => exprSem2_tt
  | .ff => fun _ _ => exprSem2_ff
  | .not a => fun hwf hd =>
    have hwf' : wfExpW scope wo a = true := by simpa [wfExpW] using hwf
    exprSem2_not (fun n hn => by subst hn; simpa [wfExpW] using hwf')
      (exprSem2 a hwf' (distinct_tail (by simpa [compKeys] using hd)))
  | .and args => fun hwf hd =>
    exprSem2_and (argsSem2 args (by simpa [wfExpW] using hwf)
      (distinct_cons_list2 (by simpa [compKeys] using hd)))
  | .or args => fun hwf hd =>
    exprSem2_or (argsSem2 args (wf_or_cond hwf).1 (distinct_cons_list2 (by simpa [compKeys] using hd)))
      (wf_or_cond hwf).2
  | .xor args => fun hwf hd =>
    exprSem2_xor (xorSem2 args (wf_xor_cond hwf).1 (wf_xor_cond hwf).2.1
      (distinct_cons_list2 (by simpa [compKeys] using hd))) (wf_xor_cond hwf).2.2
  | .ite _ _ _ => fun hwf _ => by simp [wfExpW] at hwf
  | .imp _ _ => fun hwf _ => by simp [wfExpW] at hwf
theorem argsSem2 : ∀ as : List BExp, wfExpListW scope wo as = true → Distinct (compKeysList as) →
      ArgsSem2 scope ρ σ0 wo as
  | [] => fun _ _ => argsSem2_nil
  | a :: as => fun hwf hd =>
    have hs := distinct_split2 hd
    argsSem2_cons (exprSem2 a (wf_cons hwf).1 hs.1) (argsSem2 as (wf_cons hwf).2 hs.2.1) hs.2.2
theorem xorSem2 : ∀ as : List BExp, wfExpListW scope wo as = true → (∀ x ∈ as, xorArgBad x = false) →
      Distinct (compKeysList as) → XorSem2 scope ρ σ0 wo as
  | [] => fun _ _ _ => xorSem2_nil
  | .not i :: as => fun hwf hb hd =>
    have hs := distinct_split2 hd
    xorSem2_cons (wf_cons hwf).1 (hb _ List.mem_cons_self) (exprSem2 (.not i) (wf_cons hwf).1 hs.1)
      (exprSem2 i (wfExp_strip (wf_cons hwf).1) (distinct_strip2 hs.1))
      (xorSem2 as (wf_cons hwf).2 (fun x hx => hb x (List.mem_cons_of_mem _ hx)) hs.2.1) hs.2.2
  | .sym n :: as => fun hwf hb hd =>
    have hs := distinct_split2 hd
    xorSem2_cons (wf_cons hwf).1 (hb _ List.mem_cons_self) (exprSem2 (.sym n) (wf_cons hwf).1 hs.1)
      (exprSem2 (.sym n) (wf_cons hwf).1 hs.1)
      (xorSem2 as (wf_cons hwf).2 (fun x hx => hb x (List.mem_cons_of_mem _ hx)) hs.2.1) hs.2.2
  | .xor l :: as => fun hwf hb hd =>
    have hs := distinct_split2 hd
    xorSem2_cons (wf_cons hwf).1 (hb _ List.mem_cons_self) (exprSem2 (.xor l) (wf_cons hwf).1 hs.1)
      (exprSem2 (.xor l) (wf_cons hwf).1 hs.1)
      (xorSem2 as (wf_cons hwf).2 (fun x hx => hb x (List.mem_cons_of_mem _ hx)) hs.2.1) hs.2.2
  | .and l :: as => fun hwf hb hd =>
    have hs := distinct_split2 hd
    xorSem2_cons (wf_cons hwf).1 (hb _ List.mem_cons_self) (exprSem2 (.and l) (wf_cons hwf).1 hs.1)
      (exprSem2 (.and l) (wf_cons hwf).1 hs.1)
      (xorSem2 as (wf_cons hwf).2 (fun x hx => hb x (List.mem_cons_of_mem _ hx)) hs.2.1) hs.2.2
  | .or l :: as => fun hwf hb hd =>
    have hs := distinct_split2 hd
    xorSem2_cons (wf_cons hwf).1 (hb _ List.mem_cons_self) (exprSem2 (.or l) (wf_cons hwf).1 hs.1)
      (exprSem2 (.or l) (wf_cons hwf).1 hs.1)
      (xorSem2 as (wf_cons hwf).2 (fun x hx => hb x (List.mem_cons_of_mem _ hx)) hs.2.1) hs.2.2
  | .ff :: as => fun _ hb _ => by have := hb .ff List.mem_cons_self; simp [xorArgBad] at this
  | .tt :: as => fun _ hb _ => by have := hb .tt List.mem_cons_self; simp [xorArgBad] at this
  | .ite _ _ _ :: as => fun hwf _ _ => by have := (wf_cons hwf).1; simp [wfExpW] at this
  | .imp _ _ :: as => fun hwf _ _ => by have := (wf_cons hwf).1; simp [wfExpW] at this
end

end QV.Compiler
