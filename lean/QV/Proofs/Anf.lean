import QV.Model.Anf
import QV.Proofs.Tools
/-! Helper lemmas for the ANF model (`QV/Model/Anf.lean`). -/
namespace QV.Anf
open QV QV.Tools

/-! ### lengths -/

theorem length_table (e : BExp) : ∀ (vs : List String) (ρ : Env), (table e vs ρ).length = 2 ^ vs.length
  | [], _ => rfl
  | v :: vs, ρ => by
    simp only [table, List.length_append, length_table e vs, List.length_cons, Nat.pow_succ]
    omega

theorem length_monos : ∀ vs : List String, (monos vs).length = 2 ^ vs.length
  | [] => rfl
  | v :: vs => by
    simp only [monos, List.length_append, List.length_map, length_monos vs, List.length_cons,
      Nat.pow_succ]
    omega

theorem length_xorL (a b : List Bool) (h : a.length = b.length) : (xorL a b).length = a.length := by
  simp [xorL, h]

theorem mobius_append (n : Nat) (t0 t1 : List Bool) (h0 : t0.length = 2 ^ n) :
    mobius (n + 1) (t0 ++ t1) = mobius n t0 ++ xorL (mobius n t0) (mobius n t1) := by
  simp only [mobius, List.take_left' h0, List.drop_left' h0]

theorem length_mobius : ∀ (n : Nat) (t : List Bool), t.length = 2 ^ n → (mobius n t).length = 2 ^ n
  | 0, t, h => by simpa [mobius] using h
  | n + 1, t, h => by
    have h1 : (t.take (2 ^ n)).length = 2 ^ n := by
      simp only [List.length_take, h, Nat.pow_succ]; omega
    have h2 : (t.drop (2 ^ n)).length = 2 ^ n := by
      simp only [List.length_drop, h, Nat.pow_succ]; omega
    have a := length_mobius n _ h1
    have b := length_mobius n _ h2
    simp only [mobius, List.length_append, length_xorL _ _ (a.trans b.symm), a, Nat.pow_succ]
    omega

/-! ### value of a polynomial given by monomials and coefficients -/

/-- xor over the monomials with coefficient 1 of the monomial's value -/
def pe (ρ : Env) : List (List String) → List Bool → Bool
  | m :: ms, c :: cs => Bool.xor (c && m.all ρ) (pe ρ ms cs)
  | _, _ => false

theorem evalAnd_syms (ρ : Env) : ∀ vs : List String, evalAnd ρ (vs.map .sym) = vs.all ρ
  | [] => rfl
  | v :: vs => by simp [evalAnd, BExp.eval, evalAnd_syms ρ vs]

theorem monoExp_eval (ρ : Env) (m : List String) : (monoExp m).eval ρ = m.all ρ := by
  match m with
  | [] => rfl
  | [v] => simp [monoExp, BExp.eval]
  | v :: w :: vs =>
    simp only [monoExp, BExp.eval]
    exact evalAnd_syms ρ _

theorem xorExp_eval (ρ : Env) (l : List BExp) : (xorExp l).eval ρ = evalXor ρ l := by
  match l with
  | [] => rfl
  | [m] => simp [xorExp, evalXor]
  | a :: b :: l => simp [xorExp, BExp.eval]

theorem evalXor_terms (ρ : Env) : ∀ (ms : List (List String)) (cs : List Bool),
    evalXor ρ ((terms ms cs).map monoExp) = pe ρ ms cs
  | [], _ => by simp [terms, evalXor, pe]
  | _ :: _, [] => by simp [terms, evalXor, pe]
  | m :: ms, c :: cs => by
    have ih := evalXor_terms ρ ms cs
    simp only [terms, List.map_map] at ih
    cases c <;> simp [terms, evalXor, pe, monoExp_eval, ih]

theorem pe_append (ρ : Env) : ∀ (ms1 ms2 : List (List String)) (cs1 cs2 : List Bool),
    ms1.length = cs1.length →
    pe ρ (ms1 ++ ms2) (cs1 ++ cs2) = Bool.xor (pe ρ ms1 cs1) (pe ρ ms2 cs2)
  | [], _, [], _, _ => by simp [pe]
  | [], _, _ :: _, _, h => by simp at h
  | _ :: _, _, [], _, h => by simp at h
  | m :: ms1, ms2, c :: cs1, cs2, h => by
    have ih := pe_append ρ ms1 ms2 cs1 cs2 (by simpa using h)
    simp [pe, ih]

theorem pe_map_cons (ρ : Env) (v : String) : ∀ (ms : List (List String)) (cs : List Bool),
    pe ρ (ms.map (v :: ·)) cs = (ρ v && pe ρ ms cs)
  | [], _ => by simp [pe]
  | _ :: _, [] => by simp [pe]
  | m :: ms, c :: cs => by
    have ih := pe_map_cons ρ v ms cs
    simp only [List.map_cons, pe, ih, List.all_cons]
    cases c <;> cases ρ v <;> simp

theorem pe_xorL (ρ : Env) : ∀ (ms : List (List String)) (a b : List Bool),
    a.length = b.length →
    pe ρ ms (xorL a b) = Bool.xor (pe ρ ms a) (pe ρ ms b)
  | [], _, _, _ => by simp [pe]
  | _ :: _, [], [], _ => by simp [pe, xorL]
  | _ :: _, [], _ :: _, h => by simp at h
  | _ :: _, _ :: _, [], h => by simp at h
  | m :: ms, x :: a, y :: b, h => by
    have ih := pe_xorL ρ ms a b (by simpa using h)
    simp only [xorL] at ih
    simp only [xorL, List.zipWith_cons_cons, pe, ih]
    cases x <;> cases y <;> cases m.all ρ <;> simp

/-! ### the assignment a row of the table stands for -/

/-- `ρ` with the variables `vs` set as in `σ` (as `table` sets them: the later variable last) -/
def ovr (σ : Env) : List String → Env → Env
  | [], ρ => ρ
  | v :: vs, ρ => ovr σ vs (upd ρ v (σ v))

theorem ovr_not_mem (σ : Env) (x : String) : ∀ (vs : List String) (ρ : Env), x ∉ vs → ovr σ vs ρ x = ρ x
  | [], _, _ => rfl
  | v :: vs, ρ, h => by
    have hx : x ≠ v := fun h' => h (by simp [h'])
    have hx' : x ∉ vs := fun h' => h (by simp [h'])
    rw [ovr, ovr_not_mem σ x vs _ hx']
    simp [upd, hx]

theorem ovr_mem (σ : Env) (x : String) : ∀ (vs : List String) (ρ : Env), x ∈ vs → ovr σ vs ρ x = σ x
  | [], _, h => by simp at h
  | v :: vs, ρ, h => by
    by_cases hx : x ∈ vs
    · rw [ovr, ovr_mem σ x vs _ hx]
    · have hv : x = v := by simpa [hx] using h
      rw [ovr, ovr_not_mem σ x vs _ hx]
      simp [upd, hv]

/-- the polynomial read off the transformed table takes, at `σ`, the value of `e` at the row `σ`
selects: for every variable list (duplicates allowed) and every base environment -/
theorem pe_mobius_table (e : BExp) (σ : Env) : ∀ (vs : List String) (ρ : Env),
    pe σ (monos vs) (mobius vs.length (table e vs ρ)) = e.eval (ovr σ vs ρ)
  | [], ρ => by simp [monos, mobius, table, pe, ovr]
  | v :: vs, ρ => by
    have hl0 := length_table e vs (upd ρ v false)
    have hl1 := length_table e vs (upd ρ v true)
    have hm0 := length_mobius _ _ hl0
    have hm1 := length_mobius _ _ hl1
    have i0 := pe_mobius_table e σ vs (upd ρ v false)
    have i1 := pe_mobius_table e σ vs (upd ρ v true)
    simp only [monos, table, List.length_cons]
    rw [mobius_append _ _ _ hl0, pe_append _ _ _ _ _ ((length_monos vs).trans hm0.symm),
      pe_map_cons, pe_xorL _ _ _ _ (hm0.trans hm1.symm), i0, i1, ovr]
    cases hv : σ v <;> simp

/-! ### the free symbols -/

theorem mem_dedupStrings (x : String) : ∀ l : List String, x ∈ dedupStrings l ↔ x ∈ l
  | [] => by simp [dedupStrings]
  | s :: ss => by
    have ih := mem_dedupStrings x ss
    simp only [dedupStrings]
    split
    · rename_i h
      have hs : s ∈ ss := by simpa using h
      rw [ih, List.mem_cons]
      constructor
      · exact Or.inr
      · rintro (rfl | h') <;> assumption
    · simp [ih]

theorem mem_vars (e : BExp) (x : String) : x ∈ vars e ↔ x ∈ e.syms := by
  unfold vars
  rw [(List.mergeSort_perm _ _).mem_iff, mem_dedupStrings]

theorem mem_monos : ∀ (vs : List String) (m : List String), m ∈ monos vs → ∀ x ∈ m, x ∈ vs
  | [], m, h => by
    simp only [monos, List.mem_singleton] at h
    subst h; simp
  | v :: vs, m, h => by
    simp only [monos, List.mem_append, List.mem_map] at h
    intro x hx
    rcases h with h | ⟨m', hm', rfl⟩
    · exact List.mem_cons_of_mem _ (mem_monos vs m h x hx)
    · rcases List.mem_cons.1 hx with rfl | hx'
      · simp
      · exact List.mem_cons_of_mem _ (mem_monos vs m' hm' x hx')

theorem mem_terms (ms : List (List String)) (cs : List Bool) (m : List String)
    (h : m ∈ terms ms cs) : m ∈ ms := by
  simp only [terms, List.mem_map, List.mem_filter] at h
  obtain ⟨p, ⟨hp, _⟩, rfl⟩ := h
  exact (List.of_mem_zip hp).1

theorem syms_monoExp (m : List String) : (monoExp m).syms = m := by
  match m with
  | [] => rfl
  | [v] => rfl
  | v :: w :: vs =>
    simp only [monoExp, BExp.syms]
    generalize v :: w :: vs = l
    induction l with
    | nil => rfl
    | cons a l ih => simp [symsList, BExp.syms, ih]

theorem syms_xorExp (l : List BExp) : ∀ x, x ∈ (xorExp l).syms ↔ x ∈ symsList l := by
  intro x
  match l with
  | [] => simp [xorExp, BExp.syms, symsList]
  | [m] => simp [xorExp, symsList]
  | a :: b :: l => simp [xorExp, BExp.syms]

theorem mem_symsList_map (x : String) : ∀ ts : List (List String),
    x ∈ symsList (ts.map monoExp) ↔ ∃ m ∈ ts, x ∈ m
  | [] => by simp [symsList]
  | t :: ts => by simp [symsList, syms_monoExp, mem_symsList_map x ts]

/-! ### sympy's rounds compute the transform by halves -/

theorem round_append : ∀ (l1 l2 : List (List Bool)), l1.length % 2 = 0 →
    round (l1 ++ l2) = round l1 ++ round l2
  | [], _, _ => by simp [round]
  | [_], _, h => by simp at h
  | a :: b :: l1, l2, h => by
    have ih := round_append l1 l2 (by simp only [List.length_cons] at h; omega)
    simp [round, ih]

theorem length_round : ∀ l : List (List Bool), (round l).length = l.length / 2
  | [] => rfl
  | [_] => by simp [round]
  | a :: b :: l => by
    simp only [round, List.length_cons, length_round l]
    omega

theorem rounds_succ' : ∀ (n : Nat) (c : List (List Bool)), rounds (n + 1) c = round (rounds n c)
  | 0, _ => rfl
  | n + 1, c => by
    rw [rounds, rounds_succ' n (round c)]
    rfl

theorem rounds_append : ∀ (n : Nat) (l1 l2 : List (List Bool)), l1.length = 2 ^ n →
    rounds n (l1 ++ l2) = rounds n l1 ++ rounds n l2
  | 0, _, _, _ => rfl
  | n + 1, l1, l2, h => by
    have he : l1.length % 2 = 0 := by rw [h, Nat.pow_succ]; omega
    have hr : (round l1).length = 2 ^ n := by rw [length_round, h, Nat.pow_succ]; omega
    simp only [rounds, round_append l1 l2 he, rounds_append n _ _ hr]

theorem rounds_singletons : ∀ (n : Nat) (t : List Bool), t.length = 2 ^ n →
    rounds n (t.map ([·])) = [mobius n t]
  | 0, t, h => by
    match t, h with
    | [x], _ => rfl
  | n + 1, t, h => by
    have h1 : (t.take (2 ^ n)).length = 2 ^ n := by
      simp only [List.length_take, h, Nat.pow_succ]; omega
    have h2 : (t.drop (2 ^ n)).length = 2 ^ n := by
      simp only [List.length_drop, h, Nat.pow_succ]; omega
    have ht : t = t.take (2 ^ n) ++ t.drop (2 ^ n) := (List.take_append_drop _ _).symm
    rw [rounds_succ']
    conv => lhs; rw [ht, List.map_append]
    rw [rounds_append n _ _ (by simpa using h1), rounds_singletons n _ h1, rounds_singletons n _ h2]
    simp [round, mobius]

end QV.Anf
