import QV.Proofs.Front4
/-! Soundness of `QV.Front.tr` w.r.t. `QV.Sem.semW`, continued: `and` / `or` (the list of operands). -/
namespace QV.Sem
open QV QV.Arith QV.Front

set_option linter.unusedSimpArgs false

/-- element-wise denotation of a list of translated values -/
def DenList (ρ : QV.Env) : List (Ty × Val) → List SVal → Prop
  | [], [] => True
  | x :: xs, sv :: svs => Den ρ x.1 x.2 sv ∧ DenList ρ xs svs
  | _, _ => False

theorem sound_list (ρ : QV.Env) (env : Front.Env) (σ : SEnv) (es : List PExp)
    (ih : ∀ e ∈ es, Sound ρ env σ e) :
    ∀ (s : St) (xs : List (Ty × Val)) (s' : St),
      (trList Quirks.none env es).run s = .ok (xs, s') →
      ∃ svs, semWList σ es = some svs ∧ DenList ρ xs svs := by
  induction es with
  | nil =>
    intro s xs s' h
    rw [trList, run_pure_ok] at h
    obtain ⟨rfl, _⟩ := h
    exact ⟨[], by simp [semWList], trivial⟩
  | cons e es ihes =>
    intro s xs s' h
    rw [trList] at h
    simp only [run_bind_ok, run_pure_ok] at h
    obtain ⟨⟨t1, v1⟩, s1, h1, xs', s2, h2, rfl, _⟩ := h
    obtain ⟨sv, hs, hd⟩ := ih e (by simp) _ _ _ _ h1
    obtain ⟨svs, hss, hds⟩ := ihes (fun e' he' => ih e' (by simp [he'])) _ _ _ h2
    exact ⟨sv :: svs, by simp [semWList, hs, hss], hd, hds⟩

/-- the first loop of `BoolOp`: collects the operands, each of which must be a single expression -/
theorem atoms_loop (xs : List (Ty × Val)) :
    ∀ (init : List BExp) (s : St) (es : List BExp) (s1 : St),
      (forIn xs init (fun (x : Ty × Val) (acc : List BExp) => (do
          let a ← (liftM (atomOf x.2) : M BExp)
          pure (ForInStep.yield (acc ++ [a])) : M (ForInStep (List BExp))))).run s = .ok (es, s1) →
      ∃ as, xs.map (·.2) = as.map Val.atom ∧ es = init ++ as := by
  induction xs with
  | nil =>
    intro init s es s1 h
    simp only [List.forIn_nil, run_pure_ok] at h
    exact ⟨[], rfl, by simp [h.1]⟩
  | cons x xs ih =>
    intro init s es s1 h
    simp only [List.forIn_cons, run_bind_ok, run_lift_ok, run_pure_ok] at h
    obtain ⟨_, _, ⟨a, _, ⟨ha, rfl⟩, rfl, rfl⟩, h2⟩ := h
    obtain ⟨as, h3, h4⟩ := ih _ _ _ _ h2
    refine ⟨a :: as, ?_, by simp [h4]⟩
    have : x.2 = Val.atom a := by
      cases hx : x.2 with
      | atom b => rw [hx] at ha; cases ha; rfl
      | list l => rw [hx] at ha; simp [atomOf, throw, throwThe, MonadExceptOf.throw] at ha
    simp [this, h3]

theorem boolFold_spec (ρ : QV.Env) (isAnd : Bool) (as : List BExp) :
    ∀ (xs : List (Ty × Val)) (svs : List SVal), DenList ρ xs svs →
      xs.map (·.2) = as.map Val.atom → as ≠ [] →
      boolFold isAnd svs = some ((unfoldBool isAnd as).eval ρ) := by
  induction as with
  | nil => intro _ _ _ _ h; exact absurd rfl h
  | cons a as ih =>
    intro xs svs hd hm _
    cases xs with
    | nil => simp at hm
    | cons x xs =>
      cases svs with
      | nil => exact absurd hd (by simp [DenList])
      | cons sv svs =>
        obtain ⟨hd1, hd2⟩ := hd
        simp only [List.map_cons, List.cons.injEq] at hm
        obtain ⟨hx, hm'⟩ := hm
        obtain ⟨t1, v1⟩ := x
        simp only at hx hd1
        subst hx
        cases hd1
        cases as with
        | nil =>
          cases xs with
          | nil =>
            cases svs with
            | nil => simp [boolFold, unfoldBool]
            | cons _ _ => exact absurd hd2 (by simp [DenList])
          | cons _ _ => simp at hm'
        | cons a2 as2 =>
          have ih' := ih xs svs hd2 hm' (by simp)
          cases xs with
          | nil => simp at hm'
          | cons x2 xs2 =>
            cases svs with
            | nil => exact absurd hd2 (by simp [DenList])
            | cons sv2 svs2 =>
              have hb : boolFold isAnd (SVal.bool (a.eval ρ) :: sv2 :: svs2)
                  = (boolFold isAnd (sv2 :: svs2)).map
                      fun r => if isAnd then a.eval ρ && r else a.eval ρ || r := by
                rw [boolFold]
                · intro h; cases h
              rw [hb, ih']
              cases isAnd <;> simp [unfoldBool, BExp.eval, evalAnd, evalOr]

theorem sound_boolop (ρ : QV.Env) (env : Front.Env) (σ : SEnv) (isAnd : Bool) (vs : List PExp)
    (ih : ∀ e ∈ vs, Sound ρ env σ e) : Sound ρ env σ (.boolop isAnd vs) := by
  intro s t v s' h
  rw [tr] at h
  simp only [run_bind_ok] at h
  obtain ⟨xs, s1, h1, es, s2, h2, _, s3, _, h4⟩ := h
  obtain ⟨svs, hss, hds⟩ := sound_list ρ env σ vs ih _ _ _ h1
  obtain ⟨as, h5, h6⟩ := atoms_loop xs [] s1 es s2 h2
  simp only [List.nil_append] at h6
  rw [h6] at h4
  simp only [run_ite_ok, run_bind_ok, run_throw_ok, false_and, exists_false, and_false, false_or,
    run_pure_ok] at h4
  obtain ⟨hne, h7, _⟩ := h4
  cases h7
  have hne' : as ≠ [] := by
    intro h0; subst h0; simp at hne
  have := boolFold_spec ρ isAnd as xs svs hds h5 hne'
  exact ⟨.bool ((unfoldBool isAnd as).eval ρ), by simp [semW, hss, this], Den.mk_bool _ _ rfl⟩

end QV.Sem
