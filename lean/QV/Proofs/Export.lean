import QV.Model.Export
/-! Helper lemmas for C13 (exporters). -/
namespace QV.Export
open QV

/-! ## the exporter loop -/

def Step.toOption {β : Type} : Step β → Option β
  | .emit b => some b
  | _ => none

theorem runSteps_ok_eq {α β : Type} (f : α → Step β) :
    ∀ (gs : List α) (out : List β), runSteps f gs = .ok out →
      out = gs.filterMap (fun g => (f g).toOption) ∧ ∀ g ∈ gs, ∀ m, f g ≠ .fail m := by
  intro gs
  induction gs with
  | nil =>
    intro out h
    simp [runSteps] at h
    subst h
    simp
  | cons a as ih =>
    intro out h
    unfold runSteps at h
    split at h
    · cases h
    · rename_i hs
      obtain ⟨h1, h2⟩ := ih out h
      refine ⟨?_, ?_⟩
      · subst h1; simp [hs, Step.toOption]
      · intro g hg m
        rcases List.mem_cons.mp hg with rfl | hg
        · simp [hs]
        · exact h2 g hg m
    · rename_i b hs
      split at h
      · cases h
      · rename_i bs hr
        cases h
        obtain ⟨h1, h2⟩ := ih bs hr
        refine ⟨?_, ?_⟩
        · subst h1; simp [hs, Step.toOption]
        · intro g hg m
          rcases List.mem_cons.mp hg with rfl | hg
          · simp [hs]
          · exact h2 g hg m

theorem runSteps_total {α β : Type} (f : α → Step β) :
    ∀ (gs : List α), (∀ g ∈ gs, ∀ m, f g ≠ .fail m) → ∃ out, runSteps f gs = .ok out := by
  intro gs
  induction gs with
  | nil => intro _; exact ⟨[], rfl⟩
  | cons a as ih =>
    intro h
    obtain ⟨out, ho⟩ := ih (fun g hg => h g (List.mem_cons_of_mem _ hg))
    unfold runSteps
    cases hs : f a with
    | fail m => exact absurd hs (h a (List.mem_cons_self ..) m)
    | skip => exact ⟨out, by simpa using ho⟩
    | emit b => exact ⟨b :: out, by simp [ho]⟩

/-- what one loop iteration must satisfy: an emitted call reads as the gate's operation, and
only gates without an operation (nops) are skipped -/
def Step.reads {β γ : Type} (ob : β → Option γ) (tgt : Option γ) : Step β → Prop
  | .emit b => ob b = tgt
  | .skip => tgt = none
  | .fail _ => True

theorem filterMap_congr_mem {α β : Type} {f g : α → Option β} :
    ∀ (l : List α), (∀ a ∈ l, f a = g a) → l.filterMap f = l.filterMap g
  | [], _ => rfl
  | a :: l, h => by
    have ih := filterMap_congr_mem l (fun x hx => h x (List.mem_cons_of_mem _ hx))
    simp [List.filterMap_cons, h a (List.mem_cons_self ..), ih]

/-- the translation scheme shared by the three object exporters: if every emitted call reads as
the gate's operation and only nop gates are skipped, the exported list reads as the circuit -/
theorem runSteps_translate {α β γ : Type} (f : α → Step β) (oa : α → Option γ) (ob : β → Option γ)
    (gs : List α) (out : List β)
    (hstep : ∀ g ∈ gs, (f g).reads ob (oa g))
    (h : runSteps f gs = .ok out) : out.filterMap ob = gs.filterMap oa := by
  induction gs generalizing out with
  | nil =>
    simp [runSteps] at h
    subst h
    simp
  | cons a as ih =>
    have ha := hstep a (List.mem_cons_self ..)
    have hrest := fun g hg => hstep g (List.mem_cons_of_mem _ hg)
    unfold runSteps at h
    split at h
    · cases h
    · rename_i hs
      simp [hs, Step.reads] at ha
      simp [List.filterMap_cons, ha, ih out hrest h]
    · rename_i b hs
      simp [hs, Step.reads] at ha
      split at h
      · cases h
      · rename_i bs hr
        cases h
        simp [List.filterMap_cons, ha, ih bs hrest hr]

/-! ## per-gate readings -/

theorem dropLast_getLast {α : Type} : ∀ (l : List α) (t : α), l.getLast? = some t →
    l.dropLast ++ [t] = l ∧ l.dropLast.length + 1 = l.length
  | [], _, h => by simp at h
  | [a], t, h => by simp at h; simp [h]
  | a :: b :: l, t, h => by
    have := dropLast_getLast (b :: l) t (by simpa [List.getLast?_cons_cons] using h)
    simp at this ⊢
    exact this

theorem gateWF_len {fv : FloatOf} {n : Nat} {g : AGate} (h : gateWF fv n g = true) :
    g.wires.length = g.cls.nQubits := by
  simp [gateWF] at h
  exact h.1.1

theorem gateWF_param {fv : FloatOf} {n : Nat} {g : AGate} (h : gateWF fv n g = true)
    {b : Base} {k : Nat} (hk : kind g.cls = some (b, k)) :
    (takesParam b = false → g.param = .none) ∧
    (takesParam b = true → ∃ s, g.param = .lit s ∧ (fv s).isSome = true) := by
  simp [gateWF, hk] at h
  obtain ⟨_, h⟩ := h
  constructor
  · intro hb; simp [hb] at h; exact h
  · intro hb
    simp [hb] at h
    cases hp : g.param with
    | none => simp [hp] at h
    | qft a b => simp [hp] at h
    | lit s => simp [hp] at h; exact ⟨s, rfl, h⟩

theorem isMCXg_kind {cls : GClass} (h : isMCXg cls = true) :
    ∃ k, kind cls = some (.X, k) ∧ cls.nQubits = k + 1 := by
  cases cls <;> simp [isMCXg] at h
  case MCX n => exact ⟨n, rfl, rfl⟩
  case MCtrl inner n =>
    subst h
    have : Base.ofName "X" = some .X := by decide
    exact ⟨n, by simp [kind, this], rfl⟩

theorem isMCZg_kind {cls : GClass} (h : isMCZg cls = true) :
    ∃ k, kind cls = some (.Z, k) ∧ cls.nQubits = k + 1 := by
  cases cls <;> simp [isMCZg] at h
  case MCtrl inner n =>
    subst h
    have : Base.ofName "Z" = some .Z := by decide
    exact ⟨n, by simp [kind, this], rfl⟩

theorem isNop_kind {cls : GClass} (h : cls.isNop = true) : kind cls = none := by
  cases cls <;> simp [GClass.isNop] at h <;> rfl

theorem qiskitMethod_kind {cls : GClass} {bn : Base × Nat}
    (h : qiskitMethod (pyClassLower cls) = some bn) : kind cls = some bn := by
  cases cls <;> simp [pyClassLower, qiskitMethod] at h <;> simp [kind, ← h]

theorem qiskitStep_op (q : Quirks) (fv : FloatOf) (gm : Bool) (n : Nat) (g : AGate)
    (hwf : gateWF fv n g = true) :
    match qiskitStep q fv gm g with
    | .emit b => b.op = gateOp g
    | .skip => gateOp g = none
    | .fail _ => True := by
  have hlen := gateWF_len hwf
  unfold qiskitStep
  by_cases hx : isMCXg g.cls = true
  · simp only [hx, ↓reduceIte]
    obtain ⟨k, hk, hq⟩ := isMCXg_kind hx
    have hp := (gateWF_param hwf hk).1 rfl
    cases ht : g.wires.getLast? with
    | none => trivial
    | some t =>
      obtain ⟨h1, h2⟩ := dropLast_getLast _ _ ht
      simp [QkCall.op, gateOp, hk, h1, hp]
      omega
  simp only [hx, ↓reduceIte]
  by_cases hz : isMCZg g.cls = true
  · simp only [hz, ↓reduceIte]
    obtain ⟨k, hk, hq⟩ := isMCZg_kind hz
    have hp := (gateWF_param hwf hk).1 rfl
    simp [QkCall.op, gateOp, hk, hp]
    omega
  simp only [hz, ↓reduceIte]
  by_cases hb : g.cls = GClass.Barrier ∧ (!gm) = true
  · simp only [hb, ↓reduceIte]
    simp [gateOp, hb.1, kind, QkCall.op]
  simp only [hb, ↓reduceIte]
  by_cases hn : g.cls.isNop = true
  · simp [hn, gateOp, isNop_kind hn]
  simp only [hn, ↓reduceIte]
  cases hq : qiskitMethod (pyClassLower g.cls) with
  | none => simp
  | some bn =>
    obtain ⟨b, k⟩ := bn
    have hk := qiskitMethod_kind hq
    have hp := gateWF_param hwf hk
    simp only [Option.isSome_some, ↓reduceIte]
    by_cases hr : (QkCall.meth (pyClassLower g.cls) (if hasParam q fv g.param = true then some g.param else none) g.wires).raises = true
    · simp [hr]
    · simp only [hr]
      simp [QkCall.raises, QkCall.op, hq] at hr
      simp [QkCall.op, hq, hr, gateOp, hk]
      by_cases hh : hasParam q fv g.param = true
      · simp [hh]
      · simp [hh] at hr ⊢
        exact (hp.1 hr.2).symm

theorem cirqAttr_kind {cls : GClass} {bn : Base × Nat}
    (h : cirqAttr (cirqName cls) = some bn) : kind cls = some bn := by
  cases cls <;> simp [cirqName, cirqAttr] at h <;> simp [kind, ← h]

theorem cirqAttr_noParam {name : Text} {bn : Base × Nat}
    (h : cirqAttr name = some bn) : takesParam bn.1 = false := by
  unfold cirqAttr at h
  repeat' split at h
  all_goals first | (cases h; rfl) | cases h

theorem cirqStep_op (q : Quirks) (fv : FloatOf) (n : Nat) (g : AGate)
    (hwf : gateWF fv n g = true) :
    match cirqStep q g with
    | .emit b => b.op = gateOp g
    | .skip => gateOp g = none
    | .fail _ => True := by
  have hlen := gateWF_len hwf
  unfold cirqStep
  by_cases hx : isMCXg g.cls = true
  · simp only [hx, ↓reduceIte]
    obtain ⟨k, hk, hq⟩ := isMCXg_kind hx
    have hp := (gateWF_param hwf hk).1 rfl
    simp [CqOp.op, gateOp, hk, hp]
    omega
  simp only [hx]
  by_cases hz : isMCZg g.cls = true
  · simp only [hz, ↓reduceIte]
    obtain ⟨k, hk, hq⟩ := isMCZg_kind hz
    have hp := (gateWF_param hwf hk).1 rfl
    simp [CqOp.op, gateOp, hk, hp]
    omega
  simp only [hz]
  by_cases hs : g.cls = GClass.Swap
  · simp only [hs, ↓reduceIte]
    have hk : kind g.cls = some (.Swap, 0) := by rw [hs]; rfl
    have hp := (gateWF_param hwf hk).1 rfl
    rw [hs] at hlen
    match hw : g.wires, hlen with
    | [a, b], _ => simp [CqOp.op, gateOp, hs, kind, hp, hw]
  simp only [hs]
  by_cases hc : g.cls = GClass.CP
  · simp only [hc, ↓reduceIte]
    have hk : kind g.cls = some (.P, 1) := by rw [hc]; rfl
    rw [hc] at hlen
    match hw : g.wires, hlen with
    | [a, b], _ =>
      by_cases hp : g.param = Param.none
      · simp [hp]
      · simp [CqOp.op, gateOp, hc, kind, hp, hw]
  simp only [hc]
  by_cases hn : g.cls.isNop = true ∧ (!q.cirqNopRaises) = true
  · simp [hn, gateOp, isNop_kind hn.1]
  simp only [hn]
  cases hq : cirqAttr (cirqName g.cls) with
  | none => simp
  | some bn =>
    obtain ⟨b, k⟩ := bn
    have hk := cirqAttr_kind hq
    have hp := gateWF_param hwf hk
    simp only [Option.isSome_some, ↓reduceIte]
    by_cases hr : (CqOp.named (cirqName g.cls) g.wires).op.isNone = true
    · simp [hr]
    · simp only [hr]
      simp [CqOp.op, hq] at hr
      simp [CqOp.op, hq, hr, gateOp, hk]
      exact (hp.1 (cirqAttr_noParam hq)).symm

theorem sympyStep_op (fv : FloatOf) (n : Nat) (g : AGate)
    (hwf : gateWF fv n g = true) :
    match sympyStep g with
    | .emit b => b.op = gateOp g
    | .skip => gateOp g = none
    | .fail _ => True := by
  have hlen := gateWF_len hwf
  obtain ⟨cls, wires, param, gid⟩ := g
  have hmcx : ∀ k, kind cls = some (.X, k) → cls.nQubits = k + 1 →
      match sympyMcx wires with
      | .emit b => b.op = gateOp ⟨cls, wires, param, gid⟩
      | .skip => gateOp ⟨cls, wires, param, gid⟩ = none
      | .fail _ => True := by
    intro k hk hq
    have hp := (gateWF_param hwf hk).1 rfl
    unfold sympyMcx
    cases ht : wires.getLast? with
    | none => trivial
    | some t =>
      obtain ⟨h1, h2⟩ := dropLast_getLast _ _ ht
      by_cases he : wires.dropLast = []
      · simp [he]
      · simp at hp hlen
        simp [he, SyGate.op, gateOp, hk, h1, hp]
        omega
  cases cls
  case CCX => exact hmcx 2 rfl rfl
  case MCX k => exact hmcx k rfl rfl
  case X =>
    have hp := (gateWF_param hwf (b := .X) (k := 0) rfl).1 rfl
    simp [GClass.nQubits] at hlen hp
    match wires, hlen with
    | [w], _ => simp [sympyStep, gateOp, kind, SyGate.op, hp]
  case H =>
    have hp := (gateWF_param hwf (b := .H) (k := 0) rfl).1 rfl
    simp [GClass.nQubits] at hlen hp
    match wires, hlen with
    | [w], _ => simp [sympyStep, gateOp, kind, SyGate.op, hp]
  case CX =>
    have hp := (gateWF_param hwf (b := .X) (k := 1) rfl).1 rfl
    simp [GClass.nQubits] at hlen hp
    match wires, hlen with
    | [a, b], _ => simp [sympyStep, gateOp, kind, SyGate.op, hp]
  case Swap =>
    have hp := (gateWF_param hwf (b := .Swap) (k := 0) rfl).1 rfl
    simp [GClass.nQubits] at hlen hp
    match wires, hlen with
    | [a, b], _ => simp [sympyStep, gateOp, kind, SyGate.op, hp]
  all_goals simp [sympyStep, gateOp, kind]

/-! ## reading back the QASM text -/

theorem splitOn_noSep (c : Char) : ∀ (t : Text), c ∉ t → splitOn c t = [t]
  | [], _ => rfl
  | x :: xs, h => by
    have hx : x ≠ c := fun e => h (by simp [e])
    have ih := splitOn_noSep c xs (fun m => h (List.mem_cons_of_mem _ m))
    simp [splitOn, hx, ih]

theorem splitOn_append (c : Char) : ∀ (t rest : Text), c ∉ t →
    splitOn c (t ++ c :: rest) = t :: splitOn c rest
  | [], rest, _ => by simp [splitOn]
  | x :: xs, rest, h => by
    have hx : x ≠ c := fun e => h (by simp [e])
    have ih := splitOn_append c xs rest (fun m => h (List.mem_cons_of_mem _ m))
    simp [splitOn, hx, ih]

theorem splitOn_ne_nil (c : Char) : ∀ t : Text, splitOn c t ≠ []
  | [] => by simp [splitOn]
  | x :: xs => by
    by_cases hx : x = c
    · simp [splitOn, hx]
    · simp only [splitOn, hx, ↓reduceIte]
      cases splitOn c xs <;> simp

theorem joinWith_splitOn (c : Char) : ∀ (t : Text), splitHead.joinWith c (splitOn c t) = t
  | [] => rfl
  | x :: xs => by
    have ih := joinWith_splitOn c xs
    by_cases hx : x = c
    · subst hx
      simp only [splitOn, ↓reduceIte]
      cases hs : splitOn x xs with
      | nil => exact absurd hs (splitOn_ne_nil _ _)
      | cons a as => rw [hs] at ih; simp [splitHead.joinWith, ih]
    · simp only [splitOn, hx, ↓reduceIte]
      cases hs : splitOn c xs with
      | nil => exact absurd hs (splitOn_ne_nil _ _)
      | cons a as =>
        rw [hs] at ih
        cases as with
        | nil => simp [splitHead.joinWith] at ih ⊢; exact ih
        | cons b bs => simp [splitHead.joinWith] at ih ⊢; exact ih

/-- tokens separated by single spaces are read back -/
theorem splitOn_joinSp : ∀ (ts : List Text), ts ≠ [] → (∀ t ∈ ts, ' ' ∉ t) →
    splitOn ' ' (joinSp ts) = ts
  | [], h, _ => absurd rfl h
  | [t], _, h => by simpa [joinSp] using splitOn_noSep ' ' t (h t (by simp))
  | t :: u :: ts, _, h => by
    have ih := splitOn_joinSp (u :: ts) (by simp) (fun x hx => h x (List.mem_cons_of_mem _ hx))
    simp only [joinSp]
    rw [splitOn_append ' ' t _ (h t (by simp)), ih]

theorem tokenOK_spec {t : Text} (h : tokenOK t = true) :
    t ≠ [] ∧ ' ' ∉ t ∧ '\n' ∉ t ∧ '(' ∉ t := by
  simp [tokenOK, List.all_eq_true] at h
  refine ⟨by intro e; simp [e] at h, ?_, ?_, ?_⟩ <;> intro hm <;> have := h.2 _ hm <;> simp at this

theorem ptextOK_spec {pt : Text} (h : ptextOK (some pt) = true) : ' ' ∉ pt ∧ '\n' ∉ pt := by
  simp [ptextOK, List.all_eq_true] at h
  refine ⟨?_, ?_⟩ <;> intro hm <;> have := h _ hm <;> simp at this

theorem parseLine_render (l : QLine) (h : lineOK l = true) : parseLine l.render = some l := by
  obtain ⟨gname, ptext, args⟩ := l
  simp [lineOK] at h
  obtain ⟨⟨⟨hg, hp⟩, ha⟩, hargs⟩ := h
  obtain ⟨_, hg1, _, hg3⟩ := tokenOK_spec hg
  have hsp : splitOn ' ' (joinSp args) = args :=
    splitOn_joinSp args (by intro e; simp [e] at ha) (fun t ht => (tokenOK_spec (hargs t ht)).2.1)
  cases ptext with
  | none =>
    have h1 : splitOn ' ' (gname ++ ' ' :: joinSp args) = gname :: args := by
      rw [splitOn_append ' ' gname _ hg1, hsp]
    simp [QLine.render, parseLine, h1, splitHead, splitOn_noSep '(' gname hg3]
  | some pt =>
    obtain ⟨hp1, _⟩ := ptextOK_spec hp
    have hh : ' ' ∉ gname ++ '(' :: pt ++ [')'] := by
      simp; exact ⟨hg1, hp1⟩
    have h1 : splitOn ' ' ((gname ++ '(' :: pt ++ [')']) ++ ' ' :: joinSp args) = (gname ++ '(' :: pt ++ [')']) :: args := by
      rw [splitOn_append ' ' _ _ hh, hsp]
    have h2 : splitOn '(' (gname ++ '(' :: (pt ++ [')'])) = gname :: splitOn '(' (pt ++ [')']) :=
      splitOn_append '(' gname _ hg3
    have h3 := joinWith_splitOn '(' (pt ++ [')'])
    have h4 : splitHead (gname ++ '(' :: pt ++ [')']) = (gname, some pt) := by
      have e : gname ++ '(' :: pt ++ [')'] = gname ++ '(' :: (pt ++ [')']) := by simp
      rw [e]
      unfold splitHead
      rw [h2]
      cases hs : splitOn '(' (pt ++ [')']) with
      | nil => exact absurd hs (splitOn_ne_nil _ _)
      | cons a as =>
        rw [hs] at h3
        simp [h3]
    have e : gname ++ '(' :: (pt ++ ')' :: ' ' :: joinSp args) =
        (gname ++ '(' :: pt ++ [')']) ++ ' ' :: joinSp args := by simp
    simp only [QLine.render, parseLine, List.append_assoc, List.cons_append, List.nil_append]
    rw [e, h1]
    have e2 : gname ++ '(' :: pt ++ [')'] = gname ++ '(' :: (pt ++ [')']) := by simp
    rw [e2] at h4
    simp [h4]

theorem render_ne_close (l : QLine) : l.render ≠ ['}'] := by simp [QLine.render]

theorem parseBody_render : ∀ (ls : List QLine) (tail : List Text), (∀ l ∈ ls, lineOK l = true) →
    parseBody (ls.map QLine.render ++ ['}'] :: tail) = some ls
  | [], tail, _ => by simp [parseBody]
  | l :: ls, tail, h => by
    have ih := parseBody_render ls tail (fun x hx => h x (List.mem_cons_of_mem _ hx))
    simp [parseBody, render_ne_close, parseLine_render l (h l (by simp)), ih]

theorem not_mem_joinSp (c : Char) (hc : c ≠ ' ') : ∀ (ts : List Text), (∀ t ∈ ts, c ∉ t) → c ∉ joinSp ts
  | [], _ => by simp [joinSp]
  | [t], h => by simpa [joinSp] using h t (by simp)
  | t :: u :: ts, h => by
    have ih := not_mem_joinSp c hc (u :: ts) (fun x hx => h x (List.mem_cons_of_mem _ hx))
    have ht := h t (by simp)
    simp only [joinSp, List.mem_append, List.mem_cons]
    rintro (h1 | h1 | h1)
    · exact ht h1
    · exact hc h1
    · exact ih h1

theorem render_noNewline (l : QLine) (h : lineOK l = true) : '\n' ∉ l.render := by
  obtain ⟨gname, ptext, args⟩ := l
  simp [lineOK] at h
  obtain ⟨⟨⟨hg, hp⟩, _⟩, hargs⟩ := h
  obtain ⟨_, _, hg2, _⟩ := tokenOK_spec hg
  have hj := not_mem_joinSp '\n' (by decide) args (fun t ht => (tokenOK_spec (hargs t ht)).2.2.1)
  cases ptext with
  | none => simp [QLine.render, hg2, hj]
  | some pt =>
    obtain ⟨_, hp2⟩ := ptextOK_spec hp
    simp [QLine.render, hg2, hj, hp2]

theorem splitOn_renderLines : ∀ (ls : List QLine) (rest : Text), (∀ l ∈ ls, lineOK l = true) →
    splitOn '\n' (renderLines ls ++ rest) = ls.map QLine.render ++ splitOn '\n' rest
  | [], rest, _ => by simp [renderLines]
  | l :: ls, rest, h => by
    have ih := splitOn_renderLines ls rest (fun x hx => h x (List.mem_cons_of_mem _ hx))
    have hl := render_noNewline l (h l (by simp))
    simp only [renderLines, List.append_assoc, List.cons_append, List.map_cons]
    rw [splitOn_append '\n' _ _ hl, ih]

theorem joinSp_concat : ∀ (ts : List Text) (t : Text), ts ≠ [] → joinSp ts ++ ' ' :: t = joinSp (ts ++ [t])
  | [], _, h => absurd rfl h
  | [a], t, _ => by simp [joinSp]
  | a :: b :: ts, t, _ => by
    have ih := joinSp_concat (b :: ts) t (by simp)
    simp only [joinSp, List.cons_append, List.append_assoc] at ih ⊢
    rw [ih]

/-- the header line `gate <name> <formals> {` is read back -/
theorem header_tokens (name : Text) (formals : List Text) (hn : tokenOK name = true)
    (hf : ∀ f ∈ formals, tokenOK f = true) :
    (splitOn ' ' ("gate ".toList ++ name ++ ' ' :: joinSp formals ++ " {".toList)).filter (· ≠ []) =
      "gate".toList :: name :: (formals ++ [['{']]) := by
  obtain ⟨hn0, hn1, _, _⟩ := tokenOK_spec hn
  have e : "gate ".toList ++ name ++ ' ' :: joinSp formals ++ " {".toList =
      ['g','a','t','e'] ++ ' ' :: (name ++ ' ' :: (joinSp formals ++ ' ' :: ['{'])) := by
    have e1 : "gate ".toList = ['g','a','t','e',' '] := by decide
    have e2 : " {".toList = [' ', '{'] := by decide
    rw [e1, e2]; simp
  have eg : "gate".toList = ['g','a','t','e'] := by decide
  rw [e, eg, splitOn_append ' ' _ _ (by decide), splitOn_append ' ' _ _ hn1]
  have htail : (splitOn ' ' (joinSp formals ++ ' ' :: ['{'])).filter (· ≠ []) = formals ++ [['{']] := by
    cases formals with
    | nil => simp [joinSp, splitOn]
    | cons f fs =>
      rw [joinSp_concat (f :: fs) ['{'] (by simp)]
      have hall : ∀ t ∈ (f :: fs) ++ [['{']], ' ' ∉ t ∧ t ≠ [] := by
        intro t ht
        rcases List.mem_append.mp ht with h | h
        · exact ⟨(tokenOK_spec (hf t h)).2.1, (tokenOK_spec (hf t h)).1⟩
        · simp at h; subst h; simp
      rw [splitOn_joinSp _ (by simp) (fun t ht => (hall t ht).1)]
      apply List.filter_eq_self.mpr
      intro t ht
      simpa using (hall t ht).2
  simp [hn0]
  simpa using htail

theorem parseDecl_renderGate (name : Text) (formals : List Text) (body : List QLine)
    (hn : tokenOK name = true) (hf : ∀ f ∈ formals, tokenOK f = true)
    (hb : ∀ l ∈ body, lineOK l = true) :
    parseDecl (renderGate name formals body) = some { name := name, formals := formals, body := body } := by
  have hl0 : '\n' ∉ "gate ".toList ++ name ++ ' ' :: joinSp formals ++ " {".toList := by
    have e1 : "gate ".toList = ['g','a','t','e',' '] := by decide
    have e2 : " {".toList = [' ', '{'] := by decide
    have := not_mem_joinSp '\n' (by decide) formals (fun t ht => (tokenOK_spec (hf t ht)).2.2.1)
    rw [e1, e2]
    simp [(tokenOK_spec hn).2.2.1, this]
  have hs : splitOn '\n' (renderGate name formals body) =
      ("gate ".toList ++ name ++ ' ' :: joinSp formals ++ " {".toList) ::
        (body.map QLine.render ++ [['}'], [], []]) := by
    unfold renderGate
    rw [splitOn_append '\n' _ _ hl0, splitOn_renderLines body _ hb]
    simp [splitOn]
  unfold parseDecl
  rw [hs]
  simp only []
  rw [header_tokens name formals hn hf]
  have hpb := parseBody_render body [[], []] hb
  simp [hpb]

theorem indexOfName_get : ∀ (l : List Text) (i : Nat) (h : i < l.length), l.Nodup →
    indexOfName l l[i] = some i
  | [], i, h, _ => by simp at h
  | f :: fs, 0, _, _ => by simp [indexOfName]
  | f :: fs, i + 1, h, hnd => by
    have hnd' := List.nodup_cons.mp hnd
    have hi : i < fs.length := by simpa using h
    have ih := indexOfName_get fs i hi hnd'.2
    have hne : f ≠ fs[i] := fun e => hnd'.1 (e ▸ List.getElem_mem hi)
    simp [indexOfName, hne, ih]

theorem qiskitStep_reads (q : Quirks) (fv : FloatOf) (gm : Bool) (n : Nat) (g : AGate)
    (hwf : gateWF fv n g = true) : (qiskitStep q fv gm g).reads QkCall.op (gateOp g) := by
  have := qiskitStep_op q fv gm n g hwf
  cases h : qiskitStep q fv gm g <;> simp [h, Step.reads] at this ⊢ <;> exact this

theorem cirqStep_reads (q : Quirks) (fv : FloatOf) (n : Nat) (g : AGate)
    (hwf : gateWF fv n g = true) : (cirqStep q g).reads CqOp.op (gateOp g) := by
  have := cirqStep_op q fv n g hwf
  cases h : cirqStep q g <;> simp [h, Step.reads] at this ⊢ <;> exact this

theorem sympyStep_reads (fv : FloatOf) (n : Nat) (g : AGate)
    (hwf : gateWF fv n g = true) : (sympyStep g).reads SyGate.op (gateOp g) := by
  have := sympyStep_op fv n g hwf
  cases h : sympyStep g <;> simp [h, Step.reads] at this ⊢ <;> exact this

end QV.Export
