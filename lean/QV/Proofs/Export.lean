import QV.Model.Export
/-! Helper lemmas for C13 (exporters). -/
namespace QV.Export
open QV

/-! ## the exporter loop -/

def Step.toOption {β : Type} : Step β → Option β
  | .emit b => some b
  | _ => none

theorem runSteps_ok_eq {α β : Type} (f : α → Step β) :
    ∀ (gs : List α) (out : List β), runSteps f gs = .ok out →
      out = gs.filterMap (fun g => (f g).toOption) ∧ ∀ g ∈ gs, ∀ m, f g ≠ .fail m := by
  intro gs
  induction gs with
  | nil =>
    intro out h
    simp [runSteps] at h
    subst h
    simp
  | cons a as ih =>
    intro out h
    unfold runSteps at h
    split at h
    · cases h
    · rename_i hs
      obtain ⟨h1, h2⟩ := ih out h
      refine ⟨?_, ?_⟩
      · subst h1; simp [hs, Step.toOption]
      · intro g hg m
        rcases List.mem_cons.mp hg with rfl | hg
        · simp [hs]
        · exact h2 g hg m
    · rename_i b hs
      split at h
      · cases h
      · rename_i bs hr
        cases h
        obtain ⟨h1, h2⟩ := ih bs hr
        refine ⟨?_, ?_⟩
        · subst h1; simp [hs, Step.toOption]
        · intro g hg m
          rcases List.mem_cons.mp hg with rfl | hg
          · simp [hs]
          · exact h2 g hg m

theorem runSteps_total {α β : Type} (f : α → Step β) :
    ∀ (gs : List α), (∀ g ∈ gs, ∀ m, f g ≠ .fail m) → ∃ out, runSteps f gs = .ok out := by
  intro gs
  induction gs with
  | nil => intro _; exact ⟨[], rfl⟩
  | cons a as ih =>
    intro h
    obtain ⟨out, ho⟩ := ih (fun g hg => h g (List.mem_cons_of_mem _ hg))
    unfold runSteps
    cases hs : f a with
    | fail m => exact absurd hs (h a (List.mem_cons_self ..) m)
    | skip => exact ⟨out, by simpa using ho⟩
    | emit b => exact ⟨b :: out, by simp [ho]⟩

/-- what one loop iteration must satisfy: an emitted call reads as the gate's operation, and
only gates without an operation (nops) are skipped -/
def Step.reads {β γ : Type} (ob : β → Option γ) (tgt : Option γ) : Step β → Prop
  | .emit b => ob b = tgt
  | .skip => tgt = none
  | .fail _ => True

theorem filterMap_congr_mem {α β : Type} {f g : α → Option β} :
    ∀ (l : List α), (∀ a ∈ l, f a = g a) → l.filterMap f = l.filterMap g
  | [], _ => rfl
  | a :: l, h => by
    have ih := filterMap_congr_mem l (fun x hx => h x (List.mem_cons_of_mem _ hx))
    simp [List.filterMap_cons, h a (List.mem_cons_self ..), ih]

/-- the translation scheme shared by the three object exporters: if every emitted call reads as
the gate's operation and only nop gates are skipped, the exported list reads as the circuit -/
theorem runSteps_translate {α β γ : Type} (f : α → Step β) (oa : α → Option γ) (ob : β → Option γ)
    (gs : List α) (out : List β)
    (hstep : ∀ g ∈ gs, (f g).reads ob (oa g))
    (h : runSteps f gs = .ok out) : out.filterMap ob = gs.filterMap oa := by
  induction gs generalizing out with
  | nil =>
    simp [runSteps] at h
    subst h
    simp
  | cons a as ih =>
    have ha := hstep a (List.mem_cons_self ..)
    have hrest := fun g hg => hstep g (List.mem_cons_of_mem _ hg)
    unfold runSteps at h
    split at h
    · cases h
    · rename_i hs
      simp [hs, Step.reads] at ha
      simp [List.filterMap_cons, ha, ih out hrest h]
    · rename_i b hs
      simp [hs, Step.reads] at ha
      split at h
      · cases h
      · rename_i bs hr
        cases h
        simp [List.filterMap_cons, ha, ih bs hrest hr]

/-! ## per-gate readings -/

theorem dropLast_getLast {α : Type} : ∀ (l : List α) (t : α), l.getLast? = some t →
    l.dropLast ++ [t] = l ∧ l.dropLast.length + 1 = l.length
  | [], _, h => by simp at h
  | [a], t, h => by simp at h; simp [h]
  | a :: b :: l, t, h => by
    have := dropLast_getLast (b :: l) t (by simpa [List.getLast?_cons_cons] using h)
    simp at this ⊢
    exact this

theorem gateWF_len {fv : FloatOf} {n : Nat} {g : AGate} (h : gateWF fv n g = true) :
    g.wires.length = g.cls.nQubits := by
  simp [gateWF] at h
  exact h.1.1

theorem gateWF_param {fv : FloatOf} {n : Nat} {g : AGate} (h : gateWF fv n g = true)
    {b : Base} {k : Nat} (hk : kind g.cls = some (b, k)) :
    (takesParam b = false → g.param = .none) ∧
    (takesParam b = true → ∃ s, g.param = .lit s ∧ (fv s).isSome = true) := by
  simp [gateWF, hk] at h
  obtain ⟨_, h⟩ := h
  constructor
  · intro hb; simp [hb] at h; exact h
  · intro hb
    simp [hb] at h
    cases hp : g.param with
    | none => simp [hp] at h
    | qft a b => simp [hp] at h
    | lit s => simp [hp] at h; exact ⟨s, rfl, h⟩

theorem isMCXg_kind {cls : GClass} (h : isMCXg cls = true) :
    ∃ k, kind cls = some (.X, k) ∧ cls.nQubits = k + 1 := by
  cases cls <;> simp [isMCXg] at h
  case MCX n => exact ⟨n, rfl, rfl⟩
  case MCtrl inner n =>
    subst h
    have : Base.ofName "X" = some .X := by decide
    exact ⟨n, by simp [kind, this], rfl⟩

theorem isMCZg_kind {cls : GClass} (h : isMCZg cls = true) :
    ∃ k, kind cls = some (.Z, k) ∧ cls.nQubits = k + 1 := by
  cases cls <;> simp [isMCZg] at h
  case MCtrl inner n =>
    subst h
    have : Base.ofName "Z" = some .Z := by decide
    exact ⟨n, by simp [kind, this], rfl⟩

theorem isNop_kind {cls : GClass} (h : cls.isNop = true) : kind cls = none := by
  cases cls <;> simp [GClass.isNop] at h <;> rfl

theorem qiskitMethod_kind {cls : GClass} {bn : Base × Nat}
    (h : qiskitMethod (pyClassLower cls) = some bn) : kind cls = some bn := by
  cases cls <;> simp [pyClassLower, qiskitMethod] at h <;> simp [kind, ← h]

theorem qiskitStep_op (q : Quirks) (fv : FloatOf) (gm : Bool) (n : Nat) (g : AGate)
    (hwf : gateWF fv n g = true) :
    match qiskitStep q fv gm g with
    | .emit b => b.op = gateOp g
    | .skip => gateOp g = none
    | .fail _ => True := by
  have hlen := gateWF_len hwf
  unfold qiskitStep
  by_cases hx : isMCXg g.cls = true
  · simp only [hx, ↓reduceIte]
    obtain ⟨k, hk, hq⟩ := isMCXg_kind hx
    have hp := (gateWF_param hwf hk).1 rfl
    cases ht : g.wires.getLast? with
    | none => trivial
    | some t =>
      obtain ⟨h1, h2⟩ := dropLast_getLast _ _ ht
      simp [QkCall.op, gateOp, hk, h1, hp]
      omega
  simp only [hx, ↓reduceIte]
  by_cases hz : isMCZg g.cls = true
  · simp only [hz, ↓reduceIte]
    obtain ⟨k, hk, hq⟩ := isMCZg_kind hz
    have hp := (gateWF_param hwf hk).1 rfl
    simp [QkCall.op, gateOp, hk, hp]
    omega
  simp only [hz, ↓reduceIte]
  by_cases hb : g.cls = GClass.Barrier ∧ (!gm) = true
  · simp only [hb, ↓reduceIte]
    simp [gateOp, hb.1, kind, QkCall.op]
  simp only [hb, ↓reduceIte]
  by_cases hn : g.cls.isNop = true
  · simp [hn, gateOp, isNop_kind hn]
  simp only [hn, ↓reduceIte]
  cases hq : qiskitMethod (pyClassLower g.cls) with
  | none => simp
  | some bn =>
    obtain ⟨b, k⟩ := bn
    have hk := qiskitMethod_kind hq
    have hp := gateWF_param hwf hk
    simp only [Option.isSome_some, ↓reduceIte]
    by_cases hr : (QkCall.meth (pyClassLower g.cls) (if hasParam q fv g.param = true then some g.param else none) g.wires).raises = true
    · simp [hr]
    · simp only [hr]
      simp [QkCall.raises, QkCall.op, hq] at hr
      simp [QkCall.op, hq, hr, gateOp, hk]
      by_cases hh : hasParam q fv g.param = true
      · simp [hh]
      · simp [hh] at hr ⊢
        exact (hp.1 hr.2).symm

theorem cirqAttr_kind {cls : GClass} {bn : Base × Nat}
    (h : cirqAttr (cirqName cls) = some bn) : kind cls = some bn := by
  cases cls <;> simp [cirqName, cirqAttr] at h <;> simp [kind, ← h]

theorem cirqAttr_noParam {name : Text} {bn : Base × Nat}
    (h : cirqAttr name = some bn) : takesParam bn.1 = false := by
  unfold cirqAttr at h
  repeat' split at h
  all_goals first | (cases h; rfl) | cases h

theorem cirqStep_op (q : Quirks) (fv : FloatOf) (n : Nat) (g : AGate)
    (hwf : gateWF fv n g = true) :
    match cirqStep q g with
    | .emit b => b.op = gateOp g
    | .skip => gateOp g = none
    | .fail _ => True := by
  have hlen := gateWF_len hwf
  unfold cirqStep
  by_cases hx : isMCXg g.cls = true
  · simp only [hx, ↓reduceIte]
    obtain ⟨k, hk, hq⟩ := isMCXg_kind hx
    have hp := (gateWF_param hwf hk).1 rfl
    simp [CqOp.op, gateOp, hk, hp]
    omega
  simp only [hx]
  by_cases hz : isMCZg g.cls = true
  · simp only [hz, ↓reduceIte]
    obtain ⟨k, hk, hq⟩ := isMCZg_kind hz
    have hp := (gateWF_param hwf hk).1 rfl
    simp [CqOp.op, gateOp, hk, hp]
    omega
  simp only [hz]
  by_cases hs : g.cls = GClass.Swap
  · simp only [hs, ↓reduceIte]
    have hk : kind g.cls = some (.Swap, 0) := by rw [hs]; rfl
    have hp := (gateWF_param hwf hk).1 rfl
    rw [hs] at hlen
    match hw : g.wires, hlen with
    | [a, b], _ => simp [CqOp.op, gateOp, hs, kind, hp, hw]
  simp only [hs]
  by_cases hc : g.cls = GClass.CP
  · simp only [hc, ↓reduceIte]
    have hk : kind g.cls = some (.P, 1) := by rw [hc]; rfl
    rw [hc] at hlen
    match hw : g.wires, hlen with
    | [a, b], _ =>
      by_cases hp : g.param = Param.none
      · simp [hp]
      · simp [CqOp.op, gateOp, hc, kind, hp, hw]
  simp only [hc]
  by_cases hn : g.cls.isNop = true ∧ (!q.cirqNopRaises) = true
  · simp [hn, gateOp, isNop_kind hn.1]
  simp only [hn]
  cases hq : cirqAttr (cirqName g.cls) with
  | none => simp
  | some bn =>
    obtain ⟨b, k⟩ := bn
    have hk := cirqAttr_kind hq
    have hp := gateWF_param hwf hk
    simp only [Option.isSome_some, ↓reduceIte]
    by_cases hr : (CqOp.named (cirqName g.cls) g.wires).op.isNone = true
    · simp [hr]
    · simp only [hr]
      simp [CqOp.op, hq] at hr
      simp [CqOp.op, hq, hr, gateOp, hk]
      exact (hp.1 (cirqAttr_noParam hq)).symm

theorem sympyStep_op (fv : FloatOf) (n : Nat) (g : AGate)
    (hwf : gateWF fv n g = true) :
    match sympyStep g with
    | .emit b => b.op = gateOp g
    | .skip => gateOp g = none
    | .fail _ => True := by
  have hlen := gateWF_len hwf
  obtain ⟨cls, wires, param, gid⟩ := g
  have hmcx : ∀ k, kind cls = some (.X, k) → cls.nQubits = k + 1 →
      match sympyMcx wires with
      | .emit b => b.op = gateOp ⟨cls, wires, param, gid⟩
      | .skip => gateOp ⟨cls, wires, param, gid⟩ = none
      | .fail _ => True := by
    intro k hk hq
    have hp := (gateWF_param hwf hk).1 rfl
    unfold sympyMcx
    cases ht : wires.getLast? with
    | none => trivial
    | some t =>
      obtain ⟨h1, h2⟩ := dropLast_getLast _ _ ht
      by_cases he : wires.dropLast = []
      · simp [he]
      · simp at hp hlen
        simp [he, SyGate.op, gateOp, hk, h1, hp]
        omega
  cases cls
  case CCX => exact hmcx 2 rfl rfl
  case MCX k => exact hmcx k rfl rfl
  case X =>
    have hp := (gateWF_param hwf (b := .X) (k := 0) rfl).1 rfl
    simp [GClass.nQubits] at hlen hp
    match wires, hlen with
    | [w], _ => simp [sympyStep, gateOp, kind, SyGate.op, hp]
  case H =>
    have hp := (gateWF_param hwf (b := .H) (k := 0) rfl).1 rfl
    simp [GClass.nQubits] at hlen hp
    match wires, hlen with
    | [w], _ => simp [sympyStep, gateOp, kind, SyGate.op, hp]
  case CX =>
    have hp := (gateWF_param hwf (b := .X) (k := 1) rfl).1 rfl
    simp [GClass.nQubits] at hlen hp
    match wires, hlen with
    | [a, b], _ => simp [sympyStep, gateOp, kind, SyGate.op, hp]
  case Swap =>
    have hp := (gateWF_param hwf (b := .Swap) (k := 0) rfl).1 rfl
    simp [GClass.nQubits] at hlen hp
    match wires, hlen with
    | [a, b], _ => simp [sympyStep, gateOp, kind, SyGate.op, hp]
  all_goals simp [sympyStep, gateOp, kind]

/-! ## reading back the QASM text -/

theorem splitOn_noSep (c : Char) : ∀ (t : Text), c ∉ t → splitOn c t = [t]
  | [], _ => rfl
  | x :: xs, h => by
    have hx : x ≠ c := fun e => h (by simp [e])
    have ih := splitOn_noSep c xs (fun m => h (List.mem_cons_of_mem _ m))
    simp [splitOn, hx, ih]

theorem splitOn_append (c : Char) : ∀ (t rest : Text), c ∉ t →
    splitOn c (t ++ c :: rest) = t :: splitOn c rest
  | [], rest, _ => by simp [splitOn]
  | x :: xs, rest, h => by
    have hx : x ≠ c := fun e => h (by simp [e])
    have ih := splitOn_append c xs rest (fun m => h (List.mem_cons_of_mem _ m))
    simp [splitOn, hx, ih]

theorem splitOn_ne_nil (c : Char) : ∀ t : Text, splitOn c t ≠ []
  | [] => by simp [splitOn]
  | x :: xs => by
    by_cases hx : x = c
    · simp [splitOn, hx]
    · simp only [splitOn, hx, ↓reduceIte]
      cases splitOn c xs <;> simp

theorem joinWith_splitOn (c : Char) : ∀ (t : Text), splitHead.joinWith c (splitOn c t) = t
  | [] => rfl
  | x :: xs => by
    have ih := joinWith_splitOn c xs
    by_cases hx : x = c
    · subst hx
      simp only [splitOn, ↓reduceIte]
      cases hs : splitOn x xs with
      | nil => exact absurd hs (splitOn_ne_nil _ _)
      | cons a as => rw [hs] at ih; simp [splitHead.joinWith, ih]
    · simp only [splitOn, hx, ↓reduceIte]
      cases hs : splitOn c xs with
      | nil => exact absurd hs (splitOn_ne_nil _ _)
      | cons a as =>
        rw [hs] at ih
        cases as with
        | nil => simp [splitHead.joinWith] at ih ⊢; exact ih
        | cons b bs => simp [splitHead.joinWith] at ih ⊢; exact ih

/-- tokens separated by single spaces are read back -/
theorem splitOn_joinSp : ∀ (ts : List Text), ts ≠ [] → (∀ t ∈ ts, ' ' ∉ t) →
    splitOn ' ' (joinSp ts) = ts
  | [], h, _ => absurd rfl h
  | [t], _, h => by simpa [joinSp] using splitOn_noSep ' ' t (h t (by simp))
  | t :: u :: ts, _, h => by
    have ih := splitOn_joinSp (u :: ts) (by simp) (fun x hx => h x (List.mem_cons_of_mem _ hx))
    simp only [joinSp]
    rw [splitOn_append ' ' t _ (h t (by simp)), ih]

theorem tokenOK_spec {t : Text} (h : tokenOK t = true) :
    t ≠ [] ∧ ' ' ∉ t ∧ '\n' ∉ t ∧ '(' ∉ t := by
  simp [tokenOK, List.all_eq_true] at h
  refine ⟨by intro e; simp [e] at h, ?_, ?_, ?_⟩ <;> intro hm <;> have := h.2 _ hm <;> simp at this

theorem ptextOK_spec {pt : Text} (h : ptextOK (some pt) = true) : ' ' ∉ pt ∧ '\n' ∉ pt := by
  simp [ptextOK, List.all_eq_true] at h
  refine ⟨?_, ?_⟩ <;> intro hm <;> have := h _ hm <;> simp at this

theorem parseLine_render (l : QLine) (h : lineOK l = true) : parseLine l.render = some l := by
  obtain ⟨gname, ptext, args⟩ := l
  simp [lineOK] at h
  obtain ⟨⟨⟨hg, hp⟩, ha⟩, hargs⟩ := h
  obtain ⟨_, hg1, _, hg3⟩ := tokenOK_spec hg
  have hsp : splitOn ' ' (joinSp args) = args :=
    splitOn_joinSp args (by intro e; simp [e] at ha) (fun t ht => (tokenOK_spec (hargs t ht)).2.1)
  cases ptext with
  | none =>
    have h1 : splitOn ' ' (gname ++ ' ' :: joinSp args) = gname :: args := by
      rw [splitOn_append ' ' gname _ hg1, hsp]
    simp [QLine.render, parseLine, h1, splitHead, splitOn_noSep '(' gname hg3]
  | some pt =>
    obtain ⟨hp1, _⟩ := ptextOK_spec hp
    have hh : ' ' ∉ gname ++ '(' :: pt ++ [')'] := by
      simp; exact ⟨hg1, hp1⟩
    have h1 : splitOn ' ' ((gname ++ '(' :: pt ++ [')']) ++ ' ' :: joinSp args) = (gname ++ '(' :: pt ++ [')']) :: args := by
      rw [splitOn_append ' ' _ _ hh, hsp]
    have h2 : splitOn '(' (gname ++ '(' :: (pt ++ [')'])) = gname :: splitOn '(' (pt ++ [')']) :=
      splitOn_append '(' gname _ hg3
    have h3 := joinWith_splitOn '(' (pt ++ [')'])
    have h4 : splitHead (gname ++ '(' :: pt ++ [')']) = (gname, some pt) := by
      have e : gname ++ '(' :: pt ++ [')'] = gname ++ '(' :: (pt ++ [')']) := by simp
      rw [e]
      unfold splitHead
      rw [h2]
      cases hs : splitOn '(' (pt ++ [')']) with
      | nil => exact absurd hs (splitOn_ne_nil _ _)
      | cons a as =>
        rw [hs] at h3
        simp [h3]
    have e : gname ++ '(' :: (pt ++ ')' :: ' ' :: joinSp args) =
        (gname ++ '(' :: pt ++ [')']) ++ ' ' :: joinSp args := by simp
    simp only [QLine.render, parseLine, List.append_assoc, List.cons_append, List.nil_append]
    rw [e, h1]
    have e2 : gname ++ '(' :: pt ++ [')'] = gname ++ '(' :: (pt ++ [')']) := by simp
    rw [e2] at h4
    simp [h4]

theorem render_ne_close (l : QLine) : l.render ≠ ['}'] := by simp [QLine.render]

theorem parseBody_render : ∀ (ls : List QLine) (tail : List Text), (∀ l ∈ ls, lineOK l = true) →
    parseBody (ls.map QLine.render ++ ['}'] :: tail) = some ls
  | [], tail, _ => by simp [parseBody]
  | l :: ls, tail, h => by
    have ih := parseBody_render ls tail (fun x hx => h x (List.mem_cons_of_mem _ hx))
    simp [parseBody, render_ne_close, parseLine_render l (h l (by simp)), ih]

theorem not_mem_joinSp (c : Char) (hc : c ≠ ' ') : ∀ (ts : List Text), (∀ t ∈ ts, c ∉ t) → c ∉ joinSp ts
  | [], _ => by simp [joinSp]
  | [t], h => by simpa [joinSp] using h t (by simp)
  | t :: u :: ts, h => by
    have ih := not_mem_joinSp c hc (u :: ts) (fun x hx => h x (List.mem_cons_of_mem _ hx))
    have ht := h t (by simp)
    simp only [joinSp, List.mem_append, List.mem_cons]
    rintro (h1 | h1 | h1)
    · exact ht h1
    · exact hc h1
    · exact ih h1

theorem render_noNewline (l : QLine) (h : lineOK l = true) : '\n' ∉ l.render := by
  obtain ⟨gname, ptext, args⟩ := l
  simp [lineOK] at h
  obtain ⟨⟨⟨hg, hp⟩, _⟩, hargs⟩ := h
  obtain ⟨_, _, hg2, _⟩ := tokenOK_spec hg
  have hj := not_mem_joinSp '\n' (by decide) args (fun t ht => (tokenOK_spec (hargs t ht)).2.2.1)
  cases ptext with
  | none => simp [QLine.render, hg2, hj]
  | some pt =>
    obtain ⟨_, hp2⟩ := ptextOK_spec hp
    simp [QLine.render, hg2, hj, hp2]

theorem splitOn_renderLines : ∀ (ls : List QLine) (rest : Text), (∀ l ∈ ls, lineOK l = true) →
    splitOn '\n' (renderLines ls ++ rest) = ls.map QLine.render ++ splitOn '\n' rest
  | [], rest, _ => by simp [renderLines]
  | l :: ls, rest, h => by
    have ih := splitOn_renderLines ls rest (fun x hx => h x (List.mem_cons_of_mem _ hx))
    have hl := render_noNewline l (h l (by simp))
    simp only [renderLines, List.append_assoc, List.cons_append, List.map_cons]
    rw [splitOn_append '\n' _ _ hl, ih]

theorem joinSp_concat : ∀ (ts : List Text) (t : Text), ts ≠ [] → joinSp ts ++ ' ' :: t = joinSp (ts ++ [t])
  | [], _, h => absurd rfl h
  | [a], t, _ => by simp [joinSp]
  | a :: b :: ts, t, _ => by
    have ih := joinSp_concat (b :: ts) t (by simp)
    simp only [joinSp, List.cons_append, List.append_assoc] at ih ⊢
    rw [ih]

/-- the header line `gate <name> <formals> {` is read back -/
theorem header_tokens (name : Text) (formals : List Text) (hn : tokenOK name = true)
    (hf : ∀ f ∈ formals, tokenOK f = true) :
    (splitOn ' ' ("gate ".toList ++ name ++ ' ' :: joinSp formals ++ " {".toList)).filter (· ≠ []) =
      "gate".toList :: name :: (formals ++ [['{']]) := by
  obtain ⟨hn0, hn1, _, _⟩ := tokenOK_spec hn
  have e : "gate ".toList ++ name ++ ' ' :: joinSp formals ++ " {".toList =
      ['g','a','t','e'] ++ ' ' :: (name ++ ' ' :: (joinSp formals ++ ' ' :: ['{'])) := by
    have e1 : "gate ".toList = ['g','a','t','e',' '] := by decide
    have e2 : " {".toList = [' ', '{'] := by decide
    rw [e1, e2]; simp
  have eg : "gate".toList = ['g','a','t','e'] := by decide
  rw [e, eg, splitOn_append ' ' _ _ (by decide), splitOn_append ' ' _ _ hn1]
  have htail : (splitOn ' ' (joinSp formals ++ ' ' :: ['{'])).filter (· ≠ []) = formals ++ [['{']] := by
    cases formals with
    | nil => simp [joinSp, splitOn]
    | cons f fs =>
      rw [joinSp_concat (f :: fs) ['{'] (by simp)]
      have hall : ∀ t ∈ (f :: fs) ++ [['{']], ' ' ∉ t ∧ t ≠ [] := by
        intro t ht
        rcases List.mem_append.mp ht with h | h
        · exact ⟨(tokenOK_spec (hf t h)).2.1, (tokenOK_spec (hf t h)).1⟩
        · simp at h; subst h; simp
      rw [splitOn_joinSp _ (by simp) (fun t ht => (hall t ht).1)]
      apply List.filter_eq_self.mpr
      intro t ht
      simpa using (hall t ht).2
  simp [hn0]
  simpa using htail

theorem parseDecl_renderGate (name : Text) (formals : List Text) (body : List QLine)
    (hn : tokenOK name = true) (hf : ∀ f ∈ formals, tokenOK f = true)
    (hb : ∀ l ∈ body, lineOK l = true) :
    parseDecl (renderGate name formals body) = some { name := name, formals := formals, body := body } := by
  have hl0 : '\n' ∉ "gate ".toList ++ name ++ ' ' :: joinSp formals ++ " {".toList := by
    have e1 : "gate ".toList = ['g','a','t','e',' '] := by decide
    have e2 : " {".toList = [' ', '{'] := by decide
    have := not_mem_joinSp '\n' (by decide) formals (fun t ht => (tokenOK_spec (hf t ht)).2.2.1)
    rw [e1, e2]
    simp [(tokenOK_spec hn).2.2.1, this]
  have hs : splitOn '\n' (renderGate name formals body) =
      ("gate ".toList ++ name ++ ' ' :: joinSp formals ++ " {".toList) ::
        (body.map QLine.render ++ [['}'], [], []]) := by
    unfold renderGate
    rw [splitOn_append '\n' _ _ hl0, splitOn_renderLines body _ hb]
    simp [splitOn]
  unfold parseDecl
  rw [hs]
  simp only []
  rw [header_tokens name formals hn hf]
  have hpb := parseBody_render body [[], []] hb
  simp [hpb]

theorem indexOfName_get : ∀ (l : List Text) (i : Nat) (h : i < l.length), l.Nodup →
    indexOfName l l[i] = some i
  | [], i, h, _ => by simp at h
  | f :: fs, 0, _, _ => by simp [indexOfName]
  | f :: fs, i + 1, h, hnd => by
    have hnd' := List.nodup_cons.mp hnd
    have hi : i < fs.length := by simpa using h
    have ih := indexOfName_get fs i hi hnd'.2
    have hne : f ≠ fs[i] := fun e => hnd'.1 (e ▸ List.getElem_mem hi)
    simp [indexOfName, hne, ih]

theorem qiskitStep_reads (q : Quirks) (fv : FloatOf) (gm : Bool) (n : Nat) (g : AGate)
    (hwf : gateWF fv n g = true) : (qiskitStep q fv gm g).reads QkCall.op (gateOp g) := by
  have := qiskitStep_op q fv gm n g hwf
  cases h : qiskitStep q fv gm g <;> simp [h, Step.reads] at this ⊢ <;> exact this

theorem cirqStep_reads (q : Quirks) (fv : FloatOf) (n : Nat) (g : AGate)
    (hwf : gateWF fv n g = true) : (cirqStep q g).reads CqOp.op (gateOp g) := by
  have := cirqStep_op q fv n g hwf
  cases h : cirqStep q g <;> simp [h, Step.reads] at this ⊢ <;> exact this

theorem sympyStep_reads (fv : FloatOf) (n : Nat) (g : AGate)
    (hwf : gateWF fv n g = true) : (sympyStep g).reads SyGate.op (gateOp g) := by
  have := sympyStep_op fv n g hwf
  cases h : sympyStep g <;> simp [h, Step.reads] at this ⊢ <;> exact this

/-! ## (a) totality -/

theorem hasParam_none (fv : FloatOf) (p : Param) : hasParam Quirks.none fv p = (p != .none) := by
  simp [hasParam, Quirks.none]

theorem getLast?_of_len {α : Type} (l : List α) (k : Nat) (h : l.length = k + 1) :
    ∃ t, l.getLast? = some t := by
  cases hl : l.getLast? with
  | some t => exact ⟨t, rfl⟩
  | none =>
    have : l = [] := List.getLast?_eq_none_iff.mp hl
    subst this
    simp at h

theorem qiskitMethod_of_exportable {cls : GClass} (he : qiskitExportable cls = true)
    (hx : ¬ isMCXg cls = true) (hz : ¬ isMCZg cls = true) (hn : ¬ cls.isNop = true) :
    ∃ b k, qiskitMethod (pyClassLower cls) = some (b, k) ∧ kind cls = some (b, k) ∧
      cls.nQubits = k + b.arity := by
  cases cls <;> simp [qiskitExportable, isMCXg, isMCZg, GClass.isNop] at he hx hz hn
  case MCtrl g n => rcases he with h | h <;> simp_all
  all_goals exact ⟨_, _, rfl, rfl, rfl⟩

theorem qiskitStep_total (fv : FloatOf) (gm : Bool) (n : Nat) (g : AGate)
    (hwf : gateWF fv n g = true) (he : qiskitExportable g.cls = true) (m : String) :
    qiskitStep Quirks.none fv gm g ≠ .fail m := by
  have hlen := gateWF_len hwf
  unfold qiskitStep
  by_cases hx : isMCXg g.cls = true
  · simp only [hx, ↓reduceIte]
    obtain ⟨k, hk, hq⟩ := isMCXg_kind hx
    obtain ⟨t, ht⟩ := getLast?_of_len g.wires k (by omega)
    simp [ht]
  simp only [hx]
  by_cases hz : isMCZg g.cls = true
  · simp [hz]
  simp only [hz]
  by_cases hb : g.cls = GClass.Barrier ∧ (!gm) = true
  · simp [hb]
  simp only [hb]
  by_cases hn : g.cls.isNop = true
  · simp [hn]
  simp only [hn]
  obtain ⟨b, k, hq, hk, hnq⟩ := qiskitMethod_of_exportable he hx hz hn
  have hp := gateWF_param hwf hk
  simp only [hq, Option.isSome_some, ↓reduceIte, Bool.false_eq_true]
  have hr : (QkCall.meth (pyClassLower g.cls)
      (if hasParam Quirks.none fv g.param = true then some g.param else none) g.wires).raises = false := by
    simp only [QkCall.raises, QkCall.op, hq, hasParam_none]
    cases hb : takesParam b with
    | false => simp [hp.1 hb, hlen, hnq]
    | true =>
      obtain ⟨s, hs, _⟩ := hp.2 hb
      simp [hs, hlen, hnq]
  simp [hr]

theorem cirqAttr_of_exportable {cls : GClass} (he : cirqExportable cls = true)
    (hx : ¬ isMCXg cls = true) (hz : ¬ isMCZg cls = true) (hs : cls ≠ .Swap) (hc : cls ≠ .CP)
    (hn : ¬ cls.isNop = true) :
    ∃ b k, cirqAttr (cirqName cls) = some (b, k) ∧ cls.nQubits = k + b.arity := by
  cases cls <;> simp [cirqExportable, isMCXg, isMCZg, GClass.isNop] at he hx hz hn hs hc
  case MCtrl g n => rcases he with h | h <;> simp_all
  all_goals exact ⟨_, _, rfl, rfl⟩

theorem cirqStep_total (fv : FloatOf) (n : Nat) (g : AGate)
    (hwf : gateWF fv n g = true) (he : cirqExportable g.cls = true) (m : String) :
    cirqStep Quirks.none g ≠ .fail m := by
  have hlen := gateWF_len hwf
  unfold cirqStep
  by_cases hx : isMCXg g.cls = true
  · simp [hx]
  simp only [hx]
  by_cases hz : isMCZg g.cls = true
  · simp [hz]
  simp only [hz]
  by_cases hs : g.cls = GClass.Swap
  · simp only [hs, ↓reduceIte]
    rw [hs] at hlen
    match hw : g.wires, hlen with
    | [a, b], _ => simp
  simp only [hs]
  by_cases hc : g.cls = GClass.CP
  · simp only [hc, ↓reduceIte]
    have hk : kind g.cls = some (.P, 1) := by rw [hc]; rfl
    obtain ⟨s, hs, _⟩ := (gateWF_param hwf hk).2 rfl
    rw [hc] at hlen
    match hw : g.wires, hlen with
    | [a, b], _ => simp [hs]
  simp only [hc]
  by_cases hn : g.cls.isNop = true
  · simp [hn, Quirks.none]
  have hn' : ¬ (g.cls.isNop = true ∧ (!Quirks.none.cirqNopRaises) = true) := fun h => hn h.1
  simp only [hn']
  obtain ⟨b, k, hq, hnq⟩ := cirqAttr_of_exportable he hx hz hs hc hn
  simp [hq, CqOp.op, hlen, hnq]

theorem sympyStep_total (fv : FloatOf) (n : Nat) (g : AGate)
    (hwf : gateWF fv n g = true) (he : sympyExportable g.cls = true) (m : String) :
    sympyStep g ≠ .fail m := by
  have hlen := gateWF_len hwf
  obtain ⟨cls, wires, param, gid⟩ := g
  have hmcx : ∀ k, k ≠ 0 → wires.length = k + 1 → sympyMcx wires ≠ .fail m := by
    intro k hk hl
    obtain ⟨t, ht⟩ := getLast?_of_len wires k hl
    obtain ⟨h1, h2⟩ := dropLast_getLast _ _ ht
    have : wires.dropLast ≠ [] := by
      intro e; rw [e] at h2; simp at h2; omega
    simp [sympyMcx, ht, this]
  cases cls <;> simp [sympyExportable] at he
  case CCX => exact hmcx 2 (by decide) hlen
  case MCX k => exact hmcx k he hlen
  case X => simp [GClass.nQubits] at hlen; match wires, hlen with | [w], _ => simp [sympyStep]
  case H => simp [GClass.nQubits] at hlen; match wires, hlen with | [w], _ => simp [sympyStep]
  case CX => simp [GClass.nQubits] at hlen; match wires, hlen with | [a, b], _ => simp [sympyStep]
  case Swap => simp [GClass.nQubits] at hlen; match wires, hlen with | [a, b], _ => simp [sympyStep]
  all_goals simp [sympyStep]

/-! ## (b) the read-back lines resolve to the circuit's operations -/

theorem stripCs_nc (r : Text) (h : r.head? ≠ some 'c') : stripCs r = (0, r) := by
  unfold stripCs
  split
  · simp at h
  · rfl

theorem stripCs_replicate (n : Nat) (r : Text) (h : r.head? ≠ some 'c') :
    stripCs (List.replicate n 'c' ++ r) = (n, r) := by
  induction n with
  | zero => simpa using stripCs_nc r h
  | succ n ih => simp [List.replicate_succ, stripCs, ih]

theorem ofName_cases {g : String} {b : Base} (h : Base.ofName g = some b) :
    lowerText g.toList = qasmName (match b with
      | .I => .I | .X => .X | .Y => .Y | .Z => .Z | .H => .H | .S => .S | .T => .T | .P => .P
      | .Swap => .Swap) ∧ baseOfQasm (lowerText g.toList) = some b ∧
      (lowerText g.toList).head? ≠ some 'c' ∧ tokenOK (lowerText g.toList) = true := by
  unfold Base.ofName at h
  repeat' split at h
  all_goals first | cases h | skip
  all_goals (rename_i hg; subst hg; cases h; exact ⟨by decide, by decide, by decide, by decide⟩)


theorem kindOfQasm_qasmName {cls : GClass} {bk : Base × Nat} (h : kind cls = some bk) :
    kindOfQasm (qasmName cls) = some bk := by
  cases cls
  case MCX n =>
    simp [kind] at h; subst h
    simp [kindOfQasm, qasmName, stripCs_replicate n ['x'] (by decide), baseOfQasm]
  case MCtrl g n =>
    simp [kind] at h
    obtain ⟨b, hb, rfl⟩ := h
    obtain ⟨_, h2, h3, _⟩ := ofName_cases hb
    simp [kindOfQasm, qasmName, stripCs_replicate n _ h3, h2]
  all_goals first | (cases h; decide) | (simp [kind] at h)

theorem mapOpt_map {α β : Type} (f : α → Option β) (g : α → β) :
    ∀ (l : List α), (∀ a ∈ l, f a = some (g a)) → mapOpt f l = some (l.map g)
  | [], _ => rfl
  | a :: l, h => by
    have ih := mapOpt_map f g l (fun x hx => h x (List.mem_cons_of_mem _ hx))
    simp [mapOpt, h a (List.mem_cons_self ..), ih]

theorem mapOpt_filterMap {α β γ : Type} (f : α → Option β) (h : β → Option γ) (t : α → Option γ) :
    ∀ (l : List α), (∀ a ∈ l, match f a with
        | none => t a = none
        | some b => ∃ c, h b = some c ∧ t a = some c) →
      mapOpt h (l.filterMap f) = some (l.filterMap t)
  | [], _ => rfl
  | a :: l, H => by
    have ih := mapOpt_filterMap f h t l (fun x hx => H x (List.mem_cons_of_mem _ hx))
    have ha := H a (List.mem_cons_self ..)
    cases hf : f a with
    | none => simp [hf] at ha; simp [hf, ha, ih]
    | some b =>
      simp [hf] at ha
      obtain ⟨c, h1, h2⟩ := ha
      simp [hf, h2, mapOpt, h1, ih]

theorem mapOpt_map_left {α β : Type} (f : β → Option α) (g : α → β) :
    ∀ (l : List α), (∀ a ∈ l, f (g a) = some a) → mapOpt f (l.map g) = some l
  | [], _ => rfl
  | a :: l, h => by
    have ih := mapOpt_map_left f g l (fun x hx => h x (List.mem_cons_of_mem _ hx))
    simp [mapOpt, h a (List.mem_cons_self ..), ih]

theorem qasmRepaired_none : QasmRepaired Quirks.none := ⟨rfl, rfl⟩

theorem qasmFormals_repaired {q : Quirks} (hq : QasmRepaired q) (c : Circ) :
    qasmFormals q c = (List.range c.numQubits).map (nameOfIndex c.qmap) := by
  simp [qasmFormals, hq.1]

theorem indexOfName_formals {q : Quirks} (hq : QasmRepaired q) (c : Circ) (w : Nat)
    (hw : w < c.numQubits) (hnd : (qasmFormals q c).Nodup) :
    indexOfName (qasmFormals q c) (nameOfIndex c.qmap w) = some w := by
  have hl : w < (qasmFormals q c).length := by simpa [qasmFormals_repaired hq] using hw
  have := indexOfName_get (qasmFormals q c) w hl hnd
  simpa [qasmFormals_repaired hq] using this

/-- the body line of a non-nop gate in the repaired exporter -/
def lineFor (q : Quirks) (fv : FloatOf) (c : Circ) (g : AGate) : QLine :=
  ⟨qasmName g.cls, qasmParamText q fv g.param, g.wires.map (nameOfIndex c.qmap)⟩

/-- the line the exporter prints for a well-formed non-nop gate -/
theorem qasmLineOf_eq {q : Quirks} (hq : QasmRepaired q) (fv : FloatOf) (c : Circ) (g : AGate)
    (n : Nat) (hwf : gateWF fv n g = true) {bk : Base × Nat} (hk : kind g.cls = some bk) :
    qasmLineOf q fv c g = some (lineFor q fv c g) := by
  obtain ⟨b, k⟩ := bk
  have hp := gateWF_param hwf hk
  have hw : mapOpt (qasmWireName q c) g.wires = some (g.wires.map (nameOfIndex c.qmap)) :=
    mapOpt_map _ _ _ (fun w _ => by simp [qasmWireName, hq.1])
  unfold qasmLineOf
  rw [hw]
  cases hb : takesParam b with
  | false => simp [hp.1 hb, hasParam, hq.2, qasmParamText, lineFor]
  | true =>
    obtain ⟨s, hs, hv⟩ := hp.2 hb
    obtain ⟨v, hv⟩ := Option.isSome_iff_exists.mp hv
    cases h2 : q.qasmParam2f <;> simp [hs, hasParam, hq.2, qasmParamText, lineFor, h2, hv]

theorem gateTOpQ_none (fv : FloatOf) (g : AGate) : gateTOpQ Quirks.none fv g = gateTOp g := by
  unfold gateTOpQ gateTOp
  cases kind g.cls <;> simp
  cases g.param <;> simp [qasmParamText, Quirks.none]

theorem lineOp_line {q : Quirks} (hq : QasmRepaired q) (fv : FloatOf) (c : Circ) (g : AGate)
    (hwf : gateWF fv c.numQubits g = true)
    {bk : Base × Nat} (hk : kind g.cls = some bk) (hnd : (qasmFormals q c).Nodup) :
    lineOp (qasmFormals q c) (lineFor q fv c g) = gateTOpQ q fv g := by
  have hall : ∀ w ∈ g.wires, w < c.numQubits := by
    simp [gateWF, List.all_eq_true] at hwf
    exact hwf.1.2
  have hidx : mapOpt (indexOfName (qasmFormals q c)) (g.wires.map (nameOfIndex c.qmap)) = some g.wires := by
    exact mapOpt_map_left _ _ _ (fun w hw => indexOfName_formals hq c w (hall w hw) hnd)
  simp [lineOp, lineFor, kindOfQasm_qasmName hk, hidx, gateTOpQ, hk]

theorem exportable_kind {cls : GClass} (he : qasmExportable cls = true) (hn : ¬ cls.isNop = true) :
    ∃ bk, kind cls = some bk := by
  simp [qasmExportable, hn] at he
  exact Option.isSome_iff_exists.mp he

/-- the lines of the body, read against the formals, are the circuit's operations -/
theorem declOps_body {q : Quirks} (hq : QasmRepaired q) (fv : FloatOf) (c : Circ)
    (hwf : ∀ g ∈ c.gates, gateWF fv c.numQubits g = true)
    (he : ∀ g ∈ c.gates, qasmExportable g.cls = true)
    (hnd : (qasmFormals q c).Nodup) :
    mapOpt (lineOp (qasmFormals q c))
      (c.gates.filterMap (fun g => if g.cls.isNop then none else qasmLineOf q fv c g)) =
      some (c.gates.filterMap (gateTOpQ q fv)) := by
  apply mapOpt_filterMap
  intro g hg
  by_cases hn : g.cls.isNop = true
  · simp [hn, gateTOpQ, isNop_kind hn]
  · obtain ⟨bk, hk⟩ := exportable_kind (he g hg) hn
    simp only [hn, Bool.false_eq_true, ↓reduceIte, qasmLineOf_eq hq fv c g _ (hwf g hg) hk]
    have ht : gateTOpQ q fv g = some ⟨bk.1, bk.2, g.wires, qasmParamText q fv g.param⟩ := by
      simp [gateTOpQ, hk]
    exact ⟨_, (lineOp_line hq fv c g (hwf g hg) hk hnd).trans ht, ht⟩

/-! ## (c) readable tokens from conditions on the names -/

theorem nameCharOK_spec {ch : Char} (h : nameCharOK ch = true) : ch ≠ ' ' ∧ ch ≠ '\n' ∧ ch ≠ '(' := by
  refine ⟨?_, ?_, ?_⟩ <;> (rintro rfl; revert h; decide)

theorem identOK_tokenOK {t : Text} (h : identOK t = true) : tokenOK t = true := by
  simp only [identOK, tokenOK, Bool.and_eq_true, List.all_eq_true] at h ⊢
  refine ⟨h.1, fun ch hc => ?_⟩
  obtain ⟨h1, h2, h3⟩ := nameCharOK_spec (h.2 ch hc)
  simp [h1, h2, h3]

theorem natText_chars {i : Nat} {ch : Char} (h : ch ∈ natText i) : nameCharOK ch = true := by
  have := Nat.isDigit_of_mem_toDigits (by decide) (by decide) h
  simp [nameCharOK, Char.isAlphanum, this]

theorem natText_inj {i j : Nat} (h : natText i = natText j) : i = j := by
  have hi := @Nat.ofDigitChars_ten_toDigits i
  have hj := @Nat.ofDigitChars_ten_toDigits j
  unfold natText at h
  rw [h] at hi
  exact hi.symm.trans hj

theorem fallback_identOK (i : Nat) : identOK ('q' :: natText i) = true := by
  simp only [identOK, List.isEmpty_cons, Bool.not_false, Bool.true_and, List.all_cons, Bool.and_eq_true,
    List.all_eq_true]
  exact ⟨by decide, fun ch hc => natText_chars hc⟩

theorem getKeyByIndex_mem {qmap : List (Text × Nat)} {i : Nat} {k : Text}
    (h : getKeyByIndex qmap i = some k) : (k, i) ∈ qmap := by
  unfold getKeyByIndex at h
  cases hf : qmap.reverse.find? (fun kv => kv.2 == i) with
  | none => simp [hf] at h
  | some kv =>
    simp [hf] at h
    have hm := List.mem_of_find?_eq_some hf
    have hp := List.find?_some hf
    simp at hp hm
    obtain ⟨a, b⟩ := kv
    simp at h hp
    subst h; subst hp
    exact hm

theorem keys_functional : ∀ (l : List (Text × Nat)), (l.map (·.1)).Nodup → ∀ k a b, (k, a) ∈ l → (k, b) ∈ l → a = b
  | [], _, _, _, _, h, _ => by simp at h
  | (k0, v0) :: l, hnd, k, a, b, ha, hb => by
    simp only [List.map_cons, List.nodup_cons] at hnd
    have hk : ∀ v, (k0, v) ∈ l → False := fun v hv => hnd.1 (List.mem_map.mpr ⟨(k0, v), hv, rfl⟩)
    rcases List.mem_cons.mp ha with ha | ha <;> rcases List.mem_cons.mp hb with hb | hb
    · cases ha; cases hb; rfl
    · cases ha; exact absurd hb (hk b)
    · cases hb; exact absurd ha (hk a)
    · exact keys_functional l hnd.2 k a b ha hb

structure WellNamedSpec (c : Circ) : Prop where
  name : identOK c.name = true
  keys : ∀ kv ∈ c.qmap, identOK kv.1 = true
  nodup : (c.qmap.map (·.1)).Nodup
  fallback : ∀ i, i < c.numQubits → getKeyByIndex c.qmap i = none →
    ('q' :: natText i) ∉ c.qmap.map (·.1)

theorem wellNamed_spec {c : Circ} (h : wellNamed c = true) : WellNamedSpec c := by
  simp only [wellNamed, Bool.and_eq_true, List.all_eq_true, decide_eq_true_eq] at h
  obtain ⟨⟨⟨h1, h2⟩, h3⟩, h4⟩ := h
  refine ⟨h1, h2, h3, ?_⟩
  intro i hi hnone hm
  have := h4 i (List.mem_range.mpr hi)
  simp [hnone] at this
  simp at hm
  obtain ⟨x, hx⟩ := hm
  exact this x hx

theorem freshName_not_mem (names : List Text) (fuel : Nat) (n : Text) (h : n ∉ names) :
    freshName names fuel n = n := by
  cases fuel with
  | zero => rfl
  | succ f =>
    simp only [freshName]
    split
    · next hc => exact absurd (by simpa using hc) h
    · rfl

theorem identOK_underscore {n : Text} (h : identOK n = true) : identOK ('_' :: n) = true := by
  simp only [identOK, List.isEmpty_cons, Bool.not_false, Bool.true_and, List.all_cons, Bool.and_eq_true] at h ⊢
  exact ⟨by decide, h.2⟩

theorem freshName_identOK (names : List Text) : ∀ (fuel : Nat) (n : Text), identOK n = true →
    identOK (freshName names fuel n) = true := by
  intro fuel
  induction fuel with
  | zero => intro n h; exact h
  | succ f ih =>
    intro n h
    simp only [freshName]
    split
    · exact ih _ (identOK_underscore h)
    · exact h

theorem nameOfIndex_identOK {c : Circ} (h : WellNamedSpec c) (i : Nat) :
    identOK (nameOfIndex c.qmap i) = true := by
  unfold nameOfIndex
  cases hk : getKeyByIndex c.qmap i with
  | none => simpa using freshName_identOK _ _ _ (fallback_identOK i)
  | some k => simpa using h.keys _ (getKeyByIndex_mem hk)

theorem nameOfIndex_inj {c : Circ} (h : WellNamedSpec c) {i j : Nat} (hi : i < c.numQubits)
    (hj : j < c.numQubits) (e : nameOfIndex c.qmap i = nameOfIndex c.qmap j) : i = j := by
  unfold nameOfIndex at e
  cases hki : getKeyByIndex c.qmap i with
  | none =>
    rw [hki, Option.getD_none, freshName_not_mem _ _ _ (h.fallback i hi hki)] at e
    cases hkj : getKeyByIndex c.qmap j with
    | none =>
      rw [hkj, Option.getD_none, freshName_not_mem _ _ _ (h.fallback j hj hkj)] at e
      simp at e
      exact natText_inj e
    | some k =>
      simp [hkj] at e
      exact absurd (List.mem_map.mpr ⟨(k, j), getKeyByIndex_mem hkj, e.symm⟩) (h.fallback i hi hki)
  | some k =>
    cases hkj : getKeyByIndex c.qmap j with
    | none =>
      rw [hkj, Option.getD_none, freshName_not_mem _ _ _ (h.fallback j hj hkj)] at e
      simp [hki] at e
      exact absurd (List.mem_map.mpr ⟨(k, i), getKeyByIndex_mem hki, e⟩) (h.fallback j hj hkj)
    | some k' =>
      simp [hki, hkj] at e
      subst e
      exact keys_functional _ h.nodup k i j (getKeyByIndex_mem hki) (getKeyByIndex_mem hkj)

theorem nodup_map_range {β : Type} (f : Nat → β) (n : Nat)
    (hinj : ∀ i j, i < n → j < n → f i = f j → i = j) : ((List.range n).map f).Nodup := by
  rw [List.Nodup, List.pairwise_map]
  have := List.nodup_range (n := n)
  rw [List.Nodup] at this
  refine List.Pairwise.imp_of_mem ?_ this
  intro a b ha hb hne e
  exact hne (hinj a b (List.mem_range.mp ha) (List.mem_range.mp hb) e)

theorem formals_nodup {q : Quirks} (hq : QasmRepaired q) {c : Circ} (h : WellNamedSpec c) :
    (qasmFormals q c).Nodup := by
  rw [qasmFormals_repaired hq]
  exact nodup_map_range _ _ (fun i j hi hj e => nameOfIndex_inj h hi hj e)


theorem tokenOK_replicate (n : Nat) (r : Text) (h : tokenOK r = true) :
    tokenOK (List.replicate n 'c' ++ r) = true := by
  simp only [tokenOK, Bool.and_eq_true, List.all_eq_true] at h ⊢
  refine ⟨by cases r <;> simp at h ⊢, fun ch hc => ?_⟩
  rcases List.mem_append.mp hc with hc | hc
  · rw [(List.mem_replicate.mp hc).2]; decide
  · exact h.2 ch hc

theorem qasmName_tokenOK {cls : GClass} {bk : Base × Nat} (hk : kind cls = some bk) :
    tokenOK (qasmName cls) = true := by
  cases cls
  case MCX n => exact tokenOK_replicate n ['x'] (by decide)
  case MCtrl g n =>
    simp [kind] at hk
    obtain ⟨b, hb, _⟩ := hk
    exact tokenOK_replicate n _ (ofName_cases hb).2.2.2
  all_goals first | decide | (simp [kind] at hk)

theorem kind_nQubits_pos {cls : GClass} {bk : Base × Nat} (hk : kind cls = some bk) :
    0 < cls.nQubits := by
  cases cls <;> simp [kind] at hk <;> simp [GClass.nQubits]

theorem digit_plain {ch : Char} (h : ch.isDigit = true) : (ch != ' ' && ch != '\n') = true := by
  have h1 : ch ≠ ' ' := by rintro rfl; revert h; decide
  have h2 : ch ≠ '\n' := by rintro rfl; revert h; decide
  simp [h1, h2]

theorem natText_plain (i : Nat) : ∀ ch ∈ natText i, (ch != ' ' && ch != '\n') = true :=
  fun _ hc => digit_plain (Nat.isDigit_of_mem_toDigits (by decide) (by decide) hc)

theorem pad2_plain (n : Nat) : ∀ ch ∈ pad2 n, (ch != ' ' && ch != '\n') = true := by
  intro ch hc
  unfold pad2 at hc
  split at hc
  · rcases List.mem_cons.mp hc with hc | hc
    · subst hc; decide
    · exact natText_plain _ ch hc
  · exact natText_plain _ ch hc

/-- `{p:.2f}` prints sign, digits and a point -/
theorem fmt2f_plain (v : FVal) : ptextOK (some (fmt2f v)) = true := by
  simp only [ptextOK, fmt2f, List.all_eq_true]
  intro ch hc
  simp only [List.mem_append, List.mem_cons] at hc
  rcases hc with (hc | hc) | hc | hc
  · cases hn : v.neg <;> simp [hn] at hc
    subst hc; decide
  · exact natText_plain _ ch hc
  · subst hc; decide
  · exact pad2_plain _ ch hc

theorem lineFor_ok (q : Quirks) (fv : FloatOf) {c : Circ} (h : WellNamedSpec c) (g : AGate)
    (hwf : gateWF fv c.numQubits g = true) {bk : Base × Nat} (hk : kind g.cls = some bk)
    (hp : paramPlain g.param = true) : lineOK (lineFor q fv c g) = true := by
  have hlen := gateWF_len hwf
  have hpos := kind_nQubits_pos hk
  have hne : g.wires ≠ [] := by intro e; rw [e] at hlen; simp at hlen; omega
  have hpt : ptextOK (qasmParamText q fv g.param) = true := by
    cases hg : g.param <;> simp only [qasmParamText, ptextOK]
    case lit s =>
      cases h2 : q.qasmParam2f
      · simpa [hg, paramPlain, ptextOK] using hp
      · cases hv : fv s with
        | none => simp [ptextOK]
        | some v => exact fmt2f_plain v
  simp only [lineOK, lineFor, Bool.and_eq_true, qasmName_tokenOK hk, hpt, List.all_eq_true]
  refine ⟨⟨⟨trivial, trivial⟩, by simpa using hne⟩, ?_⟩
  intro t ht
  obtain ⟨w, _, rfl⟩ := List.mem_map.mp ht
  exact identOK_tokenOK (nameOfIndex_identOK h w)

/-- the repaired exporter returns on every well-formed circuit over the readable gate set: one
line per non-nop gate -/
theorem qasmBody_eq {q : Quirks} (hq : QasmRepaired q) (fv : FloatOf) (c : Circ)
    (hwf : ∀ g ∈ c.gates, gateWF fv c.numQubits g = true)
    (he : ∀ g ∈ c.gates, qasmExportable g.cls = true) :
    qasmBody q fv c =
      .ok (c.gates.filterMap (fun g => if g.cls.isNop then none else some (lineFor q fv c g))) := by
  have hstep : ∀ g ∈ c.gates, qasmStep q fv c g =
      if g.cls.isNop then .skip else .emit (lineFor q fv c g) := by
    intro g hg
    unfold qasmStep
    by_cases hn : g.cls.isNop = true
    · simp [hn]
    · obtain ⟨bk, hk⟩ := exportable_kind (he g hg) hn
      simp [hn, qasmLineOf_eq hq fv c g _ (hwf g hg) hk]
  obtain ⟨out, ho⟩ := runSteps_total (qasmStep q fv c) c.gates (by
    intro g hg m
    rw [hstep g hg]
    split <;> simp)
  unfold qasmBody
  rw [ho, (runSteps_ok_eq _ _ _ ho).1]
  congr 1
  apply filterMap_congr_mem
  intro g hg
  rw [hstep g hg]
  split <;> simp [Step.toOption]

theorem readable_of_wellNamed {q : Quirks} (hq : QasmRepaired q) (fv : FloatOf) (c : Circ)
    (hwf : ∀ g ∈ c.gates, gateWF fv c.numQubits g = true)
    (he : ∀ g ∈ c.gates, qasmExportable g.cls = true)
    (hp : paramsPlain c.gates = true) (hn : wellNamed c = true) :
    qasmReadable q fv c = true ∧ (qasmFormals q c).Nodup := by
  have hs := wellNamed_spec hn
  refine ⟨?_, formals_nodup hq hs⟩
  unfold qasmReadable
  rw [qasmBody_eq hq fv c hwf he]
  simp only [Bool.and_eq_true, List.all_eq_true]
  refine ⟨⟨identOK_tokenOK hs.name, ?_⟩, ?_⟩
  · intro t ht
    rw [qasmFormals_repaired hq] at ht
    obtain ⟨i, _, rfl⟩ := List.mem_map.mp ht
    exact identOK_tokenOK (nameOfIndex_identOK hs i)
  · intro l hl
    obtain ⟨g, hg, hgl⟩ := List.mem_filterMap.mp hl
    by_cases hnop : g.cls.isNop = true
    · simp [hnop] at hgl
    · simp [hnop] at hgl
      subst hgl
      obtain ⟨bk, hk⟩ := exportable_kind (he g hg) hnop
      simp only [paramsPlain, List.all_eq_true] at hp
      exact lineFor_ok q fv hs g (hwf g hg) hk (hp g hg)

end QV.Export
