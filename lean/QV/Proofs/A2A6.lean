import QV.Proofs.A2A5
/-! `ast2ast` preserves the source-level meaning, part 6: function bodies and programs. -/
namespace QV.A2A
open QV QV.Front QV.Sem

set_option linter.unusedSimpArgs false
set_option linter.unusedVariables false

theorem semBody_append_assigns (ret : Ty) (σ : SEnv) (A B : List Front.Stmt)
    (hA : ∀ x ∈ A, ∃ t e, x = Front.Stmt.assign t e) :
    semBody ret σ (A ++ B) = match runA σ A with
      | some σ' => semBody ret σ' B
      | none => none := by
  induction A generalizing σ with
  | nil => rfl
  | cons a A ih =>
    obtain ⟨t, e, rfl⟩ := hA a (List.mem_cons_self)
    simp only [List.cons_append, semBody, runA]
    cases semW σ e with
    | none => rfl
    | some v => exact ih _ (fun x hx => hA x (List.mem_cons_of_mem _ hx))

theorem execBody_cons (ret : Ty) (σ σ1 : SEnv) (s : SStmt) (ss : List SStmt) (h : ∀ e, s ≠ .ret (some e))
    (hex : exec [] σ s = some σ1) : execBody ret σ (s :: ss) = execBody ret σ1 ss := by
  cases s with
  | ret v =>
    cases v with
    | none => simp [exec] at hex
    | some e => exact absurd rfl (h e)
  | _ => simp only [execBody, hex]

theorem okS_not_ret (s : SStmt) (h : okS s = true) : ∀ e, s ≠ .ret (some e) := by
  intro e he; subst he; simp [okS] at h

/-- **the body**: from environments that agree on the user variables, whatever value `Sem.semBody` gives the
rewritten list is the value the source body has under `execBody` -/
theorem body_preserved (ret : Ty) : ∀ (ss : List SStmt), ss.all okTop = true → ∀ (st st' : RSt) (L : List SStmt),
    (rwSs [] ss).run st = .ok (L, st') → KnownOK st → ∀ (σs σr : SEnv), Rel σs σr → ∀ sv,
    semBody ret σr (L.map toStmt) = some sv → execBody ret σs ss = some sv
  | [], _, st, st', L, h, _, σs, σr, _, sv, hsem => by
    simp only [rwSs, rm_pure_ok] at h
    obtain ⟨rfl, rfl⟩ := h
    simp [semBody] at hsem
  | s :: ss, hok, st, st', L, h, hk, σs, σr, hrel, sv, hsem => by
    simp only [List.all_cons, Bool.and_eq_true] at hok
    simp only [rwSs, rm_bind_ok, rm_pure_ok] at h
    obtain ⟨L1, s1, h1, L2, s2, h2, rfl, rfl⟩ := h
    have hmain : okS s = true → execBody ret σs (s :: ss) = some sv := by
      intro hs
      obtain ⟨hk1, hu1, hg1, _, hs1⟩ := ml_stmt s hs [] st s1 L1 h1 hk (fun p hp => by simp at hp)
      rw [List.map_append, semBody_append_assigns ret σr _ _ (fun x hx => by
        simp only [List.mem_map] at hx
        obtain ⟨y, hy, rfl⟩ := hx
        obtain ⟨t, v, rfl, _⟩ := hg1 y hy
        exact ⟨t, toP v, rfl⟩)] at hsem
      cases hr : runA σr (L1.map toStmt) with
      | none => simp [hr] at hsem
      | some σ1 =>
        simp only [hr] at hsem
        obtain ⟨σs1, hex, hrel1, _⟩ := hs1 [] [] σs σr σ1 hrel (fun p hp => by simp at hp) rfl
          (fun p hp => by simp at hp) (fun _ => rfl) (fun _ => rfl) (by simpa [wrapF] using hr)
        have hex' : exec [] σs s = some σs1 := hex
        rw [execBody_cons ret σs σs1 s ss (okS_not_ret s hs) hex']
        exact body_preserved ret ss hok.2 s1 _ L2 h2 hk1 σs1 σ1 hrel1 sv hsem
    cases s with
    | ret v =>
      cases v with
      | none => simp [okTop, okS] at hok
      | some e =>
        have he : plainE e = true := by simpa [okTop] using hok.1
        simp only [rwS, rm_bind_ok, rm_liftX_ok, rm_visitM_ok, rm_pure_ok, substE_nil, visitE_plain _ e he, Except.ok.injEq] at h1
        obtain ⟨_, _, ⟨rfl, rfl⟩, rfl, rfl⟩ := h1
        simp only [List.cons_append, List.nil_append, List.map_cons, toStmt, semBody] at hsem
        have hc : semW σr (toP e) = semW σs (toP e) :=
          semW_congr' σr σs (toP e) (fun n hn => hrel n (mentions_plain n e he hn))
        simp only [execBody]
        rw [← hc]
        exact hsem
    | expr e =>
      have he : plainE e = true := by simpa [okTop] using hok.1
      simp only [rwS, rm_bind_ok, rm_liftX_ok, rm_visitM_ok, rm_pure_ok, substE_nil, visitE_plain _ e he, Except.ok.injEq] at h1
      obtain ⟨_, _, ⟨rfl, rfl⟩, rfl, rfl⟩ := h1
      simp only [List.cons_append, List.nil_append, List.map_cons, toStmt, semBody] at hsem
      rw [execBody_cons ret σs σs _ ss (fun e' he' => by cases he') (by simp only [exec])]
      exact body_preserved ret ss hok.2 _ _ L2 h2 hk σs σr hrel sv hsem
    | assign ts e => exact hmain (by simpa [okTop] using hok.1)
    | aug t op e => exact hmain (by simpa [okTop] using hok.1)
    | ifs c b e => exact hmain (by simpa [okTop] using hok.1)
    | ann _ _ _ => simp [okTop, okS] at hok
    | for_ t it b e => exact hmain (by simpa [okTop] using hok.1)
    | other _ => simp [okTop, okS] at hok

/-! ### the initial state of the rewriter -/

theorem known_foldl_insert (args : Args) (acc : List (String × EVal)) (n : String) :
    (lookup (args.foldl (fun l (p : String × SExp) => insert l p.1 (.ann p.2)) acc) n).isSome = true →
      n ∈ args.map (·.1) ∨ (lookup acc n).isSome = true := by
  induction args generalizing acc with
  | nil => intro h; exact Or.inr h
  | cons a args ih =>
    intro h
    simp only [List.foldl_cons] at h
    rcases ih _ h with h1 | h1
    · exact Or.inl (by simp [h1])
    · rcases lookup_insert _ _ _ _ h1 with h2 | h2
      · exact Or.inl (by simp [h2])
      · exact Or.inr h2

theorem knownOK_initSt (args : Args) (h : ∀ a ∈ args, userName a.1 = true) : KnownOK (initSt args) := by
  intro n hn
  simp only [RSt.known, initSt, Bool.or_eq_true] at hn
  rcases hn with hn | hn
  · have : (fun l (x : String × SExp) => insert l x.1 (EVal.ann x.2))
        = (fun (l : List (String × EVal)) (p : String × SExp) => match p with | (n, a) => insert l n (.ann a)) := by
      funext l x; cases x; rfl
    rw [← this] at hn
    rcases known_foldl_insert args [] n hn with h1 | h1
    · simp only [List.mem_map] at h1
      obtain ⟨a, ha, rfl⟩ := h1
      exact userName_not_dunder (h a ha)
    · simp [lookup] at h1
  · simp [lookup] at hn

mutual
theorem replaceAnn_tyAnn : ∀ t : Ty, replaceAnn (tyAnn t) = .ok (tyAnn t)
  | .bool => by simp [tyAnn, replaceAnn, pure, Except.pure]
  | .qint w => by simp [tyAnn, replaceAnn, pure, Except.pure]
  | .qchar => by simp [tyAnn, replaceAnn, pure, Except.pure]
  | .tuple ts => by
    simp [tyAnn, replaceAnn, replaceAnns_tyAnns ts, bind, Except.bind, pure, Except.pure]
theorem replaceAnns_tyAnns : ∀ ts : List Ty, replaceAnns (tyAnns ts) = .ok (tyAnns ts)
  | [] => by simp [tyAnns, replaceAnns, pure, Except.pure]
  | t :: ts => by
    simp [tyAnns, replaceAnns, replaceAnn_tyAnn t, replaceAnns_tyAnns ts, bind, Except.bind, pure, Except.pure]
end

/-- `ReplaceTypeAnn` leaves the annotations of the model's types as they are -/
theorem replaceArgs_aargsOf (p : SProg) : replaceArgs (aargsOf p) = .ok (aargsOf p) := by
  unfold aargsOf
  induction p.args with
  | nil => simp [replaceArgs, pure, Except.pure]
  | cons a as ih =>
    simp only [List.map_cons, replaceArgs, replaceAnn_tyAnn, ih, bind, Except.bind, pure, Except.pure]

/-- visiting such an annotation changes nothing and raises nothing -/
theorem visitE_tyAnn (st : RSt) (t : Ty) : visitE st (tyAnn t) = .ok (tyAnn t) := by
  cases t with
  | bool => simp [tyAnn, visitE, pure, Except.pure]; decide
  | qint w => rfl
  | qchar => simp [tyAnn, visitE, pure, Except.pure]; decide
  | tuple ts => rfl

theorem replaceRet_tyAnn (t : Ty) : replaceRet (some (tyAnn t)) = .ok (some (tyAnn t)) := by
  simp [replaceRet, replaceAnn_tyAnn, bind, Except.bind, pure, Except.pure]

theorem visitRet_tyAnn (st : RSt) (t : Ty) : visitRet st (some (tyAnn t)) = .ok () := by
  simp [visitRet, visitE_tyAnn, bind, Except.bind, pure, Except.pure]

theorem visitAnns_aargsOf (st : RSt) (p : SProg) : visitAnns st ((aargsOf p).map (·.2)) = .ok () := by
  unfold aargsOf
  induction p.args with
  | nil => simp [visitAnns, pure, Except.pure]
  | cons a as ih =>
    simp only [List.map_cons, List.map_map, visitAnns, visitE_tyAnn, bind, Except.bind] at ih ⊢
    exact ih

/-- **the rewriter preserves the source-level meaning** (programs of `okProg`): whenever the fixed-width
meaning `Sem.semProg` of the rewritten, straight-line program is defined, it is the source-level meaning
`execProg` – `if` with its test evaluated once, arbitrary nesting through else branches – of the source -/
theorem rewrite_preserved (p : SProg) (hp : okProg p = true) (L : List SStmt) (st : RSt)
    (h : (rwSs [] p.body).run (initSt (aargsOf p)) = .ok (L, st)) (ρ : String → Bool) (sv : SVal)
    (hsem : semProg ⟨p.args, p.ret, L.map toStmt⟩ ρ = some sv) : execProg p ρ = some sv := by
  simp only [okProg, Bool.and_eq_true, List.all_eq_true] at hp
  have hk : KnownOK (initSt (aargsOf p)) := knownOK_initSt _ (by
    intro a ha
    simp only [aargsOf, List.mem_map] at ha
    obtain ⟨b, hb, rfl⟩ := ha
    exact hp.1 b hb)
  exact body_preserved p.ret p.body (by simpa [List.all_eq_true] using hp.2) _ _ L h hk _ _ (fun _ _ => rfl) sv hsem

end QV.A2A
