import QV.Proofs.Front5
import QV.Model.Frag
/-! Soundness of `QV.Front.tr` w.r.t. `QV.Sem.semW`: the fragment, the assembly by structural
induction, and the environment of the arguments. -/
namespace QV.Sem
open QV QV.Arith QV.Front

set_option linter.unusedSimpArgs false

/-- every variable that translates denotes its value in `σ` -/
def EnvOK (ρ : QV.Env) (env : Front.Env) (σ : SEnv) : Prop := ∀ n, Sound ρ env σ (.name n)

theorem sound_cmp (ρ : QV.Env) (env : Front.Env) (σ : SEnv) (op : String) (hop : cmpOps.contains op = true)
    (l r : PExp) (ihl : Sound ρ env σ l) (ihr : Sound ρ env σ r) : Sound ρ env σ (.cmp op l r) := by
  simp only [cmpOps, List.contains_eq_mem, List.mem_cons, List.mem_nil_iff, or_false, decide_eq_true_eq] at hop
  rcases hop with rfl | rfl | rfl | rfl | rfl | rfl
  · exact sound_cmp_eq ρ env σ l r ihl ihr
  · exact sound_cmp_neq ρ env σ l r ihl ihr
  · exact sound_cmp_lt ρ env σ l r ihl ihr
  · exact sound_cmp_lte ρ env σ l r ihl ihr
  · exact sound_cmp_gt ρ env σ l r ihl ihr
  · exact sound_cmp_gte ρ env σ l r ihl ihr

theorem sound_bin (ρ : QV.Env) (env : Front.Env) (σ : SEnv) (op : String) (hop : binOps.contains op = true)
    (l r : PExp) (ihl : Sound ρ env σ l) (ihr : Sound ρ env σ r) : Sound ρ env σ (.bin op l r) := by
  simp only [binOps, List.contains_eq_mem, List.mem_cons, List.mem_nil_iff, or_false, decide_eq_true_eq] at hop
  rcases hop with rfl | rfl | rfl | rfl | rfl | rfl | rfl | rfl | rfl
  · exact sound_add ρ env σ l r ihl ihr
  · exact sound_sub ρ env σ l r ihl ihr
  · exact sound_mul ρ env σ l r ihl ihr
  · exact sound_mod ρ env σ l r ihl ihr
  · exact sound_xor ρ env σ l r ihl ihr
  · exact sound_and ρ env σ l r ihl ihr
  · exact sound_or ρ env σ l r ihl ihr
  · exact sound_lshift ρ env σ l r ihl ihr
  · exact sound_rshift ρ env σ l r ihl ihr

mutual
theorem sound_all (ρ : QV.Env) (env : Front.Env) (σ : SEnv) (henv : EnvOK ρ env σ) :
    ∀ e : PExp, inFrag e = true → Sound ρ env σ e
  | .name n, _ => henv n
  | .cbool b, _ => sound_cbool ρ env σ b
  | .cint c, _ => sound_cint ρ env σ c
  | .not e, h => sound_not ρ env σ e (sound_all ρ env σ henv e (by simpa [inFrag] using h))
  | .inv e, h => sound_inv ρ env σ e (sound_all ρ env σ henv e (by simpa [inFrag] using h))
  | .boolop isAnd vs, h =>
    sound_boolop ρ env σ isAnd vs (sound_all_list ρ env σ henv vs (by simpa [inFrag] using h))
  | .ite c t e, h => by
    simp only [inFrag, Bool.and_eq_true] at h
    exact sound_ite ρ env σ c t e (sound_all ρ env σ henv c h.1.1) (sound_all ρ env σ henv t h.1.2)
      (sound_all ρ env σ henv e h.2)
  | .cmp op l r, h => by
    simp only [inFrag, Bool.and_eq_true] at h
    exact sound_cmp ρ env σ op h.1.1 l r (sound_all ρ env σ henv l h.1.2) (sound_all ρ env σ henv r h.2)
  | .bin op l r, h => by
    simp only [inFrag, Bool.and_eq_true] at h
    exact sound_bin ρ env σ op h.1.1 l r (sound_all ρ env σ henv l h.1.2) (sound_all ρ env σ henv r h.2)
  | .cchar _, h => by simp [inFrag] at h
  | .subs _ _, h => by simp [inFrag] at h
  | .tuple _, h => by simp [inFrag] at h
  | .unsupported _, h => by simp [inFrag] at h
theorem sound_all_list (ρ : QV.Env) (env : Front.Env) (σ : SEnv) (henv : EnvOK ρ env σ) :
    ∀ es : List PExp, inFragList es = true → ∀ e ∈ es, Sound ρ env σ e
  | [], _ => by intro e he; simp at he
  | e :: es, h => by
    simp only [inFragList, Bool.and_eq_true] at h
    intro e' he'
    simp only [List.mem_cons] at he'
    rcases he' with rfl | he'
    · exact sound_all ρ env σ henv _ h.1
    · exact sound_all_list ρ env σ henv es h.2 e' he'
end

/-! ### the environment `translate` starts from -/

/-- the binding environment `translate_ast` builds from the arguments -/
def initEnv (args : List (String × Ty)) : Front.Env :=
  args.foldl (fun env (n, t) => env ++ [⟨n, t, t.names n⟩]) []

theorem foldl_bind (args : List (String × Ty)) (acc : Front.Env) :
    args.foldl (fun env (n, t) => env ++ [(⟨n, t, t.names n⟩ : Binding)]) acc
      = acc ++ args.map fun p => (⟨p.1, p.2, p.2.names p.1⟩ : Binding) := by
  induction args generalizing acc with
  | nil => simp
  | cons a as ih => simp [List.foldl_cons, ih]

theorem initEnv_eq (args : List (String × Ty)) :
    initEnv args = args.map fun p => (⟨p.1, p.2, p.2.names p.1⟩ : Binding) := by
  unfold initEnv; rw [foldl_bind]; simp

theorem val_syms (ρ : QV.Env) (names : List String) :
    val ρ (names.map BExp.sym) = valLE (names.map ρ) := by
  simp [val, evalBits, BExp.eval, Function.comp_def]

theorem envOK_args (ρ : QV.Env) (args : List (String × Ty)) (hargs : ∀ p ∈ args, argTyOK p.2 = true) :
    EnvOK ρ (initEnv args) (argsEnv args ρ) := by
  intro n s t v s' h
  rw [tr] at h
  have hfind : (initEnv args).find n
      = (args.find? (·.1 == n)).map fun p => (⟨p.1, p.2, p.2.names p.1⟩ : Binding) := by
    unfold Env.find
    rw [initEnv_eq, List.find?_map]
    rfl
  rw [hfind] at h
  cases hf : args.find? (·.1 == n) with
  | none =>
    rw [hf] at h
    simp only [Option.map_none, run_throw_ok] at h
  | some p =>
    rw [hf] at h
    obtain ⟨m, ty⟩ := p
    have hmem := List.mem_of_find?_eq_some hf
    have hty := hargs _ hmem
    have hname : m = n := by
      have := List.find?_some hf
      simpa using this
    subst hname
    simp only [Option.map_some] at h
    have hsem : semW (argsEnv args ρ) (.name m) = decodeArg ρ m ty := by
      simp [semW, argsEnv, hf]
    cases ty with
    | bool =>
      simp only [Ty.names, List.length_singleton, Nat.lt_irrefl, if_false, run_pure_ok, gt_iff_lt] at h
      obtain ⟨h, _⟩ := h
      cases h
      exact ⟨.bool (ρ m), by rw [hsem]; rfl, Den.mk_bool _ _ rfl⟩
    | qint w =>
      simp only [argTyOK, bne_iff_ne, ne_eq] at hty
      have hlen : (Ty.names m (.qint w)).length = w := by simp [Ty.names]
      simp only [hlen, gt_iff_lt] at h
      by_cases hw : 1 < w
      · simp only [hw, if_true, run_pure_ok] at h
        obtain ⟨h, _⟩ := h
        cases h
        refine ⟨.int w (valLE ((Ty.names m (.qint w)).map ρ)), by rw [hsem]; rfl, ?_⟩
        have e : Val.list ((Ty.names m (.qint w)).map fun s => Val.atom (BExp.sym s))
            = Val.ofBits ((Ty.names m (.qint w)).map BExp.sym) := by
          simp [Val.ofBits, List.map_map, Function.comp_def]
        rw [e]
        exact Den.mk_int _ _ _ (by simpa using hlen) (val_syms ρ _)
      · have hw0 : w = 0 := by omega
        subst hw0
        simp only [Nat.lt_irrefl, Nat.not_lt_zero, if_false, Ty.names, List.range_zero, List.map_nil,
          run_throw_ok] at h
    | qchar => simp [argTyOK] at hty
    | tuple ts => simp [argTyOK] at hty

end QV.Sem
