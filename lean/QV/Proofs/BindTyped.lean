import QV.Proofs.Bind
/-!
# Typed constants of the repaired `bind` (`k: T = v`)

For a keyword value that is a value of the declared type (`isValueOf`), the width-aware cast
(`wCast`, the translator's typecast `T(v)`) never fails and gives exactly the declared-width
encoding: `Qint_w.const(v)` for an integer, element-wise for tuples.
-/
namespace QV.Bind

theorem wfill_eq (w : Nat) (l : List Bool) :
    wfill w l = l ++ List.replicate (w - l.length) false := by
  unfold wfill
  split
  · have : w - l.length = 0 := by omega
    simp [this]
  · rfl

theorem wfill_length (w : Nat) (l : List Bool) (h : l.length ≤ w) : (wfill w l).length = w := by
  rw [wfill_eq]; simp; omega

/-- the binary digits of `n < 2^w` (`w > 0`) are at most `w` -/
theorem natBitsLE_length (f : Nat) : ∀ (n w : Nat), n < 2 ^ w → 0 < w → (natBitsLE f n).length ≤ w := by
  induction f with
  | zero => intro n w _ _; simp [natBitsLE]
  | succ f ih =>
    intro n w hn hw
    unfold natBitsLE
    split
    · simp; omega
    · rename_i h2
      obtain ⟨w', rfl⟩ : ∃ w', w = w' + 1 := ⟨w - 1, by omega⟩
      have hw' : 0 < w' := by
        rcases Nat.eq_zero_or_pos w' with h0 | h0
        · subst h0; simp at hn; omega
        · exact h0
      have hdiv : n / 2 < 2 ^ w' := by
        rw [Nat.pow_succ] at hn
        exact Nat.div_lt_of_lt_mul (by omega)
      have := ih (n / 2) w' hdiv hw'
      simp only [List.length_cons]
      omega

/-- a zero-filled list whose digits fit in `w` bits: nothing but zeros beyond `w` -/
theorem drop_fill_all_false (l : List Bool) (w k : Nat) (h : l.length ≤ w) :
    ((l ++ List.replicate k false).drop w).all (!·) = true := by
  rw [List.all_eq_true]
  intro x hx
  rw [List.drop_append, List.drop_eq_nil_of_le h, List.nil_append] at hx
  have := List.mem_of_mem_drop hx
  rw [List.mem_replicate] at this
  simp [this.2]

/-- cutting a zero-filled list at `w ≥` its digits and filling again is filling the digits -/
theorem fill_take_fill (l : List Bool) (w k : Nat) (h : l.length ≤ w) :
    wfill w ((l ++ List.replicate k false).take w) = wfill w l := by
  rw [List.take_append, List.take_of_length_le h, List.take_replicate]
  rw [wfill_eq, wfill_eq, List.append_assoc, List.replicate_append_replicate]
  congr 2
  simp only [List.length_append, List.length_replicate]
  omega

theorem qintTypes_widths : ∀ w ∈ QV.Gen.qintTypes.map (·.2), 2 ≤ w ∧ w ≤ 16 := by decide

/-- `const_to_qtype` types every `0 ≤ v < 2^16` -/
theorem constToQint_of_lt (v : Int) (h0 : 0 ≤ v) (h16 : v < ((2 ^ 16 : Nat) : Int)) :
    ∃ w', v < ((2 ^ w' : Nat) : Int) ∧ constToQint v = some (qintConst w' v) := by
  unfold constToQint
  cases hf : (QV.Gen.constQintCandidates.map (·.2)).find? (fun w => v < ((2 ^ w : Nat) : Int)) with
  | none =>
    have := List.find?_eq_none.mp hf 16 (by decide)
    simp at this
    omega
  | some w' =>
    have := List.find?_some hf
    exact ⟨w', by simpa using this, rfl⟩

/-- **the typed constant of an integer parameter is `Qint_w.const(v)`**: for a value of the declared
    `Qint[w]` the translator's typecast of the injected literal succeeds and is the `w`-bit encoding -/
theorem wCast_const_qint (w : Nat) (v : Int)
    (h : isValueOf (.qint w) (.atom (.i v)) = true) :
    (constToQint v).bind (fun l => wCast (.qint w) (.q l)) = some (.q (qintConst w v)) := by
  simp only [isValueOf, Bool.and_eq_true, decide_eq_true_eq] at h
  obtain ⟨⟨hw, h0⟩, hlt⟩ := h
  have hww := qintTypes_widths w (by simpa using hw)
  have h16 : v < ((2 ^ 16 : Nat) : Int) := by
    have : (2 ^ w : Nat) ≤ 2 ^ 16 := Nat.pow_le_pow_right (by omega) hww.2
    omega
  obtain ⟨w', hlt', hc⟩ := constToQint_of_lt v h0 h16
  rw [hc]
  simp only [Option.bind, wCast]
  -- both encodings are fills of the digits of `v`
  have hm' : (v % ((2 ^ w' : Nat) : Int)) = v := Int.emod_eq_of_lt h0 hlt'
  have hm : (v % ((2 ^ w : Nat) : Int)) = v := Int.emod_eq_of_lt h0 hlt
  have hn : v.toNat < 2 ^ w := by omega
  have hlen := natBitsLE_length 64 v.toNat w hn (by omega)
  unfold qintConst
  simp only [hm', hm]
  rw [wfill_eq w']
  rw [drop_fill_all_false _ _ _ hlen, if_pos rfl, fill_take_fill _ _ _ hlen]

/-- a width-aware value has the shape of a declared type -/
def hasTy : Ty → WV → Prop
  | .bool, .b _ => True
  | .qint w, .q l => l.length = w
  | .tuple ts, .tup vs => hasTyList ts vs
  | _, _ => False
where hasTyList : List Ty → List WV → Prop
  | [], [] => True
  | t :: ts, v :: vs => hasTy t v ∧ hasTyList ts vs
  | _, _ => False

/-- `Qint_w.const` has exactly `w` bits -/
theorem qintConst_length (w : Nat) (v : Int) (hw : 0 < w) : (qintConst w v).length = w := by
  unfold qintConst
  apply wfill_length
  apply natBitsLE_length _ _ _ _ hw
  have hpos : (0 : Int) < ((2 ^ w : Nat) : Int) := by
    have : 0 < 2 ^ w := Nat.two_pow_pos w
    omega
  have h1 := Int.emod_nonneg v (show ((2 ^ w : Nat) : Int) ≠ 0 by omega)
  have h2 := Int.emod_lt_of_pos v hpos
  generalize (2 ^ w : Nat) = m at *
  omega

/- a value of the declared type: the injected literal evaluates, the typecast to the declared type succeeds and
   the result has the shape of the declared type (mutual structural recursion over the nested `Ty`) -/
mutual
theorem typed_defined (q : Quirks) : ∀ (t : Ty) (v : PyVal), isValueOf t v = true →
    ∃ y x, evalExp (WAlg q) Env.empty (toVal v) = some y ∧ wCast t y = some x ∧ hasTy t x
  | .bool, .atom (.b b), _ => ⟨.b b, .b b, by simp [toVal, evalExp, WAlg], by simp [wCast], trivial⟩
  | .bool, .atom (.i _), h => by simp [isValueOf] at h
  | .bool, .atom (.s _), h => by simp [isValueOf] at h
  | .bool, .iter _, h => by simp [isValueOf] at h
  | .qint w, .atom (.i v), h => by
      have hc := wCast_const_qint w v h
      have hw : 0 < w := by
        simp only [isValueOf, Bool.and_eq_true, decide_eq_true_eq] at h
        have := qintTypes_widths w (by simpa using h.1.1)
        omega
      cases hl : constToQint v with
      | none => simp [hl] at hc
      | some l =>
        simp only [hl, Option.bind] at hc
        exact ⟨.q l, .q (qintConst w v), by simp [toVal, evalExp, WAlg, hl], hc,
          qintConst_length w v hw⟩
  | .qint _, .atom (.b _), h => by simp [isValueOf] at h
  | .qint _, .atom (.s _), h => by simp [isValueOf] at h
  | .qint _, .iter _, h => by simp [isValueOf] at h
  | .tuple ts, .iter vs, h => by
      simp only [isValueOf, Bool.and_eq_true] at h
      obtain ⟨ys, xs, he, hc, ht⟩ := typed_defined_list q ts vs h.2
      refine ⟨.tup ys, .tup xs, ?_, by simp [wCast, hc], ht⟩
      simp only [toVal, evalExp, he]
      rfl
  | .tuple _, .atom _, h => by simp [isValueOf] at h
  | .other _, _, h => by simp [isValueOf] at h
theorem typed_defined_list (q : Quirks) : ∀ (ts : List Ty) (vs : List PyVal), isValueOfList ts vs = true →
    ∃ ys xs, evalList (WAlg q) Env.empty (toValList vs) = some ys ∧ wCastList ts ys = some xs ∧
      hasTy.hasTyList ts xs
  | [], [], _ => ⟨[], [], by simp [toValList, evalList], by simp [wCastList], trivial⟩
  | t :: ts, v :: vs, h => by
      simp only [isValueOfList, Bool.and_eq_true] at h
      obtain ⟨y, x, he, hc, ht⟩ := typed_defined q t v h.1
      obtain ⟨ys, xs, hes, hcs, hts⟩ := typed_defined_list q ts vs h.2
      exact ⟨y :: ys, x :: xs, by simp [toValList, evalList, he, hes], by simp [wCastList, hc, hcs],
        ⟨ht, hts⟩⟩
  | [], _ :: _, h => by simp [isValueOfList] at h
  | _ :: _, [], h => by simp [isValueOfList] at h
end


end QV.Bind
