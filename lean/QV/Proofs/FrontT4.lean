import QV.Proofs.FrontT3
/-! Soundness of `QV.Front.tr` w.r.t. the widened semantics `QV.Sem.semT`, part 4: if-expressions (bool, `Qint`
with widening, `Qchar`, tuples of one type through the element-wise `ITE` over flat positions), `and` / `or`,
tuple literals. -/
namespace QV.Sem
open QV QV.Arith QV.Front

set_option linter.unusedSimpArgs false
set_option linter.unusedVariables false

theorem bne_bool_qchar : (Ty.bool != Ty.qchar) = true := rfl
theorem bne_bool_tuple (ts : List Ty) : (Ty.bool != Ty.tuple ts) = true := rfl
theorem bne_qint_qchar (w : Nat) : (Ty.qint w != Ty.qchar) = true := rfl
theorem bne_qint_tuple (w : Nat) (ts : List Ty) : (Ty.qint w != Ty.tuple ts) = true := rfl
theorem bne_qchar_qint (w : Nat) : (Ty.qchar != Ty.qint w) = true := rfl
theorem bne_qchar_tuple (ts : List Ty) : (Ty.qchar != Ty.tuple ts) = true := rfl
theorem bne_tuple_qint (w : Nat) (ts : List Ty) : (Ty.tuple ts != Ty.qint w) = true := rfl
theorem bne_tuple_qchar (ts : List Ty) : (Ty.tuple ts != Ty.qchar) = true := rfl
theorem bne_qchar_qchar : (Ty.qchar != Ty.qchar) = false := rfl

/-- the element-wise `ITE` of two list values: it stops at the shorter one and wants expressions up to there -/
theorem iteZip_ok (c : BExp) : ∀ (x y r : List Val), iteZip c x y = .ok r →
    ∃ as bs : List BExp, as.length = bs.length ∧ r = (List.zipWith (BExp.ite c) as bs).map Val.atom ∧
      ((x = as.map Val.atom ∧ y.take as.length = bs.map Val.atom) ∨
       (y = bs.map Val.atom ∧ x.take bs.length = as.map Val.atom)) := by
  intro x
  induction x with
  | nil =>
    intro y r h
    simp only [iteZip, pure, Except.pure, Except.ok.injEq] at h
    subst h
    exact ⟨[], [], rfl, rfl, Or.inl ⟨rfl, by simp⟩⟩
  | cons v ts ih =>
    intro y r h
    cases y with
    | nil =>
      have : r = [] := by
        cases v <;> simp only [iteZip, pure, Except.pure, Except.ok.injEq] at h <;> exact h.symm
      subst this
      exact ⟨[], [], rfl, rfl, Or.inr ⟨rfl, by simp⟩⟩
    | cons w fs =>
      cases v with
      | list _ => simp [iteZip, throw, throwThe, MonadExceptOf.throw] at h
      | atom t =>
        cases w with
        | list _ => simp [iteZip, throw, throwThe, MonadExceptOf.throw] at h
        | atom f =>
          simp only [iteZip, bind_ok, pure, Except.pure, Except.ok.injEq] at h
          obtain ⟨r', hr', rfl⟩ := h
          obtain ⟨as, bs, hl, rfl, hor⟩ := ih fs r' hr'
          refine ⟨t :: as, f :: bs, by simp [hl], by simp, ?_⟩
          rcases hor with ⟨h1, h2⟩ | ⟨h1, h2⟩
          · exact Or.inl ⟨by simp [h1], by simp [h2]⟩
          · exact Or.inr ⟨by simp [h1], by simp [h2]⟩

theorem evalBits_zipWith_ite (ρ : QV.Env) (c : BExp) (x y : List BExp) (h : x.length = y.length) :
    evalBits ρ (List.zipWith (BExp.ite c) x y) = if c.eval ρ then evalBits ρ x else evalBits ρ y := by
  induction x generalizing y with
  | nil => cases y <;> simp_all [evalBits]
  | cons a as ih =>
    cases y with
    | nil => simp at h
    | cons b bs =>
      simp only [List.length_cons, Nat.add_right_cancel_iff] at h
      have := ih bs h
      simp only [evalBits, List.zipWith_cons_cons, List.map_cons, BExp.eval] at this ⊢
      rw [this]
      cases c.eval ρ <;> simp

theorem iteT_den_int (ρ : QV.Env) (cb : BExp) (x y a b : List BExp) (n : Nat)
    (hx : x.length = n) (hy : y.length = n) (hvx : val ρ x = val ρ a) (hvy : val ρ y = val ρ b)
    (hn : n = max a.length b.length) :
    DenT ρ (.qint n) (Val.list ((List.zipWith (BExp.ite cb) x y).map .atom))
      (.int (max a.length b.length) (if cb.eval ρ then val ρ a else val ρ b)) := by
  subst hn
  have := DenT.mk_int (ρ := ρ) (List.zipWith (BExp.ite cb) x y) (max a.length b.length)
    (if cb.eval ρ then val ρ a else val ρ b)
    (by rw [List.length_zipWith, hx, hy]; omega)
    (by rw [val_zipWith_ite ρ cb x y (by omega), hvx, hvy])
  exact this

theorem soundT_ite (ρ : QV.Env) (env : Front.Env) (σ : TEnv) (c l r : PExp)
    (ihc : SoundT ρ env σ c) (ihl : SoundT ρ env σ l) (ihr : SoundT ρ env σ r) :
    SoundT ρ env σ (.ite c l r) := by
  intro s t v s' hw h
  rw [tr] at h
  simp only [run_bind_ok] at h
  obtain ⟨⟨ct, cv⟩, s0, h0, ⟨lt, lv⟩, s1, h1, ⟨rt, rv⟩, s2, h2, h3⟩ := h
  simp only [wellT, Bool.and_eq_true, Bool.not_eq_true', Bool.or_eq_false_iff, Bool.and_eq_false_iff] at hw
  obtain ⟨⟨⟨hwc, hwl⟩, hwr⟩, hmix1, hmix2⟩ := hw
  obtain ⟨svc, hsc, hdc⟩ := ihc _ _ _ _ hwc h0
  obtain ⟨svl, hsl, hdl⟩ := ihl _ _ _ _ hwl h1
  obtain ⟨svr, hsr, hdr⟩ := ihr _ _ _ _ hwr h2
  cases hdc with
  | int cbits =>
    simp only [bne_qint_bool, if_true, run_bind_ok, run_throw_ok, false_and, exists_false] at h3
  | char cbits hc =>
    simp only [bne_qchar_bool, if_true, run_bind_ok, run_throw_ok, false_and, exists_false] at h3
  | tup cvs csvs _ _ =>
    simp only [bne_tuple_bool, if_true, run_bind_ok, run_throw_ok, false_and, exists_false] at h3
  | bool cb =>
    simp only [bne_bool_bool, Bool.false_eq_true, if_false, run_bind_ok, run_lift_ok, atomOf_atom,
      Except.ok.injEq] at h3
    obtain ⟨_, _, ⟨rfl, rfl⟩, h3⟩ := h3
    cases hdl with
    | bool a =>
      cases hdr with
      | bool b =>
        simp only [bne_bool_bool, Bool.false_eq_true, if_false, beq_bool_bool, if_true, run_bind_ok,
          run_lift_ok, atomOf_atom, Except.ok.injEq, run_pure_ok] at h3
        obtain ⟨_, _, ⟨rfl, rfl⟩, _, _, ⟨rfl, rfl⟩, h4, _⟩ := h3
        cases h4
        refine ⟨.bool (if cb.eval ρ then a.eval ρ else b.eval ρ), by simp [semT, hsc, hsl, hsr, iteT], ?_⟩
        exact DenT.mk_bool _ _ (by simp [BExp.eval])
      | int b =>
        simp only [bne_bool_qint, if_true, Ty.size?, run_bind_ok, run_throw_ok, false_and,
          exists_false] at h3
      | char b hb =>
        simp only [bne_bool_qchar, if_true, Ty.size?, run_bind_ok, run_throw_ok, false_and,
          exists_false] at h3
      | tup b sb _ _ =>
        simp only [bne_bool_tuple, if_true, Ty.size?, run_bind_ok, run_throw_ok, false_and,
          exists_false] at h3
    | int a =>
      cases hdr with
      | bool b =>
        simp only [bne_qint_bool, if_true, Ty.size?, run_bind_ok, run_throw_ok, false_and,
          exists_false] at h3
      | char b hb => simp [hsl, hsr, isIntO, isCharO] at hmix2
      | tup b sb _ _ =>
        simp only [bne_qint_tuple, if_true, Ty.size?, run_bind_ok, run_throw_ok, false_and,
          exists_false] at h3
      | int b =>
        simp only [bne_qint_qint, Ty.size?, run_ite_ok, run_bind_ok, run_lift_ok, bitsOf_ofBits,
          Except.ok.injEq, beq_qint_bool, Bool.false_eq_true, false_and, false_or, not_false_eq_true,
          true_and] at h3
        simp only [Val.ofBits, iteZip_atoms, run_bind_ok, run_lift_ok, Except.ok.injEq, run_pure_ok] at h3
        have hsem : semT σ (.ite c l r)
            = some (.int (max a.length b.length) (if cb.eval ρ then val ρ a else val ρ b)) := by
          simp [semT, hsc, hsl, hsr, iteT]
        refine ⟨_, hsem, ?_⟩
        rcases h3 with ⟨hc1, (⟨hc2, _, _, ⟨rfl, rfl⟩, _, _, ⟨rfl, rfl⟩, h4, _⟩ |
            ⟨hc2, (⟨hc3, _, _, ⟨rfl, rfl⟩, _, _, ⟨rfl, rfl⟩, h4, _⟩ | ⟨hc3, _, _, ⟨rfl, rfl⟩, h4, _⟩)⟩)⟩ |
            ⟨hc1, _, _, ⟨rfl, rfl⟩, h4, _⟩
        · cases h4
          exact iteT_den_int ρ cb a (fill a.length b) a b a.length rfl (by rw [fill_length]; omega) rfl
            (val_fill ρ _ _) (by omega)
        · cases h4
          exact iteT_den_int ρ cb (fill b.length a) b a b b.length (by rw [fill_length]; omega) rfl
            (val_fill ρ _ _) rfl (by omega)
        · cases h4
          have : a.length = b.length := by omega
          exact iteT_den_int ρ cb a b a b a.length rfl (by omega) rfl rfl (by omega)
        · cases h4
          have : a.length = b.length := by simpa using hc1
          exact iteT_den_int ρ cb a b a b a.length rfl (by omega) rfl rfl (by omega)
    | char a ha =>
      cases hdr with
      | bool b =>
        simp only [bne_qchar_bool, if_true, Ty.size?, run_bind_ok, run_throw_ok, false_and,
          exists_false] at h3
      | int b => simp [hsl, hsr, isIntO, isCharO] at hmix1
      | tup b sb _ _ =>
        simp only [bne_qchar_tuple, if_true, Ty.size?, run_bind_ok, run_throw_ok, false_and,
          exists_false] at h3
      | char b hb =>
        simp only [bne_qchar_qchar, Bool.false_eq_true, if_false, beq_qchar_bool] at h3
        simp only [Val.ofBits, iteZip_atoms, run_bind_ok, run_lift_ok, Except.ok.injEq, run_pure_ok] at h3
        obtain ⟨_, _, ⟨rfl, rfl⟩, h4, _⟩ := h3
        cases h4
        refine ⟨.char (if cb.eval ρ then val ρ a else val ρ b), by simp [semT, hsc, hsl, hsr, iteT], ?_⟩
        have := DenT.mk_char (ρ := ρ) (List.zipWith (BExp.ite cb) a b) (if cb.eval ρ then val ρ a else val ρ b)
          (by rw [List.length_zipWith, ha, hb]; rfl) (val_zipWith_ite ρ cb a b (by omega))
        exact this
    | tup a sa hwa hba =>
      cases hdr with
      | bool b =>
        simp only [bne_tuple_bool, if_true, Ty.size?, run_bind_ok, run_throw_ok, false_and,
          exists_false] at h3
      | int b =>
        simp only [bne_tuple_qint, if_true, Ty.size?, run_bind_ok, run_throw_ok, false_and,
          exists_false] at h3
      | char b hb =>
        simp only [bne_tuple_qchar, if_true, Ty.size?, run_bind_ok, run_throw_ok, false_and,
          exists_false] at h3
      | tup b sb hwb hbb =>
        by_cases hne : (Ty.tuple (TVal.tyList sa) != Ty.tuple (TVal.tyList sb)) = true
        · simp only [hne, if_true, Ty.size?, run_bind_ok, run_throw_ok, false_and, exists_false] at h3
        · simp only [hne, Bool.false_eq_true, if_false, beq_tuple_bool, run_bind_ok, run_lift_ok,
            Except.ok.injEq, run_pure_ok] at h3
          obtain ⟨rz, _, ⟨hz, rfl⟩, h4, _⟩ := h3
          cases h4
          have hty : TVal.tyList sa = TVal.tyList sb := by
            have := (Ty.bne_iff _ _).not.mp hne
            simpa using this
          obtain ⟨as, bs, hl, rfl, hor⟩ := iteZip_ok cb a b rz hz
          have hna : (Val.flattenList a).length = Ty.bitsList (TVal.tyList sa) := by
            have := congrArg List.length hba
            rw [TVal.bitsList_length] at this
            simpa [evalBits] using this
          have hnb : (Val.flattenList b).length = Ty.bitsList (TVal.tyList sa) := by
            have := congrArg List.length hbb
            rw [TVal.bitsList_length, ← hty] at this
            simpa [evalBits] using this
          have hfl : Val.flattenList a = as ∧ Val.flattenList b = bs := by
            rcases hor with ⟨h1, h2⟩ | ⟨h1, h2⟩
            · have e1 : Val.flattenList a = as := by rw [h1, flattenList_atoms]
              refine ⟨e1, ?_⟩
              rw [hl] at h2
              exact flatten_of_take b bs h2 (by rw [hnb, ← hna, e1, hl])
            · have e1 : Val.flattenList b = bs := by rw [h1, flattenList_atoms]
              refine ⟨?_, e1⟩
              rw [← hl] at h2
              exact flatten_of_take a as h2 (by rw [hna, ← hnb, e1, hl])
          rw [hfl.1] at hba
          rw [hfl.2] at hbb
          have hbeq : Ty.beqList (TVal.tyList sa) (TVal.tyList sb) = true := (Ty.beqList_iff _ _).mpr hty
          refine ⟨.tuple (if cb.eval ρ then sa else sb), by simp [semT, hsc, hsl, hsr, iteT, hbeq], ?_⟩
          apply DenT.mk_tup
          · cases cb.eval ρ <;> simp [hty]
          · cases cb.eval ρ <;> simp [hwa, hwb]
          · rw [flattenList_atoms, evalBits_zipWith_ite ρ cb as bs hl, hba, hbb]
            cases cb.eval ρ <;> simp

end QV.Sem
